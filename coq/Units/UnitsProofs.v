(** C18 — proofs about the unit model that hold for ANY order of the alternations (they go through
    on the pinned tree and after the reordering fix): the factor table is the SI table, the algebra
    of [getSIScaling] over parsed units (formula, reciprocity, composition), symmetry of
    [isScalable], rejection of different base / power and of non-SI strings, the declarative
    meaning of [isSIUnit], and the correctness of the brute-force oracle [spec_parse].
    The statements about the concrete grammar ([parse_print] and what follows from it) are in
    UnitsGrammarProofs.v. *)
From Coq Require Import ZArith Bool String Ascii List Lia.
Require Import NixV.Base.Prelude NixV.Gen.GenTables NixV.Units.UnitsModel NixV.Units.UnitsRegexProofs.
Import ListNotations.
Local Open Scope string_scope.
Local Open Scope bool_scope.
Local Open Scope Z_scope.

(* ------------------------------------------------------------------------------------------ *)
(** * The generated constants *)

(** the hand-written [rPOWER] is the expression of the source *)
Lemma POWER_pinned : POWER = POWER_expected.
Proof. reflexivity. Qed.

Lemma mem_In : forall x l, mem x l = true <-> In x l.
Proof.
  intros x l. unfold mem. rewrite existsb_exists. split.
  - intros [y [Hin He]]. apply String.eqb_eq in He. now subst.
  - intros Hin. exists x. split; [assumption | apply String.eqb_refl].
Qed.

(** the stored double (exact rational num/den) is within a relative 2^-53 of 10^k *)
Definition factor_entry_ok (e : string * ((Z * Z) * option Z)) : bool :=
  match e with
  | (_, ((num, den), Some k)) =>
      (0 <? den) &&
      (if 0 <=? k then Z.abs (num - 10 ^ k * den) * 2 ^ 53 <=? 10 ^ k * den
       else Z.abs (num * 10 ^ (- k) - den) * 2 ^ 53 <=? den)
  | _ => false
  end.

Definition table_is_SI_b : bool :=
  forallb (fun pe => match factor_at (fst pe) with Ok k => k =? snd pe | _ => false end) SI_PREFIX_EXP &&
  forallb (fun p => mem p (map fst SI_PREFIX_EXP)) PREFIXES &&
  forallb (fun pe => mem (fst pe) PREFIXES) SI_PREFIX_EXP &&
  forallb (fun e => mem (fst e) (map fst SI_PREFIX_EXP)) PREFIX_FACTORS &&
  forallb factor_entry_ok PREFIX_FACTORS.

(* stated on the unfolded sweep: using it needs no conversion (the kernel would re-evaluate the sweep) *)
Lemma table_is_SI_check :
  forallb (fun pe => match factor_at (fst pe) with Ok k => k =? snd pe | _ => false end) SI_PREFIX_EXP &&
  forallb (fun p => mem p (map fst SI_PREFIX_EXP)) PREFIXES &&
  forallb (fun pe => mem (fst pe) PREFIXES) SI_PREFIX_EXP &&
  forallb (fun e => mem (fst e) (map fst SI_PREFIX_EXP)) PREFIX_FACTORS &&
  forallb factor_entry_ok PREFIX_FACTORS = true.
Proof. vm_cast_no_check (@eq_refl bool true). Qed.

(** The prefix table of the source is the SI table: every SI prefix has its SI exponent, the
    alternation PREFIXES lists exactly the SI prefixes, the table has no further entries, and
    every stored double is the one nearest to its power of ten. *)
Theorem table_is_SI :
  (forall p e, In (p, e) SI_PREFIX_EXP -> factor_at p = Ok e) /\
  (forall p, In p PREFIXES <-> In p (map fst SI_PREFIX_EXP)) /\
  (forall e, In e PREFIX_FACTORS -> In (fst e) (map fst SI_PREFIX_EXP) /\ factor_entry_ok e = true).
Proof.
  pose proof table_is_SI_check as H.
  rewrite !andb_true_iff in H. destruct H as [[[[H1 H2] H3] H4] H5].
  split; [|split].
  - intros p e Hin. rewrite forallb_forall in H1. specialize (H1 _ Hin). cbn [fst snd] in H1.
    remember (factor_at p) as r eqn:Er. clear Er. destruct r as [k| |]; try discriminate H1.
    apply Z.eqb_eq in H1. now subst.
  - intros p. split.
    + intros Hin. rewrite forallb_forall in H2. apply mem_In. now apply H2.
    + intros Hin. apply in_map_iff in Hin. destruct Hin as [[q e] [<- Hin]].
      rewrite forallb_forall in H3. apply mem_In. exact (H3 _ Hin).
  - intros e Hin. rewrite forallb_forall in H4, H5. split; [apply mem_In; now apply H4 | now apply H5].
Qed.

(** exponent of a unit's prefix as the code obtains it: no prefix = factor 1 *)
Definition prefix_exp (p : string) : res Z := if is_empty p then Ok 0 else factor_at p.
(** the power as the code obtains it: no power = 1, otherwise [stoi] *)
Definition power_of (w : string) : res Z := if is_empty w then Ok 1 else stoi w.

(** on the SI prefixes (and the empty prefix) the code's exponent is the SI exponent *)
Lemma prefix_exp_si : forall p, In p ALL_PREFIXES -> exists e, si_exp p = Some e /\ prefix_exp p = Ok e.
Proof.
  intros p [<-|Hin]; [exists 0; now split|].
  destruct table_is_SI as [H1 [H2 _]]. apply H2 in Hin. apply in_map_iff in Hin.
  destruct Hin as [[q e] [Hq Hin]]. cbn in Hq. subst q. exists e.
  assert (Hne : is_empty p = false).
  { destruct p; [|reflexivity]. exfalso. revert Hin. clear. cbn. intuition congruence. }
  unfold prefix_exp, si_exp. rewrite Hne. split; [|now apply H1].
  assert (Hall : forallb (fun pe => match find (fun e0 => String.eqb (fst e0) (fst pe)) SI_PREFIX_EXP with
                                    | Some (_, k) => k =? snd pe | None => false end) SI_PREFIX_EXP = true)
    by (vm_compute; reflexivity).
  rewrite forallb_forall in Hall. specialize (Hall _ Hin). cbn [fst snd] in Hall.
  destruct (find (fun e0 => String.eqb (fst e0) p) SI_PREFIX_EXP) as [[q k]|]; [|discriminate].
  apply Z.eqb_eq in Hall. now subst.
Qed.

(* ------------------------------------------------------------------------------------------ *)
(** * [getSIScaling] / [isScalable] over parsed units *)

Lemma eqb_sym3 : forall a b c d : string, (negb (a =? b)%string || negb (c =? d)%string) = (negb (b =? a)%string || negb (d =? c)%string).
Proof. intros. now rewrite (String.eqb_sym a b), (String.eqb_sym c d). Qed.

(** what [isScalable] computes once both units are SI units and have been split *)
Lemma isScalable_parsed : forall a b pa ua wa pb ub wb,
  isSIUnit a = true -> isSIUnit b = true ->
  splitUnit a = Ok (pa, ua, wa) -> splitUnit b = Ok (pb, ub, wb) ->
  isScalable a b = Ok ((ua =? ub)%string && (wa =? wb)%string).
Proof.
  intros a b pa ua wa pb ub wb Ha Hb Sa Sb. unfold isScalable. rewrite Ha, Hb, Sa, Sb. cbn.
  destruct (ua =? ub)%string, (wa =? wb)%string; reflexivity.
Qed.

(** ... and what [getSIScaling] computes *)
Lemma getSIScaling_parsed : forall a b pa ua wa pb ub wb,
  isSIUnit a = true -> isSIUnit b = true ->
  splitUnit a = Ok (pa, ua, wa) -> splitUnit b = Ok (pb, ub, wb) ->
  getSIScaling a b =
    if negb ((ua =? ub)%string && (wa =? wb)%string) then Err "nix::InvalidUnit"
    else if (pa =? pb)%string then Ok 0
    else bind (prefix_exp pa) (fun ea => bind (prefix_exp pb) (fun eb =>
         bind (power_of wa) (fun n => Ok ((ea - eb) * n)))).
Proof.
  intros a b pa ua wa pb ub wb Ha Hb Sa Sb. unfold getSIScaling.
  rewrite (isScalable_parsed _ _ _ _ _ _ _ _ Ha Hb Sa Sb). cbn [bind].
  destruct ((ua =? ub)%string && (wa =? wb)%string) eqn:Hs; cbn [negb]; [|reflexivity].
  rewrite Sa, Sb. cbn [bind]. apply andb_prop in Hs. destruct Hs as [_ Hw]. rewrite Hw, andb_true_r.
  destruct (pa =? pb)%string eqn:Hp; [reflexivity|].
  unfold prefix_exp, power_of.
  destruct (is_empty pa) eqn:Ea, (is_empty pb) eqn:Eb; cbn [andb negb].
  - apply is_empty_true in Ea, Eb. subst. now rewrite String.eqb_refl in Hp.
  - cbn [bind]. destruct (factor_at pb) as [eb| |]; cbn [bind]; try reflexivity.
    destruct (is_empty wa); cbn [negb bind]; [f_equal; lia|].
    destruct (stoi wa); cbn [bind]; try reflexivity; f_equal; lia.
  - destruct (factor_at pa) as [ea| |]; cbn [bind]; try reflexivity.
    destruct (is_empty wa); cbn [negb bind]; [f_equal; lia|].
    destruct (stoi wa); cbn [bind]; try reflexivity; f_equal; lia.
  - destruct (factor_at pa) as [ea| |]; cbn [bind]; try reflexivity.
    destruct (factor_at pb) as [eb| |]; cbn [bind]; try reflexivity.
    destruct (is_empty wa); cbn [negb bind]; [f_equal; lia|].
    destruct (stoi wa); cbn [bind]; try reflexivity; f_equal; lia.
Qed.

(** an answer of [getSIScaling] means both units are SI units that were split *)
Lemma getSIScaling_ok_inv : forall a b k, getSIScaling a b = Ok k ->
  exists pa ua wa pb ub wb, isSIUnit a = true /\ isSIUnit b = true /\
    splitUnit a = Ok (pa, ua, wa) /\ splitUnit b = Ok (pb, ub, wb).
Proof.
  intros a b k H. unfold getSIScaling, isScalable in H.
  destruct (isSIUnit a) eqn:Ha; [|cbn in H; discriminate].
  destruct (isSIUnit b) eqn:Hb; [|cbn in H; discriminate].
  cbn [andb negb] in H.
  destruct (splitUnit a) as [[[pa ua] wa]| |] eqn:Sa; cbn [bind] in H; try discriminate.
  destruct (splitUnit b) as [[[pb ub] wb]| |] eqn:Sb; cbn [bind] in H; try discriminate.
  now exists pa, ua, wa, pb, ub, wb.
Qed.

(** FACTOR FORMULA over parsed units: two SI units with the same base and the same power whose
    prefixes have exponents ea, eb and whose power is n scale by 10^(n * (ea - eb)). *)
Theorem factor_formula_parsed : forall a b pa pb u w ea eb n,
  isSIUnit a = true -> isSIUnit b = true ->
  splitUnit a = Ok (pa, u, w) -> splitUnit b = Ok (pb, u, w) ->
  prefix_exp pa = Ok ea -> prefix_exp pb = Ok eb -> power_of w = Ok n ->
  getSIScaling a b = Ok (n * (ea - eb)).
Proof.
  intros a b pa pb u w ea eb n Ha Hb Sa Sb Ea Eb Hn.
  rewrite (getSIScaling_parsed _ _ _ _ _ _ _ _ Ha Hb Sa Sb). rewrite !String.eqb_refl. cbn [andb negb].
  destruct (pa =? pb)%string eqn:Hp.
  - apply String.eqb_eq in Hp. subst pb. rewrite Ea in Eb. injection Eb as <-. f_equal. lia.
  - rewrite Ea, Eb, Hn. cbn [bind]. f_equal. lia.
Qed.

(** RECIPROCAL: whenever a -> b has factor 10^k, b -> a has factor 10^-k (arbitrary strings) *)
Theorem reciprocal : forall a b k, getSIScaling a b = Ok k -> getSIScaling b a = Ok (- k).
Proof.
  intros a b k H. destruct (getSIScaling_ok_inv _ _ _ H) as [pa [ua [wa [pb [ub [wb [Ha [Hb [Sa Sb]]]]]]]]].
  rewrite (getSIScaling_parsed _ _ _ _ _ _ _ _ Ha Hb Sa Sb) in H.
  rewrite (getSIScaling_parsed _ _ _ _ _ _ _ _ Hb Ha Sb Sa).
  destruct ((ua =? ub)%string && (wa =? wb)%string) eqn:Hs; cbn [negb] in H; [|discriminate].
  apply andb_prop in Hs. destruct Hs as [Hu Hw]. apply String.eqb_eq in Hu, Hw. subst ub wb.
  rewrite !String.eqb_refl. cbn [andb negb]. rewrite (String.eqb_sym pb pa).
  destruct (pa =? pb)%string; [injection H as <-; reflexivity|].
  destruct (prefix_exp pa) as [ea| |]; cbn [bind] in H; try discriminate.
  destruct (prefix_exp pb) as [eb| |]; cbn [bind] in H; try discriminate.
  destruct (power_of wa) as [n| |]; cbn [bind] in H; try discriminate.
  injection H as <-. cbn [bind]. f_equal. lia.
Qed.

(** COMPOSE: a -> b -> c composes to a -> c (arbitrary strings) *)
Theorem compose : forall a b c k1 k2,
  getSIScaling a b = Ok k1 -> getSIScaling b c = Ok k2 -> getSIScaling a c = Ok (k1 + k2).
Proof.
  intros a b c k1 k2 H1 H2.
  destruct (getSIScaling_ok_inv _ _ _ H1) as [pa [ua [wa [pb [ub [wb [Ha [Hb [Sa Sb]]]]]]]]].
  destruct (getSIScaling_ok_inv _ _ _ H2) as [pb' [ub' [wb' [pc [uc [wc [_ [Hc [Sb' Sc]]]]]]]]].
  rewrite Sb in Sb'. injection Sb' as <- <- <-.
  rewrite (getSIScaling_parsed _ _ _ _ _ _ _ _ Ha Hb Sa Sb) in H1.
  rewrite (getSIScaling_parsed _ _ _ _ _ _ _ _ Hb Hc Sb Sc) in H2.
  rewrite (getSIScaling_parsed _ _ _ _ _ _ _ _ Ha Hc Sa Sc).
  destruct ((ua =? ub)%string && (wa =? wb)%string) eqn:Hs1; cbn [negb] in H1; [|discriminate].
  destruct ((ub =? uc)%string && (wb =? wc)%string) eqn:Hs2; cbn [negb] in H2; [|discriminate].
  apply andb_prop in Hs1, Hs2. destruct Hs1 as [Hu1 Hw1], Hs2 as [Hu2 Hw2].
  apply String.eqb_eq in Hu1, Hw1, Hu2, Hw2. subst ub wb uc wc.
  rewrite !String.eqb_refl. cbn [andb negb].
  destruct (pa =? pb)%string eqn:Hab.
  - apply String.eqb_eq in Hab. subst pb. injection H1 as <-. rewrite H2. reflexivity.
  - destruct (pb =? pc)%string eqn:Hbc.
    + apply String.eqb_eq in Hbc. subst pc. injection H2 as <-. rewrite Hab, H1. f_equal. lia.
    + destruct (prefix_exp pa) as [ea| |] eqn:Ea; cbn [bind] in H1; try discriminate.
      destruct (prefix_exp pb) as [eb| |] eqn:Eb; cbn [bind] in H1, H2; try discriminate.
      destruct (prefix_exp pc) as [ec| |] eqn:Ec; cbn [bind] in H2; try discriminate.
      destruct (power_of wa) as [n| |]; cbn [bind] in H1, H2; try discriminate.
      injection H1 as <-. injection H2 as <-.
      destruct (pa =? pc)%string eqn:Hac.
      * apply String.eqb_eq in Hac. subst pc. rewrite Ea in Ec. injection Ec as <-. f_equal. lia.
      * cbn [bind]. f_equal. lia.
Qed.

(** SCALABILITY IS SYMMETRIC (arbitrary strings) *)
Theorem scalable_sym : forall a b v, isScalable a b = Ok v -> isScalable b a = Ok v.
Proof.
  intros a b v H. unfold isScalable in *. rewrite (andb_comm (isSIUnit b)).
  destruct (isSIUnit a && isSIUnit b); cbn [negb] in *; [|assumption].
  destruct (splitUnit a) as [[[pa ua] wa]| |]; cbn [bind] in H; try discriminate.
  destruct (splitUnit b) as [[[pb ub] wb]| |]; cbn [bind] in H |- *; try discriminate.
  now rewrite eqb_sym3.
Qed.

(** DIFFERENT BASE OR POWER IS REJECTED: units that split into different base units or different
    powers are not scalable and [getSIScaling] throws nix::InvalidUnit *)
Theorem different_base_or_power_rejected_parsed : forall a b pa ua wa pb ub wb,
  splitUnit a = Ok (pa, ua, wa) -> splitUnit b = Ok (pb, ub, wb) -> ua <> ub \/ wa <> wb ->
  isScalable a b = Ok false /\ getSIScaling a b = Err "nix::InvalidUnit".
Proof.
  intros a b pa ua wa pb ub wb Sa Sb Hd.
  assert (Hs : isScalable a b = Ok false).
  { unfold isScalable. destruct (isSIUnit a && isSIUnit b); cbn [negb]; [|reflexivity].
    rewrite Sa, Sb. cbn [bind].
    destruct (String.eqb_spec ua ub) as [->|Hu]; destruct (String.eqb_spec wa wb) as [->|Hw]; cbn; try reflexivity.
    destruct Hd; contradiction. }
  split; [assumption|]. unfold getSIScaling. rewrite Hs. reflexivity.
Qed.

(** NON-SI UNITS ARE REJECTED, whatever the other unit is *)
Theorem non_si_rejected_b : forall a b, isSIUnit a = false \/ isSIUnit b = false ->
  isScalable a b = Ok false /\ getSIScaling a b = Err "nix::InvalidUnit".
Proof.
  intros a b H.
  assert (Hs : isScalable a b = Ok false).
  { unfold isScalable. destruct H as [-> | ->]; [reflexivity | rewrite andb_false_r; reflexivity]. }
  split; [assumption|]. unfold getSIScaling. rewrite Hs. reflexivity.
Qed.

(* ------------------------------------------------------------------------------------------ *)
(** * What an SI unit is, without regular expressions *)

(** an atomic SI unit is prefix ++ base ++ power suffix with well-formed parts *)
Definition SI_atomic (s : string) : Prop := exists p u w, parts_ok p u w = true /\ s = print_unit p u w.

Definition is_sep (c : ascii) : Prop := c = "*"%char \/ c = "/"%char.

(** two or more atomic SI units joined by [*] or [/] *)
Inductive SI_chain : string -> Prop :=
| chain2 a c b : SI_atomic a -> is_sep c -> SI_atomic b -> SI_chain (a ++ String c b)
| chainS a c r : SI_atomic a -> is_sep c -> SI_chain r -> SI_chain (a ++ String c r).

Definition SI_unit (s : string) : Prop := SI_atomic s \/ SI_chain s.

Lemma digit19_facts : forall d, is_digit19 d = true ->
  is_digit d = true /\ Ascii.eqb d "-" = false /\ Ascii.eqb d "+" = false /\ Ascii.eqb d "^" = false.
Proof. intros [[] [] [] [] [] [] [] []]; vm_compute; intros H; try discriminate H; repeat split. Qed.

Lemma all_digits_spec : forall s, all_digits s = true <-> (forall c, In c (list_ascii_of_string s) -> is_digit c = true).
Proof.
  induction s as [|c s IH]; cbn.
  - split; [intros _ c [] | reflexivity].
  - rewrite andb_true_iff, IH. split.
    + intros [Hc Hs] c' [<-|Hin]; [assumption | now apply Hs].
    + intros H. split; [apply H; now left | intros c' Hin; apply H; now right].
Qed.

Lemma is_sign_cases : forall c, is_sign c = true -> c = "+"%char \/ c = "-"%char.
Proof.
  intros c H. unfold is_sign in H. apply orb_prop in H.
  destruct H as [H|H]; apply Ascii.eqb_eq in H; [now left | now right].
Qed.

(** the expression POWER matches exactly the non-empty well-formed power suffixes *)
Lemma power_matches : forall w, matches rPOWER w <-> (w <> "" /\ exists n, power_val w = Some n).
Proof.
  intros w. split.
  - intros H. unfold rPOWER in H.
    inversion H as [| | |a0 b0 x0 y0 Hc Hrest| | | | | | |]; subst. inversion Hc; subst.
    inversion Hrest as [| | |a1 b1 x1 y1 Hsg Hrest2| | | | | | |]; subst.
    inversion Hrest2 as [| | |a2 b2 x2 y2 Hd Hds| | | | | | |]; subst.
    inversion Hd as [| |f d Hd19| | | | | | | |]; subst.
    pose proof (proj2 (all_digits_spec _) (proj1 (matches_star_set _ _) Hds)) as Hds'. clear Hds. rename Hds' into Hds.
    destruct (digit19_facts _ Hd19) as [Hdig [Hm [Hp _]]].
    split; [discriminate|].
    inversion Hsg as [| | | | | |a3|a3 x3 Hs| | |]; subst.
    + cbn. rewrite Hm, Hp. cbn [all_digits]. rewrite Hd19, Hdig, Hds. cbn [andb]. eexists; reflexivity.
    + inversion Hs as [| |f c Hsc| | | | | | | |]; subst.
      destruct (is_sign_cases _ Hsc) as [-> | ->]; cbn; rewrite Hd19, Hdig, Hds; cbn [andb]; eexists; reflexivity.
  - intros [Hne [n Hn]]. destruct w as [|c t]; [contradiction|]. cbn in Hn.
    destruct (Ascii.eqb_spec c "^") as [->|]; cbn [negb] in Hn; [|discriminate].
    assert (Hbuild : forall sg d ds, (sg = "" \/ exists c, sg = String c "" /\ is_sign c = true) ->
              is_digit19 d = true -> all_digits ds = true -> matches rPOWER (String "^" (sg ++ String d ds))).
    { intros sg d ds Hsg Hd Hds. unfold rPOWER.
      change (String "^" (sg ++ String d ds)) with (String "^" "" ++ (sg ++ (String d "" ++ ds))).
      constructor; [constructor|]. constructor.
      - destruct Hsg as [-> | [c0 [-> Hc0]]]; [apply MOptN | apply MOptS; now constructor].
      - constructor; [now constructor|]. apply matches_star_set. now apply all_digits_spec. }
    destruct t as [|d t'].
    + discriminate.
    + destruct (Ascii.eqb_spec d "-") as [->|Hnm].
      * destruct t' as [|d2 r]; [discriminate|].
        destruct (is_digit19 d2) eqn:H19; cbn [andb] in Hn; [|discriminate].
        destruct (all_digits (String d2 r)) eqn:Had; [|discriminate].
        cbn in Had. apply andb_prop in Had. destruct Had as [_ Had].
        apply (Hbuild (String "-" "") d2 r); [right; exists "-"%char; now split | assumption | assumption].
      * destruct (Ascii.eqb_spec d "+") as [->|Hnp].
        -- destruct t' as [|d2 r]; [discriminate|].
           destruct (is_digit19 d2) eqn:H19; cbn [andb] in Hn; [|discriminate].
           destruct (all_digits (String d2 r)) eqn:Had; [|discriminate].
           cbn in Had. apply andb_prop in Had. destruct Had as [_ Had].
           apply (Hbuild (String "+" "") d2 r); [right; exists "+"%char; now split | assumption | assumption].
        -- destruct (is_digit19 d) eqn:H19; cbn [andb] in Hn; [|discriminate].
           destruct (all_digits (String d t')) eqn:Had; [|discriminate].
           cbn in Had. apply andb_prop in Had. destruct Had as [_ Had].
           apply (Hbuild "" d t'); [now left | assumption | assumption].
Qed.

Lemma power_suffix_ok : forall w, (w = "" \/ matches rPOWER w) <-> exists n, power_val w = Some n.
Proof.
  intros w. split.
  - intros [-> | H]; [exists 1; reflexivity | now apply power_matches in H].
  - intros H. destruct w as [|c t]; [now left|]. right. apply power_matches. split; [discriminate | assumption].
Qed.

Lemma parts_ok_spec : forall p u w, parts_ok p u w = true <->
  (p = "" \/ In p PREFIXES) /\ In u UNITS /\ exists n, power_val w = Some n.
Proof.
  intros p u w. unfold parts_ok. rewrite !andb_true_iff, orb_true_iff, is_empty_true, !mem_In.
  split.
  - intros [[Hp Hu] Hw]. repeat split; try assumption. destruct (power_val w) as [n|]; [now exists n | discriminate].
  - intros [Hp [Hu [n Hn]]]. repeat split; try assumption. now rewrite Hn.
Qed.

Lemma matches_atomic : forall s, matches r_atomic s <-> SI_atomic s.
Proof.
  intros s. unfold SI_atomic, print_unit. split.
  - intros H. unfold r_atomic in H.
    inversion H as [| | |a0 b0 x0 y0 Hp Hrest| | | | | | |]; subst.
    inversion Hrest as [| | |a1 b1 x1 y1 Hu Hw| | | | | | |]; subst.
    exists x0, x1, y1. split; [|reflexivity]. apply parts_ok_spec. repeat split.
    + inversion Hp; subst; [now left | right; now apply matches_alts].
    + now apply matches_alts.
    + apply power_suffix_ok. inversion Hw; subst; [now left | now right].
  - intros [p [u [w [Hok ->]]]]. apply parts_ok_spec in Hok. destruct Hok as [Hp [Hu Hw]].
    unfold r_atomic. constructor; [|constructor].
    + destruct Hp as [-> | Hp]; [apply MOptN | apply MOptS; now apply matches_alts].
    + now apply matches_alts.
    + apply power_suffix_ok in Hw. destruct Hw as [-> | Hw]; [apply MOptN | now apply MOptS].
Qed.

(** [isAtomicSIUnit] decides [SI_atomic] *)
Theorem isAtomicSIUnit_spec : forall s, isAtomicSIUnit s = true <-> SI_atomic s.
Proof. intros s. unfold isAtomicSIUnit. rewrite regex_match_spec. apply matches_atomic. Qed.

Definition r_sep : re := RAlt (RChr "*") (RChr "/").
Definition r_item : re := RSeq r_atomic r_sep.

Lemma matches_item : forall x, matches r_item x <-> exists a c, SI_atomic a /\ is_sep c /\ x = a ++ String c "".
Proof.
  intros x. split.
  - intros H. inversion H as [| | |a0 b0 x0 y0 Ha Hs| | | | | | |]; subst. apply matches_atomic in Ha.
    inversion Hs as [| | | |a1 b1 x1 Hc|a1 b1 x1 Hc| | | | |]; subst; inversion Hc; subst.
    + exists x0, "*"%char. repeat split; [assumption | now left].
    + exists x0, "/"%char. repeat split; [assumption | now right].
  - intros [a [c [Ha [Hc ->]]]]. constructor; [now apply matches_atomic|].
    destruct Hc as [-> | ->]; [apply MAltL | apply MAltR]; constructor.
Qed.

Lemma app_sep_assoc : forall a c r, (a ++ String c "") ++ r = a ++ String c r.
Proof. intros. now rewrite app_assoc_s. Qed.

Lemma star_items_chain : forall r y, matches r y -> r = RStar r_item ->
  forall last, SI_atomic last -> SI_unit (y ++ last).
Proof.
  intros r y H. induction H; intros Hr; try discriminate Hr; injection Hr as ->; intros last Hl.
  - now left.
  - apply matches_item in H. destruct H as [a0 [c [Ha [Hc ->]]]].
    rewrite app_assoc_s, app_sep_assoc. right.
    destruct (IHmatches2 eq_refl last Hl) as [Hat | Hch]; [now apply chain2 | now apply chainS].
Qed.

Lemma matches_compound : forall s, matches r_compound s <-> SI_chain s.
Proof.
  intros s. split.
  - intros H. unfold r_compound in H. fold r_sep in H. fold r_item in H.
    inversion H as [| | |a0 b0 x0 y0 Hplus Hlast| | | | | | |]; subst. apply matches_atomic in Hlast.
    inversion Hplus as [| | | | | | | | | |a1 x1 y1 Hitem Hstar]; subst.
    apply matches_item in Hitem. destruct Hitem as [a [c [Ha [Hc ->]]]].
    rewrite app_assoc_s, app_sep_assoc.
    destruct (star_items_chain _ _ Hstar eq_refl _ Hlast) as [Hat | Hch]; [now apply chain2 | now apply chainS].
  - intros H. unfold r_compound. fold r_sep. fold r_item. induction H as [a c b Ha Hc Hb | a c r Ha Hc Hr IH].
    + rewrite <- app_sep_assoc. constructor; [|now apply matches_atomic].
      rewrite <- (app_nil_r_s (a ++ String c "")). constructor; [|constructor].
      apply matches_item. now exists a, c.
    + inversion IH as [| | |a0 b0 x0 y0 Hplus Hlast| | | | | | |]; subst.
      inversion Hplus as [| | | | | | | | | |a1 x1 y1 Hitem Hstar]; subst.
      rewrite <- app_sep_assoc, <- app_assoc_s. constructor; [|assumption].
      constructor; [apply matches_item; now exists a, c | now constructor].
Qed.

Lemma SI_atomic_nonempty : forall s, SI_atomic s -> s <> "".
Proof.
  intros s [p [u [w [Hok ->]]]] He. apply parts_ok_spec in Hok. destruct Hok as [_ [Hu _]].
  assert (Hall : forallb (fun u => negb (is_empty u)) UNITS = true) by (vm_compute; reflexivity).
  rewrite forallb_forall in Hall. specialize (Hall _ Hu).
  unfold print_unit in He. destruct p; [|discriminate]. destruct u; [discriminate | discriminate].
Qed.

Lemma SI_chain_nonempty : forall s, SI_chain s -> s <> "".
Proof. intros s H. destruct H; destruct a; discriminate. Qed.

(** [isSIUnit] decides [SI_unit]: one atomic SI unit, or several joined by [*] and [/] *)
Theorem isSIUnit_spec : forall s, isSIUnit s = true <-> SI_unit s.
Proof.
  intros s. unfold isSIUnit, isCompoundSIUnit, isAtomicSIUnit, SI_unit.
  rewrite andb_true_iff, orb_true_iff, andb_true_iff, !regex_match_spec, matches_atomic, matches_compound.
  split.
  - intros [_ [H | [_ H]]]; [now left | now right].
  - intros H. assert (Hne : negb (is_empty s) = true).
    { destruct s; [|reflexivity]. exfalso. destruct H as [H|H]; [now apply SI_atomic_nonempty in H | now apply SI_chain_nonempty in H]. }
    split; [assumption|]. destruct H as [H|H]; [now left | right; now split].
Qed.

(** NON-SI UNITS ARE REJECTED, with "SI unit" in its declarative meaning *)
Theorem non_si_rejected : forall a b, ~ SI_unit a \/ ~ SI_unit b ->
  isScalable a b = Ok false /\ getSIScaling a b = Err "nix::InvalidUnit".
Proof.
  intros a b H. apply non_si_rejected_b.
  destruct H as [H|H]; [left | right]; (destruct (isSIUnit _) eqn:E; [apply isSIUnit_spec in E; contradiction | reflexivity]).
Qed.

(* ------------------------------------------------------------------------------------------ *)
(** * The oracle's brute-force parser *)

Lemma strip_spec : forall x s w, strip x s = Some w <-> s = x ++ w.
Proof.
  induction x as [|a x IH]; intros s w; cbn.
  - split; [intros H; now injection H as -> | intros ->; reflexivity].
  - destruct s as [|b s]; [split; discriminate|].
    destruct (Ascii.eqb_spec a b) as [->|Hne].
    + rewrite IH. split; [intros ->; reflexivity | intros H; now injection H].
    + split; [discriminate | intros H; injection H as H1 _; congruence].
Qed.

Lemma spec_parses_In : forall s p u w, In (p, u, w) (spec_parses s) <->
  In p ALL_PREFIXES /\ In u UNITS /\ s = (p ++ u) ++ w /\ exists n, power_val w = Some n.
Proof.
  intros s p u w. unfold spec_parses. rewrite in_flat_map. split.
  - intros [p' [Hp Hin]]. apply in_flat_map in Hin. destruct Hin as [u' [Hu Hin]].
    destruct (strip (p' ++ u') s) as [w'|] eqn:Es; [|destruct Hin].
    destruct (power_val w') as [n|] eqn:En; [|destruct Hin].
    destruct Hin as [Heq|[]]. injection Heq as -> -> ->. apply strip_spec in Es.
    repeat split; try assumption. now exists n.
  - intros [Hp [Hu [Hs [n Hn]]]]. exists p. split; [assumption|]. apply in_flat_map. exists u. split; [assumption|].
    apply strip_spec in Hs. rewrite Hs, Hn. now left.
Qed.

Lemma ALL_PREFIXES_In : forall p, In p ALL_PREFIXES <-> p = "" \/ In p PREFIXES.
Proof. intros p. unfold ALL_PREFIXES. cbn. intuition. Qed.

(** the oracle's test for atomic SI units is exact ... *)
Theorem spec_atomic_spec : forall s, spec_atomic s = true <-> SI_atomic s.
Proof.
  intros s. unfold spec_atomic, spec_parse, SI_atomic, print_unit. split.
  - destruct (spec_parses s) as [|[[p u] w] l] eqn:E; [discriminate|]. intros _.
    assert (Hin : In (p, u, w) (spec_parses s)) by (rewrite E; now left).
    apply spec_parses_In in Hin. destruct Hin as [Hp [Hu [Hs Hn]]].
    exists p, u, w. split; [|now rewrite <- app_assoc_s].
    apply parts_ok_spec. repeat split; try assumption. now apply ALL_PREFIXES_In.
  - intros [p [u [w [Hok ->]]]]. apply parts_ok_spec in Hok. destruct Hok as [Hp [Hu Hn]].
    assert (Hin : In (p, u, w) (spec_parses (p ++ u ++ w))).
    { apply spec_parses_In. repeat split; try assumption; [now apply ALL_PREFIXES_In | now rewrite app_assoc_s]. }
    destruct (spec_parses (p ++ u ++ w)); [destruct Hin | reflexivity].
Qed.

(** ... and therefore equal to the model's (and the library's) [isAtomicSIUnit] on every string *)
Theorem atomic_model_eq_spec : forall s, isAtomicSIUnit s = spec_atomic s.
Proof.
  intros s. destruct (isAtomicSIUnit s) eqn:E1, (spec_atomic s) eqn:E2; try reflexivity.
  - apply isAtomicSIUnit_spec, spec_atomic_spec in E1. congruence.
  - apply spec_atomic_spec, isAtomicSIUnit_spec in E2. congruence.
Qed.

(** the parse the oracle returns is a reading of the string with well-formed parts *)
Theorem spec_parse_sound : forall s p u w, spec_parse s = Some (p, u, w) ->
  parts_ok p u w = true /\ s = print_unit p u w.
Proof.
  intros s p u w H. unfold spec_parse in H.
  destruct (spec_parses s) as [|x l] eqn:E; [discriminate|]. cbn in H. injection H as ->.
  assert (Hin : In (p, u, w) (spec_parses s)) by (rewrite E; now left).
  apply spec_parses_In in Hin. destruct Hin as [Hp [Hu [Hs Hn]]]. split.
  - apply parts_ok_spec. repeat split; try assumption. now apply ALL_PREFIXES_In.
  - unfold print_unit. now rewrite <- app_assoc_s.
Qed.

(** ** The grammar is unambiguous: a unit string has one reading *)

Fixpoint no_caret (s : string) : bool :=
  match s with
  | EmptyString => true
  | String c t => negb (Ascii.eqb c "^") && no_caret t
  end.

(** a power suffix is empty or starts with the caret *)
Lemma power_val_head : forall w n, power_val w = Some n -> w = "" \/ exists t, w = String "^" t.
Proof.
  intros [|c t] n H; [now left|]. right. cbn in H.
  destruct (Ascii.eqb_spec c "^") as [->|]; [now exists t | discriminate].
Qed.

Lemma split_at_caret : forall x1 x2 w1 w2,
  no_caret x1 = true -> no_caret x2 = true ->
  (w1 = "" \/ exists t, w1 = String "^" t) -> (w2 = "" \/ exists t, w2 = String "^" t) ->
  x1 ++ w1 = x2 ++ w2 -> x1 = x2 /\ w1 = w2.
Proof.
  induction x1 as [|c1 x1 IH]; intros x2 w1 w2 H1 H2 Hw1 Hw2 He.
  - destruct x2 as [|c2 x2]; [now split|]. cbn in He, H2. apply andb_prop in H2. destruct H2 as [Hc2 _].
    destruct Hw1 as [-> | [t ->]]; [discriminate|]. injection He as <- _. discriminate.
  - destruct x2 as [|c2 x2].
    + cbn in He, H1. apply andb_prop in H1. destruct H1 as [Hc1 _].
      destruct Hw2 as [-> | [t ->]]; [discriminate|]. injection He as -> _. discriminate.
    + cbn in He, H1, H2. injection He as -> He. apply andb_prop in H1, H2.
      destruct H1 as [_ H1], H2 as [_ H2]. destruct (IH _ _ _ H1 H2 Hw1 Hw2 He) as [-> ->]. now split.
Qed.

Definition prefix_unit_pairs : list (string * string) :=
  flat_map (fun p => map (fun u => (p, u)) UNITS) ALL_PREFIXES.

Definition unambiguous_b : bool :=
  forallb (fun a => no_caret (fst a ++ snd a) &&
    forallb (fun b => implb ((fst a ++ snd a) =? (fst b ++ snd b))%string
                            (((fst a) =? (fst b))%string && ((snd a) =? (snd b))%string)) prefix_unit_pairs)
    prefix_unit_pairs.

(* stated on the unfolded sweep: using it needs no conversion (the kernel would re-evaluate the sweep) *)
Lemma unambiguous_check :
  forallb (fun a => no_caret (fst a ++ snd a) &&
    forallb (fun b => implb ((fst a ++ snd a) =? (fst b ++ snd b))%string
                            (((fst a) =? (fst b))%string && ((snd a) =? (snd b))%string)) prefix_unit_pairs)
    prefix_unit_pairs = true.
Proof. vm_cast_no_check (@eq_refl bool true). Qed.

Lemma pair_in : forall p u, In p ALL_PREFIXES -> In u UNITS -> In (p, u) prefix_unit_pairs.
Proof.
  intros p u Hp Hu. unfold prefix_unit_pairs. apply in_flat_map. exists p. split; [assumption|].
  apply in_map_iff. now exists u.
Qed.

(** No two different (prefix, base, power suffix) triples print the same string. *)
Theorem grammar_unambiguous : forall p1 u1 w1 p2 u2 w2,
  parts_ok p1 u1 w1 = true -> parts_ok p2 u2 w2 = true ->
  print_unit p1 u1 w1 = print_unit p2 u2 w2 -> p1 = p2 /\ u1 = u2 /\ w1 = w2.
Proof.
  intros p1 u1 w1 p2 u2 w2 H1 H2 He. unfold print_unit in He.
  apply parts_ok_spec in H1, H2. destruct H1 as [Hp1 [Hu1 [n1 Hn1]]], H2 as [Hp2 [Hu2 [n2 Hn2]]].
  apply ALL_PREFIXES_In in Hp1, Hp2.
  pose proof unambiguous_check as Hc. rewrite forallb_forall in Hc.
  pose proof (Hc _ (pair_in _ _ Hp1 Hu1)) as Ha. pose proof (Hc _ (pair_in _ _ Hp2 Hu2)) as Hb.
  cbn [fst snd] in Ha, Hb. apply andb_prop in Ha, Hb. destruct Ha as [Hnc1 Ha], Hb as [Hnc2 _].
  rewrite <- !app_assoc_s in He.
  destruct (split_at_caret _ _ _ _ Hnc1 Hnc2 (power_val_head _ _ Hn1) (power_val_head _ _ Hn2) He) as [Hx Hw].
  rewrite forallb_forall in Ha. specialize (Ha _ (pair_in _ _ Hp2 Hu2)). cbn [fst snd] in Ha.
  rewrite Hx, String.eqb_refl in Ha. cbn in Ha. apply andb_prop in Ha. destruct Ha as [Ea Eb].
  apply String.eqb_eq in Ea, Eb. now repeat split.
Qed.

(** hence the oracle's parser returns THE parts of every printed unit (any power) *)
Theorem spec_parse_complete : forall p u w, parts_ok p u w = true -> spec_parse (print_unit p u w) = Some (p, u, w).
Proof.
  intros p u w Hok.
  assert (Hat : spec_atomic (print_unit p u w) = true) by (apply spec_atomic_spec; now exists p, u, w).
  unfold spec_atomic in Hat. destruct (spec_parse (print_unit p u w)) as [[[p' u'] w']|] eqn:E; [|discriminate].
  destruct (spec_parse_sound _ _ _ _ E) as [Hok' He].
  destruct (grammar_unambiguous _ _ _ _ _ _ Hok Hok' He) as [-> [-> ->]]. reflexivity.
Qed.

(* ------------------------------------------------------------------------------------------ *)
(** * The oracle's test for SI units (split at the separators, every part atomic) is [isSIUnit] *)

Definition sep_b (c : ascii) : bool := Ascii.eqb c "*" || Ascii.eqb c "/".

Fixpoint no_sep (s : string) : bool :=
  match s with
  | EmptyString => true
  | String c t => negb (sep_b c) && no_sep t
  end.

Lemma sep_b_spec : forall c, sep_b c = true <-> is_sep c.
Proof.
  intros c. unfold sep_b, is_sep. rewrite orb_true_iff. split.
  - intros [H|H]; apply Ascii.eqb_eq in H; [now left | now right].
  - intros [-> | ->]; [now left | now right].
Qed.

Lemma no_sep_app : forall a b, no_sep (a ++ b) = no_sep a && no_sep b.
Proof. induction a as [|c a IH]; intros b; cbn; [reflexivity | now rewrite IH, andb_assoc]. Qed.

Lemma digit_not_sep : forall c, is_digit c = true -> sep_b c = false.
Proof. intros [[] [] [] [] [] [] [] []]; vm_compute; intros H; try discriminate H; reflexivity. Qed.

Lemma all_digits_no_sep : forall s, all_digits s = true -> no_sep s = true.
Proof.
  induction s as [|c s IH]; cbn; [reflexivity|]. intros H. apply andb_prop in H. destruct H as [Hc Hs].
  now rewrite (digit_not_sep _ Hc), IH.
Qed.

Lemma power_val_no_sep : forall w n, power_val w = Some n -> no_sep w = true.
Proof.
  intros [|c t] n H; [reflexivity|]. cbn in H.
  destruct (Ascii.eqb_spec c "^") as [->|]; cbn [negb] in H; [|discriminate].
  cbn [no_sep]. change (sep_b "^") with false. cbn [negb andb].
  destruct t as [|d t']; [discriminate|].
  destruct (Ascii.eqb_spec d "-") as [->|Hnm].
  - destruct t' as [|d2 r]; [discriminate|].
    destruct (is_digit19 d2); cbn [andb] in H; [|discriminate].
    destruct (all_digits (String d2 r)) eqn:Had; [|discriminate].
    cbn [no_sep]. change (sep_b "-") with false. cbn [negb andb]. exact (all_digits_no_sep (String d2 r) Had).
  - destruct (Ascii.eqb_spec d "+") as [->|Hnp].
    + destruct t' as [|d2 r]; [discriminate|].
      destruct (is_digit19 d2); cbn [andb] in H; [|discriminate].
      destruct (all_digits (String d2 r)) eqn:Had; [|discriminate].
      cbn [no_sep]. change (sep_b "+") with false. cbn [negb andb]. exact (all_digits_no_sep (String d2 r) Had).
    + destruct (is_digit19 d); cbn [andb] in H; [|discriminate].
      destruct (all_digits (String d t')) eqn:Had; [|discriminate]. exact (all_digits_no_sep (String d t') Had).
Qed.

Lemma SI_atomic_no_sep : forall a, SI_atomic a -> no_sep a = true.
Proof.
  intros a [p [u [w [Hok ->]]]]. apply parts_ok_spec in Hok. destruct Hok as [Hp [Hu [n Hn]]].
  assert (HP : forallb no_sep ALL_PREFIXES = true) by (vm_compute; reflexivity).
  assert (HU : forallb no_sep UNITS = true) by (vm_compute; reflexivity).
  rewrite forallb_forall in HP, HU. unfold print_unit. rewrite !no_sep_app.
  rewrite (HP p) by now apply ALL_PREFIXES_In. rewrite (HU _ Hu). now rewrite (power_val_no_sep _ _ Hn).
Qed.

Lemma split_seps_nosep : forall a cur, no_sep a = true -> split_seps a cur = [cur ++ a].
Proof.
  induction a as [|c a IH]; intros cur H; cbn.
  - now rewrite app_nil_r_s.
  - cbn in H. apply andb_prop in H. destruct H as [Hc Ha]. apply negb_true_iff in Hc.
    unfold sep_b in Hc. rewrite Hc. rewrite (IH _ Ha). now rewrite app_sep_assoc.
Qed.

Lemma split_seps_app : forall a c r cur, no_sep a = true -> is_sep c ->
  split_seps (a ++ String c r) cur = (cur ++ a) :: split_seps r "".
Proof.
  induction a as [|c0 a IH]; intros c r cur H Hc; cbn.
  - apply sep_b_spec in Hc. unfold sep_b in Hc. rewrite Hc. now rewrite app_nil_r_s.
  - cbn in H. apply andb_prop in H. destruct H as [Hc0 Ha]. apply negb_true_iff in Hc0.
    unfold sep_b in Hc0. rewrite Hc0. rewrite (IH _ _ _ Ha Hc). now rewrite app_sep_assoc.
Qed.

(** [joined l s]: [s] is the parts [l] (none containing a separator) joined by separators *)
Inductive joined : list string -> string -> Prop :=
| joined1 a : joined [a] a
| joinedS a c l s : is_sep c -> joined l s -> joined (a :: l) (a ++ String c s).

Lemma split_seps_joined : forall s cur, joined (split_seps s cur) (cur ++ s).
Proof.
  induction s as [|c s IH]; intros cur; cbn.
  - rewrite app_nil_r_s. constructor.
  - destruct (Ascii.eqb c "*" || Ascii.eqb c "/") eqn:Hc.
    + constructor; [now apply sep_b_spec | exact (IH "")].
    + replace (cur ++ String c s) with ((cur ++ String c "") ++ s) by apply app_sep_assoc. apply IH.
Qed.

Lemma joined_SI : forall l s, joined l s -> (forall a, In a l -> SI_atomic a) -> SI_unit s.
Proof.
  intros l s H. induction H as [a | a c l s Hc Hj IH]; intros Hall.
  - left. apply Hall. now left.
  - assert (Ha : SI_atomic a) by (apply Hall; now left).
    destruct IH as [Hat | Hch]; [intros b Hb; apply Hall; now right | right; now apply chain2 | right; now apply chainS].
Qed.

Theorem spec_issi_spec : forall s, spec_issi s = true <-> SI_unit s.
Proof.
  intros s. unfold spec_issi. split.
  - intros H. rewrite forallb_forall in H.
    apply (joined_SI (split_seps s "") s); [exact (split_seps_joined s "")|].
    intros a Ha. apply spec_atomic_spec. now apply H.
  - intros [Hat | Hch].
    + rewrite (split_seps_nosep _ _ (SI_atomic_no_sep _ Hat)). cbn. rewrite andb_true_r. now apply spec_atomic_spec.
    + induction Hch as [a c b Ha Hc Hb | a c r Ha Hc Hr IH].
      * rewrite (split_seps_app _ _ _ _ (SI_atomic_no_sep _ Ha) Hc), (split_seps_nosep _ _ (SI_atomic_no_sep _ Hb)).
        cbn. rewrite andb_true_r. apply andb_true_iff. split; now apply spec_atomic_spec.
      * rewrite (split_seps_app _ _ _ _ (SI_atomic_no_sep _ Ha) Hc). cbn [forallb append].
        apply andb_true_iff. split; [now apply spec_atomic_spec | exact IH].
Qed.

(** the oracle's SI test equals the model's (and the library's) [isSIUnit] on every string *)
Theorem issi_model_eq_spec : forall s, isSIUnit s = spec_issi s.
Proof.
  intros s. destruct (isSIUnit s) eqn:E1, (spec_issi s) eqn:E2; try reflexivity.
  - apply isSIUnit_spec, spec_issi_spec in E1. congruence.
  - apply spec_issi_spec, isSIUnit_spec in E2. congruence.
Qed.

(* ------------------------------------------------------------------------------------------ *)
(** * Parse-print outside the region of the alternation-order defect (holds for any order)

    A base unit is SHADOWED when an earlier alternative of UNITS is a proper prefix of it:
    [regex_search] then cuts the unit short.  On the pinned tree these are mol (behind m), Wb
    (behind W) and Sv (behind S); after the reordering fix there are none.  Every string of the
    grammar whose base unit is not shadowed - and every string without a power suffix - parses
    back into its parts. *)
Fixpoint shadowed_aux (before l : list string) : list string :=
  match l with
  | [] => []
  | u :: t =>
      (if existsb (fun v => match strip v u with Some r => negb (is_empty r) | None => false end) before
       then [u] else []) ++ shadowed_aux (before ++ [u]) t
  end.

Definition shadowed_units : list string := shadowed_aux [] UNITS.

Definition split_is (s p u w : string) : bool :=
  match splitUnit s with
  | Ok (p', u', w') => (p' =? p)%string && (u' =? u)%string && (w' =? w)%string
  | _ => false
  end.

Lemma split_is_true : forall s p u w, split_is s p u w = true -> splitUnit s = Ok (p, u, w).
Proof.
  intros s p u w H. unfold split_is in H. destruct (splitUnit s) as [[[p' u'] w']| |]; try discriminate.
  rewrite !andb_true_iff in H. destruct H as [[E1 E2] E3]. apply String.eqb_eq in E1, E2, E3. now subst.
Qed.

Definition parse_print_partial_b : bool :=
  forallb (fun p => forallb (fun u => forallb (fun w =>
    implb (negb (mem u shadowed_units) || is_empty w)
          (split_is (print_unit p u w) p u (power_text w) && isSIUnit (print_unit p u w)))
    POWER_SUFFIXES) UNITS) ALL_PREFIXES.

(* stated on the unfolded sweep: using it needs no conversion (the kernel would re-evaluate the sweep) *)
Lemma parse_print_partial_check :
  forallb (fun p => forallb (fun u => forallb (fun w =>
    implb (negb (mem u shadowed_units) || is_empty w)
          (split_is (print_unit p u w) p u (power_text w) && isSIUnit (print_unit p u w)))
    POWER_SUFFIXES) UNITS) ALL_PREFIXES = true.
Proof. vm_cast_no_check (@eq_refl bool true). Qed.

Theorem parse_print_partial : forall p u w, In p ALL_PREFIXES -> In u UNITS -> In w POWER_SUFFIXES ->
  ~ In u shadowed_units \/ w = "" ->
  splitUnit (print_unit p u w) = Ok (p, u, power_text w) /\ isSIUnit (print_unit p u w) = true.
Proof.
  intros p u w Hp Hu Hw Hns. pose proof parse_print_partial_check as H.
  rewrite forallb_forall in H. specialize (H _ Hp).
  rewrite forallb_forall in H. specialize (H _ Hu).
  rewrite forallb_forall in H. specialize (H _ Hw).
  assert (Hc : negb (mem u shadowed_units) || is_empty w = true).
  { destruct Hns as [Hn | ->]; [|apply orb_true_r].
    destruct (mem u shadowed_units) eqn:E; [apply mem_In in E; contradiction | reflexivity]. }
  rewrite Hc in H. cbn [implb] in H. apply andb_prop in H. destruct H as [Hs Hi].
  split; [now apply split_is_true | assumption].
Qed.
