(** std::string operations used by translated code (bytes as Z codes). *)
From Coq Require Import ZArith Bool String Ascii List.
Local Open Scope Z_scope.

Definition str_len (s : string) : Z := Z.of_nat (String.length s).
(** s[i]: the byte at i; s[size()] is '\0' (as std::string guarantees); beyond that the model
    also answers 0 — translated code only indexes below size(). *)
Definition str_at (s : string) (i : Z) : Z :=
  match String.get (Z.to_nat i) s with
  | Some c => Z.of_nat (nat_of_ascii c)
  | None => 0
  end.
(** s.find(needle) != npos *)
Fixpoint str_contains (s needle : string) : bool :=
  if String.prefix needle s then true
  else match s with
       | EmptyString => false
       | String _ rest => str_contains rest needle
       end.
