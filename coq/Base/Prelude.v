(** Shared prelude: result type with exceptions and undefined behaviour, u64 arithmetic. *)
From Coq Require Export List ZArith Bool String Lia.
Export ListNotations.
Local Open Scope Z_scope.

(** Outcome of a modelled C++ computation: a value, a C++ exception (by class name), or
    undefined behaviour (with a reason).  [UB] is never a legal outcome of the library. *)
Inductive res (A : Type) : Type :=
| Ok (a : A)
| Err (e : string)
| UB (why : string).
Arguments Ok {A} a.
Arguments Err {A} e.
Arguments UB {A} why.

Definition bind {A B} (m : res A) (f : A -> res B) : res B :=
  match m with
  | Ok a => f a
  | Err e => Err e
  | UB w => UB w
  end.

Definition is_ok {A} (m : res A) : bool := match m with Ok _ => true | _ => false end.
Definition is_ub {A} (m : res A) : bool := match m with UB _ => true | _ => false end.

Definition two64 : Z := 18446744073709551616.
Definition u64_wrap (z : Z) : Z := z mod two64.
Definition u64_add (a b : Z) : Z := u64_wrap (a + b).
Definition u64_sub (a b : Z) : Z := u64_wrap (a - b).
Definition u64_mul (a b : Z) : Z := u64_wrap (a * b).
Definition in_u64 (z : Z) : bool := (0 <=? z) && (z <? two64).

(** C++ [int] (32 bit); arithmetic on it is not used by the translated code, only comparison. *)
Definition int_min : Z := -2147483648.
Definition int_max : Z := 2147483647.

Definition opt_is_some {A} (o : option A) : bool := match o with Some _ => true | None => false end.
(** [*opt] on an empty boost::optional is undefined behaviour. *)
Definition opt_deref {A} (o : option A) : res A :=
  match o with Some a => Ok a | None => UB "dereference of empty optional" end.

Definition zlen {A} (l : list A) : Z := Z.of_nat (List.length l).

(** fuel of translated [while] loops: the translator turns a loop into a fixpoint on this fuel that
    returns [Err "OutOfFuel"] when exhausted; theorems exclude that outcome explicitly. *)
Definition LOOP_FUEL : nat := 200.
