(** Facts about binary64 (over Flocq) used by the axis and retrieval proofs. Only order facts and
    exactness of small-integer arithmetic are needed — never an error bound. *)
From Coq Require Import ZArith Bool Reals Lia Lra.
From Flocq Require Import Core BinarySingleNaN.
Require Import NixV.Base.Prelude NixV.Base.F64.
Local Open Scope R_scope.

Definition emin : Z := (3 - emax - prec)%Z.
Definition fexp : Z -> Z := FLT_exp emin prec.
Notation rnd := (round radix2 fexp (round_mode mode_NE)).

#[export] Instance fexp_valid : Valid_exp fexp. Proof. apply FLT_exp_valid. reflexivity. Qed.

Definition finite (x : F64) : Prop := is_finite x = true.

(** comparisons of finite doubles are comparisons of their real values *)
Lemma flt_R (x y : F64) : finite x -> finite y -> flt x y = Rlt_bool (B2R x) (B2R y).
Proof. apply Bltb_correct. Qed.
Lemma fle_R (x y : F64) : finite x -> finite y -> fle x y = Rle_bool (B2R x) (B2R y).
Proof. apply Bleb_correct. Qed.
Lemma feq_R (x y : F64) : finite x -> finite y -> feq x y = Req_bool (B2R x) (B2R y).
Proof. apply Beqb_correct. Qed.
Lemma fgt_R (x y : F64) : finite x -> finite y -> fgt x y = Rlt_bool (B2R y) (B2R x).
Proof. intros; unfold fgt; now apply Bltb_correct. Qed.
Lemma fge_R (x y : F64) : finite x -> finite y -> fge x y = Rle_bool (B2R y) (B2R x).
Proof. intros; unfold fge; now apply Bleb_correct. Qed.

Lemma flt_true (x y : F64) : finite x -> finite y -> (flt x y = true <-> B2R x < B2R y).
Proof. intros Hx Hy. rewrite flt_R by assumption. destruct (Rlt_bool_spec (B2R x) (B2R y)); split; intros; try easy; lra. Qed.
Lemma fle_true (x y : F64) : finite x -> finite y -> (fle x y = true <-> B2R x <= B2R y).
Proof. intros Hx Hy. rewrite fle_R by assumption. destruct (Rle_bool_spec (B2R x) (B2R y)); split; intros; try easy; lra. Qed.
Lemma feq_true (x y : F64) : finite x -> finite y -> (feq x y = true <-> B2R x = B2R y).
Proof. intros Hx Hy. rewrite feq_R by assumption. destruct (Req_bool_spec (B2R x) (B2R y)); split; intros; try easy; lra. Qed.

(** integers of magnitude at most 2^53 are representable *)
Lemma int_format (z : Z) : (Z.abs z <= 2 ^ 53)%Z -> generic_format radix2 fexp (IZR z).
Proof.
  intro Hz.
  destruct (Z.eq_dec (Z.abs z) (2 ^ 53)) as [E|NE].
  - (* ±2^53 = ±2^52 * 2 *)
    apply generic_format_FLT.
    exists (Float radix2 (z / 2) 1).
    + unfold F2R; simpl. replace (IZR z) with (IZR (z / 2 * 2)).
      * rewrite mult_IZR. reflexivity.
      * f_equal. assert (z = 2^53 \/ z = - 2^53)%Z as [-> | ->] by lia; reflexivity.
    + simpl. assert (z = 2^53 \/ z = - 2^53)%Z as [-> | ->] by lia; reflexivity.
    + simpl. unfold emin, emax, prec. lia.
  - apply generic_format_FLT.
    exists (Float radix2 z 0).
    + unfold F2R; simpl. now rewrite Rmult_1_r.
    + simpl. unfold prec. lia.
    + simpl. unfold emin, emax, prec. lia.
Qed.

Lemma bpow_emax_big : IZR (2 ^ 54) < bpow radix2 emax.
Proof.
  change (2 ^ 54)%Z with (Zpower radix2 54). rewrite IZR_Zpower by lia.
  apply bpow_lt. unfold emax. lia.
Qed.

Lemma int_small_lt_emax (z : Z) : (Z.abs z <= 2 ^ 53)%Z -> Rabs (IZR z) < bpow radix2 emax.
Proof.
  intro H. rewrite <- abs_IZR. apply Rle_lt_trans with (IZR (2 ^ 53)).
  - now apply IZR_le.
  - apply Rlt_trans with (IZR (2 ^ 54)); [apply IZR_lt; lia | apply bpow_emax_big].
Qed.

Lemma round_int (z : Z) : (Z.abs z <= 2 ^ 53)%Z ->
  round radix2 (SpecFloat.fexp prec emax) (round_mode mode_NE) (IZR z) = IZR z.
Proof.
  intro Hz. change (SpecFloat.fexp prec emax) with fexp.
  apply round_generic; [apply valid_rnd_round_mode | apply (int_format z Hz)].
Qed.

(** integer -> double conversion is exact up to 2^53 *)
Lemma ofZ_exact (z : Z) : (Z.abs z <= 2 ^ 53)%Z -> B2R (ofZ z) = IZR z /\ finite (ofZ z).
Proof.
  intro Hz. unfold ofZ, finite.
  pose proof (binary_normalize_correct prec emax Hprec Hmax mode_NE z 0 false) as H.
  cbv zeta in H.
  assert (E : F2R (Float radix2 z 0) = IZR z) by (unfold F2R; simpl; now rewrite Rmult_1_r).
  rewrite E in H.
  rewrite (round_int z Hz) in H.
  rewrite Rlt_bool_true in H by (now apply int_small_lt_emax).
  destruct H as (H1 & H2 & _). split; assumption.
Qed.

(** floor / ceil / round-half-away of a finite double: the exact integer, still finite *)
Lemma ffloor_R (x : F64) : B2R (ffloor x) = IZR (Zfloor (B2R x)) /\ is_finite (ffloor x) = is_finite x.
Proof.
  unfold ffloor. destruct (Bnearbyint_correct prec emax Hmax mode_DN x) as (H1 & H2 & _).
  split; [|exact H2]. rewrite H1. apply round_FIX_IZR.
Qed.
Lemma fceil_R (x : F64) : B2R (fceil x) = IZR (Zceil (B2R x)) /\ is_finite (fceil x) = is_finite x.
Proof.
  unfold fceil. destruct (Bnearbyint_correct prec emax Hmax mode_UP x) as (H1 & H2 & _).
  split; [|exact H2]. rewrite H1. apply round_FIX_IZR.
Qed.
Lemma fround_R (x : F64) : B2R (fround x) = IZR (ZnearestA (B2R x)) /\ is_finite (fround x) = is_finite x.
Proof.
  unfold fround. destruct (Bnearbyint_correct prec emax Hmax mode_NA x) as (H1 & H2 & _).
  split; [|exact H2]. rewrite H1. apply round_FIX_IZR.
Qed.

(** the cast to an unsigned index: truncation, defined exactly on [0, 2^64) *)
Lemma Btrunc_R (x : F64) : Btrunc x = Ztrunc (B2R x).
Proof.
  apply eq_IZR. rewrite (Btrunc_correct prec emax Hmax x). apply round_FIX_IZR.
Qed.

Lemma toU64_int (x : F64) (z : Z) :
  finite x -> B2R x = IZR z -> (0 <= z < two64)%Z -> toU64 x = Ok z.
Proof.
  intros Hf Hx Hz. unfold toU64.
  assert (Btrunc x = z) as Ht by (rewrite Btrunc_R, Hx; apply Ztrunc_IZR).
  destruct x as [s|s| |s m e B]; try discriminate Hf.
  - rewrite Ht. replace ((0 <=? z)%Z && (z <? two64)%Z) with true by lia. reflexivity.
  - rewrite Ht. replace ((0 <=? z)%Z && (z <? two64)%Z) with true by lia. reflexivity.
Qed.

(** adding / subtracting one is exact on integer-valued doubles below 2^53 *)
Lemma fadd_int (x y : F64) (a b : Z) :
  finite x -> finite y -> B2R x = IZR a -> B2R y = IZR b -> (Z.abs (a + b) <= 2 ^ 53)%Z ->
  B2R (fadd x y) = IZR (a + b) /\ finite (fadd x y).
Proof.
  intros Fx Fy Hx Hy Hab. unfold fadd, finite.
  pose proof (Bplus_correct prec emax Hprec Hmax mode_NE x y Fx Fy) as H.
  rewrite Hx, Hy, <- plus_IZR in H.
  rewrite (round_int _ Hab) in H. rewrite Rlt_bool_true in H by (now apply int_small_lt_emax).
  destruct H as (H1 & H2 & _). split; assumption.
Qed.

Lemma fsub_int (x y : F64) (a b : Z) :
  finite x -> finite y -> B2R x = IZR a -> B2R y = IZR b -> (Z.abs (a - b) <= 2 ^ 53)%Z ->
  B2R (fsub x y) = IZR (a - b) /\ finite (fsub x y).
Proof.
  intros Fx Fy Hx Hy Hab. unfold fsub, finite.
  pose proof (Bminus_correct prec emax Hprec Hmax mode_NE x y Fx Fy) as H.
  rewrite Hx, Hy, <- minus_IZR in H.
  rewrite (round_int _ Hab) in H. rewrite Rlt_bool_true in H by (now apply int_small_lt_emax).
  destruct H as (H1 & H2 & _). split; assumption.
Qed.

(** rounding is monotone; products and sums of finite doubles that stay finite are rounded reals *)
Lemma rnd_le a b : a <= b -> rnd a <= rnd b.
Proof. apply round_le; [apply fexp_valid | apply valid_rnd_round_mode]. Qed.

Lemma fmul_R (x y : F64) : finite x -> finite y -> finite (fmul x y) -> B2R (fmul x y) = rnd (B2R x * B2R y).
Proof.
  intros Fx Fy Fm. unfold fmul in *.
  pose proof (Bmult_correct prec emax Hprec Hmax mode_NE x y) as H.
  destruct (Rlt_bool _ _) eqn:E.
  - destruct H as (H1 & _). exact H1.
  - exfalso. unfold finite in Fm. rewrite <- is_finite_SF_B2SF in Fm. rewrite H in Fm.
    unfold binary_overflow in Fm. simpl in Fm. discriminate.
Qed.

Lemma fadd_R (x y : F64) : finite x -> finite y -> finite (fadd x y) -> B2R (fadd x y) = rnd (B2R x + B2R y).
Proof.
  intros Fx Fy Fm. unfold fadd in *.
  pose proof (Bplus_correct prec emax Hprec Hmax mode_NE x y Fx Fy) as H.
  destruct (Rlt_bool _ _) eqn:E.
  - destruct H as (H1 & _). exact H1.
  - exfalso. destruct H as (H & _). unfold finite in Fm. rewrite <- is_finite_SF_B2SF in Fm. rewrite H in Fm.
    unfold binary_overflow in Fm. simpl in Fm. destruct (Bsign x); discriminate.
Qed.
