(** NDSize operations used by translated code: an NDSize is a list of unsigned 64-bit values. *)
From Coq Require Import ZArith Bool String List.
Require Import NixV.Base.Prelude.
Local Open Scope Z_scope.

(** [NDSizeBase::operator[](index)]: throws std::out_of_range when index + 1 > rank *)
Definition nd_get (v : list Z) (i : Z) : res Z :=
  if (0 <=? i) && (i <? zlen v) then Ok (nth (Z.to_nat i) v 0) else Err "std::out_of_range".
