(** NDSize operations used by translated code: an NDSize is a list of unsigned 64-bit values. *)
From Coq Require Import ZArith Bool String List.
Require Import NixV.Base.Prelude.
Local Open Scope Z_scope.

(** [NDSizeBase::operator[](index)]: throws std::out_of_range when index + 1 > rank *)
Definition nd_get (v : list Z) (i : Z) : res Z :=
  if (0 <=? i) && (i <? zlen v) then Ok (nth (Z.to_nat i) v 0) else Err "std::out_of_range".

(** [NDSizeBase::operator+=(const NDSizeBase &)] / [operator+]: std::out_of_range when the ranks differ,
    element-wise unsigned 64-bit addition otherwise *)
Fixpoint nd_add_go (a b : list Z) : list Z :=
  match a, b with
  | x :: a', y :: b' => u64_add x y :: nd_add_go a' b'
  | _, _ => nil
  end.
Definition nd_add (a b : list Z) : res (list Z) :=
  if zlen a =? zlen b then Ok (nd_add_go a b) else Err "std::out_of_range".
