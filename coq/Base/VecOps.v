(** std::vector<double> operations used by translated code, and the catch-all handler. *)
From Coq Require Import ZArith Bool String List.
Require Import NixV.Base.Prelude NixV.Base.F64.
Import ListNotations.
Local Open Scope Z_scope.

(** [v[i]]: unchecked in C++ - undefined behaviour outside the vector *)
Definition vec_get {A} (v : list A) (i : Z) : res A :=
  if (0 <=? i) && (i <? zlen v)
  then match nth_error v (Z.to_nat i) with Some x => Ok x | None => UB "vector index past the end" end
  else UB "vector index past the end".

Fixpoint list_set_nat {A} (l : list A) (i : nat) (a : A) : list A :=
  match l, i with
  | [], _ => []
  | _ :: r, O => a :: r
  | x :: r, S k => x :: list_set_nat r k a
  end.

(** [v[i] = a] *)
Definition vec_set {A} (v : list A) (i : Z) (a : A) : res (list A) :=
  if (0 <=? i) && (i <? zlen v) then Ok (list_set_nat v (Z.to_nat i) a) else UB "vector index past the end".

(** [v.resize(n)] on a vector<double>: truncate, or pad with 0.0 *)
Definition vec_resize (v : list F64) (n : Z) : list F64 :=
  let k := Z.to_nat n in
  firstn k v ++ repeat (ofZ 0) (k - List.length v).

(** try { ... } catch (...) { throw E; } *)
Definition catch_all {A} (r : res A) (e : string) : res A :=
  match r with
  | Ok a => Ok a
  | Err _ => Err e
  | UB w => UB w
  end.
