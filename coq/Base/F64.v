(** IEEE-754 binary64 as Flocq's [binary_float 53 1024] (one NaN), with the operations the
    translated C++ uses.  x86-64 SSE2 semantics: round to nearest even, no excess precision,
    no contraction. *)
From Coq Require Import ZArith Bool String Reals.
From Flocq Require Import Core BinarySingleNaN.
Require Import NixV.Base.Prelude.
Local Open Scope Z_scope.

Definition prec : Z := 53.
Definition emax : Z := 1024.
Lemma Hprec : Prec_gt_0 prec. Proof. reflexivity. Qed.
Lemma Hmax : Prec_lt_emax prec emax. Proof. reflexivity. Qed.
#[export] Existing Instance Hprec.
#[export] Existing Instance Hmax.

Definition F64 := binary_float prec emax.

Definition fadd (x y : F64) : F64 := Bplus mode_NE x y.
Definition fsub (x y : F64) : F64 := Bminus mode_NE x y.
Definition fmul (x y : F64) : F64 := Bmult mode_NE x y.
Definition fdiv (x y : F64) : F64 := Bdiv mode_NE x y.
Definition fabs (x : F64) : F64 := Babs x.
Definition fneg (x : F64) : F64 := Bopp x.
Definition ffloor (x : F64) : F64 := Bnearbyint mode_DN x.
Definition fceil (x : F64) : F64 := Bnearbyint mode_UP x.
Definition fround (x : F64) : F64 := Bnearbyint mode_NA x.   (* C round(): half away from zero *)

Definition flt (x y : F64) : bool := Bltb x y.
Definition fle (x y : F64) : bool := Bleb x y.
Definition feq (x y : F64) : bool := Beqb x y.
Definition fgt (x y : F64) : bool := Bltb y x.
Definition fge (x y : F64) : bool := Bleb y x.
Definition fne (x y : F64) : bool := negb (Beqb x y).

(** Integer -> double conversion (round to nearest even), as the C++ implicit / static cast. *)
Definition ofZ (z : Z) : F64 := binary_normalize prec emax Hprec Hmax mode_NE z 0 false.

(** A double given by mantissa and exponent (exact when representable; literals are emitted
    by the translator from the bit pattern the compiler would produce). *)
Definition ofME (m e : Z) : F64 := binary_normalize prec emax Hprec Hmax mode_NE m e false.

Definition f64_epsilon : F64 := ofME 1 (-52).

Definition f64_nan : F64 := B754_nan.
Definition fis_nan (x : F64) : bool := match x with B754_nan => true | _ => false end.
Definition fis_finite (x : F64) : bool := is_finite x.

(** [static_cast<ndsize_t>(double)]: truncation toward zero; undefined behaviour when the
    truncated value is not representable in an unsigned 64-bit integer, or on NaN/inf. *)
Definition toU64 (x : F64) : res Z :=
  match x with
  | B754_nan => UB "double->u64 cast of NaN"
  | B754_infinity _ => UB "double->u64 cast of infinity"
  | _ => let z := Btrunc x in
         if (0 <=? z) && (z <? two64) then Ok z
         else UB "double->u64 cast out of range"
  end.

(** Bit-pattern view used by the drivers: sign, mantissa, exponent of a finite double. *)
Definition f64_parts (x : F64) : option (bool * Z * Z) :=
  match x with
  | B754_zero s => Some (s, 0, 0)
  | B754_finite s m e _ => Some (s, Zpos m, e)
  | _ => None
  end.
