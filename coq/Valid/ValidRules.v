(** C19 — the rule tables of the hand model as *data*, in the data type that
    tools/translate/gen.py regenerates from src/valid/validate.cpp on every run (coq/Gen/GenValidate.v),
    and the interpretation of that data: ValidRulesProofs.v proves
      - [model_rules = GenValidate.validate_rules], [model_bases = GenValidate.validate_bases]
        (the description is what the source says), and
      - every executable table of Validator.v is the interpretation of its description
        (combinator, order, nesting and message come from the description; the environment of an
        entity kind says which observation and which check function a (getter, check, arguments)
        triple of the source stands for).
    Definitions only. *)
From Coq Require Import ZArith Bool String List.
Require Import NixV.Base.Prelude NixV.Base.F64 NixV.Gen.GenValidate NixV.Valid.Validator.
Import ListNotations.
Local Open Scope string_scope.
Local Open Scope Z_scope.
Local Notation "a ==s b" := (String.eqb a b) (at level 70).

(* ------------------------------------------------------------------------------------------ *)
(** * The description of the model's tables (copied by hand, proved equal to the generated one) *)

Definition model_rules_for (vp : variant) : list (string * list rule) := [
  ("validate_entity", [
    Rule Must "base::Entity<T>::id" "notEmpty" [] "id is not set!" [];
    Rule Must "base::Entity<T>::createdAt" "notFalse" [] "date is not set!" [] ]);
  ("validate_named_entity", [
    Rule Must "base::NamedEntity<T>::name" "notEmpty" [] "no name set!" [];
    Rule Must "base::NamedEntity<T>::type" "notEmpty" [] "no type set!" [] ]);
  ("validate_entity_with_metadata", []);
  ("validate_entity_with_sources", []);
  ("Block", []);
  ("DataArray", [
    Rule Must "DataArray::dataType" "notEqual<DataType>" ["DataType::Nothing"] "data type is not set!" [];
    Rule Must "DataArray::dimensionCount" "isEqual<size_t>" ["data_array.dataExtent().size()"]
         "data dimensionality does not match number of defined dimensions!" [
      Rule Could "DataArray::dimensions" "notEmpty" [] "" [
        Rule Must "DataArray::dimensions" "dimTicksMatchData" ["data_array"]
             "in some of the Range dimensions the number of ticks differs from the number of data entries along the corresponding data dimension!" [];
        Rule Must "DataArray::dimensions" "dimLabelsMatchData" ["data_array"]
             "in some of the Set dimensions the number of labels differs from the number of data entries along the corresponding data dimension!" [];
        Rule Must "DataArray::dimensions" "dimDataFrameTicksMatchData" ["data_array"]
             "in some of the DataFrame dimensions the number of rows in the DataFrame does not match the number of data entries along the corresponding data dimension!" [] ] ];
    Rule Could "DataArray::unit" "notFalse" [] "" [
      Rule Should "DataArray::unit" "isValidUnit" [] "Unit is not SI or composite of SI units." [] ];
    Rule Could "DataArray::polynomCoefficients" "notEmpty" [] "" [
      Rule Should "DataArray::expansionOrigin" "notFalse" []
           "polynomial coefficients for calibration are set, but expansion origin is missing!" [] ];
    Rule Could "DataArray::expansionOrigin" "notFalse" [] "" [
      Rule Should "DataArray::polynomCoefficients" "notEmpty" []
           "expansion origin for calibration is set, but polynomial coefficients are missing!" [] ] ]);
  ("Tag", [
    Rule Must "Tag::position" "notEmpty" [] "position is not set!" [];
    Rule Could "Tag::units" "notEmpty" [] "" [
      Rule Must "Tag::units" "isValidUnit" []
           "Unit is invalid: not an atomic SI. Note: So far composite units are not supported!" [];
      Rule Must "Tag::references" "tagUnitsMatchRefsUnits" ["tag.units()"]
           "Some of the referenced DataArrays' dimensions have units that are not convertible to the units set in tag. Note: So far composite SI units are not supported!" [] ] ]);
  ("Property", [
    Rule Must "Property::name" "notEmpty" [] "name is not set!" [];
    Rule Could "Property::valueCount" "notFalse" [] "" [
      Rule Should "Property::unit" "notFalse" [] "values are set, but unit is missing!" [] ];
    Rule Could "Property::unit" "notFalse" [] "" [
      Rule (match vp with AsPinned => Must | Repaired => Should end)
           "Property::unit" "isValidUnit" [] "Unit is not SI or composite of SI units." [] ] ]);
  ("MultiTag", [
    Rule Must "MultiTag::positions" "notFalse" [] "positions are not set!" [];
    Rule Could "MultiTag::units" "notEmpty" [] "" [
      Rule Must "MultiTag::units" "isValidUnit" []
           "Some of the units in tag are invalid: not an atomic SI. Note: So far composite SI units are not supported!" [];
      Rule Must "MultiTag::references" "tagUnitsMatchRefsUnits" ["multi_tag.units()"]
           "Some of the referenced DataArrays' dimensions have units that are not convertible to the units set in tag. Note: So far composite SI units are not supported!" [] ] ]);
  ("Dimension", [
    Rule Must "Dimension::index" "notSmaller" ["1"] "index is not set to valid value (> 0)!" [] ]);
  ("RangeDimension", [
    Rule Must "RangeDimension::index" "notSmaller" ["1"] "index is not set to valid value (size_t > 0)!" [];
    Rule Must "RangeDimension::ticks" "notEmpty" [] "ticks are not set!" [];
    Rule Must "RangeDimension::dimensionType" "isEqual<DimensionType>" ["DimensionType::Range"] "dimension type is not correct!" [];
    Rule Could "RangeDimension::unit" "notFalse" [] "" [
      Rule Must "RangeDimension::unit" "isAtomicUnit" []
           "Unit is set but not an atomic SI. Note: So far composite units are not supported!" [] ];
    Rule Must "RangeDimension::ticks" "isSorted" [] "Ticks are not sorted!" [] ]);
  ("SampledDimension", [
    Rule Must "SampledDimension::index" "notSmaller" ["1"] "index is not set to valid value (size_t > 0)!" [];
    Rule Must "SampledDimension::samplingInterval" "isGreater" ["0"] "samplingInterval is not set to valid value (> 0)!" [];
    Rule Must "SampledDimension::dimensionType" "isEqual<DimensionType>" ["DimensionType::Sample"] "dimension type is not correct!" [];
    Rule Could "SampledDimension::offset" "notFalse" [] "" [
      Rule Should "SampledDimension::unit" "isAtomicUnit" [] "offset is set, but no valid unit set!" [] ];
    Rule Could "SampledDimension::unit" "notFalse" [] "" [
      Rule Must "SampledDimension::unit" "isAtomicUnit" []
           "Unit is set but not an atomic SI. Note: So far composite units are not supported!" [] ] ]);
  ("SetDimension", [
    Rule Must "SetDimension::index" "notSmaller" ["1"] "index is not set to valid value (size_t > 0)!" [];
    Rule Must "SetDimension::dimensionType" "isEqual<DimensionType>" ["DimensionType::Set"] "dimension type is not correct!" [] ]);
  ("Feature", [
    Rule Must "Feature::data" "notFalse" [] "data is not set!" [];
    Rule Must "Feature::linkType" "notSmaller" ["0"] "linkType is not set!" [] ]);
  ("Section", []);
  ("Source", []);
  (** valid::validate(File) and valid::validate(Dimension) exist in validate.cpp but are not called by
      File::validate; Validator.validate_file / validate_dimension are their tables (called directly by the
      correspondence run) *)
  ("File", [
    Rule Could "File::isOpen" "notFalse" [] "" [
      Rule Must "File::createdAt" "notFalse" [] "date is not set!" [];
      Rule Should "File::version" "notEmpty" [] "version is not set!" [];
      Rule Should "File::format" "notEmpty" [] "format is not set!" [];
      Rule Should "File::location" "notEmpty" [] "location is not set!" [] ] ])
].

(** the function whose result is concatenated after the rules ("" = none) *)
Definition model_bases : list (string * string) := [
  ("validate_entity", "");
  ("validate_named_entity", "validate_entity");
  ("validate_entity_with_metadata", "validate_named_entity");
  ("validate_entity_with_sources", "validate_entity_with_metadata");
  ("Block", "validate_entity_with_metadata");
  ("DataArray", "validate_entity_with_sources");
  ("Tag", "validate_entity_with_sources");
  ("Property", "validate_entity");
  ("MultiTag", "validate_entity_with_sources");
  ("Dimension", "");
  ("RangeDimension", "");
  ("SampledDimension", "");
  ("SetDimension", "");
  ("Feature", "validate_entity");
  ("Section", "validate_named_entity");
  ("Source", "validate_entity_with_metadata");
  ("File", "")
].

(** the description of the current model *)
Definition model_rules : list (string * list rule) := model_rules_for propUnit_variant.

(* ------------------------------------------------------------------------------------------ *)
(** * Interpretation *)

(** [env getter check args]: the outcome of calling the getter and applying the check functor;
    [None] = the getter throws *)
Definition env_t := string -> string -> list string -> option bool.

Fixpoint interp (id : string) (env : env_t) (r : rule) : condition :=
  match r with
  | Rule c g chk args msg subs =>
      let subs' := map (interp id env) subs in
      match c with
      | Must => must id (env g chk args) (fun b => b) msg subs'
      | Should => should id (env g chk args) (fun b => b) msg subs'
      | Could => could (env g chk args) (fun b => b) subs'
      end
  end.

Fixpoint lookup {A} (dflt : A) (key : string) (l : list (string * A)) : A :=
  match l with
  | [] => dflt
  | (k, v) :: rest => if k ==s key then v else lookup dflt key rest
  end.

Definition table (rules : list (string * list rule)) (key id : string) (env : env_t) : result :=
  validator (map (interp id env) (lookup [] key rules)).

Fixpoint args_eqb (a b : list string) : bool :=
  match a, b with
  | [], [] => true
  | x :: xs, y :: ys => (x ==s y) && args_eqb xs ys
  | _, _ => false
  end.
(** one line of an environment: if the triple is (g0, c0, a0) the outcome is [v] *)
Definition on (g0 c0 : string) (a0 : list string) (v : option bool) (rest : env_t) : env_t :=
  fun g c a => if (g ==s g0) && (c ==s c0) && args_eqb a a0 then v else rest g c a.
Definition env_end : env_t := fun _ _ _ => None.

Section Envs.
  Variables isSIUnit isCompoundSIUnit : string -> bool.
  Variable isScalable : string -> string -> bool.
  Variable vt : variant.

  Definition env_entity (e : vent) : env_t :=
    on "base::Entity<T>::id" "notEmpty" [] (Some (str_notEmpty (e_id e)))
   (on "base::Entity<T>::createdAt" "notFalse" [] (option_map num_notFalse (e_created e))
    env_end).

  Definition env_named (n : vnamed) : env_t :=
    on "base::NamedEntity<T>::name" "notEmpty" [] (Some (str_notEmpty (n_name n)))
   (on "base::NamedEntity<T>::type" "notEmpty" [] (option_map str_notEmpty (n_type n))
    env_end).

  Definition env_array (a : varray) : env_t :=
    on "DataArray::dataType" "notEqual<DataType>" ["DataType::Nothing"] (Some (id_bool (a_dtype_set a)))
   (on "DataArray::dimensionCount" "isEqual<size_t>" ["data_array.dataExtent().size()"]
       (Some (Z.eqb (zlen (a_extent a)) (dimensionCount a)))
   (on "DataArray::dimensions" "notEmpty" [] (Some (list_notEmpty (dimensions a)))
   (on "DataArray::dimensions" "dimTicksMatchData" ["data_array"] (Some (dimTicksMatchData a (dimensions a)))
   (on "DataArray::dimensions" "dimLabelsMatchData" ["data_array"] (Some (dimLabelsMatchData a (dimensions a)))
   (on "DataArray::dimensions" "dimDataFrameTicksMatchData" ["data_array"] (Some (dimDataFrameTicksMatchData a (dimensions a)))
   (on "DataArray::unit" "notFalse" [] (Some (opt_notFalse (a_unit a)))
   (on "DataArray::unit" "isValidUnit" [] (Some (opt_unit (isValidUnit isSIUnit isCompoundSIUnit) (a_unit a)))
   (on "DataArray::polynomCoefficients" "notEmpty" [] (Some (count_notEmpty (a_poly_n a)))
   (on "DataArray::expansionOrigin" "notFalse" [] (Some (id_bool (a_origin_set a)))
    env_end))))))))).

  Definition env_tag (t : vtag) : env_t :=
    on "Tag::position" "notEmpty" [] (Some (count_notEmpty (t_position_n t)))
   (on "Tag::units" "notEmpty" [] (Some (list_notEmpty (t_units t)))
   (on "Tag::units" "isValidUnit" [] (Some (vec_unit (isValidUnit isSIUnit isCompoundSIUnit) (t_units t)))
   (on "Tag::references" "tagUnitsMatchRefsUnits" ["tag.units()"]
       (Some (tagUnitsMatchRefsUnits isScalable vt (t_units t) (t_refs t)))
    env_end))).

  Definition env_mtag (m : vmtag) : env_t :=
    on "MultiTag::positions" "notFalse" [] (option_map (fun _ => true) (m_positions m))
   (on "MultiTag::units" "notEmpty" [] (Some (list_notEmpty (m_units m)))
   (on "MultiTag::units" "isValidUnit" [] (Some (vec_unit (isValidUnit isSIUnit isCompoundSIUnit) (m_units m)))
   (on "MultiTag::references" "tagUnitsMatchRefsUnits" ["multi_tag.units()"]
       (Some (tagUnitsMatchRefsUnits isScalable vt (m_units m) (m_refs m)))
    env_end))).

  Definition env_property (p : vproperty) : env_t :=
    on "Property::name" "notEmpty" [] (Some (str_notEmpty (p_name p)))
   (on "Property::valueCount" "notFalse" [] (Some (num_notFalse (p_valuecount p)))
   (on "Property::unit" "notFalse" [] (Some (opt_notFalse (p_unit p)))
   (on "Property::unit" "isValidUnit" [] (Some (opt_unit (isValidUnit isSIUnit isCompoundSIUnit) (p_unit p)))
    env_end))).

  Definition env_range (idx : Z) (ticks : list F64) (unit : option string) : env_t :=
    on "RangeDimension::index" "notSmaller" ["1"] (Some (notSmaller 1 idx))
   (on "RangeDimension::ticks" "notEmpty" [] (Some (list_notEmpty ticks))
   (on "RangeDimension::dimensionType" "isEqual<DimensionType>" ["DimensionType::Range"] (Some (dimtype_eqb TRange TRange))
   (on "RangeDimension::unit" "notFalse" [] (Some (opt_notFalse unit))
   (on "RangeDimension::unit" "isAtomicUnit" [] (Some (opt_unit (isAtomicUnit isSIUnit) unit))
   (on "RangeDimension::ticks" "isSorted" [] (Some (isSorted ticks))
    env_end))))).

  Definition env_sampled (idx : Z) (interval offset : option F64) (unit : option string) : env_t :=
    on "SampledDimension::index" "notSmaller" ["1"] (Some (notSmaller 1 idx))
   (on "SampledDimension::samplingInterval" "isGreater" ["0"] (option_map isGreater0 interval)
   (on "SampledDimension::dimensionType" "isEqual<DimensionType>" ["DimensionType::Sample"] (Some (dimtype_eqb TSample TSample))
   (on "SampledDimension::offset" "notFalse" [] (Some (opt_notFalse offset))
   (on "SampledDimension::unit" "isAtomicUnit" [] (Some (opt_unit (isAtomicUnit isSIUnit) unit))
   (on "SampledDimension::unit" "notFalse" [] (Some (opt_notFalse unit))
    env_end))))).

  Definition env_set (idx : Z) : env_t :=
    on "SetDimension::index" "notSmaller" ["1"] (Some (notSmaller 1 idx))
   (on "SetDimension::dimensionType" "isEqual<DimensionType>" ["DimensionType::Set"] (Some (dimtype_eqb TSet TSet))
    env_end).

  Definition env_feature (f : vfeature) : env_t :=
    on "Feature::data" "notFalse" [] (option_map id_bool (f_data f))
   (on "Feature::linkType" "notSmaller" ["0"] (option_map (notSmaller 0) (f_link f))
    env_end).

  Definition env_dimension (idx : Z) : env_t :=
    on "Dimension::index" "notSmaller" ["1"] (Some (notSmaller 1 idx)) env_end.

  Definition env_file (h : vheader) : env_t :=
    on "File::isOpen" "notFalse" [] (Some (id_bool (h_open h)))
   (on "File::createdAt" "notFalse" [] (option_map num_notFalse (h_created h))
   (on "File::version" "notEmpty" [] (Some (count_notEmpty (h_version_n h)))
   (on "File::format" "notEmpty" [] (Some (str_notEmpty (h_format h)))
   (on "File::location" "notEmpty" [] (Some (str_notEmpty (h_location h)))
    env_end)))).

  (** the base functions, by the name the source calls them *)
  Definition ent_base (fn : string) (e : vent) : result :=
    if fn ==s "validate_entity" then validate_entity e else rnil.
  Definition named_base (fn : string) (n : vnamed) : result :=
    if fn ==s "validate_entity" then validate_entity (n_ent n)
    else if fn ==s "validate_named_entity" then validate_named_entity n
    else if fn ==s "validate_entity_with_metadata" then validate_entity_with_metadata n
    else if fn ==s "validate_entity_with_sources" then validate_entity_with_sources n
    else rnil.
End Envs.
