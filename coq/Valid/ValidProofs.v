(** C19 — proofs about the validator model (Validator.v) and its specification (ValidSpec.v). *)
From Coq Require Import ZArith Bool String List Lia.
From Coq Require Import ZifyBool.
From Coq Require Import SpecFloat.
From Flocq Require Import Core BinarySingleNaN.
Require Import NixV.Base.Prelude NixV.Base.F64 NixV.Valid.Validator NixV.Valid.ValidSpec.
Import ListNotations.
Local Open Scope string_scope.
Local Open Scope list_scope.
Local Open Scope Z_scope.
Local Notation "a ==s b" := (String.eqb a b) (at level 70).

(* ------------------------------------------------------------------------------------------ *)
(** * Results: projections of concatenations *)

(** [sel true] = errors, [sel false] = warnings: most structural lemmas hold for both *)
Definition sel (k : bool) (r : result) : list message := if k then errors r else warnings r.

Lemma sel_rconcat k a b : sel k (rconcat a b) = sel k a ++ sel k b.
Proof. destruct k; reflexivity. Qed.

Lemma sel_rnil k : sel k rnil = [].
Proof. destruct k; reflexivity. Qed.

Lemma sel_fold k li : forall acc, sel k (fold_left rconcat li acc) = sel k acc ++ flat_map (sel k) li.
Proof.
  induction li as [|c li IH]; intros acc; cbn [fold_left flat_map].
  - now rewrite app_nil_r.
  - rewrite IH, sel_rconcat, app_assoc. reflexivity.
Qed.

Lemma sel_validator k li : sel k (validator li) = flat_map (sel k) li.
Proof. unfold validator. rewrite sel_fold, sel_rnil. reflexivity. Qed.

Lemma errors_validator li : errors (validator li) = flat_map errors li.
Proof. exact (sel_validator true li). Qed.
Lemma warnings_validator li : warnings (validator li) = flat_map warnings li.
Proof. exact (sel_validator false li). Qed.

Lemma flat_map_map {A B C} (f : B -> list C) (g : A -> B) l :
  flat_map f (map g l) = flat_map (fun x => f (g x)) l.
Proof. induction l; cbn; congruence. Qed.

Lemma flat_map_flat_map {A B C} (f : B -> list C) (g : A -> list B) l :
  flat_map f (flat_map g l) = flat_map (fun x => flat_map f (g x)) l.
Proof. induction l; cbn; [reflexivity|]. rewrite flat_map_app. congruence. Qed.

Lemma flat_map_nil {A B} (f : A -> list B) l : (forall x, In x l -> f x = []) -> flat_map f l = [].
Proof.
  induction l as [|a l IH]; cbn; intros H; [reflexivity|].
  rewrite (H a (or_introl eq_refl)), IH; [reflexivity|]. intros x Hx. apply H. now right.
Qed.

(** must / should / could, seen through [sel] *)
Lemma errors_must {A} id (g : option A) chk msg subs :
  errors (must id g chk msg subs) =
  match g with
  | Some v => if chk v then flat_map errors subs else [ {| m_id := id; m_text := msg |} ]
  | None => [ {| m_id := id; m_text := msg |} ]
  end.
Proof. unfold must. destruct g as [v|]; [destruct (chk v)|]; try reflexivity. apply errors_validator. Qed.

Lemma warnings_must {A} id (g : option A) chk msg subs :
  warnings (must id g chk msg subs) =
  match g with
  | Some v => if chk v then flat_map warnings subs else []
  | None => []
  end.
Proof. unfold must. destruct g as [v|]; [destruct (chk v)|]; try reflexivity. apply warnings_validator. Qed.

Lemma errors_should {A} id (g : option A) chk msg subs :
  errors (should id g chk msg subs) =
  match g with
  | Some v => if chk v then flat_map errors subs else []
  | None => []
  end.
Proof. unfold should. destruct g as [v|]; [destruct (chk v)|]; try reflexivity. apply errors_validator. Qed.

Lemma warnings_should {A} id (g : option A) chk msg subs :
  warnings (should id g chk msg subs) =
  match g with
  | Some v => if chk v then flat_map warnings subs else [ {| m_id := id; m_text := msg |} ]
  | None => [ {| m_id := id; m_text := msg |} ]
  end.
Proof. unfold should. destruct g as [v|]; [destruct (chk v)|]; try reflexivity. apply warnings_validator. Qed.

Lemma sel_could {A} k (g : option A) chk subs :
  sel k (could g chk subs) =
  match g with
  | Some v => if chk v then flat_map (sel k) subs else []
  | None => []
  end.
Proof.
  unfold could. destruct g as [v|]; [destruct (chk v)|]; try apply sel_rnil. apply sel_validator.
Qed.
Lemma errors_could {A} (g : option A) chk subs :
  errors (could g chk subs) = match g with Some v => if chk v then flat_map errors subs else [] | None => [] end.
Proof. exact (sel_could true g chk subs). Qed.
Lemma warnings_could {A} (g : option A) chk subs :
  warnings (could g chk subs) = match g with Some v => if chk v then flat_map warnings subs else [] | None => [] end.
Proof. exact (sel_could false g chk subs). Qed.

Lemma errors_rconcat a b : errors (rconcat a b) = errors a ++ errors b.
Proof. reflexivity. Qed.
Lemma warnings_rconcat a b : warnings (rconcat a b) = warnings a ++ warnings b.
Proof. reflexivity. Qed.

(** rewriting a rule table down to lists of messages *)
Ltac table :=
  repeat (rewrite ?errors_rconcat, ?warnings_rconcat, ?errors_validator, ?warnings_validator,
            ?errors_must, ?warnings_must, ?errors_should, ?warnings_should, ?errors_could, ?warnings_could;
          cbn [flat_map app]).

Ltac split_andb :=
  repeat match goal with
         | H : _ && _ = true |- _ => apply andb_prop in H; destruct H
         end.

(* ------------------------------------------------------------------------------------------ *)
(** * Every message of an entity's rule table carries the entity's id *)

Definition all_id (id : string) (r : result) : Prop :=
  forall k m, In m (sel k r) -> m_id m = id.

Lemma all_id_rnil id : all_id id rnil.
Proof. intros k m H. rewrite sel_rnil in H. destruct H. Qed.
Lemma all_id_rerr id msg : all_id id (rerr id msg).
Proof. intros [|] m H; cbn in H; [destruct H as [<-|[]]; reflexivity | destruct H]. Qed.
Lemma all_id_rwarn id msg : all_id id (rwarn id msg).
Proof. intros [|] m H; cbn in H; [destruct H | destruct H as [<-|[]]; reflexivity]. Qed.
Lemma all_id_rconcat id a b : all_id id a -> all_id id b -> all_id id (rconcat a b).
Proof. intros Ha Hb k m H. rewrite sel_rconcat in H. apply in_app_or in H. destruct H; eauto. Qed.
Lemma all_id_validator id li : Forall (all_id id) li -> all_id id (validator li).
Proof.
  intros HF k m H. rewrite sel_validator in H. apply in_flat_map in H. destruct H as [c [Hc Hm]].
  rewrite Forall_forall in HF. exact (HF c Hc k m Hm).
Qed.
Lemma all_id_must {A} id (g : option A) chk msg subs :
  Forall (all_id id) subs -> all_id id (must id g chk msg subs).
Proof.
  intros H. unfold must. destruct g as [v|]; [destruct (chk v)|];
    auto using all_id_validator, all_id_rerr.
Qed.
Lemma all_id_should {A} id (g : option A) chk msg subs :
  Forall (all_id id) subs -> all_id id (should id g chk msg subs).
Proof.
  intros H. unfold should. destruct g as [v|]; [destruct (chk v)|];
    auto using all_id_validator, all_id_rwarn.
Qed.
Lemma all_id_could {A} id (g : option A) chk subs :
  Forall (all_id id) subs -> all_id id (could g chk subs).
Proof.
  intros H. unfold could. destruct g as [v|]; [destruct (chk v)|];
    auto using all_id_validator, all_id_rnil.
Qed.

Ltac ids :=
  repeat first
    [ apply all_id_rconcat | apply all_id_validator | apply all_id_must | apply all_id_should
    | apply all_id_could | apply all_id_rnil | apply Forall_cons | apply Forall_nil ].

Section Ids.
  Variables isSIUnit isCompoundSIUnit : string -> bool.
  Variable isScalable : string -> string -> bool.
  Variables vt vp : variant.

  Lemma all_id_entity e : all_id (e_id e) (validate_entity e).
  Proof. unfold validate_entity. ids. Qed.
  Lemma all_id_named n : all_id (e_id (n_ent n)) (validate_named_entity n).
  Proof. unfold validate_named_entity. ids. Qed.

  Lemma all_id_validate_ent e :
    all_id (ent_id e) (validate_ent isSIUnit isCompoundSIUnit isScalable vt vp e).
  Proof.
    destruct e as [b|a|o idx d|m|t|f|s|s|p]; cbn [validate_ent ent_id].
    - apply all_id_named.
    - unfold validate_array. ids.
    - unfold validate_dim. destruct d; [unfold validate_set_dim|unfold validate_sampled_dim|unfold validate_range_dim|]; ids.
    - unfold validate_mtag. ids.
    - unfold validate_tag. ids.
    - unfold validate_feature. ids.
    - apply all_id_named.
    - apply all_id_named.
    - unfold validate_property. ids; destruct vp; ids.
  Qed.
End Ids.

(* ------------------------------------------------------------------------------------------ *)
(** * File::validate = the rule tables of every entity of the file, concatenated *)

Section Walk.
  Variables isSIUnit isCompoundSIUnit : string -> bool.
  Variable isScalable : string -> string -> bool.
  Variables vt vp : variant.
  Let vent_ := validate_ent isSIUnit isCompoundSIUnit isScalable vt vp.

  Lemma sel_walk_array k a :
    sel k (walk_array isSIUnit isCompoundSIUnit a) = flat_map (fun e => sel k (vent_ e)) (array_entities a).
  Proof.
    unfold walk_array, array_entities. rewrite sel_validator. cbn [flat_map]. f_equal.
    rewrite !flat_map_map. apply flat_map_ext. intros [i d]. reflexivity.
  Qed.

  Lemma sel_walk_mtag k m :
    sel k (walk_mtag isSIUnit isCompoundSIUnit isScalable vt m) = flat_map (fun e => sel k (vent_ e)) (mtag_entities m).
  Proof.
    unfold walk_mtag, mtag_entities. rewrite sel_validator. cbn [flat_map]. f_equal.
    rewrite !flat_map_map. reflexivity.
  Qed.

  Lemma sel_walk_tag k t :
    sel k (walk_tag isSIUnit isCompoundSIUnit isScalable vt t) = flat_map (fun e => sel k (vent_ e)) (tag_entities t).
  Proof.
    unfold walk_tag, tag_entities. rewrite sel_validator. cbn [flat_map]. f_equal.
    rewrite !flat_map_map. reflexivity.
  Qed.

  Lemma sel_walk_block k b :
    sel k (walk_block isSIUnit isCompoundSIUnit isScalable vt b) = flat_map (fun e => sel k (vent_ e)) (block_entities b).
  Proof.
    unfold walk_block, block_entities. rewrite sel_validator. cbn [flat_map]. f_equal.
    rewrite !flat_map_app, !flat_map_map, !flat_map_flat_map.
    f_equal; [apply flat_map_ext; intros x; apply sel_walk_array|].
    f_equal; [apply flat_map_ext; intros x; apply sel_walk_mtag|].
    f_equal. apply flat_map_ext; intros x; apply sel_walk_tag.
  Qed.

  Lemma sel_walk_section k s :
    sel k (walk_section isSIUnit isCompoundSIUnit vp s) = flat_map (fun e => sel k (vent_ e)) (section_entities s).
  Proof.
    unfold walk_section, section_entities. rewrite sel_validator. cbn [flat_map]. f_equal.
    rewrite !flat_map_map. reflexivity.
  Qed.

  Theorem sel_validate k f :
    sel k (validate isSIUnit isCompoundSIUnit isScalable vt vp f) = flat_map (fun e => sel k (vent_ e)) (entities f).
  Proof.
    unfold validate, entities. rewrite sel_validator, !flat_map_app, !flat_map_map, !flat_map_flat_map.
    f_equal; apply flat_map_ext; intros x; [apply sel_walk_block | apply sel_walk_section].
  Qed.

  Corollary errors_validate f :
    errors (validate isSIUnit isCompoundSIUnit isScalable vt vp f) = flat_map (fun e => errors (vent_ e)) (entities f).
  Proof. exact (sel_validate true f). Qed.
  Corollary warnings_validate f :
    warnings (validate isSIUnit isCompoundSIUnit isScalable vt vp f) = flat_map (fun e => warnings (vent_ e)) (entities f).
  Proof. exact (sel_validate false f). Qed.
End Walk.

(* ------------------------------------------------------------------------------------------ *)
(** * Doubles: the two facts about comparisons the rules need *)

Lemma fle_not_flt a b : fle a b = true -> flt b a = false.
Proof.
  unfold fle, flt, Bleb, Bltb, SFleb, SFltb. change (SFcompare (B2SF b) (B2SF a)) with (Bcompare b a).
  change (SFcompare (B2SF a) (B2SF b)) with (Bcompare a b). rewrite (@Bcompare_swap _ _ a b).
  destruct (Bcompare a b) as [[| |]|]; cbn; congruence.
Qed.

Lemma isSorted_cons2 a b l : isSorted (a :: b :: l) = negb (flt b a) && isSorted (b :: l).
Proof. reflexivity. Qed.
Lemma increasing_cons2 a b l : increasing (a :: b :: l) = fle a b && increasing (b :: l).
Proof. reflexivity. Qed.
Lemma has_descent_cons2 a b l : has_descent (a :: b :: l) = flt b a || has_descent (b :: l).
Proof. reflexivity. Qed.

Lemma increasing_isSorted l : increasing l = true -> isSorted l = true.
Proof.
  induction l as [|a l IH]; [reflexivity|]. destruct l as [|b l]; [reflexivity|].
  rewrite increasing_cons2, isSorted_cons2. intros H. apply andb_prop in H. destruct H as [Hab Hl].
  rewrite (fle_not_flt _ _ Hab), (IH Hl). reflexivity.
Qed.

Lemma has_descent_not_sorted l : has_descent l = true -> isSorted l = false.
Proof.
  induction l as [|a l IH]; [discriminate|]. destruct l as [|b l]; [discriminate|].
  rewrite has_descent_cons2, isSorted_cons2. intros H. apply orb_prop in H. destruct H as [H|H].
  - rewrite H. reflexivity.
  - rewrite (IH H). apply andb_false_r.
Qed.

(* ------------------------------------------------------------------------------------------ *)
(** * Dimension descriptors of an array *)

Lemma zlen_cons {A} (a : A) l : zlen (a :: l) = zlen l + 1.
Proof. unfold zlen. cbn [List.length]. lia. Qed.
Lemma zlen_app {A} (a b : list A) : zlen (a ++ b) = zlen a + zlen b.
Proof. unfold zlen. rewrite app_length. lia. Qed.
Lemma zlen_nonneg {A} (l : list A) : 0 <= zlen l.
Proof. unfold zlen. lia. Qed.
Lemma zlen_nil {A} : zlen (@nil A) = 0.
Proof. reflexivity. Qed.

Lemma nth_pre {A} (pre : list A) x rest (i : Z) dflt :
  zlen pre = i -> nth (Z.to_nat i) (pre ++ x :: rest) dflt = x.
Proof.
  intros H. unfold zlen in H. subst i. rewrite Nat2Z.id, app_nth2 by lia. now rewrite Nat.sub_diag.
Qed.

Lemma dimensions_attached slots : forall i, map snd (dimensions_from i slots) = attached slots.
Proof.
  induction slots as [|[d|] ss IH]; intros i; cbn [dimensions_from attached map]; [reflexivity| |].
  - now rewrite IH.
  - apply IH.
Qed.

Lemma getDimensionsUnits_attached a :
  getDimensionsUnits a = map getDimensionUnit (attached (a_slots a)).
Proof.
  unfold getDimensionsUnits, dimensions. rewrite <- (dimensions_attached (a_slots a) 1), map_map. reflexivity.
Qed.

Lemma dim_match_loop_true test ext dims : dim_match_loop test ext dims true = true.
Proof. destruct dims as [|[i d] r]; reflexivity. Qed.

(** a length rule that holds of every (descriptor, data dimension) pair keeps the loop at "no mismatch" *)
Lemma dim_match_loop_ok test slots :
  (forall d n t, test d = Some t -> dim_len_ok d n = true -> t n = false) ->
  forall ext pre i, zlen pre = i - 1 -> dims_match slots ext = true ->
  dim_match_loop test (pre ++ ext) (dimensions_from i slots) false = false.
Proof.
  intros Htest. induction slots as [|[d|] ss IH]; intros ext pre i Hpre Hm; cbn [dimensions_from dim_match_loop].
  - reflexivity.
  - destruct ext as [|n ns]; cbn [dims_match] in Hm; [discriminate|]. apply andb_prop in Hm. destruct Hm as [Hd Hm].
    destruct (test d) as [t|] eqn:Et.
    + assert (Hlt : (i - 1 >=? zlen (pre ++ n :: ns)) = false).
      { rewrite zlen_app, zlen_cons. pose proof (zlen_nonneg ns). lia. }
      rewrite Hlt, (nth_pre pre n ns (i - 1) 0 Hpre), (Htest d n t Et Hd).
      replace (pre ++ n :: ns) with ((pre ++ [n]) ++ ns) by (rewrite <- app_assoc; reflexivity).
      apply IH; [rewrite zlen_app, zlen_cons, zlen_nil; lia | exact Hm].
    + replace (pre ++ n :: ns) with ((pre ++ [n]) ++ ns) by (rewrite <- app_assoc; reflexivity).
      apply IH; [rewrite zlen_app, zlen_cons, zlen_nil; lia | exact Hm].
  - destruct ext; discriminate.
Qed.

Lemma dims_match_length slots : forall ext, dims_match slots ext = true -> zlen slots = zlen ext.
Proof.
  induction slots as [|[d|] ss IH]; intros [|n ns] H; cbn [dims_match] in H; try discriminate; try reflexivity.
  apply andb_prop in H. destruct H as [_ H]. rewrite !zlen_cons, (IH ns H). reflexivity.
Qed.

(** a bad (descriptor, data dimension) pair drives the loop to "mismatch" *)
Lemma dim_match_loop_bad test bad slots :
  (forall d n, match test d with Some t => t n = bad d n | None => bad d n = false end) ->
  forall ext pre i, zlen pre = i - 1 -> some_dim_len bad slots ext = true ->
  dim_match_loop test (pre ++ ext) (dimensions_from i slots) false = true.
Proof.
  intros Htest. induction slots as [|[d|] ss IH]; intros ext pre i Hpre Hb; cbn [dimensions_from dim_match_loop].
  - discriminate.
  - destruct ext as [|n ns]; cbn [some_dim_len] in Hb; [discriminate|].
    pose proof (Htest d n) as Hdn. destruct (test d) as [t|] eqn:Et.
    + assert (Hlt : (i - 1 >=? zlen (pre ++ n :: ns)) = false).
      { rewrite zlen_app, zlen_cons. pose proof (zlen_nonneg ns). lia. }
      rewrite Hlt, (nth_pre pre n ns (i - 1) 0 Hpre), Hdn.
      destruct (bad d n) eqn:Eb; [apply dim_match_loop_true|]. cbn [orb] in Hb.
      replace (pre ++ n :: ns) with ((pre ++ [n]) ++ ns) by (rewrite <- app_assoc; reflexivity).
      apply IH; [rewrite zlen_app, zlen_cons, zlen_nil; lia | exact Hb].
    + rewrite Hdn in Hb. cbn [orb] in Hb.
      replace (pre ++ n :: ns) with ((pre ++ [n]) ++ ns) by (rewrite <- app_assoc; reflexivity).
      apply IH; [rewrite zlen_app, zlen_cons, zlen_nil; lia | exact Hb].
  - destruct ext as [|n ns]; cbn [some_dim_len] in Hb; [discriminate|].
    replace (pre ++ n :: ns) with ((pre ++ [n]) ++ ns) by (rewrite <- app_assoc; reflexivity).
    apply IH; [rewrite zlen_app, zlen_cons, zlen_nil; lia | exact Hb].
Qed.

Lemma ticks_test_ok d n t : ticks_test d = Some t -> dim_len_ok d n = true -> t n = false.
Proof. destruct d; cbn; intros [= <-] H; rewrite H; reflexivity. Qed.
Lemma labels_test_ok d n t : labels_test d = Some t -> dim_len_ok d n = true -> t n = false.
Proof. destruct d; cbn; intros [= <-] H. pose proof (zlen_nonneg labels). lia. Qed.
Lemma frame_test_ok d n t : frame_test d = Some t -> dim_len_ok d n = true -> t n = false.
Proof. destruct d; cbn; intros [= <-] H; rewrite H; reflexivity. Qed.

Lemma ticks_test_bad d n : match ticks_test d with Some t => t n = ticks_bad d n | None => ticks_bad d n = false end.
Proof. destruct d; reflexivity. Qed.
Lemma labels_test_bad d n : match labels_test d with Some t => t n = labels_bad d n | None => labels_bad d n = false end.
Proof. destruct d; cbn; try reflexivity. pose proof (zlen_nonneg labels). lia. Qed.
Lemma frame_test_bad d n : match frame_test d with Some t => t n = rows_bad d n | None => rows_bad d n = false end.
Proof. destruct d; reflexivity. Qed.

(** pointwise reading of [dims_match] *)
Lemma dims_match_spec slots : forall ext, dims_match slots ext = true <-> Dims_match slots ext.
Proof.
  unfold Dims_match. induction slots as [|s ss IH]; intros [|n ns]; cbn [dims_match List.length].
  - split; [intros _; split; [reflexivity|intros [|i] n H; discriminate] | reflexivity].
  - split; [discriminate | intros [H _]; discriminate].
  - split; [destruct s; discriminate | intros [H _]; discriminate].
  - destruct s as [d|].
    + rewrite andb_true_iff, IH. split.
      * intros [Hd [Hl Hp]]. split; [now rewrite Hl|]. intros [|i] m Hm; cbn in Hm |- *.
        -- injection Hm as <-. now exists d.
        -- exact (Hp i m Hm).
      * intros [Hl Hp]. split; [|split; [now injection Hl|intros i m Hm; exact (Hp (S i) m Hm)]].
        destruct (Hp 0%nat n eq_refl) as [d' [Hd' Hok]]. cbn in Hd'. now injection Hd' as <-.
    + split; [discriminate|]. intros [_ Hp]. destruct (Hp 0%nat n eq_refl) as [d' [Hd' _]]. discriminate.
Qed.

(* ------------------------------------------------------------------------------------------ *)
(** * Soundness, entity by entity *)

Ltac case_ifs :=
  repeat match goal with
         | |- context [if ?c then _ else _] => destruct c
         end; try reflexivity.

Section Sound.
  Variables isSIUnit isCompoundSIUnit : string -> bool.
  Variable isScalable : string -> string -> bool.
  Variables atomicSI : string -> bool.
  Variable convertible : string -> string -> bool.
  Variable vt : variant.
  (** what the theorems assume of the unit predicates *)
  Hypothesis atomic_is_SI : forall u, atomicSI u = true -> isSIUnit u = true.
  Hypothesis convertible_is_scalable : forall a b, convertible a b = isScalable a b.

  Lemma sound_entity e : ent_ok e = true -> errors (validate_entity e) = [].
  Proof.
    unfold ent_ok, validate_entity. intros H. split_andb. table. unfold str_notEmpty, num_notFalse.
    rewrite H. destruct (e_created e) as [c|]; [|discriminate]. rewrite H0. reflexivity.
  Qed.

  Lemma sound_named n : named_ok n = true -> errors (validate_named_entity n) = [].
  Proof.
    unfold named_ok, validate_named_entity. intros H. split_andb. table. rewrite (sound_entity _ H).
    unfold str_notEmpty. rewrite H1. destruct (n_type n) as [ty|]; [|discriminate]. rewrite H0. reflexivity.
  Qed.

  Lemma sound_array a : array_ok a = true -> errors (validate_array isSIUnit isCompoundSIUnit a) = [].
  Proof.
    unfold array_ok, validate_array, validate_entity_with_sources, validate_entity_with_metadata.
    intros H. split_andb. rename H0 into Hm, H1 into Hd. table. rewrite (sound_named _ H).
    unfold id_bool, dimensionCount. rewrite Hd, (dims_match_length _ _ Hm), Z.eqb_refl.
    pose proof (dim_match_loop_ok ticks_test (a_slots a) ticks_test_ok (a_extent a) [] 1 eq_refl Hm) as Ht.
    pose proof (dim_match_loop_ok labels_test (a_slots a) labels_test_ok (a_extent a) [] 1 eq_refl Hm) as Hl.
    pose proof (dim_match_loop_ok frame_test (a_slots a) frame_test_ok (a_extent a) [] 1 eq_refl Hm) as Hf.
    cbn [app] in Ht, Hl, Hf. unfold dimTicksMatchData, dimLabelsMatchData, dimDataFrameTicksMatchData, dimensions.
    rewrite Ht, Hl, Hf. cbn [negb]. case_ifs.
  Qed.

  Lemma sound_dim idx d : dim_ok atomicSI idx d = true -> errors (validate_dim isSIUnit (idx, d)) = [].
  Proof.
    unfold dim_ok, validate_dim. intros H. apply andb_prop in H. destruct H as [Hi H].
    assert (Hidx : notSmaller 1 idx = true) by (unfold notSmaller; lia).
    destruct d as [labels|iv off un|ticks un|rows cu].
    - unfold validate_set_dim. table. rewrite Hidx. reflexivity.
    - unfold validate_sampled_dim. split_andb. table. rewrite Hidx. cbn [dimtype_eqb].
      destruct iv as [x|]; [|discriminate]. unfold isGreater0. rewrite H.
      destruct un as [u|]; cbn [opt_notFalse opt_is_some opt_unit unit_ok] in *.
      + unfold isAtomicUnit. rewrite (atomic_is_SI _ H0). case_ifs.
      + case_ifs.
    - unfold validate_range_dim. split_andb. table. rewrite Hidx. cbn [dimtype_eqb].
      unfold list_notEmpty. rewrite H. rewrite (increasing_isSorted _ H1).
      destruct un as [u|]; cbn [opt_notFalse opt_is_some opt_unit unit_ok] in *.
      + unfold isAtomicUnit. rewrite (atomic_is_SI _ H0). reflexivity.
      + reflexivity.
    - reflexivity.
  Qed.

  Lemma dim_unit_get d u : dim_unit d = Some u -> getDimensionUnit d = u.
  Proof.
    destruct d as [labels|iv off un|ticks un|rows cu]; cbn [dim_unit getDimensionUnit];
      try discriminate; try (intros ->; reflexivity).
    destruct cu as [x|]; [|discriminate]. cbv zeta. destruct (x ==s "") eqn:E; [discriminate|]. intros [= <-]. reflexivity.
  Qed.

  Lemma tu_refs_loop_forallb units refs :
    tu_refs_loop isScalable vt units refs true =
    forallb (fun r => tu_units_loop isScalable vt units 0 (getDimensionsUnits r) true) refs.
  Proof.
    induction refs as [|r rs IH]; cbn [tu_refs_loop forallb]; [reflexivity|].
    destruct (tu_units_loop isScalable vt units 0 (getDimensionsUnits r) true); cbn [negb andb]; [exact IH|reflexivity].
  Qed.

  Lemma app_cons_assoc {A} (pre : list A) x rest : pre ++ x :: rest = (pre ++ [x]) ++ rest.
  Proof. rewrite <- app_assoc. reflexivity. Qed.

  Lemma tu_units_loop_ok units : forall dims pre i,
    List.length pre = i -> units_conv convertible units dims = true ->
    tu_units_loop isScalable vt units i (pre ++ map getDimensionUnit dims) true = true.
  Proof.
    induction units as [|tu us IH]; intros dims pre i Hpre H; cbn [tu_units_loop]; [reflexivity|].
    destruct dims as [|d ds]; cbn [units_conv] in H; [discriminate|]. apply andb_prop in H. destruct H as [Hc Hr].
    assert (Ha : tu_assign isScalable vt tu (pre ++ map getDimensionUnit (d :: ds)) i true = true).
    { unfold tu_assign. cbn [map]. rewrite nth_error_app2 by lia. replace (i - List.length pre)%nat with 0%nat by lia.
      cbn [nth_error]. unfold unit_conv_ok in Hc. destruct (dim_unit d) as [du|] eqn:Ed; [|discriminate].
      rewrite (dim_unit_get _ _ Ed). rewrite convertible_is_scalable in Hc. rewrite Hc. destruct vt; case_ifs. }
    rewrite Ha. cbn [map]. rewrite app_cons_assoc. apply IH; [rewrite app_length; cbn; lia | exact Hr].
  Qed.

  Lemma sound_tag_units units refs :
    tag_units_ok atomicSI convertible units refs = true ->
    list_notEmpty units = true ->
    vec_unit (isValidUnit isSIUnit isCompoundSIUnit) units = true /\
    tagUnitsMatchRefsUnits isScalable vt units refs = true.
  Proof.
    unfold tag_units_ok. destruct units as [|u us]; [intros _ H; discriminate|]. intros H _.
    apply andb_prop in H. destruct H as [Ha Hr]. split.
    - unfold vec_unit. rewrite forallb_forall in *. intros x Hx. unfold isValidUnit.
      rewrite (atomic_is_SI _ (Ha x Hx)). reflexivity.
    - unfold tagUnitsMatchRefsUnits. rewrite tu_refs_loop_forallb. rewrite forallb_forall in *. intros r Hr'.
      rewrite getDimensionsUnits_attached.
      exact (tu_units_loop_ok (u :: us) (attached (a_slots r)) [] 0%nat eq_refl (Hr r Hr')).
  Qed.

  Lemma sound_tag t : tag_ok atomicSI convertible t = true ->
    errors (validate_tag isSIUnit isCompoundSIUnit isScalable vt t) = [].
  Proof.
    unfold tag_ok, validate_tag, validate_entity_with_sources, validate_entity_with_metadata.
    intros H. split_andb. table. rewrite (sound_named _ H). unfold count_notEmpty. rewrite H3.
    destruct (list_notEmpty (t_units t)) eqn:En; [|reflexivity].
    destruct (sound_tag_units _ _ H0 En) as [Hv Hm]. rewrite Hv, Hm. reflexivity.
  Qed.

  Lemma sound_mtag m : mtag_ok atomicSI convertible m = true ->
    errors (validate_mtag isSIUnit isCompoundSIUnit isScalable vt m) = [].
  Proof.
    unfold mtag_ok, validate_mtag, validate_entity_with_sources, validate_entity_with_metadata.
    intros H. split_andb. table. rewrite (sound_named _ H).
    destruct (m_positions m) as [shape|]; [|discriminate].
    destruct (list_notEmpty (m_units m)) eqn:En; [|reflexivity].
    destruct (sound_tag_units _ _ H0 En) as [Hv Hm]. rewrite Hv, Hm. reflexivity.
  Qed.

  Lemma sound_feature f : feature_ok f = true -> errors (validate_feature f) = [].
  Proof.
    unfold feature_ok, validate_feature. intros H. split_andb. table. rewrite (sound_entity _ H).
    destruct (f_data f) as [[|]|]; try discriminate. destruct (f_link f) as [l|]; [|discriminate].
    unfold id_bool, notSmaller. replace (l <? 0) with false by lia. reflexivity.
  Qed.

  (** item 17: the rule on the unit of a Property is a [must] in the pinned code *)
  Lemma sound_property vp p :
    property_ok p = true ->
    (vp = Repaired \/ match p_unit p with Some u => isValidUnit isSIUnit isCompoundSIUnit u = true | None => True end) ->
    errors (validate_property isSIUnit isCompoundSIUnit vp p) = [].
  Proof.
    unfold property_ok, validate_property. intros H Hu. split_andb.
    assert (Hv : vp = Repaired \/ opt_unit (isValidUnit isSIUnit isCompoundSIUnit) (p_unit p) = true \/ p_unit p = None).
    { destruct Hu as [Hu|Hu]; [now left|right]. destruct (p_unit p); [now left|now right]. }
    clear Hu. destruct vp; table; rewrite (sound_entity _ H); unfold str_notEmpty; rewrite H0; cbn [flat_map app].
    - destruct Hv as [Hv|[Hv|Hv]]; [discriminate| |]; rewrite Hv; cbn [opt_notFalse opt_is_some opt_unit]; case_ifs.
    - case_ifs.
  Qed.

  (** the entity-wise statement *)
  Theorem sound_ent vp e :
    conforms_ent atomicSI convertible e = true ->
    (vp = Repaired \/ match e with
                      | EProperty p => match p_unit p with Some u => isValidUnit isSIUnit isCompoundSIUnit u = true | None => True end
                      | _ => True end) ->
    errors (validate_ent isSIUnit isCompoundSIUnit isScalable vt vp e) = [].
  Proof.
    destruct e as [b|a|o idx d|m|t|f|s|s|p]; cbn [conforms_ent validate_ent]; intros H Hp.
    - exact (sound_named _ H).
    - exact (sound_array _ H).
    - exact (sound_dim _ _ H).
    - exact (sound_mtag _ H).
    - exact (sound_tag _ H).
    - exact (sound_feature _ H).
    - exact (sound_named _ H).
    - exact (sound_named _ H).
    - exact (sound_property _ _ H Hp).
  Qed.
End Sound.

(* ------------------------------------------------------------------------------------------ *)
(** * Completeness, rule by rule: a breach makes the entity's error list non-empty *)

Ltac nonempty :=
  cbv beta iota;
  let E := fresh "E" in
  intros E; apply (f_equal (@List.length message)) in E; rewrite ?app_length in E;
  cbn [List.length] in E; lia.

Ltac find_in :=
  solve [ now left
        | apply in_or_app; left; find_in
        | apply in_or_app; right; find_in
        | right; find_in ].
Ltac find_msg := cbv beta iota; find_in.

Lemma nonempty_has_id id r :
  all_id id r -> errors r <> [] -> exists m, In m (errors r) /\ m_id m = id.
Proof.
  intros Hid Hne. destruct (errors r) as [|m l] eqn:E; [congruence|].
  exists m. split; [now left|]. apply (Hid true). cbn [sel]. rewrite E. now left.
Qed.

Section Complete.
  Variables isSIUnit isCompoundSIUnit : string -> bool.
  Variable isScalable : string -> string -> bool.
  Variable convertible : string -> string -> bool.
  Hypothesis convertible_is_scalable : forall a b, convertible a b = isScalable a b.

  Lemma dimensions_nonempty test ext dims : dim_match_loop test ext dims false = true -> list_notEmpty dims = true.
  Proof. destruct dims; [discriminate|]. intros _. unfold list_notEmpty. rewrite zlen_cons. pose proof (zlen_nonneg dims). lia. Qed.

  Lemma complete_array_len test bad a :
    (forall d n, match test d with Some t => t n = bad d n | None => bad d n = false end) ->
    some_dim_len bad (a_slots a) (a_extent a) = true ->
    dim_match_loop test (a_extent a) (dimensions a) false = true.
  Proof.
    intros Ht Hb. exact (dim_match_loop_bad test bad (a_slots a) Ht (a_extent a) [] 1 eq_refl Hb).
  Qed.

  Lemma complete_array r a :
    In r [RDimCount; RTicks; RLabels; RFrameRows] -> breach convertible r (EArray a) = true ->
    errors (validate_array isSIUnit isCompoundSIUnit a) <> [].
  Proof.
    intros Hr Hb. unfold validate_array. table. unfold dimensionCount.
    destruct (zlen (a_extent a) =? zlen (a_slots a)) eqn:Ec; [|nonempty].
    cbn [In] in Hr. destruct Hr as [<-|[<-|[<-|[<-|[]]]]]; cbn [breach] in Hb.
    - unfold rank in Hb. lia.
    - pose proof (complete_array_len ticks_test ticks_bad a ticks_test_bad Hb) as Hl.
      rewrite (dimensions_nonempty _ _ _ Hl). unfold dimTicksMatchData. rewrite Hl. cbn [negb]. nonempty.
    - pose proof (complete_array_len labels_test labels_bad a labels_test_bad Hb) as Hl.
      rewrite (dimensions_nonempty _ _ _ Hl). unfold dimLabelsMatchData. rewrite Hl. cbn [negb]. nonempty.
    - pose proof (complete_array_len frame_test rows_bad a frame_test_bad Hb) as Hl.
      rewrite (dimensions_nonempty _ _ _ Hl). unfold dimDataFrameTicksMatchData. rewrite Hl. cbn [negb]. nonempty.
  Qed.

  (** dimensions: the message is known exactly (its id is "unknown") *)
  Lemma complete_unsorted o idx d :
    breach convertible RUnsorted (EDim o idx d) = true ->
    In {| m_id := unknown_id; m_text := unsorted_text |} (errors (validate_dim isSIUnit (idx, d))).
  Proof.
    destruct d as [labels|iv off un|ticks un|rows cu]; cbn [breach]; try discriminate. intros H.
    unfold validate_dim, validate_range_dim. table. rewrite (has_descent_not_sorted _ H).
    find_msg.
  Qed.

  Lemma complete_interval o idx d :
    breach convertible RInterval (EDim o idx d) = true ->
    In {| m_id := unknown_id; m_text := interval_text |} (errors (validate_dim isSIUnit (idx, d))).
  Proof.
    destruct d as [labels|iv off un|ticks un|rows cu]; cbn [breach]; try discriminate.
    destruct iv as [x|]; [|discriminate]. intros H.
    unfold validate_dim, validate_sampled_dim. table. pose proof (fle_not_flt _ _ H) as Hf. unfold flt in Hf.
    unfold isGreater0, fgt. rewrite Hf.
    find_msg.
  Qed.

  Lemma complete_nopositions vt m :
    breach convertible RNoPositions (EMTag m) = true ->
    errors (validate_mtag isSIUnit isCompoundSIUnit isScalable vt m) <> [].
  Proof.
    cbn [breach]. intros H. unfold validate_mtag. table. destruct (m_positions m); [discriminate|]. nonempty.
  Qed.

  Lemma complete_nodata f : breach convertible RNoData (EFeature f) = true -> errors (validate_feature f) <> [].
  Proof.
    cbn [breach]. intros H. unfold validate_feature. table. unfold id_bool.
    destruct (f_data f) as [[|]|]; [discriminate| |]; nonempty.
  Qed.

  (** tag units, repaired loop: once false, always false *)
  Lemma tu_assign_false tu du i : tu_assign isScalable Repaired tu du i false = false.
  Proof. unfold tu_assign. destruct (nth_error du i); case_ifs. Qed.

  Lemma tu_units_loop_false units : forall i du, tu_units_loop isScalable Repaired units i du false = false.
  Proof. induction units as [|tu us IH]; intros i du; cbn [tu_units_loop]; [reflexivity|]. rewrite tu_assign_false. apply IH. Qed.

  Lemma unit_breach_assign vt tu d pre rest i m :
    List.length pre = i -> unit_breach convertible tu d = true ->
    tu_assign isScalable vt tu (pre ++ getDimensionUnit d :: rest) i m = false.
  Proof.
    intros Hpre H. unfold unit_breach in H. destruct (dim_unit d) as [du|] eqn:Ed; [|discriminate].
    rewrite (dim_unit_get _ _ Ed). apply andb_prop in H. destruct H as [H Hc]. apply andb_prop in H. destruct H as [H H2].
    apply andb_prop in H. destruct H as [H0 H1]. rewrite convertible_is_scalable in Hc.
    unfold tu_assign. rewrite nth_error_app2 by lia. replace (i - List.length pre)%nat with 0%nat by lia. cbn [nth_error].
    rewrite H0, H1, H2. cbn [andb]. destruct (isScalable tu du); [discriminate|]. destruct vt; [reflexivity|apply andb_false_r].
  Qed.

  Lemma tu_units_loop_breach units : forall dims pre i m,
    List.length pre = i -> units_breach convertible units dims = true ->
    tu_units_loop isScalable Repaired units i (pre ++ map getDimensionUnit dims) m = false.
  Proof.
    induction units as [|tu us IH]; intros dims pre i m Hpre H; [discriminate|].
    destruct dims as [|d ds]; [discriminate|]. cbn [units_breach] in H. cbn [tu_units_loop map].
    destruct (unit_breach convertible tu d) eqn:Eb.
    - rewrite (unit_breach_assign Repaired tu d pre _ i m Hpre Eb). apply tu_units_loop_false.
    - cbn [orb] in H. rewrite app_cons_assoc. apply IH; [rewrite app_length; cbn; lia | exact H].
  Qed.

  Lemma units_breach_nonempty units dims : units_breach convertible units dims = true -> list_notEmpty units = true.
  Proof. destruct units; [discriminate|]. intros _. unfold list_notEmpty. rewrite zlen_cons. pose proof (zlen_nonneg units). lia. Qed.

  Lemma forallb_false {A} (f : A -> bool) l x : In x l -> f x = false -> forallb f l = false.
  Proof.
    induction l as [|a l IH]; cbn [In forallb]; [intros []|]. intros [->|Hx] Hf; [now rewrite Hf|].
    rewrite (IH Hx Hf). apply andb_false_r.
  Qed.

  Lemma tag_units_breach_repaired units refs :
    tag_units_breach convertible units refs = true ->
    list_notEmpty units = true /\ tagUnitsMatchRefsUnits isScalable Repaired units refs = false.
  Proof.
    unfold tag_units_breach. rewrite existsb_exists. intros [r [Hr Hb]]. split; [exact (units_breach_nonempty _ _ Hb)|].
    unfold tagUnitsMatchRefsUnits. rewrite tu_refs_loop_forallb. apply (forallb_false _ _ r Hr).
    rewrite getDimensionsUnits_attached. exact (tu_units_loop_breach units (attached (a_slots r)) [] 0%nat true eq_refl Hb).
  Qed.

  Lemma complete_tagunits_tag t :
    breach convertible RTagUnits (ETag t) = true ->
    errors (validate_tag isSIUnit isCompoundSIUnit isScalable Repaired t) <> [].
  Proof.
    cbn [breach]. intros H. destruct (tag_units_breach_repaired _ _ H) as [Hn Hm].
    unfold validate_tag. table. rewrite Hn, Hm. nonempty.
  Qed.

  Lemma complete_tagunits_mtag m :
    breach convertible RTagUnits (EMTag m) = true ->
    errors (validate_mtag isSIUnit isCompoundSIUnit isScalable Repaired m) <> [].
  Proof.
    cbn [breach]. intros H. destruct (tag_units_breach_repaired _ _ H) as [Hn Hm].
    unfold validate_mtag. table. rewrite Hn, Hm. nonempty.
  Qed.

  (** tag units, pinned loop: the verdict is the last assignment; the breach is reported when
      the non-convertible unit is the last entry of the units vector *)
  Lemma tu_units_loop_app vt us1 : forall us2 i du m,
    tu_units_loop isScalable vt (us1 ++ us2) i du m =
    tu_units_loop isScalable vt us2 (i + List.length us1)%nat du (tu_units_loop isScalable vt us1 i du m).
  Proof.
    induction us1 as [|u us IH]; intros us2 i du m; cbn [app tu_units_loop List.length].
    - now rewrite Nat.add_0_r.
    - rewrite IH. f_equal. lia.
  Qed.

  Definition last_unit_breach (units : list string) (refs : list varray) : Prop :=
    exists pre tu r d, units = pre ++ [tu] /\ In r refs /\
                       nth_error (attached (a_slots r)) (List.length pre) = Some d /\
                       unit_breach convertible tu d = true.

  Lemma tag_units_breach_pinned vt units refs :
    last_unit_breach units refs ->
    list_notEmpty units = true /\ tagUnitsMatchRefsUnits isScalable vt units refs = false.
  Proof.
    intros [pre [tu [r [d [-> [Hr [Hd Hb]]]]]]]. split.
    - unfold list_notEmpty. rewrite zlen_app, zlen_cons, zlen_nil. pose proof (zlen_nonneg pre). lia.
    - unfold tagUnitsMatchRefsUnits. rewrite tu_refs_loop_forallb. apply (forallb_false _ _ r Hr).
      rewrite getDimensionsUnits_attached, tu_units_loop_app. cbn [tu_units_loop Nat.add].
      apply nth_error_split in Hd. destruct Hd as [l1 [l2 [Hs Hl]]]. rewrite Hs, map_app. cbn [map].
      apply unit_breach_assign; [rewrite map_length; exact Hl | exact Hb].
  Qed.

  Lemma complete_tagunits_tag_partial vt t :
    last_unit_breach (t_units t) (t_refs t) ->
    errors (validate_tag isSIUnit isCompoundSIUnit isScalable vt t) <> [].
  Proof.
    intros H. destruct (tag_units_breach_pinned vt _ _ H) as [Hn Hm]. unfold validate_tag. table. rewrite Hn, Hm. nonempty.
  Qed.

  Lemma complete_tagunits_mtag_partial vt m :
    last_unit_breach (m_units m) (m_refs m) ->
    errors (validate_mtag isSIUnit isCompoundSIUnit isScalable vt m) <> [].
  Proof.
    intros H. destruct (tag_units_breach_pinned vt _ _ H) as [Hn Hm]. unfold validate_mtag. table. rewrite Hn, Hm. nonempty.
  Qed.
End Complete.

(* ------------------------------------------------------------------------------------------ *)
(** * Soft rules: reported as warnings *)

Section Soft.
  Variables isSIUnit isCompoundSIUnit : string -> bool.
  Variable isScalable : string -> string -> bool.
  Variable validSI : string -> bool.
  Variables vt vp : variant.
  Hypothesis valid_is_SI : forall u, validSI u = isSIUnit u || isCompoundSIUnit u.

  Lemma soft_reported r e :
    soft_warned validSI r e = true ->
    In {| m_id := ent_id e; m_text := soft_text r e |}
       (warnings (validate_ent isSIUnit isCompoundSIUnit isScalable vt vp e)).
  Proof.
    destruct r, e as [b|a|o idx d|m|t|f|s|s|p]; cbn [soft_warned soft]; try discriminate; intros H;
      cbn [validate_ent ent_id soft_text].
    - (* array unit set, not SI *)
      destruct (a_unit a) as [u|] eqn:Eu; [|discriminate]. rewrite valid_is_SI in H.
      unfold validate_array. table. rewrite Eu. cbn [opt_notFalse opt_is_some opt_unit]. unfold isValidUnit.
      destruct (isSIUnit u || isCompoundSIUnit u); [discriminate|]. find_msg.
    - (* coefficients without origin or vice versa *)
      unfold validate_array. table. unfold count_notEmpty, id_bool.
      destruct (a_origin_set a); destruct (a_poly_n a =? 0); cbn in H; try discriminate; cbn [negb]; find_msg.
    - (* offset without unit *)
      destruct d as [labels|iv off un|ticks un|rows cu]; try discriminate. destruct off as [x|]; [|discriminate].
      destruct un; [discriminate|]. unfold validate_dim, validate_sampled_dim. table.
      cbn [opt_notFalse opt_is_some opt_unit]. find_msg.
    - (* property values without unit *)
      apply andb_prop in H. destruct H as [Hv Hu]. destruct (p_unit p) eqn:Eu; [discriminate|].
      unfold validate_property. destruct vp; table; unfold num_notFalse; rewrite Hv, Eu; cbn [opt_notFalse opt_is_some]; find_msg.
  Qed.
End Soft.

(* ------------------------------------------------------------------------------------------ *)
(** * Counting messages *)

Lemma count_msgs_app p a b : count_msgs p (a ++ b) = count_msgs p a + count_msgs p b.
Proof. unfold count_msgs. rewrite filter_app, zlen_app. reflexivity. Qed.
Lemma count_msgs_nonneg p l : 0 <= count_msgs p l.
Proof. apply zlen_nonneg. Qed.
Lemma count_msgs_in p l m : In m l -> p m = true -> 0 < count_msgs p l.
Proof.
  intros Hin Hp. unfold count_msgs. assert (H : In m (filter p l)) by (apply filter_In; auto).
  destruct (filter p l); [destruct H|]. rewrite zlen_cons. pose proof (zlen_nonneg l0). lia.
Qed.
Lemma count_msgs_none p l : (forall m, In m l -> p m = false) -> count_msgs p l = 0.
Proof.
  intros H. unfold count_msgs. induction l as [|a l IH]; [reflexivity|]. cbn [filter].
  rewrite (H a (or_introl eq_refl)). apply IH. intros m Hm. apply H. now right.
Qed.

Lemma count_flat_map_ge {A} (p : message -> bool) (q : A -> bool) (g : A -> list message) l :
  (forall x, In x l -> q x = true -> 0 < count_msgs p (g x)) ->
  zlen (filter q l) <= count_msgs p (flat_map g l).
Proof.
  induction l as [|a l IH]; intros H; cbn [filter flat_map]; [reflexivity|].
  rewrite count_msgs_app. assert (IH' := IH (fun x Hx => H x (or_intror Hx))).
  pose proof (count_msgs_nonneg p (g a)). destruct (q a) eqn:Eq.
  - rewrite zlen_cons. pose proof (H a (or_introl eq_refl) Eq). lia.
  - lia.
Qed.

Lemma msg_eqb_refl id text : msg_eqb id text {| m_id := id; m_text := text |} = true.
Proof. unfold msg_eqb. cbn. now rewrite !String.eqb_refl. Qed.

(* ------------------------------------------------------------------------------------------ *)
(** * The theorems about File::validate *)

Section FileLevel.
  Variables isSIUnit isCompoundSIUnit : string -> bool.
  Variable isScalable : string -> string -> bool.
  Variables atomicSI validSI : string -> bool.
  Variable convertible : string -> string -> bool.
  Hypothesis atomic_is_SI : forall u, atomicSI u = true -> isSIUnit u = true.
  Hypothesis valid_is_SI : forall u, validSI u = isSIUnit u || isCompoundSIUnit u.
  Hypothesis convertible_is_scalable : forall a b, convertible a b = isScalable a b.

  Notation validate_ := (validate isSIUnit isCompoundSIUnit isScalable).
  Notation validate_ent_ := (validate_ent isSIUnit isCompoundSIUnit isScalable).
  Notation conforms_ := (conforms atomicSI convertible).
  Notation conforms_ent_ := (conforms_ent atomicSI convertible).
  Notation breach_ := (breach convertible).

  (** every property unit of the file is SI or a composite of SI units: the region in which the
      pinned Property rule (a [must]) agrees with the documentation *)
  Definition prop_units_valid (f : vfile) : Prop :=
    forall p u, In (EProperty p) (entities f) -> p_unit p = Some u -> isValidUnit isSIUnit isCompoundSIUnit u = true.

  Lemma conforms_iff f : conforms_ f = true <-> Conforms atomicSI convertible f.
  Proof. unfold conforms, Conforms. apply forallb_forall. Qed.

  Lemma prop_hyp vp f e :
    (vp = Repaired \/ prop_units_valid f) -> In e (entities f) ->
    vp = Repaired \/ match e with
                     | EProperty p => match p_unit p with Some u => isValidUnit isSIUnit isCompoundSIUnit u = true | None => True end
                     | _ => True end.
  Proof.
    intros [H|H] He; [now left|right]. destruct e; try exact I. destruct (p_unit p) as [u|] eqn:Eu; [|exact I].
    exact (H p u He Eu).
  Qed.

  (** SOUND, entity-wise: an error is always about an entity that breaches a documented hard rule *)
  Theorem sound_local vt vp f m :
    (vp = Repaired \/ prop_units_valid f) ->
    In m (errors (validate_ vt vp f)) ->
    exists e, In e (entities f) /\ m_id m = ent_id e /\ conforms_ent_ e = false.
  Proof.
    intros Hp Hm. rewrite errors_validate in Hm. apply in_flat_map in Hm. destruct Hm as [e [He Hm]].
    exists e. split; [exact He|]. split.
    - exact (all_id_validate_ent isSIUnit isCompoundSIUnit isScalable vt vp e true m Hm).
    - destruct (conforms_ent_ e) eqn:Ec; [|reflexivity].
      rewrite (sound_ent isSIUnit isCompoundSIUnit isScalable atomicSI convertible vt atomic_is_SI
                         convertible_is_scalable vp e Ec (prop_hyp vp f e Hp He)) in Hm. destruct Hm.
  Qed.

  (** SOUND: a file that satisfies the documented hard rules gets no error *)
  Theorem sound vt vp f :
    (vp = Repaired \/ prop_units_valid f) ->
    conforms_ f = true -> errors (validate_ vt vp f) = [].
  Proof.
    intros Hp Hc. destruct (errors (validate_ vt vp f)) as [|m l] eqn:E; [reflexivity|].
    destruct (sound_local vt vp f m Hp) as [e [He [_ Hn]]]; [rewrite E; now left|].
    unfold conforms in Hc. rewrite forallb_forall in Hc. rewrite (Hc e He) in Hn. discriminate.
  Qed.

  (** COMPLETE, one entity: a listed breach makes the entity's own rule table report an error *)
  Lemma breach_errors_nonempty vt vp r e :
    (r = RTagUnits -> vt = Repaired) ->
    breach_ r e = true -> errors (validate_ent_ vt vp e) <> [].
  Proof.
    intros Hvt Hb.
    destruct r; destruct e as [b|a|o idx d|m|t|f|s|s|p]; cbn [breach] in Hb; try discriminate; cbn [validate_ent].
    - apply (complete_array isSIUnit isCompoundSIUnit convertible RDimCount); [cbn; tauto | exact Hb].
    - apply (complete_array isSIUnit isCompoundSIUnit convertible RTicks); [cbn; tauto | exact Hb].
    - apply (complete_array isSIUnit isCompoundSIUnit convertible RLabels); [cbn; tauto | exact Hb].
    - apply (complete_array isSIUnit isCompoundSIUnit convertible RFrameRows); [cbn; tauto | exact Hb].
    - intros E. pose proof (complete_unsorted isSIUnit convertible o idx d Hb) as Hi. rewrite E in Hi. destruct Hi.
    - intros E. pose proof (complete_interval isSIUnit convertible o idx d Hb) as Hi. rewrite E in Hi. destruct Hi.
    - rewrite (Hvt eq_refl). exact (complete_tagunits_mtag isSIUnit isCompoundSIUnit isScalable convertible convertible_is_scalable m Hb).
    - rewrite (Hvt eq_refl). exact (complete_tagunits_tag isSIUnit isCompoundSIUnit isScalable convertible convertible_is_scalable t Hb).
    - exact (complete_nopositions isSIUnit isCompoundSIUnit isScalable convertible vt m Hb).
    - exact (complete_nodata convertible f Hb).
  Qed.

  Lemma lift_error vt vp f e :
    In e (entities f) -> errors (validate_ent_ vt vp e) <> [] ->
    exists m, In m (errors (validate_ vt vp f)) /\ m_id m = ent_id e.
  Proof.
    intros He Hne.
    destruct (nonempty_has_id (ent_id e) _ (all_id_validate_ent isSIUnit isCompoundSIUnit isScalable vt vp e) Hne) as [m [Hm Hid]].
    exists m. split; [|exact Hid]. rewrite errors_validate. apply in_flat_map. exists e. split; assumption.
  Qed.

  (** COMPLETE (the statement that holds of the repaired tagUnitsMatchRefsUnits): every entity of
      every file that breaches a listed hard rule gets at least one error, whatever else is wrong *)
  Theorem complete vp f r e :
    In e (entities f) -> breach_ r e = true ->
    exists m, In m (errors (validate_ Repaired vp f)) /\ m_id m = ent_id e.
  Proof.
    intros He Hb. apply (lift_error Repaired vp f e He). exact (breach_errors_nonempty Repaired vp r e (fun _ => eq_refl) Hb).
  Qed.

  (** ... for the pinned loop: all rules but the tag-unit rule ... *)
  Theorem complete_other_rules vt vp f r e :
    r <> RTagUnits -> In e (entities f) -> breach_ r e = true ->
    exists m, In m (errors (validate_ vt vp f)) /\ m_id m = ent_id e.
  Proof.
    intros Hr He Hb. apply (lift_error vt vp f e He). apply (breach_errors_nonempty vt vp r e); [intros ->; congruence | exact Hb].
  Qed.

  (** ... and the tag-unit rule when the non-convertible unit is the last of the units vector *)
  Theorem complete_tagunits_partial vt vp f e :
    In e (entities f) ->
    match e with
    | ETag t => last_unit_breach convertible (t_units t) (t_refs t)
    | EMTag m => last_unit_breach convertible (m_units m) (m_refs m)
    | _ => False
    end ->
    exists m, In m (errors (validate_ vt vp f)) /\ m_id m = ent_id e.
  Proof.
    intros He Hb. apply (lift_error vt vp f e He). destruct e; try contradiction; cbn [validate_ent].
    - exact (complete_tagunits_mtag_partial isSIUnit isCompoundSIUnit isScalable convertible convertible_is_scalable vt m Hb).
    - exact (complete_tagunits_tag_partial isSIUnit isCompoundSIUnit isScalable convertible convertible_is_scalable vt t Hb).
  Qed.

  (** dimensions have no id: per rule text, at least as many errors as breaching dimensions *)
  Theorem complete_dims_unsorted vt vp f :
    count_dims (breach_ RUnsorted) (entities f)
    <= count_msgs (msg_eqb unknown_id unsorted_text) (errors (validate_ vt vp f)).
  Proof.
    rewrite errors_validate. unfold count_dims. apply count_flat_map_ge. intros e _ Hq.
    apply andb_prop in Hq. destruct Hq as [Hd Hb]. destruct e; try discriminate. cbn [validate_ent].
    exact (count_msgs_in _ _ _ (complete_unsorted isSIUnit convertible owner idx d Hb) (msg_eqb_refl _ _)).
  Qed.

  Theorem complete_dims_interval vt vp f :
    count_dims (breach_ RInterval) (entities f)
    <= count_msgs (msg_eqb unknown_id interval_text) (errors (validate_ vt vp f)).
  Proof.
    rewrite errors_validate. unfold count_dims. apply count_flat_map_ge. intros e _ Hq.
    apply andb_prop in Hq. destruct Hq as [Hd Hb]. destruct e; try discriminate. cbn [validate_ent].
    exact (count_msgs_in _ _ _ (complete_interval isSIUnit convertible owner idx d Hb) (msg_eqb_refl _ _)).
  Qed.

  (** SOFT: an entity that only breaches soft rules gets no error, and the soft breaches the
      documentation's rule list names are reported as warnings *)
  Theorem soft_is_warning vt vp f r e :
    (vp = Repaired \/ prop_units_valid f) ->
    In e (entities f) -> soft validSI r e = true -> conforms_ent_ e = true ->
    errors (validate_ent_ vt vp e) = []
    /\ (soft_warned validSI r e = true ->
        exists w, In w (warnings (validate_ vt vp f)) /\ m_id w = ent_id e /\ m_text w = soft_text r e).
  Proof.
    intros Hp He _ Hc. split.
    - exact (sound_ent isSIUnit isCompoundSIUnit isScalable atomicSI convertible vt atomic_is_SI
                       convertible_is_scalable vp e Hc (prop_hyp vp f e Hp He)).
    - intros Hw. exists {| m_id := ent_id e; m_text := soft_text r e |}. split; [|split; reflexivity]. rewrite warnings_validate. apply in_flat_map. exists e. split; [exact He|].
      exact (soft_reported isSIUnit isCompoundSIUnit isScalable validSI vt vp valid_is_SI r e Hw).
  Qed.

  (** the soft fields do not take part in conformance: whatever the unit, the calibration fields
      of an array or the value count and unit of a property are, the entity conforms or not as before *)
  Lemma soft_fields_array a u n o :
    conforms_ent_ (EArray {| a_ent := a_ent a; a_dtype_set := a_dtype_set a; a_extent := a_extent a; a_slots := a_slots a;
                             a_unit := u; a_poly_n := n; a_origin_set := o |}) = conforms_ent_ (EArray a).
  Proof. reflexivity. Qed.
  Lemma soft_fields_property p n u :
    conforms_ent_ (EProperty {| p_ent := p_ent p; p_name := p_name p; p_valuecount := n; p_unit := u |}) = conforms_ent_ (EProperty p).
  Proof. reflexivity. Qed.
  Lemma soft_fields_sampled o idx iv off off' u :
    conforms_ent_ (EDim o idx (DSampled iv off u)) = true -> conforms_ent_ (EDim o idx (DSampled iv off' None)) = true.
  Proof. cbn [conforms_ent]. unfold dim_ok. intros H. split_andb. rewrite H, H0. reflexivity. Qed.
End FileLevel.

(* ------------------------------------------------------------------------------------------ *)
(** * The oracle: the verdict clauses hold of the repaired model on every file *)

Section Oracle.
  Variables isSIUnit isCompoundSIUnit : string -> bool.
  Variable isScalable : string -> string -> bool.
  Variables atomicSI validSI : string -> bool.
  Variable convertible : string -> string -> bool.
  Hypothesis atomic_is_SI : forall u, atomicSI u = true -> isSIUnit u = true.
  Hypothesis valid_is_SI : forall u, validSI u = isSIUnit u || isCompoundSIUnit u.
  Hypothesis convertible_is_scalable : forall a b, convertible a b = isScalable a b.
  Variable f : vfile.
  (** ids (property C12): no two entities share an id, and none is called "unknown" *)
  Hypothesis ids_unique : forall e1 e2, In e1 (entities f) -> In e2 (entities f) ->
                                        is_dim e1 = false -> ent_id e1 = ent_id e2 -> e1 = e2.
  Hypothesis ids_known : forall e, In e (entities f) -> is_dim e = false -> ent_id e <> unknown_id.

  Notation validate_ := (validate isSIUnit isCompoundSIUnit isScalable).
  Notation PV := (prop_units_valid isSIUnit isCompoundSIUnit f).

  Lemma complete_dims_offset vt vp :
    count_dims (soft validSI SOffsetUnit) (entities f)
    <= count_msgs (msg_eqb unknown_id offset_text) (warnings (validate_ vt vp f)).
  Proof.
    rewrite warnings_validate. unfold count_dims. apply count_flat_map_ge. intros e _ Hq.
    apply andb_prop in Hq. destruct Hq as [Hd Hb]. destruct e; try discriminate.
    refine (count_msgs_in _ _ _ (soft_reported isSIUnit isCompoundSIUnit isScalable validSI vt vp valid_is_SI SOffsetUnit _ _) (msg_eqb_refl _ _)).
    exact Hb.
  Qed.

  Theorem oracle_sound vp :
    (vp = Repaired \/ PV) ->
    judge (verdicts atomicSI validSI convertible f) (validate_ Repaired vp f) = true.
  Proof.
    intros Hp. unfold judge. apply forallb_forall. intros v Hv. unfold verdicts in Hv.
    pose proof (sound_local isSIUnit isCompoundSIUnit isScalable atomicSI convertible atomic_is_SI
                            convertible_is_scalable Repaired vp f) as SL.
    apply in_app_or in Hv. destruct Hv as [Hv|Hv].
    { destruct (conforms atomicSI convertible f) eqn:Ec; [|destruct Hv]. destruct Hv as [<-|[]]. cbn [judge1].
      rewrite (sound isSIUnit isCompoundSIUnit isScalable atomicSI convertible atomic_is_SI convertible_is_scalable
                     Repaired vp f Hp Ec). reflexivity. }
    apply in_app_or in Hv. destruct Hv as [Hv|Hv].
    { apply in_flat_map in Hv. destruct Hv as [e [He Hv]]. unfold ent_verdicts in Hv.
      destruct (is_dim e) eqn:Ed; [destruct Hv|]. apply in_app_or in Hv. destruct Hv as [Hv|Hv].
      { destruct (conforms_ent atomicSI convertible e) eqn:Ec; [|destruct Hv]. destruct Hv as [<-|[]]. cbn [judge1].
        rewrite count_msgs_none; [reflexivity|]. intros m Hm. destruct (m_id m ==s ent_id e) eqn:Eid; [|reflexivity].
        apply String.eqb_eq in Eid. destruct (SL m Hp Hm) as [e' [He' [Hid Hn]]].
        assert (e = e') by (apply ids_unique; congruence). subst e'. congruence. }
      apply in_app_or in Hv. destruct Hv as [Hv|Hv].
      { destruct (any_breach convertible e) eqn:Eb; [|destruct Hv]. destruct Hv as [<-|[]]. cbn [judge1].
        unfold any_breach in Eb. apply existsb_exists in Eb. destruct Eb as [r [_ Hb]].
        destruct (complete isSIUnit isCompoundSIUnit isScalable convertible convertible_is_scalable vp f r e He Hb) as [m [Hm Hid]].
        apply Z.ltb_lt. apply (count_msgs_in _ _ m Hm). rewrite Hid. apply String.eqb_refl. }
      apply in_flat_map in Hv. destruct Hv as [r [_ Hv]].
      destruct (soft_warned validSI r e) eqn:Ew; [|destruct Hv]. destruct Hv as [<-|[]]. cbn [judge1].
      apply Z.ltb_lt. apply (count_msgs_in _ _ {| m_id := ent_id e; m_text := soft_text r e |}); [|apply msg_eqb_refl].
      rewrite warnings_validate. apply in_flat_map. exists e. split; [exact He|].
      exact (soft_reported isSIUnit isCompoundSIUnit isScalable validSI Repaired vp valid_is_SI r e Ew). }
    unfold dim_verdicts in Hv. apply in_app_or in Hv. destruct Hv as [Hv|Hv].
    { destruct (forallb (fun e => negb (is_dim e) || conforms_ent atomicSI convertible e) (entities f)) eqn:Ea; [|destruct Hv].
      destruct Hv as [<-|[]]. cbn [judge1]. rewrite count_msgs_none; [reflexivity|]. intros m Hm.
      destruct (m_id m ==s unknown_id) eqn:Eid; [|reflexivity]. apply String.eqb_eq in Eid.
      destruct (SL m Hp Hm) as [e' [He' [Hid Hn]]]. rewrite forallb_forall in Ea. specialize (Ea e' He').
      destruct (is_dim e') eqn:Ed; cbn [negb orb] in Ea; [congruence|].
      exfalso. apply (ids_known e' He' Ed). congruence. }
    apply in_app_or in Hv. destruct Hv as [Hv|Hv].
    { destruct (0 <? count_dims (breach convertible RUnsorted) (entities f)); [|destruct Hv]. destruct Hv as [<-|[]].
      cbn [judge1]. apply Z.leb_le. apply complete_dims_unsorted. }
    apply in_app_or in Hv. destruct Hv as [Hv|Hv].
    { destruct (0 <? count_dims (breach convertible RInterval) (entities f)); [|destruct Hv]. destruct Hv as [<-|[]].
      cbn [judge1]. apply Z.leb_le. apply complete_dims_interval. }
    destruct (0 <? count_dims (soft validSI SOffsetUnit) (entities f)); [|destruct Hv]. destruct Hv as [<-|[]].
    cbn [judge1]. apply Z.leb_le. apply complete_dims_offset.
  Qed.
End Oracle.

(* ------------------------------------------------------------------------------------------ *)
(** * Witnesses: the two open defects, and non-vacuity.
    A toy unit algebra (two atomic units, scalable iff equal) stands in for util.cpp. *)

Definition toy_isSI (u : string) : bool := (u ==s "s") || (u ==s "V").
Definition toy_compound (u : string) : bool := false.
Definition toy_scalable (a b : string) : bool := toy_isSI a && toy_isSI b && (a ==s b).
Definition toy_valid (u : string) : bool := toy_isSI u || toy_compound u.

Definition w_ent (id : string) : vent := {| e_id := id; e_created := Some 1 |}.
Definition w_named (id name : string) : vnamed := {| n_ent := w_ent id; n_name := name; n_type := Some "t" |}.
Definition w_dim : vdim := DSampled (Some (ofZ 1)) None (Some "s").
Definition w_array : varray :=
  {| a_ent := w_named "1" "a"; a_dtype_set := true; a_extent := [2; 2]; a_slots := [Some w_dim; Some w_dim];
     a_unit := Some "V"; a_poly_n := 0; a_origin_set := false |}.
(** section 9 item 16: units {"V","s"} on a reference whose dimension units are {"s","s"} *)
Definition w_tag (units : list string) : vtag :=
  {| t_ent := w_named "2" "t"; t_position_n := 2; t_extent_n := 0; t_units := units; t_refs := [w_array]; t_feats := [] |}.
Definition w_file_tag (units : list string) : vfile :=
  {| f_blocks := [ {| b_ent := w_named "0" "b"; b_arrays := [w_array]; b_mtags := []; b_tags := [w_tag units]; b_sources := [] |} ];
     f_sections := [] |}.
(** section 9 item 17: a property whose unit is not an SI unit *)
Definition w_file_prop (unit : option string) : vfile :=
  {| f_blocks := [];
     f_sections := [ {| s_ent := w_named "0" "s";
                        s_props := [ {| p_ent := w_ent "1"; p_name := "p"; p_valuecount := 1; p_unit := unit |} ] |} ] |}.

Lemma toy_atomic_is_SI : forall u, toy_isSI u = true -> toy_isSI u = true.
Proof. auto. Qed.
Lemma toy_valid_is_SI : forall u, toy_valid u = toy_isSI u || toy_compound u.
Proof. reflexivity. Qed.
Lemma toy_convertible_is_scalable : forall a b, toy_scalable a b = toy_scalable a b.
Proof. reflexivity. Qed.

Lemma witness_tagunits :
  In (ETag (w_tag ["V"; "s"])) (entities (w_file_tag ["V"; "s"])) /\
  breach toy_scalable RTagUnits (ETag (w_tag ["V"; "s"])) = true /\
  (forall vp, errors (validate toy_isSI toy_compound toy_scalable AsPinned vp (w_file_tag ["V"; "s"])) = []) /\
  (forall vp, errors (validate toy_isSI toy_compound toy_scalable Repaired vp (w_file_tag ["V"; "s"])) <> []) /\
  (forall vt vp, errors (validate toy_isSI toy_compound toy_scalable vt vp (w_file_tag ["s"; "V"])) <> []).
Proof.
  split; [cbn; tauto|]. split; [vm_compute; reflexivity|].
  split; [intros []; vm_compute; reflexivity|].
  split; [intros []; vm_compute; discriminate|]. intros [] []; vm_compute; discriminate.
Qed.

Lemma witness_propunit :
  conforms toy_isSI toy_scalable (w_file_prop (Some "spikes")) = true /\
  (forall vt, errors (validate toy_isSI toy_compound toy_scalable vt AsPinned (w_file_prop (Some "spikes"))) <> []) /\
  (forall vt, errors (validate toy_isSI toy_compound toy_scalable vt Repaired (w_file_prop (Some "spikes"))) = []) /\
  (forall vt, warnings (validate toy_isSI toy_compound toy_scalable vt Repaired (w_file_prop (Some "spikes"))) <> []).
Proof.
  split; [vm_compute; reflexivity|]. split; [intros []; vm_compute; discriminate|].
  split; [intros []; vm_compute; reflexivity|]. intros []; vm_compute; discriminate.
Qed.

(** non-vacuity: a conforming file exists and validates clean; every listed breach is inhabited *)
Lemma witness_conforming :
  conforms toy_isSI toy_scalable (w_file_tag ["s"; "s"]) = true /\
  (forall vt vp, validate toy_isSI toy_compound toy_scalable vt vp (w_file_tag ["s"; "s"]) = rnil).
Proof. split; [vm_compute; reflexivity|]. intros [] []; vm_compute; reflexivity. Qed.

(* ------------------------------------------------------------------------------------------ *)
(** * The statements of Properties_C19.v

    [sound_stmt] / [complete_stmt] are indexed by the variant of the model they speak about: for
    [Repaired] the full statement of the property, for [AsPinned] the statement under the
    hypothesis that excludes the open defect.  [C19_sound_current] / [C19_complete_current] apply
    them to the variants the current model uses (Validator.tagUnits_variant / propUnit_variant),
    so that flipping those two lines after the fix: commits turns the theorems about the current
    model into the full statements without touching any other file. *)

Section Statements.
  Variables isSIUnit isCompoundSIUnit : string -> bool.
  Variable isScalable : string -> string -> bool.
  Variables atomicSI validSI : string -> bool.
  Variable convertible : string -> string -> bool.

  Definition sound_full (V : vfile -> result) : Prop :=
    forall f, conforms atomicSI convertible f = true -> errors (V f) = [].
  Definition sound_partial (V : vfile -> result) : Prop :=
    forall f, prop_units_valid isSIUnit isCompoundSIUnit f -> conforms atomicSI convertible f = true -> errors (V f) = [].
  Definition sound_stmt (vt vp : variant) : Prop :=
    match vp with
    | Repaired => sound_full (validate isSIUnit isCompoundSIUnit isScalable vt vp)
    | AsPinned => sound_partial (validate isSIUnit isCompoundSIUnit isScalable vt vp)
    end.

  Definition complete_full (V : vfile -> result) : Prop :=
    forall f r e, In e (entities f) -> breach convertible r e = true ->
                  exists m, In m (errors (V f)) /\ m_id m = ent_id e.
  Definition complete_partial (V : vfile -> result) : Prop :=
    (forall f r e, r <> RTagUnits -> In e (entities f) -> breach convertible r e = true ->
                   exists m, In m (errors (V f)) /\ m_id m = ent_id e)
    /\ (forall f e, In e (entities f) ->
                    match e with
                    | ETag t => last_unit_breach convertible (t_units t) (t_refs t)
                    | EMTag m => last_unit_breach convertible (m_units m) (m_refs m)
                    | _ => False
                    end ->
                    exists m, In m (errors (V f)) /\ m_id m = ent_id e).
  Definition complete_stmt (vt vp : variant) : Prop :=
    match vt with
    | Repaired => complete_full (validate isSIUnit isCompoundSIUnit isScalable vt vp)
    | AsPinned => complete_partial (validate isSIUnit isCompoundSIUnit isScalable vt vp)
    end.

  Hypothesis UA : unit_assumptions isSIUnit isCompoundSIUnit isScalable atomicSI validSI convertible.

  Lemma sound_for vt vp : sound_stmt vt vp.
  Proof.
    destruct UA as [H1 [H2 H3]]. destruct vp; cbn [sound_stmt].
    - intros f Hp Hc. exact (sound _ _ _ _ _ H1 H3 vt AsPinned f (or_intror Hp) Hc).
    - intros f Hc. exact (sound _ _ _ _ _ H1 H3 vt Repaired f (or_introl eq_refl) Hc).
  Qed.

  Lemma complete_for vt vp : complete_stmt vt vp.
  Proof.
    destruct UA as [H1 [H2 H3]]. destruct vt; cbn [complete_stmt].
    - split.
      + intros f r e. exact (complete_other_rules _ _ _ _ H3 AsPinned vp f r e).
      + intros f e. exact (complete_tagunits_partial _ _ _ _ H3 AsPinned vp f e).
    - intros f r e. exact (complete _ _ _ _ H3 vp f r e).
  Qed.

  Lemma sound_entitywise_for vt f m :
    In m (errors (validate isSIUnit isCompoundSIUnit isScalable vt Repaired f)) ->
    exists e, In e (entities f) /\ m_id m = ent_id e /\ conforms_ent atomicSI convertible e = false.
  Proof. destruct UA as [H1 [H2 H3]]. exact (sound_local _ _ _ _ _ H1 H3 vt Repaired f m (or_introl eq_refl)). Qed.

  Lemma complete_dims_for vt vp f :
    count_dims (breach convertible RUnsorted) (entities f)
      <= count_msgs (msg_eqb unknown_id unsorted_text) (errors (validate isSIUnit isCompoundSIUnit isScalable vt vp f))
    /\ count_dims (breach convertible RInterval) (entities f)
      <= count_msgs (msg_eqb unknown_id interval_text) (errors (validate isSIUnit isCompoundSIUnit isScalable vt vp f)).
  Proof. split; [apply complete_dims_unsorted | apply complete_dims_interval]. Qed.

  (** the same per owning array: the part of the walk that belongs to array [a] (its own table, then its
      dimensions) contains, per rule text, at least as many "unknown" errors as [a] has breaching dimensions *)
  Lemma complete_dims_per_array_for a :
    count_dims (breach convertible RUnsorted) (array_entities a)
      <= count_msgs (msg_eqb unknown_id unsorted_text) (errors (walk_array isSIUnit isCompoundSIUnit a))
    /\ count_dims (breach convertible RInterval) (array_entities a)
      <= count_msgs (msg_eqb unknown_id interval_text) (errors (walk_array isSIUnit isCompoundSIUnit a)).
  Proof.
    pose proof (sel_walk_array isSIUnit isCompoundSIUnit isScalable AsPinned AsPinned true a) as Hw. cbn [sel] in Hw.
    rewrite Hw. unfold count_dims. split; apply count_flat_map_ge; intros e _ Hq;
      apply andb_prop in Hq; destruct Hq as [Hd Hb]; destruct e; try discriminate; cbn [validate_ent].
    - exact (count_msgs_in _ _ _ (complete_unsorted isSIUnit convertible owner idx d Hb) (msg_eqb_refl _ _)).
    - exact (count_msgs_in _ _ _ (complete_interval isSIUnit convertible owner idx d Hb) (msg_eqb_refl _ _)).
  Qed.

  Lemma soft_for vt f r e :
    In e (entities f) -> soft validSI r e = true -> conforms_ent atomicSI convertible e = true ->
    errors (validate_ent isSIUnit isCompoundSIUnit isScalable vt Repaired e) = []
    /\ (soft_warned validSI r e = true ->
        exists w, In w (warnings (validate isSIUnit isCompoundSIUnit isScalable vt Repaired f))
                  /\ m_id w = ent_id e /\ m_text w = soft_text r e).
  Proof.
    destruct UA as [H1 [H2 H3]].
    exact (soft_is_warning _ _ _ _ _ _ H1 H2 H3 vt Repaired f r e (or_introl eq_refl)).
  Qed.

  Lemma oracle_for f :
    ids_distinct f ->
    judge (verdicts atomicSI validSI convertible f) (validate isSIUnit isCompoundSIUnit isScalable Repaired Repaired f) = true.
  Proof.
    destruct UA as [H1 [H2 H3]]. intros [Hu Hk].
    exact (oracle_sound _ _ _ _ _ _ H1 H2 H3 f Hu Hk Repaired (or_introl eq_refl)).
  Qed.
End Statements.

Lemma toy_assumptions : unit_assumptions toy_isSI toy_compound toy_scalable toy_isSI toy_valid toy_scalable.
Proof. repeat split; auto. Qed.

(** item 16: the full completeness statement is false of the pinned loop *)
Lemma complete_refuted :
  ~ (forall isSIUnit isCompoundSIUnit isScalable atomicSI validSI convertible,
        unit_assumptions isSIUnit isCompoundSIUnit isScalable atomicSI validSI convertible ->
        forall vp, complete_full convertible (validate isSIUnit isCompoundSIUnit isScalable AsPinned vp)).
Proof.
  intros H. destruct witness_tagunits as [Hin [Hb [Hnil _]]].
  destruct (H _ _ _ _ _ _ toy_assumptions AsPinned _ _ _ Hin Hb) as [m [Hm _]]. rewrite Hnil in Hm. destruct Hm.
Qed.

(** item 17: the full soundness statement is false of the pinned Property rule *)
Lemma sound_refuted :
  ~ (forall isSIUnit isCompoundSIUnit isScalable atomicSI validSI convertible,
        unit_assumptions isSIUnit isCompoundSIUnit isScalable atomicSI validSI convertible ->
        forall vt, sound_full atomicSI convertible (validate isSIUnit isCompoundSIUnit isScalable vt AsPinned)).
Proof.
  intros H. destruct witness_propunit as [Hc [Hne _]].
  exact (Hne AsPinned (H _ _ _ _ _ _ toy_assumptions AsPinned _ Hc)).
Qed.
