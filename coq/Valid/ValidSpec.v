(** C19 — specification side, written from docs/validation.rst (the documentation, not the code)
    and from the text of property C19.  Definitions only.

    [conforms]      : the file satisfies every documented hard rule (section "Hard rules")
    [breach r e]    : entity [e] breaches hard rule [r], for the nine rules property C19 lists
    [soft r e]      : entity [e] breaches soft rule [r], for the four soft rules it lists
    [verdicts]      : the oracle — what the specification demands of a validator's answer on a
                      given file, as a list of independent clauses ([judge] is their meaning)

    Reading decisions (each is reported to the coordinator):
    - "Unit must be set to an atomic SI unit" (Range/SampledDimension, Tag) is read as "a unit,
      if given, is an atomic SI unit": the documentation's own soft rule "If Offset is set a valid
      unit must also be set" presupposes unit-less dimensions in valid files, and DESIGN.md C19
      fixes the same reading for tag units.
    - DataFrame dimensions are not mentioned by the documentation; the rule "number of data-frame
      rows = data length" is taken from the text of property C19, which lists it as a hard rule.
    - The documentation states that it lists *all* hard rules; it has no hard rule about the unit
      of a Property (only the soft rule "if Value is set, it should also have a Unit").  [conforms]
      therefore does not constrain property units (DESIGN.md section 9 item 17: the code reports
      a non-SI property unit as an error — that is a deviation from the documented rules).
    - A missing DataArray unit is listed by property C19 among the soft breaches; the code issues
      no message at all for it.  The theorems claim "never an error" for it and "a warning" only
      for the soft breaches the documentation's rule list names ([soft_warned]). *)
From Coq Require Import ZArith Bool String List.
Require Import NixV.Base.Prelude NixV.Base.F64 NixV.Valid.Validator.
Import ListNotations.
Local Open Scope string_scope.
Local Open Scope Z_scope.
Local Notation "a ==s b" := (String.eqb a b) (at level 70).

Section Spec.
  (** the documentation's unit vocabulary (the algebra behind it is property C18) *)
  Variable atomicSI : string -> bool.                (* "an atomic SI unit" *)
  Variable validSI : string -> bool.                 (* "SI or composite of SI units" *)
  Variable convertible : string -> string -> bool.   (* "convertible to" *)

  (* ---------------------------------------------------------------------------------------- *)
  (** * Hard rules, per object type (docs/validation.rst, "Hard rules") *)

  (** Entities: ID, creation date *)
  Definition ent_ok (e : vent) : bool :=
    negb (e_id e ==s "") && match e_created e with Some c => negb (c =? 0) | None => false end.
  (** ... name, type *)
  Definition named_ok (n : vnamed) : bool :=
    ent_ok (n_ent n) && negb (n_name n ==s "")
    && match n_type n with Some ty => negb (ty ==s "") | None => false end.

  (** DataArray: "Number of Ticks in any attached RangeDimension objects must match the length of
      the corresponding dimension in the data", "Number of Labels ..., if set, must match ...";
      data-frame rows: property C19 *)
  Definition dim_len_ok (d : vdim) (n : Z) : bool :=
    match d with
    | DRange ticks _ => zlen ticks =? n
    | DSet labels => (zlen labels =? 0) || (zlen labels =? n)
    | DFrame rows _ => rows =? n
    | DSampled _ _ _ => true
    end.
  (** "Number of attached Dimension objects must match the number of dimensions in the data":
      descriptor i (1-based) describes data dimension i; both sequences end together *)
  Fixpoint dims_match (slots : list (option vdim)) (extent : list Z) : bool :=
    match slots, extent with
    | [], [] => true
    | Some d :: ss, n :: ns => dim_len_ok d n && dims_match ss ns
    | _, _ => false
    end.
  Definition array_ok (a : varray) : bool :=
    named_ok (a_ent a) && a_dtype_set a && dims_match (a_slots a) (a_extent a).

  (** Dimension objects *)
  Definition unit_ok (u : option string) : bool :=
    match u with None => true | Some x => atomicSI x end.
  (** "Ticks must be sorted in increasing order" *)
  Fixpoint increasing (l : list F64) : bool :=
    match l with
    | a :: ((b :: _) as tl) => fle a b && increasing tl
    | _ => true
    end.
  Definition dim_ok (idx : Z) (d : vdim) : bool :=
    (1 <=? idx)                                                   (* "Dimension index must be positive" *)
    && match d with
       | DRange ticks u => negb (zlen ticks =? 0) && increasing ticks && unit_ok u
       | DSampled iv _ u =>
           match iv with Some x => fgt x (ofZ 0) | None => false end   (* "set and have a positive value" *)
           && unit_ok u
       | DSet _ => true
       | DFrame _ _ => true
       end.

  (** the dimension objects attached to an array, in index order *)
  Fixpoint attached (slots : list (option vdim)) : list vdim :=
    match slots with
    | [] => []
    | Some d :: rest => d :: attached rest
    | None :: rest => attached rest
    end.
  (** the unit a dimension defines, if any *)
  Definition dim_unit (d : vdim) : option string :=
    match d with
    | DSet _ => None
    | DSampled _ _ u => u
    | DRange _ u => u
    | DFrame _ cu => match cu with Some u => if u ==s "" then None else Some u | None => None end
    end.
  Definition rank (a : varray) : Z := zlen (a_extent a).

  (** Tag: "Number of units must match the number of dimensions in all the referenced DataArray
      objects", "Units must be convertible to the corresponding units in all the referenced
      DataArray objects" *)
  Definition unit_conv_ok (tu : string) (d : vdim) : bool :=
    match dim_unit d with Some du => convertible tu du | None => false end.
  Fixpoint units_conv (units : list string) (dims : list vdim) : bool :=
    match units, dims with
    | [], [] => true
    | tu :: us, d :: ds => unit_conv_ok tu d && units_conv us ds
    | _, _ => false
    end.
  (** every *given* unit is an atomic SI unit (DESIGN.md C19: the empty string is not) *)
  Definition tag_units_ok (units : list string) (refs : list varray) : bool :=
    match units with
    | [] => true
    | _ => forallb atomicSI units && forallb (fun r => units_conv units (attached (a_slots r))) refs
    end.
  Definition tag_ok (t : vtag) : bool :=
    named_ok (t_ent t)
    && negb (t_position_n t =? 0)                                            (* "Position must be set" *)
    && forallb (fun r => t_position_n t =? rank r) (t_refs t)
    && ((t_extent_n t =? 0)
        || ((t_extent_n t =? t_position_n t) && forallb (fun r => t_extent_n t =? rank r) (t_refs t)))
    && tag_units_ok (t_units t) (t_refs t).

  (** MultiTag: positions one- or two-dimensional *)
  Definition positions_shape_ok (shape : list Z) (refs : list varray) : bool :=
    match shape with
    | [_] => forallb (fun r => rank r =? 1) refs
    | [_; k] => forallb (fun r => rank r =? k) refs
    | _ => false
    end.
  Fixpoint shape_eqb (a b : list Z) : bool :=
    match a, b with
    | [], [] => true
    | x :: xs, y :: ys => (x =? y) && shape_eqb xs ys
    | _, _ => false
    end.
  Definition mtag_ok (m : vmtag) : bool :=
    named_ok (m_ent m)
    && match m_positions m with
       | None => false                                                        (* "Position must be set" *)
       | Some shape =>
           positions_shape_ok shape (m_refs m)
           && match m_extents m with None => true | Some es => shape_eqb es shape end
       end
    && tag_units_ok (m_units m) (m_refs m).

  (** Feature: "Data reference must be set", "LinkType must be set and have a valid value" *)
  Definition feature_ok (f : vfeature) : bool :=
    ent_ok (f_ent f)
    && match f_data f with Some true => true | _ => false end
    && match f_link f with Some l => (0 <=? l) && (l <=? 2) | None => false end.

  (** Property: "Rules for Entities apply (excluding type)" *)
  Definition property_ok (p : vproperty) : bool := ent_ok (p_ent p) && negb (p_name p ==s "").

  Definition conforms_ent (e : entity) : bool :=
    match e with
    | EBlock b => named_ok b
    | EArray a => array_ok a
    | EDim _ idx d => dim_ok idx d
    | EMTag m => mtag_ok m
    | ETag t => tag_ok t
    | EFeature f => feature_ok f
    | ESource s => named_ok s
    | ESection s => named_ok s
    | EProperty p => property_ok p
    end.

  Definition conforms (f : vfile) : bool := forallb conforms_ent (entities f).
  (** the same as a proposition *)
  Definition Conforms (f : vfile) : Prop := forall e, In e (entities f) -> conforms_ent e = true.

  (** pointwise reading of [dims_match] (proved equivalent in ValidProofs.v) *)
  Definition Dims_match (slots : list (option vdim)) (extent : list Z) : Prop :=
    List.length slots = List.length extent /\
    forall i n, nth_error extent i = Some n ->
                exists d, nth_error slots i = Some (Some d) /\ dim_len_ok d n = true.

  (* ---------------------------------------------------------------------------------------- *)
  (** * The hard-rule breaches property C19 lists *)

  Inductive hard_rule : Set :=
  | RDimCount      (* number of dimension descriptors differs from the data rank *)
  | RTicks         (* number of ticks differs from the data length *)
  | RLabels        (* number of labels differs from the data length *)
  | RFrameRows     (* number of data-frame rows differs from the data length *)
  | RUnsorted      (* unsorted ticks *)
  | RInterval      (* non-positive sampling interval *)
  | RTagUnits      (* tag units that cannot be converted to the referenced dimension's unit *)
  | RNoPositions   (* multi-tag without positions *)
  | RNoData.       (* feature without data *)

  (** some attached descriptor, paired with the data dimension of its index, satisfies [bad] *)
  Fixpoint some_dim_len (bad : vdim -> Z -> bool) (slots : list (option vdim)) (extent : list Z) : bool :=
    match slots, extent with
    | Some d :: ss, n :: ns => bad d n || some_dim_len bad ss ns
    | None :: ss, _ :: ns => some_dim_len bad ss ns
    | _, _ => false
    end.
  Definition ticks_bad (d : vdim) (n : Z) : bool :=
    match d with DRange ticks _ => negb (zlen ticks =? n) | _ => false end.
  Definition labels_bad (d : vdim) (n : Z) : bool :=
    match d with DSet labels => negb (zlen labels =? 0) && negb (zlen labels =? n) | _ => false end.
  Definition rows_bad (d : vdim) (n : Z) : bool :=
    match d with DFrame rows _ => negb (rows =? n) | _ => false end.

  (** some tick is smaller than its predecessor *)
  Fixpoint has_descent (l : list F64) : bool :=
    match l with
    | a :: ((b :: _) as tl) => flt b a || has_descent tl
    | _ => false
    end.

  (** unit [tu] is given for a dimension that has unit [du], and cannot be converted to it
      (["" / "none"]: the library's "no unit for this position / dimension") *)
  Definition unit_breach (tu : string) (d : vdim) : bool :=
    match dim_unit d with
    | Some du => negb (du ==s "none") && negb (tu ==s "") && negb (tu ==s "none") && negb (convertible tu du)
    | None => false
    end.
  Fixpoint units_breach (units : list string) (dims : list vdim) : bool :=
    match units, dims with
    | tu :: us, d :: ds => unit_breach tu d || units_breach us ds
    | _, _ => false
    end.
  Definition tag_units_breach (units : list string) (refs : list varray) : bool :=
    existsb (fun r => units_breach units (attached (a_slots r))) refs.

  Definition breach (r : hard_rule) (e : entity) : bool :=
    match r, e with
    | RDimCount, EArray a => negb (zlen (a_slots a) =? rank a)
    | RTicks, EArray a => some_dim_len ticks_bad (a_slots a) (a_extent a)
    | RLabels, EArray a => some_dim_len labels_bad (a_slots a) (a_extent a)
    | RFrameRows, EArray a => some_dim_len rows_bad (a_slots a) (a_extent a)
    | RUnsorted, EDim _ _ (DRange ticks _) => has_descent ticks
    | RInterval, EDim _ _ (DSampled (Some x) _ _) => fle x (ofZ 0)
    | RTagUnits, ETag t => tag_units_breach (t_units t) (t_refs t)
    | RTagUnits, EMTag m => tag_units_breach (m_units m) (m_refs m)
    | RNoPositions, EMTag m => negb (opt_is_some (m_positions m))
    | RNoData, EFeature f => match f_data f with Some true => false | _ => true end
    | _, _ => false
    end.
  Definition all_hard_rules : list hard_rule :=
    [RDimCount; RTicks; RLabels; RFrameRows; RUnsorted; RInterval; RTagUnits; RNoPositions; RNoData].
  Definition any_breach (e : entity) : bool := existsb (fun r => breach r e) all_hard_rules.

  (** the message text of the two rules whose messages carry no entity id *)
  Definition unsorted_text : string := "Ticks are not sorted!".
  Definition interval_text : string := "samplingInterval is not set to valid value (> 0)!".

  (* ---------------------------------------------------------------------------------------- *)
  (** * Soft rules property C19 lists *)

  Inductive soft_rule : Set :=
  | SArrayUnit     (* missing or non-SI array unit *)
  | SCoeffOrigin   (* coefficients without expansion origin or vice versa *)
  | SOffsetUnit    (* offset without unit *)
  | SPropUnit.     (* property values without unit *)

  Definition soft (r : soft_rule) (e : entity) : bool :=
    match r, e with
    | SArrayUnit, EArray a => match a_unit a with None => true | Some u => negb (validSI u) end
    | SCoeffOrigin, EArray a => xorb (negb (a_poly_n a =? 0)) (a_origin_set a)
    | SOffsetUnit, EDim _ _ (DSampled _ (Some _) None) => true
    | SPropUnit, EProperty p => negb (p_valuecount p =? 0) && negb (opt_is_some (p_unit p))
    | _, _ => false
    end.
  (** the soft breaches for which the documentation's rule list demands a warning (a missing
      array unit is not among them: "Unit should be SI or composite of SI units") *)
  Definition soft_warned (r : soft_rule) (e : entity) : bool :=
    match r, e with
    | SArrayUnit, EArray a => match a_unit a with None => false | Some u => negb (validSI u) end
    | _, _ => soft r e
    end.
  Definition offset_text : string := "offset is set, but no valid unit set!".
  Definition soft_text (r : soft_rule) (e : entity) : string :=
    match r, e with
    | SArrayUnit, _ => "Unit is not SI or composite of SI units."
    | SCoeffOrigin, EArray a =>
        if a_origin_set a then "expansion origin for calibration is set, but polynomial coefficients are missing!"
        else "polynomial coefficients for calibration are set, but expansion origin is missing!"
    | SCoeffOrigin, _ => ""
    | SOffsetUnit, _ => offset_text
    | SPropUnit, _ => "values are set, but unit is missing!"
    end.
  Definition all_soft_rules : list soft_rule := [SArrayUnit; SCoeffOrigin; SOffsetUnit; SPropUnit].

  (* ---------------------------------------------------------------------------------------- *)
  (** * The oracle: what the specification demands of a validator's answer.

      The answer is a [result] whose message ids are entity ids ("unknown" for dimensions).
      Every clause is independent of the others, so any combination of breaches is judged.
      The verdict language printed by the model driver (ocaml/drv_C19.ml) and judged on the
      implementation's answer by tools/props/C19.py is the textual form of [verdict]. *)

  Inductive verdict : Set :=
  | VNoErrors                                  (* NOERR         the file conforms: no error at all *)
  | VNoErrorAbout (id : string)                (* NE:<id>       the entity satisfies every documented hard rule *)
  | VErrorAbout (id : string)                  (* E:<id>        the entity breaches a listed hard rule *)
  | VUnknownErrors (text : string) (n : Z)     (* EU:<n>:<text> n dimensions breach the rule with this message *)
  | VWarningAbout (id text : string)           (* W:<id>:<text> soft breach the documentation wants a warning for *)
  | VUnknownWarnings (text : string) (n : Z).  (* WU:<n>:<text> *)

  Definition count_dims (p : entity -> bool) (es : list entity) : Z :=
    zlen (filter (fun e => is_dim e && p e) es).

  Definition ent_verdicts (e : entity) : list verdict :=
    if is_dim e then []
    else (if conforms_ent e then [VNoErrorAbout (ent_id e)] else [])
         ++ (if any_breach e then [VErrorAbout (ent_id e)] else [])
         ++ flat_map (fun r => if soft_warned r e then [VWarningAbout (ent_id e) (soft_text r e)] else [])
                     all_soft_rules.

  Definition dim_verdicts (es : list entity) : list verdict :=
    (if forallb (fun e => negb (is_dim e) || conforms_ent e) es then [VNoErrorAbout unknown_id] else [])
    ++ (let n := count_dims (breach RUnsorted) es in if 0 <? n then [VUnknownErrors unsorted_text n] else [])
    ++ (let n := count_dims (breach RInterval) es in if 0 <? n then [VUnknownErrors interval_text n] else [])
    ++ (let n := count_dims (soft SOffsetUnit) es in
        if 0 <? n then [VUnknownWarnings offset_text n] else []).

  Definition verdicts (f : vfile) : list verdict :=
    (if conforms f then [VNoErrors] else [])
    ++ flat_map ent_verdicts (entities f)
    ++ dim_verdicts (entities f).

  Definition msg_eqb (id text : string) (m : message) : bool := (m_id m ==s id) && (m_text m ==s text).
  Definition count_msgs (p : message -> bool) (l : list message) : Z := zlen (filter p l).

  Definition judge1 (r : result) (v : verdict) : bool :=
    match v with
    | VNoErrors => zlen (errors r) =? 0
    | VNoErrorAbout id => count_msgs (fun m => m_id m ==s id) (errors r) =? 0
    | VErrorAbout id => 0 <? count_msgs (fun m => m_id m ==s id) (errors r)
    | VUnknownErrors text n => n <=? count_msgs (msg_eqb unknown_id text) (errors r)
    | VWarningAbout id text => 0 <? count_msgs (msg_eqb id text) (warnings r)
    | VUnknownWarnings text n => n <=? count_msgs (msg_eqb unknown_id text) (warnings r)
    end.
  Definition judge (vs : list verdict) (r : result) : bool := forallb (judge1 r) vs.

End Spec.

(* ------------------------------------------------------------------------------------------ *)
(** * What model and specification assume of the unit predicates (the unit algebra is C18):
    every atomic SI unit of the documentation is accepted by util::isSIUnit; "SI or composite of SI
    units" is what util::isSIUnit || util::isCompoundSIUnit accepts; "convertible" is
    util::isScalable. *)
Definition unit_assumptions (isSIUnit isCompoundSIUnit : string -> bool) (isScalable : string -> string -> bool)
           (atomicSI validSI : string -> bool) (convertible : string -> string -> bool) : Prop :=
  (forall u, atomicSI u = true -> isSIUnit u = true)
  /\ (forall u, validSI u = isSIUnit u || isCompoundSIUnit u)
  /\ (forall a b, convertible a b = isScalable a b).

(** ids (property C12): no two entities of the file share an id and none is called "unknown" *)
Definition ids_distinct (f : vfile) : Prop :=
  (forall e1 e2, In e1 (entities f) -> In e2 (entities f) -> is_dim e1 = false -> ent_id e1 = ent_id e2 -> e1 = e2)
  /\ (forall e, In e (entities f) -> is_dim e = false -> ent_id e <> unknown_id).

