(** C19 — the hand model's rule tables are the tables of src/valid/validate.cpp:
    the description [model_rules] equals the value regenerated from the source, and every
    executable table of Validator.v is the interpretation of its description. *)
From Coq Require Import ZArith Bool String List.
Require Import NixV.Base.Prelude NixV.Base.F64 NixV.Gen.GenValidate NixV.Valid.Validator NixV.Valid.ValidRules.
Import ListNotations.
Local Open Scope string_scope.
Local Open Scope Z_scope.

(** a must turned into a should, a dropped / added / reordered rule, a changed getter, check functor,
    argument, message or nesting in validate.cpp changes the right-hand side and breaks this proof *)
Theorem rules_are_generated : model_rules = GenValidate.validate_rules.
Proof. vm_compute. reflexivity. Qed.

Theorem bases_are_generated : model_bases = GenValidate.validate_bases.
Proof. vm_compute. reflexivity. Qed.

Section Tables.
  Variables isSIUnit isCompoundSIUnit : string -> bool.
  Variable isScalable : string -> string -> bool.
  Variables vt vp : variant.
  Notation rules := (model_rules_for vp).

  Lemma table_entity e :
    validate_entity e = table rules "validate_entity" (e_id e) (env_entity e).
  Proof. destruct e as [id [c|]]; reflexivity. Qed.

  Lemma table_named n :
    validate_named_entity n =
    rconcat (table rules "validate_named_entity" (e_id (n_ent n)) (env_named n))
            (named_base (lookup "" "validate_named_entity" model_bases) n).
  Proof. destruct n as [e nm [ty|]]; reflexivity. Qed.

  Lemma table_delegations n :
    validate_entity_with_metadata n = named_base (lookup "" "validate_entity_with_metadata" model_bases) n
    /\ validate_entity_with_sources n = named_base (lookup "" "validate_entity_with_sources" model_bases) n
    /\ validate_block n = named_base (lookup "" "Block" model_bases) n
    /\ validate_section n = named_base (lookup "" "Section" model_bases) n
    /\ validate_source n = named_base (lookup "" "Source" model_bases) n.
  Proof. repeat split; reflexivity. Qed.

  Lemma table_array a :
    validate_array isSIUnit isCompoundSIUnit a =
    rconcat (table rules "DataArray" (e_id (n_ent (a_ent a))) (env_array isSIUnit isCompoundSIUnit a))
            (named_base (lookup "" "DataArray" model_bases) (a_ent a)).
  Proof. reflexivity. Qed.

  Lemma table_tag t :
    validate_tag isSIUnit isCompoundSIUnit isScalable vt t =
    rconcat (table rules "Tag" (e_id (n_ent (t_ent t))) (env_tag isSIUnit isCompoundSIUnit isScalable vt t))
            (named_base (lookup "" "Tag" model_bases) (t_ent t)).
  Proof. reflexivity. Qed.

  Lemma table_mtag m :
    validate_mtag isSIUnit isCompoundSIUnit isScalable vt m =
    rconcat (table rules "MultiTag" (e_id (n_ent (m_ent m))) (env_mtag isSIUnit isCompoundSIUnit isScalable vt m))
            (named_base (lookup "" "MultiTag" model_bases) (m_ent m)).
  Proof. destruct m as [e [pos|] ex us rs fs]; reflexivity. Qed.

  Lemma table_property p :
    validate_property isSIUnit isCompoundSIUnit vp p =
    rconcat (table rules "Property" (e_id (p_ent p)) (env_property isSIUnit isCompoundSIUnit p))
            (ent_base (lookup "" "Property" model_bases) (p_ent p)).
  Proof. destruct vp; reflexivity. Qed.

  Lemma table_range idx ticks unit :
    validate_range_dim isSIUnit idx ticks unit =
    table rules "RangeDimension" unknown_id (env_range isSIUnit idx ticks unit).
  Proof. reflexivity. Qed.

  Lemma table_sampled idx interval offset unit :
    validate_sampled_dim isSIUnit idx interval offset unit =
    table rules "SampledDimension" unknown_id (env_sampled isSIUnit idx interval offset unit).
  Proof. destruct interval; reflexivity. Qed.

  Lemma table_set idx :
    validate_set_dim idx = table rules "SetDimension" unknown_id (env_set idx).
  Proof. reflexivity. Qed.

  Lemma table_feature f :
    validate_feature f =
    rconcat (table rules "Feature" (e_id (f_ent f)) (env_feature f))
            (ent_base (lookup "" "Feature" model_bases) (f_ent f)).
  Proof. destruct f as [e [d|] [l|]]; reflexivity. Qed.

  (** all of them: every table the walk of File::validate uses is the interpretation of its description *)
  Theorem tables_are_interpretations :
    (forall e, validate_entity e = table rules "validate_entity" (e_id e) (env_entity e))
    /\ (forall n, validate_named_entity n =
                  rconcat (table rules "validate_named_entity" (e_id (n_ent n)) (env_named n))
                          (named_base (lookup "" "validate_named_entity" model_bases) n))
    /\ (forall n, validate_entity_with_metadata n = named_base (lookup "" "validate_entity_with_metadata" model_bases) n
                  /\ validate_entity_with_sources n = named_base (lookup "" "validate_entity_with_sources" model_bases) n
                  /\ validate_block n = named_base (lookup "" "Block" model_bases) n
                  /\ validate_section n = named_base (lookup "" "Section" model_bases) n
                  /\ validate_source n = named_base (lookup "" "Source" model_bases) n)
    /\ (forall a, validate_array isSIUnit isCompoundSIUnit a =
                  rconcat (table rules "DataArray" (e_id (n_ent (a_ent a))) (env_array isSIUnit isCompoundSIUnit a))
                          (named_base (lookup "" "DataArray" model_bases) (a_ent a)))
    /\ (forall t, validate_tag isSIUnit isCompoundSIUnit isScalable vt t =
                  rconcat (table rules "Tag" (e_id (n_ent (t_ent t))) (env_tag isSIUnit isCompoundSIUnit isScalable vt t))
                          (named_base (lookup "" "Tag" model_bases) (t_ent t)))
    /\ (forall m, validate_mtag isSIUnit isCompoundSIUnit isScalable vt m =
                  rconcat (table rules "MultiTag" (e_id (n_ent (m_ent m))) (env_mtag isSIUnit isCompoundSIUnit isScalable vt m))
                          (named_base (lookup "" "MultiTag" model_bases) (m_ent m)))
    /\ (forall p, validate_property isSIUnit isCompoundSIUnit vp p =
                  rconcat (table rules "Property" (e_id (p_ent p)) (env_property isSIUnit isCompoundSIUnit p))
                          (ent_base (lookup "" "Property" model_bases) (p_ent p)))
    /\ (forall idx ticks unit, validate_range_dim isSIUnit idx ticks unit =
                  table rules "RangeDimension" unknown_id (env_range isSIUnit idx ticks unit))
    /\ (forall idx interval offset unit, validate_sampled_dim isSIUnit idx interval offset unit =
                  table rules "SampledDimension" unknown_id (env_sampled isSIUnit idx interval offset unit))
    /\ (forall idx, validate_set_dim idx = table rules "SetDimension" unknown_id (env_set idx))
    /\ (forall f, validate_feature f =
                  rconcat (table rules "Feature" (e_id (f_ent f)) (env_feature f))
                          (ent_base (lookup "" "Feature" model_bases) (f_ent f))).
  Proof.
    exact (conj table_entity (conj table_named (conj table_delegations (conj table_array (conj table_tag
          (conj table_mtag (conj table_property (conj table_range (conj table_sampled (conj table_set table_feature)))))))))).
  Qed.
End Tables.
