(** C19 — the hand model's rule tables are the tables of src/valid/validate.cpp:
    the description [model_rules] equals the value regenerated from the source, and every
    executable table of Validator.v is the interpretation of its description. *)
From Coq Require Import ZArith Bool String List Lia.
Require Import NixV.Base.Prelude NixV.Base.F64 NixV.Gen.GenValidate NixV.Valid.Validator NixV.Valid.ValidRules.
Import ListNotations.
Local Open Scope string_scope.
Local Open Scope Z_scope.

(** a must turned into a should, a dropped / added / reordered rule, a changed getter, check functor,
    argument, message or nesting in validate.cpp changes the right-hand side and breaks this proof *)
Theorem rules_are_generated : model_rules = GenValidate.validate_rules.
Proof. vm_compute. reflexivity. Qed.

Theorem bases_are_generated : model_bases = GenValidate.validate_bases.
Proof. vm_compute. reflexivity. Qed.

Section Tables.
  Variables isSIUnit isCompoundSIUnit : string -> bool.
  Variable isScalable : string -> string -> bool.
  Variables vt vp : variant.
  Notation rules := (model_rules_for vp).

  Lemma table_entity e :
    validate_entity e = table rules "validate_entity" (e_id e) (env_entity e).
  Proof. destruct e as [id [c|]]; reflexivity. Qed.

  Lemma table_named n :
    validate_named_entity n =
    rconcat (table rules "validate_named_entity" (e_id (n_ent n)) (env_named n))
            (named_base (lookup "" "validate_named_entity" model_bases) n).
  Proof. destruct n as [e nm [ty|]]; reflexivity. Qed.

  Lemma table_delegations n :
    validate_entity_with_metadata n = named_base (lookup "" "validate_entity_with_metadata" model_bases) n
    /\ validate_entity_with_sources n = named_base (lookup "" "validate_entity_with_sources" model_bases) n
    /\ validate_block n = named_base (lookup "" "Block" model_bases) n
    /\ validate_section n = named_base (lookup "" "Section" model_bases) n
    /\ validate_source n = named_base (lookup "" "Source" model_bases) n.
  Proof. repeat split; reflexivity. Qed.

  Lemma table_array a :
    validate_array isSIUnit isCompoundSIUnit a =
    rconcat (table rules "DataArray" (e_id (n_ent (a_ent a))) (env_array isSIUnit isCompoundSIUnit a))
            (named_base (lookup "" "DataArray" model_bases) (a_ent a)).
  Proof. reflexivity. Qed.

  Lemma table_tag t :
    validate_tag isSIUnit isCompoundSIUnit isScalable vt t =
    rconcat (table rules "Tag" (e_id (n_ent (t_ent t))) (env_tag isSIUnit isCompoundSIUnit isScalable vt t))
            (named_base (lookup "" "Tag" model_bases) (t_ent t)).
  Proof. reflexivity. Qed.

  Lemma table_mtag m :
    validate_mtag isSIUnit isCompoundSIUnit isScalable vt m =
    rconcat (table rules "MultiTag" (e_id (n_ent (m_ent m))) (env_mtag isSIUnit isCompoundSIUnit isScalable vt m))
            (named_base (lookup "" "MultiTag" model_bases) (m_ent m)).
  Proof. destruct m as [e [pos|] ex us rs fs]; reflexivity. Qed.

  Lemma table_property p :
    validate_property isSIUnit isCompoundSIUnit vp p =
    rconcat (table rules "Property" (e_id (p_ent p)) (env_property isSIUnit isCompoundSIUnit p))
            (ent_base (lookup "" "Property" model_bases) (p_ent p)).
  Proof. destruct vp; reflexivity. Qed.

  Lemma table_range idx ticks unit :
    validate_range_dim isSIUnit idx ticks unit =
    table rules "RangeDimension" unknown_id (env_range isSIUnit idx ticks unit).
  Proof. reflexivity. Qed.

  Lemma table_sampled idx interval offset unit :
    validate_sampled_dim isSIUnit idx interval offset unit =
    table rules "SampledDimension" unknown_id (env_sampled isSIUnit idx interval offset unit).
  Proof. destruct interval; reflexivity. Qed.

  Lemma table_set idx :
    validate_set_dim idx = table rules "SetDimension" unknown_id (env_set idx).
  Proof. reflexivity. Qed.

  Lemma table_feature f :
    validate_feature f =
    rconcat (table rules "Feature" (e_id (f_ent f)) (env_feature f))
            (ent_base (lookup "" "Feature" model_bases) (f_ent f)).
  Proof. destruct f as [e [d|] [l|]]; reflexivity. Qed.

  (** the two functions File::validate never calls *)
  Lemma table_dimension idx :
    validate_dimension idx = table rules "Dimension" unknown_id (env_dimension idx).
  Proof. reflexivity. Qed.

  Lemma table_file h :
    validate_file h = table rules "File" (h_id h) (env_file h).
  Proof. destruct h as [id o [c|] v f l]; reflexivity. Qed.

  (** all of them: every table the walk of File::validate uses is the interpretation of its description *)
  Theorem tables_are_interpretations :
    (forall e, validate_entity e = table rules "validate_entity" (e_id e) (env_entity e))
    /\ (forall n, validate_named_entity n =
                  rconcat (table rules "validate_named_entity" (e_id (n_ent n)) (env_named n))
                          (named_base (lookup "" "validate_named_entity" model_bases) n))
    /\ (forall n, validate_entity_with_metadata n = named_base (lookup "" "validate_entity_with_metadata" model_bases) n
                  /\ validate_entity_with_sources n = named_base (lookup "" "validate_entity_with_sources" model_bases) n
                  /\ validate_block n = named_base (lookup "" "Block" model_bases) n
                  /\ validate_section n = named_base (lookup "" "Section" model_bases) n
                  /\ validate_source n = named_base (lookup "" "Source" model_bases) n)
    /\ (forall a, validate_array isSIUnit isCompoundSIUnit a =
                  rconcat (table rules "DataArray" (e_id (n_ent (a_ent a))) (env_array isSIUnit isCompoundSIUnit a))
                          (named_base (lookup "" "DataArray" model_bases) (a_ent a)))
    /\ (forall t, validate_tag isSIUnit isCompoundSIUnit isScalable vt t =
                  rconcat (table rules "Tag" (e_id (n_ent (t_ent t))) (env_tag isSIUnit isCompoundSIUnit isScalable vt t))
                          (named_base (lookup "" "Tag" model_bases) (t_ent t)))
    /\ (forall m, validate_mtag isSIUnit isCompoundSIUnit isScalable vt m =
                  rconcat (table rules "MultiTag" (e_id (n_ent (m_ent m))) (env_mtag isSIUnit isCompoundSIUnit isScalable vt m))
                          (named_base (lookup "" "MultiTag" model_bases) (m_ent m)))
    /\ (forall p, validate_property isSIUnit isCompoundSIUnit vp p =
                  rconcat (table rules "Property" (e_id (p_ent p)) (env_property isSIUnit isCompoundSIUnit p))
                          (ent_base (lookup "" "Property" model_bases) (p_ent p)))
    /\ (forall idx ticks unit, validate_range_dim isSIUnit idx ticks unit =
                  table rules "RangeDimension" unknown_id (env_range isSIUnit idx ticks unit))
    /\ (forall idx interval offset unit, validate_sampled_dim isSIUnit idx interval offset unit =
                  table rules "SampledDimension" unknown_id (env_sampled isSIUnit idx interval offset unit))
    /\ (forall idx, validate_set_dim idx = table rules "SetDimension" unknown_id (env_set idx))
    /\ (forall f, validate_feature f =
                  rconcat (table rules "Feature" (e_id (f_ent f)) (env_feature f))
                          (ent_base (lookup "" "Feature" model_bases) (f_ent f))).
  Proof.
    exact (conj table_entity (conj table_named (conj table_delegations (conj table_array (conj table_tag
          (conj table_mtag (conj table_property (conj table_range (conj table_sampled (conj table_set table_feature)))))))))).
  Qed.
End Tables.

(** the generic descriptor rule is the first rule of each typed descriptor table, with another message: a
    descriptor reached through DataArray::dimensions() (index >= 1) is clean for valid::validate(const Dimension&) *)
Lemma validate_dimension_clean idx : 1 <= idx -> validate_dimension idx = rnil.
Proof.
  intros H. unfold validate_dimension, must, notSmaller. replace (idx <? 1) with false by lia. reflexivity.
Qed.

(** a file created by the library (open, creation time set, version, format and location present) is clean
    for valid::validate(const File&) *)
Lemma validate_file_clean h :
  h_open h = true -> (exists c, h_created h = Some c /\ c <> 0) -> h_version_n h <> 0 -> h_format h <> "" -> h_location h <> "" ->
  validate_file h = rnil.
Proof.
  intros Ho [c [Hc Hz]] Hv Hf Hl. unfold validate_file, could, must, should, id_bool, num_notFalse, count_notEmpty, str_notEmpty.
  rewrite Ho, Hc. apply Z.eqb_neq in Hz, Hv. apply String.eqb_neq in Hf, Hl. rewrite Hz, Hv, Hf, Hl. reflexivity.
Qed.

(** Result accessors and concat *)
Lemma has_errors_rconcat a b : has_errors (rconcat a b) = has_errors a || has_errors b.
Proof. unfold has_errors. cbn. destruct (errors a); reflexivity. Qed.
Lemma has_warnings_rconcat a b : has_warnings (rconcat a b) = has_warnings a || has_warnings b.
Proof. unfold has_warnings. cbn. destruct (warnings a); reflexivity. Qed.
Lemma result_ok_rconcat a b : result_ok (rconcat a b) = result_ok a && result_ok b.
Proof.
  unfold result_ok. rewrite has_errors_rconcat, has_warnings_rconcat.
  destruct (has_errors a), (has_errors b), (has_warnings a), (has_warnings b); reflexivity.
Qed.
