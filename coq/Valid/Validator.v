(** C19 — executable model of the validator (src/valid/*.cpp, include/nix/valid/*.hpp,
    File::validate in src/File.cpp).  Definitions only; proofs are in ValidProofs.v.

    The model works on an *observation tree*: for every entity the validator visits, a record of
    exactly the getter outcomes its rule predicates read.  A getter that throws is [None]
    (the condition templates catch the exception and count the condition as failed).

    Outside the domain of the model (and never produced by the generator): files on which a call
    made *outside* the try block of a condition throws — [id()] / [name()] of the entity itself
    (evaluated before the try), and the getters used inside check functors ([ticks()] inside
    [dimTicksMatchData], [DataFrameDimension::size()], [getDimensionUnit]).  On such a file
    File::validate() itself throws (e.g. nix::MissingAttr for a range dimension whose [ticks]
    dataset was unlinked); that is recorded as an observation in the report, not modelled. *)
From Coq Require Import ZArith Bool String List.
Require Import NixV.Base.Prelude NixV.Base.F64.
Import ListNotations.
Local Open Scope string_scope.
Local Open Scope Z_scope.
Local Notation "a ==s b" := (String.eqb a b) (at level 70).

(** Which of the two open defects of section 9 the model mirrors ([AsPinned]) or no longer
    mirrors ([Repaired]).  The two "model lines" that change when a fix: commit lands are
    [tagUnits_variant] and [propUnit_variant] at the end of this file. *)
Inductive variant : Set := AsPinned | Repaired.

(* ------------------------------------------------------------------------------------------ *)
(** * Observation tree *)

(** base::Entity: [id()], [createdAt()] (time_t; [None] = the getter throws) *)
Record vent : Set := { e_id : string; e_created : option Z }.

(** base::NamedEntity: [name()], [type()] ([None] = nix::MissingAttr) *)
Record vnamed : Set := { n_ent : vent; n_name : string; n_type : option string }.

(** Dimension descriptors as [DataArray::dimensions()] returns them.  The dimension type is the
    constructor (the C++ object's class is chosen from the [dimension_type] attribute when the
    group is opened, so [dimensionType()] is a class constant); the index is the position of the
    descriptor's slot (the group name), see [dimensions]. *)
Inductive vdim : Set :=
| DSet (labels : list string)                                  (* SetDimension::labels() *)
| DSampled (interval : option F64) (offset : option F64) (unit : option string)
                                                               (* samplingInterval() ([None] = MissingAttr), offset(), unit() *)
| DRange (ticks : list F64) (unit : option string)             (* ticks(), unit()  (alias: the array's data / unit) *)
| DFrame (rows : Z) (colunit : option string).                 (* size(); unit of the selected column, [None] = no column index *)

Inductive dimtype : Set := TSet | TSample | TRange | TFrame.
Definition dimensionType (d : vdim) : dimtype :=
  match d with DSet _ => TSet | DSampled _ _ _ => TSample | DRange _ _ => TRange | DFrame _ _ => TFrame end.
Definition dimtype_eqb (a b : dimtype) : bool :=
  match a, b with TSet, TSet | TSample, TSample | TRange, TRange | TFrame, TFrame => true | _, _ => false end.

(** DataArray.  [a_slots]: one entry per object of the [dimensions] group in index order
    1..dimensionCount(); [None] = no group of that name (getDimension returns a null entity,
    which [getEntities] skips). *)
Record varray : Set := {
  a_ent : vnamed;
  a_dtype_set : bool;              (* dataType() != DataType::Nothing *)
  a_extent : list Z;               (* dataExtent() *)
  a_slots : list (option vdim);
  a_unit : option string;          (* unit() *)
  a_poly_n : Z;                    (* polynomCoefficients().size() *)
  a_origin_set : bool              (* expansionOrigin() has a value *)
}.

(** Feature: [data()] ([None] = throws, [Some false] = null entity), [linkType()] as integer. *)
Record vfeature : Set := { f_ent : vent; f_data : option bool; f_link : option Z }.

(** Tag.  [t_extent_n] and the ranks of the references are read by the specification only. *)
Record vtag : Set := {
  t_ent : vnamed;
  t_position_n : Z;                (* position().size() *)
  t_extent_n : Z;                  (* extent().size()   (specification only) *)
  t_units : list string;           (* units() *)
  t_refs : list varray;            (* references() *)
  t_feats : list vfeature          (* features() *)
}.

(** MultiTag.  [m_positions]: [None] = positions() throws (link missing), otherwise the shape of the
    positions array; [m_extents] = shape of the extents array if there is one (specification only). *)
Record vmtag : Set := {
  m_ent : vnamed;
  m_positions : option (list Z);
  m_extents : option (list Z);
  m_units : list string;
  m_refs : list varray;
  m_feats : list vfeature
}.

Record vproperty : Set := { p_ent : vent; p_name : string; p_valuecount : Z; p_unit : option string }.
Record vsection : Set := { s_ent : vnamed; s_props : list vproperty }.

(** Block.  [b_sources] is the result of [Block::findSources()] (all sources, any depth),
    [f_sections] that of [File::findSections()]: the traversal itself is property C20. Groups and
    data frames are not visited by File::validate and therefore not part of the observation. *)
Record vblock : Set := {
  b_ent : vnamed;
  b_arrays : list varray;
  b_mtags : list vmtag;
  b_tags : list vtag;
  b_sources : list vnamed
}.
Record vfile : Set := { f_blocks : list vblock; f_sections : list vsection }.

(* ------------------------------------------------------------------------------------------ *)
(** * Result (include/nix/valid/result.hpp, helper.hpp) *)

Record message : Set := { m_id : string; m_text : string }.
Record result : Set := { errors : list message; warnings : list message }.

Definition rnil : result := {| errors := []; warnings := [] |}.
Definition rerr (id msg : string) : result := {| errors := [ {| m_id := id; m_text := msg |} ]; warnings := [] |}.
Definition rwarn (id msg : string) : result := {| errors := []; warnings := [ {| m_id := id; m_text := msg |} ] |}.
(** Result::concat *)
Definition rconcat (a b : result) : result :=
  {| errors := errors a ++ errors b; warnings := warnings a ++ warnings b |}.

(** A condition is a closure [() -> Result]; the getters are const reads of the file, so the
    closure is represented by the value it returns.  (Sub-conditions are executed only when the
    parent check passes: below they are *used* only in that case.) *)
Definition condition := result.

(** validator(li): [for (auto &sub : li) result = result.concat(sub());] *)
Definition validator (li : list condition) : result := fold_left rconcat li rnil.

(** must / should / could (conditions.hpp).  [get = None]: the getter threw (errOccured). *)
Definition must {A : Type} (id : string) (get : option A) (check : A -> bool) (msg : string)
           (subs : list condition) : condition :=
  match get with
  | None => rerr id msg
  | Some v => if check v then validator subs else rerr id msg
  end.
Definition should {A : Type} (id : string) (get : option A) (check : A -> bool) (msg : string)
           (subs : list condition) : condition :=
  match get with
  | None => rwarn id msg
  | Some v => if check v then validator subs else rwarn id msg
  end.
Definition could {A : Type} (get : option A) (check : A -> bool) (subs : list condition) : condition :=
  match get with
  | None => rnil
  | Some v => if check v then validator subs else rnil
  end.

(** ID<hasID<T>::value>().get(parent) for the dimension classes (no [id] method) *)
Definition unknown_id : string := "unknown".

(* ------------------------------------------------------------------------------------------ *)
(** * Checks (checks.hpp) *)

Definition str_notEmpty (s : string) : bool := negb (s ==s "").              (* notEmpty on std::string *)
Definition list_notEmpty {A} (l : list A) : bool := negb (zlen l =? 0).     (* notEmpty on std::vector *)
Definition count_notEmpty (n : Z) : bool := negb (n =? 0).                  (* notEmpty on a vector observed by its size *)
Definition num_notFalse (n : Z) : bool := negb (n =? 0).                    (* notFalse on time_t / ndsize_t *)
Definition opt_notFalse {A} (o : option A) : bool := opt_is_some o.         (* notFalse on boost::optional *)
Definition id_bool (b : bool) : bool := b.                                   (* notFalse on an entity / a flag observation *)
(** notSmaller(v): [!(static_cast<double>(val) < v)] on the integers the validator applies it to
    (dimension index, link type: far below 2^53, the conversion is exact) *)
Definition notSmaller (v n : Z) : bool := negb (n <? v).
(** isGreater(0) on a double *)
Definition isGreater0 (x : F64) : bool := fgt x (ofZ 0).
(** isSorted: std::is_sorted, i.e. no adjacent pair with [next < current] *)
Fixpoint isSorted (l : list F64) : bool :=
  match l with
  | a :: ((b :: _) as tl) => negb (flt b a) && isSorted tl
  | _ => true
  end.

Section WithUnits.
  (** The unit algebra is property C18; the validator calls exactly these three functions of
      src/util/util.cpp.  They are parameters of the model; what the theorems assume about
      them is stated where it is used (ValidProofs.v, section hypotheses). *)
  Variable isSIUnit : string -> bool.                  (* util::isSIUnit *)
  Variable isCompoundSIUnit : string -> bool.          (* util::isCompoundSIUnit *)
  Variable isScalable : string -> string -> bool.      (* util::isScalable(string, string) *)
  Variable vt : variant.     (* tagUnitsMatchRefsUnits: AsPinned = last unit wins *)
  Variable vp : variant.     (* Property unit rule: AsPinned = must, Repaired = should *)

  (** isValidUnit / isAtomicUnit on a string (sic: isAtomicUnit calls util::isSIUnit, which also
      accepts compound units) *)
  Definition isValidUnit (u : string) : bool := isSIUnit u || isCompoundSIUnit u.
  Definition isAtomicUnit (u : string) : bool := isSIUnit u.
  (** isUnit::operator()(optional<string>): the optional is set and the predicate holds of its value *)
  Definition opt_unit (p : string -> bool) (o : option string) : bool :=
    match o with Some u => p u | None => false end.
  (** isUnit::operator()(vector<string>, pred): find_if_not == end *)
  Definition vec_unit (p : string -> bool) (l : list string) : bool := forallb p l.

  (** [DataArray::dimensions()]: getEntities over i = 0..dimensionCount()-1 of getDimension(i+1),
      null candidates skipped; the pair is (index(), dimension) *)
  Fixpoint dimensions_from (i : Z) (slots : list (option vdim)) : list (Z * vdim) :=
    match slots with
    | [] => []
    | Some d :: rest => (i, d) :: dimensions_from (i + 1) rest
    | None :: rest => dimensions_from (i + 1) rest
    end.
  Definition dimensions (a : varray) : list (Z * vdim) := dimensions_from 1 (a_slots a).
  Definition dimensionCount (a : varray) : Z := zlen (a_slots a).

  (** util::getDimensionUnit (src/util/dataAccess.cpp) *)
  Definition getDimensionUnit (d : vdim) : string :=
    match d with
    | DSet _ => "none"
    | DFrame _ cu =>
        let unit := match cu with Some u => u | None => "none" end in
        if unit ==s "" then "none" else unit
    | DSampled _ _ u => match u with Some x => x | None => "none" end
    | DRange _ u => match u with Some x => x | None => "none" end
    end.
  (** valid::getDimensionsUnits (src/valid/helper.cpp) *)
  Definition getDimensionsUnits (a : varray) : list string :=
    map (fun p => getDimensionUnit (snd p)) (dimensions a).

  (** tagUnitsMatchRefsUnits::operator() (src/valid/checks.cpp), loop by loop.
      [tu_assign] is the statement executed for one unit with the current value of [match]. *)
  Definition tu_assign (tu : string) (dims_units : list string) (i : nat) (match_ : bool) : bool :=
    match nth_error dims_units i with
    | Some du =>                                           (* i < dims_units.size() *)
        if negb (du ==s "none") then
          if negb (tu ==s "") && negb (tu ==s "none") then
            match vt with
            | AsPinned => isScalable tu du                  (* match = util::isScalable(tu, du); *)
            | Repaired => match_ && isScalable tu du        (* match = match && util::isScalable(tu, du); *)
            end
          else match_
        else match_
    | None =>
        match vt with
        | AsPinned => negb (tu ==s "") || negb (tu ==s "none")              (* match = !tu.empty() || tu != "none"; *)
        | Repaired => match_ && (negb (tu ==s "") || negb (tu ==s "none"))
        end
    end.
  (** [for (size_t i = 0; i < units.size(); ++i)] from index [i] on *)
  Fixpoint tu_units_loop (units : list string) (i : nat) (dims_units : list string) (match_ : bool) : bool :=
    match units with
    | [] => match_
    | tu :: rest => tu_units_loop rest (S i) dims_units (tu_assign tu dims_units i match_)
    end.
  (** [for (auto &ref : references) { ...; if (!match) break; }] *)
  Fixpoint tu_refs_loop (units : list string) (refs : list varray) (match_ : bool) : bool :=
    match refs with
    | [] => match_
    | ref :: rest =>
        let m := tu_units_loop units 0 (getDimensionsUnits ref) match_ in
        if negb m then m else tu_refs_loop units rest m
    end.
  Definition tagUnitsMatchRefsUnits (units : list string) (refs : list varray) : bool :=
    tu_refs_loop units refs true.

  (** dimTicksMatchData / dimLabelsMatchData / dimDataFrameTicksMatchData: the common loop
      [while (!mismatch && it != dims.end())]; [test d n] is the new value of [mismatch] for a
      dimension of the examined type whose data extent is [n], [None] for the other types.
      The result of the loop is the final [mismatch]. *)
  Fixpoint dim_match_loop (test : vdim -> option (Z -> bool)) (extent : list Z)
           (dims : list (Z * vdim)) (mismatch : bool) : bool :=
    match dims with
    | [] => mismatch
    | (idx, d) :: rest =>
        if mismatch then mismatch
        else match test d with
             | Some t =>
                 let dimIndex := idx - 1 in                      (* index() - 1, index() >= 1 *)
                 if dimIndex >=? zlen extent then mismatch       (* break *)
                 else dim_match_loop test extent rest (t (nth (Z.to_nat dimIndex) extent 0))
             | None => dim_match_loop test extent rest mismatch
             end
    end.
  Definition ticks_test (d : vdim) : option (Z -> bool) :=
    match d with DRange ticks _ => Some (fun n => negb (zlen ticks =? n)) | _ => None end.
  Definition labels_test (d : vdim) : option (Z -> bool) :=
    match d with DSet labels => Some (fun n => (zlen labels >? 0) && negb (zlen labels =? n)) | _ => None end.
  Definition frame_test (d : vdim) : option (Z -> bool) :=
    match d with DFrame rows _ => Some (fun n => negb (rows =? n)) | _ => None end.
  Definition dimTicksMatchData (a : varray) (dims : list (Z * vdim)) : bool :=
    negb (dim_match_loop ticks_test (a_extent a) dims false).
  Definition dimLabelsMatchData (a : varray) (dims : list (Z * vdim)) : bool :=
    negb (dim_match_loop labels_test (a_extent a) dims false).
  Definition dimDataFrameTicksMatchData (a : varray) (dims : list (Z * vdim)) : bool :=
    negb (dim_match_loop frame_test (a_extent a) dims false).

  (* ---------------------------------------------------------------------------------------- *)
  (** * Rule tables (src/valid/validate.cpp), rule by rule, in order *)

  Definition validate_entity (e : vent) : result :=
    let id := e_id e in
    validator [
      must id (Some (e_id e)) str_notEmpty "id is not set!" [];
      must id (e_created e) num_notFalse "date is not set!" []
    ].

  Definition validate_named_entity (n : vnamed) : result :=
    let id := e_id (n_ent n) in
    let result_base := validate_entity (n_ent n) in
    let result := validator [
      must id (Some (n_name n)) str_notEmpty "no name set!" [];
      must id (n_type n) str_notEmpty "no type set!" []
    ] in
    rconcat result result_base.

  Definition validate_entity_with_metadata (n : vnamed) : result := validate_named_entity n.
  Definition validate_entity_with_sources (n : vnamed) : result := validate_entity_with_metadata n.

  Definition validate_block (b : vnamed) : result := validate_entity_with_metadata b.

  Definition validate_array (a : varray) : result :=
    let id := e_id (n_ent (a_ent a)) in
    let result_base := validate_entity_with_sources (a_ent a) in
    let result := validator [
      must id (Some (a_dtype_set a)) id_bool "data type is not set!" [];
      must id (Some (dimensionCount a)) (Z.eqb (zlen (a_extent a)))
           "data dimensionality does not match number of defined dimensions!" [
        could (Some (dimensions a)) list_notEmpty [
          must id (Some (dimensions a)) (dimTicksMatchData a)
               "in some of the Range dimensions the number of ticks differs from the number of data entries along the corresponding data dimension!" [];
          must id (Some (dimensions a)) (dimLabelsMatchData a)
               "in some of the Set dimensions the number of labels differs from the number of data entries along the corresponding data dimension!" [];
          must id (Some (dimensions a)) (dimDataFrameTicksMatchData a)
               "in some of the DataFrame dimensions the number of rows in the DataFrame does not match the number of data entries along the corresponding data dimension!" [] ] ];
      could (Some (a_unit a)) opt_notFalse [
        should id (Some (a_unit a)) (opt_unit isValidUnit) "Unit is not SI or composite of SI units." [] ];
      could (Some (a_poly_n a)) count_notEmpty [
        should id (Some (a_origin_set a)) id_bool
               "polynomial coefficients for calibration are set, but expansion origin is missing!" [] ];
      could (Some (a_origin_set a)) id_bool [
        should id (Some (a_poly_n a)) count_notEmpty
               "expansion origin for calibration is set, but polynomial coefficients are missing!" [] ]
    ] in
    rconcat result result_base.

  Definition validate_tag (t : vtag) : result :=
    let id := e_id (n_ent (t_ent t)) in
    let result_base := validate_entity_with_sources (t_ent t) in
    let result := validator [
      must id (Some (t_position_n t)) count_notEmpty "position is not set!" [];
      could (Some (t_units t)) list_notEmpty [
        must id (Some (t_units t)) (vec_unit isValidUnit)
             "Unit is invalid: not an atomic SI. Note: So far composite units are not supported!" [];
        must id (Some (t_refs t)) (tagUnitsMatchRefsUnits (t_units t))
             "Some of the referenced DataArrays' dimensions have units that are not convertible to the units set in tag. Note: So far composite SI units are not supported!" [] ]
    ] in
    rconcat result result_base.

  Definition validate_property (p : vproperty) : result :=
    let id := e_id (p_ent p) in
    let result_base := validate_entity (p_ent p) in
    let result := validator [
      must id (Some (p_name p)) str_notEmpty "name is not set!" [];
      could (Some (p_valuecount p)) num_notFalse [
        should id (Some (p_unit p)) opt_notFalse "values are set, but unit is missing!" [] ];
      could (Some (p_unit p)) opt_notFalse [
        match vp with
        | AsPinned => must id (Some (p_unit p)) (opt_unit isValidUnit) "Unit is not SI or composite of SI units." []
        | Repaired => should id (Some (p_unit p)) (opt_unit isValidUnit) "Unit is not SI or composite of SI units." []
        end ]
    ] in
    rconcat result result_base.

  Definition validate_mtag (m : vmtag) : result :=
    let id := e_id (n_ent (m_ent m)) in
    let result_base := validate_entity_with_sources (m_ent m) in
    let result := validator [
      must id (m_positions m) (fun _ => true) "positions are not set!" [];   (* notFalse on the (non-null) array *)
      could (Some (m_units m)) list_notEmpty [
        must id (Some (m_units m)) (vec_unit isValidUnit)
             "Some of the units in tag are invalid: not an atomic SI. Note: So far composite SI units are not supported!" [];
        must id (Some (m_refs m)) (tagUnitsMatchRefsUnits (m_units m))
             "Some of the referenced DataArrays' dimensions have units that are not convertible to the units set in tag. Note: So far composite SI units are not supported!" [] ]
    ] in
    rconcat result result_base.

  Definition validate_range_dim (idx : Z) (ticks : list F64) (unit : option string) : result :=
    validator [
      must unknown_id (Some idx) (notSmaller 1) "index is not set to valid value (size_t > 0)!" [];
      must unknown_id (Some ticks) list_notEmpty "ticks are not set!" [];
      must unknown_id (Some TRange) (dimtype_eqb TRange) "dimension type is not correct!" [];
      could (Some unit) opt_notFalse [
        must unknown_id (Some unit) (opt_unit isAtomicUnit)
             "Unit is set but not an atomic SI. Note: So far composite units are not supported!" [] ];
      must unknown_id (Some ticks) isSorted "Ticks are not sorted!" []
    ].

  Definition validate_sampled_dim (idx : Z) (interval offset : option F64) (unit : option string) : result :=
    validator [
      must unknown_id (Some idx) (notSmaller 1) "index is not set to valid value (size_t > 0)!" [];
      must unknown_id interval isGreater0 "samplingInterval is not set to valid value (> 0)!" [];
      must unknown_id (Some TSample) (dimtype_eqb TSample) "dimension type is not correct!" [];
      could (Some offset) opt_notFalse [
        should unknown_id (Some unit) (opt_unit isAtomicUnit) "offset is set, but no valid unit set!" [] ];
      could (Some unit) opt_notFalse [
        must unknown_id (Some unit) (opt_unit isAtomicUnit)
             "Unit is set but not an atomic SI. Note: So far composite units are not supported!" [] ]
    ].

  Definition validate_set_dim (idx : Z) : result :=
    validator [
      must unknown_id (Some idx) (notSmaller 1) "index is not set to valid value (size_t > 0)!" [];
      must unknown_id (Some TSet) (dimtype_eqb TSet) "dimension type is not correct!" []
    ].

  Definition validate_feature (f : vfeature) : result :=
    let id := e_id (f_ent f) in
    let result_base := validate_entity (f_ent f) in
    let result := validator [
      must id (f_data f) id_bool "data is not set!" [];
      must id (f_link f) (notSmaller 0) "linkType is not set!" []
    ] in
    rconcat result result_base.

  Definition validate_section (s : vnamed) : result := validate_named_entity s.
  Definition validate_source (s : vnamed) : result := validate_entity_with_metadata s.

  (* ---------------------------------------------------------------------------------------- *)
  (** * File::validate (src/File.cpp): which entities are visited, in which order.
      valid::validate(File) is *not* called; data-frame dimensions, groups and data frames are
      not visited. *)

  (** the three [if (dim.dimensionType() == ...)] of the inner loop, for one dimension *)
  Definition validate_dim (p : Z * vdim) : result :=
    let '(idx, d) := p in
    match d with
    | DRange ticks unit => validate_range_dim idx ticks unit
    | DSet _ => validate_set_dim idx
    | DSampled interval offset unit => validate_sampled_dim idx interval offset unit
    | DFrame _ _ => rnil
    end.

  Definition walk_array (a : varray) : result :=
    validator (validate_array a :: map validate_dim (dimensions a)).
  Definition walk_mtag (m : vmtag) : result :=
    validator (validate_mtag m :: map validate_feature (m_feats m)).
  Definition walk_tag (t : vtag) : result :=
    validator (validate_tag t :: map validate_feature (t_feats t)).
  Definition walk_block (b : vblock) : result :=
    validator (validate_block (b_ent b)
               :: map walk_array (b_arrays b) ++ map walk_mtag (b_mtags b)
               ++ map walk_tag (b_tags b) ++ map validate_source (b_sources b)).
  Definition walk_section (s : vsection) : result :=
    validator (validate_section (s_ent s) :: map validate_property (s_props s)).

  Definition validate (f : vfile) : result :=
    validator (map walk_block (f_blocks f) ++ map walk_section (f_sections f)).

End WithUnits.

(* ------------------------------------------------------------------------------------------ *)
(** * Entities of a file *)

Inductive entity : Set :=
| EBlock (b : vnamed)
| EArray (a : varray)
| EDim (owner : varray) (idx : Z) (d : vdim)      (* a dimension object has no id of its own *)
| EMTag (m : vmtag)
| ETag (t : vtag)
| EFeature (f : vfeature)
| ESource (s : vnamed)
| ESection (s : vnamed)
| EProperty (p : vproperty).

(** the id a validator message about the entity carries *)
Definition ent_id (e : entity) : string :=
  match e with
  | EBlock b => e_id (n_ent b)
  | EArray a => e_id (n_ent (a_ent a))
  | EDim _ _ _ => unknown_id
  | EMTag m => e_id (n_ent (m_ent m))
  | ETag t => e_id (n_ent (t_ent t))
  | EFeature f => e_id (f_ent f)
  | ESource s => e_id (n_ent s)
  | ESection s => e_id (n_ent s)
  | EProperty p => e_id (p_ent p)
  end.
Definition is_dim (e : entity) : bool := match e with EDim _ _ _ => true | _ => false end.

Definition array_entities (a : varray) : list entity :=
  EArray a :: map (fun p => EDim a (fst p) (snd p)) (dimensions a).
Definition mtag_entities (m : vmtag) : list entity := EMTag m :: map EFeature (m_feats m).
Definition tag_entities (t : vtag) : list entity := ETag t :: map EFeature (t_feats t).
Definition block_entities (b : vblock) : list entity :=
  EBlock (b_ent b) :: flat_map array_entities (b_arrays b) ++ flat_map mtag_entities (b_mtags b)
  ++ flat_map tag_entities (b_tags b) ++ map ESource (b_sources b).
Definition section_entities (s : vsection) : list entity :=
  ESection (s_ent s) :: map EProperty (s_props s).
(** every entity of the observation tree *)
Definition entities (f : vfile) : list entity :=
  flat_map block_entities (f_blocks f) ++ flat_map section_entities (f_sections f).


(** what File::validate reports for one entity of the file *)
Definition validate_ent (isSIUnit isCompoundSIUnit : string -> bool) (isScalable : string -> string -> bool)
           (vt vp : variant) (e : entity) : result :=
  match e with
  | EBlock b => validate_block b
  | EArray a => validate_array isSIUnit isCompoundSIUnit a
  | EDim _ idx d => validate_dim isSIUnit (idx, d)
  | EMTag m => validate_mtag isSIUnit isCompoundSIUnit isScalable vt m
  | ETag t => validate_tag isSIUnit isCompoundSIUnit isScalable vt t
  | EFeature f => validate_feature f
  | ESource s => validate_source s
  | ESection s => validate_section s
  | EProperty p => validate_property isSIUnit isCompoundSIUnit vp p
  end.

(* ------------------------------------------------------------------------------------------ *)
(** * The two validate functions of validate.cpp that File::validate never calls, and the accessors of Result
    (routes of the public interface the correspondence run calls directly) *)

(** valid::validate(const Dimension&): the generic descriptor *)
Definition validate_dimension (idx : Z) : result :=
  validator [ must unknown_id (Some idx) (notSmaller 1) "index is not set to valid value (> 0)!" [] ].

(** what valid::validate(const File&) reads: id(), isOpen(), createdAt(), version().size(), format(), location() *)
Record vheader : Set := {
  h_id : string; h_open : bool; h_created : option Z; h_version_n : Z; h_format : string; h_location : string }.
Definition validate_file (h : vheader) : result :=
  let id := h_id h in
  validator [
    could (Some (h_open h)) id_bool [
      must id (h_created h) num_notFalse "date is not set!" [];
      should id (Some (h_version_n h)) count_notEmpty "version is not set!" [];
      should id (Some (h_format h)) str_notEmpty "format is not set!" [];
      should id (Some (h_location h)) str_notEmpty "location is not set!" [] ]
  ].

(** Result::ok / hasErrors / hasWarnings *)
Definition has_errors (r : result) : bool := match errors r with [] => false | _ => true end.
Definition has_warnings (r : result) : bool := match warnings r with [] => false | _ => true end.
Definition result_ok (r : result) : bool := negb (has_errors r) && negb (has_warnings r).

(* ------------------------------------------------------------------------------------------ *)
(** * The model of the *current* working tree.
    These two lines are the only ones to change when the corresponding fix: commit lands
    (notes/proposed-fixes/C19-tag-units.patch, C19-property-unit.patch). *)
Definition tagUnits_variant : variant := Repaired.
Definition propUnit_variant : variant := Repaired.

Definition validate_current (isSIUnit isCompoundSIUnit : string -> bool) (isScalable : string -> string -> bool)
  : vfile -> result :=
  validate isSIUnit isCompoundSIUnit isScalable tagUnits_variant propUnit_variant.
