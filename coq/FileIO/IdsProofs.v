(** C12 — proofs about the id model of Ids.v. *)
From Coq Require Import List ZArith Bool String Ascii Lia Arith.
Require Import ZifyBool ZifyNat.
Require Import NixV.Base.Prelude NixV.FileIO.Ids.
Import ListNotations.
Local Open Scope Z_scope.

(* ------------------------------------------------------------------------------------------ *)
(** * A. the text of a uuid *)

(** ** finite sweeps *)

Definition range (n : nat) : list Z := map Z.of_nat (seq 0 n).

Lemma in_range : forall n z, 0 <= z < Z.of_nat n -> In z (range n).
Proof.
  intros n z H. unfold range. apply in_map_iff. exists (Z.to_nat z). split; [lia|].
  apply in_seq. lia.
Qed.

(** every nibble value prints as a lower-case hex digit, which is not a dash and reads back as itself *)
Definition nibble_check (n : Z) : bool :=
  is_lower_hex (to_char n) && negb (Ascii.eqb (to_char n) dash) && (unhex (to_char n) =? n).

Lemma nibble_sweep : forallb nibble_check (range 16) = true.
Proof. vm_compute. reflexivity. Qed.

Lemma nibble_ok : forall n, 0 <= n < 16 -> nibble_check n = true.
Proof. intros n H. exact (proj1 (forallb_forall _ _) nibble_sweep n (in_range 16 n H)). Qed.

(** the per-byte sweep: all 256 byte values — both digits lower-case hex, no dash, and the pair reads back
    as the byte; the version / variant masks leave a byte and put 4 resp. 8..b into the high digit *)
Definition byte_check (b : Z) : bool :=
  nibble_check (hi_nibble b) && nibble_check (lo_nibble b) &&
  (unhex (to_char (hi_nibble b)) * 16 + unhex (to_char (lo_nibble b)) =? b) &&
  (let v := Z.lor (Z.land b 79) 64 in (0 <=? v) && (v <? 256) && (hi_nibble v =? 4)) &&
  (let v := Z.lor (Z.land b 191) 128 in (0 <=? v) && (v <? 256) && (8 <=? hi_nibble v) && (hi_nibble v <=? 11)).

Lemma byte_sweep : forallb byte_check (range 256) = true.
Proof. vm_compute. reflexivity. Qed.

Lemma byte_ok_all : forall b, 0 <= b < 256 -> byte_check b = true.
Proof. intros b H. exact (proj1 (forallb_forall _ _) byte_sweep b (in_range 256 b H)). Qed.

(** ** nibbles of arbitrary integers *)

Lemma lo_nibble_range : forall b, 0 <= lo_nibble b < 16.
Proof.
  intros b. unfold lo_nibble. change 15 with (Z.ones 4). rewrite Z.land_ones by lia.
  change (2 ^ 4) with 16. apply Z.mod_pos_bound. lia.
Qed.

Lemma hi_nibble_range : forall b, 0 <= hi_nibble b < 16.
Proof.
  intros b. unfold hi_nibble. change 15 with (Z.ones 4). rewrite Z.land_ones by lia.
  change (2 ^ 4) with 16. apply Z.mod_pos_bound. lia.
Qed.

Lemma to_char_hi_hex : forall b, is_lower_hex (to_char (hi_nibble b)) = true.
Proof.
  intros b. pose proof (nibble_ok _ (hi_nibble_range b)) as H. unfold nibble_check in H.
  apply andb_prop in H. destruct H as [H _]. apply andb_prop in H. tauto.
Qed.
Lemma to_char_lo_hex : forall b, is_lower_hex (to_char (lo_nibble b)) = true.
Proof.
  intros b. pose proof (nibble_ok _ (lo_nibble_range b)) as H. unfold nibble_check in H.
  apply andb_prop in H. destruct H as [H _]. apply andb_prop in H. tauto.
Qed.
Lemma to_char_hi_nodash : forall b, Ascii.eqb (to_char (hi_nibble b)) dash = false.
Proof.
  intros b. pose proof (nibble_ok _ (hi_nibble_range b)) as H. unfold nibble_check in H.
  apply andb_prop in H. destruct H as [H _]. apply andb_prop in H. destruct H as [_ H].
  now apply negb_true_iff in H.
Qed.
Lemma to_char_lo_nodash : forall b, Ascii.eqb (to_char (lo_nibble b)) dash = false.
Proof.
  intros b. pose proof (nibble_ok _ (lo_nibble_range b)) as H. unfold nibble_check in H.
  apply andb_prop in H. destruct H as [H _]. apply andb_prop in H. destruct H as [_ H].
  now apply negb_true_iff in H.
Qed.

(** ** the shape *)

Lemma shape_from_get : forall s i,
  shape_from i s = true ->
  forall j c, String.get j s = Some c -> if dash_pos (i + j) then c = dash else is_lower_hex c = true.
Proof.
  induction s as [|a r IH]; intros i H j c G; [discriminate|].
  cbn [shape_from] in H. apply andb_prop in H. destruct H as [Ha Hr].
  destruct j as [|j]; cbn [String.get] in G.
  - inversion G; subst c. rewrite Nat.add_0_r. destruct (dash_pos i); [now apply Ascii.eqb_eq|exact Ha].
  - replace (i + S j)%nat with (S i + j)%nat by lia. exact (IH (S i) Hr j c G).
Qed.

Lemma get_shape_from : forall s i,
  (forall j c, String.get j s = Some c -> if dash_pos (i + j) then c = dash else is_lower_hex c = true) ->
  shape_from i s = true.
Proof.
  induction s as [|a r IH]; intros i H; [reflexivity|].
  cbn [shape_from]. apply andb_true_intro. split.
  - specialize (H 0%nat a eq_refl). rewrite Nat.add_0_r in H. destruct (dash_pos i); [subst a; apply Ascii.eqb_refl|exact H].
  - apply IH. intros j c G. replace (S i + j)%nat with (i + S j)%nat by lia. apply H. exact G.
Qed.

(** the extracted boolean test is the Prop-level shape *)
Lemma uuid_shapeb_spec : forall s, uuid_shapeb s = true <-> uuid_shape s.
Proof.
  intros s. unfold uuid_shapeb, uuid_shape. split.
  - intros H. apply andb_prop in H. destruct H as [L S]. split; [now apply Nat.eqb_eq|].
    intros i c G. exact (shape_from_get s 0 S i c G).
  - intros [L S]. apply andb_true_intro. split; [now apply Nat.eqb_eq|].
    apply get_shape_from. exact S.
Qed.

(** EVERY list of 16 integers (in particular every one of the 2^128 byte strings) prints as 36 characters with
    dashes at 8, 13, 18, 23 and lower-case hex digits everywhere else.  Structure: the 16 positions are
    unfolded one by one; the two digits of each position are discharged by the finite sweep above. *)
Lemma uuid_wellformed_b : forall bs, List.length bs = 16%nat -> uuid_shapeb (uuid_to_string bs) = true.
Proof.
  intros bs H.
  do 16 (destruct bs as [|? bs]; [discriminate H|]). destruct bs; [|discriminate H].
  unfold uuid_shapeb, uuid_to_string.
  cbn [to_chars dash_after Nat.eqb orb String.length shape_from dash_pos andb].
  rewrite !to_char_hi_hex, !to_char_lo_hex. reflexivity.
Qed.

Theorem uuid_wellformed : forall bs, List.length bs = 16%nat -> uuid_shape (uuid_to_string bs).
Proof. intros bs H. apply uuid_shapeb_spec. now apply uuid_wellformed_b. Qed.

Lemma shape_looks : forall s, uuid_shape s -> looksLikeUUID s = true.
Proof.
  intros s [L S]. unfold looksLikeUUID. rewrite L. cbn [Nat.eqb andb].
  assert (D : forall i, (i < 36)%nat -> dash_pos i = true -> char_at s i dash = true).
  { intros i Hi Hd. unfold char_at. destruct (String.get i s) as [c|] eqn:G.
    - specialize (S i c G). rewrite Hd in S. subst c. apply Ascii.eqb_refl.
    - exfalso. clear -G L Hi. revert i G Hi. rewrite <- L. clear L.
      induction s as [|a r IH]; intros i G Hi; cbn in *; [lia|].
      destruct i; [discriminate|]. apply (IH i G). lia. }
  rewrite (D 8%nat), (D 13%nat), (D 18%nat), (D 23%nat) by (reflexivity || lia). reflexivity.
Qed.

Theorem looksLikeUUID_uuid_to_string : forall bs, List.length bs = 16%nat -> looksLikeUUID (uuid_to_string bs) = true.
Proof. intros bs H. apply shape_looks. now apply uuid_wellformed. Qed.

(** ** nothing is lost: the text reads back as the bytes *)

Definition hexpair (b : Z) : list ascii := [to_char (hi_nibble b); to_char (lo_nibble b)].

Lemma undash_to_chars : forall bs i, undash (to_chars i bs) = flat_map hexpair bs.
Proof.
  induction bs as [|b r IH]; intros i; [reflexivity|].
  cbn [to_chars undash flat_map hexpair app].
  rewrite to_char_hi_nodash, to_char_lo_nodash.
  destruct (dash_after i).
  - cbn [undash]. rewrite Ascii.eqb_refl. now rewrite IH.
  - now rewrite IH.
Qed.

Lemma unhex_pairs_hexpairs : forall bs, Forall (fun b => 0 <= b < 256) bs -> unhex_pairs (flat_map hexpair bs) = bs.
Proof.
  induction 1 as [|b r Hb Hr IH]; [reflexivity|].
  cbn [flat_map hexpair app unhex_pairs]. rewrite IH. f_equal.
  pose proof (byte_ok_all b Hb) as C. unfold byte_check in C.
  repeat (apply andb_prop in C; destruct C as [C ?]). lia.
Qed.

Theorem uuid_parse_to_string : forall bs, Forall (fun b => 0 <= b < 256) bs -> uuid_parse (uuid_to_string bs) = bs.
Proof. intros bs H. unfold uuid_parse, uuid_to_string. rewrite undash_to_chars. now apply unhex_pairs_hexpairs. Qed.

Theorem uuid_to_string_injective : forall a b,
  Forall (fun x => 0 <= x < 256) a -> Forall (fun x => 0 <= x < 256) b -> uuid_to_string a = uuid_to_string b -> a = b.
Proof. intros a b Ha Hb E. rewrite <- (uuid_parse_to_string a Ha), <- (uuid_parse_to_string b Hb). now rewrite E. Qed.

(** ** what createId returns is a well-formed version-4 uuid, whatever the engine yields *)

Lemma word_bytes_range : forall w, Forall (fun b => 0 <= b < 256) (word_bytes w).
Proof.
  intros w. unfold word_bytes. apply Forall_forall. intros b Hb. apply in_map_iff in Hb.
  destruct Hb as [i [E _]]. subst b. change 255 with (Z.ones 8). rewrite Z.land_ones by lia.
  change (2 ^ 8) with 256. apply Z.mod_pos_bound. lia.
Qed.

Lemma uuid_bytes_range : forall w0 w1, Forall (fun b => 0 <= b < 256) (uuid_bytes w0 w1).
Proof. intros. unfold uuid_bytes. apply Forall_app. split; apply word_bytes_range. Qed.

Lemma uuid_bytes_length : forall w0 w1, List.length (uuid_bytes w0 w1) = 16%nat.
Proof. intros. unfold uuid_bytes, word_bytes. rewrite app_length, !map_length, !seq_length. reflexivity. Qed.

Lemma upd_length : forall bs i f, List.length (upd i f bs) = List.length bs.
Proof. induction bs as [|b r IH]; intros [|i] f; cbn; auto. Qed.

Lemma set_vv_length : forall bs, List.length (set_vv bs) = List.length bs.
Proof. intros. unfold set_vv. now rewrite !upd_length. Qed.

Lemma masks_ok : forall b, 0 <= b < 256 ->
  (0 <= Z.lor (Z.land b 79) 64 < 256 /\ hi_nibble (Z.lor (Z.land b 79) 64) = 4) /\
  (0 <= Z.lor (Z.land b 191) 128 < 256 /\ 8 <= hi_nibble (Z.lor (Z.land b 191) 128) <= 11).
Proof.
  intros b Hb. pose proof (byte_ok_all b Hb) as C. unfold byte_check in C.
  repeat (apply andb_prop in C; destruct C as [C ?]). lia.
Qed.

Lemma set_vv_range : forall bs, Forall (fun b => 0 <= b < 256) bs -> Forall (fun b => 0 <= b < 256) (set_vv bs).
Proof.
  assert (U : forall f, (forall b, 0 <= b < 256 -> 0 <= f b < 256) ->
              forall bs i, Forall (fun b => 0 <= b < 256) bs -> Forall (fun b => 0 <= b < 256) (upd i f bs)).
  { intros f Hf. induction bs as [|b r IH]; intros [|i] H; cbn; auto; inversion H; subst; constructor; auto. }
  intros bs H. unfold set_vv. apply U; [intros b Hb; apply (masks_ok b Hb)|].
  apply U; [intros b Hb; apply (masks_ok b Hb)|exact H].
Qed.

Lemma to_char_values : to_char 4 = "4"%char /\ to_char 8 = "8"%char /\ to_char 9 = "9"%char /\ to_char 10 = "a"%char /\ to_char 11 = "b"%char.
Proof. vm_compute. repeat split. Qed.

(** version digit 4 at position 14, variant digit 8..b at position 19 *)
Theorem uuid_v4_of_set_vv : forall bs, List.length bs = 16%nat -> Forall (fun b => 0 <= b < 256) bs ->
  uuid_v4b (uuid_to_string (set_vv bs)) = true.
Proof.
  intros bs H R.
  do 16 (destruct bs as [|? bs]; [discriminate H|]). destruct bs; [|discriminate H].
  repeat match goal with R : Forall _ (_ :: _) |- _ => inversion R; clear R; subst end.
  unfold uuid_v4b, uuid_to_string, set_vv, char_at.
  cbn [upd to_chars dash_after Nat.eqb orb String.get].
  match goal with |- context [hi_nibble (Z.lor (Z.land ?b 79) 64)] => destruct (masks_ok b) as [[_ E4] _]; [assumption|rewrite E4] end.
  match goal with |- context [hi_nibble (Z.lor (Z.land ?b 191) 128)] =>
    destruct (masks_ok b) as [_ [_ E8]]; [assumption|]; set (v := hi_nibble (Z.lor (Z.land b 191) 128)) in * end.
  destruct to_char_values as [T4 [T8 [T9 [Ta Tb]]]]. rewrite T4. cbn [andb Ascii.eqb Bool.eqb].
  assert (Hv : v = 8 \/ v = 9 \/ v = 10 \/ v = 11) by lia.
  destruct Hv as [-> | [-> | [-> | ->]]]; [rewrite T8 | rewrite T9 | rewrite Ta | rewrite Tb]; reflexivity.
Qed.

Theorem uuid_of_words_wellformed : forall w0 w1, uuid_wellformedb (uuid_of_words w0 w1) = true.
Proof.
  intros w0 w1. unfold uuid_wellformedb, uuid_of_words. apply andb_true_intro. split.
  - apply uuid_wellformed_b. rewrite set_vv_length. apply uuid_bytes_length.
  - apply uuid_v4_of_set_vv; [apply uuid_bytes_length|apply uuid_bytes_range].
Qed.

Corollary uuid_of_words_looks : forall w0 w1, looksLikeUUID (uuid_of_words w0 w1) = true.
Proof.
  intros. apply shape_looks. apply uuid_shapeb_spec.
  pose proof (uuid_of_words_wellformed w0 w1) as H. unfold uuid_wellformedb in H. apply andb_prop in H. tauto.
Qed.

(* ------------------------------------------------------------------------------------------ *)
(** * B. histories *)

Lemma nodupb_spec : forall l, nodupb l = true <-> NoDup l.
Proof.
  induction l as [|x r IH]; cbn [nodupb]; [split; [constructor|reflexivity]|].
  rewrite andb_true_iff, negb_true_iff, IH. split.
  - intros [H1 H2]. constructor; [|exact H2]. intros Hin.
    assert (existsb (String.eqb x) r = true) as E by (apply existsb_exists; exists x; split; [exact Hin|apply String.eqb_refl]).
    congruence.
  - intros H. inversion H as [|? ? Hn Hr]; subst. split; [|exact Hr].
    destruct (existsb (String.eqb x) r) eqn:E; [|reflexivity].
    apply existsb_exists in E. destruct E as [y [Hy Ey]]. apply String.eqb_eq in Ey. subst y. contradiction.
Qed.

Lemma nodupb_false_dup : forall (x : string) l1 l2, In x l1 -> In x l2 -> nodupb (l1 ++ l2) = false.
Proof.
  intros x l1 l2 H1 H2. destruct (nodupb (l1 ++ l2)) eqn:E; [|reflexivity].
  apply nodupb_spec in E. exfalso. revert H1 E. induction l1 as [|a r IH]; intros H1 E; [contradiction|].
  cbn in E. inversion E as [|? ? Hn Hr]; subst. destruct H1 as [->|H1].
  - apply Hn. apply in_or_app. now right.
  - now apply IH.
Qed.

Lemma NoDup_map_inj_on : forall (A B : Type) (f : A -> B) (l : list A),
  (forall a b, In a l -> In b l -> f a = f b -> a = b) -> NoDup l -> NoDup (map f l).
Proof.
  intros A B f l. induction l as [|x r IH]; intros Hinj Hnd; [constructor|].
  inversion Hnd as [|? ? Hn Hr]; subst. cbn. constructor.
  - intros Hin. apply in_map_iff in Hin. destruct Hin as [y [Ey Hy]].
    assert (y = x) by (apply Hinj; [now right|now left|exact Ey]). subst y. contradiction.
  - apply IH; [|exact Hr]. intros a b Ha Hb. apply Hinj; now right.
Qed.

Lemma NoDup_app_mid : forall (A : Type) (l r : list A) (x : A), NoDup (l ++ r) -> ~ In x (l ++ r) -> NoDup (l ++ x :: r).
Proof. intros A l r x H F. apply (NoDup_Add (Add_app x l r)). now split. Qed.

Lemma NoDup_app_snoc : forall (A : Type) (l : list A) (x : A), NoDup l -> ~ In x l -> NoDup (l ++ [x]).
Proof. intros A l x H F. apply NoDup_app_mid; rewrite app_nil_r; assumption. Qed.

Lemma NoDup_app_tail : forall (A : Type) (l r : list A), NoDup (l ++ r) -> NoDup r.
Proof. intros A l r. induction l as [|a l IH]; intros H; [exact H|]. cbn in H. inversion H; auto. Qed.

Arguments supply : simpl never.
Arguments uuid_of_words : simpl never.
Arguments uuid_wellformedb : simpl never.
Arguments seed_of : simpl never.

Section Histories.
  Variable gen : list Z -> nat -> Z.
  Variable beh : behaviour.

  Definition supd (d : list Z * nat) : string := supply gen (fst d) (snd d).

  (** ** every id is well-formed (no assumption on the engine) *)

  Definition wfs (s : string) : Prop := uuid_wellformedb s = true.
  Definition wf_ent (e : entity) : Prop := wfs (e_id e) /\ wfs (e_id0 e).
  Definition wf_state (st : state) : Prop :=
    wfs (st_file st) /\ Forall wf_ent (st_ents st) /\ Forall wfs (st_seen st).

  Lemma supply_wf : forall s k, wfs (supply gen s k).
  Proof. intros. apply uuid_of_words_wellformed. Qed.

  Lemma kill_forall : forall (P : entity -> Prop), (forall e, P e -> P (set_dead e)) ->
    forall es d, Forall P es -> Forall P (kill d es).
  Proof.
    intros P HP. induction es as [|e r IH]; intros d H; [constructor|].
    inversion H; subst. cbn [kill]. destruct (_ && _); constructor; auto.
  Qed.

  Lemma reidentify_forall : forall (P : entity -> Prop) o id, (forall e, P e -> P (set_id e id)) ->
    forall es, Forall P es -> Forall P (reidentify es o id).
  Proof.
    intros P o id HP es H. unfold reidentify. apply Forall_forall. intros x Hx.
    apply in_map_iff in Hx. destruct Hx as [e [E He]]. rewrite Forall_forall in H.
    subst x. destruct (Nat.eqb _ _); auto.
  Qed.

  Lemma create_wf : forall st k parent name ref, wf_state st -> wf_state (fst (create gen beh st k parent name ref)).
  Proof.
    intros st k parent name ref [Wf [We Ws]]. unfold create.
    destruct (negb (request_ok st k parent ref)); [now repeat split|].
    destruct (kind_eqb k KFrame && dup_frame_reidentifies beh).
    - cbn [draw fst snd]. destruct (negb (st_rw st)); [now repeat split|].
      destruct (find _ _) as [old|]; cbn [fst]; repeat split; cbn; auto.
      + apply reidentify_forall; [|exact We]. intros e [_ H0]. split; [apply supply_wf|exact H0].
      + constructor; [apply supply_wf|exact Ws].
      + apply Forall_app. split; [exact We|]. constructor; [|constructor]. split; apply supply_wf.
      + constructor; [apply supply_wf|exact Ws].
    - destruct (negb (kind_eqb k KFeature) && existsb _ _); [now repeat split|].
      cbn [draw fst snd]. destruct (st_rw st); cbn [fst]; repeat split; cbn; auto.
      + apply Forall_app. split; [exact We|]. constructor; [|constructor]. split; apply supply_wf.
      + constructor; [apply supply_wf|exact Ws].
  Qed.

  Lemma create_all_wf : forall names st k, wf_state st -> wf_state (fst (create_all gen beh st k names)).
  Proof.
    induction names as [|n r IH]; intros st k H; [exact H|].
    cbn [create_all]. pose proof (create_wf st k None n None H) as H1.
    destruct (create gen beh st k None n None) as [st1 ok1]. cbn [fst] in H1.
    specialize (IH st1 k H1). destruct (create_all gen beh st1 k r) as [st2 ok2]. exact IH.
  Qed.

  Lemma step_wf : forall st o, wf_state st -> wf_state (fst (step gen beh st o)).
  Proof.
    intros st o H. destruct o as [k parent name ref|x| |x|rw|t e k names|t e rw|t e k names]; cbn [step].
    - now apply create_wf.
    - destruct (live_ent st x); [|exact H]. destruct (st_rw st); [|exact H].
      destruct H as [Wf [We Ws]]. repeat split; cbn; auto. apply kill_forall; [|exact We]. intros e0 He. exact He.
    - cbn [draw fst snd]. destruct H as [Wf [We Ws]]. destruct (st_rw st); cbn [fst]; repeat split; cbn; auto.
      + apply supply_wf.
      + constructor; [apply supply_wf|exact Ws].
    - destruct (live_ent st x); exact H.
    - exact H.
    - unfold other_session. destruct (negb _); [exact H|].
      pose proof (create_all_wf names (with_rw (with_proc st (new_proc beh t e)) true) k H) as H1.
      destruct (create_all _ _ _ _ _) as [st1 ok]. exact H1.
    - exact H.
    - unfold other_session. destruct (negb _); [exact H|].
      pose proof (create_all_wf names (with_rw (with_proc st (fork_child beh st t e)) true) k H) as H1.
      destruct (create_all _ _ _ _ _) as [st1 ok]. exact H1.
  Qed.

  Lemma new_file_wf : forall t e, wf_state (new_file gen beh t e).
  Proof. intros. repeat split; cbn; auto using supply_wf. Qed.

  Lemma run_from_wf : forall h st, wf_state st -> wf_state (run_from gen beh st h).
  Proof. induction h as [|o r IH]; intros st H; [exact H|]. cbn. apply IH. now apply step_wf. Qed.

  (** every id of every reachable state — the file's, every entity's (current and at creation), every id ever
      stored — is a well-formed version-4 uuid text and is recognised by [looksLikeUUID] *)
  Theorem all_ids_wellformed : forall t e h, wf_state (run gen beh t e h).
  Proof. intros. apply run_from_wf. apply new_file_wf. Qed.
End Histories.

(** ** an id never changes *)
Section Stability.
  Variable gen : list Z -> nat -> Z.
  Variable beh : behaviour.

  (** [e'] is the entity [e] at a later time: same ordinal, same id, same remembered id *)
  Definition keeps (e e' : entity) : Prop :=
    e_ord e' = e_ord e /\ e_id e' = e_id e /\ e_id0 e' = e_id0 e /\ e_kind e' = e_kind e /\ e_name e' = e_name e.

  Lemma keeps_refl : forall e, keeps e e.
  Proof. intros; repeat split. Qed.
  Lemma keeps_trans : forall a b c, keeps a b -> keeps b c -> keeps a c.
  Proof. unfold keeps. intros a b c H1 H2. intuition congruence. Qed.

  Lemma kill_in : forall es d e, In e es -> In e (kill d es) \/ In (set_dead e) (kill d es).
  Proof.
    induction es as [|x r IH]; intros d e H; [contradiction|].
    cbn [kill]. destruct H as [->|H].
    - destruct (_ && _); [right|left]; now left.
    - destruct (_ && _); [destruct (IH (e_ord x :: d) e H) as [H1|H1]|destruct (IH d e H) as [H1|H1]];
        [left|right|left|right]; now right.
  Qed.

  Definition stable_step (st st' : state) : Prop :=
    forall e, In e (st_ents st) -> exists e', In e' (st_ents st') /\ keeps e e'.

  Lemma stable_refl : forall st, stable_step st st.
  Proof. intros st e H. exists e. split; [exact H|apply keeps_refl]. Qed.
  Lemma stable_trans : forall a b c, stable_step a b -> stable_step b c -> stable_step a c.
  Proof.
    intros a b c H1 H2 e He. destruct (H1 e He) as [e1 [I1 K1]]. destruct (H2 e1 I1) as [e2 [I2 K2]].
    exists e2. split; [exact I2|exact (keeps_trans _ _ _ K1 K2)].
  Qed.

  (** where the repaired library differs: no operation rewrites an entity_id *)
  Hypothesis NR : dup_frame_reidentifies beh = false.

  Lemma create_stable : forall st k parent name ref, stable_step st (fst (create gen beh st k parent name ref)).
  Proof.
    intros st k parent name ref. unfold create. rewrite NR, andb_false_r.
    destruct (negb (request_ok st k parent ref)); [apply stable_refl|].
    destruct (negb (kind_eqb k KFeature) && existsb _ _); [apply stable_refl|].
    cbn [draw fst snd]. destruct (st_rw st); cbn [fst]; intros e He; exists e; (split; [|apply keeps_refl]); cbn.
    - apply in_or_app. now left.
    - exact He.
  Qed.

  Lemma create_all_stable : forall names st k, stable_step st (fst (create_all gen beh st k names)).
  Proof.
    induction names as [|n r IH]; intros st k; [apply stable_refl|].
    cbn [create_all]. pose proof (create_stable st k None n None) as H1.
    destruct (create gen beh st k None n None) as [st1 ok1]. cbn [fst] in H1.
    specialize (IH st1 k). destruct (create_all gen beh st1 k r) as [st2 ok2]. cbn [fst] in *.
    exact (stable_trans _ _ _ H1 IH).
  Qed.

  Lemma step_stable : forall st o, stable_step st (fst (step gen beh st o)).
  Proof.
    intros st o. destruct o as [k parent name ref|x| |x|rw|t e k names|t e rw|t e k names]; cbn [step].
    - apply create_stable.
    - destruct (live_ent st x); [|apply stable_refl]. destruct (st_rw st); [|apply stable_refl].
      intros e0 He. cbn. destruct (kill_in _ [x] e0 He) as [H|H].
      + exists e0. split; [exact H|apply keeps_refl].
      + exists (set_dead e0). split; [exact H|repeat split].
    - cbn [draw fst snd]. destruct (st_rw st); cbn [fst]; intros e0 He; exists e0; (split; [exact He|apply keeps_refl]).
    - destruct (live_ent st x); apply stable_refl.
    - intros e0 He; exists e0; (split; [exact He|apply keeps_refl]).
    - unfold other_session. destruct (negb _); [apply stable_refl|].
      pose proof (create_all_stable names (with_rw (with_proc st (new_proc beh t e)) true) k) as H1.
      destruct (create_all _ _ _ _ _) as [st1 ok]. cbn [fst] in *.
      intros e0 He. destruct (H1 e0 He) as [e1 [I1 K1]]. exists e1. split; [exact I1|exact K1].
    - intros e0 He; exists e0; (split; [exact He|apply keeps_refl]).
    - unfold other_session. destruct (negb _); [apply stable_refl|].
      pose proof (create_all_stable names (with_rw (with_proc st (fork_child beh st t e)) true) k) as H1.
      destruct (create_all _ _ _ _ _) as [st1 ok]. cbn [fst] in *.
      intros e0 He. destruct (H1 e0 He) as [e1 [I1 K1]]. exists e1. split; [exact I1|exact K1].
  Qed.

  Lemma run_from_stable : forall h st, stable_step st (run_from gen beh st h).
  Proof.
    induction h as [|o r IH]; intros st; [apply stable_refl|]. cbn.
    exact (stable_trans _ _ _ (step_stable st o) (IH _)).
  Qed.

  Lemma run_from_app : forall h1 h2 st, run_from gen beh st (h1 ++ h2) = run_from gen beh (run_from gen beh st h1) h2.
  Proof. intros. unfold run_from. apply fold_left_app. Qed.

  (** whatever happens after an entity has been created — any operations, by any processes, in any number of
      sessions — the entity (alive or deleted) still carries the id it had *)
  Theorem id_never_changes : forall t e h1 h2 x,
    In x (st_ents (run gen beh t e h1)) ->
    exists x', In x' (st_ents (run gen beh t e (h1 ++ h2))) /\ e_ord x' = e_ord x /\ e_id x' = e_id x.
  Proof.
    intros t e h1 h2 x Hx. unfold run in *. rewrite run_from_app.
    destruct (run_from_stable h2 _ x Hx) as [x' [I K]]. exists x'. split; [exact I|]. destruct K as [K1 [K2 _]]. now split.
  Qed.

  (** the id an entity carries is the one it was created with *)
  Definition ids_as_created (st : state) : Prop := Forall (fun e => e_id e = e_id0 e) (st_ents st).

  Lemma create_as_created : forall st k parent name ref, ids_as_created st -> ids_as_created (fst (create gen beh st k parent name ref)).
  Proof.
    intros st k parent name ref H. unfold create. rewrite NR, andb_false_r.
    destruct (negb (request_ok st k parent ref)); [exact H|].
    destruct (negb (kind_eqb k KFeature) && existsb _ _); [exact H|].
    cbn [draw fst snd]. destruct (st_rw st); cbn [fst]; unfold ids_as_created; cbn; [|exact H].
    apply Forall_app. split; [exact H|]. constructor; [reflexivity|constructor].
  Qed.

  Lemma create_all_as_created : forall names st k, ids_as_created st -> ids_as_created (fst (create_all gen beh st k names)).
  Proof.
    induction names as [|n r IH]; intros st k H; [exact H|].
    cbn [create_all]. pose proof (create_as_created st k None n None H) as H1.
    destruct (create gen beh st k None n None) as [st1 ok1]. cbn [fst] in H1.
    specialize (IH st1 k H1). destruct (create_all gen beh st1 k r) as [st2 ok2]. exact IH.
  Qed.

  Lemma step_as_created : forall st o, ids_as_created st -> ids_as_created (fst (step gen beh st o)).
  Proof.
    intros st o H. destruct o as [k parent name ref|x| |x|rw|t e k names|t e rw|t e k names]; cbn [step].
    - now apply create_as_created.
    - destruct (live_ent st x); [|exact H]. destruct (st_rw st); [|exact H].
      unfold ids_as_created. cbn. apply (kill_forall (fun e => e_id e = e_id0 e)); [|exact H]. intros e0 He. exact He.
    - cbn [draw fst snd]. destruct (st_rw st); exact H.
    - destruct (live_ent st x); exact H.
    - exact H.
    - unfold other_session. destruct (negb _); [exact H|].
      pose proof (create_all_as_created names (with_rw (with_proc st (new_proc beh t e)) true) k H) as H1.
      destruct (create_all _ _ _ _ _) as [st1 ok]. exact H1.
    - exact H.
    - unfold other_session. destruct (negb _); [exact H|].
      pose proof (create_all_as_created names (with_rw (with_proc st (fork_child beh st t e)) true) k H) as H1.
      destruct (create_all _ _ _ _ _) as [st1 ok]. exact H1.
  Qed.

  Theorem ids_stay_as_created : forall t e h, ids_as_created (run gen beh t e h).
  Proof.
    intros t e h. unfold run. assert (G : forall h st, ids_as_created st -> ids_as_created (run_from gen beh st h)).
    { induction h0 as [|o r IH]; intros st H; [exact H|]. cbn. apply IH. now apply step_as_created. }
    apply G. constructor.
  Qed.
End Stability.

(** the file's id changes by forceId and by nothing else (whatever the behaviour) *)
Section FileId.
  Variable gen : list Z -> nat -> Z.
  Variable beh : behaviour.

  Lemma create_file : forall st k parent name ref, st_file (fst (create gen beh st k parent name ref)) = st_file st.
  Proof.
    intros. unfold create. destruct (negb (request_ok _ _ _ _)); [reflexivity|].
    destruct (_ && dup_frame_reidentifies beh).
    - cbn [draw fst snd]. destruct (negb (st_rw st)); [reflexivity|]. destruct (find _ _); reflexivity.
    - destruct (_ && existsb _ _); [reflexivity|]. cbn [draw fst snd]. destruct (st_rw st); reflexivity.
  Qed.

  Lemma create_all_file : forall names st k, st_file (fst (create_all gen beh st k names)) = st_file st.
  Proof.
    induction names as [|n r IH]; intros st k; [reflexivity|].
    cbn [create_all]. pose proof (create_file st k None n None) as H1.
    destruct (create gen beh st k None n None) as [st1 ok1]. cbn [fst] in H1.
    specialize (IH st1 k). destruct (create_all gen beh st1 k r) as [st2 ok2]. cbn [fst] in *. congruence.
  Qed.

  Theorem file_id_changes_only_by_forceId : forall st o, o <> OForceId -> st_file (fst (step gen beh st o)) = st_file st.
  Proof.
    intros st o H. destruct o as [k parent name ref|x| |x|rw|t e k names|t e rw|t e k names]; cbn [step]; try reflexivity.
    - apply create_file.
    - destruct (live_ent st x); [|reflexivity]. destruct (st_rw st); reflexivity.
    - contradiction.
    - destruct (live_ent st x); reflexivity.
    - unfold other_session. destruct (negb _); [reflexivity|].
      pose proof (create_all_file names (with_rw (with_proc st (new_proc beh t e)) true) k) as H1.
      destruct (create_all _ _ _ _ _) as [st1 ok]. cbn [fst] in *. exact H1.
    - unfold other_session. destruct (negb _); [reflexivity|].
      pose proof (create_all_file names (with_rw (with_proc st (fork_child beh st t e)) true) k) as H1.
      destruct (create_all _ _ _ _ _) as [st1 ok]. cbn [fst] in *. exact H1.
  Qed.
End FileId.

(** ** ids are pairwise distinct, given an injective supply *)
Section Uniqueness.
  Variable gen : list Z -> nat -> Z.
  Variable beh : behaviour.
  (** the assumption about the engine, relative to a set [P] of (seed, index) pairs — instantiated below with
      the createId calls the history actually makes: different calls give different ids *)
  Variable P : list Z * nat -> Prop.
  Hypothesis INJ : forall d d', P d -> P d' -> supd gen d = supd gen d' -> d = d'.
  (** and about the library: a forked child does not continue with a copy of its parent's engine *)
  Hypothesis NF : fork_copies_engine beh = false.

  Notation sd := (supd gen).

  (** the bookkeeping of draws: [Q] the seeds used so far, [R] a suspended process (the owner of the file while
      another process works on it) *)
  Record DI (Q : list (list Z)) (R : option proc) (draws : list (list Z * nat)) (cur : proc) (seen : list string) : Prop := {
    d_P : forall d, In d draws -> P d;
    d_nd : NoDup draws;
    d_cur : forall k, In (p_seed cur, k) draws -> (k < p_next cur)%nat;
    d_Q : forall d, In d draws -> In (fst d) Q;
    d_curQ : In (p_seed cur) Q;
    d_R : match R with
          | None => True
          | Some p => In (p_seed p) Q /\ p_seed p <> p_seed cur /\ forall k, In (p_seed p, k) draws -> (k < p_next p)%nat
          end;
    d_seen : exists D, seen = map sd D /\ NoDup D /\ incl D draws
  }.

  Definition holders (ents : list entity) (file : string) : list string := file :: map e_id ents.

  Record HI (ents : list entity) (next : nat) (file : string) (seen : list string) : Prop := {
    h_ord : NoDup (map e_ord ents);
    h_lt : forall e, In e ents -> (e_ord e < next)%nat;
    h_nd : NoDup (holders ents file);
    h_in : incl (holders ents file) seen
  }.

  Definition Inv (Q : list (list Z)) (R : option proc) (st : state) : Prop :=
    DI Q R (st_draws st) (st_proc st) (st_seen st) /\ HI (st_ents st) (st_next st) (st_file st) (st_seen st).

  Lemma di_seen_nodup : forall Q R draws cur seen, DI Q R draws cur seen -> NoDup seen.
  Proof.
    intros Q R draws cur seen H. destruct (d_seen _ _ _ _ _ H) as [D [E [ND IN]]]. subst seen.
    apply NoDup_map_inj_on; [|exact ND]. intros a b Ha Hb E.
    apply INJ; [apply (d_P _ _ _ _ _ H); auto|apply (d_P _ _ _ _ _ H); auto|exact E].
  Qed.

  (** the id about to be drawn has never been stored *)
  Lemma di_fresh : forall Q R draws cur seen, DI Q R draws cur seen -> P (p_seed cur, p_next cur) ->
    ~ In (supply gen (p_seed cur) (p_next cur)) seen.
  Proof.
    intros Q R draws cur seen H HP Hin. destruct (d_seen _ _ _ _ _ H) as [D [E [ND IN]]]. subst seen.
    apply in_map_iff in Hin. destruct Hin as [d [E Hd]].
    assert (d = (p_seed cur, p_next cur)) by (apply INJ; [apply (d_P _ _ _ _ _ H); auto|exact HP|exact E]).
    subst d. pose proof (d_cur _ _ _ _ _ H _ (IN _ Hd)). lia.
  Qed.

  (** one createId call whose result is thrown away *)
  Lemma di_draw : forall Q R draws cur seen, DI Q R draws cur seen -> P (p_seed cur, p_next cur) ->
    DI Q R ((p_seed cur, p_next cur) :: draws) (mkProc (p_seed cur) (S (p_next cur))) seen.
  Proof.
    intros Q R draws cur seen H HP. constructor; cbn [p_seed p_next].
    - intros d [<-|Hd]; [exact HP|exact (d_P _ _ _ _ _ H d Hd)].
    - constructor; [|exact (d_nd _ _ _ _ _ H)]. intros Hin. pose proof (d_cur _ _ _ _ _ H _ Hin). lia.
    - intros k [E|Hin]; [inversion E; lia|]. pose proof (d_cur _ _ _ _ _ H _ Hin). lia.
    - intros d [<-|Hin]; [exact (d_curQ _ _ _ _ _ H)|exact (d_Q _ _ _ _ _ H d Hin)].
    - exact (d_curQ _ _ _ _ _ H).
    - pose proof (d_R _ _ _ _ _ H) as HR. destruct R as [p|]; [|exact I]. destruct HR as [R1 [R2 R3]].
      split; [exact R1|]. split; [exact R2|]. intros k [E|Hin]; [inversion E; congruence|auto].
    - destruct (d_seen _ _ _ _ _ H) as [D [E [ND IN]]]. exists D. split; [exact E|]. split; [exact ND|].
      intros d Hd. right. auto.
  Qed.

  (** one createId call whose result is stored *)
  Lemma di_push : forall Q R draws cur seen, DI Q R draws cur seen -> P (p_seed cur, p_next cur) ->
    DI Q R ((p_seed cur, p_next cur) :: draws) (mkProc (p_seed cur) (S (p_next cur)))
       (supply gen (p_seed cur) (p_next cur) :: seen).
  Proof.
    intros Q R draws cur seen H HP. pose proof (di_draw _ _ _ _ _ H HP) as H1.
    constructor; try (destruct H1; assumption).
    destruct (d_seen _ _ _ _ _ H) as [D [E [ND IN]]]. exists ((p_seed cur, p_next cur) :: D). split; [|split].
    - cbn [map]. now rewrite E.
    - constructor; [|exact ND]. intros Hin. pose proof (d_cur _ _ _ _ _ H _ (IN _ Hin)). lia.
    - intros d [<-|Hd]; [now left|right; auto].
  Qed.

  (* ---- holders ---- *)

  Lemma hi_seen : forall ents next file seen id, HI ents next file seen -> HI ents next file (id :: seen).
  Proof.
    intros ents next file seen id [A B C D]. constructor; auto. intros x Hx. right. auto.
  Qed.

  Lemma hi_add : forall ents next file seen k parent name id, HI ents next file seen -> ~ In id seen ->
    HI (ents ++ [mkEnt next k parent name id id true]) (S next) file (id :: seen).
  Proof.
    intros ents next file seen k parent name id [A B C D] F. constructor.
    - rewrite map_app. cbn [map e_ord]. apply NoDup_app_snoc; [exact A|].
      intros Hin. apply in_map_iff in Hin. destruct Hin as [e0 [E He]]. specialize (B e0 He). lia.
    - intros e0 He. apply in_app_or in He. destruct He as [He|[<-|[]]]; [specialize (B e0 He); lia|cbn; lia].
    - unfold holders in *. rewrite map_app. cbn [map e_id].
      change (file :: map e_id ents ++ [id]) with ((file :: map e_id ents) ++ [id]).
      apply NoDup_app_snoc; [exact C|]. intros Hin. apply F. apply D. exact Hin.
    - unfold holders in *. rewrite map_app. cbn [map e_id]. intros x [<-|Hx].
      + right. apply D. now left.
      + apply in_app_or in Hx. destruct Hx as [Hx|[<-|[]]]; [right; apply D; now right|now left].
  Qed.

  Lemma hi_file : forall ents next file seen id, HI ents next file seen -> ~ In id seen -> HI ents next id (id :: seen).
  Proof.
    intros ents next file seen id [A B C D] F. constructor; auto.
    - unfold holders in *. inversion C as [|? ? Cn Cr]; subst. constructor; [|exact Cr].
      intros Hin. apply F. apply D. now right.
    - unfold holders in *. intros x [<-|Hx]; [now left|right; apply D; now right].
  Qed.

  Lemma hi_kill : forall ents next file seen d, HI ents next file seen -> HI (kill d ents) next file seen.
  Proof.
    intros ents next file seen d [A B C D].
    assert (Eo : forall es d, map e_ord (kill d es) = map e_ord es).
    { induction es as [|x r IH]; intros d0; [reflexivity|]. cbn [kill]. destruct (_ && _); cbn [map]; now rewrite IH. }
    assert (Ei : forall es d, map e_id (kill d es) = map e_id es).
    { induction es as [|x r IH]; intros d0; [reflexivity|]. cbn [kill]. destruct (_ && _); cbn [map]; now rewrite IH. }
    constructor.
    - now rewrite Eo.
    - intros e0 He. assert (In (e_ord e0) (map e_ord (kill d ents))) as Hin by (apply in_map; exact He).
      rewrite Eo in Hin. apply in_map_iff in Hin. destruct Hin as [e1 [E1 H1]]. rewrite <- E1. auto.
    - unfold holders. now rewrite Ei.
    - unfold holders. now rewrite Ei.
  Qed.

  Lemma reidentify_ords : forall es o id, map e_ord (reidentify es o id) = map e_ord es.
  Proof. intros. unfold reidentify. rewrite map_map. apply map_ext. intros e. destruct (Nat.eqb _ _); reflexivity. Qed.

  (** replacing the id of the one entity with ordinal [o] by a fresh id *)
  Lemma reidentify_ids : forall es o id, NoDup (map e_ord es) ->
    (forall x, In x (map e_id (reidentify es o id)) -> x = id \/ In x (map e_id es)) /\
    (forall l, NoDup (l ++ map e_id es) -> ~ In id (l ++ map e_id es) -> NoDup (l ++ map e_id (reidentify es o id))).
  Proof.
    induction es as [|e r IH]; intros o id ND; [split; [intros x []|intros l H _; exact H]|].
    cbn [map] in ND. inversion ND as [|? ? Hn Hr]; subst. destruct (IH o id Hr) as [IH1 IH2]. split.
    - intros x Hx. cbn [reidentify map] in Hx. destruct Hx as [Hx|Hx].
      + destruct (Nat.eqb (e_ord e) o); cbn in Hx; [now left|right; now left].
      + destruct (IH1 x Hx) as [?|?]; [now left|right; now right].
    - intros l H F. cbn [reidentify map]. destruct (Nat.eqb (e_ord e) o) eqn:Eo.
      + (* this one is replaced; the rest is untouched *)
        apply Nat.eqb_eq in Eo.
        assert (Er : map (fun e0 => if Nat.eqb (e_ord e0) o then set_id e0 id else e0) r = r).
        { rewrite <- (map_id r) at 2. apply map_ext_in. intros a Ha. destruct (Nat.eqb (e_ord a) o) eqn:Ea; [|reflexivity].
          apply Nat.eqb_eq in Ea. exfalso. apply Hn. rewrite Eo, <- Ea. now apply in_map. }
        unfold reidentify in *. rewrite Er. cbn [set_id e_id].
        cbn [map] in H, F. apply NoDup_remove in H. destruct H as [H1 H2].
        apply NoDup_app_mid; [exact H1|]. intros Hin. apply F. apply in_app_or in Hin. apply in_or_app.
        destruct Hin; [now left|right; now right].
      + cbn [map] in H, F. fold (reidentify r o id).
        replace (l ++ e_id e :: map e_id (reidentify r o id)) with ((l ++ [e_id e]) ++ map e_id (reidentify r o id))
          by (rewrite <- app_assoc; reflexivity).
        apply IH2; rewrite <- app_assoc; cbn [app]; assumption.
  Qed.

  Lemma hi_reid : forall ents next file seen o id, HI ents next file seen -> ~ In id seen ->
    HI (reidentify ents o id) next file (id :: seen).
  Proof.
    intros ents next file seen o id [A B C D] F. destruct (reidentify_ids ents o id A) as [R1 R2]. constructor.
    - now rewrite reidentify_ords.
    - intros e0 He. assert (In (e_ord e0) (map e_ord (reidentify ents o id))) as Hin by (apply in_map; exact He).
      rewrite reidentify_ords in Hin. apply in_map_iff in Hin. destruct Hin as [e1 [E1 H1]]. rewrite <- E1. auto.
    - unfold holders in *. apply (R2 [file]); [exact C|]. intros Hin. apply F. apply D. exact Hin.
    - unfold holders in *. intros x [<-|Hx]; [right; apply D; now left|].
      destruct (R1 x Hx) as [->|Hx']; [now left|right; apply D; now right].
  Qed.

  (** draws are only ever added *)
  Definition draws_ext (st st' : state) : Prop := exists l, st_draws st' = l ++ st_draws st.
  Lemma draws_ext_refl : forall st, draws_ext st st.
  Proof. intros st. now exists []. Qed.
  Lemma draws_ext_trans : forall a b c, draws_ext a b -> draws_ext b c -> draws_ext a c.
  Proof. intros a b c [l1 E1] [l2 E2]. exists (l2 ++ l1). rewrite E2, E1. now rewrite app_assoc. Qed.
  Lemma draws_ext_in : forall st st' d, draws_ext st st' -> In d (st_draws st) -> In d (st_draws st').
  Proof. intros st st' d [l E] H. rewrite E. apply in_or_app. now right. Qed.

  Lemma create_ext : forall st k parent name ref, draws_ext st (fst (create gen beh st k parent name ref)).
  Proof.
    intros. unfold create. destruct (negb (request_ok _ _ _ _)); [apply draws_ext_refl|].
    destruct (_ && dup_frame_reidentifies beh).
    - cbn [draw fst snd]. destruct (negb (st_rw st)); [|destruct (find _ _)]; now exists [(p_seed (st_proc st), p_next (st_proc st))].
    - destruct (_ && existsb _ _); [apply draws_ext_refl|]. cbn [draw fst snd].
      destruct (st_rw st); now exists [(p_seed (st_proc st), p_next (st_proc st))].
  Qed.

  Lemma create_all_ext : forall names st k, draws_ext st (fst (create_all gen beh st k names)).
  Proof.
    induction names as [|n r IH]; intros st k; [apply draws_ext_refl|].
    cbn [create_all]. pose proof (create_ext st k None n None) as H1.
    destruct (create gen beh st k None n None) as [st1 ok1]. cbn [fst] in H1.
    specialize (IH st1 k). destruct (create_all gen beh st1 k r) as [st2 ok2]. cbn [fst] in *.
    exact (draws_ext_trans _ _ _ H1 IH).
  Qed.

  Lemma step_ext : forall st o, draws_ext st (fst (step gen beh st o)).
  Proof.
    intros st o. destruct o as [k parent name ref|x| |x|rw|t e k names|t e rw|t e k names]; cbn [step].
    - apply create_ext.
    - destruct (live_ent st x); [|apply draws_ext_refl]. destruct (st_rw st); now exists [].
    - cbn [draw fst snd]. destruct (st_rw st); now exists [(p_seed (st_proc st), p_next (st_proc st))].
    - destruct (live_ent st x); apply draws_ext_refl.
    - now exists [].
    - unfold other_session. destruct (negb _); [apply draws_ext_refl|].
      pose proof (create_all_ext names (with_rw (with_proc st (new_proc beh t e)) true) k) as H1.
      destruct (create_all _ _ _ _ _) as [st1 ok]. cbn [fst] in *. exact H1.
    - now exists [].
    - unfold other_session. destruct (negb _); [apply draws_ext_refl|].
      pose proof (create_all_ext names (with_rw (with_proc st (fork_child beh st t e)) true) k) as H1.
      destruct (create_all _ _ _ _ _) as [st1 ok]. cbn [fst] in *. exact H1.
  Qed.

  Lemma run_from_ext : forall h st, draws_ext st (run_from gen beh st h).
  Proof.
    induction h as [|o r IH]; intros st; [apply draws_ext_refl|]. cbn.
    exact (draws_ext_trans _ _ _ (step_ext st o) (IH _)).
  Qed.

  Definition allP (st : state) : Prop := forall d, In d (st_draws st) -> P d.

  Lemma create_inv : forall Q R st k parent name ref, Inv Q R st ->
    allP (fst (create gen beh st k parent name ref)) -> Inv Q R (fst (create gen beh st k parent name ref)).
  Proof.
    intros Q R st k parent name ref [HD HH]. unfold create, allP.
    destruct (negb (request_ok st k parent ref)); [now split|].
    destruct (kind_eqb k KFrame && dup_frame_reidentifies beh).
    - cbn [draw fst snd]. destruct (negb (st_rw st)).
      + cbn. intros AP. split; cbn; [apply di_draw; auto|exact HH].
      + destruct (find _ _) as [old|]; cbn; intros AP;
          (assert (HP : P (p_seed (st_proc st), p_next (st_proc st))) by (apply AP; now left));
          pose proof (di_fresh _ _ _ _ _ HD HP) as FR; (split; cbn; [now apply di_push|]).
        * now apply hi_reid.
        * now apply hi_add.
    - destruct (negb (kind_eqb k KFeature) && existsb _ _); [now split|].
      cbn [draw fst snd]. destruct (st_rw st); cbn; intros AP;
        (assert (HP : P (p_seed (st_proc st), p_next (st_proc st))) by (apply AP; now left));
        pose proof (di_fresh _ _ _ _ _ HD HP) as FR; split; cbn.
      + now apply di_push.
      + now apply hi_add.
      + now apply di_draw.
      + exact HH.
  Qed.

  Lemma create_all_inv : forall names Q R st k, Inv Q R st ->
    allP (fst (create_all gen beh st k names)) -> Inv Q R (fst (create_all gen beh st k names)).
  Proof.
    induction names as [|n r IH]; intros Q R st k H AP; [exact H|].
    cbn [create_all] in *. pose proof (create_inv Q R st k None n None H) as H1.
    pose proof (create_all_ext r (fst (create gen beh st k None n None)) k) as EX.
    destruct (create gen beh st k None n None) as [st1 ok1]. cbn [fst] in *.
    specialize (IH Q R st1 k). destruct (create_all gen beh st1 k r) as [st2 ok2]. cbn [fst] in *.
    apply IH; [|exact AP]. apply H1. intros d Hd. apply AP. exact (draws_ext_in _ _ _ EX Hd).
  Qed.

  (** create / create_all leave the process's seed alone *)
  Lemma create_seed : forall st k parent name ref, p_seed (st_proc (fst (create gen beh st k parent name ref))) = p_seed (st_proc st).
  Proof.
    intros. unfold create. destruct (negb (request_ok _ _ _ _)); [reflexivity|].
    destruct (_ && dup_frame_reidentifies beh).
    - cbn [draw fst snd]. destruct (negb (st_rw st)); [reflexivity|]. destruct (find _ _); reflexivity.
    - destruct (_ && existsb _ _); [reflexivity|]. cbn [draw fst snd]. destruct (st_rw st); reflexivity.
  Qed.

  (* ---- processes ---- *)

  Lemma di_weaken : forall Q R draws cur seen s, DI Q R draws cur seen -> DI (s :: Q) R draws cur seen.
  Proof.
    intros Q R draws cur seen s [A B C D E F G]. constructor; auto.
    - intros d Hd. right. auto.
    - now right.
    - destruct R as [p|]; [|exact I]. destruct F as [F1 [F2 F3]]. split; [now right|]. split; assumption.
  Qed.

  Lemma di_new : forall Q draws cur seen s, DI Q None draws cur seen -> ~ In s Q ->
    DI (s :: Q) (Some cur) draws (mkProc s 0) seen.
  Proof.
    intros Q draws cur seen s [A B C D E F G] HN. constructor; cbn [p_seed p_next]; auto.
    - intros k Hin. exfalso. apply HN. exact (D _ Hin).
    - intros d Hd. right. auto.
    - now left.
    - split; [now right|]. split; [|exact C]. intros Eq. apply HN. rewrite <- Eq. exact E.
  Qed.

  Lemma di_restore : forall Q p draws cur seen, DI Q (Some p) draws cur seen -> DI Q None draws p seen.
  Proof. intros Q p draws cur seen [A B C D E [F1 [F2 F3]] G]. constructor; auto. Qed.

  Lemma di_forget : forall Q p draws cur seen, DI Q (Some p) draws cur seen -> DI Q None draws cur seen.
  Proof. intros Q p draws cur seen [A B C D E F G]. constructor; auto. Qed.

  Definition op_seeds (o : op) : list (list Z) := seeds_of beh (later_procs [o]).

  Lemma step_inv : forall Q st o, Inv Q None st ->
    (forall s, In s (op_seeds o) -> ~ In s Q) -> allP (fst (step gen beh st o)) ->
    Inv (op_seeds o ++ Q) None (fst (step gen beh st o)).
  Proof.
    intros Q st o H HS. destruct o as [k parent name ref|x| |x|rw|t e k names|t e rw|t e k names]; cbn [step op_seeds later_procs seeds_of map app fst snd].
    - now apply create_inv.
    - intros _. destruct (live_ent st x); [|exact H]. destruct (st_rw st); [|exact H].
      destruct H as [HD HH]. split; cbn; [exact HD|now apply hi_kill].
    - destruct H as [HD HH]. unfold allP.
      cbn [draw fst snd]. destruct (st_rw st); cbn; intros AP;
        (assert (HP : P (p_seed (st_proc st), p_next (st_proc st))) by (apply AP; now left));
        pose proof (di_fresh _ _ _ _ _ HD HP) as FR; split; cbn.
      + now apply di_push.
      + now apply (hi_file _ _ (st_file st)).
      + now apply di_draw.
      + exact HH.
    - intros _. destruct (live_ent st x); exact H.
    - intros _. exact H.
    - unfold other_session. pose proof (HS (seed_of beh t e) (or_introl eq_refl)) as HN.
      destruct H as [HD HH].
      destruct (negb _); [intros _; split; [now apply di_weaken|exact HH]|].
      assert (H0 : Inv (seed_of beh t e :: Q) (Some (st_proc st)) (with_rw (with_proc st (new_proc beh t e)) true)).
      { split; cbn; [now apply di_new|exact HH]. }
      pose proof (create_all_inv names _ _ _ k H0) as H1.
      destruct (create_all _ _ _ _ _) as [st1 ok]. cbn [fst] in *. intros AP.
      destruct (H1 AP) as [HD1 HH1]. split; cbn; [exact (di_restore _ _ _ _ _ HD1)|exact HH1].
    - intros _. pose proof (HS (seed_of beh t e) (or_introl eq_refl)) as HN.
      destruct H as [HD HH]. split; cbn; [|exact HH].
      apply (di_forget _ (st_proc st)). now apply di_new.
    - unfold fork_child. rewrite NF. unfold other_session. pose proof (HS (seed_of beh t e) (or_introl eq_refl)) as HN.
      destruct H as [HD HH].
      destruct (negb _); [intros _; split; [now apply di_weaken|exact HH]|].
      assert (H0 : Inv (seed_of beh t e :: Q) (Some (st_proc st)) (with_rw (with_proc st (new_proc beh t e)) true)).
      { split; cbn; [now apply di_new|exact HH]. }
      pose proof (create_all_inv names _ _ _ k H0) as H1.
      destruct (create_all _ _ _ _ _) as [st1 ok]. cbn [fst] in *. intros AP.
      destruct (H1 AP) as [HD1 HH1]. split; cbn; [exact (di_restore _ _ _ _ _ HD1)|exact HH1].
  Qed.

  Lemma later_procs_cons : forall o r, later_procs (o :: r) = later_procs [o] ++ later_procs r.
  Proof. intros o r. destruct o; reflexivity. Qed.

  Lemma run_from_inv : forall h Q st, Inv Q None st ->
    NoDup (seeds_of beh (later_procs h)) ->
    (forall s, In s (seeds_of beh (later_procs h)) -> ~ In s Q) ->
    allP (run_from gen beh st h) ->
    exists Q', Inv Q' None (run_from gen beh st h).
  Proof.
    induction h as [|o r IH]; intros Q st H ND HS AP; [exists Q; exact H|].
    rewrite later_procs_cons in ND, HS. unfold seeds_of in ND, HS. rewrite map_app in ND, HS.
    fold (seeds_of beh (later_procs [o])) in ND, HS. fold (seeds_of beh (later_procs r)) in ND, HS.
    fold (op_seeds o) in ND, HS.
    cbn [run_from fold_left] in *. apply (IH (op_seeds o ++ Q)).
    - apply step_inv; [exact H| |].
      + intros s Hs. apply HS. apply in_or_app. now left.
      + intros d Hd. apply AP. exact (draws_ext_in _ _ _ (run_from_ext r _) Hd).
    - exact (NoDup_app_tail _ _ _ ND).
    - intros s Hs Hin. apply in_app_or in Hin. destruct Hin as [Hin|Hin].
      + (* s in both halves of a duplicate-free list *)
        clear -ND Hs Hin. induction (op_seeds o) as [|a l IHl]; [contradiction|].
        cbn in ND. inversion ND as [|? ? Hn Hr]; subst. destruct Hin as [->|Hin].
        * apply Hn. apply in_or_app. now right.
        * now apply IHl.
      + apply (HS s); [apply in_or_app; now right|exact Hin].
    - exact AP.
  Qed.

  Lemma new_file_inv : forall t e, P (seed_of beh t e, 0%nat) -> Inv [seed_of beh t e] None (new_file gen beh t e).
  Proof.
    intros t e HP. unfold new_file, new_proc. cbn [p_seed]. split; cbn.
    - constructor; cbn [p_seed p_next].
      + intros d [<-|[]]. exact HP.
      + constructor; [intros []|constructor].
      + intros k [E|[]]. inversion E. lia.
      + intros d [<-|[]]. now left.
      + now left.
      + exact I.
      + exists [(seed_of beh t e, 0%nat)]. split; [reflexivity|]. split; [constructor; [intros []|constructor]|].
        intros d Hd. exact Hd.
    - constructor; cbn.
      + constructor.
      + intros e0 [].
      + constructor; [intros []|constructor].
      + intros x Hx. exact Hx.
  Qed.

  Lemma run_unique : forall t e h,
    NoDup (seeds_of beh (procs_of t e h)) -> allP (run gen beh t e h) ->
    let st := run gen beh t e h in
    NoDup (st_seen st) /\ NoDup (st_file st :: map e_id (st_ents st)) /\
    incl (st_file st :: map e_id (st_ents st)) (st_seen st).
  Proof.
    intros t e h ND AP st. unfold procs_of in ND. cbn [seeds_of map fst snd] in ND.
    fold (seeds_of beh (later_procs h)) in ND. inversion ND as [|? ? Hn Hr]; subst.
    destruct (run_from_inv h [seed_of beh t e] (new_file gen beh t e)) as [Q' [HD HH]].
    - apply new_file_inv. apply AP. unfold run. apply (draws_ext_in _ _ _ (run_from_ext h _)). now left.
    - exact Hr.
    - intros s Hs [<-|[]]. contradiction.
    - exact AP.
    - split; [exact (di_seen_nodup _ _ _ _ _ HD)|]. split; [exact (h_nd _ _ _ _ HH)|exact (h_in _ _ _ _ HH)].
  Qed.
End Uniqueness.

(** Given processes with pairwise different seeds and an engine that gives different ids to the different
    createId calls the history makes: in every reachable state — any history, any number of sessions and
    processes — the ids ever stored in the file are pairwise distinct, and the ids held now (the file's and
    every entity's, deleted ones included) are pairwise distinct and among them. *)
Theorem ids_unique_given_supply : forall gen beh t e h,
  fork_copies_engine beh = false ->
  NoDup (seeds_of beh (procs_of t e h)) ->
  (forall d d', In d (st_draws (run gen beh t e h)) -> In d' (st_draws (run gen beh t e h)) ->
                supd gen d = supd gen d' -> d = d') ->
  let st := run gen beh t e h in
  NoDup (st_seen st) /\ NoDup (st_file st :: map e_id (st_ents st)) /\
  incl (st_file st :: map e_id (st_ents st)) (st_seen st).
Proof.
  intros gen beh t e h NF ND INJ.
  apply (run_unique gen beh (fun d => In d (st_draws (run gen beh t e h))) INJ NF t e h ND).
  intros d Hd. exact Hd.
Qed.

(* ------------------------------------------------------------------------------------------ *)
(** * C. seeds and processes *)

Lemma NoDup_map_inv_inj : forall (A B : Type) (f : A -> B) (l : list A),
  NoDup (map f l) -> forall a b, In a l -> In b l -> f a = f b -> a = b.
Proof.
  intros A B f l. induction l as [|x r IH]; intros H a b Ha Hb E; [contradiction|].
  cbn in H. inversion H as [|? ? Hn Hr]; subst. destruct Ha as [->|Ha]; destruct Hb as [->|Hb]; auto.
  - exfalso. apply Hn. rewrite E. now apply in_map.
  - exfalso. apply Hn. rewrite <- E. now apply in_map.
Qed.

Lemma NoDup_app_disjoint : forall (A : Type) (l r : list A),
  NoDup l -> NoDup r -> (forall x, In x l -> ~ In x r) -> NoDup (l ++ r).
Proof.
  intros A l r Hl Hr D. induction l as [|a l IH]; [exact Hr|].
  inversion Hl as [|? ? Hn Hl']; subst. cbn. constructor.
  - intros Hin. apply in_app_or in Hin. destruct Hin as [Hin|Hin]; [contradiction|]. apply (D a); [now left|exact Hin].
  - apply IH; [exact Hl'|]. intros x Hx. apply D. now right.
Qed.

Section Seeds.
  Variable gen : list Z -> nat -> Z.

  (** the engine is a deterministic function of its seed: equal seeds, equal id sequences *)
  Theorem same_seed_same_ids : forall s1 s2, s1 = s2 -> forall k, supply gen s1 k = supply gen s2 k.
  Proof. intros s1 s2 -> k. reflexivity. Qed.

  (** on the pinned tree the seed is the wall-clock second (mod 2^32) and nothing else *)
  Theorem seed_today_is_the_second_only : forall t e1 e2, seed_of code_today t e1 = seed_of code_today t e2.
  Proof. reflexivity. Qed.

  Theorem seed_today_wraps : forall t e, seed_of code_today (t + 4294967296) e = seed_of code_today t e.
  Proof.
    intros t e. unfold seed_of. cbn [seed_uses_entropy code_today]. f_equal.
    rewrite <- (Z.mul_1_l 4294967296) at 1. apply Z.mod_add. lia.
  Qed.

  (** ... so two processes started within one second draw the same ids, whatever the engine *)
  Theorem same_second_same_ids_today : forall t e1 e2 k,
    supply gen (seed_of code_today t e1) k = supply gen (seed_of code_today t e2) k.
  Proof. reflexivity. Qed.

  (** the failing history, for EVERY engine: a process creates a file; a second process started in the same
      second creates a block in it: the block gets the file's id *)
  Theorem cross_process_collision_refuted : forall t e1 e2 name,
    nodupb (st_seen (run gen code_today t e1 [OCreateOther t e2 KBlock [name]])) = false.
  Proof.
    intros t e1 e2 name. unfold run, run_from, new_file, new_proc.
    cbn [fold_left step other_session fst snd kind_eqb orb negb with_proc with_rw st_proc st_rw st_ents st_next st_file st_seen st_draws
         create_all create request_ok container_ok siblings filter existsb andb dup_frame_reidentifies code_today
         draw p_seed p_next add_ent].
    cbn [nodupb existsb]. rewrite String.eqb_refl. reflexivity.
  Qed.

  (** the same for the runtime experiment: k >= 2 processes in one second share their ids *)
  Theorem procs_common_today : forall t e1 e2 es n, procs_common gen code_today t (e1 :: e2 :: es) (S n) = true.
  Proof.
    intros t e1 e2 es n. unfold procs_common. cbn [flat_map]. apply negb_true_iff.
    apply (nodupb_false_dup (supply gen (seed_of code_today t e1) 0)).
    - unfold first_ids. cbn [seq map]. now left.
    - apply in_or_app. left. unfold first_ids. cbn [seq map]. left. reflexivity.
  Qed.

  (** repaired: different entropy, different seeds — whatever the clock says *)
  Theorem distinct_entropy_distinct_seeds : forall t1 t2 e1 e2, e1 <> e2 -> seed_of repaired t1 e1 <> seed_of repaired t2 e2.
  Proof. intros t1 t2 e1 e2 H E. unfold seed_of in E. cbn [seed_uses_entropy repaired] in E. inversion E. contradiction. Qed.

  Lemma seeds_repaired_nodup : forall ps, NoDup (map snd ps) -> NoDup (seeds_of repaired ps).
  Proof.
    induction ps as [|p r IH]; intros H; [constructor|].
    cbn [map] in H. inversion H as [|? ? Hn Hr]; subst. cbn [seeds_of map]. constructor; [|exact (IH Hr)].
    intros Hin. apply in_map_iff in Hin. destruct Hin as [q [E Hq]].
    destruct (Z.eq_dec (snd q) (snd p)) as [Es|Ns].
    - apply Hn. rewrite <- Es. now apply in_map.
    - exact (distinct_entropy_distinct_seeds _ _ _ _ Ns E).
  Qed.

  (** the honest statement after the repair: IF the entropy source gives every process a different value AND the
      engine gives different ids to the createId calls made (the probabilistic part: 122 random bits), THEN ids are
      unique across all processes and sessions, start times being arbitrary *)
  Theorem unique_across_processes_repaired : forall beh t e h,
    seed_uses_entropy beh = true -> fork_copies_engine beh = false ->
    NoDup (map snd (procs_of t e h)) ->
    (forall d d', In d (st_draws (run gen beh t e h)) -> In d' (st_draws (run gen beh t e h)) ->
                  supd gen d = supd gen d' -> d = d') ->
    let st := run gen beh t e h in
    NoDup (st_seen st) /\ NoDup (st_file st :: map e_id (st_ents st)).
  Proof.
    intros beh t e h HE NF ND INJ st.
    assert (NS : NoDup (seeds_of beh (procs_of t e h))).
    { assert (Eq : seeds_of beh (procs_of t e h) = seeds_of repaired (procs_of t e h)).
      { unfold seeds_of. apply map_ext. intros p. unfold seed_of. now rewrite HE. }
      rewrite Eq. now apply seeds_repaired_nodup. }
    destruct (ids_unique_given_supply gen beh t e h NF NS INJ) as [A [B _]]. now split.
  Qed.

  (** the runtime experiment after the repair, under the same two assumptions *)
  Theorem procs_common_repaired : forall t es n,
    NoDup es ->
    NoDup (map (supd gen) (flat_map (fun e => map (fun k => (seed_of repaired t e, k)) (seq 0 n)) es)) ->
    procs_common gen repaired t es n = false.
  Proof.
    intros t es n _. unfold procs_common.
    assert (E : flat_map (fun e => first_ids gen (seed_of repaired t e) n) es =
                map (supd gen) (flat_map (fun e => map (fun k => (seed_of repaired t e, k)) (seq 0 n)) es)).
    { induction es as [|e r IH]; [reflexivity|]. cbn [flat_map]. rewrite map_app, IH. f_equal.
      unfold first_ids. rewrite map_map. reflexivity. }
    intros H. apply negb_false_iff. apply nodupb_spec. rewrite E. exact H.
  Qed.
End Seeds.

(* ------------------------------------------------------------------------------------------ *)
(** * D. the oracle *)

(** the extracted comparison [observe st = spec_observe st] is exactly the property's statement about a state *)
Theorem observe_meets_spec : forall st,
  observe st = spec_observe st <->
  (uuid_wellformedb (st_file st) = true /\
   (forall e, In e (st_ents st) -> e_live e = true -> uuid_wellformedb (e_id e) = true /\ e_id e = e_id0 e) /\
   NoDup (st_seen st)).
Proof.
  intros st. unfold observe, spec_observe. split.
  - intros H. injection H as H1 H2 H3. split; [exact H1|]. split; [|now apply nodupb_spec].
    intros e He Hl. rewrite map_ext_in_iff in H2.
    specialize (H2 e (proj2 (filter_In _ _ _) (conj He Hl))). injection H2 as W S.
    split; [exact W|]. now apply String.eqb_eq.
  - intros [H1 [H2 H3]]. f_equal; [f_equal; [exact H1|]|now apply nodupb_spec].
    apply map_ext_in. intros e He. apply filter_In in He. destruct He as [He Hl].
    destruct (H2 e He Hl) as [W S]. rewrite W, S, String.eqb_refl. reflexivity.
Qed.

(** with the two repairs in place, distinct seeds and an engine that does not repeat itself on the calls made,
    the model's observation after every history is the one the property demands *)
Theorem model_meets_spec_when_repaired : forall gen beh t e h,
  dup_frame_reidentifies beh = false -> fork_copies_engine beh = false ->
  NoDup (seeds_of beh (procs_of t e h)) ->
  (forall d d', In d (st_draws (run gen beh t e h)) -> In d' (st_draws (run gen beh t e h)) ->
                supd gen d = supd gen d' -> d = d') ->
  observe (run gen beh t e h) = spec_observe (run gen beh t e h).
Proof.
  intros gen beh t e h NR NF ND INJ. apply observe_meets_spec.
  destruct (all_ids_wellformed gen beh t e h) as [Wf [We _]].
  destruct (ids_unique_given_supply gen beh t e h NF ND INJ) as [A _].
  pose proof (ids_stay_as_created gen beh NR t e h) as S.
  split; [exact Wf|]. split; [|exact A]. intros x Hx _.
  unfold ids_as_created in S. rewrite Forall_forall in We. rewrite Forall_forall in S.
  split; [exact (proj1 (We x Hx))|exact (S x Hx)].
Qed.

(* ------------------------------------------------------------------------------------------ *)
(** * E. the pinned tree *)

(** block 0, frame 1 named "f", then createDataFrame "f" again: the frame's id is no longer the one it was
    created with (and the call is an error) *)
Definition dup_frame_history : list op :=
  [OCreate KBlock None "b" None; OCreate KFrame (Some 0%nat) "f" None; OCreate KFrame (Some 0%nat) "f" None].

Theorem id_never_changes_refuted :
  id_of (run toy_gen code_today 100 1 dup_frame_history) 1 <> id_of (run toy_gen code_today 100 1 (firstn 2 dup_frame_history)) 1 /\
  observe (run toy_gen code_today 100 1 dup_frame_history) <> spec_observe (run toy_gen code_today 100 1 dup_frame_history) /\
  observe (run toy_gen repaired 100 1 dup_frame_history) = spec_observe (run toy_gen repaired 100 1 dup_frame_history).
Proof. vm_compute. repeat split; discriminate. Qed.

(* ------------------------------------------------------------------------------------------ *)
(** * F. checking the hypotheses of the uniqueness theorem on a concrete history *)

Fixpoint zlist_eqb (a b : list Z) : bool :=
  match a, b with
  | [], [] => true
  | x :: r, y :: s => (x =? y) && zlist_eqb r s
  | _, _ => false
  end.

Lemma zlist_eqb_refl : forall a, zlist_eqb a a = true.
Proof. induction a as [|x r IH]; [reflexivity|]. cbn. now rewrite Z.eqb_refl, IH. Qed.

Fixpoint nodupzb (l : list (list Z)) : bool :=
  match l with
  | [] => true
  | x :: r => negb (existsb (zlist_eqb x) r) && nodupzb r
  end.

Lemma nodupzb_sound : forall l, nodupzb l = true -> NoDup l.
Proof.
  induction l as [|x r IH]; intros H; [constructor|].
  cbn [nodupzb] in H. apply andb_prop in H. destruct H as [H1 H2]. constructor; [|now apply IH].
  intros Hin. apply negb_true_iff in H1.
  assert (existsb (zlist_eqb x) r = true) by (apply existsb_exists; exists x; split; [exact Hin|apply zlist_eqb_refl]).
  congruence.
Qed.

(** the two hypotheses in decidable form: pairwise different seeds, pairwise different ids for the calls made *)
Theorem ids_unique_checked : forall gen beh t e h,
  fork_copies_engine beh = false ->
  nodupzb (seeds_of beh (procs_of t e h)) = true ->
  nodupb (map (supd gen) (st_draws (run gen beh t e h))) = true ->
  let st := run gen beh t e h in
  NoDup (st_seen st) /\ NoDup (st_file st :: map e_id (st_ents st)) /\
  incl (st_file st :: map e_id (st_ents st)) (st_seen st).
Proof.
  intros gen beh t e h NF H1 H2. apply ids_unique_given_supply.
  - exact NF.
  - now apply nodupzb_sound.
  - apply NoDup_map_inv_inj. now apply nodupb_spec.
Qed.

(** a history over every entity kind with a delete, a re-creation, rejected duplicates, forceId, a read-only session,
    two other processes started in the SAME second as the creator (their entropy differs) and a take-over *)
Definition nv_history : list op :=
  [OCreate KBlock None "b" None; OCreate KSection None "s" None; OCreate KSection (Some 1%nat) "s" None;
   OCreate KProperty (Some 2%nat) "p" None; OCreate KArray (Some 0%nat) "a" None; OCreate KFrame (Some 0%nat) "f" None;
   OCreate KFrame (Some 0%nat) "f" None; OCreate KTag (Some 0%nat) "t" None; OCreate KMultiTag (Some 0%nat) "m" (Some 4%nat);
   OCreate KGroup (Some 0%nat) "g" None; OCreate KSource (Some 0%nat) "r" None; OCreate KSource (Some 9%nat) "r" None;
   OCreate KFeature (Some 6%nat) "" (Some 4%nat); OCreate KArray (Some 0%nat) "a" None; ODelete 4; OCreate KArray (Some 0%nat) "a" None;
   OForceId; OSetter 0; OReopen false; OCreate KBlock None "x" None; OForceId; OReopen true;
   OCreateOther 100 2 KBlock ["y"%string; "z"%string]; OCreateOther 100 3 KSection ["s"%string; "u"%string]; ONewSession 100 4 true; OCreate KBlock None "w" None;
   OFork 100 5 KBlock ["k1"%string]; OFork 100 6 KSection ["k2"%string; "k3"%string]; OCreate KBlock None "v" None].

(** the hypotheses of the uniqueness theorem are satisfiable: they hold for this history and the concrete engine *)
Lemma nv_unique : let st := run toy_gen repaired 100 1 nv_history in
  NoDup (st_seen st) /\ NoDup (st_file st :: map e_id (st_ents st)) /\
  incl (st_file st :: map e_id (st_ents st)) (st_seen st).
Proof. apply ids_unique_checked; vm_compute; reflexivity. Qed.

(* ------------------------------------------------------------------------------------------ *)
(** * G. fork *)
Section Fork.
  Variable gen : list Z -> nat -> Z.
  Variable beh : behaviour.

  (** once the library re-seeds in a forked child, a forked child is just another process *)
  Theorem fork_step_repaired : fork_copies_engine beh = false ->
    forall st t e k names, step gen beh st (OFork t e k names) = step gen beh st (OCreateOther t e k names).
  Proof. intros NF st t e k names. cbn [step]. unfold fork_child. now rewrite NF. Qed.

  (** while the child inherits the engine, for EVERY engine and whatever the clocks and the entropy source say:
      two children forked by the process that created the file give their first entities the same id; and a child's
      first entity gets the id the parent's next entity gets *)
  Theorem fork_collision_refuted : fork_copies_engine beh = true ->
    (forall t e t1 e1 t2 e2 n1 n2,
       nodupb (st_seen (run gen beh t e [OFork t1 e1 KBlock [n1]; OFork t2 e2 KSection [n2]])) = false) /\
    (forall t e t1 e1 n1 n2,
       nodupb (st_seen (run gen beh t e [OFork t1 e1 KBlock [n1]; OCreate KSection None n2 None])) = false).
  Proof.
    intros FC. split; intros; unfold run, run_from, new_file, new_proc;
      cbn [fold_left step fst snd]; unfold fork_child, other_session; rewrite FC;
      cbn [kind_eqb orb negb andb with_proc with_rw st_proc st_rw st_ents st_next st_file st_seen st_draws
           create_all create request_ok container_ok siblings filter existsb app e_live e_kind e_parent opt_nat_eqb
           draw p_seed p_next add_ent fst snd];
      cbn [nodupb existsb]; rewrite String.eqb_refl; reflexivity.
  Qed.

  (** the fork experiment (separate files): two children share their first id *)
  Theorem fork_common_today : fork_copies_engine beh = true ->
    forall t e pre c1 c2 cs kc kp, fork_common gen beh t e pre (c1 :: c2 :: cs) (S kc) kp = true.
  Proof.
    intros FC t e pre c1 c2 cs kc kp. unfold fork_common, fork_ids. rewrite FC. cbn [flat_map].
    apply negb_true_iff. rewrite app_assoc.
    apply (nodupb_false_dup (supply gen (seed_of beh t e) pre)).
    - apply in_or_app. right. cbn [seq map]. now left.
    - apply in_or_app. left. cbn [seq map]. now left.
  Qed.

  (** ... and after the repair it finds nothing, under the same two assumptions as everywhere: the seeds differ
      (entropy) and the engine gives different ids to the calls made *)
  Theorem fork_common_repaired : fork_copies_engine beh = false ->
    forall t e pre cs kc kp,
    NoDup (map (supd gen) (map (fun k => (seed_of beh t e, k)) (seq 0 (pre + kp)) ++
                           flat_map (fun c => map (fun k => (seed_of beh (fst c) (snd c), k)) (seq 0 kc)) cs)) ->
    fork_common gen beh t e pre cs kc kp = false.
  Proof.
    intros NF t e pre cs kc kp. unfold fork_common, fork_ids. rewrite NF.
    assert (E : flat_map (fun c => first_ids gen (seed_of beh (fst c) (snd c)) kc) cs =
                map (supd gen) (flat_map (fun c => map (fun k => (seed_of beh (fst c) (snd c), k)) (seq 0 kc)) cs)).
    { induction cs as [|c r IH]; [reflexivity|]. cbn [flat_map]. rewrite map_app, IH. f_equal.
      unfold first_ids. rewrite map_map. reflexivity. }
    intros H. apply negb_false_iff. apply nodupb_spec. rewrite E. rewrite map_app, map_map in H. exact H.
  Qed.
End Fork.
