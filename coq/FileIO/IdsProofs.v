(** C12 — proofs about the id model of Ids.v. *)
From Coq Require Import List ZArith Bool String Ascii Lia Arith.
Require Import ZifyBool ZifyNat.
Require Import NixV.Base.Prelude NixV.FileIO.Ids.
Import ListNotations.
Local Open Scope Z_scope.

(* ------------------------------------------------------------------------------------------ *)
(** * A. the text of a uuid *)

(** ** finite sweeps *)

Definition range (n : nat) : list Z := map Z.of_nat (seq 0 n).

Lemma in_range : forall n z, 0 <= z < Z.of_nat n -> In z (range n).
Proof.
  intros n z H. unfold range. apply in_map_iff. exists (Z.to_nat z). split; [lia|].
  apply in_seq. lia.
Qed.

(** every nibble value prints as a lower-case hex digit, which is not a dash and reads back as itself *)
Definition nibble_check (n : Z) : bool :=
  is_lower_hex (to_char n) && negb (Ascii.eqb (to_char n) dash) && (unhex (to_char n) =? n).

Lemma nibble_sweep : forallb nibble_check (range 16) = true.
Proof. vm_compute. reflexivity. Qed.

Lemma nibble_ok : forall n, 0 <= n < 16 -> nibble_check n = true.
Proof. intros n H. exact (proj1 (forallb_forall _ _) nibble_sweep n (in_range 16 n H)). Qed.

(** the per-byte sweep: all 256 byte values — both digits lower-case hex, no dash, and the pair reads back
    as the byte; the version / variant masks leave a byte and put 4 resp. 8..b into the high digit *)
Definition byte_check (b : Z) : bool :=
  nibble_check (hi_nibble b) && nibble_check (lo_nibble b) &&
  (unhex (to_char (hi_nibble b)) * 16 + unhex (to_char (lo_nibble b)) =? b) &&
  (let v := Z.lor (Z.land b 79) 64 in (0 <=? v) && (v <? 256) && (hi_nibble v =? 4)) &&
  (let v := Z.lor (Z.land b 191) 128 in (0 <=? v) && (v <? 256) && (8 <=? hi_nibble v) && (hi_nibble v <=? 11)).

Lemma byte_sweep : forallb byte_check (range 256) = true.
Proof. vm_compute. reflexivity. Qed.

Lemma byte_ok_all : forall b, 0 <= b < 256 -> byte_check b = true.
Proof. intros b H. exact (proj1 (forallb_forall _ _) byte_sweep b (in_range 256 b H)). Qed.

(** ** nibbles of arbitrary integers *)

Lemma lo_nibble_range : forall b, 0 <= lo_nibble b < 16.
Proof.
  intros b. unfold lo_nibble. change 15 with (Z.ones 4). rewrite Z.land_ones by lia.
  change (2 ^ 4) with 16. apply Z.mod_pos_bound. lia.
Qed.

Lemma hi_nibble_range : forall b, 0 <= hi_nibble b < 16.
Proof.
  intros b. unfold hi_nibble. change 15 with (Z.ones 4). rewrite Z.land_ones by lia.
  change (2 ^ 4) with 16. apply Z.mod_pos_bound. lia.
Qed.

Lemma to_char_hi_hex : forall b, is_lower_hex (to_char (hi_nibble b)) = true.
Proof.
  intros b. pose proof (nibble_ok _ (hi_nibble_range b)) as H. unfold nibble_check in H.
  apply andb_prop in H. destruct H as [H _]. apply andb_prop in H. tauto.
Qed.
Lemma to_char_lo_hex : forall b, is_lower_hex (to_char (lo_nibble b)) = true.
Proof.
  intros b. pose proof (nibble_ok _ (lo_nibble_range b)) as H. unfold nibble_check in H.
  apply andb_prop in H. destruct H as [H _]. apply andb_prop in H. tauto.
Qed.
Lemma to_char_hi_nodash : forall b, Ascii.eqb (to_char (hi_nibble b)) dash = false.
Proof.
  intros b. pose proof (nibble_ok _ (hi_nibble_range b)) as H. unfold nibble_check in H.
  apply andb_prop in H. destruct H as [H _]. apply andb_prop in H. destruct H as [_ H].
  now apply negb_true_iff in H.
Qed.
Lemma to_char_lo_nodash : forall b, Ascii.eqb (to_char (lo_nibble b)) dash = false.
Proof.
  intros b. pose proof (nibble_ok _ (lo_nibble_range b)) as H. unfold nibble_check in H.
  apply andb_prop in H. destruct H as [H _]. apply andb_prop in H. destruct H as [_ H].
  now apply negb_true_iff in H.
Qed.

(** ** the shape *)

Lemma shape_from_get : forall s i,
  shape_from i s = true ->
  forall j c, String.get j s = Some c -> if dash_pos (i + j) then c = dash else is_lower_hex c = true.
Proof.
  induction s as [|a r IH]; intros i H j c G; [discriminate|].
  cbn [shape_from] in H. apply andb_prop in H. destruct H as [Ha Hr].
  destruct j as [|j]; cbn [String.get] in G.
  - inversion G; subst c. rewrite Nat.add_0_r. destruct (dash_pos i); [now apply Ascii.eqb_eq|exact Ha].
  - replace (i + S j)%nat with (S i + j)%nat by lia. exact (IH (S i) Hr j c G).
Qed.

Lemma get_shape_from : forall s i,
  (forall j c, String.get j s = Some c -> if dash_pos (i + j) then c = dash else is_lower_hex c = true) ->
  shape_from i s = true.
Proof.
  induction s as [|a r IH]; intros i H; [reflexivity|].
  cbn [shape_from]. apply andb_true_intro. split.
  - specialize (H 0%nat a eq_refl). rewrite Nat.add_0_r in H. destruct (dash_pos i); [subst a; apply Ascii.eqb_refl|exact H].
  - apply IH. intros j c G. replace (S i + j)%nat with (i + S j)%nat by lia. apply H. exact G.
Qed.

(** the extracted boolean test is the Prop-level shape *)
Lemma uuid_shapeb_spec : forall s, uuid_shapeb s = true <-> uuid_shape s.
Proof.
  intros s. unfold uuid_shapeb, uuid_shape. split.
  - intros H. apply andb_prop in H. destruct H as [L S]. split; [now apply Nat.eqb_eq|].
    intros i c G. exact (shape_from_get s 0 S i c G).
  - intros [L S]. apply andb_true_intro. split; [now apply Nat.eqb_eq|].
    apply get_shape_from. exact S.
Qed.

(** EVERY list of 16 integers (in particular every one of the 2^128 byte strings) prints as 36 characters with
    dashes at 8, 13, 18, 23 and lower-case hex digits everywhere else.  Structure: the 16 positions are
    unfolded one by one; the two digits of each position are discharged by the finite sweep above. *)
Lemma uuid_wellformed_b : forall bs, List.length bs = 16%nat -> uuid_shapeb (uuid_to_string bs) = true.
Proof.
  intros bs H.
  do 16 (destruct bs as [|? bs]; [discriminate H|]). destruct bs; [|discriminate H].
  unfold uuid_shapeb, uuid_to_string.
  cbn [to_chars dash_after Nat.eqb orb String.length shape_from dash_pos andb].
  rewrite !to_char_hi_hex, !to_char_lo_hex. reflexivity.
Qed.

Theorem uuid_wellformed : forall bs, List.length bs = 16%nat -> uuid_shape (uuid_to_string bs).
Proof. intros bs H. apply uuid_shapeb_spec. now apply uuid_wellformed_b. Qed.

Lemma shape_looks : forall s, uuid_shape s -> looksLikeUUID s = true.
Proof.
  intros s [L S]. unfold looksLikeUUID. rewrite L. cbn [Nat.eqb andb].
  assert (D : forall i, (i < 36)%nat -> dash_pos i = true -> char_at s i dash = true).
  { intros i Hi Hd. unfold char_at. destruct (String.get i s) as [c|] eqn:G.
    - specialize (S i c G). rewrite Hd in S. subst c. apply Ascii.eqb_refl.
    - exfalso. clear -G L Hi. revert i G Hi. rewrite <- L. clear L.
      induction s as [|a r IH]; intros i G Hi; cbn in *; [lia|].
      destruct i; [discriminate|]. apply (IH i G). lia. }
  rewrite (D 8%nat), (D 13%nat), (D 18%nat), (D 23%nat) by (reflexivity || lia). reflexivity.
Qed.

Theorem looksLikeUUID_uuid_to_string : forall bs, List.length bs = 16%nat -> looksLikeUUID (uuid_to_string bs) = true.
Proof. intros bs H. apply shape_looks. now apply uuid_wellformed. Qed.

(** ** nothing is lost: the text reads back as the bytes *)

Definition hexpair (b : Z) : list ascii := [to_char (hi_nibble b); to_char (lo_nibble b)].

Lemma undash_to_chars : forall bs i, undash (to_chars i bs) = flat_map hexpair bs.
Proof.
  induction bs as [|b r IH]; intros i; [reflexivity|].
  cbn [to_chars undash flat_map hexpair app].
  rewrite to_char_hi_nodash, to_char_lo_nodash.
  destruct (dash_after i).
  - cbn [undash]. rewrite Ascii.eqb_refl. now rewrite IH.
  - now rewrite IH.
Qed.

Lemma unhex_pairs_hexpairs : forall bs, Forall (fun b => 0 <= b < 256) bs -> unhex_pairs (flat_map hexpair bs) = bs.
Proof.
  induction 1 as [|b r Hb Hr IH]; [reflexivity|].
  cbn [flat_map hexpair app unhex_pairs]. rewrite IH. f_equal.
  pose proof (byte_ok_all b Hb) as C. unfold byte_check in C.
  repeat (apply andb_prop in C; destruct C as [C ?]). lia.
Qed.

Theorem uuid_parse_to_string : forall bs, Forall (fun b => 0 <= b < 256) bs -> uuid_parse (uuid_to_string bs) = bs.
Proof. intros bs H. unfold uuid_parse, uuid_to_string. rewrite undash_to_chars. now apply unhex_pairs_hexpairs. Qed.

Theorem uuid_to_string_injective : forall a b,
  Forall (fun x => 0 <= x < 256) a -> Forall (fun x => 0 <= x < 256) b -> uuid_to_string a = uuid_to_string b -> a = b.
Proof. intros a b Ha Hb E. rewrite <- (uuid_parse_to_string a Ha), <- (uuid_parse_to_string b Hb). now rewrite E. Qed.

(** ** what createId returns is a well-formed version-4 uuid, whatever the engine yields *)

Lemma word_bytes_range : forall w, Forall (fun b => 0 <= b < 256) (word_bytes w).
Proof.
  intros w. unfold word_bytes. apply Forall_forall. intros b Hb. apply in_map_iff in Hb.
  destruct Hb as [i [E _]]. subst b. change 255 with (Z.ones 8). rewrite Z.land_ones by lia.
  change (2 ^ 8) with 256. apply Z.mod_pos_bound. lia.
Qed.

Lemma uuid_bytes_range : forall w0 w1, Forall (fun b => 0 <= b < 256) (uuid_bytes w0 w1).
Proof. intros. unfold uuid_bytes. apply Forall_app. split; apply word_bytes_range. Qed.

Lemma uuid_bytes_length : forall w0 w1, List.length (uuid_bytes w0 w1) = 16%nat.
Proof. intros. unfold uuid_bytes, word_bytes. rewrite app_length, !map_length, !seq_length. reflexivity. Qed.

Lemma upd_length : forall bs i f, List.length (upd i f bs) = List.length bs.
Proof. induction bs as [|b r IH]; intros [|i] f; cbn; auto. Qed.

Lemma set_vv_length : forall bs, List.length (set_vv bs) = List.length bs.
Proof. intros. unfold set_vv. now rewrite !upd_length. Qed.

Lemma masks_ok : forall b, 0 <= b < 256 ->
  (0 <= Z.lor (Z.land b 79) 64 < 256 /\ hi_nibble (Z.lor (Z.land b 79) 64) = 4) /\
  (0 <= Z.lor (Z.land b 191) 128 < 256 /\ 8 <= hi_nibble (Z.lor (Z.land b 191) 128) <= 11).
Proof.
  intros b Hb. pose proof (byte_ok_all b Hb) as C. unfold byte_check in C.
  repeat (apply andb_prop in C; destruct C as [C ?]). lia.
Qed.

Lemma set_vv_range : forall bs, Forall (fun b => 0 <= b < 256) bs -> Forall (fun b => 0 <= b < 256) (set_vv bs).
Proof.
  assert (U : forall f, (forall b, 0 <= b < 256 -> 0 <= f b < 256) ->
              forall bs i, Forall (fun b => 0 <= b < 256) bs -> Forall (fun b => 0 <= b < 256) (upd i f bs)).
  { intros f Hf. induction bs as [|b r IH]; intros [|i] H; cbn; auto; inversion H; subst; constructor; auto. }
  intros bs H. unfold set_vv. apply U; [intros b Hb; apply (masks_ok b Hb)|].
  apply U; [intros b Hb; apply (masks_ok b Hb)|exact H].
Qed.

Lemma to_char_values : to_char 4 = "4"%char /\ to_char 8 = "8"%char /\ to_char 9 = "9"%char /\ to_char 10 = "a"%char /\ to_char 11 = "b"%char.
Proof. vm_compute. repeat split. Qed.

(** version digit 4 at position 14, variant digit 8..b at position 19 *)
Theorem uuid_v4_of_set_vv : forall bs, List.length bs = 16%nat -> Forall (fun b => 0 <= b < 256) bs ->
  uuid_v4b (uuid_to_string (set_vv bs)) = true.
Proof.
  intros bs H R.
  do 16 (destruct bs as [|? bs]; [discriminate H|]). destruct bs; [|discriminate H].
  repeat match goal with R : Forall _ (_ :: _) |- _ => inversion R; clear R; subst end.
  unfold uuid_v4b, uuid_to_string, set_vv, char_at.
  cbn [upd to_chars dash_after Nat.eqb orb String.get].
  match goal with |- context [hi_nibble (Z.lor (Z.land ?b 79) 64)] => destruct (masks_ok b) as [[_ E4] _]; [assumption|rewrite E4] end.
  match goal with |- context [hi_nibble (Z.lor (Z.land ?b 191) 128)] =>
    destruct (masks_ok b) as [_ [_ E8]]; [assumption|]; set (v := hi_nibble (Z.lor (Z.land b 191) 128)) in * end.
  destruct to_char_values as [T4 [T8 [T9 [Ta Tb]]]]. rewrite T4. cbn [andb Ascii.eqb Bool.eqb].
  assert (Hv : v = 8 \/ v = 9 \/ v = 10 \/ v = 11) by lia.
  destruct Hv as [-> | [-> | [-> | ->]]]; [rewrite T8 | rewrite T9 | rewrite Ta | rewrite Tb]; reflexivity.
Qed.

Theorem uuid_of_words_wellformed : forall w0 w1, uuid_wellformedb (uuid_of_words w0 w1) = true.
Proof.
  intros w0 w1. unfold uuid_wellformedb, uuid_of_words. apply andb_true_intro. split.
  - apply uuid_wellformed_b. rewrite set_vv_length. apply uuid_bytes_length.
  - apply uuid_v4_of_set_vv; [apply uuid_bytes_length|apply uuid_bytes_range].
Qed.

Corollary uuid_of_words_looks : forall w0 w1, looksLikeUUID (uuid_of_words w0 w1) = true.
Proof.
  intros. apply shape_looks. apply uuid_shapeb_spec.
  pose proof (uuid_of_words_wellformed w0 w1) as H. unfold uuid_wellformedb in H. apply andb_prop in H. tauto.
Qed.

(* ------------------------------------------------------------------------------------------ *)
(** * B. histories *)

Lemma nodupb_spec : forall l, nodupb l = true <-> NoDup l.
Proof.
  induction l as [|x r IH]; cbn [nodupb]; [split; [constructor|reflexivity]|].
  rewrite andb_true_iff, negb_true_iff, IH. split.
  - intros [H1 H2]. constructor; [|exact H2]. intros Hin.
    assert (existsb (String.eqb x) r = true) as E by (apply existsb_exists; exists x; split; [exact Hin|apply String.eqb_refl]).
    congruence.
  - intros H. inversion H as [|? ? Hn Hr]; subst. split; [|exact Hr].
    destruct (existsb (String.eqb x) r) eqn:E; [|reflexivity].
    apply existsb_exists in E. destruct E as [y [Hy Ey]]. apply String.eqb_eq in Ey. subst y. contradiction.
Qed.

Lemma nodupb_false_dup : forall (x : string) l1 l2, In x l1 -> In x l2 -> nodupb (l1 ++ l2) = false.
Proof.
  intros x l1 l2 H1 H2. destruct (nodupb (l1 ++ l2)) eqn:E; [|reflexivity].
  apply nodupb_spec in E. exfalso. revert H1 E. induction l1 as [|a r IH]; intros H1 E; [contradiction|].
  cbn in E. inversion E as [|? ? Hn Hr]; subst. destruct H1 as [->|H1].
  - apply Hn. apply in_or_app. now right.
  - now apply IH.
Qed.

Lemma NoDup_map_inj_on : forall (A B : Type) (f : A -> B) (l : list A),
  (forall a b, In a l -> In b l -> f a = f b -> a = b) -> NoDup l -> NoDup (map f l).
Proof.
  intros A B f l. induction l as [|x r IH]; intros Hinj Hnd; [constructor|].
  inversion Hnd as [|? ? Hn Hr]; subst. cbn. constructor.
  - intros Hin. apply in_map_iff in Hin. destruct Hin as [y [Ey Hy]].
    assert (y = x) by (apply Hinj; [now right|now left|exact Ey]). subst y. contradiction.
  - apply IH; [|exact Hr]. intros a b Ha Hb. apply Hinj; now right.
Qed.

Arguments supply : simpl never.
Arguments uuid_of_words : simpl never.
Arguments uuid_wellformedb : simpl never.
Arguments seed_of : simpl never.

Section Histories.
  Variable gen : list Z -> nat -> Z.
  Variable beh : behaviour.

  Definition supd (d : list Z * nat) : string := supply gen (fst d) (snd d).

  (** the assumption about the engine, relative to the seeds that occur: different (seed, index) pairs
      give different ids *)
  Definition supply_injective_on (U : list (list Z)) : Prop :=
    forall s s' k k', In s U -> In s' U -> supply gen s k = supply gen s' k' -> s = s' /\ k = k'.

  (** ** every id is well-formed (no assumption on the engine) *)

  Definition wfs (s : string) : Prop := uuid_wellformedb s = true.
  Definition wf_ent (e : entity) : Prop := wfs (e_id e) /\ wfs (e_id0 e).
  Definition wf_state (st : state) : Prop :=
    wfs (st_file st) /\ Forall wf_ent (st_ents st) /\ Forall wfs (st_seen st).

  Lemma supply_wf : forall s k, wfs (supply gen s k).
  Proof. intros. apply uuid_of_words_wellformed. Qed.

  Lemma kill_forall : forall (P : entity -> Prop), (forall e, P e -> P (set_dead e)) ->
    forall es d, Forall P es -> Forall P (kill d es).
  Proof.
    intros P HP. induction es as [|e r IH]; intros d H; [constructor|].
    inversion H; subst. cbn [kill]. destruct (_ && _); constructor; auto.
  Qed.

  Lemma reidentify_forall : forall (P : entity -> Prop) o id, (forall e, P e -> P (set_id e id)) ->
    forall es, Forall P es -> Forall P (reidentify es o id).
  Proof.
    intros P o id HP es H. unfold reidentify. apply Forall_forall. intros x Hx.
    apply in_map_iff in Hx. destruct Hx as [e [E He]]. rewrite Forall_forall in H.
    subst x. destruct (Nat.eqb _ _); auto.
  Qed.

  Lemma create_wf : forall st k parent name ref, wf_state st -> wf_state (fst (create gen beh st k parent name ref)).
  Proof.
    intros st k parent name ref [Wf [We Ws]]. unfold create.
    destruct (negb (request_ok st k parent ref)); [now repeat split|].
    destruct (kind_eqb k KFrame && dup_frame_reidentifies beh).
    - cbn [draw fst snd]. destruct (negb (st_rw st)); [now repeat split|].
      destruct (find _ _) as [old|]; cbn [fst]; repeat split; cbn; auto.
      + apply reidentify_forall; [|exact We]. intros e [_ H0]. split; [apply supply_wf|exact H0].
      + constructor; [apply supply_wf|exact Ws].
      + apply Forall_app. split; [exact We|]. constructor; [|constructor]. split; apply supply_wf.
      + constructor; [apply supply_wf|exact Ws].
    - destruct (negb (kind_eqb k KFeature) && existsb _ _); [now repeat split|].
      cbn [draw fst snd]. destruct (st_rw st); cbn [fst]; repeat split; cbn; auto.
      + apply Forall_app. split; [exact We|]. constructor; [|constructor]. split; apply supply_wf.
      + constructor; [apply supply_wf|exact Ws].
  Qed.

  Lemma create_all_wf : forall names st k, wf_state st -> wf_state (fst (create_all gen beh st k names)).
  Proof.
    induction names as [|n r IH]; intros st k H; [exact H|].
    cbn [create_all]. pose proof (create_wf st k None n None H) as H1.
    destruct (create gen beh st k None n None) as [st1 ok1]. cbn [fst] in H1.
    specialize (IH st1 k H1). destruct (create_all gen beh st1 k r) as [st2 ok2]. exact IH.
  Qed.

  Lemma step_wf : forall st o, wf_state st -> wf_state (fst (step gen beh st o)).
  Proof.
    intros st o H. destruct o as [k parent name ref|x| |x|rw|t e k names|t e rw]; cbn [step].
    - now apply create_wf.
    - destruct (live_ent st x); [|exact H]. destruct (st_rw st); [|exact H].
      destruct H as [Wf [We Ws]]. repeat split; cbn; auto. apply kill_forall; [|exact We]. intros e0 He. exact He.
    - cbn [draw fst snd]. destruct H as [Wf [We Ws]]. destruct (st_rw st); cbn [fst]; repeat split; cbn; auto.
      + apply supply_wf.
      + constructor; [apply supply_wf|exact Ws].
    - destruct (live_ent st x); exact H.
    - exact H.
    - destruct (negb _); [exact H|].
      pose proof (create_all_wf names (with_rw (with_proc st (new_proc beh t e)) true) k H) as H1.
      destruct (create_all _ _ _ _ _) as [st1 ok]. exact H1.
    - exact H.
  Qed.

  Lemma new_file_wf : forall t e, wf_state (new_file gen beh t e).
  Proof. intros. repeat split; cbn; auto using supply_wf. Qed.

  Lemma run_from_wf : forall h st, wf_state st -> wf_state (run_from gen beh st h).
  Proof. induction h as [|o r IH]; intros st H; [exact H|]. cbn. apply IH. now apply step_wf. Qed.

  (** every id of every reachable state — the file's, every entity's (current and at creation), every id ever
      stored — is a well-formed version-4 uuid text and is recognised by [looksLikeUUID] *)
  Theorem all_ids_wellformed : forall t e h, wf_state (run gen beh t e h).
  Proof. intros. apply run_from_wf. apply new_file_wf. Qed.
End Histories.

(** ** an id never changes *)
Section Stability.
  Variable gen : list Z -> nat -> Z.
  Variable beh : behaviour.

  (** [e'] is the entity [e] at a later time: same ordinal, same id, same remembered id *)
  Definition keeps (e e' : entity) : Prop :=
    e_ord e' = e_ord e /\ e_id e' = e_id e /\ e_id0 e' = e_id0 e /\ e_kind e' = e_kind e /\ e_name e' = e_name e.

  Lemma keeps_refl : forall e, keeps e e.
  Proof. intros; repeat split. Qed.
  Lemma keeps_trans : forall a b c, keeps a b -> keeps b c -> keeps a c.
  Proof. unfold keeps. intros a b c H1 H2. intuition congruence. Qed.

  Lemma kill_in : forall es d e, In e es -> In e (kill d es) \/ In (set_dead e) (kill d es).
  Proof.
    induction es as [|x r IH]; intros d e H; [contradiction|].
    cbn [kill]. destruct H as [->|H].
    - destruct (_ && _); [right|left]; now left.
    - destruct (_ && _); [destruct (IH (e_ord x :: d) e H) as [H1|H1]|destruct (IH d e H) as [H1|H1]];
        [left|right|left|right]; now right.
  Qed.

  Definition stable_step (st st' : state) : Prop :=
    forall e, In e (st_ents st) -> exists e', In e' (st_ents st') /\ keeps e e'.

  Lemma stable_refl : forall st, stable_step st st.
  Proof. intros st e H. exists e. split; [exact H|apply keeps_refl]. Qed.
  Lemma stable_trans : forall a b c, stable_step a b -> stable_step b c -> stable_step a c.
  Proof.
    intros a b c H1 H2 e He. destruct (H1 e He) as [e1 [I1 K1]]. destruct (H2 e1 I1) as [e2 [I2 K2]].
    exists e2. split; [exact I2|exact (keeps_trans _ _ _ K1 K2)].
  Qed.

  (** where the repaired library differs: no operation rewrites an entity_id *)
  Hypothesis NR : dup_frame_reidentifies beh = false.

  Lemma create_stable : forall st k parent name ref, stable_step st (fst (create gen beh st k parent name ref)).
  Proof.
    intros st k parent name ref. unfold create. rewrite NR, andb_false_r.
    destruct (negb (request_ok st k parent ref)); [apply stable_refl|].
    destruct (negb (kind_eqb k KFeature) && existsb _ _); [apply stable_refl|].
    cbn [draw fst snd]. destruct (st_rw st); cbn [fst]; intros e He; exists e; (split; [|apply keeps_refl]); cbn.
    - apply in_or_app. now left.
    - exact He.
  Qed.

  Lemma create_all_stable : forall names st k, stable_step st (fst (create_all gen beh st k names)).
  Proof.
    induction names as [|n r IH]; intros st k; [apply stable_refl|].
    cbn [create_all]. pose proof (create_stable st k None n None) as H1.
    destruct (create gen beh st k None n None) as [st1 ok1]. cbn [fst] in H1.
    specialize (IH st1 k). destruct (create_all gen beh st1 k r) as [st2 ok2]. cbn [fst] in *.
    exact (stable_trans _ _ _ H1 IH).
  Qed.

  Lemma step_stable : forall st o, stable_step st (fst (step gen beh st o)).
  Proof.
    intros st o. destruct o as [k parent name ref|x| |x|rw|t e k names|t e rw]; cbn [step].
    - apply create_stable.
    - destruct (live_ent st x); [|apply stable_refl]. destruct (st_rw st); [|apply stable_refl].
      intros e0 He. cbn. destruct (kill_in _ [x] e0 He) as [H|H].
      + exists e0. split; [exact H|apply keeps_refl].
      + exists (set_dead e0). split; [exact H|repeat split].
    - cbn [draw fst snd]. destruct (st_rw st); cbn [fst]; intros e0 He; exists e0; (split; [exact He|apply keeps_refl]).
    - destruct (live_ent st x); apply stable_refl.
    - intros e0 He; exists e0; (split; [exact He|apply keeps_refl]).
    - destruct (negb _); [apply stable_refl|].
      pose proof (create_all_stable names (with_rw (with_proc st (new_proc beh t e)) true) k) as H1.
      destruct (create_all _ _ _ _ _) as [st1 ok]. cbn [fst] in *.
      intros e0 He. destruct (H1 e0 He) as [e1 [I1 K1]]. exists e1. split; [exact I1|exact K1].
    - intros e0 He; exists e0; (split; [exact He|apply keeps_refl]).
  Qed.

  Lemma run_from_stable : forall h st, stable_step st (run_from gen beh st h).
  Proof.
    induction h as [|o r IH]; intros st; [apply stable_refl|]. cbn.
    exact (stable_trans _ _ _ (step_stable st o) (IH _)).
  Qed.

  Lemma run_from_app : forall h1 h2 st, run_from gen beh st (h1 ++ h2) = run_from gen beh (run_from gen beh st h1) h2.
  Proof. intros. unfold run_from. apply fold_left_app. Qed.

  (** whatever happens after an entity has been created — any operations, by any processes, in any number of
      sessions — the entity (alive or deleted) still carries the id it had *)
  Theorem id_never_changes : forall t e h1 h2 x,
    In x (st_ents (run gen beh t e h1)) ->
    exists x', In x' (st_ents (run gen beh t e (h1 ++ h2))) /\ e_ord x' = e_ord x /\ e_id x' = e_id x.
  Proof.
    intros t e h1 h2 x Hx. unfold run in *. rewrite run_from_app.
    destruct (run_from_stable h2 _ x Hx) as [x' [I K]]. exists x'. split; [exact I|]. destruct K as [K1 [K2 _]]. now split.
  Qed.

  (** the id an entity carries is the one it was created with *)
  Definition ids_as_created (st : state) : Prop := Forall (fun e => e_id e = e_id0 e) (st_ents st).

  Lemma create_as_created : forall st k parent name ref, ids_as_created st -> ids_as_created (fst (create gen beh st k parent name ref)).
  Proof.
    intros st k parent name ref H. unfold create. rewrite NR, andb_false_r.
    destruct (negb (request_ok st k parent ref)); [exact H|].
    destruct (negb (kind_eqb k KFeature) && existsb _ _); [exact H|].
    cbn [draw fst snd]. destruct (st_rw st); cbn [fst]; unfold ids_as_created; cbn; [|exact H].
    apply Forall_app. split; [exact H|]. constructor; [reflexivity|constructor].
  Qed.

  Lemma create_all_as_created : forall names st k, ids_as_created st -> ids_as_created (fst (create_all gen beh st k names)).
  Proof.
    induction names as [|n r IH]; intros st k H; [exact H|].
    cbn [create_all]. pose proof (create_as_created st k None n None H) as H1.
    destruct (create gen beh st k None n None) as [st1 ok1]. cbn [fst] in H1.
    specialize (IH st1 k H1). destruct (create_all gen beh st1 k r) as [st2 ok2]. exact IH.
  Qed.

  Lemma step_as_created : forall st o, ids_as_created st -> ids_as_created (fst (step gen beh st o)).
  Proof.
    intros st o H. destruct o as [k parent name ref|x| |x|rw|t e k names|t e rw]; cbn [step].
    - now apply create_as_created.
    - destruct (live_ent st x); [|exact H]. destruct (st_rw st); [|exact H].
      unfold ids_as_created. cbn. apply (kill_forall (fun e => e_id e = e_id0 e)); [|exact H]. intros e0 He. exact He.
    - cbn [draw fst snd]. destruct (st_rw st); exact H.
    - destruct (live_ent st x); exact H.
    - exact H.
    - destruct (negb _); [exact H|].
      pose proof (create_all_as_created names (with_rw (with_proc st (new_proc beh t e)) true) k H) as H1.
      destruct (create_all _ _ _ _ _) as [st1 ok]. exact H1.
    - exact H.
  Qed.

  Theorem ids_stay_as_created : forall t e h, ids_as_created (run gen beh t e h).
  Proof.
    intros t e h. unfold run. assert (G : forall h st, ids_as_created st -> ids_as_created (run_from gen beh st h)).
    { induction h0 as [|o r IH]; intros st H; [exact H|]. cbn. apply IH. now apply step_as_created. }
    apply G. constructor.
  Qed.
End Stability.

(** the file's id changes by forceId and by nothing else (whatever the behaviour) *)
Section FileId.
  Variable gen : list Z -> nat -> Z.
  Variable beh : behaviour.

  Lemma create_file : forall st k parent name ref, st_file (fst (create gen beh st k parent name ref)) = st_file st.
  Proof.
    intros. unfold create. destruct (negb (request_ok _ _ _ _)); [reflexivity|].
    destruct (_ && dup_frame_reidentifies beh).
    - cbn [draw fst snd]. destruct (negb (st_rw st)); [reflexivity|]. destruct (find _ _); reflexivity.
    - destruct (_ && existsb _ _); [reflexivity|]. cbn [draw fst snd]. destruct (st_rw st); reflexivity.
  Qed.

  Lemma create_all_file : forall names st k, st_file (fst (create_all gen beh st k names)) = st_file st.
  Proof.
    induction names as [|n r IH]; intros st k; [reflexivity|].
    cbn [create_all]. pose proof (create_file st k None n None) as H1.
    destruct (create gen beh st k None n None) as [st1 ok1]. cbn [fst] in H1.
    specialize (IH st1 k). destruct (create_all gen beh st1 k r) as [st2 ok2]. cbn [fst] in *. congruence.
  Qed.

  Theorem file_id_changes_only_by_forceId : forall st o, o <> OForceId -> st_file (fst (step gen beh st o)) = st_file st.
  Proof.
    intros st o H. destruct o as [k parent name ref|x| |x|rw|t e k names|t e rw]; cbn [step]; try reflexivity.
    - apply create_file.
    - destruct (live_ent st x); [|reflexivity]. destruct (st_rw st); reflexivity.
    - contradiction.
    - destruct (live_ent st x); reflexivity.
    - destruct (negb _); [reflexivity|].
      pose proof (create_all_file names (with_rw (with_proc st (new_proc beh t e)) true) k) as H1.
      destruct (create_all _ _ _ _ _) as [st1 ok]. cbn [fst] in *. exact H1.
  Qed.
End FileId.

(** ** ids are pairwise distinct, given an injective supply *)
Section Uniqueness.
  Variable gen : list Z -> nat -> Z.
  Variable beh : behaviour.
  (** all seeds that occur in the history under consideration, and the assumption about the engine *)
  Variable U : list (list Z).
  Hypothesis INJ : supply_injective_on gen U.

  Notation sd := (supd gen).

  (** the bookkeeping of draws: [Q] the seeds used so far, [R] a suspended process (the owner of the file while
      another process works on it) *)
  Record DI (Q : list (list Z)) (R : option proc) (draws : list (list Z * nat)) (cur : proc) (seen : list string) : Prop := {
    d_QU : incl Q U;
    d_nd : NoDup draws;
    d_cur : forall k, In (p_seed cur, k) draws -> (k < p_next cur)%nat;
    d_Q : forall d, In d draws -> In (fst d) Q;
    d_curQ : In (p_seed cur) Q;
    d_R : match R with
          | None => True
          | Some p => In (p_seed p) Q /\ p_seed p <> p_seed cur /\ forall k, In (p_seed p, k) draws -> (k < p_next p)%nat
          end;
    d_seen : exists D, seen = map sd D /\ NoDup D /\ incl D draws
  }.

  Definition holders (ents : list entity) (file : string) : list string := file :: map e_id ents.

  Record HI (ents : list entity) (next : nat) (file : string) (seen : list string) : Prop := {
    h_ord : NoDup (map e_ord ents);
    h_lt : forall e, In e ents -> (e_ord e < next)%nat;
    h_nd : NoDup (holders ents file);
    h_in : incl (holders ents file) seen
  }.

  Definition Inv (Q : list (list Z)) (R : option proc) (st : state) : Prop :=
    DI Q R (st_draws st) (st_proc st) (st_seen st) /\ HI (st_ents st) (st_next st) (st_file st) (st_seen st).

  Lemma di_seen_nodup : forall Q R draws cur seen, DI Q R draws cur seen -> NoDup seen.
  Proof.
    intros Q R draws cur seen H. destruct (d_seen _ _ _ _ _ H) as [D [E [ND IN]]]. subst seen.
    apply NoDup_map_inj_on; [|exact ND]. intros [s k] [s' k'] Ha Hb E.
    assert (In s U) by (apply (d_QU _ _ _ _ _ H); apply (d_Q _ _ _ _ _ H (s, k)); auto).
    assert (In s' U) by (apply (d_QU _ _ _ _ _ H); apply (d_Q _ _ _ _ _ H (s', k')); auto).
    destruct (INJ s s' k k') as [-> ->]; auto.
  Qed.

  (** the id about to be drawn has never been stored *)
  Lemma di_fresh : forall Q R draws cur seen, DI Q R draws cur seen -> ~ In (supply gen (p_seed cur) (p_next cur)) seen.
  Proof.
    intros Q R draws cur seen H Hin. destruct (d_seen _ _ _ _ _ H) as [D [E [ND IN]]]. subst seen.
    apply in_map_iff in Hin. destruct Hin as [[s k] [E Hd]]. unfold supd in E. cbn [fst snd] in E.
    assert (In s U) by (apply (d_QU _ _ _ _ _ H); apply (d_Q _ _ _ _ _ H (s, k)); auto).
    assert (In (p_seed cur) U) by (apply (d_QU _ _ _ _ _ H); apply (d_curQ _ _ _ _ _ H)).
    destruct (INJ s (p_seed cur) k (p_next cur)) as [-> ->]; auto.
    pose proof (d_cur _ _ _ _ _ H _ (IN _ Hd)). lia.
  Qed.

  (** one createId call whose result is thrown away *)
  Lemma di_draw : forall Q R draws cur seen, DI Q R draws cur seen ->
    DI Q R ((p_seed cur, p_next cur) :: draws) (mkProc (p_seed cur) (S (p_next cur))) seen.
  Proof.
    intros Q R draws cur seen H. constructor; cbn [p_seed p_next].
    - exact (d_QU _ _ _ _ _ H).
    - constructor; [|exact (d_nd _ _ _ _ _ H)]. intros Hin. pose proof (d_cur _ _ _ _ _ H _ Hin). lia.
    - intros k [E|Hin]; [inversion E; lia|]. pose proof (d_cur _ _ _ _ _ H _ Hin). lia.
    - intros d [<-|Hin]; [exact (d_curQ _ _ _ _ _ H)|exact (d_Q _ _ _ _ _ H d Hin)].
    - exact (d_curQ _ _ _ _ _ H).
    - pose proof (d_R _ _ _ _ _ H) as HR. destruct R as [p|]; [|exact I]. destruct HR as [R1 [R2 R3]].
      split; [exact R1|]. split; [exact R2|]. intros k [E|Hin]; [inversion E; congruence|auto].
    - destruct (d_seen _ _ _ _ _ H) as [D [E [ND IN]]]. exists D. split; [exact E|]. split; [exact ND|].
      intros d Hd. right. auto.
  Qed.

  (** one createId call whose result is stored *)
  Lemma di_push : forall Q R draws cur seen, DI Q R draws cur seen ->
    DI Q R ((p_seed cur, p_next cur) :: draws) (mkProc (p_seed cur) (S (p_next cur)))
       (supply gen (p_seed cur) (p_next cur) :: seen).
  Proof.
    intros Q R draws cur seen H. pose proof (di_draw _ _ _ _ _ H) as H1.
    constructor; try (destruct H1; assumption).
    destruct (d_seen _ _ _ _ _ H) as [D [E [ND IN]]]. exists ((p_seed cur, p_next cur) :: D). split; [|split].
    - cbn [map]. now rewrite E.
    - constructor; [|exact ND]. intros Hin. pose proof (d_cur _ _ _ _ _ H _ (IN _ Hin)). lia.
    - intros d [<-|Hd]; [now left|right; auto].
  Qed.

  (* ---- holders ---- *)

  Lemma hi_seen : forall ents next file seen id, HI ents next file seen -> HI ents next file (id :: seen).
  Proof.
    intros ents next file seen id [A B C D]. constructor; auto. intros x Hx. right. auto.
  Qed.

  Lemma hi_add : forall ents next file seen k parent name id, HI ents next file seen -> ~ In id seen ->
    HI (ents ++ [mkEnt next k parent name id id true]) (S next) file (id :: seen).
  Proof.
    intros ents next file seen k parent name id [A B C D] F. constructor.
    - rewrite map_app. cbn [map e_ord]. apply NoDup_app_snoc; [exact A|].
      intros Hin. apply in_map_iff in Hin. destruct Hin as [e0 [E He]]. specialize (B e0 He). lia.
    - intros e0 He. apply in_app_or in He. destruct He as [He|[<-|[]]]; [specialize (B e0 He); lia|cbn; lia].
    - unfold holders in *. rewrite map_app. cbn [map e_id].
      change (file :: map e_id ents ++ [id]) with ((file :: map e_id ents) ++ [id]).
      apply NoDup_app_snoc; [exact C|]. intros Hin. apply F. apply D. exact Hin.
    - unfold holders in *. rewrite map_app. cbn [map e_id]. intros x [<-|Hx].
      + right. apply D. now left.
      + apply in_app_or in Hx. destruct Hx as [Hx|[<-|[]]]; [right; apply D; now right|now left].
  Qed.

  Lemma hi_file : forall ents next file seen id, HI ents next file seen -> ~ In id seen -> HI ents next id (id :: seen).
  Proof.
    intros ents next file seen id [A B C D] F. constructor; auto.
    - unfold holders in *. inversion C as [|? ? Cn Cr]; subst. constructor; [|exact Cr].
      intros Hin. apply F. apply D. now right.
    - unfold holders in *. intros x [<-|Hx]; [now left|right; apply D; now right].
  Qed.

  Lemma hi_kill : forall ents next file seen d, HI ents next file seen -> HI (kill d ents) next file seen.
  Proof.
    intros ents next file seen d [A B C D].
    assert (Eo : forall es d, map e_ord (kill d es) = map e_ord es).
    { induction es as [|x r IH]; intros d0; [reflexivity|]. cbn [kill]. destruct (_ && _); cbn [map]; now rewrite IH. }
    assert (Ei : forall es d, map e_id (kill d es) = map e_id es).
    { induction es as [|x r IH]; intros d0; [reflexivity|]. cbn [kill]. destruct (_ && _); cbn [map]; now rewrite IH. }
    constructor.
    - now rewrite Eo.
    - intros e0 He. assert (In (e_ord e0) (map e_ord (kill d ents))) as Hin by (apply in_map; exact He).
      rewrite Eo in Hin. apply in_map_iff in Hin. destruct Hin as [e1 [E1 H1]]. rewrite <- E1. auto.
    - unfold holders. now rewrite Ei.
    - unfold holders. now rewrite Ei.
  Qed.

  Lemma reidentify_ords : forall es o id, map e_ord (reidentify es o id) = map e_ord es.
  Proof. intros. unfold reidentify. rewrite map_map. apply map_ext. intros e. destruct (Nat.eqb _ _); reflexivity. Qed.

  (** replacing the id of the one entity with ordinal [o] by a fresh id *)
  Lemma reidentify_ids : forall es o id, NoDup (map e_ord es) ->
    (forall x, In x (map e_id (reidentify es o id)) -> x = id \/ In x (map e_id es)) /\
    (forall l, NoDup (l ++ map e_id es) -> ~ In id (l ++ map e_id es) -> NoDup (l ++ map e_id (reidentify es o id))).
  Proof.
    induction es as [|e r IH]; intros o id ND; [split; [intros x []|intros l H _; exact H]|].
    cbn [map] in ND. inversion ND as [|? ? Hn Hr]; subst. destruct (IH o id Hr) as [IH1 IH2]. split.
    - intros x Hx. cbn [reidentify map] in Hx. destruct Hx as [Hx|Hx].
      + destruct (Nat.eqb (e_ord e) o); cbn in Hx; [now left|right; now left].
      + destruct (IH1 x Hx) as [?|?]; [now left|right; now right].
    - intros l H F. cbn [reidentify map]. destruct (Nat.eqb (e_ord e) o) eqn:Eo.
      + (* this one is replaced; the rest is untouched *)
        apply Nat.eqb_eq in Eo.
        assert (Er : map (fun e0 => if Nat.eqb (e_ord e0) o then set_id e0 id else e0) r = r).
        { rewrite <- (map_id r) at 2. apply map_ext_in. intros a Ha. destruct (Nat.eqb (e_ord a) o) eqn:Ea; [|reflexivity].
          apply Nat.eqb_eq in Ea. exfalso. apply Hn. rewrite Eo, <- Ea. now apply in_map. }
        unfold reidentify in *. rewrite Er. cbn [set_id e_id].
        cbn [map] in H, F. apply NoDup_remove in H. destruct H as [H1 H2].
        apply NoDup_app_mid; [exact H1|]. intros Hin. apply F. apply in_app_or in Hin. apply in_or_app.
        destruct Hin; [now left|right; now right].
      + cbn [map] in H, F.
        replace (l ++ e_id e :: map e_id (reidentify r o id)) with ((l ++ [e_id e]) ++ map e_id (reidentify r o id))
          by (rewrite <- app_assoc; reflexivity).
        apply IH2; rewrite <- app_assoc; cbn [app]; assumption.
  Qed.
End Uniqueness.
