(** The script interpreter of the C09 / C11 model drivers (extracted; no theorem is stated about this file,
    it only composes the models of [Modes.v] and [Close.v] over the small tree of [Tree.v] and formats
    their answers).  One command = one line of the case file = one answer, optionally with the
    specification's answer next to it (see tools/FRAMEWORK.md). *)
From Coq Require Import ZArith Bool String List Lia.
Require Import NixV.Base.Prelude NixV.Gen.GenVersion NixV.Gen.GenTables NixV.FileIO.Version
               NixV.FileIO.Modes NixV.FileIO.Close NixV.FileIO.Tree.
Import ListNotations.
Local Open Scope string_scope.
Local Open Scope Z_scope.

(** ---- mutators ---------------------------------------------------------------------------------- *)
Inductive smut := MContent (op : top) | MNamed (name : string).

(** the named mutators of the public API (harness/fileio_tables.hpp) act outside the small tree *)
Definition s_apply (m : smut) (t : tree) : res (tree * Z) :=
  match m with MContent op => tree_apply op t | MNamed _ => Ok (t, 0) end.

(** Mutators whose only HDF5 write is [H5Group::removeGroup] (read off backend/hdf5):
    EntityWithSourcesHDF5::removeSource, DataArrayHDF5::deleteDimensions, BaseTagHDF5::removeReference /
    deleteFeature, GroupHDF5::removeEntity *)
Definition unlink_only_names : list string :=
  [ "DataArray.removeSource.handle"; "DataArray.removeSource.id"; "DataArray.deleteDimensions";
    "DataFrame.removeSource"; "Tag.removeSource"; "Tag.removeReference.handle"; "Tag.removeReference.id";
    "Tag.deleteFeature.id"; "Tag.deleteFeature.handle"; "MultiTag.removeSource";
    "MultiTag.removeReference.name"; "MultiTag.removeReference.handle"; "MultiTag.deleteFeature.id";
    "MultiTag.deleteFeature.handle"; "Group.removeSource"; "Group.removeDataArray.handle";
    "Group.removeDataArray.name"; "Group.removeDataFrame.handle"; "Group.removeDataFrame.name";
    "Group.removeTag.handle"; "Group.removeTag.name"; "Group.removeMultiTag.handle"; "Group.removeMultiTag.name" ].
(** ... and those that first empty a container with `while (count() > 0) remove(first)`:
    EntityWithSourcesHDF5::sources(vector), BaseTagHDF5::references(vector), Group::replaceEntities *)
Definition unlink_loop_names : list string :=
  [ "DataArray.sources.vector"; "Tag.references.vector"; "MultiTag.references.vector"; "Group.dataArrays.vector";
    "Group.dataFrames.vector"; "Group.tags.vector"; "Group.multiTags.vector" ].

Definition mem (n : string) (l : list string) : bool := existsb (String.eqb n) l.

Definition s_cls (m : smut) : mclass :=
  match m with
  | MContent _ => MChecked
  | MNamed n => if mem n unlink_only_names then MUnlinkOnly
                else if mem n unlink_loop_names then MUnlinkLoop else MChecked
  end.

(** ---- state ------------------------------------------------------------------------------------------ *)
Definition the_path : string := "case.nix".

Record point := mkPoint { pt_close : bool; pt_seen : tree; pt_disk : option tree }.

Record sstate := mkS {
  x_fs : fsys tree;
  x_sess : option (session tree);
  x_h : hstate;                              (* HDF5 ids of the file the session has open + the references client handles hold *)
  x_held : list (string * list Z);           (* per handle kind: the object id each live handle refers to *)
  x_snap : option tree;                      (* `snap` *)
  x_mutated : bool;                          (* a mutation may have happened since `snap` *)
  x_sha : option (option (fcontent tree));   (* `sha0` *)
  x_written : bool;                          (* the path may have been written since `sha0` *)
  x_points : list point                      (* crash points of the history (every flush / close of an open session) *)
}.

Definition no_file : fsys tree := fun _ => None.
Definition init : sstate := mkS no_file None opened [] None true None true [].

(** a fresh [FileHDF5] in the same process: HDF5 never re-uses ids *)
Definition open_ids_at (h : hstate) : hstate :=
  let n := nxt h in
  mkH [mkEntry n KFile 1; mkEntry (n + 1) KGroup 1; mkEntry (n + 2) KGroup 1; mkEntry (n + 3) KGroup 1]
      (n + 4) (mkFobj n (n + 1) (n + 2) (n + 3)) (pop h).

(** ---- answers ------------------------------------------------------------------------------------------ *)
Inductive atom := AStr (s : string) | AKV (k : string) (z : Z) | ANum (z : Z) | ATree (t : tree).
Inductive answer := AnsOk (l : list atom) | AnsErr.
Inductive spec := SameAsModel | Spec (a : answer) | AnyAnswer.

(** header damage done through the HDF5 C API on the closed file *)
Inductive hdefect :=
| DNoFormat | DFormat (s : string)       (* format attribute deleted / set to that string *)
| DNoVersion | DVersion (v : list Z)     (* version attribute deleted / set to that vector *)
| DNoId.
Definition damage (h : header) (d : hdefect) : header :=
  match d with
  | DNoFormat => {| h_format := None; h_version := h_version h; h_id := h_id h |}
  | DFormat s => {| h_format := Some s; h_version := h_version h; h_id := h_id h |}
  | DNoVersion => {| h_format := h_format h; h_version := None; h_id := h_id h |}
  | DVersion v => {| h_format := h_format h; h_version := Some v; h_id := h_id h |}
  | DNoId => {| h_format := h_format h; h_version := h_version h; h_id := None |}
  end.

Inductive cmd :=
| CFs (variant : string)
| CHdr (name : string) (d : hdefect)
| COpen (mode : FileMode) (comp : Compression) (force : bool)
| CContent (name : string) (op : top)
| CDump | CSnap | CCmp | CSha0 | CShaQ
| CRoMut (name : string) (comp : Compression) (force : bool) (unlink_checked : bool)
| CRwMut (name : string)
| CNoMut (name : string) (ro : bool)
| CMutIn (name : string) (unlink_checked : bool)
| CBattery | CFlush | CClose
| CHold (kind : string) (n : nat)
| CDrop (kind : string) (n : nat)
| CStale (name : string) (touch : bool) (kind : string)
| CKillrun.

Definition mode_name (m : FileMode) : string := match m with ReadOnly => "ro" | ReadWrite => "rw" | Overwrite => "ow" end.
Definition comp_name (c : Compression) : string := match c with CompNone => "none" | CompDeflate => "deflate" | CompAuto => "auto" end.

Definition status (h : hstate) : list atom :=
  [AKV "attrs" (open_attrs h); AKV "fileref" (Z.of_nat (get_ref (tab h) (fid (fo h))))].

Definition blank_header : header := {| h_format := None; h_version := None; h_id := None |}.

Definition prior_of (variant : string) : option (option (fcontent tree)) :=
  if String.eqb variant "missing" then Some None
  else if String.eqb variant "nonh5" then Some (Some NotH5)
  else if String.eqb variant "empty" then Some (Some EmptyFile)
  else if String.eqb variant "plainh5" then Some (Some (H5 (mkH5 tree blank_header false false false false empty_tree)))
  else if String.eqb variant "lib" then Some (Some (H5 (mkH5 tree lib_header true true true true empty_tree)))
  else None.

(** equality of what a path holds (content level: the model's notion of "the same bytes") *)
Definition opt_eqb {A} (e : A -> A -> bool) (a b : option A) : bool :=
  match a, b with Some x, Some y => e x y | None, None => true | _, _ => false end.
Definition header_eqb (a b : header) : bool :=
  opt_eqb String.eqb (h_format a) (h_format b) && opt_eqb zlist_eqb (h_version a) (h_version b) &&
  opt_eqb String.eqb (h_id a) (h_id b).
Definition h5file_eqb (a b : h5file tree) : bool :=
  header_eqb (f_hdr _ a) (f_hdr _ b) && Bool.eqb (f_meta _ a) (f_meta _ b) && Bool.eqb (f_data _ a) (f_data _ b) &&
  Bool.eqb (f_cat _ a) (f_cat _ b) && Bool.eqb (f_uat _ a) (f_uat _ b) && tree_eqb (f_tree _ a) (f_tree _ b).
Definition fcontent_eqb (a b : fcontent tree) : bool :=
  match a, b with NotH5, NotH5 => true | EmptyFile, EmptyFile => true | H5 x, H5 y => h5file_eqb x y | _, _ => false end.

Definition held_of (l : list (string * list Z)) (k : string) : list Z :=
  match find (fun p => String.eqb (fst p) k) l with Some p => snd p | None => [] end.
Definition set_held (l : list (string * list Z)) (k : string) (v : list Z) : list (string * list Z) :=
  (k, v) :: filter (fun p => negb (String.eqb (fst p) k)) l.
Definition held_total (l : list (string * list Z)) : Z := fold_left (fun a p => a + zlen (snd p)) l 0.

(** which HDF5 object a handle of a kind keeps open: a Property is a dataset, everything else a group *)
Definition okind_of (kind : string) : okind := if String.eqb kind "property" then ODataset else OGroup.

Fixpoint hold_n (h : hstate) (kind : string) (have : list Z) (i n : nat) : hstate * list Z :=
  match n with
  | O => (h, have)
  | S n' =>
      let copy := Nat.eqb (Nat.modulo i 3) 2 in
      if String.eqb kind "file" then hold_n h kind (fid (fo h) :: have) (S i) n'      (* a File copy shares the FileHDF5 object *)
      else match (if copy then have else []) with
           | last :: _ => hold_n (fst (hstep h (HCopy last))) kind (last :: have) (S i) n'
           | [] => let '(h1, r) := hstep h (HOpen (okind_of kind)) in
                   match r with
                   | Ok id => hold_n h1 kind (id :: have) (S i) n'
                   | _ => (h1, have)
                   end
           end
  end.

Fixpoint drop_n (h : hstate) (kind : string) (have : list Z) (n : nat) : hstate * list Z :=
  match n, have with
  | S n', id :: r => drop_n (if String.eqb kind "file" then h else fst (hstep h (HDrop id))) kind r n'
  | _, _ => (h, have)
  end.

Definition all_fail (h : hstate) (l : list Z) : bool :=
  forallb (fun id => match snd (hstep h (HCall id)) with Err _ => true | _ => false end) l.
Definition all_ok (h : hstate) (l : list Z) : bool :=
  forallb (fun id => match snd (hstep h (HCall id)) with Ok _ => true | _ => false end) l.

Definition tree_of (s : fsys tree) : option tree :=
  match s the_path with Some (H5 f) => Some (f_tree _ f) | _ => None end.

Definition counts (t : tree) : list atom := [AKV "blocks" (n_blocks t); AKV "sections" (n_sections t)].

Definition same_or_diff (same : bool) (what : string) : atom :=
  AStr (what ++ (if same then "same" else "DIFF")).

(** the rows of `killrun`: what the reopening process must see at each crash point *)
Definition point_atoms (p : point) : list atom :=
  let ok := match pt_disk p with Some d => tree_eqb d (pt_seen p) | None => false end in
  [AStr "|"; AStr (if pt_close p then "close" else "flush");
   AStr (if pt_close p then (if ok then "live-rw=same" else "live-rw=DIFF") else "live-rw=-");
   AStr (if ok then "ro=same" else "ro=DIFF"); AStr (if ok then "rw=same" else "rw=DIFF"); AStr "ow=empty"] ++
  match pt_disk p with Some d => [ATree d] | None => [AStr "NOFILE"] end.

Definition with_sess (st : sstate) (k : session tree -> sstate * answer * spec) : sstate * answer * spec :=
  match x_sess st with
  | Some ss => k ss
  | None => (st, AnsErr, SameAsModel)        (* the front end throws UninitializedEntity on a closed File *)
  end.

Definition upd_st (st : sstate) fs sess h held snap mutated sha written points : sstate :=
  mkS fs sess h held snap mutated sha written points.

Definition sstep (st : sstate) (c : cmd) : sstate * answer * spec :=
  match c with
  | CFs v =>
      match prior_of v with
      | Some prior =>
          (mkS (fun p => if String.eqb p the_path then prior else None) None
               (mkH [] (nxt (x_h st)) (mkFobj invalid_hid invalid_hid invalid_hid invalid_hid) [])
               [] None true None true [],
           AnsOk [AStr v], SameAsModel)
      | None => (st, AnsErr, SameAsModel)
      end
  | CHdr name d =>
      match x_fs st the_path with
      | Some (H5 f) =>
          (mkS (upd tree (x_fs st) the_path (H5 (mkH5 tree (damage (f_hdr _ f) d) (f_meta _ f) (f_data _ f) (f_cat _ f) (f_uat _ f) (f_tree _ f))))
               (x_sess st) (x_h st) (x_held st) (x_snap st) true (x_sha st) true (x_points st),
           AnsOk [AStr name], SameAsModel)
      | _ => (st, AnsErr, SameAsModel)
      end
  | COpen mode comp force =>
      match x_sess st with
      | Some _ => (st, AnsErr, SameAsModel)
      | None =>
          let prior := x_fs st the_path in
          let sp := open_spec tree empty_tree prior mode force in
          let line (eff : FileMode) (t : tree) (h : hstate) :=
            AnsOk ([AStr ("mode=" ++ mode_name eff); AStr ("comp=" ++ comp_name (resolve_comp comp))] ++ counts t ++ status h) in
          let spec_ans := match sp with
                          | SpecRefuse => Spec AnsErr
                          | SpecOpen eff t => Spec (line eff t opened)
                          | SpecAny => AnyAnswer
                          end in
          match file_open_fs tree empty_tree (x_fs st) the_path mode comp force with
          | (fs', Ok ss) =>
              let h := open_ids_at (x_h st) in
              (mkS fs' (Some ss) h (x_held st) (x_snap st) (x_mutated st || is_ow (s_mode _ ss)) (x_sha st)
                   (x_written st || negb (is_ro mode)) (x_points st),
               line (s_mode _ ss) (f_tree _ (s_img _ ss)) h, spec_ans)
          | (fs', _) =>
              (mkS fs' None (x_h st) (x_held st) (x_snap st) (x_mutated st) (x_sha st) (x_written st || negb (is_ro mode)) (x_points st),
               AnsErr, spec_ans)
          end
      end
  | CContent name op =>
      with_sess st (fun ss =>
        let h := fst (hstep (x_h st) (HCall (data (fo (x_h st))))) in
        match op, tree_apply op (f_tree _ (s_img _ ss)) with
        | (TDelBlk _ | TDelSec _ | TDelArr _ _), Ok (_, 0) =>
            (* nothing of that name: the call returns false and has nothing to write, in any mode *)
            (mkS (x_fs st) (x_sess st) h (x_held st) (x_snap st) (x_mutated st) (x_sha st) (x_written st) (x_points st),
             AnsOk ([AStr name; ANum 0] ++ status h), SameAsModel)
        | _, _ =>
        match mutate tree smut Z s_apply s_cls true ss (MContent op) with
        | Ok (ss', v) =>
            let shown := match op with TDelBlk _ | TDelSec _ | TDelArr _ _ => [ANum v] | _ => [] end in
            (mkS (x_fs st) (Some ss') h (x_held st) (x_snap st) true (x_sha st) true (x_points st),
             AnsOk ([AStr name] ++ shown ++ status h), SameAsModel)
        | _ => (st, AnsErr, SameAsModel)
        end
        end)
  | CDump => with_sess st (fun ss => (st, AnsOk [ATree (f_tree _ (s_img _ ss))], SameAsModel))
  | CSnap => with_sess st (fun ss =>
      (mkS (x_fs st) (x_sess st) (x_h st) (x_held st) (Some (f_tree _ (s_img _ ss))) false (x_sha st) (x_written st) (x_points st),
       AnsOk [AStr "snap"], SameAsModel))
  | CCmp => with_sess st (fun ss =>
      match x_snap st with
      | Some t0 =>
          let a := AnsOk [AStr (if tree_eqb t0 (f_tree _ (s_img _ ss)) then "tree-same" else "tree-DIFF")] in
          (st, a, if x_mutated st then AnyAnswer else Spec (AnsOk [AStr "tree-same"]))
      | None => (st, AnsErr, SameAsModel)
      end)
  | CSha0 => (mkS (x_fs st) (x_sess st) (x_h st) (x_held st) (x_snap st) (x_mutated st) (Some (x_fs st the_path)) false (x_points st),
              AnsOk [AStr "sha"], SameAsModel)
  | CShaQ =>
      match x_sha st with
      | Some c0 =>
          (st, AnsOk [AStr (if opt_eqb fcontent_eqb c0 (x_fs st the_path) then "sha-same" else "sha-DIFF")],
           if x_written st then AnyAnswer else Spec (AnsOk [AStr "sha-same"]))
      | None => (st, AnsOk [AStr "sha-DIFF"], AnyAnswer)
      end
  | CRoMut name comp force uc =>
      match x_sess st with
      | Some _ => (st, AnsErr, SameAsModel)
      | None =>
          let prior := x_fs st the_path in
          let sp := match prior with
                    | Some (H5 f) => if lib_produced tree f then Spec (AnsOk [AStr name; AStr "ERR"; AStr "sha-same"]) else AnyAnswer
                    | _ => AnyAnswer
                    end in
          match whole_session tree smut Z empty_tree s_apply s_cls uc (x_fs st) the_path ReadOnly comp force [SMut (MNamed name)] with
          | Ok (fs', outs) =>
              let verdict := match outs with
                             | [Some (Ok _)] => "OK"
                             | [Some (Err _)] => "ERR"
                             | [Some (UB _)] => "HANG"
                             | _ => "?"
                             end in
              (mkS fs' None (x_h st) (x_held st) (x_snap st) (x_mutated st) (x_sha st) (x_written st) (x_points st),
               AnsOk [AStr name; AStr verdict; same_or_diff (opt_eqb fcontent_eqb prior (fs' the_path)) "sha-"], sp)
          | _ => (st, AnsOk [AStr name; AStr "OPENFAIL"; AStr "sha-same"], sp)
          end
      end
  | CRwMut name =>
      match x_sess st with
      | Some _ => (st, AnsErr, SameAsModel)
      | None =>
          (* a read-write session on a scratch copy of the path: the case file itself is not involved *)
          match whole_session tree smut Z empty_tree s_apply s_cls true (x_fs st) the_path ReadWrite CompAuto false [SMut (MNamed name)] with
          | Ok (_, [Some (Ok _)]) => (st, AnsOk [AStr name; AStr "OK"], SameAsModel)
          | Ok (_, _) => (st, AnsOk [AStr name; AStr "ERR"], SameAsModel)
          | _ => (st, AnsOk [AStr name; AStr "OPENFAIL"], SameAsModel)
          end
      end
  | CNoMut name ro =>
      match x_sess st with
      | Some _ => (st, AnsErr, SameAsModel)
      | None =>
          match file_open tree empty_tree (x_fs st) the_path (if ro then ReadOnly else ReadWrite) CompAuto false with
          | Ok _ => (st, AnsOk ([AStr name; AStr "OK"] ++ (if ro then [AStr "sha-same"] else [])), SameAsModel)
          | _ => (st, AnsOk ([AStr name; AStr "OPENFAIL"] ++ (if ro then [AStr "sha-same"] else [])), SameAsModel)
          end
      end
  | CMutIn name uc =>
      with_sess st (fun ss =>
        let h := fst (hstep (x_h st) (HCall (data (fo (x_h st))))) in
        let st' := mkS (x_fs st) (x_sess st) h (x_held st) (x_snap st) (x_mutated st || negb (is_ro (s_mode _ ss)))
                       (x_sha st) (x_written st) (x_points st) in
        let verdict := match mutate tree smut Z s_apply s_cls uc ss (MNamed name) with
                       | Ok _ => "OK" | Err _ => "ERR" | UB _ => "HANG" end in
        (st', AnsOk ([AStr name; AStr verdict] ++ status h),
         if is_ro (s_mode _ ss) then Spec (AnsOk ([AStr name; AStr "ERR"] ++ status opened)) else AnyAnswer))
  | CBattery => with_sess st (fun _ => (st, AnsOk [AStr "battery"], SameAsModel))
  | CFlush =>
      with_sess st (fun ss =>
        let fs' := flush tree (x_fs st) ss in
        let h := fst (hstep (x_h st) (HCall (fid (fo (x_h st))))) in
        (mkS fs' (x_sess st) h (x_held st) (x_snap st) (x_mutated st) (x_sha st) (x_written st)
             (x_points st ++ [mkPoint false (f_tree _ (s_img _ ss)) (tree_of fs')]),
         AnsOk ([ANum 1] ++ status h), SameAsModel))
  | CClose =>
      with_sess st (fun ss =>
        let fs' := close tree (x_fs st) ss in
        let h := fclose (x_h st) in
        (mkS fs' None h (x_held st) (x_snap st) (x_mutated st) (x_sha st) (x_written st)
             (x_points st ++ [mkPoint true (f_tree _ (s_img _ ss)) (tree_of fs')]),
         AnsOk [AKV "objs" (open_ids h)], Spec (AnsOk [AKV "objs" 0])))
  | CHold kind n =>
      with_sess st (fun _ =>
        let '(h, have) := hold_n (x_h st) kind (held_of (x_held st) kind) 0 n in
        let held := set_held (x_held st) kind have in
        (mkS (x_fs st) (x_sess st) h held (x_snap st) (x_mutated st) (x_sha st) (x_written st) (x_points st),
         AnsOk ([AKV "held" (held_total held)] ++ status h), SameAsModel))
  | CDrop kind n =>
      let '(h, have) := drop_n (x_h st) kind (held_of (x_held st) kind) n in
      let held := set_held (x_held st) kind have in
      (mkS (x_fs st) (x_sess st) h held (x_snap st) (x_mutated st) (x_sha st) (x_written st) (x_points st),
       AnsOk [AKV "held" (held_total held)], SameAsModel)
  | CStale name touch kind =>
      match x_sess st with
      | Some _ => (st, AnsErr, SameAsModel)
      | None =>
          let have := held_of (x_held st) kind in
          match have with
          | [] => (st, AnsOk [AStr name; AStr "NOHANDLE"], SameAsModel)
          | _ =>
              if touch
              then (st, AnsOk [AStr name; AStr (if all_fail (x_h st) have then "ERR" else if all_ok (x_h st) have then "OK" else "MIXED")],
                    Spec (AnsOk [AStr name; AStr "ERR"]))
              else (st, AnsOk [AStr name; AStr "OK"], AnyAnswer)
          end
      end
  | CKillrun =>
      match x_sess st with
      | Some _ => (st, AnsErr, SameAsModel)
      | None =>
          (st, AnsOk ([AKV "points" (zlen (x_points st))] ++ flat_map point_atoms (x_points st)),
           Spec (AnsOk ([AKV "points" (zlen (x_points st))] ++
                        flat_map (fun p => point_atoms (mkPoint (pt_close p) (pt_seen p) (Some (pt_seen p)))) (x_points st))))
      end
  end.

(** ---- a second File object on the case path in the same process (C09) --------------------------------
    The first session ([x_sess]) holds the shared in-memory image; the second File only has the mode and
    compression it reports.  [y_dirty]: a named mutator of the public API (which acts outside the small
    tree) has been accepted on a writable image since `sha0`, so the bytes of the file differ after a flush. *)
Record sstate2 := mkS2 { y_st : sstate; y_sess2 : option (FileMode * Compression); y_dirty : bool }.
Definition init2 : sstate2 := mkS2 init None false.

Inductive cmd2 :=
| C1 (c : cmd)
| COpen2 (mode : FileMode) (comp : Compression) (force : bool)
| CMutIn2 (name : string) (unlink_checked : bool)
| CBlk2 (n : string)
| CDump2 | CFlush2 | CClose2.

Definition set_sess (st : sstate) (ss : session tree) (mutated written : bool) (fs : fsys tree) : sstate :=
  mkS fs (Some ss) (x_h st) (x_held st) (x_snap st) (x_mutated st || mutated) (x_sha st) (x_written st || written) (x_points st).

Definition primary_writable (st : sstate) : bool :=
  match x_sess st with Some ss => negb (is_ro (s_mode _ ss)) | None => false end.

Definition sstep2 (s2 : sstate2) (c : cmd2) : sstate2 * answer * spec :=
  let st := y_st s2 in
  match c with
  | C1 c1 =>
      match c1, y_sess2 s2 with
      | CClose, Some _ => (s2, AnsErr, SameAsModel)          (* the scripts close the second File first *)
      | _, _ =>
          let '(st', a, sp) := sstep st c1 in
          match c1 with
          | CFs _ => (mkS2 st' None false, a, sp)
          | CSha0 => (mkS2 st' (y_sess2 s2) false, a, sp)
          | CShaQ => (mkS2 st' (y_sess2 s2) (y_dirty s2),
                      (if y_dirty s2 then AnsOk [AStr "sha-DIFF"] else a), sp)
          | CMutIn _ _ => (mkS2 st' (y_sess2 s2) (y_dirty s2 || primary_writable st), a, sp)
          | _ => (mkS2 st' (y_sess2 s2) (y_dirty s2), a, sp)
          end
      end
  | COpen2 mode comp force =>
      match x_sess st, y_sess2 s2 with
      | Some ss, None =>
          match second_open tree ss mode comp force with
          | Ok (m, cp) =>
              (mkS2 st (Some (m, cp)) (y_dirty s2),
               AnsOk ([AStr ("mode=" ++ mode_name m); AStr ("comp=" ++ comp_name cp)] ++ counts (f_tree _ (s_img _ ss))), SameAsModel)
          | _ => (s2, AnsErr, SameAsModel)
          end
      | _, _ => (s2, AnsErr, SameAsModel)
      end
  | CMutIn2 name uc =>
      match x_sess st, y_sess2 s2 with
      | Some ss, Some (m, _) =>
          let r := mutate_second tree smut Z s_apply s_cls uc ss (MNamed name) in
          let verdict := match r with Ok _ => "OK" | Err _ => "ERR" | UB _ => "HANG" end in
          (* writes through a File that reports a writable mode are legitimate: the specification then demands
             nothing of the bytes *)
          let st1 := mkS (x_fs st) (x_sess st) (x_h st) (x_held st) (x_snap st) (x_mutated st) (x_sha st)
                         (x_written st || negb (is_ro m)) (x_points st) in
          (mkS2 st1 (y_sess2 s2) (y_dirty s2 || match r with Ok _ => true | _ => false end),
           AnsOk [AStr name; AStr verdict],
           if is_ro m then Spec (AnsOk [AStr name; AStr "ERR"]) else AnyAnswer)
      | _, _ => (s2, AnsErr, SameAsModel)
      end
  | CBlk2 n =>
      match x_sess st, y_sess2 s2 with
      | Some ss, Some (m, _) =>
          let sp := if is_ro m then Spec AnsErr else SameAsModel in
          match mutate_second tree smut Z s_apply s_cls true ss (MContent (TBlk n)) with
          | Ok (ss', _) => (mkS2 (set_sess st ss' true (negb (is_ro m)) (x_fs st)) (y_sess2 s2) (y_dirty s2), AnsOk [AStr "blk2"], sp)
          | _ => (s2, AnsErr, sp)
          end
      | _, _ => (s2, AnsErr, SameAsModel)
      end
  | CDump2 =>
      match x_sess st, y_sess2 s2 with
      | Some ss, Some _ => (s2, AnsOk [ATree (f_tree _ (s_img _ ss))], SameAsModel)
      | _, _ => (s2, AnsErr, SameAsModel)
      end
  | CFlush2 =>
      match x_sess st, y_sess2 s2 with
      | Some ss, Some _ =>
          (* H5Fflush through either id flushes the shared file *)
          (mkS2 (set_sess st ss false false (flush tree (x_fs st) ss)) (y_sess2 s2) (y_dirty s2), AnsOk [ANum 1], SameAsModel)
      | _, _ => (s2, AnsErr, SameAsModel)
      end
  | CClose2 =>
      match y_sess2 s2 with
      | Some _ => (mkS2 st None (y_dirty s2), AnsOk [AStr "closed"], SameAsModel)
      | None => (s2, AnsErr, SameAsModel)
      end
  end.
