(** The hand-written [checkHeader] of FileIO/Version.v (used by the C09 / C10 models and proofs) is the
    function the translator regenerates from backend/hdf5/FileHDF5.cpp on every run (Gen/GenFile.v). *)
From Coq Require Import ZArith Bool String List Lia.
Require Import NixV.Base.Prelude NixV.Gen.GenVersion NixV.Gen.GenTables NixV.FileIO.HeaderAttrs NixV.Gen.GenFile.
Require NixV.FileIO.Version NixV.FileIO.VersionProofs.
Import ListNotations.
Local Open Scope Z_scope.

Definition attrs_of (h : Version.header) : attrs :=
  {| a_format := Version.h_format h; a_version := Version.h_version h; a_id := Version.h_id h |}.

Definition mode_of (m : Version.FileMode) : FileMode :=
  match m with
  | Version.ReadWrite => FileMode_ReadWrite
  | Version.ReadOnly => FileMode_ReadOnly
  | Version.Overwrite => FileMode_Overwrite
  end.

Lemma FILE_FORMAT_is_nix : FILE_FORMAT = "nix"%string.
Proof. reflexivity. Qed.

Theorem checkHeader_is_generated (h : Version.header) (m : Version.FileMode) (throw_error : bool) :
  Version.checkHeader h m throw_error =
  checkHeader (mode_of m) throw_error (attrs_of h) Version.my_version Version.my_version.
Proof.
  destruct h as [fmt ver id]. unfold Version.checkHeader, checkHeader, attrs_of.
  cbn [Version.h_format Version.h_version Version.h_id].
  unfold attr_has, getattr_string, getattr_ints. cbn [a_format a_version a_id String.eqb Ascii.eqb Bool.eqb].
  rewrite FILE_FORMAT_is_nix.
  destruct fmt as [f|]; cbn [opt_is_some fst snd negb orb andb].
  2:{ (* no format attribute *)
    destruct throw_error; reflexivity. }
  destruct (String.eqb f "nix") eqn:Ef; cbn [negb orb andb].
  2:{ destruct throw_error; reflexivity. }
  destruct ver as [vv|]; cbn [opt_is_some fst snd negb andb].
  2:{ destruct throw_error; reflexivity. }
  destruct vv as [|x [|y [|z [|w vv]]]]; cbn [HeaderAttrs.FormatVersion_of_vector Version.FormatVersion_of_vector bind];
    try reflexivity.
  (* a three-component version *)
  set (fv := MkFormatVersion x y z).
  assert (Hge : FormatVersion_op_ge fv (MkFormatVersion 1 2 0) = Ok (negb (Version.lexltb fv (MkFormatVersion 1 2 0))))
    by (apply VersionProofs.derived_ops).
  destruct m; cbn [mode_of Version.is_rw FileMode_beq].
  - destruct (FormatVersion_canWrite Version.my_version fv); cbn [negb bind andb];
      [rewrite Hge; cbn [bind]; destruct (negb (Version.lexltb fv (MkFormatVersion 1 2 0)));
       [destruct id; cbn [opt_is_some negb bind fst snd]; destruct throw_error; reflexivity | destruct throw_error; reflexivity]
      | destruct throw_error; reflexivity].
  - destruct (FormatVersion_canRead Version.my_version fv); cbn [negb bind andb];
      [rewrite Hge; cbn [bind]; destruct (negb (Version.lexltb fv (MkFormatVersion 1 2 0)));
       [destruct id; cbn [opt_is_some negb bind fst snd]; destruct throw_error; reflexivity | destruct throw_error; reflexivity]
      | destruct throw_error; reflexivity].
  - destruct (FormatVersion_canRead Version.my_version fv); cbn [negb bind andb];
      [rewrite Hge; cbn [bind]; destruct (negb (Version.lexltb fv (MkFormatVersion 1 2 0)));
       [destruct id; cbn [opt_is_some negb bind fst snd]; destruct throw_error; reflexivity | destruct throw_error; reflexivity]
      | destruct throw_error; reflexivity].
Qed.
