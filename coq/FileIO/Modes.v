(** C09 — file open modes.  [File::open] (src/File.cpp) + the [FileHDF5] constructor
    (backend/hdf5/FileHDF5.cpp) over a tiny file system, sessions with a mode, abstract mutators.
    [checkHeader], [FileMode], [header] and the library version come from [Version.v] (C10).

    Assumption about HDF5, stated once and used everywhere below (DESIGN.md section 5): on a file
    opened with H5F_ACC_RDONLY every mutating HDF5 call fails and writes nothing.  What the LIBRARY makes
    of such a failure is read off the backend and is part of the model ([mclass], [unlink_checked]). *)
From Coq Require Import ZArith Bool String List Lia.
Require Import NixV.Base.Prelude NixV.Gen.GenVersion NixV.Gen.GenTables NixV.FileIO.Version.
Import ListNotations.
Local Open Scope Z_scope.
Local Open Scope string_scope.

Inductive Compression := CompNone | CompDeflate | CompAuto.
(** [File::open]: `if (compression == Compression::Auto) compression = Compression::None;` *)
Definition resolve_comp (c : Compression) : Compression := match c with CompAuto => CompNone | _ => c end.

(** How a mutating call of the public API reaches HDF5 (read off backend/hdf5):
    - [MChecked]: every HDF5 write of the call goes through a wrapper that checks the result
      ([HErr::check], [H5Object::check], [HTri::check] ...) — a failing write becomes an exception;
    - [MUnlinkOnly]: the only write of the call is [H5Group::removeGroup] (H5Gunlink), after which it
      returns normally (removeSource, removeReference, deleteFeature, Group::remove*, deleteDimensions);
    - [MUnlinkLoop]: `while (count() > 0) remove(first)` before anything else is written
      (sources(vector), references(vector), Group::dataArrays/dataFrames/tags/multiTags(vector)); the
      container is not empty (otherwise the call would not be a mutation of it). *)
Inductive mclass := MChecked | MUnlinkOnly | MUnlinkLoop.

Definition is_ro (m : FileMode) : bool := match m with ReadOnly => true | _ => false end.
Definition is_ow (m : FileMode) : bool := match m with Overwrite => true | _ => false end.

Definition version_vector (v : FormatVersion) : list Z :=
  [FormatVersion_vx v; FormatVersion_vy v; FormatVersion_vz v].

Fixpoint zlist_eqb (a b : list Z) : bool :=
  match a, b with
  | [], [] => true
  | x :: r, y :: q => Z.eqb x y && zlist_eqb r q
  | _, _ => false
  end.

(** the id [createHeader] writes ([util::createId()]; its shape is C12's business) *)
Definition new_id : string := "id".

(** [FileHDF5::createHeader] *)
Definition lib_header : header :=
  {| h_format := Some FILE_FORMAT; h_version := Some (version_vector my_version); h_id := Some new_id |}.

(** "has the NIX format / version / id header": format = "nix", a three-component version, and the id
    that every file of format 1.2.0 or later carries (older formats had none) *)
Definition hdr_complete (h : header) : bool :=
  match h_format h, h_version h with
  | Some s, Some [x; y; z] =>
      String.eqb s FILE_FORMAT &&
      (opt_is_some (h_id h) || lexltb (MkFormatVersion x y z) (MkFormatVersion 1 2 0))
  | _, _ => false
  end.

Section Modes.
  Variables content mut val : Type.
  Variable empty : content.
  (** effect of a mutating call on a writable session: new content and returned value, or the exception
      of a call rejected by the library's own argument checks *)
  Variable apply : mut -> content -> res (content * val).
  Variable cls : mut -> mclass.
  (** does [H5Group::removeGroup] check the result of H5Gunlink?  (read from the source by the check) *)
  Variable unlink_checked : bool.

  (** an HDF5 file as far as the library looks at it when opening *)
  Record h5file := mkH5 {
    f_hdr : header;          (* attributes format / version / id of the root group *)
    f_meta : bool;           (* group /metadata exists *)
    f_data : bool;           (* group /data exists *)
    f_cat : bool;            (* attribute created_at exists *)
    f_uat : bool;            (* attribute updated_at exists *)
    f_tree : content         (* the observable entity tree *)
  }.
  (** what a path holds: bytes H5Fopen rejects (text, a truncated file), a zero-length file, or an HDF5 file *)
  Inductive fcontent := NotH5 | EmptyFile | H5 (f : h5file).
  Definition fsys := string -> option fcontent.
  Definition upd (s : fsys) (p : string) (c : fcontent) : fsys :=
    fun q => if String.eqb q p then Some c else s q.
  Definition exists_ (s : fsys) (p : string) : bool := match s p with Some _ => true | None => false end.

  (** an open [FileHDF5]: path, the mode it reports ([fileMode()]), compression default, in-memory image *)
  Record session := mkSess { s_path : string; s_mode : FileMode; s_comp : Compression; s_img : h5file }.

  (** a file every part of which the library wrote itself *)
  Definition lib_produced (f : h5file) : bool :=
    hdr_complete (f_hdr f) &&
    match h_version (f_hdr f) with Some v => zlist_eqb v (version_vector my_version) | None => false end &&
    f_meta f && f_data f && f_cat f && f_uat f.

  (** an HDF5 file without anything in it (what H5Fcreate leaves, and what H5Fopen(H5F_ACC_RDWR) makes of a
      zero-length file: HDF5 treats an empty file opened for writing as a fresh one and initialises it) *)
  Definition blank : h5file := mkH5 {| h_format := None; h_version := None; h_id := None |} false false false false empty.

  (** both groups and both time stamps are there (every file the library wrote, whatever its header says) *)
  Definition shaped (f : h5file) : bool := f_meta f && f_data f && f_cat f && f_uat f.

  (** `root.openGroup(name)` (create = true) / `if (!root.hasAttr(a)) root.setAttr(a, ..)`:
      nothing happens when the object is there; creating it needs a writable file *)
  Definition ensure (ro present : bool) : res unit :=
    if present then Ok tt else if ro then Err "nix::hdf5::H5Exception" else Ok tt.

  (** The [FileHDF5] constructor, statement by statement. *)
  Definition ctor (s : fsys) (name : string) (mode0 : FileMode) (comp : Compression) (force : bool)
    : res (fsys * session) :=
    let ex := exists_ s name in
    (* if (!fileExists(name)) mode = FileMode::Overwrite; *)
    let mode := if ex then mode0 else Overwrite in
    (* bool is_create = !fileExists(name) || h5mode == H5F_ACC_TRUNC; *)
    let is_create := negb ex || is_ow mode in
    bind (if is_create
          then (* H5Fcreate(.., H5F_ACC_TRUNC, ..) truncates the path at once; nothing of the new file is on disk
                  before a flush or close.  createHeader() *)
               Ok (upd s name NotH5, mkH5 lib_header false false false false empty)
          else match s name with
               | Some (H5 f) =>
                   (* H5Fopen(RDONLY / RDWR); checkHeader(mode, !Force): its boolean result is ignored *)
                   bind (checkHeader (f_hdr f) mode (negb force)) (fun _ => Ok (s, f))
               | Some EmptyFile =>
                   (* H5Fopen(RDONLY) fails; H5Fopen(RDWR) initialises the zero-length file as an HDF5 file *)
                   if is_ro mode then Err "nix::hdf5::H5Exception"
                   else bind (checkHeader (f_hdr blank) mode (negb force)) (fun _ => Ok (upd s name (H5 blank), blank))
               | _ => Err "nix::hdf5::H5Exception"        (* H5Fopen fails: "Could not open/create file" *)
               end) (fun sf =>
    let '(s1, f) := sf in
    let ro := is_ro mode in
    bind (ensure ro (f_meta f)) (fun _ =>        (* metadata = root.openGroup("metadata"); *)
    bind (ensure ro (f_data f)) (fun _ =>        (* data = root.openGroup("data"); *)
    bind (ensure ro (f_cat f)) (fun _ =>         (* setCreatedAt(); *)
    bind (ensure ro (f_uat f)) (fun _ =>         (* setUpdatedAt(); *)
    Ok (s1, mkSess name mode comp (mkH5 (f_hdr f) true true true true (f_tree f)))))))).

  (** [File::open(name, mode, "hdf5", compression, flags)] *)
  Definition file_open (s : fsys) (name : string) (mode : FileMode) (comp : Compression) (force : bool)
    : res (fsys * session) :=
    if is_ro mode && negb (exists_ s name) then Err "std::runtime_error"
    else ctor s name mode (resolve_comp comp) force.

  (** What an open ATTEMPT leaves on disk when it is refused: nothing changes, except that H5Fopen(RDWR) has
      already initialised a zero-length file before [checkHeader] refuses it. *)
  Definition fopen_init (s : fsys) (name : string) (mode : FileMode) : fsys :=
    match s name, mode with
    | Some EmptyFile, ReadWrite => upd s name (H5 blank)
    | _, _ => s
    end.
  (** [File::open] with the file system it leaves behind in every outcome *)
  Definition file_open_fs (s : fsys) (name : string) (mode : FileMode) (comp : Compression) (force : bool)
    : fsys * res session :=
    match file_open s name mode comp force with
    | Ok (s1, ss) => (s1, Ok ss)
    | Err e => (fopen_init s name mode, Err e)
    | UB w => (fopen_init s name mode, UB w)
    end.

  Definition set_tree (ss : session) (c : content) : session :=
    mkSess (s_path ss) (s_mode ss) (s_comp ss)
           (mkH5 (f_hdr (s_img ss)) (f_meta (s_img ss)) (f_data (s_img ss)) (f_cat (s_img ss)) (f_uat (s_img ss)) c).

  (** One mutating call.  The library's own argument checks come first (in every mode); then the HDF5
      writes, which fail on a read-only file (assumption); what the caller sees depends on whether the
      library looks at the failure. *)
  Definition mutate (ss : session) (m : mut) : res (session * val) :=
    bind (apply m (f_tree (s_img ss))) (fun cv =>
    let '(c, v) := cv in
    if is_ro (s_mode ss) then
      match cls m with
      | MChecked => Err "nix::hdf5::H5Exception"
      | MUnlinkOnly => if unlink_checked then Err "nix::hdf5::H5Exception" else Ok (ss, v)
      | MUnlinkLoop => if unlink_checked then Err "nix::hdf5::H5Exception"
                       else UB "does not terminate: the loop waits for a container to become empty that cannot shrink"
      end
    else Ok (set_tree ss c, v)).

  (** ---- a SECOND File object on a path this process already has open -------------------------------
      HDF5 keeps ONE file object per path and process: a further H5Fopen returns another id of the same
      shared file, and the access intent is a property of the shared file — that of the FIRST open.
      H5Fopen(RDWR) of a file that is open read-only fails, H5Fcreate(TRUNC) of an open file fails,
      H5Fopen(RDONLY) of a file that is open read-write succeeds and yields an id through which HDF5
      accepts every write.  [ss] is the first session; the second File reports the mode it asked for. *)
  Definition second_open (ss : session) (mode : FileMode) (comp : Compression) (force : bool)
    : res (FileMode * Compression) :=
    if is_ow mode then Err "nix::hdf5::H5Exception"
    else if negb (is_ro mode) && is_ro (s_mode ss) then Err "nix::hdf5::H5Exception"
    else bind (checkHeader (f_hdr (s_img ss)) mode (negb force)) (fun _ => Ok (mode, resolve_comp comp)).
  (** a mutating call through the second File acts on the shared image, and whether HDF5 refuses it is
      decided by the FIRST session's mode, not by the mode the second File reports *)
  Definition mutate_second (ss : session) (m : mut) : res (session * val) := mutate ss m.

  (** [H5Fflush] / the flush implied by closing: the on-disk file becomes the in-memory image.  A file
      opened read-only has nothing to write. *)
  Definition flush (s : fsys) (ss : session) : fsys :=
    if is_ro (s_mode ss) then s else upd s (s_path ss) (H5 (s_img ss)).
  Definition close (s : fsys) (ss : session) : fsys := flush s ss.

  (** operations inside a session *)
  Inductive sop := SMut (m : mut) | SRead | SFlush.
  (** outcome of one operation: [None] for reads and flushes, the mutator's outcome otherwise *)
  Definition step (st : fsys * session) (o : sop) : (fsys * session) * option (res val) :=
    let '(s, ss) := st in
    match o with
    | SMut m => match mutate ss m with
                | Ok (ss', v) => ((s, ss'), Some (Ok v))
                | Err e => ((s, ss), Some (Err e))
                | UB w => ((s, ss), Some (UB w))
                end
    | SRead => ((s, ss), None)
    | SFlush => ((flush s ss, ss), None)
    end.
  Fixpoint run (st : fsys * session) (ops : list sop) : (fsys * session) * list (option (res val)) :=
    match ops with
    | [] => (st, [])
    | o :: r => let '(st1, a) := step st o in
                let '(st2, l) := run st1 r in (st2, a :: l)
    end.
  (** a whole session: open, operations, close *)
  Definition whole_session (s : fsys) (name : string) (mode : FileMode) (comp : Compression) (force : bool)
             (ops : list sop) : res (fsys * list (option (res val))) :=
    bind (file_open s name mode comp force) (fun st =>
    let '((s2, ss2), outs) := run st ops in
    Ok (close s2 ss2, outs)).

  (** ---- the specification the property states, pointwise (extracted: it judges the implementation) ---- *)
  Inductive ospec :=
  | SpecRefuse                                   (* an error instead of a usable File *)
  | SpecOpen (eff : FileMode) (c : content)      (* a usable File reporting mode [eff] and showing tree [c] *)
  | SpecAny.                                     (* the property does not constrain this open *)

  Definition lacks_header (fc : fcontent) : bool :=
    match fc with NotH5 | EmptyFile => true | H5 f => negb (hdr_complete (f_hdr f)) end.

  Definition open_spec (prior : option fcontent) (mode : FileMode) (force : bool) : ospec :=
    match mode, prior with
    | Overwrite, _ => SpecOpen Overwrite empty                (* always an empty, valid NIX file *)
    | ReadOnly, None => SpecRefuse                            (* non-existent path in ReadOnly mode *)
    | ReadWrite, None => SpecOpen Overwrite empty             (* "creates it if absent" *)
    | _, Some fc =>
        if lacks_header fc then (if force then SpecAny else SpecRefuse)
        else match fc with
             | H5 f =>
                 if lib_produced f then SpecOpen mode (f_tree f)
                 else if force then SpecAny        (* Force is an explicit override: the property does not constrain it *)
                 else if shaped f then
                   (* a complete header of another format version: the version gate of C10 decides
                      (ReadWrite: identical version; ReadOnly: same major, minor not newer) *)
                   match h_version (f_hdr f) with
                   | Some [x; y; z] => if gate_specb x y z mode false then SpecOpen mode (f_tree f) else SpecRefuse
                   | _ => SpecAny
                   end
                 else SpecAny
             | _ => SpecAny
             end
    end.

  Definition meets (r : res (fsys * session)) (sp : ospec) : Prop :=
    match sp with
    | SpecRefuse => exists e, r = Err e
    | SpecOpen eff c => exists s ss, r = Ok (s, ss) /\ s_mode ss = eff /\ f_tree (s_img ss) = c
    | SpecAny => True
    end.
End Modes.

Arguments NotH5 {content}.
Arguments EmptyFile {content}.
Arguments H5 {content} f.
Arguments SpecRefuse {content}.
Arguments SpecAny {content}.
Arguments SpecOpen {content} eff c.
Arguments SMut {mut} m.
Arguments SRead {mut}.
Arguments SFlush {mut}.
