(** Proofs about [Modes.v] (C09). *)
From Coq Require Import ZArith Bool String List Lia.
Require Import NixV.Base.Prelude NixV.Gen.GenVersion NixV.Gen.GenTables NixV.FileIO.Version
               NixV.FileIO.VersionProofs NixV.FileIO.Modes.
Import ListNotations.
Local Open Scope Z_scope.
Local Open Scope string_scope.

Lemma zlist_eqb_eq a : forall b, zlist_eqb a b = true -> a = b.
Proof.
  induction a as [|x r IH]; intros [|y q] H; cbn in H; try discriminate; [reflexivity|].
  apply andb_true_iff in H. destruct H as [H1 H2]. apply Z.eqb_eq in H1. subst. f_equal. now apply IH.
Qed.

Lemma zlist_eqb_refl a : zlist_eqb a a = true.
Proof. induction a; cbn; [reflexivity|]. now rewrite Z.eqb_refl, IHa. Qed.

Lemma my_version_eta :
  MkFormatVersion (FormatVersion_vx my_version) (FormatVersion_vy my_version) (FormatVersion_vz my_version) = my_version.
Proof. destruct my_version. reflexivity. Qed.

(** [checkHeader] on a header that names the library's own version: passes in every mode *)
Lemma checkHeader_lib h mode thr :
  hdr_complete h = true -> h_version h = Some (version_vector my_version) ->
  checkHeader h mode thr = Ok true.
Proof.
  intros Hc Hv. unfold hdr_complete in Hc. rewrite Hv in Hc. unfold version_vector in Hc.
  destruct (h_format h) as [s|] eqn:Ef; [|discriminate].
  apply andb_true_iff in Hc. destruct Hc as [Hs Hid].
  unfold checkHeader. rewrite Ef, Hs, Hv. unfold version_vector. cbn [FormatVersion_of_vector bind].
  rewrite my_version_eta.
  assert (Hc2 : (if is_rw mode then FormatVersion_canWrite my_version my_version
                 else FormatVersion_canRead my_version my_version) = true).
  { destruct (is_rw mode).
    - apply canWrite_spec. reflexivity.
    - apply canRead_spec. split; [reflexivity|lia]. }
  rewrite Hc2.
  destruct (derived_ops my_version (MkFormatVersion 1 2 0)) as (_ & _ & Hge & _).
  rewrite Hge, my_version_ge_120. cbn [bind].
  rewrite my_version_eta in Hid.
  assert (Hlt : lexltb my_version (MkFormatVersion 1 2 0) = false).
  { generalize my_version_ge_120. destruct (lexltb my_version (MkFormatVersion 1 2 0)); [discriminate|reflexivity]. }
  rewrite Hlt, orb_false_r in Hid.
  destruct (h_id h); [|discriminate]. cbn. reflexivity.
Qed.

Lemma lib_header_complete : hdr_complete lib_header = true.
Proof.
  unfold hdr_complete, lib_header, version_vector; cbn [h_format h_version h_id opt_is_some].
  now rewrite FILE_FORMAT_eqb.
Qed.

(** A header that lacks format / version / id is refused by [checkHeader] when errors are thrown. *)
Lemma checkHeader_refuses h mode :
  hdr_complete h = false -> exists e, checkHeader h mode true = Err e.
Proof.
  intro Hc. unfold hdr_complete in Hc. unfold checkHeader.
  destruct (h_format h) as [s|] eqn:Ef.
  2:{ cbn. eauto. }
  destruct (String.eqb s FILE_FORMAT) eqn:Es.
  2:{ cbn. eauto. }
  destruct (h_version h) as [vv|] eqn:Ev.
  2:{ cbn. eauto. }
  destruct vv as [|x [|y [|z [|w vv]]]]; try (cbn; eauto; fail).
  cbn [FormatVersion_of_vector bind].
  cbn [andb] in Hc.
  destruct (if is_rw mode then _ else _) eqn:Ec.
  2:{ cbn. eauto. }
  destruct (derived_ops (MkFormatVersion x y z) (MkFormatVersion 1 2 0)) as (_ & _ & Hge & _).
  rewrite Hge. cbn [bind].
  apply orb_false_iff in Hc. destruct Hc as [Hid Hlt]. rewrite Hlt. cbn [negb].
  destruct (h_id h); [discriminate|]. cbn. eauto.
Qed.


(** [checkHeader] on ANY complete header (format "nix", three-component version, the id its version
    requires): it passes exactly when the version gate of C10 lets the version through *)
Lemma checkHeader_complete h x y z mode :
  hdr_complete h = true -> h_version h = Some [x; y; z] -> mode <> Overwrite ->
  checkHeader h mode true = if gate_specb x y z mode false then Ok true else Err "nix::InvalidFile".
Proof.
  intros Hc Hv Hm. unfold hdr_complete in Hc. rewrite Hv in Hc.
  destruct (h_format h) as [s|] eqn:Ef; [|discriminate].
  apply andb_true_iff in Hc. destruct Hc as [Hs Hid].
  unfold checkHeader. rewrite Ef, Hs, Hv. cbn [FormatVersion_of_vector bind].
  assert (Hg : (if is_rw mode then FormatVersion_canWrite my_version (MkFormatVersion x y z)
                else FormatVersion_canRead my_version (MkFormatVersion x y z)) = gate_specb x y z mode false).
  { destruct mode; cbn [is_rw gate_specb orb]; [| |contradiction].
    - destruct (FormatVersion_canWrite my_version (MkFormatVersion x y z)) eqn:E.
      + apply canWrite_spec in E. symmetry. now apply eq_specb_spec.
      + destruct (eq_specb (MkFormatVersion x y z) my_version) eqn:E2; [|reflexivity].
        apply eq_specb_spec in E2. apply canWrite_spec in E2. congruence.
    - symmetry. apply canRead_specb_spec. }
  rewrite Hg. destruct (gate_specb x y z mode false).
  - destruct (derived_ops (MkFormatVersion x y z) (MkFormatVersion 1 2 0)) as (_ & _ & Hge & _).
    rewrite Hge. cbn [bind].
    destruct (lexltb (MkFormatVersion x y z) (MkFormatVersion 1 2 0)); cbn [negb].
    + reflexivity.
    + rewrite orb_false_r in Hid. destruct (h_id h); [reflexivity|discriminate].
  - reflexivity.
Qed.

Section Proofs.
  Variables content mut val : Type.
  Variable empty : content.
  Variable apply : mut -> content -> res (content * val).
  Variable cls : mut -> mclass.
  Variable unlink_checked : bool.

  Notation fsys := (fsys content).
  Notation session := (session content).
  Notation h5file := (h5file content).
  Notation file_open := (file_open content empty).
  Notation ctor := (ctor content empty).
  Notation run := (run content mut val apply cls unlink_checked).
  Notation step := (step content mut val apply cls unlink_checked).
  Notation mutate := (mutate content mut val apply cls unlink_checked).
  Notation whole_session := (whole_session content mut val empty apply cls unlink_checked).
  Notation open_spec := (open_spec content empty).

  Lemma h5_eta (f : h5file) : f_meta _ f = true -> f_data _ f = true -> f_cat _ f = true -> f_uat _ f = true ->
    mkH5 content (f_hdr _ f) true true true true (f_tree _ f) = f.
  Proof. destruct f; cbn; intros -> -> -> ->; reflexivity. Qed.

  Lemma lib_produced_parts (f : h5file) : lib_produced content f = true ->
    hdr_complete (f_hdr _ f) = true /\ h_version (f_hdr _ f) = Some (version_vector my_version) /\
    f_meta _ f = true /\ f_data _ f = true /\ f_cat _ f = true /\ f_uat _ f = true.
  Proof.
    unfold lib_produced. rewrite !andb_true_iff. intros [[[[[H1 H2] H3] H4] H5] H6].
    repeat split; try assumption.
    destruct (h_version (f_hdr _ f)) as [v|]; [|discriminate]. apply zlist_eqb_eq in H2. now subst.
  Qed.

  (** ---- ReadOnly ---------------------------------------------------------------------------- *)

  (** a ReadOnly session never changes the file system nor its own image, whatever is attempted *)
  Lemma step_ro s (ss : session) o : is_ro (s_mode _ ss) = true -> fst (step (s, ss) o) = (s, ss).
  Proof.
    intro Hro. destruct o as [m| |]; cbn [step Modes.step]; [|reflexivity|].
    - unfold Modes.mutate. destruct (apply m _) as [[c v]| |]; cbn [bind]; try reflexivity.
      rewrite Hro. destruct (cls m), unlink_checked; reflexivity.
    - unfold flush. rewrite Hro. reflexivity.
  Qed.

  Lemma run_ro ops : forall s (ss : session), is_ro (s_mode _ ss) = true -> fst (run (s, ss) ops) = (s, ss).
  Proof.
    induction ops as [|o r IH]; intros s ss Hro; [reflexivity|].
    cbn [run Modes.run]. pose proof (step_ro s ss o Hro) as Hs.
    destruct (step (s, ss) o) as [st1 a]. cbn in Hs. subst st1.
    specialize (IH s ss Hro). destruct (run (s, ss) r) as [st2 l]. cbn in *. assumption.
  Qed.

  (** what a ReadOnly open returns when it succeeds: the same file system, mode ReadOnly *)
  Lemma open_ro_shape s name comp force s1 (ss : session) :
    file_open s name ReadOnly comp force = Ok (s1, ss) -> s1 = s /\ s_mode _ ss = ReadOnly /\ s_path _ ss = name.
  Proof.
    unfold Modes.file_open, Modes.ctor. cbn [is_ro andb].
    destruct (exists_ _ s name) eqn:Ex; cbn [negb]; [|discriminate].
    cbn [orb is_ow negb].
    destruct (s name) as [[| |f]|]; try discriminate.
    destruct (checkHeader _ _ _); cbn [bind]; try discriminate.
    cbn [is_ro].
    destruct (ensure true (f_meta _ f)); cbn [bind]; try discriminate.
    destruct (ensure true (f_data _ f)); cbn [bind]; try discriminate.
    destruct (ensure true (f_cat _ f)); cbn [bind]; try discriminate.
    destruct (ensure true (f_uat _ f)); cbn [bind]; try discriminate.
    intros [= <- <-]. cbn. auto.
  Qed.

  (** outcomes of a session, position by position *)
  Definition mut_failed (o : sop mut) (a : option (res val)) : Prop :=
    match o with
    | SMut _ => exists e, a = Some (Err e)
    | _ => a = None
    end.

  Lemma run_ro_outs ops : forall s (ss : session), is_ro (s_mode _ ss) = true ->
    (forall m, In (SMut m) ops -> cls m = MChecked \/ unlink_checked = true) ->
    (forall m c w, apply m c <> UB w) ->        (* the library's own argument checks are free of undefined behaviour *)
    Forall2 mut_failed ops (snd (run (s, ss) ops)).
  Proof.
    induction ops as [|o r IH]; intros s ss Hro Hc Hub; [constructor|].
    cbn [run Modes.run]. pose proof (step_ro s ss o Hro) as Hs.
    destruct (step (s, ss) o) as [st1 a] eqn:Est. cbn in Hs. subst st1.
    specialize (IH s ss Hro (fun m H => Hc m (or_intror H)) Hub).
    destruct (run (s, ss) r) as [st2 l]. cbn in *. constructor; [|assumption].
    destruct o as [m| |]; cbn [mut_failed]; cbn [step Modes.step] in Est.
    - unfold Modes.mutate in Est. destruct (apply m _) as [[c v]|e|w] eqn:Ea; cbn [bind] in Est.
      + rewrite Hro in Est. destruct (Hc m (or_introl eq_refl)) as [Hm|Hu].
        * rewrite Hm in Est. apply (f_equal snd) in Est; cbn in Est; subst a. eauto.
        * rewrite Hu in Est. destruct (cls m); apply (f_equal snd) in Est; cbn in Est; subst a; eauto.
      + apply (f_equal snd) in Est; cbn in Est; subst a. eauto.
      + exfalso. exact (Hub _ _ _ Ea).
    - apply (f_equal snd) in Est; cbn in Est; subst a. reflexivity.
    - apply (f_equal snd) in Est; cbn in Est; subst a. reflexivity.
  Qed.

  (** [ro_no_write]: a whole ReadOnly session (open, any operations, close) leaves the file system exactly
      as it was, and every mutating call in it fails with an exception — provided each call's HDF5 writes
      are checked ([MChecked], or [removeGroup] checks its unlink). *)
  Theorem ro_no_write s name comp force ops s' outs :
    whole_session s name ReadOnly comp force ops = Ok (s', outs) ->
    s' = s /\
    ((forall m, In (SMut m) ops -> cls m = MChecked \/ unlink_checked = true) ->
     (forall m c w, apply m c <> UB w) ->
     Forall2 mut_failed ops outs).
  Proof.
    unfold Modes.whole_session. intro H.
    destruct (file_open s name ReadOnly comp force) as [[s1 ss]|e|w] eqn:Eo; cbn [bind] in H; try discriminate.
    destruct (open_ro_shape _ _ _ _ _ _ Eo) as (-> & Hm & _).
    assert (Hro : is_ro (s_mode _ ss) = true) by now rewrite Hm.
    pose proof (run_ro ops s ss Hro) as Hr.
    pose proof (run_ro_outs ops s ss Hro) as Ho.
    destruct (run (s, ss) ops) as [[s2 ss2] outs2]. cbn in Hr, Ho. injection Hr as -> ->.
    injection H as <- <-. split.
    - unfold close, flush. now rewrite Hro.
    - intros Hc Hub. exact (Ho Hc Hub).
  Qed.

  (** the unchecked unlink is what breaks "every mutating call fails": with it a mutating call of class
      [MUnlinkOnly] returns normally from a ReadOnly session, one of class [MUnlinkLoop] never returns *)
  Lemma ro_unlink_unchecked (ss : session) m c v :
    unlink_checked = false -> is_ro (s_mode _ ss) = true -> apply m (f_tree _ (s_img _ ss)) = Ok (c, v) ->
    (cls m = MUnlinkOnly -> mutate ss m = Ok (ss, v)) /\
    (cls m = MUnlinkLoop -> exists w, mutate ss m = UB w).
  Proof.
    intros Hu Hro Ha. unfold Modes.mutate. rewrite Ha. cbn [bind]. rewrite Hro, Hu.
    split; intros ->; eauto.
  Qed.

  (** "every mutating call on a ReadOnly File fails" is REFUTED for a second File object on a path the same
      process has open ReadWrite: the ReadOnly open succeeds, the File reports ReadOnly, and a mutating call
      through it is accepted and changes the shared image (so it reaches the disk with the next flush).
      [ro_no_write] above is the statement for a File that is the only one its process has on that path. *)
  Theorem second_ro_file_accepts_refuted (ss : session) m c v comp :
    is_ro (s_mode _ ss) = false ->
    checkHeader (f_hdr _ (s_img _ ss)) ReadOnly true = Ok true ->
    apply m (f_tree _ (s_img _ ss)) = Ok (c, v) ->
    second_open content ss ReadOnly comp false = Ok (ReadOnly, resolve_comp comp) /\
    mutate_second content mut val apply cls unlink_checked ss m = Ok (set_tree content ss c, v).
  Proof.
    intros Hw Hh Ha. split.
    - unfold second_open. cbn [is_ow is_ro negb andb]. cbn [negb]. now rewrite Hh.
    - unfold mutate_second, Modes.mutate. rewrite Ha. cbn [bind]. now rewrite Hw.
  Qed.

  (** the other order is refused: no ReadWrite (or Overwrite) File next to a ReadOnly one *)
  Theorem second_rw_after_ro_refused (ss : session) mode comp force :
    is_ro (s_mode _ ss) = true -> mode <> ReadOnly ->
    second_open content ss mode comp force = Err "nix::hdf5::H5Exception".
  Proof.
    intros Hr Hm. unfold second_open. rewrite Hr. destruct mode; [reflexivity|contradiction|reflexivity].
  Qed.

  (** [ro_open_no_write]: opening a file the library produced in ReadOnly mode succeeds, performs no write,
      and shows the file's tree *)
  Theorem ro_open_no_write (s : fsys) name (f : h5file) comp force :
    s name = Some (H5 f) -> lib_produced content f = true ->
    file_open s name ReadOnly comp force = Ok (s, mkSess content name ReadOnly (resolve_comp comp) f).
  Proof.
    intros Hs Hl. destruct (lib_produced_parts f Hl) as (Hc & Hv & Hm & Hd & Hca & Hua).
    unfold Modes.file_open, Modes.ctor, exists_. rewrite Hs. cbn [is_ro andb negb orb is_ow].
    rewrite (checkHeader_lib _ _ _ Hc Hv). cbn [bind]. rewrite Hm, Hd, Hca, Hua. cbn [ensure bind].
    rewrite h5_eta by assumption. reflexivity.
  Qed.

  (** ---- ReadWrite ----------------------------------------------------------------------------- *)

  Definition no_mut (o : sop mut) : Prop := match o with SMut _ => False | _ => True end.

  Lemma run_no_mut_rw ops : forall (s : fsys) (ss : session) p,
    Forall no_mut ops -> s_path _ ss = p -> s p = Some (H5 (s_img _ ss)) ->
    let '((s2, ss2), _) := run (s, ss) ops in ss2 = ss /\ forall q, s2 q = s q.
  Proof.
    induction ops as [|o r IH]; intros s ss p Hn Hp Hs; [cbn; auto|].
    pose proof (Forall_inv Hn) as Ho. pose proof (Forall_inv_tail Hn) as Hr. subst p. cbn [run Modes.run].
    destruct o as [m| |]; [destruct Ho| |]; cbn [step Modes.step]; cbv beta iota.
    - specialize (IH s ss _ Hr eq_refl Hs). destruct (run (s, ss) r) as [[s2 ss2] l]. exact IH.
    - assert (Hq : forall q, flush content s ss q = s q).
      { intro q. unfold flush. destruct (is_ro _); [reflexivity|]. unfold upd.
        destruct (String.eqb q (s_path _ ss)) eqn:E; [|reflexivity]. apply String.eqb_eq in E. subst q. now rewrite Hs. }
      specialize (IH (flush content s ss) ss _ Hr eq_refl). rewrite Hq in IH. specialize (IH Hs).
      destruct (run (flush content s ss, ss) r) as [[s2 ss2] l]. destruct IH as [-> IH]. split; [reflexivity|].
      intro q. now rewrite IH, Hq.
  Qed.

  (** [rw_preserves] (existing file): ReadWrite on a file the library produced opens it with all prior
      content; a session that calls no mutator (reads, flushes) and is closed leaves every path as it was *)
  Theorem rw_preserves (s : fsys) name (f : h5file) comp force ops s' outs :
    s name = Some (H5 f) -> lib_produced content f = true -> Forall no_mut ops ->
    file_open s name ReadWrite comp force = Ok (s, mkSess content name ReadWrite (resolve_comp comp) f) /\
    (whole_session s name ReadWrite comp force ops = Ok (s', outs) -> forall q, s' q = s q).
  Proof.
    intros Hs Hl Hn. destruct (lib_produced_parts f Hl) as (Hc & Hv & Hm & Hd & Hca & Hua).
    assert (Ho : file_open s name ReadWrite comp force = Ok (s, mkSess content name ReadWrite (resolve_comp comp) f)).
    { unfold Modes.file_open, Modes.ctor, exists_. rewrite Hs. cbn [is_ro andb negb orb is_ow].
      rewrite (checkHeader_lib _ _ _ Hc Hv). cbn [bind]. rewrite Hm, Hd, Hca, Hua. cbn [ensure bind].
      rewrite h5_eta by assumption. reflexivity. }
    split; [exact Ho|].
    unfold Modes.whole_session. rewrite Ho. cbn [bind].
    pose proof (run_no_mut_rw ops s (mkSess content name ReadWrite (resolve_comp comp) f) name Hn eq_refl Hs) as Hr.
    destruct (run _ ops) as [[s2 ss2] l]. destruct Hr as [-> Hr]. intros [= <- _] q.
    unfold close, flush. cbn [s_mode is_ro s_path s_img]. unfold upd.
    destruct (String.eqb q name) eqn:E; [|apply Hr]. apply String.eqb_eq in E. subst q. now rewrite Hs.
  Qed.

  (** the file [File::open] creates: header of this library version, both groups, both time stamps, empty tree *)
  Definition fresh_file : h5file := mkH5 content lib_header true true true true empty.

  Lemma fresh_lib_produced : lib_produced content fresh_file = true.
  Proof.
    unfold lib_produced, fresh_file; cbn [f_hdr f_meta f_data f_cat f_uat].
    rewrite lib_header_complete. cbn [lib_header h_version]. now rewrite zlist_eqb_refl.
  Qed.

  (** [rw_preserves] (missing path): ReadWrite creates the file; the session reports mode Overwrite (the
      constructor's `mode = Overwrite`), shows the empty tree, and closing leaves a complete empty NIX file *)
  Theorem rw_creates (s : fsys) name comp force :
    s name = None ->
    exists s1 ss, file_open s name ReadWrite comp force = Ok (s1, ss) /\
      s_mode _ ss = Overwrite /\ s_img _ ss = fresh_file /\
      close content s1 ss name = Some (H5 fresh_file) /\ (forall q, q <> name -> close content s1 ss q = s q).
  Proof.
    intro Hs. unfold Modes.file_open, Modes.ctor, exists_. rewrite Hs. cbn [is_ro andb negb orb is_ow bind ensure].
    eexists _, _. split; [reflexivity|]. cbn [s_mode s_img f_hdr f_tree]. repeat split.
    - unfold close, flush. cbn [s_mode is_ro s_path s_img]. unfold upd. now rewrite String.eqb_refl.
    - intros q Hq. unfold close, flush. cbn [s_mode is_ro s_path s_img]. unfold upd.
      destruct (String.eqb q name) eqn:E; [apply String.eqb_eq in E; contradiction|reflexivity].
  Qed.

  (** ---- Overwrite ------------------------------------------------------------------------------ *)

  (** [overwrite_empty_valid]: whatever the path held before (nothing, arbitrary bytes, any HDF5 file, a
      NIX file with any header and content) Overwrite yields a session on the empty tree; after close the
      path holds a file with the complete header of this library version that passes [checkHeader] in every
      mode, and it can be reopened in every mode (with or without Force), still empty. *)
  Theorem overwrite_empty_valid (s : fsys) name comp force :
    exists s1 ss, file_open s name Overwrite comp force = Ok (s1, ss) /\
      s_mode _ ss = Overwrite /\ s_img _ ss = fresh_file /\ f_tree _ (s_img _ ss) = empty /\
      close content s1 ss name = Some (H5 fresh_file) /\
      (forall q, q <> name -> close content s1 ss q = s q) /\
      hdr_complete (f_hdr _ fresh_file) = true /\
      (forall mode thr, checkHeader (f_hdr _ fresh_file) mode thr = Ok true) /\
      (forall mode comp' force', exists s2 ss2,
          file_open (close content s1 ss) name mode comp' force' = Ok (s2, ss2) /\ f_tree _ (s_img _ ss2) = empty).
  Proof.
    assert (Hopen : file_open s name Overwrite comp force =
                    Ok (upd content s name NotH5, mkSess content name Overwrite (resolve_comp comp) fresh_file)).
    { unfold Modes.file_open, Modes.ctor. cbn [is_ro andb].
      destruct (exists_ content s name); cbn [negb orb is_ow bind ensure is_ro]; reflexivity. }
    eexists _, _. split; [exact Hopen|]. cbn [s_mode s_img].
    assert (Hcl : close content (upd content s name NotH5) (mkSess content name Overwrite (resolve_comp comp) fresh_file) name
                  = Some (H5 fresh_file)).
    { unfold close, flush. cbn [s_mode is_ro s_path s_img]. unfold upd. now rewrite String.eqb_refl. }
    split; [reflexivity|]. split; [reflexivity|]. split; [reflexivity|]. split; [exact Hcl|].
    split.
    { intros q Hq. unfold close, flush. cbn [s_mode is_ro s_path s_img]. unfold upd.
      destruct (String.eqb q name) eqn:E; [apply String.eqb_eq in E; contradiction|reflexivity]. }
    split; [exact lib_header_complete|].
    split.
    { intros mode thr. apply checkHeader_lib; [exact lib_header_complete|reflexivity]. }
    - intros mode comp' force'. set (s3 := close content _ _) in *.
      destruct mode.
      + eexists _, _. split; [apply (proj1 (rw_preserves s3 name fresh_file comp' force' [] s3 [] Hcl fresh_lib_produced (Forall_nil _)))|reflexivity].
      + eexists _, _. split; [apply (ro_open_no_write s3 name fresh_file comp' force' Hcl fresh_lib_produced)|reflexivity].
      + eexists _, _. split.
        * unfold Modes.file_open, Modes.ctor. cbn [is_ro andb].
          destruct (exists_ content s3 name); cbn [negb orb is_ow bind ensure is_ro]; reflexivity.
        * reflexivity.
  Qed.

  (** ---- refusals -------------------------------------------------------------------------------- *)

  (** [ro_missing_refused] *)
  Theorem ro_missing_refused (s : fsys) name comp force :
    s name = None -> file_open s name ReadOnly comp force = Err "std::runtime_error".
  Proof. intro Hs. unfold Modes.file_open, exists_. now rewrite Hs. Qed.

  (** [bad_header_refused]: a path whose content lacks the NIX header (not HDF5 at all, or an HDF5 file
      without format / with another format / without version / without the id its version requires) is
      refused in ReadOnly and ReadWrite mode — an error, no session, nothing written. *)
  Theorem bad_header_refused (s : fsys) name fc mode comp :
    s name = Some fc -> lacks_header content fc = true -> mode <> Overwrite ->
    exists e, file_open s name mode comp false = Err e.
  Proof.
    intros Hs Hl Hm. unfold Modes.file_open, Modes.ctor, exists_. rewrite Hs. cbn [negb andb orb].
    rewrite andb_false_r.
    assert (Ho : is_ow mode = false) by (destruct mode; [reflexivity|reflexivity|contradiction]).
    rewrite Ho. destruct fc as [| |f]; cbn [bind]; [eauto| |].
    - destruct (is_ro mode); cbn [bind]; [eauto|].
      destruct (checkHeader_refuses (f_hdr _ (blank content empty)) mode eq_refl) as [e He]. cbn [negb]. rewrite He. cbn [bind]. eauto.
    - cbn [lacks_header] in Hl. apply negb_true_iff in Hl.
      destruct (checkHeader_refuses _ mode Hl) as [e He]. cbn [negb]. rewrite He. cbn [bind]. eauto.
  Qed.

  (** the individual defects of the property's list *)
  Corollary refused_missing_format (s : fsys) name (f : h5file) mode comp :
    s name = Some (H5 f) -> h_format (f_hdr _ f) = None -> mode <> Overwrite ->
    exists e, file_open s name mode comp false = Err e.
  Proof. intros Hs Hf. apply (bad_header_refused s name (H5 f)); [exact Hs|]. cbn. unfold hdr_complete. now rewrite Hf. Qed.

  Corollary refused_wrong_format (s : fsys) name (f : h5file) fmt mode comp :
    s name = Some (H5 f) -> h_format (f_hdr _ f) = Some fmt -> fmt <> FILE_FORMAT -> mode <> Overwrite ->
    exists e, file_open s name mode comp false = Err e.
  Proof.
    intros Hs Hf Hne. apply (bad_header_refused s name (H5 f)); [exact Hs|]. cbn. unfold hdr_complete. rewrite Hf.
    destruct (String.eqb fmt FILE_FORMAT) eqn:E; [apply String.eqb_eq in E; contradiction|].
    destruct (h_version _) as [[|x [|y [|z [|w vv]]]]|]; reflexivity.
  Qed.

  Corollary refused_missing_version (s : fsys) name (f : h5file) mode comp :
    s name = Some (H5 f) -> h_version (f_hdr _ f) = None -> mode <> Overwrite ->
    exists e, file_open s name mode comp false = Err e.
  Proof.
    intros Hs Hf. apply (bad_header_refused s name (H5 f)); [exact Hs|]. cbn. unfold hdr_complete. rewrite Hf.
    destruct (h_format _); reflexivity.
  Qed.

  (** a missing id is a defect for every file of format 1.2.0 or later (in particular for every file this
      library version writes) *)
  Corollary refused_missing_id (s : fsys) name (f : h5file) x y z mode comp :
    s name = Some (H5 f) -> h_id (f_hdr _ f) = None -> h_version (f_hdr _ f) = Some [x; y; z] ->
    lexltb (MkFormatVersion x y z) (MkFormatVersion 1 2 0) = false -> mode <> Overwrite ->
    exists e, file_open s name mode comp false = Err e.
  Proof.
    intros Hs Hi Hv Hlt. apply (bad_header_refused s name (H5 f)); [exact Hs|]. cbn. unfold hdr_complete.
    rewrite Hi, Hv, Hlt. destruct (h_format _); [|reflexivity]. cbn. now rewrite andb_false_r.
  Qed.

  (** a plain HDF5 file (no attribute at all on the root group) *)
  Corollary refused_plain_hdf5 (s : fsys) name (f : h5file) mode comp :
    s name = Some (H5 f) -> f_hdr _ f = {| h_format := None; h_version := None; h_id := None |} -> mode <> Overwrite ->
    exists e, file_open s name mode comp false = Err e.
  Proof. intros Hs Hh. apply (refused_missing_format s name f); [exact Hs|]. now rewrite Hh. Qed.

  (** bytes that are not HDF5 (text, an empty file): refused whatever the flags *)
  Theorem refused_not_hdf5 (s : fsys) name mode comp force :
    s name = Some NotH5 -> mode <> Overwrite -> file_open s name mode comp force = Err "nix::hdf5::H5Exception".
  Proof.
    intros Hs Hm. unfold Modes.file_open, Modes.ctor, exists_. rewrite Hs. cbn [negb andb orb]. rewrite andb_false_r.
    destruct mode; [reflexivity|reflexivity|contradiction].
  Qed.

  (** What Force does, exactly: it suppresses the InvalidFile verdict of [checkHeader] and nothing else.
      ReadWrite then opens ANY HDF5 file whose version attribute (if present) has three entries, creates the
      missing groups and time stamps, and leaves the defective header as it is; ReadOnly opens it only if
      nothing has to be created.  A version attribute of another length still throws. *)
  Theorem force_opens_defective_rw (s : fsys) name (f : h5file) comp :
    s name = Some (H5 f) -> (forall vv, h_version (f_hdr _ f) = Some vv -> List.length vv = 3%nat) ->
    file_open s name ReadWrite comp true =
      Ok (s, mkSess content name ReadWrite (resolve_comp comp) (mkH5 content (f_hdr _ f) true true true true (f_tree _ f))).
  Proof.
    intros Hs Hv. unfold Modes.file_open, Modes.ctor, exists_. rewrite Hs. cbn [is_ro andb negb orb is_ow].
    pose proof (force_bypasses (f_hdr _ f) ReadWrite Hv) as Hb. unfold open_existing in Hb. cbn [negb] in Hb.
    destruct (checkHeader (f_hdr _ f) ReadWrite false) as [b|e|w]; cbn [bind] in Hb; try discriminate.
    cbn [bind]. destruct (f_meta _ f), (f_data _ f), (f_cat _ f), (f_uat _ f); reflexivity.
  Qed.

  Theorem force_opens_defective_ro (s : fsys) name (f : h5file) comp :
    s name = Some (H5 f) -> (forall vv, h_version (f_hdr _ f) = Some vv -> List.length vv = 3%nat) ->
    if f_meta _ f && f_data _ f && f_cat _ f && f_uat _ f
    then file_open s name ReadOnly comp true = Ok (s, mkSess content name ReadOnly (resolve_comp comp) f)
    else file_open s name ReadOnly comp true = Err "nix::hdf5::H5Exception".
  Proof.
    intros Hs Hv. unfold Modes.file_open, Modes.ctor, exists_. rewrite Hs. cbn [is_ro andb negb orb is_ow].
    pose proof (force_bypasses (f_hdr _ f) ReadOnly Hv) as Hb. unfold open_existing in Hb. cbn [negb] in Hb.
    destruct (checkHeader (f_hdr _ f) ReadOnly false) as [b|e|w]; cbn [bind] in Hb; try discriminate.
    cbn [bind]. destruct f as [h m d c u t]; cbn.
    destruct m, d, c, u; reflexivity.
  Qed.


  (** a refused open leaves the file system as it was — except that H5Fopen(RDWR) has turned a zero-length
      file into an (empty, header-less) HDF5 file before checkHeader refused it; a ReadOnly attempt never
      changes anything *)
  Theorem refused_open_fs (s : fsys) name mode comp force e :
    file_open s name mode comp force = Err e ->
    file_open_fs content empty s name mode comp force = (fopen_init content empty s name mode, Err e) /\
    (mode = ReadOnly \/ s name <> Some EmptyFile -> fopen_init content empty s name mode = s).
  Proof.
    intro H. unfold Modes.file_open_fs. rewrite H. split; [reflexivity|].
    unfold fopen_init. intros [->|Hne]; [destruct (s name) as [[| |?]|]; reflexivity|].
    destruct (s name) as [[| |?]|]; try reflexivity. contradiction.
  Qed.

  (** a zero-length file: refused in ReadOnly and ReadWrite mode; Force lets ReadWrite open it (as the empty
      HDF5 file HDF5 has made of it, header-less) and never ReadOnly *)
  Theorem empty_file_opens (s : fsys) name comp :
    s name = Some EmptyFile ->
    (forall mode force, mode <> Overwrite -> (mode = ReadOnly \/ force = false) ->
        exists e, file_open s name mode comp force = Err e) /\
    file_open s name ReadWrite comp true =
      Ok (upd content s name (H5 (blank content empty)),
          mkSess content name ReadWrite (resolve_comp comp) (mkH5 content (f_hdr _ (blank content empty)) true true true true empty)).
  Proof.
    intro Hs. split.
    - intros mode force Hm Hf. unfold Modes.file_open, Modes.ctor, exists_. rewrite Hs. cbn [negb andb orb]. rewrite andb_false_r.
      assert (Ho : is_ow mode = false) by (destruct mode; [reflexivity|reflexivity|contradiction]). rewrite Ho.
      destruct Hf as [->| ->]; [cbn; eauto|].
      destruct (is_ro mode); cbn [bind]; [eauto|].
      destruct (checkHeader_refuses (f_hdr _ (blank content empty)) mode eq_refl) as [e He]. cbn [negb]. rewrite He. cbn [bind]. eauto.
    - unfold Modes.file_open, Modes.ctor, exists_. rewrite Hs. reflexivity.
  Qed.


  (** a file with both groups, both time stamps and a complete header of ANY format version: without Force it
      opens (unchanged, nothing written) exactly when the version gate lets it through, else InvalidFile *)
  Theorem open_complete_header (s : fsys) name (f : h5file) x y z mode comp :
    s name = Some (H5 f) -> hdr_complete (f_hdr _ f) = true -> h_version (f_hdr _ f) = Some [x; y; z] ->
    shaped content f = true -> mode <> Overwrite ->
    file_open s name mode comp false =
      if gate_specb x y z mode false then Ok (s, mkSess content name mode (resolve_comp comp) f)
      else Err "nix::InvalidFile".
  Proof.
    intros Hs Hc Hv Hsh Hm. unfold shaped in Hsh. rewrite !andb_true_iff in Hsh. destruct Hsh as [[[H1 H2] H3] H4].
    unfold Modes.file_open, Modes.ctor, exists_. rewrite Hs. cbn [negb andb orb]. rewrite andb_false_r.
    assert (Ho : is_ow mode = false) by (destruct mode; [reflexivity|reflexivity|contradiction]). rewrite Ho.
    cbn [negb]. rewrite (checkHeader_complete _ x y z mode Hc Hv Hm).
    destruct (gate_specb x y z mode false); cbn [bind]; [|reflexivity].
    rewrite H1, H2, H3, H4. cbn [ensure bind]. rewrite h5_eta by assumption. reflexivity.
  Qed.

  (** ---- the extracted pointwise specification is met by the model on every input ---------------- *)
  Theorem open_meets_spec (s : fsys) name mode comp force :
    meets content (file_open s name mode comp force) (open_spec (s name) mode force).
  Proof.
    destruct mode; cbn [Modes.open_spec].
    - (* ReadWrite *)
      destruct (s name) as [fc|] eqn:Hs.
      + destruct (lacks_header content fc) eqn:Hl.
        * destruct force; [exact I|]. cbn [meets].
          apply (bad_header_refused s name fc ReadWrite comp Hs Hl). discriminate.
        * destruct fc as [| |f]; [exact I|exact I|]. destruct (lib_produced content f) eqn:Hp.
          { cbn [meets]. eexists _, _. split; [apply (proj1 (rw_preserves s name f comp force [] s [] Hs Hp (Forall_nil _)))|].
            split; reflexivity. }
          destruct force; [exact I|]. destruct (shaped content f) eqn:Hsh; [|exact I].
          destruct (h_version (f_hdr _ f)) as [[|x [|y [|z [|w vv]]]]|] eqn:Hv; try exact I.
          cbn [lacks_header] in Hl. apply negb_false_iff in Hl.
          pose proof (open_complete_header s name f x y z ReadWrite comp Hs Hl Hv Hsh) as Ho.
          destruct (gate_specb x y z ReadWrite false); cbn [meets].
          { eexists _, _. split; [apply Ho; discriminate|]. split; reflexivity. }
          { eexists. apply Ho. discriminate. }
      + cbn [meets]. destruct (rw_creates s name comp force Hs) as (s1 & ss & Ho & Hm & Hi & _).
        exists s1, ss. repeat split; [exact Ho|exact Hm|]. now rewrite Hi.
    - (* ReadOnly *)
      destruct (s name) as [fc|] eqn:Hs.
      + destruct (lacks_header content fc) eqn:Hl.
        * destruct force; [exact I|]. cbn [meets].
          apply (bad_header_refused s name fc ReadOnly comp Hs Hl). discriminate.
        * destruct fc as [| |f]; [exact I|exact I|]. destruct (lib_produced content f) eqn:Hp.
          { cbn [meets]. eexists _, _. split; [apply (ro_open_no_write s name f comp force Hs Hp)|]. split; reflexivity. }
          destruct force; [exact I|]. destruct (shaped content f) eqn:Hsh; [|exact I].
          destruct (h_version (f_hdr _ f)) as [[|x [|y [|z [|w vv]]]]|] eqn:Hv; try exact I.
          cbn [lacks_header] in Hl. apply negb_false_iff in Hl.
          pose proof (open_complete_header s name f x y z ReadOnly comp Hs Hl Hv Hsh) as Ho.
          destruct (gate_specb x y z ReadOnly false); cbn [meets].
          { eexists _, _. split; [apply Ho; discriminate|]. split; reflexivity. }
          { eexists. apply Ho. discriminate. }
      + cbn [meets]. eexists. apply ro_missing_refused. exact Hs.
    - (* Overwrite *)
      cbn [meets].
      destruct (overwrite_empty_valid s name comp force) as (s1 & ss & Ho & Hm & _ & Ht & _).
      exists s1, ss. repeat split; assumption.
  Qed.
End Proofs.
