(** Proofs about [Close.v] (C11). *)
From Coq Require Import ZArith Bool String List Lia.
Require Import NixV.Base.Prelude NixV.Gen.GenVersion NixV.Gen.GenTables NixV.FileIO.Version
               NixV.FileIO.VersionProofs NixV.FileIO.Modes NixV.FileIO.ModesProofs NixV.FileIO.Close.
Import ListNotations.
Local Open Scope string_scope.
Local Open Scope Z_scope.

(** ---- tables ---------------------------------------------------------------------------------- *)

Definition wf (t : table) : Prop := NoDup (ids t) /\ Forall (fun e => (0 < e_ref e)%nat) t.
Definition remove_id (id : Z) (t : table) : table := filter (fun e => negb (e_id e =? id)) t.
Definition nonobj (t : table) : table := filter (fun e => negb (is_obj_kind (e_kind e))) t.

Lemma iter_shift {A} (f : A -> A) n x : Nat.iter (S n) f x = Nat.iter n f (f x).
Proof.
  induction n; [reflexivity|]. change (Nat.iter (S (S n)) f x) with (f (Nat.iter (S n) f x)).
  rewrite IHn. reflexivity.
Qed.

Lemma remove_id_notin id t : ~ In id (ids t) -> remove_id id t = t.
Proof.
  induction t as [|e r IH]; intro H; [reflexivity|]. cbn in *.
  destruct (e_id e =? id) eqn:E; [apply Z.eqb_eq in E; tauto|]. cbn. f_equal. apply IH. tauto.
Qed.

Lemma ids_filter_incl p (t : table) x : In x (ids (filter p t)) -> In x (ids t).
Proof. unfold ids. rewrite !in_map_iff. intros (e & He & Hi). apply filter_In in Hi. exists e. tauto. Qed.

Lemma nodup_filter p (t : table) : NoDup (ids t) -> NoDup (ids (filter p t)).
Proof.
  induction t as [|e r IH]; intro H; [constructor|]. cbn in *. inversion H as [|? ? Hn Hr]; subst.
  destruct (p e); [|auto]. cbn. constructor; [|auto]. intro Hi. apply Hn. eapply ids_filter_incl; eauto.
Qed.

Lemma wf_filter p t : wf t -> wf (filter p t).
Proof.
  intros [H1 H2]. split; [now apply nodup_filter|].
  rewrite Forall_forall in *. intros e He. apply filter_In in He. apply H2. tauto.
Qed.

Lemma iter_dec_head n : forall id k r, Nat.iter (S n) (fun a => dec a id) (mkEntry id k (S n) :: r) = r.
Proof.
  induction n as [|n IH]; intros id k r.
  - cbn. now rewrite Z.eqb_refl.
  - rewrite iter_shift. cbn [dec e_id e_ref e_kind]. rewrite Z.eqb_refl. apply IH.
Qed.

Lemma iter_dec_skip n e r id : e_id e <> id ->
  Nat.iter n (fun a => dec a id) (e :: r) = e :: Nat.iter n (fun a => dec a id) r.
Proof.
  intro H. induction n as [|n IH]; [reflexivity|].
  change (Nat.iter (S n) (fun a => dec a id) (e :: r)) with (dec (Nat.iter n (fun a => dec a id) (e :: r)) id).
  change (Nat.iter (S n) (fun a => dec a id) r) with (dec (Nat.iter n (fun a => dec a id) r) id).
  rewrite IH. cbn [dec].
  destruct (e_id e =? id) eqn:E; [apply Z.eqb_eq in E; contradiction|reflexivity].
Qed.

(** closing an id as many times as its reference count says removes exactly that id *)
Lemma iter_dec_removes t id : wf t -> Nat.iter (get_ref t id) (fun a => dec a id) t = remove_id id t.
Proof.
  induction t as [|e r IH]; intros [Hn Hp]; [reflexivity|].
  cbn in Hn. inversion Hn as [|? ? Hni Hnr]; subst. inversion Hp as [|? ? Hpe Hpr]; subst.
  cbn [get_ref remove_id filter]. destruct (e_id e =? id) eqn:E.
  - apply Z.eqb_eq in E. destruct e as [i k n]. cbn [e_id e_ref e_kind] in *. subst i.
    destruct n as [|n]; [lia|]. rewrite iter_dec_head. cbn [negb]. symmetry. apply remove_id_notin. exact Hni.
  - cbn [negb]. apply Z.eqb_neq in E. rewrite iter_dec_skip by exact E. f_equal. apply IH. split; assumption.
Qed.

Lemma filter_filter {A} (p q : A -> bool) l : filter p (filter q l) = filter (fun x => q x && p x) l.
Proof. induction l as [|x r IH]; [reflexivity|]. cbn. destruct (q x); cbn; [destruct (p x)|]; now rewrite IH. Qed.

Lemma filter_all {A} (p : A -> bool) l : (forall x, In x l -> p x = true) -> filter p l = l.
Proof. induction l as [|x r IH]; intro H; [reflexivity|]. cbn. rewrite (H x (or_introl eq_refl)). f_equal. apply IH. intros; apply H; now right. Qed.

Definition step_close (acc : table) (e : entry) : table :=
  Nat.iter (get_ref acc (e_id e)) (fun a => dec a (e_id e)) acc.

Lemma fold_close l : forall acc, wf acc ->
  fold_left step_close l acc = filter (fun e => negb (existsb (Z.eqb (e_id e)) (ids l))) acc.
Proof.
  induction l as [|x l IH]; intros acc Hw.
  - cbn. symmetry. apply filter_all. reflexivity.
  - cbn [fold_left]. unfold step_close at 2. rewrite iter_dec_removes by exact Hw.
    rewrite IH by (apply wf_filter; exact Hw). unfold remove_id. rewrite filter_filter.
    apply filter_ext. intro e. cbn [ids map existsb]. rewrite negb_orb. reflexivity.
Qed.

Lemma nodup_same_id t : NoDup (ids t) -> forall e e', In e t -> In e' t -> e_id e = e_id e' -> e = e'.
Proof.
  induction t as [|x r IH]; intros Hn e e' He He' Hid; [destruct He|].
  cbn in Hn. inversion Hn as [|? ? Hni Hnr]; subst.
  destruct He as [<-|He], He' as [<-|He']; try reflexivity.
  - exfalso. apply Hni. rewrite Hid. now apply in_map.
  - exfalso. apply Hni. rewrite <- Hid. now apply in_map.
  - now apply IH.
Qed.

(** The object-closing loop of [FileHDF5::close] leaves exactly the ids that are not groups, datasets or
    named datatypes — however many references each of them had. *)
Lemma close_objects_spec t : wf t -> close_objects t = nonobj t.
Proof.
  intro Hw. unfold close_objects. change (fun acc e => Nat.iter _ _ acc) with step_close.
  rewrite fold_close by exact Hw. unfold nonobj. apply filter_ext_in. intros e He. f_equal.
  destruct (is_obj_kind (e_kind e)) eqn:Ek.
  - apply existsb_exists. exists (e_id e). split; [|apply Z.eqb_refl].
    unfold ids. apply in_map. apply filter_In. tauto.
  - apply not_true_is_false. intro Hx. apply existsb_exists in Hx. destruct Hx as (i & Hi & Heq).
    apply Z.eqb_eq in Heq. subst i. unfold ids in Hi. apply in_map_iff in Hi. destruct Hi as (e' & Hid & Hin).
    apply filter_In in Hin. destruct Hin as [Hin Hk].
    assert (e' = e) by (apply (nodup_same_id t (proj1 Hw)); auto). subst e'. congruence.
Qed.

Lemma ids_dec_incl t id x : In x (ids (dec t id)) -> In x (ids t).
Proof.
  induction t as [|e r IH]; [auto|]. cbn [dec]. destruct (e_id e =? id).
  - destruct (e_ref e) as [|[|n]]; cbn; intuition.
  - cbn. intuition.
Qed.

Lemma wf_dec t id : wf t -> wf (dec t id).
Proof.
  induction t as [|e r IH]; intros [Hn Hp]; [split; constructor|].
  cbn in Hn. inversion Hn as [|? ? Hni Hnr]; subst. inversion Hp as [|? ? Hpe Hpr]; subst.
  cbn [dec]. destruct (e_id e =? id).
  - destruct (e_ref e) as [|[|n]]; try (split; assumption).
    split; [cbn; constructor; assumption|constructor; [cbn; lia|assumption]].
  - destruct (IH (conj Hnr Hpr)) as [H1 H2]. split.
    + cbn. constructor; [|exact H1]. intro Hi. apply Hni. eapply ids_dec_incl; eauto.
    + constructor; assumption.
Qed.

Lemma ids_inc t id : ids (inc t id) = ids t.
Proof.
  induction t as [|e r IH]; [reflexivity|]. cbn [inc]. destruct (e_id e =? id); [reflexivity|].
  unfold ids in *. cbn [map]. now rewrite IH.
Qed.

Lemma wf_inc t id : wf t -> wf (inc t id).
Proof.
  intros [Hn Hp]. split; [now rewrite ids_inc|].
  induction t as [|e r IH]; [constructor|]. inversion Hp as [|? ? Hpe Hpr]; subst.
  cbn in Hn. inversion Hn; subst. cbn [inc]. destruct (e_id e =? id).
  - constructor; [cbn; lia|assumption].
  - constructor; [assumption|]. apply IH; assumption.
Qed.

Lemma nonobj_dec t id : (forall e, In e t -> e_id e = id -> is_obj_kind (e_kind e) = true) -> nonobj (dec t id) = nonobj t.
Proof.
  induction t as [|e r IH]; intro H; [reflexivity|]. cbn [dec]. destruct (e_id e =? id) eqn:E.
  - apply Z.eqb_eq in E. pose proof (H e (or_introl eq_refl) E) as Hk.
    unfold nonobj. cbn [filter]. rewrite Hk. cbn [negb]. destruct (e_ref e) as [|[|n]]; try reflexivity.
    cbn [filter e_kind]. now rewrite Hk.
  - unfold nonobj in *. cbn [filter]. rewrite IH; [reflexivity|]. intros; apply H; auto. now right.
Qed.

Lemma nonobj_inc t id : (forall e, In e t -> e_id e = id -> is_obj_kind (e_kind e) = true) -> nonobj (inc t id) = nonobj t.
Proof.
  induction t as [|e r IH]; intro H; [reflexivity|]. cbn [inc]. destruct (e_id e =? id) eqn:E.
  - apply Z.eqb_eq in E. pose proof (H e (or_introl eq_refl) E) as Hk.
    unfold nonobj. cbn [filter e_kind]. now rewrite Hk.
  - unfold nonobj in *. cbn [filter]. rewrite IH; [reflexivity|]. intros; apply H; auto. now right.
Qed.

(** if the only id that is not an object id is the file id [f], every other id is an object id *)
Lemma others_are_objects t f n id : nonobj t = [mkEntry f KFile n] -> id <> f ->
  forall e, In e t -> e_id e = id -> is_obj_kind (e_kind e) = true.
Proof.
  intros Hno Hne e He Hid. destruct (is_obj_kind (e_kind e)) eqn:Ek; [reflexivity|exfalso].
  assert (Hin : In e (nonobj t)) by (apply filter_In; split; [exact He|now rewrite Ek]).
  rewrite Hno in Hin. destruct Hin as [<-|[]]. cbn in Hid. congruence.
Qed.

Lemma get_ref_in t e : NoDup (ids t) -> In e t -> get_ref t (e_id e) = e_ref e.
Proof.
  induction t as [|x r IH]; intros Hn He; [destruct He|]. cbn in Hn. inversion Hn as [|? ? Hni Hnr]; subst.
  cbn [get_ref]. destruct He as [->|He]; [now rewrite Z.eqb_refl|].
  destruct (e_id x =? e_id e) eqn:E; [|now apply IH].
  apply Z.eqb_eq in E. exfalso. apply Hni. rewrite E. now apply in_map.
Qed.

Lemma dec_app_fresh t n k : ~ In n (ids t) -> dec (t ++ [mkEntry n k 1])%list n = t.
Proof.
  induction t as [|e r IH]; intro H.
  - cbn. now rewrite Z.eqb_refl.
  - cbn in H. cbn [app dec]. destruct (e_id e =? n) eqn:E; [apply Z.eqb_eq in E; tauto|]. f_equal. apply IH. tauto.
Qed.

(** an attribute opened and closed inside a call leaves the table as it was *)
Lemma attr_access_id t n : ~ In n (ids t) -> attr_access t n = t.
Proof. intro H. unfold attr_access, alloc. now apply dec_app_fresh. Qed.

(** ---- the invariant of an open file ------------------------------------------------------------ *)

Definition inv_open (st : hstate) : Prop :=
  wf (tab st) /\
  (* no attribute id is open between calls, and there is exactly one file id, with one reference *)
  nonobj (tab st) = [mkEntry (fid (fo st)) KFile 1] /\
  Forall (fun e => e_id e < nxt st) (tab st) /\
  ~ In (fid (fo st)) (pop st) /\
  root (fo st) <> fid (fo st) /\ meta (fo st) <> fid (fo st) /\ data (fo st) <> fid (fo st).

Definition inv (st : hstate) : Prop := tab st = [] \/ inv_open st.

Lemma inv_opened : inv_open opened.
Proof.
  unfold inv_open, opened; cbn. repeat split; try lia; try (intros []).
  - repeat constructor; cbn; intuition lia.
  - repeat constructor; cbn; lia.
  - repeat constructor; cbn; lia.
Qed.

Lemma NoDup_app_fresh {A} (l : list A) x : NoDup l -> ~ In x l -> NoDup (l ++ [x])%list.
Proof.
  induction l as [|y r IH]; intros Hn Hx; [repeat constructor; auto|].
  inversion Hn; subst. cbn. constructor.
  - rewrite in_app_iff. cbn. intros [H|[H|[]]]; [contradiction|]. apply Hx. now left.
  - apply IH; [assumption|]. intro H. apply Hx. now right.
Qed.

Lemma fresh_not_in t n : Forall (fun e => e_id e < n) t -> ~ In n (ids t).
Proof.
  intros H Hi. unfold ids in Hi. apply in_map_iff in Hi. destruct Hi as (e & He & Hin).
  rewrite Forall_forall in H. specialize (H e Hin). lia.
Qed.

Lemma holds_in l x : holds l x = true -> In x l.
Proof. unfold holds. intro H. apply existsb_exists in H. destruct H as (y & Hy & E). apply Z.eqb_eq in E. now subst. Qed.

Lemma remove_one_incl l x y : In y (remove_one l x) -> In y l.
Proof.
  induction l as [|z r IH]; [auto|]. cbn. destruct (z =? x); [auto|]. intros [H|H]; auto.
Qed.

Lemma forall_lt_dec t id n : Forall (fun e => e_id e < n) t -> Forall (fun e => e_id e < n) (dec t id).
Proof.
  induction t as [|e r IH]; intro H; [constructor|]. inversion H; subst. cbn [dec]. destruct (e_id e =? id).
  - destruct (e_ref e) as [|[|m]]; try assumption. constructor; assumption.
  - constructor; auto.
Qed.

Lemma forall_lt_inc t id n : Forall (fun e => e_id e < n) t -> Forall (fun e => e_id e < n) (inc t id).
Proof.
  induction t as [|e r IH]; intro H; [constructor|]. inversion H; subst. cbn [inc]. destruct (e_id e =? id).
  - constructor; assumption.
  - constructor; auto.
Qed.

(** the closed file: nothing is open, nothing can be opened *)
Lemma closed_stays st o : tab st = [] -> tab (fst (hstep st o)) = [].
Proof.
  intro H. destruct o; cbn [hstep].
  - unfold valid. rewrite H. cbn. exact H.
  - destruct (holds _ _); cbn; [now rewrite H|exact H].
  - destruct (holds _ _); cbn; [now rewrite H|exact H].
  - unfold valid. rewrite H. cbn. exact H.
  - exact H.
  - unfold fclose, valid. rewrite H. cbn. exact H.
Qed.

Lemma fclose_releases st : inv_open st -> tab (fclose st) = [].
Proof.
  intros (Hw & Hno & Hlt & Hp & Hr & Hm & Hd).
  assert (Hin : In (mkEntry (fid (fo st)) KFile 1) (tab st)).
  { assert (H : In (mkEntry (fid (fo st)) KFile 1) (nonobj (tab st))) by (rewrite Hno; now left).
    apply filter_In in H. tauto. }
  assert (Hv : valid (tab st) (fid (fo st)) = true).
  { unfold valid. pose proof (get_ref_in _ _ (proj1 Hw) Hin) as Hg. cbn [e_id e_ref] in Hg. rewrite Hg. reflexivity. }
  unfold fclose. rewrite Hv. cbn [negb tab].
  set (t0 := tab st) in *.
  assert (H1 : nonobj (dec t0 (data (fo st))) = nonobj t0) by (apply nonobj_dec; eapply others_are_objects; eauto).
  assert (W1 : wf (dec t0 (data (fo st)))) by now apply wf_dec.
  set (t1 := dec t0 (data (fo st))) in *.
  assert (H2 : nonobj (dec t1 (meta (fo st))) = nonobj t0).
  { rewrite <- H1. apply nonobj_dec. eapply others_are_objects; [rewrite H1; exact Hno|exact Hm]. }
  assert (W2 : wf (dec t1 (meta (fo st)))) by now apply wf_dec.
  set (t2 := dec t1 (meta (fo st))) in *.
  assert (H3 : nonobj (dec t2 (root (fo st))) = nonobj t0).
  { rewrite <- H2. apply nonobj_dec. eapply others_are_objects; [rewrite H2; exact Hno|exact Hr]. }
  assert (W3 : wf (dec t2 (root (fo st)))) by now apply wf_dec.
  rewrite close_objects_spec by exact W3. rewrite H3, Hno. cbn. now rewrite Z.eqb_refl.
Qed.

Lemma hstep_inv st o : inv st -> inv (fst (hstep st o)).
Proof.
  intros [Hc|Ho]; [left; now apply closed_stays|].
  pose proof Ho as Hall. destruct Ho as (Hw & Hno & Hlt & Hp & Hr & Hm & Hd).
  destruct o as [k|id|id|id|id|]; cbn [hstep].
  - (* HOpen *)
    destruct (valid _ _); [|right; exact Hall]. right. unfold inv_open. cbn [fst tab nxt fo pop].
    pose proof (fresh_not_in _ _ Hlt) as Hf.
    repeat split; try assumption.
    + unfold alloc, ids. rewrite map_app. cbn. apply NoDup_app_fresh; [exact (proj1 Hw)|exact Hf].
    + unfold alloc. apply Forall_app. split; [exact (proj2 Hw)|]. constructor; [cbn; lia|constructor].
    + unfold alloc, nonobj. rewrite filter_app. cbn [filter e_kind]. fold (nonobj (tab st)).
      destruct k; cbn; now rewrite app_nil_r.
    + unfold alloc. apply Forall_app. split.
      * eapply Forall_impl; [|exact Hlt]. cbn. intros; lia.
      * constructor; [cbn; lia|constructor].
    + cbn. intros [H|H]; [|contradiction].
      (* the new id equals the file id: impossible, the file id is in the table, hence below nxt *)
      assert (Hin : In (mkEntry (fid (fo st)) KFile 1) (nonobj (tab st))) by (rewrite Hno; now left).
      apply filter_In in Hin. rewrite Forall_forall in Hlt. specialize (Hlt _ (proj1 Hin)). cbn in Hlt. lia.
  - (* HCopy *)
    destruct (holds (pop st) id) eqn:Eh; [|right; exact Hall]. right. unfold inv_open. cbn [fst tab nxt fo pop].
    assert (Hne : id <> fid (fo st)) by (intros ->; apply Hp; now apply holds_in).
    repeat split; try assumption.
    + rewrite ids_inc. exact (proj1 Hw).
    + exact (proj2 (wf_inc _ id Hw)).
    + rewrite nonobj_inc; [exact Hno|]. eapply others_are_objects; eauto.
    + now apply forall_lt_inc.
    + cbn. intros [H|H]; [congruence|contradiction].
  - (* HDrop *)
    destruct (holds (pop st) id) eqn:Eh; [|right; exact Hall]. right. unfold inv_open. cbn [fst tab nxt fo pop].
    assert (Hne : id <> fid (fo st)) by (intros ->; apply Hp; now apply holds_in).
    repeat split; try assumption.
    + exact (proj1 (wf_dec _ id Hw)).
    + exact (proj2 (wf_dec _ id Hw)).
    + rewrite nonobj_dec; [exact Hno|]. eapply others_are_objects; eauto.
    + now apply forall_lt_dec.
    + intro H. apply Hp. eapply remove_one_incl; eauto.
  - (* HCall *)
    destruct (valid _ _); [|right; exact Hall]. right. unfold inv_open. cbn [fst tab nxt fo pop].
    rewrite attr_access_id by (now apply fresh_not_in).
    repeat split; try assumption; try apply Hw. eapply Forall_impl; [|exact Hlt]. cbn. intros; lia.
  - right. exact Hall.
  - left. cbn [fst]. apply fclose_releases. exact Hall.
Qed.

(** ---- histories ------------------------------------------------------------------------------------ *)

Lemma hrun_inv ops : forall st, inv st -> inv (hrun st ops).
Proof. induction ops as [|o r IH]; intros st H; [exact H|]. cbn [hrun]. apply IH. now apply hstep_inv. Qed.

(** the invariant "attribute ids are only open inside a call, one file id with one reference" holds after
    every history of handle operations that starts at the constructor *)
Theorem reachable_inv ops : inv (hrun opened ops).
Proof. apply hrun_inv. right. exact inv_opened. Qed.

Lemma fclose_inv st : inv st -> tab (fclose st) = [].
Proof.
  intros [Hc|Ho]; [|now apply fclose_releases].
  unfold fclose, valid. rewrite Hc. cbn. exact Hc.
Qed.

(** [close_releases]: whatever handles are alive — any number of them, of any kind, copied any number of
    times, after any calls — when [close()] returns no id of the file has a positive count: the file id
    is gone and nothing keeps the file open. *)
Theorem close_releases ops : tab (fclose (hrun opened ops)) = [] /\ open_ids (fclose (hrun opened ops)) = 0.
Proof.
  pose proof (fclose_inv _ (reachable_inv ops)) as H. split; [exact H|]. unfold open_ids. now rewrite H.
Qed.

Lemma hrun_closed ops : forall st, tab st = [] -> tab (hrun st ops) = [].
Proof. induction ops as [|o r IH]; intros st H; [exact H|]. cbn [hrun]. apply IH. now apply closed_stays. Qed.

(** [handles_fail_after_close]: after close every call through any handle obtained earlier — at once or
    after any further handle operations (copies, drops, other calls, another close) — fails with an exception
    and leaves the table empty (it neither re-opens nor touches the file); getters answered from the handle
    itself still answer. *)
Theorem handles_fail_after_close ops later id :
  let st := hrun (fclose (hrun opened ops)) later in
  hstep st (HCall id) = (st, Err "nix::hdf5::H5Exception") /\
  hstep st (HCached id) = (st, Ok 0) /\
  tab st = [].
Proof.
  cbn zeta. set (st := hrun _ later).
  assert (H : tab st = []) by (apply hrun_closed; apply (proj1 (close_releases ops))).
  repeat split; [|exact H]. cbn [hstep]. unfold valid. rewrite H. reflexivity.
Qed.

(** dropping the stale handles afterwards is harmless ([H5Object::dec] checks H5Iis_valid first) *)
Theorem stale_drop_harmless ops id : tab (fst (hstep (fclose (hrun opened ops)) (HDrop id))) = [].
Proof. apply closed_stays. apply (proj1 (close_releases ops)). Qed.

(** why the loop closes every id [H5Iget_ref] times: closing each listed id once leaves a copied handle's
    id — and with it the file — open *)
Definition fclose_once (st : hstate) : hstate :=
  let f := fo st in
  if negb (valid (tab st) (fid f)) then st
  else mkH (dec (close_objects_once (dec (dec (dec (tab st) (data f)) (meta f)) (root f))) (fid f)) (nxt st)
           (mkFobj invalid_hid invalid_hid invalid_hid invalid_hid) (pop st).

Lemma close_once_refuted :
  exists ops, tab (fclose_once (hrun opened ops)) <> [] /\ tab (fclose (hrun opened ops)) = [].
Proof. exists [HOpen OGroup; HCopy 4]. split; [vm_compute; discriminate|vm_compute; reflexivity]. Qed.

(** why the invariant matters: an attribute id left open across calls would survive [close()] *)
Lemma close_needs_no_open_attribute :
  exists st, wf (tab st) /\ valid (tab st) (fid (fo st)) = true /\ tab (fclose st) <> [].
Proof.
  exists (mkH [mkEntry 0 KFile 1; mkEntry 1 KGroup 1; mkEntry 2 KGroup 1; mkEntry 3 KGroup 1; mkEntry 4 KAttr 1] 5
              (mkFobj 0 1 2 3) []).
  split; [|split; [reflexivity|vm_compute; discriminate]].
  split; [repeat constructor; cbn; intuition lia|repeat constructor; cbn; lia].
Qed.

(** ---- durability --------------------------------------------------------------------------------- *)
Section DurableProofs.
  Variables content mut val : Type.
  Variable empty : content.
  Variable apply : mut -> content -> res (content * val).
  Variable cls : mut -> mclass.
  Variable unlink_checked : bool.

  Notation dstate := (dstate content).
  Notation dstep := (dstep content mut val empty apply cls unlink_checked).
  Notation drun := (drun content mut val empty apply cls unlink_checked).
  Notation observe := (observe content).
  Notation file_open := (file_open content empty).

  Lemma drun_app a : forall st b, drun st (a ++ b) = drun (drun st a) b.
  Proof. induction a as [|o r IH]; intros st b; [reflexivity|]. cbn [app Close.drun]. apply IH. Qed.

  Lemma drun_reads reads : forall st ss, d_sess _ st = Some ss -> Forall (is_read mut) reads -> drun st reads = st.
  Proof.
    induction reads as [|o r IH]; intros st ss Hs Hr; [reflexivity|].
    pose proof (Forall_inv Hr) as Ho. pose proof (Forall_inv_tail Hr) as Ht.
    destruct o; try destruct Ho. cbn [Close.drun Close.dstep]. rewrite Hs. cbn [fst]. now apply (IH st ss).
  Qed.

  (** reopening a path that holds a library-produced file in ReadOnly or ReadWrite mode shows that file *)
  Lemma reopen_shows (s : fsys content) name f mode comp force :
    s name = Some (H5 f) -> lib_produced content f = true -> mode <> Overwrite ->
    exists ss, file_open s name mode comp force = Ok (s, ss) /\ s_img _ ss = f.
  Proof.
    intros Hs Hl Hm. destruct mode; [| |contradiction].
    - eexists. split; [apply (proj1 (rw_preserves content mut val empty apply cls unlink_checked s name f comp force [] s [] Hs Hl (Forall_nil _)))|reflexivity].
    - eexists. split; [apply (ro_open_no_write content empty s name f comp force Hs Hl)|reflexivity].
  Qed.

  (** after a flush the path holds the session's image *)
  Lemma flush_on_disk (s : fsys content) (ss : session content) :
    (is_ro (s_mode _ ss) = true -> s (s_path _ ss) = Some (H5 (s_img _ ss))) ->
    flush content s ss (s_path _ ss) = Some (H5 (s_img _ ss)).
  Proof.
    intro Hro. unfold flush. destruct (is_ro (s_mode _ ss)); [now apply Hro|].
    unfold upd. now rewrite String.eqb_refl.
  Qed.

  (** [flush_then_kill]: flush, then any number of reading operations, then the process is killed; a reopen
      (ReadOnly or ReadWrite, any flags, by any process) observes exactly what was observed before the flush.
      For a read-only session the hypothesis says that its image is what the path holds (it was opened from it). *)
  Theorem flush_then_kill (st : dstate) ss reads mode comp force :
    d_sess _ st = Some ss -> lib_produced content (s_img _ ss) = true ->
    (is_ro (s_mode _ ss) = true -> d_fs _ st (s_path _ ss) = Some (H5 (s_img _ ss))) ->
    Forall (is_read mut) reads -> mode <> Overwrite ->
    observe (drun st (DFlush :: reads ++ [DKill; DOpen (s_path _ ss) mode comp force])) = observe st.
  Proof.
    intros Hs Hl Hro Hr Hm. cbn [Close.drun Close.dstep]. rewrite Hs. cbn [fst].
    rewrite drun_app. rewrite (drun_reads reads (mkD content (flush content (d_fs _ st) ss) (Some ss)) ss eq_refl Hr).
    cbn [Close.drun Close.dstep d_sess d_fs fst].
    destruct (reopen_shows (flush content (d_fs _ st) ss) (s_path _ ss) (s_img _ ss) mode comp force
                (flush_on_disk _ ss Hro) Hl Hm) as (ss2 & Ho & Hi).
    rewrite Ho. cbn [fst]. unfold Close.observe. cbn [d_sess]. now rewrite Hs, Hi.
  Qed.

  (** [close_then_kill]: likewise after close() — the closing process may be killed at any later moment *)
  Theorem close_then_kill (st : dstate) ss mode comp force :
    d_sess _ st = Some ss -> lib_produced content (s_img _ ss) = true ->
    (is_ro (s_mode _ ss) = true -> d_fs _ st (s_path _ ss) = Some (H5 (s_img _ ss))) ->
    mode <> Overwrite ->
    observe (drun st [DClose; DKill; DOpen (s_path _ ss) mode comp force]) = observe st.
  Proof.
    intros Hs Hl Hro Hm. cbn [Close.drun Close.dstep]. rewrite Hs. cbn [fst d_sess d_fs].
    destruct (reopen_shows (close content (d_fs _ st) ss) (s_path _ ss) (s_img _ ss) mode comp force
                (flush_on_disk _ ss Hro) Hl Hm) as (ss2 & Ho & Hi).
    rewrite Ho. cbn [fst]. unfold Close.observe. cbn [d_sess]. now rewrite Hs, Hi.
  Qed.

  (** after close or kill the reopening works also in Overwrite mode (and then shows the empty tree) *)
  Theorem reopen_overwrite_after (st : dstate) name comp force :
    d_sess _ st = None ->
    observe (drun st [DOpen name Overwrite comp force]) = Some empty.
  Proof.
    intro Hs. cbn [Close.drun Close.dstep]. rewrite Hs.
    destruct (overwrite_empty_valid content mut val empty apply cls unlink_checked (d_fs _ st) name comp force) as (s1 & ss & Ho & _ & _ & Ht & _).
    rewrite Ho. cbn [fst]. unfold Close.observe. cbn [d_sess]. now rewrite Ht.
  Qed.

  (** [kill_without_flush_may_lose]: the provided-clause is necessary — a mutation after the last flush is
      observed by the writer but not by whoever reopens after the kill *)
  Theorem kill_without_flush_may_lose (st : dstate) ss ss' m v mode comp force :
    d_sess _ st = Some ss -> lib_produced content (s_img _ ss) = true -> is_ro (s_mode _ ss) = false ->
    mutate content mut val apply cls unlink_checked ss m = Ok (ss', v) ->
    f_tree _ (s_img _ ss') <> f_tree _ (s_img _ ss) -> mode <> Overwrite ->
    let before_kill := drun st [DFlush; DMut m] in
    let after := drun before_kill [DKill; DOpen (s_path _ ss) mode comp force] in
    observe before_kill = Some (f_tree _ (s_img _ ss')) /\
    observe after = Some (f_tree _ (s_img _ ss)) /\
    observe after <> observe before_kill.
  Proof.
    intros Hs Hl Hw Hmu Hne Hm. cbn zeta. cbn [Close.drun Close.dstep]. rewrite Hs. cbn [fst d_sess d_fs].
    rewrite Hmu. cbn [fst d_sess d_fs].
    assert (Hro : is_ro (s_mode _ ss) = true -> d_fs _ st (s_path _ ss) = Some (H5 (s_img _ ss))) by (rewrite Hw; discriminate).
    destruct (reopen_shows (flush content (d_fs _ st) ss) (s_path _ ss) (s_img _ ss) mode comp force
                (flush_on_disk _ ss Hro) Hl Hm)
      as (ss2 & Ho & Hi).
    rewrite Ho. cbn [fst]. unfold Close.observe. cbn [d_sess]. rewrite Hi.
    split; [reflexivity|]. split; [reflexivity|]. intro H. injection H as H. now apply Hne.
  Qed.
End DurableProofs.
