(** C11 — after close or flush the file is complete and released.
    Part 1: the HDF5 identifier table of ONE open file, handles as reference counts, and
            [FileHDF5::close] (backend/hdf5/FileHDF5.cpp) literally, over [H5Object] (h5x/H5Object.cpp).
    Part 2: durability — sessions of [Modes.v] extended with kill and reopen.

    Assumptions about HDF5 (trusted, exercised by the correspondence run and the kill harness):
    - an identifier is valid while its reference count is positive; H5Idec_ref / H5Oclose release one
      reference and free the id at zero; ids are never re-used within a process (1.10: a counter);
    - H5Fget_obj_ids(file, GROUP|DATASET|DATATYPE) lists exactly the valid ids of these kinds of the file;
    - the file is released (unlocked, all buffers written) once its file id and every object id opened
      through it are gone (fclose degree WEAK of the sec2 driver);
    - H5Fflush(GLOBAL) and the flush implied by the release make the on-disk image equal the in-memory one. *)
From Coq Require Import ZArith Bool String List Lia.
Require Import NixV.Base.Prelude NixV.Gen.GenVersion NixV.Gen.GenTables NixV.FileIO.Version NixV.FileIO.Modes.
Import ListNotations.
Local Open Scope string_scope.
Local Open Scope Z_scope.

(** ------------------------------------------------------------------------------------------------
    Part 1: identifiers
    ------------------------------------------------------------------------------------------------ *)
Inductive kind := KFile | KGroup | KDataset | KDatatype | KAttr.

Record entry := mkEntry { e_id : Z; e_kind : kind; e_ref : nat }.
(** the valid ids of the file; an id that is not listed is invalid (reference count zero) *)
Definition table := list entry.

Definition ids (t : table) : list Z := map e_id t.

Fixpoint get_ref (t : table) (id : Z) : nat :=               (* H5Iget_ref, 0 for an invalid id *)
  match t with
  | [] => 0%nat
  | e :: r => if e_id e =? id then e_ref e else get_ref r id
  end.
Definition valid (t : table) (id : Z) : bool := (0 <? get_ref t id)%nat.     (* H5Iis_valid *)

(** [H5Object::inc]: `if (H5Iis_valid(hid)) H5Iinc_ref(hid);` *)
Fixpoint inc (t : table) (id : Z) : table :=
  match t with
  | [] => []
  | e :: r => if e_id e =? id then mkEntry (e_id e) (e_kind e) (S (e_ref e)) :: r else e :: inc r id
  end.
(** [H5Object::dec]: `if (H5Iis_valid(hid)) H5Idec_ref(hid);` — also H5Oclose / H5Aclose on one reference.
    The id disappears when its count reaches zero. *)
Fixpoint dec (t : table) (id : Z) : table :=
  match t with
  | [] => []
  | e :: r => if e_id e =? id
              then match e_ref e with
                   | S (S n) => mkEntry (e_id e) (e_kind e) (S n) :: r
                   | _ => r
                   end
              else e :: dec r id
  end.
Definition alloc (t : table) (id : Z) (k : kind) : table := (t ++ [mkEntry id k 1])%list.

(** the members of [FileHDF5] : the file id (the H5Object base) and the three root groups.  [-1] is
    H5I_INVALID_HID (what [H5Object::invalidate] stores). *)
Record fobj := mkFobj { fid : Z; root : Z; meta : Z; data : Z }.
Definition invalid_hid : Z := -1.

Record hstate := mkH {
  tab : table;          (* HDF5's id table for this file *)
  nxt : Z;              (* next id HDF5 hands out *)
  fo : fobj;            (* the FileHDF5 object *)
  pop : list Z          (* the references held by live entity handles (one entry per H5Object holding the id) *)
}.

(** the state the constructor leaves: file id, "/", "metadata", "data" *)
Definition opened : hstate :=
  mkH [mkEntry 0 KFile 1; mkEntry 1 KGroup 1; mkEntry 2 KGroup 1; mkEntry 3 KGroup 1] 4 (mkFobj 0 1 2 3) [].

Definition is_obj_kind (k : kind) : bool :=
  match k with KGroup | KDataset | KDatatype => true | _ => false end.

(** `for (auto obj : objs) { int ref_count = H5Iget_ref(obj); for (j < ref_count) H5Oclose(obj); }` *)
Definition close_objects (t : table) : table :=
  fold_left (fun acc e => Nat.iter (get_ref acc (e_id e)) (fun a => dec a (e_id e)) acc)
            (filter (fun e => is_obj_kind (e_kind e)) t) t.

(** [FileHDF5::close()] *)
Definition fclose (st : hstate) : hstate :=
  let f := fo st in
  if negb (valid (tab st) (fid f)) then st                                   (* if (!isOpen()) return; *)
  else
    let t1 := dec (dec (dec (tab st) (data f)) (meta f)) (root f) in         (* data.close(); metadata.close(); root.close(); *)
    let t2 := close_objects t1 in                                            (* the H5Fget_obj_ids loop *)
    let t3 := dec t2 (fid f) in                                              (* H5Object::close(): dec(); invalidate(); *)
    mkH t3 (nxt st) (mkFobj invalid_hid invalid_hid invalid_hid invalid_hid) (pop st).

(** the variant a careless edit would produce: every listed id closed ONCE *)
Definition close_objects_once (t : table) : table :=
  fold_left (fun acc e => dec acc (e_id e)) (filter (fun e => is_obj_kind (e_kind e)) t) t.

(** the kinds entity getters open *)
Inductive okind := OGroup | ODataset | ODatatype.
Definition kind_of_okind (k : okind) : kind :=
  match k with OGroup => KGroup | ODataset => KDataset | ODatatype => KDatatype end.

Fixpoint remove_one (l : list Z) (x : Z) : list Z :=
  match l with [] => [] | y :: r => if y =? x then r else y :: remove_one r x end.
Definition holds (l : list Z) (x : Z) : bool := existsb (Z.eqb x) l.

(** what client code can do with handles *)
Inductive hop :=
| HOpen (k : okind)      (* a getter / creator returns an entity: a group / dataset / named datatype is opened *)
| HCopy (id : Z)         (* copy of an H5Object that holds [id] (a handle copy that duplicates the H5 object) *)
| HDrop (id : Z)         (* destructor / close() of an H5Object that holds [id] *)
| HCall (id : Z)         (* an entity operation through the object [id]: opens and closes an attribute id inside the call *)
| HCached (id : Z)       (* a getter answered from the handle itself (Dimension::index(), DataView::dataExtent() ...) *)
| HClose.                (* File::close() *)

(** one attribute access inside a call: H5Aopen / H5Acreate ... H5Aclose (the Attribute object is a local) *)
Definition attr_access (t : table) (n : Z) : table := dec (alloc t n KAttr) n.

Definition hstep (st : hstate) (o : hop) : hstate * res Z :=
  match o with
  | HOpen k =>
      if valid (tab st) (fid (fo st))
      then (mkH (alloc (tab st) (nxt st) (kind_of_okind k)) (nxt st + 1) (fo st) (nxt st :: pop st), Ok (nxt st))
      else (st, Err "nix::hdf5::H5Exception")
  | HCopy id =>
      if holds (pop st) id then (mkH (inc (tab st) id) (nxt st) (fo st) (id :: pop st), Ok 0)
      else (st, Err "not a handle of the client")
  | HDrop id =>
      if holds (pop st) id then (mkH (dec (tab st) id) (nxt st) (fo st) (remove_one (pop st) id), Ok 0)
      else (st, Err "not a handle of the client")
  | HCall id =>
      if valid (tab st) id
      then (mkH (attr_access (tab st) (nxt st)) (nxt st + 1) (fo st) (pop st), Ok 0)
      else (st, Err "nix::hdf5::H5Exception")
  | HCached _ => (st, Ok 0)
  | HClose => (fclose st, Ok 0)
  end.

Fixpoint hrun (st : hstate) (ops : list hop) : hstate :=
  match ops with [] => st | o :: r => hrun (fst (hstep st o)) r end.

(** number of ids that are still open (what H5Fget_obj_count(.., H5F_OBJ_ALL) counts) *)
Definition open_ids (st : hstate) : Z := zlen (tab st).
Definition open_attrs (st : hstate) : Z :=
  zlen (filter (fun e => match e_kind e with KAttr => true | _ => false end) (tab st)).

(** ------------------------------------------------------------------------------------------------
    Part 2: durability
    ------------------------------------------------------------------------------------------------ *)
Section Durable.
  Variables content mut val : Type.
  Variable empty : content.
  Variable apply : mut -> content -> res (content * val).
  Variable cls : mut -> mclass.
  Variable unlink_checked : bool.

  (** the machine: what is on disk, and the process that may have the file open *)
  Record dstate := mkD { d_fs : fsys content; d_sess : option (session content) }.

  Inductive dop :=
  | DOpen (name : string) (mode : FileMode) (comp : Compression) (force : bool)
  | DMut (m : mut)
  | DRead
  | DFlush
  | DClose
  | DKill.       (* SIGKILL of the process: no destructor, no exit handler, nothing more is written *)

  (** A kill loses the in-memory image.  The model keeps the disk as the last flush left it; if the image
      was modified after that flush the real file may be in any state — the property (and every theorem
      below) only speaks about kills that follow a flush or close with no mutation in between. *)
  Definition dstep (st : dstate) (o : dop) : dstate * res unit :=
    match o, d_sess st with
    | DOpen name mode comp force, None =>
        match file_open content empty (d_fs st) name mode comp force with
        | Ok (s1, ss) => (mkD s1 (Some ss), Ok tt)
        | Err e => (st, Err e)
        | UB w => (st, UB w)
        end
    | DOpen _ _ _ _, Some _ => (st, Err "session already open")
    | DMut m, Some ss =>
        match mutate content mut val apply cls unlink_checked ss m with
        | Ok (ss', _) => (mkD (d_fs st) (Some ss'), Ok tt)
        | Err e => (st, Err e)
        | UB w => (st, UB w)
        end
    | DRead, Some _ => (st, Ok tt)
    | DFlush, Some ss => (mkD (flush content (d_fs st) ss) (Some ss), Ok tt)
    | DClose, Some ss => (mkD (close content (d_fs st) ss) None, Ok tt)
    | DKill, _ => (mkD (d_fs st) None, Ok tt)
    | _, None => (st, Err "nix::UninitializedEntity")
    end.

  Fixpoint drun (st : dstate) (ops : list dop) : dstate :=
    match ops with [] => st | o :: r => drun (fst (dstep st o)) r end.

  (** what an observer of the open session sees *)
  Definition observe (st : dstate) : option content :=
    match d_sess st with Some ss => Some (f_tree _ (s_img _ ss)) | None => None end.

  Definition is_read (o : dop) : Prop := match o with DRead => True | _ => False end.
End Durable.

Arguments DOpen {mut} name mode comp force.
Arguments DMut {mut} m.
Arguments DRead {mut}.
Arguments DFlush {mut}.
Arguments DClose {mut}.
Arguments DKill {mut}.
