From Coq Require Import ZArith Bool String List Lia.
Require Import NixV.Base.Prelude NixV.Gen.GenVersion NixV.Gen.GenTables NixV.FileIO.Version.
Import ListNotations.
Local Open Scope Z_scope.

Lemma lexltb_spec a b : lexltb a b = true <-> lexlt a b.
Proof. unfold lexltb, lexlt. destruct a, b; cbn. lia. Qed.

(** The generated [operator<] never throws and is the lexicographic order. *)
Lemma op_lt_spec a b : FormatVersion_op_lt a b = Ok (lexltb a b).
Proof.
  destruct a as [ax ay az], b as [bx byy bz].
  unfold FormatVersion_op_lt, FormatVersion_op_index, lexltb; cbn.
  destruct (ax <? bx) eqn:E1; [reflexivity|].
  destruct (bx <? ax) eqn:E2.
  { replace (ax =? bx) with false by lia. reflexivity. }
  replace (ax =? bx) with true by lia.
  destruct (ay <? byy) eqn:E3; [reflexivity|].
  destruct (byy <? ay) eqn:E4.
  { replace (ay =? byy) with false by lia. cbn. reflexivity. }
  replace (ay =? byy) with true by lia.
  destruct (az <? bz) eqn:E5; [reflexivity|].
  destruct (bz <? az) eqn:E6; reflexivity.
Qed.

Lemma op_eq_spec a b : FormatVersion_op_eq a b = true <-> a = b.
Proof.
  destruct a as [ax ay az], b as [bx byy bz]. unfold FormatVersion_op_eq; cbn.
  split.
  - intro H. repeat rewrite andb_true_iff in H. destruct H as [[H1 H2] H3].
    apply Z.eqb_eq in H1, H2, H3. congruence.
  - intro H. injection H as -> -> ->. now rewrite !Z.eqb_refl.
Qed.

Lemma lt_irrefl a : ~ lexlt a a.
Proof. unfold lexlt. lia. Qed.

Lemma lt_trans a b c : lexlt a b -> lexlt b c -> lexlt a c.
Proof. unfold lexlt. lia. Qed.

Lemma lt_total a b : lexlt a b \/ a = b \/ lexlt b a.
Proof.
  destruct a as [ax ay az], b as [bx byy bz]. unfold lexlt; cbn.
  destruct (Z.lt_total ax bx) as [|[|]]; [lia| |lia].
  destruct (Z.lt_total ay byy) as [|[|]]; [lia| |lia].
  destruct (Z.lt_total az bz) as [|[|]]; [lia| |lia].
  right; left. congruence.
Qed.

Lemma derived_ops a b :
  FormatVersion_op_gt a b = Ok (lexltb b a) /\
  FormatVersion_op_le a b = Ok (negb (lexltb b a)) /\
  FormatVersion_op_ge a b = Ok (negb (lexltb a b)) /\
  FormatVersion_op_ne a b = negb (FormatVersion_op_eq a b).
Proof.
  unfold FormatVersion_op_gt, FormatVersion_op_le, FormatVersion_op_ge, FormatVersion_op_ne,
         FormatVersion_op_gt.
  rewrite !op_lt_spec. cbn. auto.
Qed.

Lemma canRead_spec lib f :
  FormatVersion_canRead lib f = true <->
  FormatVersion_vx f = FormatVersion_vx lib /\ FormatVersion_vy f <= FormatVersion_vy lib.
Proof.
  destruct lib, f. unfold FormatVersion_canRead, FormatVersion_x, FormatVersion_y; cbn.
  rewrite andb_true_iff. lia.
Qed.

Lemma canWrite_spec lib f : FormatVersion_canWrite lib f = true <-> f = lib.
Proof. unfold FormatVersion_canWrite. rewrite op_eq_spec. split; congruence. Qed.

Lemma FILE_FORMAT_eqb : String.eqb FILE_FORMAT FILE_FORMAT = true.
Proof. apply String.eqb_refl. Qed.

Lemma my_version_ge_120 : negb (lexltb my_version (MkFormatVersion 1 2 0)) = true.
Proof. vm_compute. reflexivity. Qed.

(** Gate for a file carrying a well-formed header with version (x,y,z). *)
Lemma gate_rw x y z :
  open_existing (good_header x y z) ReadWrite false = Ok tt <-> MkFormatVersion x y z = my_version.
Proof.
  unfold open_existing, checkHeader, good_header; cbn [h_format h_version h_id is_rw].
  rewrite FILE_FORMAT_eqb. cbn [FormatVersion_of_vector bind].
  destruct (FormatVersion_canWrite my_version (MkFormatVersion x y z)) eqn:E.
  - apply canWrite_spec in E. rewrite E.
    destruct (derived_ops my_version (MkFormatVersion 1 2 0)) as (_ & _ & Hge & _).
    rewrite Hge, my_version_ge_120. cbn. tauto.
  - split; [cbn; discriminate|]. intro H. apply canWrite_spec in H. congruence.
Qed.

Lemma gate_ro x y z :
  open_existing (good_header x y z) ReadOnly false = Ok tt <->
  x = FormatVersion_vx my_version /\ y <= FormatVersion_vy my_version.
Proof.
  unfold open_existing, checkHeader, good_header; cbn [h_format h_version h_id is_rw].
  rewrite FILE_FORMAT_eqb. cbn [FormatVersion_of_vector bind].
  destruct (FormatVersion_canRead my_version (MkFormatVersion x y z)) eqn:E.
  - apply canRead_spec in E. cbn in E.
    destruct (derived_ops (MkFormatVersion x y z) (MkFormatVersion 1 2 0)) as (_ & _ & Hge & _).
    rewrite Hge. cbn [bind].
    destruct (negb (lexltb (MkFormatVersion x y z) (MkFormatVersion 1 2 0))); cbn; tauto.
  - split; [cbn; discriminate|]. intro H.
    assert (FormatVersion_canRead my_version (MkFormatVersion x y z) = true) by (apply canRead_spec; cbn; tauto).
    congruence.
Qed.

(** With Force the version check never refuses a file (any header whose version attribute,
    if present, has three entries). *)
Lemma force_bypasses h mode :
  (forall vv, h_version h = Some vv -> List.length vv = 3%nat) ->
  open_existing h mode true = Ok tt.
Proof.
  intro Hv. unfold open_existing, checkHeader. cbn [negb].
  destruct (match h_format h with Some s => String.eqb s FILE_FORMAT | None => false end).
  2:{ cbn. reflexivity. }
  destruct (h_version h) as [vv|] eqn:E.
  2:{ cbn. reflexivity. }
  specialize (Hv vv eq_refl).
  destruct vv as [|x [|y [|z [|w vv]]]]; try discriminate Hv.
  cbn [FormatVersion_of_vector bind].
  destruct (if is_rw mode then _ else _).
  - destruct (derived_ops (MkFormatVersion x y z) (MkFormatVersion 1 2 0)) as (_ & _ & Hge & _).
    rewrite Hge. cbn [bind].
    destruct (negb _); [destruct (h_id h)|]; cbn; rewrite ?andb_false_r; reflexivity.
  - cbn. reflexivity.
Qed.

Lemma eq_specb_spec a b : eq_specb a b = true <-> a = b.
Proof.
  destruct a, b; unfold eq_specb; cbn. rewrite !andb_true_iff, !Z.eqb_eq.
  split; [intros [[-> ->] ->]; reflexivity | intro H; injection H; auto].
Qed.

Lemma canRead_specb_spec lib f : canRead_specb lib f = FormatVersion_canRead lib f.
Proof.
  destruct (FormatVersion_canRead lib f) eqn:E.
  - apply canRead_spec in E. unfold canRead_specb. destruct E as [-> E]. rewrite Z.eqb_refl. cbn. lia.
  - destruct (canRead_specb lib f) eqn:E2; [|reflexivity].
    unfold canRead_specb in E2. apply andb_true_iff in E2. destruct E2 as [E2 E3].
    assert (FormatVersion_canRead lib f = true) by (apply canRead_spec; lia). congruence.
Qed.

(** the extracted oracle is the gate: for complete headers, opening succeeds iff [gate_specb] *)
Lemma gate_specb_correct x y z mode force :
  (exists n, open_file (H5file (good_header x y z) true n) mode force = Ok n) <->
  gate_specb x y z mode force = true.
Proof.
  destruct mode; cbn [open_file gate_specb is_rw negb andb].
  - (* ReadWrite *)
    destruct force; cbn [orb].
    + split; [reflexivity|]. intros _. exists 0.
      rewrite force_bypasses; [reflexivity|]. cbn. intros vv [= <-]. reflexivity.
    + rewrite eq_specb_spec, <- gate_rw. split.
      * intros [n H]. destruct (open_existing _ _ false) as [[]| |] eqn:E; [reflexivity|cbn [bind] in H; discriminate H|cbn [bind] in H; discriminate H].
      * intros ->. exists 0. reflexivity.
  - destruct force; cbn [orb].
    + split; [reflexivity|]. intros _. exists 0.
      rewrite force_bypasses; [reflexivity|]. cbn. intros vv [= <-]. reflexivity.
    + rewrite canRead_specb_spec, canRead_spec. cbn [FormatVersion_vx FormatVersion_vy]. rewrite <- (gate_ro x y z). split.
      * intros [n H]. destruct (open_existing _ _ false) as [[]| |] eqn:E; [reflexivity|cbn [bind] in H; discriminate H|cbn [bind] in H; discriminate H].
      * intros ->. exists 0. reflexivity.
  - split; [reflexivity|]. intros _. exists 0. reflexivity.
Qed.
