(** The small observable entity tree shared by the C09 and C11 model drivers: blocks with integer
    arrays (plus a count of the other children), root sections with integer properties.  It is the
    instance the extracted scripts use for the abstract [content] of [Modes.v] / [Close.v]; the
    theorems never look inside (they are stated for every content type and every operation set).
    The implementation driver prints the same tree as [small_dump] (harness/fileio_common.hpp). *)
From Coq Require Import ZArith Bool String List Lia.
Require Import NixV.Base.Prelude.
Import ListNotations.
Local Open Scope Z_scope.
Local Open Scope string_scope.

Record arr := mkArr { a_name : string; a_data : list Z }.
(** [b_extra]: tags + multi tags + groups + root sources + data frames of the block *)
Record blk := mkBlk { b_name : string; b_extra : Z; b_arrs : list arr }.
(** a property shows its single Int64 value, otherwise only its value count *)
Inductive pval := PInt (v : Z) | PCount (n : Z).
Record prp := mkPrp { p_name : string; p_val : pval }.
Record sec := mkSec { s_name : string; s_subs : Z; s_props : list prp }.
Record tree := mkTree { t_blocks : list blk; t_secs : list sec }.

Definition empty_tree : tree := mkTree [] [].

(** content operations of the scripts (all containers keep HDF5 creation order: new links go last) *)
Inductive top :=
| TBlk (n : string)
| TSec (n : string)
| TArr (b n : string) (vals : list Z)
| TSet (b a : string) (vals : list Z)
| TProp (s n : string) (v : Z)
| TDelBlk (n : string)
| TDelSec (n : string)
| TDelArr (b n : string)
| TRich (n : string).

Definition has_blk (t : tree) (n : string) : bool := existsb (fun b => String.eqb (b_name b) n) (t_blocks t).
Definition has_sec (t : tree) (n : string) : bool := existsb (fun s => String.eqb (s_name s) n) (t_secs t).
Definition has_arr (b : blk) (n : string) : bool := existsb (fun a => String.eqb (a_name a) n) (b_arrs b).
Definition has_prp (s : sec) (n : string) : bool := existsb (fun p => String.eqb (p_name p) n) (s_props s).
Definition find_blk (t : tree) (n : string) : option blk := find (fun b => String.eqb (b_name b) n) (t_blocks t).
Definition find_sec (t : tree) (n : string) : option sec := find (fun s => String.eqb (s_name s) n) (t_secs t).

Definition map_blk (t : tree) (n : string) (f : blk -> blk) : tree :=
  mkTree (map (fun b => if String.eqb (b_name b) n then f b else b) (t_blocks t)) (t_secs t).
Definition map_sec (t : tree) (n : string) (f : sec -> sec) : tree :=
  mkTree (t_blocks t) (map (fun s => if String.eqb (s_name s) n then f s else s) (t_secs t)).

(** what [make_rich] (harness/fileio_common.hpp) adds *)
Definition zs (a b : Z) : list Z := map Z.of_nat (seq (Z.to_nat a) (Z.to_nat (b - a + 1))).
Definition rich_block (n : string) : blk :=
  mkBlk n 10
    [ mkArr "sig" (zs 0 11); mkArr "rng" [1;2;3;4]; mkArr "ali" [10;20;30]; mkArr "pos" [0;0;1;1];
      mkArr "ext" [1;1;1;1]; mkArr "pos2" [1;0;2;1]; mkArr "ext2" [1;2;1;2]; mkArr "feat" [5;6];
      mkArr "feat2" [7;8]; mkArr "spare" [7;8;9]; mkArr "spare2" [1;1;2]; mkArr "fdim" [0;1;2] ].
Definition rich_sections (n : string) : list sec :=
  [ mkSec (n ++ "_md") 1 [mkPrp "pi" (PInt 5); mkPrp "pd" (PCount 2); mkPrp "ps" (PCount 2)];
    mkSec (n ++ "_lk") 0 [mkPrp "lp" (PInt 9)] ].

(** [apply op t]: the new tree and the value the call returns (deletes: whether something was deleted).
    Errors carry the class the front end throws; the scripts compare only Ok against Err. *)
Definition tree_apply (op : top) (t : tree) : res (tree * Z) :=
  match op with
  | TBlk n => if has_blk t n then Err "nix::DuplicateName"
              else Ok (mkTree (t_blocks t ++ [mkBlk n 0 []]) (t_secs t), 0)
  | TSec n => if has_sec t n then Err "nix::DuplicateName"
              else Ok (mkTree (t_blocks t) (t_secs t ++ [mkSec n 0 []]), 0)
  | TArr b n vals =>
      match find_blk t b with
      | None => Err "nix::UninitializedEntity"
      | Some bb => if has_arr bb n then Err "nix::DuplicateName"
                   else Ok (map_blk t b (fun x => mkBlk (b_name x) (b_extra x) (b_arrs x ++ [mkArr n vals])), 0)
      end
  | TSet b a vals =>
      match find_blk t b with
      | None => Err "nix::UninitializedEntity"
      | Some bb => if has_arr bb a
                   then Ok (map_blk t b (fun x => mkBlk (b_name x) (b_extra x)
                              (map (fun y => if String.eqb (a_name y) a then mkArr a vals else y) (b_arrs x))), 0)
                   else Err "nix::UninitializedEntity"
      end
  | TProp s n v =>
      match find_sec t s with
      | None => Err "nix::UninitializedEntity"
      | Some ss => if has_prp ss n then Err "nix::DuplicateName"
                   else Ok (map_sec t s (fun x => mkSec (s_name x) (s_subs x) (s_props x ++ [mkPrp n (PInt v)])), 0)
      end
  | TDelBlk n => if has_blk t n
                 then Ok (mkTree (filter (fun b => negb (String.eqb (b_name b) n)) (t_blocks t)) (t_secs t), 1)
                 else Ok (t, 0)
  | TDelSec n => if has_sec t n
                 then Ok (mkTree (t_blocks t) (filter (fun s => negb (String.eqb (s_name s) n)) (t_secs t)), 1)
                 else Ok (t, 0)
  | TDelArr b n =>
      match find_blk t b with
      | None => Err "nix::UninitializedEntity"
      | Some bb => if has_arr bb n
                   then Ok (map_blk t b (fun x => mkBlk (b_name x) (b_extra x)
                              (filter (fun y => negb (String.eqb (a_name y) n)) (b_arrs x))), 1)
                   else Ok (t, 0)
      end
  | TRich n => if has_blk t n || has_sec t (n ++ "_md") || has_sec t (n ++ "_lk") then Err "nix::DuplicateName"
               else Ok (mkTree (t_blocks t ++ [rich_block n]) (t_secs t ++ rich_sections n), 0)
  end.

(** decidable equality of trees (the scripts' `cmp` and `sha?` answers) *)
Definition list_eqb {A} (e : A -> A -> bool) : list A -> list A -> bool :=
  fix go (l1 l2 : list A) : bool :=
    match l1, l2 with
    | [], [] => true
    | x :: r1, y :: r2 => e x y && go r1 r2
    | _, _ => false
    end.
Definition arr_eqb (a b : arr) : bool := String.eqb (a_name a) (a_name b) && list_eqb Z.eqb (a_data a) (a_data b).
Definition blk_eqb (a b : blk) : bool :=
  String.eqb (b_name a) (b_name b) && Z.eqb (b_extra a) (b_extra b) && list_eqb arr_eqb (b_arrs a) (b_arrs b).
Definition pval_eqb (a b : pval) : bool :=
  match a, b with PInt x, PInt y => Z.eqb x y | PCount x, PCount y => Z.eqb x y | _, _ => false end.
Definition prp_eqb (a b : prp) : bool := String.eqb (p_name a) (p_name b) && pval_eqb (p_val a) (p_val b).
Definition sec_eqb (a b : sec) : bool :=
  String.eqb (s_name a) (s_name b) && Z.eqb (s_subs a) (s_subs b) && list_eqb prp_eqb (s_props a) (s_props b).
Definition tree_eqb (a b : tree) : bool :=
  list_eqb blk_eqb (t_blocks a) (t_blocks b) && list_eqb sec_eqb (t_secs a) (t_secs b).

Definition n_blocks (t : tree) : Z := zlen (t_blocks t).
Definition n_sections (t : tree) : Z := zlen (t_secs t).
