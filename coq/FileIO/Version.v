(** C10 — the format-version gate.  [FormatVersion]'s operators, [canRead], [canWrite] and the
    library's own format version are GENERATED from the source ([Gen/GenVersion.v],
    [Gen/GenTables.v]); [checkHeader] and the open gate are hand-written after
    backend/hdf5/FileHDF5.cpp and tied by the exhaustive correspondence run. *)
From Coq Require Import ZArith Bool String List Lia.
Require Import NixV.Base.Prelude NixV.Gen.GenVersion NixV.Gen.GenTables.
Import ListNotations.
Local Open Scope Z_scope.

Inductive FileMode := ReadWrite | ReadOnly | Overwrite.

(** What [checkHeader] reads from the root group. *)
Record header := { h_format : option string; h_version : option (list Z); h_id : option string }.

Definition my_version : FormatVersion :=
  let '(x, y, z) := HDF5_FF_VERSION in MkFormatVersion x y z.

(** [FormatVersion(const std::vector<int>&)]: throws unless exactly three entries. *)
Definition FormatVersion_of_vector (v : list Z) : res FormatVersion :=
  match v with
  | [x; y; z] => Ok (MkFormatVersion x y z)
  | _ => Err "std::runtime_error"
  end.

Definition is_rw (m : FileMode) : bool := match m with ReadWrite => true | _ => false end.

(** [FileHDF5::checkHeader(mode, throw_error)], statement by statement.  The result is the value
    of [check]; [Err "nix::InvalidFile"] when [check] is false and [throw_error] is set. *)
Definition checkHeader (h : header) (mode : FileMode) (throw_error : bool) : res bool :=
  let check1 := match h_format h with
                | Some s => String.eqb s FILE_FORMAT
                | None => false
                end in
  bind (if check1 then
          match h_version h with
          | Some vv =>
              bind (FormatVersion_of_vector vv) (fun fv =>
              let c := if is_rw mode then FormatVersion_canWrite my_version fv
                       else FormatVersion_canRead my_version fv in
              Ok (c, fv))
          | None => Ok (false, my_version)
          end
        else Ok (false, my_version)) (fun cf =>
  let '(check2, fv) := cf in
  bind (if check2 then FormatVersion_op_ge fv (MkFormatVersion 1 2 0) else Ok false) (fun need_id =>
  let check3 := if need_id then match h_id h with Some _ => check2 | None => false end else check2 in
  if negb check3 && throw_error then Err "nix::InvalidFile" else Ok check3)).

(** Opening an existing file: [checkHeader(mode, !Force)]; a [false] result with Force set is
    ignored by the constructor. *)
Definition open_existing (h : header) (mode : FileMode) (force : bool) : res unit :=
  bind (checkHeader h mode (negb force)) (fun _ => Ok tt).

(** A path's content as far as opening is concerned. *)
(* [groups]: the file already has its /metadata and /data groups (every file the library wrote has) *)
Inductive filecontent := NotHDF5 | H5file (h : header) (groups : bool) (nblocks : Z).

(** [File::open] on an existing path.  Overwrite truncates without looking at the old content;
    the other modes need an HDF5 file and run the header check.  The result is the number of
    blocks visible afterwards. *)
Definition open_file (c : filecontent) (mode : FileMode) (force : bool) : res Z :=
  match mode with
  | Overwrite => Ok 0
  | _ => match c with
         | NotHDF5 => Err "nix::hdf5::H5Exception"
         | H5file h groups n =>
             bind (open_existing h mode force) (fun _ =>
             (* the constructor opens-or-creates /metadata and /data: creating fails read-only *)
             if negb groups && negb (is_rw mode) then Err "nix::hdf5::H5Exception" else Ok n)
         end
  end.

(** The specification the property states. *)
Definition lexlt (a b : FormatVersion) : Prop :=
  FormatVersion_vx a < FormatVersion_vx b \/
  (FormatVersion_vx a = FormatVersion_vx b /\
   (FormatVersion_vy a < FormatVersion_vy b \/
    (FormatVersion_vy a = FormatVersion_vy b /\ FormatVersion_vz a < FormatVersion_vz b))).

Definition lexltb (a b : FormatVersion) : bool :=
  (FormatVersion_vx a <? FormatVersion_vx b) ||
  ((FormatVersion_vx a =? FormatVersion_vx b) &&
   ((FormatVersion_vy a <? FormatVersion_vy b) ||
    ((FormatVersion_vy a =? FormatVersion_vy b) && (FormatVersion_vz a <? FormatVersion_vz b)))).

Definition good_header (x y z : Z) : header :=
  {| h_format := Some FILE_FORMAT; h_version := Some [x; y; z]; h_id := Some "id"%string |}.

(** Boolean form of the specification (extracted; it judges the implementation's answers). *)
Definition eq_specb (a b : FormatVersion) : bool :=
  (FormatVersion_vx a =? FormatVersion_vx b) && (FormatVersion_vy a =? FormatVersion_vy b) &&
  (FormatVersion_vz a =? FormatVersion_vz b).
Definition canRead_specb (lib f : FormatVersion) : bool :=
  (FormatVersion_vx f =? FormatVersion_vx lib) && (FormatVersion_vy f <=? FormatVersion_vy lib).
(** does a file with a complete header of version (x,y,z) open? *)
Definition gate_specb (x y z : Z) (mode : FileMode) (force : bool) : bool :=
  match mode with
  | Overwrite => true
  | ReadWrite => force || eq_specb (MkFormatVersion x y z) my_version
  | ReadOnly => force || canRead_specb my_version (MkFormatVersion x y z)
  end.
