(** C12 — ids: model (definitions only; proofs in IdsProofs.v).

    1. [uuid_to_string]: boost::uuids::to_string (uuid_io.hpp, [to_chars]): per byte two lower-case hex
       digits, a dash after the bytes 3, 5, 7, 9.  [set_vv]: the version / variant bits as
       [basic_random_generator::operator()] sets them ([detail::set_uuid_random_vv]).  [uuid_bytes]: how
       operator() cuts two [unsigned long] random values into the 16 bytes.
    2. [looksLikeUUID]: hand copy of src/util/util.cpp.
    3. The generator: [gen seed n] is the n-th [unsigned long] the engine yields after having been seeded
       with the word sequence [seed] (a Section variable: any deterministic generator).  [seed_of]: what
       [createId] seeds the engine with — a function of the wall-clock second only on the pinned tree.
    4. Id assignment over histories of one file: create (every entity kind), delete, forceId, setters,
       reopen, entities created by other processes, and the one operation that re-identifies an existing
       entity on the pinned tree (a second createDataFrame under an existing name).

    The behaviour of the pinned tree and of the repaired tree differ in two switches ([behaviour]);
    [current_behaviour] says which one the model driver replays against the library. *)
From Coq Require Import List ZArith Bool String Ascii Lia.
Require Import NixV.Base.Prelude.
Import ListNotations.
Local Open Scope Z_scope.

(* ------------------------------------------------------------------------------------------ *)
(** * 1. uuid -> text *)

(** [detail::to_char]: '0'+i for i <= 9, else 'a'+(i-10) *)
Definition to_char (i : Z) : ascii :=
  if i <=? 9 then ascii_of_nat (Z.to_nat (48 + i)) else ascii_of_nat (Z.to_nat (97 + (i - 10))).

(** [(byte >> 4) & 0x0F] and [byte & 0x0F] of uuid_io.hpp *)
Definition hi_nibble (b : Z) : Z := Z.land (Z.shiftr b 4) 15.
Definition lo_nibble (b : Z) : Z := Z.land b 15.

Definition dash : ascii := "-"%char.

(** [if (i == 3 || i == 5 || i == 7 || i == 9) *out++ = '-'] *)
Definition dash_after (i : nat) : bool := Nat.eqb i 3 || Nat.eqb i 5 || Nat.eqb i 7 || Nat.eqb i 9.

Fixpoint to_chars (i : nat) (bs : list Z) : string :=
  match bs with
  | [] => EmptyString
  | b :: r =>
    String (to_char (hi_nibble b)) (String (to_char (lo_nibble b))
      (if dash_after i then String dash (to_chars (S i) r) else to_chars (S i) r))
  end.

(** boost::uuids::to_string of the 16 bytes [bs] *)
Definition uuid_to_string (bs : list Z) : string := to_chars 0 bs.

Fixpoint upd (i : nat) (f : Z -> Z) (bs : list Z) : list Z :=
  match bs, i with
  | [], _ => []
  | b :: r, O => f b :: r
  | b :: r, S j => b :: upd j f r
  end.

(** [set_uuid_random_vv]: byte 8: [&= 0xBF; |= 0x80] (variant 10xxxxxx); byte 6: [&= 0x4F; |= 0x40] (version 4) *)
Definition set_vv (bs : list Z) : list Z :=
  upd 6 (fun b => Z.lor (Z.land b 79) 64) (upd 8 (fun b => Z.lor (Z.land b 191) 128) bs).

(** [byte i = (random_value >> (i x 8)) & 0xFF] for i = 0..7, a fresh random value for the second half *)
Definition word_bytes (w : Z) : list Z :=
  map (fun i => Z.land (Z.shiftr w (8 * Z.of_nat i)) 255) (seq 0 8).
Definition uuid_bytes (w0 w1 : Z) : list Z := word_bytes w0 ++ word_bytes w1.

(** the id text made from two random words: what one call of [createId] returns *)
Definition uuid_of_words (w0 w1 : Z) : string := uuid_to_string (set_vv (uuid_bytes w0 w1)).

(* ------------------------------------------------------------------------------------------ *)
(** * 2. shapes *)

Definition char_at (s : string) (i : nat) (c : ascii) : bool :=
  match String.get i s with Some d => Ascii.eqb d c | None => false end.

(** src/util/util.cpp:
    [id.size() == 36 && id[8] == '-' && id[13] == '-' && id[18] == '-' && id[23] == '-'] *)
Definition looksLikeUUID (id : string) : bool :=
  Nat.eqb (String.length id) 36 && char_at id 8 dash && char_at id 13 dash && char_at id 18 dash && char_at id 23 dash.

Definition is_lower_hex (c : ascii) : bool :=
  let n := Z.of_nat (nat_of_ascii c) in ((48 <=? n) && (n <=? 57)) || ((97 <=? n) && (n <=? 102)).

Definition dash_pos (i : nat) : bool := Nat.eqb i 8 || Nat.eqb i 13 || Nat.eqb i 18 || Nat.eqb i 23.

(** 36 characters, dashes at 8, 13, 18, 23, lower-case hex digits everywhere else *)
Definition uuid_shape (s : string) : Prop :=
  String.length s = 36%nat /\
  forall i c, String.get i s = Some c -> if dash_pos i then c = dash else is_lower_hex c = true.

Fixpoint shape_from (i : nat) (s : string) : bool :=
  match s with
  | EmptyString => true
  | String c r => (if dash_pos i then Ascii.eqb c dash else is_lower_hex c) && shape_from (S i) r
  end.
Definition uuid_shapeb (s : string) : bool := Nat.eqb (String.length s) 36 && shape_from 0 s.

(** RFC 4122 random uuid: version digit (position 14) is 4, variant digit (position 19) is 8, 9, a or b *)
Definition uuid_v4b (s : string) : bool :=
  char_at s 14 "4"%char && (char_at s 19 "8"%char || char_at s 19 "9"%char || char_at s 19 "a"%char || char_at s 19 "b"%char).

Definition uuid_wellformedb (s : string) : bool := uuid_shapeb s && uuid_v4b s.

(** reading the text back (used to show that [uuid_to_string] loses nothing) *)
Definition unhex (c : ascii) : Z :=
  let n := Z.of_nat (nat_of_ascii c) in if n <=? 57 then n - 48 else n - 87.
Fixpoint undash (s : string) : list ascii :=
  match s with
  | EmptyString => []
  | String c r => if Ascii.eqb c dash then undash r else c :: undash r
  end.
Fixpoint unhex_pairs (l : list ascii) : list Z :=
  match l with
  | a :: b :: r => (unhex a * 16 + unhex b) :: unhex_pairs r
  | _ => []
  end.
Definition uuid_parse (s : string) : list Z := unhex_pairs (undash s).

(* ------------------------------------------------------------------------------------------ *)
(** * 3. seeds *)

(** what differs between the pinned tree and the repaired tree *)
Record behaviour := mkBehaviour {
  dup_frame_reidentifies : bool;   (* createDataFrame has no duplicate check: an existing frame gets a new entity_id *)
  seed_uses_entropy : bool;        (* createId seeds from std::random_device as well as from time(0) *)
  fork_copies_engine : bool        (* the engine is a function-local static: a child forked after the first createId
                                      call inherits the engine's state and repeats the parent's ids *)
}.
(** the pinned tree (every defect) and the fully repaired tree *)
Definition code_today : behaviour := mkBehaviour true false true.
Definition repaired : behaviour := mkBehaviour false true false.

(** THE SWITCH: which behaviour the library under test has.  Set to [repaired] (field by field) by the
    commit that lands the corresponding [fix:] in /repo. *)
Definition current_behaviour : behaviour := repaired.

(** [static boost::mt19937 ran(static_cast<uint32>(std::time(0)))]: the seed is the second, modulo 2^32.
    Repaired: the seed sequence is the second followed by the words drawn from the entropy source
    (abstracted as one number [e]). *)
Definition seed_of (beh : behaviour) (t e : Z) : list Z :=
  if seed_uses_entropy beh then [t mod 4294967296; e] else [t mod 4294967296].

(* ------------------------------------------------------------------------------------------ *)
(** * 4. histories *)

Inductive kind := KBlock | KSection | KProperty | KArray | KFrame | KTag | KMultiTag | KGroup | KSource | KFeature.

Definition kind_eqb (a b : kind) : bool :=
  match a, b with
  | KBlock, KBlock | KSection, KSection | KProperty, KProperty | KArray, KArray | KFrame, KFrame
  | KTag, KTag | KMultiTag, KMultiTag | KGroup, KGroup | KSource, KSource | KFeature, KFeature => true
  | _, _ => false
  end.

(** which kind may be created under which parent ([None] = the file itself) *)
Definition container_ok (k : kind) (pk : option kind) : bool :=
  match k, pk with
  | KBlock, None | KSection, None => true
  | KSection, Some KSection | KProperty, Some KSection => true
  | KArray, Some KBlock | KFrame, Some KBlock | KTag, Some KBlock | KMultiTag, Some KBlock
  | KGroup, Some KBlock | KSource, Some KBlock => true
  | KSource, Some KSource => true
  | KFeature, Some KTag | KFeature, Some KMultiTag => true
  | _, _ => false
  end.

Record entity := mkEnt {
  e_ord : nat;              (* creation ordinal: the name the scripts use *)
  e_kind : kind;
  e_parent : option nat;
  e_name : string;          (* "" for features *)
  e_id : string;            (* the entity_id attribute as stored now *)
  e_id0 : string;           (* ghost: the id the entity was created with (what a caller remembers) *)
  e_live : bool
}.

(** a process: the engine's seed and how many ids it has drawn *)
Record proc := mkProc { p_seed : list Z; p_next : nat }.

Record state := mkState {
  st_ents : list entity;    (* oldest first; deleted ones stay, marked *)
  st_next : nat;            (* next ordinal *)
  st_file : string;         (* the file's id attribute *)
  st_seen : list string;    (* every id ever stored in this file, newest first *)
  st_draws : list (list Z * nat);   (* ghost: every createId call so far on behalf of this file, as (seed, index) *)
  st_proc : proc;           (* the process that has the file open *)
  st_rw : bool              (* open ReadWrite (or Overwrite) / ReadOnly *)
}.

Inductive op :=
| OCreate (k : kind) (parent : option nat) (name : string) (ref : option nat)
    (* ref: the data array of a feature / the positions array of a multi-tag *)
| ODelete (o : nat)
| OForceId
| OSetter (o : nat)                       (* any setter other than an id: type, definition, link type, touch *)
| OReopen (rw : bool)                     (* the same process closes and reopens the file *)
| OCreateOther (t e : Z) (k : kind) (names : list string)
    (* the file is closed; another process started at second [t] with entropy [e] opens it read-write and
       creates top-level blocks / sections with these names; the first process reopens in its old mode *)
| ONewSession (t e : Z) (rw : bool)       (* a new process takes the file over *)
| OFork (t e : Z) (k : kind) (names : list string).
    (* like OCreateOther, but the other process is a child FORKED by the process that has the file open (after
       it has drawn at least the file's id): unless the library re-seeds in the child (then: second [t], entropy
       [e]) the child starts with a copy of the parent's engine *)

Definition opt_nat_eqb (a b : option nat) : bool :=
  match a, b with
  | None, None => true
  | Some x, Some y => Nat.eqb x y
  | _, _ => false
  end.

Definition set_id (e : entity) (id : string) : entity :=
  mkEnt (e_ord e) (e_kind e) (e_parent e) (e_name e) id (e_id0 e) (e_live e).
Definition set_dead (e : entity) : entity :=
  mkEnt (e_ord e) (e_kind e) (e_parent e) (e_name e) (e_id e) (e_id0 e) false.

Definition find_ent (st : state) (o : nat) : option entity :=
  find (fun e => Nat.eqb (e_ord e) o) (st_ents st).
Definition live_ent (st : state) (o : nat) : option entity :=
  match find_ent st o with
  | Some e => if e_live e then Some e else None
  | None => None
  end.

Definition siblings (st : state) (k : kind) (parent : option nat) : list entity :=
  filter (fun e => e_live e && kind_eqb (e_kind e) k && opt_nat_eqb (e_parent e) parent) (st_ents st).

(** the lookups behind has<Entity>(name_or_id): a link of that name, or — for a UUID-shaped argument — an
    entity_id attribute of that value *)
Definition name_hits (s : string) (e : entity) : bool :=
  String.eqb (e_name e) s || (looksLikeUUID s && String.eqb (e_id e) s).
(** openGroup(name, create = true) opens an existing link of that name *)
Definition link_hits (s : string) (e : entity) : bool := String.eqb (e_name e) s.

Definition mem_nat (x : nat) (l : list nat) : bool := existsb (Nat.eqb x) l.
Definition mem_opt (x : option nat) (l : list nat) : bool :=
  match x with Some y => mem_nat y l | None => false end.

(** delete: the entity and everything below it (children have larger ordinals than their parent) *)
Fixpoint kill (dead : list nat) (es : list entity) : list entity :=
  match es with
  | [] => []
  | e :: r =>
    if e_live e && (mem_nat (e_ord e) dead || mem_opt (e_parent e) dead)
    then set_dead e :: kill (e_ord e :: dead) r
    else e :: kill dead r
  end.

Definition reidentify (es : list entity) (o : nat) (id : string) : list entity :=
  map (fun e => if Nat.eqb (e_ord e) o then set_id e id else e) es.

Fixpoint nodupb (l : list string) : bool :=
  match l with
  | [] => true
  | x :: r => negb (existsb (String.eqb x) r) && nodupb r
  end.

(** what both drivers print after every operation: the file id (well-formed?), every live entity
    (ordinal, well-formed?, same id as at creation?), all ids ever stored pairwise distinct? *)
Definition observe (st : state) : bool * list (nat * (bool * bool)) * bool :=
  (uuid_wellformedb (st_file st),
   map (fun e => (e_ord e, (uuid_wellformedb (e_id e), String.eqb (e_id e) (e_id0 e)))) (filter e_live (st_ents st)),
   nodupb (st_seen st)).
(** what the property demands of that observation *)
Definition spec_observe (st : state) : bool * list (nat * (bool * bool)) * bool :=
  (true, map (fun e => (e_ord e, (true, true))) (filter e_live (st_ents st)), true).

Section IdModel.
  (** the engine: n-th [unsigned long] after seeding with [seed] *)
  Variable gen : list Z -> nat -> Z.

  (** k-th id of a process seeded with [s] *)
  Definition supply (s : list Z) (k : nat) : string :=
    uuid_of_words (gen s (2 * k)) (gen s (2 * k + 1)).

  Variable beh : behaviour.

  Definition new_proc (t e : Z) : proc := mkProc (seed_of beh t e) 0.

  (** one call of createId by the process that has the file open *)
  Definition draw (st : state) : string * state :=
    let p := st_proc st in
    (supply (p_seed p) (p_next p),
     mkState (st_ents st) (st_next st) (st_file st) (st_seen st) ((p_seed p, p_next p) :: st_draws st)
             (mkProc (p_seed p) (S (p_next p))) (st_rw st)).

  (** File::open(Overwrite) by a fresh process: createHeader draws the file id *)
  Definition new_file (t e : Z) : state :=
    let p := new_proc t e in
    let id := supply (p_seed p) 0 in
    mkState [] 0 id [id] [(p_seed p, 0%nat)] (mkProc (p_seed p) 1) true.

  Definition add_ent (st : state) (k : kind) (parent : option nat) (name id : string) : state :=
    mkState (st_ents st ++ [mkEnt (st_next st) k parent name id id true]) (S (st_next st)) (st_file st)
            (id :: st_seen st) (st_draws st) (st_proc st) (st_rw st).

  Definition with_ents (st : state) (es : list entity) : state :=
    mkState es (st_next st) (st_file st) (st_seen st) (st_draws st) (st_proc st) (st_rw st).
  Definition with_seen (st : state) (id : string) : state :=
    mkState (st_ents st) (st_next st) (st_file st) (id :: st_seen st) (st_draws st) (st_proc st) (st_rw st).
  Definition with_proc (st : state) (p : proc) : state :=
    mkState (st_ents st) (st_next st) (st_file st) (st_seen st) (st_draws st) p (st_rw st).
  Definition with_rw (st : state) (rw : bool) : state :=
    mkState (st_ents st) (st_next st) (st_file st) (st_seen st) (st_draws st) (st_proc st) rw.
  Definition with_file (st : state) (id : string) : state :=
    mkState (st_ents st) (st_next st) id (id :: st_seen st) (st_draws st) (st_proc st) (st_rw st).

  (** is the request one the scripts may make at all (parent alive and of a fitting kind, referenced array
      alive and in the same block)?  Otherwise both drivers refuse it before any library call. *)
  Definition request_ok (st : state) (k : kind) (parent : option nat) (ref : option nat) : bool :=
    match parent with
    | None => container_ok k None
    | Some p =>
      match live_ent st p with
      | None => false
      | Some pe =>
        container_ok k (Some (e_kind pe)) &&
        match k with
        | KFeature =>
          match ref with
          | Some a => match live_ent st a with
                      | Some ae => kind_eqb (e_kind ae) KArray && opt_nat_eqb (e_parent ae) (e_parent pe)
                      | None => false end
          | None => false
          end
        | KMultiTag =>
          match ref with
          | Some a => match live_ent st a with
                      | Some ae => kind_eqb (e_kind ae) KArray && opt_nat_eqb (e_parent ae) parent
                      | None => false end
          | None => false
          end
        | _ => true
        end
      end
    end.

  (** create<Entity>(name, ...): front-end duplicate check (none for data frames on the pinned tree), then
      the backend draws the id, then creates / opens the group and writes entity_id.  On a read-only file the
      id is drawn and the call fails. *)
  Definition create (st : state) (k : kind) (parent : option nat) (name : string) (ref : option nat) : state * bool :=
    if negb (request_ok st k parent ref) then (st, false) else
    let sibs := siblings st k parent in
    if kind_eqb k KFrame && dup_frame_reidentifies beh then
      let (id, st1) := draw st in
      if negb (st_rw st) then (st1, false) else
      match find (link_hits name) sibs with
      | Some old => (with_seen (with_ents st1 (reidentify (st_ents st1) (e_ord old) id)) id, false)
      | None => (add_ent st1 k parent name id, true)
      end
    else if negb (kind_eqb k KFeature) && existsb (name_hits name) sibs then (st, false)
    else
      let (id, st1) := draw st in
      if st_rw st then (add_ent st1 k parent name id, true) else (st1, false).

  Fixpoint create_all (st : state) (k : kind) (names : list string) : state * bool :=
    match names with
    | [] => (st, true)
    | n :: r =>
      let (st1, ok1) := create st k None n None in
      let (st2, ok2) := create_all st1 k r in
      (st2, ok1 && ok2)
    end.

  (** another process [child] works on the (closed) file read-write, then the owner reopens it in its old mode
      with its own engine state untouched *)
  Definition other_session (st : state) (child : proc) (k : kind) (names : list string) : state * bool :=
    if negb (kind_eqb k KBlock || kind_eqb k KSection) then (st, false) else
    let me := st_proc st in
    let mode := st_rw st in
    let (st1, ok) := create_all (with_rw (with_proc st child) true) k names in
    (with_rw (with_proc st1 me) mode, ok).

  (** the engine a forked child starts with *)
  Definition fork_child (st : state) (t e : Z) : proc :=
    if fork_copies_engine beh then st_proc st else new_proc t e.

  Definition step (st : state) (o : op) : state * bool :=
    match o with
    | OCreate k parent name ref => create st k parent name ref
    | ODelete x =>
      match live_ent st x with
      | Some _ => if st_rw st then (with_ents st (kill [x] (st_ents st)), true) else (st, false)
      | None => (st, false)
      end
    | OForceId =>
      let (id, st1) := draw st in
      if st_rw st then (with_file st1 id, true) else (st1, false)
    | OSetter x =>
      match live_ent st x with
      | Some _ => (st, st_rw st)
      | None => (st, false)
      end
    | OReopen rw => (with_rw st rw, true)
    | OCreateOther t e k names => other_session st (new_proc t e) k names
    | ONewSession t e rw => (with_rw (with_proc st (new_proc t e)) rw, true)
    | OFork t e k names => other_session st (fork_child st t e) k names
    end.

  Definition run_from (st : state) (h : list op) : state := fold_left (fun s o => fst (step s o)) h st.
  (** a history: the file is created by a process started at second [t] with entropy [e], then [h] *)
  Definition run (t e : Z) (h : list op) : state := run_from (new_file t e) h.

  (** the processes of a history: (second, entropy) of the creator and of every later process *)
  Fixpoint later_procs (h : list op) : list (Z * Z) :=
    match h with
    | [] => []
    | OCreateOther t e _ _ :: r => (t, e) :: later_procs r
    | ONewSession t e _ :: r => (t, e) :: later_procs r
    | OFork t e _ _ :: r => (t, e) :: later_procs r
    | _ :: r => later_procs r
    end.
  Definition procs_of (t e : Z) (h : list op) : list (Z * Z) := (t, e) :: later_procs h.
  Definition seeds_of (ps : list (Z * Z)) : list (list Z) := map (fun p => seed_of beh (fst p) (snd p)) ps.

  (** ids of the first n ids of a process *)
  Definition first_ids (s : list Z) (n : nat) : list string := map (supply s) (seq 0 n).

  (** the runtime experiment: do two of the processes started at second [t] with the given entropies share
      an id among their first [n]? *)
  Definition procs_common (t : Z) (es : list Z) (n : nat) : bool :=
    negb (nodupb (flat_map (fun e => first_ids (seed_of beh t e) n) es)).

  (** the fork experiment (separate files): a process seeded at (t, e) draws [pre] >= 1 ids, forks the children
      [cs] (second and entropy each would re-seed with), every child draws [kc] ids, the parent [kp] more *)
  Definition fork_ids (t e : Z) (pre : nat) (cs : list (Z * Z)) (kc kp : nat) : list string :=
    let s := seed_of beh t e in
    map (supply s) (seq 0 (pre + kp)) ++
    flat_map (fun c => if fork_copies_engine beh then map (supply s) (seq pre kc)
                       else first_ids (seed_of beh (fst c) (snd c)) kc) cs.
  Definition fork_common (t e : Z) (pre : nat) (cs : list (Z * Z)) (kc kp : nat) : bool :=
    negb (nodupb (fork_ids t e pre cs kc kp)).
End IdModel.

(** a concrete engine for the model driver and the non-vacuity examples: the words spell the seed and the
    index (injective for seeds of at most two words below 2^40 / 2^32 and fewer than 2^16 ids per process) *)
Definition toy_gen (s : list Z) (n : nat) : Z :=
  if Nat.even n
  then (nth 0 s 0) mod 1099511627776 + 1099511627776 * Z.of_nat (List.length s)
  else 256 * (Z.of_nat (Nat.div2 n) mod 65536 + 65536 * ((nth 1 s 0) mod 4294967296)).

Definition id_of (st : state) (o : nat) : option string :=
  match find_ent st o with Some e => Some (e_id e) | None => None end.
