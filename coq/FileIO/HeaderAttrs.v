(** Abstract view of the attributes of the root group as [FileHDF5::checkHeader] reads them, and the
    hand-written pieces the generated [checkHeader] (Gen/GenFile.v) calls: attribute access and the
    [FormatVersion(const std::vector<int>&)] constructor.  Definitions only. *)
From Coq Require Import ZArith Bool String List.
Require Import NixV.Base.Prelude NixV.Gen.GenVersion.
Import ListNotations.
Local Open Scope Z_scope.

(** the three header attributes: format (string), version (vector<int>), id (string) *)
Record attrs := { a_format : option string; a_version : option (list Z); a_id : option string }.

(** LocID::hasAttr(name) *)
Definition attr_has (a : attrs) (name : string) : bool :=
  if String.eqb name "format" then opt_is_some (a_format a)
  else if String.eqb name "version" then opt_is_some (a_version a)
  else if String.eqb name "id" then opt_is_some (a_id a)
  else false.

(** LocID::getAttr(name, std::string&): true and the value when present; false and the old value otherwise *)
Definition getattr_string (a : attrs) (name : string) (old : string) : bool * string :=
  let v := if String.eqb name "format" then a_format a else if String.eqb name "id" then a_id a else None in
  match v with Some s => (true, s) | None => (false, old) end.

(** LocID::getAttr(name, std::vector<int>&) *)
Definition getattr_ints (a : attrs) (name : string) (old : list Z) : bool * list Z :=
  let v := if String.eqb name "version" then a_version a else None in
  match v with Some s => (true, s) | None => (false, old) end.

(** [FormatVersion(const std::vector<int>&)]: throws unless exactly three entries *)
Definition FormatVersion_of_vector (v : list Z) : res FormatVersion :=
  match v with
  | [x; y; z] => Ok (MkFormatVersion x y z)
  | _ => Err "std::runtime_error"
  end.
