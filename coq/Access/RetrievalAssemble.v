(** C05 / C06 — from per-dimension verdicts to the region: the loop over the dimensions followed by the
    bound check (positionAndExtentInData + the DataView constructor) returns exactly the region of the
    specification, or nix::OutOfBounds when there is none.  Shared by the Tag and the MultiTag proofs. *)
From Coq Require Import ZArith Bool String List Reals Lia Lra.
From Flocq Require Import Core BinarySingleNaN.
Require Import NixV.Base.Prelude NixV.Base.F64 NixV.Base.F64Facts NixV.Gen.GenDimensions.
Require Import NixV.Axis.SearchProofs NixV.Axis.AxisSpec.
Require Import NixV.Access.Retrieval NixV.Access.RetrievalSpec NixV.Access.RetrievalFacts NixV.Access.RetrievalAxis.
Import ListNotations.
Local Open Scope list_scope.
Local Open Scope Z_scope.

(** the outcome of a retrieval against the specification's region *)
Definition region_verdict (incl : bool) (ds : list dimd) (shs : list Z) (ws : list want) (r : res (list Z * list Z)) : Prop :=
  match r with
  | Ok (off, cnt) => region_is incl ds shs ws off cnt
  | Err e => e = E_OutOfBounds /\ forall off cnt, ~ region_is incl ds shs ws off cnt
  | UB _ => False
  end.

(** the loop: iteration i + k works on the k-th dimension and its verdict is [decides] *)
Inductive loop_decides {A} (incl : bool) (f : Z -> A -> res (Z * Z)) : Z -> list dimd -> list Z -> list want -> list A -> Prop :=
| ld_nil i : loop_decides incl f i [] [] [] []
| ld_cons i d ds sh shs w ws a l :
    decides d sh incl w (f i a) -> 1 <= sh <= P52 -> loop_decides incl f (i + 1) ds shs ws l ->
    loop_decides incl f i (d :: ds) (sh :: shs) (w :: ws) (a :: l).

(** results of a loop that ran through: every one is a verdict of the Ok form *)
Inductive results_decide (incl : bool) : list dimd -> list Z -> list want -> list (Z * Z) -> Prop :=
| rd_nil : results_decide incl [] [] [] []
| rd_cons d ds sh shs w ws oc ocs :
    decides d sh incl w (Ok oc) -> 1 <= sh <= P52 -> results_decide incl ds shs ws ocs ->
    results_decide incl (d :: ds) (sh :: shs) (w :: ws) (oc :: ocs).

Lemma region_is_head incl d ds sh shs w ws off cnt :
  region_is incl (d :: ds) (sh :: shs) (w :: ws) off cnt ->
  exists o os c cs, off = o :: os /\ cnt = c :: cs /\ dim_is d sh incl w o c /\ region_is incl ds shs ws os cs.
Proof. intro H. inversion H; subst. do 4 eexists. split; [reflexivity|]. split; [reflexivity|]. split; eassumption. Qed.

Lemma loop_runs {A} incl (f : Z -> A -> res (Z * Z)) : forall l i ds shs ws,
  loop_decides incl f i ds shs ws l ->
  match mapMi f i l with
  | Ok ocs => results_decide incl ds shs ws ocs
  | Err e => e = E_OutOfBounds /\ forall off cnt, ~ region_is incl ds shs ws off cnt
  | UB _ => False
  end.
Proof.
  induction l as [|a l IH]; intros i ds shs ws H; inversion H; subst.
  - cbn [mapMi]. constructor.
  - cbn [mapMi].
    match goal with Hx : decides _ _ _ _ _ |- _ => rename Hx into Hd end.
    match goal with Hx : 1 <= _ <= P52 |- _ => rename Hx into Hsh end.
    match goal with Hx : loop_decides _ _ _ _ _ _ _ |- _ => rename Hx into Hl end.
    destruct (f i a) as [oc|e|u] eqn:E; cbn [bind].
    + specialize (IH (i + 1) _ _ _ Hl). destruct (mapMi f (i + 1) l) as [ocs|e|u]; cbn [bind].
      * constructor; assumption.
      * destruct IH as [-> IH]. split; [reflexivity|]. intros off cnt R.
        apply region_is_head in R. destruct R as (o & os & c & cs & -> & -> & _ & R). exact (IH _ _ R).
      * exact IH.
    + cbn [decides] in Hd. destruct Hd as [-> Hd]. split; [reflexivity|]. intros off cnt R.
      apply region_is_head in R. destruct R as (o & os & c & cs & -> & -> & R & _). exact (Hd _ _ R).
    + exact Hd.
Qed.

(** the bound check on results that are in the no-wrap range *)
Definition fits (shs : list Z) (ocs : list (Z * Z)) : bool :=
  forallb (fun p => fst (snd p) + snd (snd p) <=? fst p) (combine shs ocs).

Lemma results_lengths incl ds shs ws ocs : results_decide incl ds shs ws ocs ->
  List.length shs = List.length ocs.
Proof. induction 1; cbn; congruence. Qed.

Lemma p52_two64 : P52 < two64.
Proof. unfold P52, two64. lia. Qed.

Lemma extent_in_data_eval incl ds shs ws ocs : results_decide incl ds shs ws ocs ->
  extent_in_data shs (map fst ocs) (map snd ocs) = fits shs ocs.
Proof.
  induction 1 as [|d ds sh shs w ws [o c] ocs Hd Hsh _ IH]; [reflexivity|].
  cbn [map extent_in_data fst snd]. unfold fits. cbn [combine forallb fst snd]. fold (fits shs ocs). rewrite IH.
  cbn [decides] in Hd. destruct Hd as (Ho & Hc & Hoc & _). pose proof axis_max_two64. pose proof p52_two64.
  f_equal. destruct (Z_lt_le_dec o sh) as [Hlt|Hge].
  - rewrite u64_sub_small by lia. lia.
  - replace (o >=? sh) with true by lia. rewrite orb_true_r. cbn [orb negb]. lia.
Qed.

Lemma view_outside_eval incl ds shs ws ocs : results_decide incl ds shs ws ocs -> fits shs ocs = true ->
  view_outside shs (map fst ocs) (map snd ocs) = false.
Proof.
  induction 1 as [|d ds sh shs w ws [o c] ocs Hd Hsh _ IH]; [reflexivity|].
  unfold fits. cbn [combine forallb fst snd]. fold (fits shs ocs). intro F. apply andb_true_iff in F. destruct F as [F1 F2].
  cbn [map view_outside fst snd]. rewrite (IH F2).
  cbn [decides] in Hd. destruct Hd as (Ho & Hc & Hoc & _). pose proof p52_two64.
  apply Z.leb_le in F1. rewrite u64_sub_small by lia. lia.
Qed.

Lemma checked_view_eval incl ds shs ws ocs : results_decide incl ds shs ws ocs ->
  checked_view shs (map fst ocs, map snd ocs) =
  if fits shs ocs then Ok (map fst ocs, map snd ocs) else Err E_OutOfBounds.
Proof.
  intro H. pose proof (results_lengths _ _ _ _ _ H) as L.
  unfold checked_view, positionAndExtentInData, mkDataView. cbn [fst snd].
  assert (Z2 : (zlen (map fst ocs) =? zlen shs) = true) by (apply Z.eqb_eq; unfold zlen; rewrite map_length, L; reflexivity).
  assert (Z3 : (zlen (map snd ocs) =? zlen shs) = true) by (apply Z.eqb_eq; unfold zlen; rewrite map_length, L; reflexivity).
  assert (Z2' : (zlen shs =? zlen (map fst ocs)) = true) by (rewrite Z.eqb_sym; exact Z2).
  assert (Z3' : (zlen shs =? zlen (map snd ocs)) = true) by (rewrite Z.eqb_sym; exact Z3).
  rewrite Z2', Z3'. cbn [negb orb]. rewrite (extent_in_data_eval _ _ _ _ _ H).
  destruct (fits shs ocs) eqn:F; cbn [negb]; [|reflexivity].
  rewrite Z2, Z3. cbn [negb]. rewrite (view_outside_eval _ _ _ _ _ H F). reflexivity.
Qed.

Lemma results_verdict incl ds shs ws ocs : results_decide incl ds shs ws ocs ->
  region_verdict incl ds shs ws (checked_view shs (map fst ocs, map snd ocs)).
Proof.
  intro H. rewrite (checked_view_eval _ _ _ _ _ H).
  induction H as [|d ds sh shs w ws [o c] ocs Hd Hsh Hr IH].
  - cbn. constructor.
  - unfold fits. cbn [combine forallb fst snd]. fold (fits shs ocs).
    cbn [decides] in Hd. destruct Hd as (Ho & Hc & Hoc & Hin & Hout).
    destruct (o + c <=? sh) eqn:E.
    + apply Z.leb_le in E. cbn [andb]. destruct (fits shs ocs).
      * cbn [region_verdict map fst snd] in *. constructor; [apply Hin; exact E|exact IH].
      * cbn [region_verdict] in *. destruct IH as [_ IH]. split; [reflexivity|]. intros off cnt R.
        apply region_is_head in R. destruct R as (o' & os & c' & cs & -> & -> & _ & R). exact (IH _ _ R).
    + apply Z.leb_gt in E. cbn [andb region_verdict]. split; [reflexivity|]. intros off cnt R.
      apply region_is_head in R. destruct R as (o' & os & c' & cs & -> & -> & R & _). exact (Hout E _ _ R).
Qed.

(** the whole retrieval for one request: loop over the dimensions, then the bound check *)
Theorem assemble {A} incl (f : Z -> A -> res (Z * Z)) l ds shs ws :
  loop_decides incl f 0 ds shs ws l ->
  region_verdict incl ds shs ws
    (bind (bind (mapMi f 0 l) (fun ocs => Ok (map fst ocs, map snd ocs))) (checked_view shs)).
Proof.
  intro H. pose proof (loop_runs incl f l 0 ds shs ws H) as R.
  destruct (mapMi f 0 l) as [ocs|e|u]; cbn [bind].
  - apply results_verdict. exact R.
  - exact R.
  - exact R.
Qed.

(** a region is unique *)
Lemma region_is_unique incl : forall ds shs ws off cnt off' cnt',
  region_is incl ds shs ws off cnt -> region_is incl ds shs ws off' cnt' -> off = off' /\ cnt = cnt'.
Proof.
  intros ds shs ws off cnt off' cnt' H. revert off' cnt'. induction H; intros off' cnt' H'.
  - inversion H'. split; reflexivity.
  - apply region_is_head in H'. destruct H' as (o' & os' & c' & cs' & -> & -> & D & R).
    destruct (dim_is_unique _ _ _ _ _ _ _ _ H D) as [-> ->]. destruct (IHregion_is _ _ R) as [-> ->]. split; reflexivity.
Qed.

(** from a verdict to the two-way statement *)
Lemma verdict_exact incl ds shs ws r off cnt : region_verdict incl ds shs ws r ->
  (r = Ok (off, cnt) <-> region_is incl ds shs ws off cnt).
Proof.
  intro V. split.
  - intros ->. exact V.
  - intro R. destruct r as [[off' cnt']|e|u]; cbn [region_verdict] in V.
    + destruct (region_is_unique _ _ _ _ _ _ _ _ V R) as [-> ->]. reflexivity.
    + destruct V as [_ V]. exfalso. exact (V _ _ R).
    + contradiction.
Qed.

Lemma verdict_oob incl ds shs ws r : region_verdict incl ds shs ws r ->
  (forall off cnt, ~ region_is incl ds shs ws off cnt) -> r = Err E_OutOfBounds.
Proof.
  intros V N. destruct r as [[off cnt]|e|u]; cbn [region_verdict] in V.
  - exfalso. exact (N _ _ V).
  - destruct V as [-> _]. reflexivity.
  - contradiction.
Qed.
