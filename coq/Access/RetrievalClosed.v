(** C05 / C06 — the premise [conversions_meet_spec] of RetrievalProofs.v is discharged by the C07 theorems
    about the set, data-frame and range conversions (Axis/IntAxisProofs.v, Axis/RangeProofs.v); the sampled
    conversion is used through [sampled_index_spec] inside RetrievalDomain.v.  What remains are statements
    about retrieval with no hypothesis about the conversions. *)
From Coq Require Import ZArith Bool String List Reals Lia.
Require Import NixV.Base.Prelude NixV.Base.F64 NixV.Base.F64Facts NixV.Gen.GenDimensions.
Require NixV.Axis.IntAxisProofs NixV.Axis.RangeProofs.
Require Import NixV.Access.Retrieval NixV.Access.RetrievalSpec NixV.Access.RetrievalAxis NixV.Access.RetrievalDomain
               NixV.Access.RetrievalAssemble NixV.Access.RetrievalTag NixV.Access.RetrievalMTag NixV.Access.RetrievalProofs.
Import ListNotations.
Local Open Scope Z_scope.

Theorem conversions_meet_spec_holds : conversions_meet_spec.
Proof.
  split; [|split].
  - intros p labels m Fp Hp Hl. apply IntAxisProofs.set_index_spec; assumption.
  - intros p k m Fp Hp Hk. apply IntAxisProofs.df_index_spec; assumption.
  - intros ticks p m Fp Ft St. apply RangeProofs.range_index_spec; assumption.
Qed.

Notation HC := conversions_meet_spec_holds.

(* ---- C05 ---- *)
Theorem tagged_exact_c t a m off cnt : tag_ok t a ->
  (taggedData_tag repaired t a m = Ok (off, cnt) <->
   region_is (tag_incl t m) (a_dims a) (a_shape a) (tag_wants t a) off cnt).
Proof. apply tagged_exact. exact HC. Qed.

Theorem tagged_oob_c t a m : tag_ok t a ->
  (forall off cnt, ~ region_is (tag_incl t m) (a_dims a) (a_shape a) (tag_wants t a) off cnt) ->
  taggedData_tag repaired t a m = Err E_OutOfBounds.
Proof. apply tagged_oob. exact HC. Qed.

Theorem tagged_exact_partial_c t a m off cnt : tag_ok t a -> not_pinned t a m ->
  (taggedData_tag repaired_except_pinned t a m = Ok (off, cnt) <->
   region_is (tag_incl t m) (a_dims a) (a_shape a) (tag_wants t a) off cnt).
Proof. apply tagged_exact_partial. exact HC. Qed.

Theorem tagged_oob_partial_c t a m : tag_ok t a -> not_pinned t a m ->
  (forall off cnt, ~ region_is (tag_incl t m) (a_dims a) (a_shape a) (tag_wants t a) off cnt) ->
  taggedData_tag repaired_except_pinned t a m = Err E_OutOfBounds.
Proof. apply tagged_oob_partial. exact HC. Qed.

Theorem tagged_total_c B t a m : tag_ok t a -> B = repaired \/ B = repaired_except_pinned -> pinned_free B t a m ->
  (exists oc, taggedData_tag B t a m = Ok oc) \/ taggedData_tag B t a m = Err E_OutOfBounds.
Proof. apply tagged_total. exact HC. Qed.

Theorem missing_positions_full_dim_c t a m off cnt k sh : tag_ok t a ->
  taggedData_tag repaired t a m = Ok (off, cnt) ->
  (List.length (t_pos t) <= k < List.length (a_dims a))%nat -> nth_error (a_shape a) k = Some sh ->
  nth_error off k = Some 0 /\ nth_error cnt k = Some sh.
Proof. apply missing_positions_full_dim. exact HC. Qed.

Theorem missing_positions_full_dim_inclusive_c t a m off cnt k sh : tag_ok t a -> tag_incl t m = true ->
  taggedData_tag repaired_except_pinned t a m = Ok (off, cnt) ->
  (List.length (t_pos t) <= k < List.length (a_dims a))%nat -> nth_error (a_shape a) k = Some sh ->
  nth_error off k = Some 0 /\ nth_error cnt k = Some sh.
Proof. apply missing_positions_full_dim_inclusive. exact HC. Qed.

Theorem tag_meets_oracle_c t a m :
  match spec_answer (tag_incl t m) a (tag_wants t a) with
  | Region oc => taggedData_tag repaired t a m = Ok oc
  | Refuse => taggedData_tag repaired t a m = Err E_OutOfBounds
  | Unconstrained => True
  end.
Proof. apply tag_meets_oracle. exact HC. Qed.

Theorem tag_meets_oracle_partial_c t a m : not_pinned t a m ->
  match spec_answer (tag_incl t m) a (tag_wants t a) with
  | Region oc => taggedData_tag repaired_except_pinned t a m = Ok oc
  | Refuse => taggedData_tag repaired_except_pinned t a m = Err E_OutOfBounds
  | Unconstrained => True
  end.
Proof. apply tag_meets_oracle_partial. exact HC. Qed.

(* ---- C06 ---- *)
Theorem mtag_exact_c mt a m i off cnt : mtag_ok mt a -> mtag_index_ok mt a i ->
  (taggedData_mtag1 repaired mt i a m = Ok (off, cnt) <-> mtag_region (incl_of m) mt a i off cnt).
Proof. apply mtag_exact. exact HC. Qed.

Theorem mtag_exact_partial_c mt a m i off cnt : mtag_ok mt a -> mtag_not_pinned mt a m -> mtag_index_ok mt a i ->
  (taggedData_mtag1 repaired_except_pinned mt i a m = Ok (off, cnt) <-> mtag_region (incl_of m) mt a i off cnt).
Proof. apply mtag_exact_partial. exact HC. Qed.

Theorem mtag_list_is_map_c mt a m idxs : mtag_ok mt a -> mtag_not_pinned mt a m ->
  idxs <> [] -> (forall i, In i idxs -> mtag_index_ok mt a i) ->
  taggedData_mtag repaired_except_pinned mt idxs a m =
  mapM (fun i => taggedData_mtag1 repaired_except_pinned mt i a m) idxs.
Proof. apply mtag_list_is_map. exact HC. Qed.

Theorem mtag_list_is_map_full_c mt a m idxs : mtag_ok mt a ->
  idxs <> [] -> (forall i, In i idxs -> mtag_index_ok mt a i) ->
  taggedData_mtag repaired mt idxs a m = mapM (fun i => taggedData_mtag1 repaired mt i a m) idxs.
Proof. apply mtag_list_is_map_full. exact HC. Qed.

Theorem mtag_all_positions_c mt a m : mtag_ok mt a -> mtag_not_pinned mt a m ->
  (forall i, 0 <= i < mtag_npos mt -> mtag_index_ok mt a i) ->
  taggedData_mtag repaired_except_pinned mt [] a m =
  mapM (fun i => taggedData_mtag1 repaired_except_pinned mt i a m) (ziota (mtag_npos mt)).
Proof. apply mtag_all_positions. exact HC. Qed.

Theorem mtag_index_oob_c mt a m i : mtag_ok mt a -> mtag_not_pinned mt a m ->
  0 <= i -> mtag_npos mt <= i -> taggedData_mtag1 repaired_except_pinned mt i a m = Err E_OutOfBounds.
Proof. apply mtag_index_oob. exact HC. Qed.

Theorem mtag_meets_oracle_c mt a m i : mtag_not_pinned mt a m -> 0 <= i ->
  match spec_answer_mtag (incl_of m) mt a i with
  | Region oc => taggedData_mtag1 repaired_except_pinned mt i a m = Ok oc
  | Refuse => taggedData_mtag1 repaired_except_pinned mt i a m = Err E_OutOfBounds
  | Unconstrained => True
  end.
Proof. intros Hp Hi. apply mtag_meets_oracle_gen; [exact HC|apply repaired_pinned_flags|right; exact Hp|exact Hi]. Qed.

Theorem mtag_meets_oracle_full_c mt a m i : 0 <= i ->
  match spec_answer_mtag (incl_of m) mt a i with
  | Region oc => taggedData_mtag1 repaired mt i a m = Ok oc
  | Refuse => taggedData_mtag1 repaired mt i a m = Err E_OutOfBounds
  | Unconstrained => True
  end.
Proof. intros Hi. apply mtag_meets_oracle_gen; [exact HC|apply repaired_flags|left; reflexivity|exact Hi]. Qed.
