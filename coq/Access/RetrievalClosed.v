(** C05 / C06 — the premise [conversions_meet_spec] of RetrievalProofs.v is discharged by the C07 theorems
    about the set, data-frame and range conversions (Axis/IntAxisProofs.v, Axis/RangeProofs.v); the sampled
    conversion is used through [sampled_index_spec] inside RetrievalDomain.v.  What remains are statements
    about retrieval with no hypothesis about the conversions. *)
From Coq Require Import ZArith Bool String List Reals Lia.
Require Import NixV.Base.Prelude NixV.Base.F64 NixV.Base.F64Facts NixV.Gen.GenDimensions.
Require NixV.Axis.IntAxisProofs NixV.Axis.RangeProofs.
Require Import NixV.Access.Retrieval NixV.Access.RetrievalSpec NixV.Access.RetrievalAxis NixV.Access.RetrievalDomain
               NixV.Access.RetrievalAssemble NixV.Access.RetrievalTag NixV.Access.RetrievalMTag NixV.Access.RetrievalProofs.
Import ListNotations.
Local Open Scope Z_scope.

Theorem conversions_meet_spec_holds : conversions_meet_spec.
Proof.
  split; [|split].
  - intros p labels m Fp Hp Hl. apply IntAxisProofs.set_index_spec; assumption.
  - intros p k m Fp Hp Hk. apply IntAxisProofs.df_index_spec; assumption.
  - intros ticks p m Fp Ft St. apply RangeProofs.range_index_spec; assumption.
Qed.

Notation HC := conversions_meet_spec_holds.

(* ---- C05 ---- *)
Theorem tagged_exact_c t a m off cnt : tag_ok t a ->
  (taggedData_tag repaired t a m = Ok (off, cnt) <->
   region_is (tag_incl t m) (a_dims a) (a_shape a) (tag_wants t a) off cnt).
Proof. apply tagged_exact. exact HC. Qed.

Theorem tagged_oob_c t a m : tag_ok t a ->
  (forall off cnt, ~ region_is (tag_incl t m) (a_dims a) (a_shape a) (tag_wants t a) off cnt) ->
  taggedData_tag repaired t a m = Err E_OutOfBounds.
Proof. apply tagged_oob. exact HC. Qed.

Theorem tagged_exact_partial_c t a m off cnt : tag_ok t a -> not_pinned t a m ->
  (taggedData_tag repaired_except_pinned t a m = Ok (off, cnt) <->
   region_is (tag_incl t m) (a_dims a) (a_shape a) (tag_wants t a) off cnt).
Proof. apply tagged_exact_partial. exact HC. Qed.

Theorem tagged_oob_partial_c t a m : tag_ok t a -> not_pinned t a m ->
  (forall off cnt, ~ region_is (tag_incl t m) (a_dims a) (a_shape a) (tag_wants t a) off cnt) ->
  taggedData_tag repaired_except_pinned t a m = Err E_OutOfBounds.
Proof. apply tagged_oob_partial. exact HC. Qed.

Theorem tagged_total_c B t a m : tag_ok t a -> B = repaired \/ B = repaired_except_pinned -> pinned_free B t a m ->
  (exists oc, taggedData_tag B t a m = Ok oc) \/ taggedData_tag B t a m = Err E_OutOfBounds.
Proof. apply tagged_total. exact HC. Qed.

Theorem missing_positions_full_dim_c t a m off cnt k sh : tag_ok t a ->
  taggedData_tag repaired t a m = Ok (off, cnt) ->
  (List.length (t_pos t) <= k < List.length (a_dims a))%nat -> nth_error (a_shape a) k = Some sh ->
  nth_error off k = Some 0 /\ nth_error cnt k = Some sh.
Proof. apply missing_positions_full_dim. exact HC. Qed.

Theorem missing_positions_full_dim_inclusive_c t a m off cnt k sh : tag_ok t a -> tag_incl t m = true ->
  taggedData_tag repaired_except_pinned t a m = Ok (off, cnt) ->
  (List.length (t_pos t) <= k < List.length (a_dims a))%nat -> nth_error (a_shape a) k = Some sh ->
  nth_error off k = Some 0 /\ nth_error cnt k = Some sh.
Proof. apply missing_positions_full_dim_inclusive. exact HC. Qed.

Theorem tag_meets_oracle_c t a m :
  match spec_answer (tag_incl t m) a (tag_wants t a) with
  | Region oc => taggedData_tag repaired t a m = Ok oc
  | Refuse => taggedData_tag repaired t a m = Err E_OutOfBounds
  | Unconstrained => True
  end.
Proof. apply tag_meets_oracle. exact HC. Qed.

Theorem tag_meets_oracle_partial_c t a m : not_pinned t a m ->
  match spec_answer (tag_incl t m) a (tag_wants t a) with
  | Region oc => taggedData_tag repaired_except_pinned t a m = Ok oc
  | Refuse => taggedData_tag repaired_except_pinned t a m = Err E_OutOfBounds
  | Unconstrained => True
  end.
Proof. apply tag_meets_oracle_partial. exact HC. Qed.

(* ---- C06 ---- *)
Theorem mtag_exact_c mt a m i off cnt : mtag_ok mt a -> mtag_index_ok mt a i ->
  (taggedData_mtag1 repaired mt i a m = Ok (off, cnt) <-> mtag_region (incl_of m) mt a i off cnt).
Proof. apply mtag_exact. exact HC. Qed.

Theorem mtag_exact_partial_c mt a m i off cnt : mtag_ok mt a -> mtag_not_pinned mt a m -> mtag_index_ok mt a i ->
  (taggedData_mtag1 repaired_except_pinned mt i a m = Ok (off, cnt) <-> mtag_region (incl_of m) mt a i off cnt).
Proof. apply mtag_exact_partial. exact HC. Qed.

Theorem mtag_list_is_map_c mt a m idxs : mtag_ok mt a -> mtag_not_pinned mt a m ->
  idxs <> [] -> (forall i, In i idxs -> mtag_index_ok mt a i) ->
  taggedData_mtag repaired_except_pinned mt idxs a m =
  mapM (fun i => taggedData_mtag1 repaired_except_pinned mt i a m) idxs.
Proof. apply mtag_list_is_map. exact HC. Qed.

Theorem mtag_list_is_map_full_c mt a m idxs : mtag_ok mt a ->
  idxs <> [] -> (forall i, In i idxs -> mtag_index_ok mt a i) ->
  taggedData_mtag repaired mt idxs a m = mapM (fun i => taggedData_mtag1 repaired mt i a m) idxs.
Proof. apply mtag_list_is_map_full. exact HC. Qed.

Theorem mtag_all_positions_c mt a m : mtag_ok mt a -> mtag_not_pinned mt a m ->
  (forall i, 0 <= i < mtag_npos mt -> mtag_index_ok mt a i) ->
  taggedData_mtag repaired_except_pinned mt [] a m =
  mapM (fun i => taggedData_mtag1 repaired_except_pinned mt i a m) (ziota (mtag_npos mt)).
Proof. apply mtag_all_positions. exact HC. Qed.

Theorem mtag_index_oob_c mt a m i : mtag_ok mt a -> mtag_not_pinned mt a m ->
  0 <= i -> mtag_npos mt <= i -> taggedData_mtag1 repaired_except_pinned mt i a m = Err E_OutOfBounds.
Proof. apply mtag_index_oob. exact HC. Qed.

Theorem mtag_meets_oracle_c mt a m i : mtag_not_pinned mt a m -> 0 <= i ->
  match spec_answer_mtag (incl_of m) mt a i with
  | Region oc => taggedData_mtag1 repaired_except_pinned mt i a m = Ok oc
  | Refuse => taggedData_mtag1 repaired_except_pinned mt i a m = Err E_OutOfBounds
  | Unconstrained => True
  end.
Proof. intros Hp Hi. apply mtag_meets_oracle_gen; [exact HC|apply repaired_pinned_flags|right; exact Hp|exact Hi]. Qed.

Theorem mtag_meets_oracle_full_c mt a m i : 0 <= i ->
  match spec_answer_mtag (incl_of m) mt a i with
  | Region oc => taggedData_mtag1 repaired mt i a m = Ok oc
  | Refuse => taggedData_mtag1 repaired mt i a m = Err E_OutOfBounds
  | Unconstrained => True
  end.
Proof. intros Hi. apply mtag_meets_oracle_gen; [exact HC|apply repaired_flags|left; reflexivity|exact Hi]. Qed.

(* ---- non-vacuity: concrete requests that satisfy the hypotheses, with data returned and with a refusal ---- *)

(** 10 x 3 array: sampled axis (interval 0.25, unit ms) x range axis (ticks 1, 2.5, 4); tag at (0.5 ms, 2.5) with
    extent (1.0, 0): samples 2..6 of the first dimension, the tick 2.5 of the second *)
Definition ex_array : darray :=
  mkArray [10; 3] [DSampled (ofME 1 (-2)) None (Some "ms"%string); DRange [ofZ 1; ofME 5 (-1); ofZ 4] None].
Definition ex_tag : tag := mkTag [ofME 1 (-1); ofME 5 (-1)] [ofZ 1; ofZ 0] ["ms"%string; "none"%string] [ex_array] [].

Lemma ex_tag_ok : tag_ok ex_tag ex_array.
Proof.
  constructor.
  - vm_compute. reflexivity.
  - right. reflexivity.
  - vm_compute. discriminate.
  - vm_compute. reflexivity.
  - apply all_spec_wants. vm_compute. reflexivity.
  - intros d [<-|[<-|[]]]; cbn; [|exact I]. vm_compute. discriminate.
Qed.

Example tagged_exact_nonvacuous :
  tag_ok ex_tag ex_array /\ not_pinned ex_tag ex_array RangeMatch_Exclusive /\
  taggedData_tag repaired_except_pinned ex_tag ex_array RangeMatch_Exclusive = Ok ([2; 1], [4; 1]) /\
  region_is (tag_incl ex_tag RangeMatch_Exclusive) (a_dims ex_array) (a_shape ex_array) (tag_wants ex_tag ex_array) [2; 1] [4; 1].
Proof.
  assert (E : taggedData_tag repaired_except_pinned ex_tag ex_array RangeMatch_Exclusive = Ok ([2; 1], [4; 1]))
    by (vm_compute; reflexivity).
  assert (P : not_pinned ex_tag ex_array RangeMatch_Exclusive) by (right; vm_compute; discriminate).
  split; [exact ex_tag_ok|]. split; [exact P|]. split; [exact E|].
  apply (tagged_exact_partial_c ex_tag ex_array RangeMatch_Exclusive [2; 1] [4; 1] ex_tag_ok P). exact E.
Qed.

(** the same tag moved beyond the last sample: refused *)
Definition ex_tag_far : tag := mkTag [ofZ 9; ofME 5 (-1)] [ofZ 1; ofZ 0] [] [ex_array] [].
Lemma ex_tag_far_ok : tag_ok ex_tag_far ex_array.
Proof.
  constructor.
  - vm_compute. reflexivity.
  - right. reflexivity.
  - vm_compute. discriminate.
  - vm_compute. reflexivity.
  - apply all_spec_wants. vm_compute. reflexivity.
  - intros d [<-|[<-|[]]]; cbn; [|exact I]. vm_compute. discriminate.
Qed.

Example tagged_oob_nonvacuous :
  tag_ok ex_tag_far ex_array /\
  taggedData_tag repaired_except_pinned ex_tag_far ex_array RangeMatch_Inclusive = Err E_OutOfBounds /\
  forall off cnt, ~ region_is (tag_incl ex_tag_far RangeMatch_Inclusive) (a_dims ex_array) (a_shape ex_array)
                                (tag_wants ex_tag_far ex_array) off cnt.
Proof.
  split; [exact ex_tag_far_ok|]. split; [vm_compute; reflexivity|].
  intros off cnt R.
  apply (tagged_exact_partial_c ex_tag_far ex_array RangeMatch_Inclusive off cnt ex_tag_far_ok (or_introl eq_refl)) in R.
  vm_compute in R. discriminate.
Qed.

(** a multi-tag with three positions (rows of a 3 x 2 array) and extents on the same array *)
Definition ex_mtag : mtag :=
  mkMTag (mkNd [3; 2] [ofME 1 (-1); ofME 5 (-1);  ofZ 1; ofZ 1;  ofZ 2; ofZ 4])
         (Some (mkNd [3; 2] [ofZ 1; ofZ 0;  ofME 1 (-1); ofZ 3;  ofZ 0; ofZ 0])) [] [ex_array] [].

Lemma ex_mtag_ok : mtag_ok ex_mtag ex_array /\ forall i, In i [0; 1; 2] -> mtag_index_ok ex_mtag ex_array i.
Proof.
  split.
  - constructor; vm_compute; try reflexivity. discriminate.
  - intros i [<-|[<-|[<-|[]]]]; (split; [lia|]); intros _; (split; [vm_compute; reflexivity|apply all_spec_wants; vm_compute; reflexivity]).
Qed.

Example mtag_list_nonvacuous :
  mtag_ok ex_mtag ex_array /\ mtag_not_pinned ex_mtag ex_array RangeMatch_Exclusive /\
  taggedData_mtag repaired_except_pinned ex_mtag [0; 1; 2] ex_array RangeMatch_Exclusive
  = Ok [([2; 1], [4; 1]); ([4; 0], [2; 2]); ([8; 2], [1; 1])] /\
  mtag_region (incl_of RangeMatch_Exclusive) ex_mtag ex_array 1 [4; 0] [2; 2].
Proof.
  destruct ex_mtag_ok as [H1 H2].
  assert (P : mtag_not_pinned ex_mtag ex_array RangeMatch_Exclusive) by (right; vm_compute; discriminate).
  split; [exact H1|]. split; [exact P|]. split; [vm_compute; reflexivity|].
  apply (mtag_exact_partial_c ex_mtag ex_array RangeMatch_Exclusive 1 [4; 0] [2; 2] H1 P (H2 1 ltac:(cbn; tauto))).
  vm_compute. reflexivity.
Qed.

Theorem mtag_views_meet_oracle_c mt a m idxs : mtag_not_pinned mt a m -> (forall i, In i idxs -> 0 <= i) ->
  match spec_mtag_views (incl_of m) mt a idxs with
  | Region vs => taggedData_mtag repaired_except_pinned mt idxs a m = Ok (map strip vs)
  | Refuse => taggedData_mtag repaired_except_pinned mt idxs a m = Err E_OutOfBounds
  | Unconstrained => True
  end.
Proof. intros Hp Hi. apply mtag_views_meet_oracle_gen; [exact HC|apply repaired_pinned_flags|right; exact Hp|exact Hi]. Qed.
