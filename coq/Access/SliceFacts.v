(** C17 / C18 - facts about doubles and unit factors used by the slice proofs:
    multiplication by 1.0 is the identity; getSIScaling for atomic units of power 1 is the quotient of the
    prefix factors (all 21 x 21 prefix pairs of the generated table, by computation). *)
From Coq Require Import ZArith Bool String List Reals Lia Lra.
From Flocq Require Import Core BinarySingleNaN.
Require Import NixV.Base.Prelude NixV.Base.F64 NixV.Base.F64Facts NixV.Gen.GenTables NixV.Data.NDArr
               NixV.Access.View NixV.Access.Slice NixV.Access.SliceSpec.
Import ListNotations.
Local Open Scope Z_scope.

(** * x * 1.0 = x for every double (one NaN) *)

Lemma f64_one_R : B2R f64_one = 1%R /\ finite f64_one.
Proof. unfold f64_one. apply (ofZ_exact 1). lia. Qed.

Theorem fmul_one_r : forall x : F64, fmul x f64_one = x.
Proof.
  intro x. destruct x as [s|s| |s m e B] eqn:Ex.
  - destruct s; reflexivity.
  - destruct s; reflexivity.
  - reflexivity.
  - rewrite <- Ex.
    assert (Fx : is_finite x = true) by (rewrite Ex; reflexivity).
    destruct f64_one_R as [R1 F1].
    pose proof (Bmult_correct prec emax Hprec Hmax mode_NE x f64_one) as H.
    rewrite R1, Rmult_1_r in H.
    rewrite round_generic in H; [|apply valid_rnd_round_mode|apply generic_format_B2R].
    rewrite Rlt_bool_true in H by apply abs_B2R_lt_emax.
    destruct H as (HR & HF & HS).
    unfold finite in F1. rewrite Fx, F1 in HF. cbn [andb] in HF.
    unfold fmul. apply B2R_Bsign_inj.
    + exact HF.
    + exact Fx.
    + exact HR.
    + rewrite HS.
      * replace (Bsign f64_one) with false by reflexivity. apply xorb_false_r.
      * destruct (Bmult mode_NE x f64_one); try reflexivity; discriminate.
Qed.

(** * decidable equality of doubles through their parts *)

Definition f64_same (x y : F64) : bool :=
  match f64_parts x, f64_parts y with
  | Some (s1, m1, e1), Some (s2, m2, e2) => Bool.eqb s1 s2 && (m1 =? m2) && (e1 =? e2)
  | _, _ => false
  end.

Lemma f64_same_eq : forall x y, f64_same x y = true -> x = y.
Proof.
  intros x y H. apply B2SF_inj. unfold f64_same in H.
  destruct x as [s1|s1| |s1 m1 e1 B1]; destruct y as [s2|s2| |s2 m2 e2 B2]; cbn [f64_parts] in H; try discriminate.
  - rewrite !andb_true_iff in H. destruct H as [[H _] _]. apply Bool.eqb_prop in H. subst. reflexivity.
  - rewrite !andb_true_iff in H. destruct H as [[_ H] _]. apply Z.eqb_eq in H. discriminate.
  - rewrite !andb_true_iff in H. destruct H as [[_ H] _]. apply Z.eqb_eq in H. discriminate.
  - rewrite !andb_true_iff in H. destruct H as [[H1 H2] H3].
    apply Bool.eqb_prop in H1. apply Z.eqb_eq in H2, H3. inversion H2. subst. reflexivity.
Qed.

(** * getSIScaling = quotient of the prefix factors *)

Definition known_prefixes : list string := ""%string :: map fst PREFIX_FACTORS.

Definition res_same (r : res F64) (y : F64) : bool :=
  match r with Ok x => f64_same x y | _ => false end.

Definition scaling_table_ok : bool :=
  forallb (fun pa => forallb (fun pb =>
    res_same (si_scaling (pa, "s"%string) (pb, "s"%string)) (fdiv (factor pa) (factor pb))) known_prefixes) known_prefixes.

Lemma scaling_table_checked : scaling_table_ok = true.
Proof. vm_compute. reflexivity. Qed.

(** si_scaling does not look at the base unit beyond comparing it *)
Lemma si_scaling_base : forall pa pb b, si_scaling (pa, b) (pb, b) = si_scaling (pa, "s"%string) (pb, "s"%string).
Proof. intros. unfold si_scaling. cbn [fst snd]. rewrite !String.eqb_refl. reflexivity. Qed.

Theorem si_scaling_fdiv : forall pa pb b, In pa known_prefixes -> In pb known_prefixes ->
  si_scaling (pa, b) (pb, b) = Ok (fdiv (factor pa) (factor pb)).
Proof.
  intros pa pb b Ha Hb. rewrite si_scaling_base.
  pose proof scaling_table_checked as T. unfold scaling_table_ok in T.
  rewrite forallb_forall in T. specialize (T pa Ha). rewrite forallb_forall in T. specialize (T pb Hb).
  unfold res_same in T. destruct (si_scaling (pa, "s"%string) (pb, "s"%string)); try discriminate.
  apply f64_same_eq in T. subst. reflexivity.
Qed.

Lemma si_scaling_other_base : forall a b, String.eqb (snd a) (snd b) = false -> exists e, si_scaling a b = Err e.
Proof. intros a b H. unfold si_scaling. rewrite H. cbn [negb]. eexists. reflexivity. Qed.
