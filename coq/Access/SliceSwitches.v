(** C17 - behaviour switches of the slice / DataView model: one boolean per defect of the pinned
    tree (true = the defect is present).  [code_today] = the pinned code, [repaired] = every defect
    repaired, [repaired_except_pinned] = what the code can become: the loss of the last element of an
    unspecified dimension in Exclusive mode is pinned by the repository's own test
    (testFlexibleTagging / DESIGN.md appendix B.3) and stays.  Definitions only. *)
From Coq Require Import Bool.

Record behaviour := mkBeh {
  (** DESIGN section 9 item 5: dataSlice converts [start[i]] / [end[i]] of the ARGUMENT vectors instead of
      the padded copies: with fewer entries than dimensions it reads past their end *)
  slice_reads_argument_vectors : bool;
  (** a request whose index range is empty but whose end is within epsilon of its start is answered with
      the first coordinate at or after the start - an element whose coordinate is not in [start, end] *)
  slice_point_snaps : bool;
  (** positionAndExtentInData computes position + count - 1 modulo 2^64 *)
  extent_check_wraps : bool;
  (** item 20: the DataView constructor and transform_coordinates compute offset + count modulo 2^64 *)
  view_check_wraps : bool;
  (** appendix B.3 (pinned): unspecified dimensions are padded with first / last coordinate and converted
      like a request, which loses the last element in Exclusive mode *)
  pads_with_positions : bool;
  (** the templates DataSet::getData(T &value, offset) / setData(const T &value, offset) (include/nix/DataSet.hpp) hand an EMPTY
      count to ioRead / ioWrite for a scalar value and an empty offset (setData: for every offset); a DataView reads an
      empty count as "the whole window" and transfers window-many elements from / to the address of one scalar *)
  scalar_template_empty_count : bool;
  (** the template DataSet::getData(T &value, count, offset) hands an EMPTY count on after resizing the value to rank 0 (one
      element: scalar, nix::NDArray); a DataView reads the empty count as "the whole window" *)
  tget3_empty_count : bool
}.

Definition code_today : behaviour := mkBeh true true true true true true true.
Definition repaired : behaviour := mkBeh false false false false false false false.
Definition repaired_except_pinned : behaviour := mkBeh false false false false true false false.
(** /repo at e3eed7c: the C17 patches are in, the scalar templates are not repaired yet *)
Definition repo_e3eed7c : behaviour := mkBeh false false false false true true true.
(** /repo at dc7d826: the scalar templates are repaired (d3b5c46), the three-argument read template is not *)
Definition repo_dc7d826 : behaviour := mkBeh false false false false true false true.

(** THE SWITCH: which behaviour the library under test has; the extracted model driver replays this one.
    Set back to [repaired_except_pinned] once notes/proposed-fixes/C16-dataview-template-empty-count.patch has landed. *)
Definition current_behaviour : behaviour := repaired_except_pinned.

(** the switches that a patch can turn off *)
Definition slices_repaired (B : behaviour) : Prop :=
  slice_reads_argument_vectors B = false /\ slice_point_snaps B = false /\ extent_check_wraps B = false /\
  view_check_wraps B = false.
