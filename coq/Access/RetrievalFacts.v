(** C05 / C06 — generic facts used by the retrieval proofs: x * 1.0 = x on binary64, comparisons of
    finite doubles as real comparisons, filters over 0 .. K-1, the monadic list loops, u64 arithmetic
    without wrap-around, row-major boxes. *)
From Coq Require Import ZArith Bool String List Reals Lia Lra ZifyBool.
From Flocq Require Import Core BinarySingleNaN.
Require Import NixV.Base.Prelude NixV.Base.F64 NixV.Base.F64Facts NixV.Gen.GenDimensions.
Require Import NixV.Axis.SearchProofs NixV.Axis.AxisSpec NixV.Access.Retrieval NixV.Access.RetrievalSpec.
Import ListNotations.
Local Open Scope list_scope.
Local Open Scope Z_scope.

(* ------------------------------------------------------------------------------------------ *)
(** * binary64 *)

Lemma fone_R : B2R fone = 1%R /\ finite fone.
Proof. apply (ofZ_exact 1). lia. Qed.
Lemma fzero_R : B2R fzero = 0%R /\ finite fzero.
Proof. apply (ofZ_exact 0). lia. Qed.

(** multiplying a finite double by 1.0 gives that double back, bit for bit *)
Lemma fmul_one (p : F64) : finite p -> fmul p fone = p.
Proof.
  intro Fp. destruct fone_R as [E1 F1]. unfold fone in *.
  pose proof (Bmult_correct prec emax Hprec Hmax mode_NE p (ofZ 1)) as H.
  rewrite E1, Rmult_1_r in H.
  assert (R : round radix2 (SpecFloat.fexp prec emax) (round_mode mode_NE) (B2R p) = B2R p).
  { apply round_generic; [apply valid_rnd_round_mode|]. apply generic_format_B2R. }
  rewrite R in H.
  rewrite Rlt_bool_true in H by (apply abs_B2R_lt_emax).
  unfold fmul. set (q := Bmult mode_NE p (ofZ 1)) in *.
  destruct H as (HR & HF & HS).
  unfold finite in *. rewrite Fp, F1 in HF. change (true && true) with true in HF.
  apply B2R_Bsign_inj; try assumption.
  rewrite HS.
  - assert (S1 : Bsign (ofZ 1) = false) by (vm_compute; reflexivity). rewrite S1. apply xorb_false_r.
  - destruct q; try discriminate; reflexivity.
Qed.

Lemma fle_false (x y : F64) : finite x -> finite y -> (fle x y = false <-> (B2R y < B2R x)%R).
Proof.
  intros Fx Fy. rewrite (fle_R _ _ Fx Fy). destruct (Rle_bool_spec (B2R x) (B2R y)); split; intros; try easy; lra.
Qed.
Lemma flt_false (x y : F64) : finite x -> finite y -> (flt x y = false <-> (B2R y <= B2R x)%R).
Proof.
  intros Fx Fy. rewrite (flt_R _ _ Fx Fy). destruct (Rlt_bool_spec (B2R x) (B2R y)); split; intros; try easy; lra.
Qed.
Lemma fgt_true (x y : F64) : finite x -> finite y -> (fgt x y = true <-> (B2R y < B2R x)%R).
Proof. intros Fx Fy. unfold fgt. apply flt_true; assumption. Qed.
Lemma fgt_false (x y : F64) : finite x -> finite y -> (fgt x y = false <-> (B2R x <= B2R y)%R).
Proof. intros Fx Fy. unfold fgt. apply flt_false; assumption. Qed.

(** membership of a coordinate in [s, e] / [s, e) as real inequalities *)
Lemma within_true incl s e c : finite s -> finite e -> finite c ->
  (within incl s e c = true <->
   (B2R s <= B2R c)%R /\ (if incl then (B2R c <= B2R e)%R else (B2R c < B2R e)%R)).
Proof.
  intros Fs Fe Fc. unfold within. rewrite andb_true_iff, (fle_true _ _ Fs Fc).
  destruct incl; [rewrite (fle_true _ _ Fc Fe)|rewrite (flt_true _ _ Fc Fe)]; tauto.
Qed.

(** comparisons only see the real value *)
Lemma fle_ext_l (x x' y : F64) : finite x -> finite x' -> finite y -> B2R x = B2R x' -> fle x y = fle x' y.
Proof. intros Fx Fx' Fy E. rewrite (fle_R _ _ Fx Fy), (fle_R _ _ Fx' Fy), E. reflexivity. Qed.
Lemma fle_ext_r (x y y' : F64) : finite x -> finite y -> finite y' -> B2R y = B2R y' -> fle x y = fle x y'.
Proof. intros Fx Fy Fy' E. rewrite (fle_R _ _ Fx Fy), (fle_R _ _ Fx Fy'), E. reflexivity. Qed.
Lemma flt_ext_r (x y y' : F64) : finite x -> finite y -> finite y' -> B2R y = B2R y' -> flt x y = flt x y'.
Proof. intros Fx Fy Fy' E. rewrite (flt_R _ _ Fx Fy), (flt_R _ _ Fx Fy'), E. reflexivity. Qed.

(* ------------------------------------------------------------------------------------------ *)
(** * 0 .. K-1 and filters over it *)

Lemma ziota_nonpos K : K <= 0 -> ziota K = [].
Proof. intro H. unfold ziota. replace (Z.to_nat K) with O by lia. reflexivity. Qed.

Lemma ziota_succ K : 0 <= K -> ziota (K + 1) = ziota K ++ [K].
Proof.
  intro H. unfold ziota. replace (Z.to_nat (K + 1)) with (S (Z.to_nat K)) by lia.
  rewrite seq_S, map_app. cbn [map Nat.add]. f_equal. f_equal. lia.
Qed.

Lemma ziota_length K : List.length (ziota K) = Z.to_nat K.
Proof. unfold ziota. rewrite map_length, seq_length. reflexivity. Qed.

Lemma zlen_ziota K : 0 <= K -> zlen (ziota K) = K.
Proof. intro H. unfold zlen. rewrite ziota_length. lia. Qed.

Lemma In_ziota K i : In i (ziota K) <-> 0 <= i < K.
Proof.
  unfold ziota. rewrite in_map_iff. split.
  - intros (n & <- & Hn). apply in_seq in Hn. lia.
  - intro H. exists (Z.to_nat i). split; [lia|]. apply in_seq. lia.
Qed.

Lemma nth_ziota K k d : (k < Z.to_nat K)%nat -> nth k (ziota K) d = Z.of_nat k.
Proof.
  intro H. unfold ziota. rewrite (nth_indep _ d (Z.of_nat 0)) by (rewrite map_length, seq_length; lia).
  rewrite map_nth, seq_nth by lia. reflexivity.
Qed.

(** a .. b as a list *)
Definition zrange (a b : Z) : list Z := map (Z.add a) (ziota (b - a + 1)).

Lemma zrange_snoc a b : a <= b + 1 -> zrange a (b + 1) = zrange a b ++ [b + 1].
Proof.
  intro H. unfold zrange. replace (b + 1 - a + 1) with ((b - a + 1) + 1) by lia.
  rewrite ziota_succ by lia. rewrite map_app. cbn [map]. do 2 f_equal. lia.
Qed.
Lemma zrange_single a : zrange a a = [a].
Proof. unfold zrange. replace (a - a + 1) with 1 by lia. change (ziota 1) with [0]. cbn [map]. f_equal. lia. Qed.
Lemma zlen_zrange a b : a <= b + 1 -> zlen (zrange a b) = b - a + 1.
Proof. intro H. unfold zrange, zlen. rewrite map_length, ziota_length. lia. Qed.
Lemma hd_zrange a b : a <= b -> exists r, zrange a b = a :: r.
Proof.
  intro H. unfold zrange, ziota.
  replace (Z.to_nat (b - a + 1)) with (S (Z.to_nat (b - a))) by lia.
  cbn [seq map]. eexists. f_equal. lia.
Qed.

(** on a predicate that is convex along 0 .. K-1, the filter is empty or an interval *)
Lemma filter_convex (P : Z -> bool) (M : Z) :
  (forall i j k, 0 <= i <= j -> j <= k -> k < M -> P i = true -> P k = true -> P j = true) ->
  forall n : nat, let K := Z.of_nat n in K <= M ->
  (filter P (ziota K) = [] /\ forall i, 0 <= i < K -> P i = false) \/
  (exists a b, 0 <= a <= b /\ b < K /\ filter P (ziota K) = zrange a b /\
               forall i, 0 <= i < K -> (P i = true <-> a <= i <= b)).
Proof.
  intros Hc. induction n as [|n IH]; intros K HKM.
  - left. split; [reflexivity|]. intros i Hi. lia.
  - subst K. replace (Z.of_nat (S n)) with (Z.of_nat n + 1) in * by lia.
    rewrite ziota_succ by lia. rewrite filter_app. cbn [filter].
    cbv zeta in IH. specialize (IH ltac:(lia)).
    set (N := Z.of_nat n) in *. assert (HN : 0 <= N) by (unfold N; lia).
    destruct (P N) eqn:PK.
    + right. destruct IH as [[E0 H0]|(a & b & Hab & HbK & E & H)].
      * exists N, N. rewrite E0, zrange_single. cbn [app].
        split; [lia|]. split; [lia|]. split; [reflexivity|].
        intros i Hi. split.
        -- intro Pi. destruct (Z.eq_dec i N) as [->|Hne]; [lia|]. rewrite H0 in Pi by lia. discriminate.
        -- intros Hi'. replace i with N by lia. exact PK.
      * assert (Hb : b = N - 1).
        { destruct (Z.eq_dec b (N - 1)) as [|Hne]; [assumption|]. exfalso.
          assert (Pb : P (b + 1) = true).
          { apply (Hc a (b + 1) N); [lia|lia|lia|apply H; lia|exact PK]. }
          apply H in Pb; lia. }
        subst b. exists a, N. rewrite E.
        replace (zrange a N) with (zrange a (N - 1 + 1)) by (f_equal; lia).
        rewrite zrange_snoc by lia. replace (N - 1 + 1) with N by lia.
        split; [lia|]. split; [lia|]. split; [reflexivity|].
        intros i Hi. split.
        -- intro Pi. destruct (Z.eq_dec i N) as [->|Hne]; [lia|]. apply H in Pi; lia.
        -- intros Hi'. destruct (Z.eq_dec i N) as [->|Hne]; [exact PK|]. apply H; lia.
    + rewrite app_nil_r. destruct IH as [[E0 H0]|(a & b & Hab & HbK & E & H)].
      * left. split; [exact E0|]. intros i Hi. destruct (Z.eq_dec i N) as [->|Hne]; [exact PK|]. apply H0. lia.
      * right. exists a, b. split; [lia|]. split; [lia|]. split; [exact E|].
        intros i Hi. split.
        -- intro Pi. destruct (Z.eq_dec i N) as [->|Hne]; [congruence|]. apply H in Pi; lia.
        -- intros Hi'. apply H; lia.
Qed.

(** the head of a filter over 0 .. K-1 is the least index that satisfies the predicate *)
Lemma filter_least (P : Z -> bool) : forall n : nat, let K := Z.of_nat n in
  match filter P (ziota K) with
  | [] => forall i, 0 <= i < K -> P i = false
  | a :: _ => 0 <= a < K /\ P a = true /\ forall j, 0 <= j < K -> P j = true -> a <= j
  end.
Proof.
  induction n as [|n IH]; intro K.
  - cbn. intros i Hi. lia.
  - subst K. replace (Z.of_nat (S n)) with (Z.of_nat n + 1) by lia.
    rewrite ziota_succ by lia. rewrite filter_app. cbn [filter]. cbv zeta in IH.
    set (N := Z.of_nat n) in *. assert (HN : 0 <= N) by (unfold N; lia).
    destruct (filter P (ziota N)) as [|a r] eqn:E.
    + cbn [app]. destruct (P N) eqn:PK.
      * split; [lia|]. split; [exact PK|]. intros j Hj Pj.
        destruct (Z.eq_dec j N) as [->|Hne]; [lia|]. rewrite IH in Pj by lia. discriminate.
      * intros i Hi. destruct (Z.eq_dec i N) as [->|Hne]; [exact PK|]. apply IH. lia.
    + cbn [app]. destruct IH as (Ha & Pa & Hm). split; [lia|]. split; [exact Pa|].
      intros j Hj Pj. destruct (Z.eq_dec j N) as [->|Hne]; [lia|]. apply Hm; [lia|exact Pj].
Qed.

(* ------------------------------------------------------------------------------------------ *)
(** * the loops *)

Lemma mapMi_length {A B} (f : Z -> A -> res B) : forall l i rs, mapMi f i l = Ok rs -> List.length rs = List.length l.
Proof.
  induction l as [|a l IH]; intros i rs H; cbn [mapMi] in H.
  - injection H as <-. reflexivity.
  - destruct (f i a); try discriminate. cbn [bind] in H.
    destruct (mapMi f (i + 1) l) eqn:E; try discriminate. cbn [bind] in H. injection H as <-.
    cbn [List.length]. f_equal. eapply IH. exact E.
Qed.

(** a loop whose every iteration is total with the one error class [e0] is itself so *)
Lemma mapMi_cases {A B} (f : Z -> A -> res B) (e0 : string) : forall l i,
  (forall k a, nth_error l k = Some a -> (exists b, f (i + Z.of_nat k) a = Ok b) \/ f (i + Z.of_nat k) a = Err e0) ->
  (exists rs, mapMi f i l = Ok rs /\ List.length rs = List.length l /\
              forall k a, nth_error l k = Some a -> exists b, nth_error rs k = Some b /\ f (i + Z.of_nat k) a = Ok b) \/
  (mapMi f i l = Err e0 /\ exists k a, nth_error l k = Some a /\ f (i + Z.of_nat k) a = Err e0).
Proof.
  induction l as [|a l IH]; intros i H.
  - left. exists []. repeat split. intros k a Hk. destruct k; discriminate.
  - cbn [mapMi]. destruct (H O a eq_refl) as [(b & Hb)|He]; replace (i + Z.of_nat 0) with i in * by lia.
    + rewrite Hb. cbn [bind].
      destruct (IH (i + 1)) as [(rs & E & L & Hn)|(E & k & a' & Hk & He)].
      * intros k a' Hk. specialize (H (S k) a' Hk). replace (i + 1 + Z.of_nat k) with (i + Z.of_nat (S k)) by lia. exact H.
      * left. exists (b :: rs). rewrite E. cbn [bind]. repeat split; [cbn; lia|].
        intros k a' Hk. destruct k as [|k].
        -- cbn in Hk. injection Hk as <-. exists b. split; [reflexivity|]. replace (i + Z.of_nat 0) with i by lia. exact Hb.
        -- cbn in Hk. destruct (Hn k a' Hk) as (b' & Hb' & Hf). exists b'. split; [exact Hb'|].
           replace (i + Z.of_nat (S k)) with (i + 1 + Z.of_nat k) by lia. exact Hf.
      * right. rewrite E. cbn [bind]. split; [reflexivity|]. exists (S k), a'. split; [exact Hk|].
        replace (i + Z.of_nat (S k)) with (i + 1 + Z.of_nat k) by lia. exact He.
    + right. rewrite He. cbn [bind]. split; [reflexivity|]. exists O, a. split; [reflexivity|].
      replace (i + Z.of_nat 0) with i by lia. exact He.
Qed.

Lemma mapMi_ext {A B} (f g : Z -> A -> res B) : forall l i,
  (forall k a, nth_error l k = Some a -> f (i + Z.of_nat k) a = g (i + Z.of_nat k) a) ->
  mapMi f i l = mapMi g i l.
Proof.
  induction l as [|a l IH]; intros i H; [reflexivity|]. cbn [mapMi].
  pose proof (H O a eq_refl) as H0. replace (i + Z.of_nat 0) with i in H0 by lia. rewrite H0.
  destruct (g i a); cbn [bind]; try reflexivity.
  rewrite (IH (i + 1)); [reflexivity|]. intros k a' Hk.
  specialize (H (S k) a' Hk). replace (i + 1 + Z.of_nat k) with (i + Z.of_nat (S k)) by lia. exact H.
Qed.

Lemma mapM_as_mapMi {A B} (f : A -> res B) : forall l i, mapM f l = mapMi (fun _ a => f a) i l.
Proof.
  induction l as [|a l IH]; intro i; [reflexivity|]. cbn [mapM mapMi]. destruct (f a); cbn [bind]; try reflexivity.
  rewrite (IH (i + 1)). reflexivity.
Qed.

(* ------------------------------------------------------------------------------------------ *)
(** * u64 arithmetic in range *)

Lemma count_no_wrap a b : 0 <= a <= b -> b < two64 - 1 -> u64_add 1 (u64_sub b a) = b - a + 1.
Proof.
  intros H Hb. rewrite u64_sub_small by lia. rewrite u64_add_small by lia. lia.
Qed.

Lemma last_index_no_wrap o c : 0 <= o -> 1 <= c -> o + c < two64 -> u64_sub (u64_add o c) 1 = o + c - 1.
Proof.
  intros Ho Hc H. rewrite u64_add_small by lia. rewrite u64_sub_small by lia. reflexivity.
Qed.
