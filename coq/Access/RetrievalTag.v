(** C05 — Tag retrieval: the code path of getOffsetAndCount(Tag ...) reduces, dimension by dimension, to the
    clean conversion of RetrievalAxis.v, whose verdicts RetrievalAssemble.v assembles into the region. *)
From Coq Require Import ZArith Bool String List Reals Lia Lra.
From Flocq Require Import Core BinarySingleNaN.
Require Import NixV.Base.Prelude NixV.Base.F64 NixV.Base.F64Facts NixV.Gen.GenDimensions NixV.Gen.GenTables.
Require Import NixV.Axis.RangeModel NixV.Axis.AxisSpec.
Require Import NixV.Access.Retrieval NixV.Access.RetrievalSpec NixV.Access.RetrievalFacts NixV.Access.RetrievalAxis
               NixV.Access.RetrievalDomain NixV.Access.RetrievalAssemble.
Import ListNotations.
Local Open Scope list_scope.
Local Open Scope Z_scope.

(* ------------------------------------------------------------------------------------------ *)
(** * binary64: adding a zero, multiplying equal reals *)

Lemma feq_zero_is_zero (e : F64) : feq e fzero = true -> exists s, e = B754_zero s.
Proof.
  unfold feq, fzero, Beqb. destruct e as [s|s| |s m x B]; intro H.
  - exists s. reflexivity.
  - exfalso. vm_compute in H. destruct s; discriminate.
  - exfalso. vm_compute in H. discriminate.
  - exfalso. revert H. unfold SpecFloat.SFeqb. cbn. destruct s; discriminate.
Qed.

Lemma fadd_zero (p e : F64) : finite p -> feq e fzero = true -> B2R (fadd p e) = B2R p /\ finite (fadd p e).
Proof.
  intros Fp He. destruct (feq_zero_is_zero e He) as (s & ->).
  pose proof (Bplus_correct prec emax Hprec Hmax mode_NE p (B754_zero s) Fp eq_refl) as H.
  cbn [B2R] in H. rewrite Rplus_0_r in H.
  assert (R : round radix2 (SpecFloat.fexp prec emax) (round_mode mode_NE) (B2R p) = B2R p).
  { apply round_generic; [apply valid_rnd_round_mode|]. apply generic_format_B2R. }
  rewrite R in H. rewrite Rlt_bool_true in H by (apply abs_B2R_lt_emax).
  destruct H as (H1 & H2 & _). split; assumption.
Qed.

Lemma fmul_ext (x x' y : F64) : finite x -> finite x' -> finite y -> B2R x = B2R x' -> finite (fmul x y) ->
  finite (fmul x' y) /\ B2R (fmul x' y) = B2R (fmul x y).
Proof.
  intros Fx Fx' Fy E Fm.
  pose proof (Bmult_correct prec emax Hprec Hmax mode_NE x y) as H.
  pose proof (Bmult_correct prec emax Hprec Hmax mode_NE x' y) as H'.
  rewrite <- E in H'. unfold fmul in *.
  destruct (Rlt_bool _ _) eqn:L.
  - destruct H as (H1 & H2 & _). destruct H' as (H1' & H2' & _). unfold finite in *.
    rewrite Fx', Fy in H2'. split; [exact H2'|]. rewrite H1, H1'. reflexivity.
  - exfalso. unfold finite in Fm. rewrite <- is_finite_SF_B2SF in Fm. rewrite H in Fm.
    unfold binary_overflow in Fm. simpl in Fm. discriminate.
Qed.

(* ------------------------------------------------------------------------------------------ *)
(** * lists *)

Lemma nth_error_firstn {A} : forall n (l : list A) k,
  nth_error (firstn n l) k = if (k <? n)%nat then nth_error l k else None.
Proof.
  induction n as [|n IH]; intros l k.
  - cbn. destruct k; reflexivity.
  - destruct l as [|a l].
    + cbn [firstn]. destruct (k <? S n)%nat; destruct k; reflexivity.
    + destruct k as [|k]; [reflexivity|]. cbn [firstn nth_error]. rewrite IH.
      change (S k <? S n)%nat with (k <? n)%nat. reflexivity.
Qed.

Lemma nth_error_skipn {A} : forall n (l : list A) k, nth_error (skipn n l) k = nth_error l (n + k).
Proof.
  induction n as [|n IH]; intros l k; [reflexivity|].
  destruct l as [|a l]; [cbn; destruct k; reflexivity|]. cbn [skipn Nat.add nth_error]. apply IH.
Qed.

Lemma nth_error_zrepeat {A} (a : A) n k : (Z.of_nat k < n) -> nth_error (zrepeat a n) k = Some a.
Proof. intro H. unfold zrepeat. apply nth_error_repeat. lia. Qed.

Lemma zrepeat_length {A} (a : A) n : List.length (zrepeat a n) = Z.to_nat n.
Proof. unfold zrepeat. apply repeat_length. Qed.

Lemma nth_error_zip4 : forall ps es us ds k r, nth_error (zip4 ps es us ds) k = Some r ->
  exists p e u d, nth_error ps k = Some p /\ nth_error es k = Some e /\ nth_error us k = Some u /\
                  nth_error ds k = Some d /\ r = mkReq p e u d.
Proof.
  induction ps as [|p ps IH]; intros es us ds k r H; [cbn in H; destruct k; discriminate|].
  destruct es as [|e es]; [cbn in H; destruct k; discriminate|].
  destruct us as [|u us]; [cbn in H; destruct k; discriminate|].
  destruct ds as [|d ds]; [cbn in H; destruct k; discriminate|].
  cbn [zip4] in H. destruct k as [|k].
  - cbn in H. injection H as <-. exists p, e, u, d. repeat split.
  - cbn [nth_error] in *. apply IH. exact H.
Qed.

Lemma zip4_length : forall ps es us ds n, List.length ps = n -> List.length es = n -> List.length us = n ->
  List.length ds = n -> List.length (zip4 ps es us ds) = n.
Proof.
  induction ps as [|p ps IH]; intros es us ds n Hp He Hu Hd.
  - cbn in *. congruence.
  - destruct es, us, ds; cbn in *; try lia. destruct n; [lia|]. f_equal. apply IH; lia.
Qed.

Lemma nth_error_wants_from units : forall ds k0 pos ext k w,
  nth_error (wants_from units k0 ds pos ext) k = Some w ->
  exists d, nth_error ds k = Some d /\
            w = want_of units (k0 + k) d (nth_error pos k)
                        (match ext with Some es => nth_error es k | None => None end).
Proof.
  induction ds as [|d ds IH]; intros k0 pos ext k w H; [cbn in H; destruct k; discriminate|].
  cbn [wants_from] in H. destruct k as [|k].
  - cbn in H. injection H as <-. exists d. split; [reflexivity|].
    replace (k0 + 0)%nat with k0 by lia. f_equal; try (destruct pos; reflexivity); try (destruct ext as [[|]|]; reflexivity).
  - cbn [nth_error] in H. apply IH in H. destruct H as (d' & Hd & ->). exists d'. split; [exact Hd|].
    replace (S k0 + k)%nat with (k0 + S k)%nat by lia.
    f_equal; try (destruct pos; [destruct k|]; reflexivity).
    destruct ext as [[|e es]|]; try reflexivity. destruct k; reflexivity.
Qed.

Lemma wants_from_length units : forall ds k0 pos ext, List.length (wants_from units k0 ds pos ext) = List.length ds.
Proof. induction ds as [|d ds IH]; intros; cbn; [reflexivity|]. f_equal. apply IH. Qed.

Lemma loop_decides_build {A} incl (f : Z -> A -> res (Z * Z)) : forall ds shs ws l i,
  List.length shs = List.length ds -> List.length ws = List.length ds -> List.length l = List.length ds ->
  (forall k d sh w a, nth_error ds k = Some d -> nth_error shs k = Some sh -> nth_error ws k = Some w ->
                      nth_error l k = Some a -> decides d sh incl w (f (i + Z.of_nat k) a) /\ 1 <= sh <= P52) ->
  loop_decides incl f i ds shs ws l.
Proof.
  induction ds as [|d ds IH]; intros shs ws l i Hs Hw Hl H.
  - destruct shs, ws, l; try discriminate. constructor.
  - destruct shs as [|sh shs], ws as [|w ws], l as [|a l]; try discriminate.
    destruct (H O d sh w a eq_refl eq_refl eq_refl eq_refl) as [Hd Hsh]. replace (i + Z.of_nat 0) with i in Hd by lia.
    constructor; [exact Hd|exact Hsh|].
    apply IH; try (cbn in *; lia).
    intros k d' sh' w' a' H1 H2 H3 H4. replace (i + 1 + Z.of_nat k) with (i + Z.of_nat (S k)) by lia.
    apply (H (S k)); assumption.
Qed.

Lemma dims_dom_nth : forall ds shs, dims_dom ds shs = true ->
  List.length shs = List.length ds /\
  forall k d sh, nth_error ds k = Some d -> nth_error shs k = Some sh -> dim_dom d sh = true.
Proof.
  induction ds as [|d ds IH]; intros [|sh shs] H; cbn [dims_dom] in H; try discriminate.
  - split; [reflexivity|]. intros k d sh Hk. destruct k; discriminate.
  - apply andb_true_iff in H. destruct H as [Hd Hr]. destruct (IH _ Hr) as [L N]. split; [cbn; lia|].
    intros k d' sh' H1 H2. destruct k as [|k]; [cbn in *; congruence|]. apply (N k); assumption.
Qed.

Lemma wants_dom_nth : forall ds ws, wants_dom ds ws = true ->
  forall k d w, nth_error ds k = Some d -> nth_error ws k = Some w -> want_dom d w = true.
Proof.
  induction ds as [|d ds IH]; intros ws H k d' w H1 H2; [destruct k; discriminate|].
  destruct ws as [|w0 ws]; [destruct k; discriminate|]. cbn [wants_dom] in H.
  apply andb_true_iff in H. destruct H as [Hd Hr].
  destruct k as [|k]; [cbn in *; congruence|]. apply (IH _ Hr k); assumption.
Qed.

(* ------------------------------------------------------------------------------------------ *)
(** * units *)

(** the units of the dimension descriptors are atomic SI units of the generated tables *)
Definition units_atomic (ds : list dimd) : Prop :=
  forall d, In d ds ->
  match d with
  | DSampled _ _ (Some u) | DRange _ (Some u) => split_atomic u <> None
  | _ => True
  end.

Lemma split_none : split_atomic "none" = None.
Proof. vm_compute. reflexivity. Qed.

Lemma getSIScaling_self u : split_atomic u <> None -> getSIScaling u u = Ok fone.
Proof.
  intro H. unfold getSIScaling. destruct (split_atomic u) as [[p b]|]; [|contradiction].
  rewrite !String.eqb_refl. reflexivity.
Qed.

Lemma scaling_not_none u dus k : getSIScaling u dus = Ok k -> is_none_unit dus = false /\ is_none_unit u = false.
Proof.
  intro H. split.
  - destruct (is_none_unit dus) eqn:E; [|reflexivity]. exfalso. apply String.eqb_eq in E. subst dus.
    unfold getSIScaling in H. rewrite split_none in H. destruct (split_atomic u) as [[? ?]|]; discriminate.
  - destruct (is_none_unit u) eqn:E; [|reflexivity]. exfalso. apply String.eqb_eq in E. subst u.
    unfold getSIScaling in H. rewrite split_none in H. discriminate.
Qed.

Lemma fmul_finite_inv (x y : F64) : finite (fmul x y) -> finite x /\ finite y.
Proof.
  unfold finite, fmul, Bmult. destruct x, y; cbn; intro H; try discriminate; split; reflexivity.
Qed.

Lemma scaled_finite_inv sc p : finite (scaled sc p) -> finite p.
Proof. destruct sc as [k|]; cbn [scaled]; intro H; [apply (fmul_finite_inv p k H)|exact H]. Qed.

(** the vector overload on one start / end pair *)
Lemma pti_vec_single (p pe : F64) (u : string) (m : RangeMatch) (d : dimd) sc :
  spec_scaling u d = Some sc -> finite p -> finite pe ->
  positionToIndex_vec [p] [pe] [u] m d =
  bind (indexOf_pair d m (scaled sc p) (scaled sc pe)) (fun r => Ok [r]).
Proof.
  intros Hsc Fp Fpe.
  assert (Tail : forall s e, indexOf_vec d m [s] [e] = bind (indexOf_pair d m s e) (fun r => Ok [r])).
  { intros s e. unfold indexOf_vec. cbn [zlen List.length]. cbn [Z.eqb Z.of_nat Pos.eqb negb indexOf_pairs].
    destruct (indexOf_pair d m s e); reflexivity. }
  assert (Scale : forall du,
            (d = DSampled (match d with DSampled dt _ _ => dt | _ => fzero end) (match d with DSampled _ o _ => o | _ => None end) du \/
             d = DRange (match d with DRange t _ => t | _ => [] end) du) ->
            scalePositions [p] [pe] [u] (dim_unit_str du) = Ok ([scaled sc p], [scaled sc pe])).
  { intros du Hd. cbn [scalePositions].
    assert (Hs : spec_scaling u d = (if is_none_unit u then Some None
                                     else match du with None => None
                                          | Some dus => match getSIScaling u dus with Ok k => Some (Some k) | _ => None end end)).
    { destruct Hd as [-> | ->]; reflexivity. }
    rewrite Hs in Hsc. destruct (is_none_unit u) eqn:Eu.
    - injection Hsc as <-. cbn [negb andb bind scaled fst snd]. rewrite !fmul_one by assumption. reflexivity.
    - destruct du as [dus|]; [|discriminate]. destruct (getSIScaling u dus) as [k| |] eqn:Ek; try discriminate.
      injection Hsc as <-. destruct (scaling_not_none _ _ _ Ek) as [Nd _].
      cbn [dim_unit_str]. rewrite Nd. cbn [negb andb]. unfold scaling_or_incompatible. rewrite Ek. reflexivity. }
  destruct d as [dt off du|ticks du|n|n]; cbn [positionToIndex_vec].
  - cbn [zlen List.length]. cbn [Z.eqb Z.of_nat Pos.eqb negb orb]. rewrite (Scale du) by (left; reflexivity).
    cbn [bind fst snd]. apply Tail.
  - cbn [zlen List.length]. cbn [Z.eqb Z.of_nat Pos.eqb negb orb]. rewrite (Scale du) by (right; reflexivity).
    cbn [bind fst snd]. apply Tail.
  - cbn [spec_scaling] in Hsc. injection Hsc as <-. cbn [zlen List.length]. cbn [Z.eqb Z.of_nat Pos.eqb negb]. apply Tail.
  - cbn [spec_scaling] in Hsc. injection Hsc as <-. cbn [zlen List.length]. cbn [Z.eqb Z.of_nat Pos.eqb negb]. apply Tail.
Qed.

(** the scalar overload *)
Lemma pti_one (p : F64) (u : string) (d : dimd) sc :
  spec_scaling u d = Some sc -> finite p ->
  positionToIndex_one p u GE d = indexOf_scalar d (scaled sc p) GE.
Proof.
  intros Hsc Fp. destruct d as [dt off du|ticks du|n|n]; cbn [positionToIndex_one spec_scaling] in *.
  - destruct (is_none_unit u) eqn:Eu.
    + injection Hsc as <-. cbn [negb scaled]. destruct du; cbn [bind]; rewrite fmul_one by assumption; reflexivity.
    + destruct du as [dus|]; [|discriminate]. destruct (getSIScaling u dus) as [k| |] eqn:Ek; try discriminate.
      injection Hsc as <-. cbn [negb]. unfold scaling_or_incompatible. rewrite Ek. reflexivity.
  - destruct (is_none_unit u) eqn:Eu.
    + injection Hsc as <-. cbn [negb scaled bind]. rewrite fmul_one by assumption. reflexivity.
    + destruct du as [dus|]; [|discriminate]. destruct (getSIScaling u dus) as [k| |] eqn:Ek; try discriminate.
      injection Hsc as <-. cbn [negb dim_unit_str]. unfold scaling_or_incompatible. rewrite Ek. reflexivity.
  - injection Hsc as <-. reflexivity.
  - injection Hsc as <-. reflexivity.
Qed.

(* ------------------------------------------------------------------------------------------ *)
(** * one dimension of getOffsetAndCount(Tag ...) is the clean conversion *)

(** a dimension the tag specifies *)
Lemma tag_dim_specified B specified shape m k p e u d sh sc :
  pad_end_is_last B = true -> (k <? specified) = true ->
  axis_ok d sh -> spec_scaling u d = Some sc ->
  finite p -> finite (fadd p e) -> finite (scaled sc p) -> conv_dom d (scaled sc p) ->
  tag_dim B specified shape m k (mkReq p e u d) =
  clean_dim d m (scaled sc p) (scaled sc (fadd p e)) (feq e fzero) (scaled sc p).
Proof.
  intros HB Hk A Hsc Fp Fpe Fs Ds. unfold tag_dim. cbn [r_pos r_ext r_unit r_dim].
  replace (specified <=? k) with false by lia. rewrite andb_false_r. rewrite Hk, HB. cbn [negb andb].
  rewrite (pti_vec_single p (fadd p e) u m d sc Hsc Fp Fpe).
  rewrite (pti_one p u d sc Hsc Fp).
  destruct (ax_conv d sh A (scaled sc p) GE Fs Ds) as (r & Er & _).
  unfold clean_dim. destruct (indexOf_pair d m (scaled sc p) (scaled sc (fadd p e))) as [[[a b]|]| |]; cbn [bind]; try reflexivity.
  rewrite Er. cbn [bind]. unfold fne. change (Beqb e fzero) with (feq e fzero).
  destruct (feq e fzero); cbn [negb]; destruct r; reflexivity.
Qed.

(** a dimension the tag does not specify, padded with (first, last coordinate), after the repair of item 28 *)
Lemma tag_dim_padded B specified shape m k u d sh sc :
  pad_end_is_last B = true -> pad_index_range B = false -> (k <? specified) = false ->
  axis_ok d sh -> spec_scaling u d = Some sc ->
  (forall x, finite x -> scaled sc x = x) ->
  conv_dom d (coord d 0) ->
  tag_dim B specified shape m k (mkReq (coord d 0) (coord d (sh - 1)) u d) =
  clean_dim d m (coord d 0) (coord d (sh - 1)) true (coord d 0).
Proof.
  intros HB HP Hk A Hsc Hid D0. unfold tag_dim. cbn [r_pos r_ext r_unit r_dim].
  rewrite HP, Hk, HB. cbn [negb andb].
  destruct (ax_pos d sh A) as [Hsh Hal].
  assert (F0 : finite (coord d 0)) by (apply (ax_fin d sh A); lia).
  assert (F1 : finite (coord d (sh - 1))) by (apply (ax_fin d sh A); lia).
  rewrite (pti_vec_single _ _ u m d sc Hsc F0 F1). rewrite (pti_one _ u d sc Hsc F0).
  rewrite !Hid by assumption.
  destruct (ax_conv d sh A (coord d 0) GE F0 D0) as (r & Er & _).
  unfold clean_dim. destruct (indexOf_pair d m (coord d 0) (coord d (sh - 1))) as [[[a b]|]| |]; cbn [bind]; try reflexivity.
  all: rewrite Er; cbn [bind]; destruct r; reflexivity.
Qed.

(* ------------------------------------------------------------------------------------------ *)
(** * domain facts of a single want *)

Lemma want_ok d x :
  (fis_finite x && match d with DSet _ | DFrame _ => flt x (ofZ P52) | _ => true end) = true ->
  finite x /\ conv_dom d x.
Proof.
  intro H. apply andb_true_iff in H. destruct H as [F C]. split; [exact F|].
  destruct d; cbn [conv_dom]; try exact I.
  - destruct (ofZ_exact P52 ltac:(unfold P52; lia)) as [E Fz]. apply (flt_true _ _ F Fz) in C. rewrite E in C. exact C.
  - destruct (ofZ_exact P52 ltac:(unfold P52; lia)) as [E Fz]. apply (flt_true _ _ F Fz) in C. rewrite E in C. exact C.
Qed.

Lemma conv_dom_ext d x y : B2R x = B2R y -> conv_dom d x -> conv_dom d y.
Proof. intros E. destruct d; cbn [conv_dom]; try tauto; rewrite E; tauto. Qed.

(** the verdict on a dimension the tag specifies, from the want the specification derives for it *)
Lemma specified_decides B specified shape m k d sh units p eo :
  pad_end_is_last B = true -> (k <? specified) = true -> axis_ok d sh ->
  let w := want_of units (Z.to_nat k) d (Some p) eo in
  w <> WNoSpec -> want_dom d w = true ->
  decides d sh (incl_of m) w
    (tag_dim B specified shape m k (mkReq p (match eo with Some e => e | None => fzero end) (unit_of units (Z.to_nat k) d) d)).
Proof.
  intros HB Hk A w Hw Hd. subst w. unfold want_of in *.
  set (u := unit_of units (Z.to_nat k) d) in *.
  destruct (spec_scaling u d) as [sc|] eqn:Hsc; [|contradiction].
  set (e := match eo with Some e => e | None => fzero end).
  assert (Point : forall (Pt : feq e fzero = true), want_dom d (WPoint (scaled sc p)) = true ->
            decides d sh (incl_of m) (WPoint (scaled sc p)) (tag_dim B specified shape m k (mkReq p e u d))).
  { intros Pt Hd'. cbn [want_dom] in Hd'. destruct (want_ok _ _ Hd') as [Fs Ds].
    pose proof (scaled_finite_inv _ _ Fs) as Fp.
    destruct (fadd_zero p e Fp Pt) as [Epe Fpe].
    assert (Fe' : finite (scaled sc (fadd p e)) /\ B2R (scaled sc (fadd p e)) = B2R (scaled sc p)).
    { destruct sc as [kk|]; cbn [scaled] in *.
      - destruct (fmul_finite_inv _ _ Fs) as [_ Fk]. apply (fmul_ext p (fadd p e) kk Fp Fpe Fk (eq_sym Epe) Fs).
      - split; assumption. }
    destruct Fe' as [Fe' Ee'].
    rewrite (tag_dim_specified B specified shape m k p e u d sh sc HB Hk A Hsc Fp Fpe Fs Ds). rewrite Pt.
    apply clean_point_decides; try assumption; try reflexivity.
    apply (conv_dom_ext d (scaled sc p)); [symmetry; exact Ee'|exact Ds]. }
  destruct eo as [e0|].
  - subst e. destruct (feq e0 fzero) eqn:Pt.
    + apply Point; [reflexivity|exact Hd].
    + cbn [want_dom] in Hd. apply andb_true_iff in Hd. destruct Hd as [H1 H2].
      destruct (want_ok _ _ H1) as [Fs Ds]. destruct (want_ok _ _ H2) as [Fe De].
      pose proof (scaled_finite_inv _ _ Fs) as Fp. pose proof (scaled_finite_inv _ _ Fe) as Fpe.
      rewrite (tag_dim_specified B specified shape m k p e0 u d sh sc HB Hk A Hsc Fp Fpe Fs Ds). rewrite Pt.
      apply clean_range_decides; assumption.
  - subst e. apply Point; [|exact Hd]. destruct fzero_R as [_ Fz]. apply (feq_true _ _ Fz Fz). reflexivity.
Qed.

(* ------------------------------------------------------------------------------------------ *)
(** * maximumExtents on a well-described array *)

Lemma nd_at_nth shape k sh : nth_error shape k = Some sh -> nd_at shape (Z.of_nat k) = Ok sh.
Proof.
  intro H. unfold nd_at, nthZ. replace (Z.of_nat k <? 0) with false by lia. rewrite Nat2Z.id, H. reflexivity.
Qed.

Lemma dim_dom_bounds d sh : dim_dom d sh = true -> 1 <= sh <= alen d /\ sh <= P52.
Proof.
  unfold dim_dom. intro H. repeat (apply andb_true_iff in H; destruct H as [H ?]).
  apply Z.leb_le in H. apply Z.leb_le in H2, H3. lia.
Qed.

Lemma getMaxExtent_ok d sh : dim_dom d sh = true ->
  getMaxExtent d (u64_sub sh 1) = Ok (coord d 0, coord d (sh - 1)).
Proof.
  intro H. destruct (dim_dom_bounds d sh H) as [[H1 H2] H3].
  assert (T : P52 < two64) by (unfold P52, two64; lia).
  rewrite SearchProofs.u64_sub_small by lia.
  destruct d as [dt off u|ticks u|n|n]; cbn [getMaxExtent coord alen] in *.
  - reflexivity.
  - unfold tickAt. rewrite SearchProofs.u64_add_small by (unfold two64; lia). rewrite SearchProofs.u64_add_small by lia.
    replace (0 >? zlen ticks) with false by lia. replace (1 >? zlen ticks) with false by lia.
    replace (0 + 1 >? zlen ticks) with false by lia. replace (sh - 1 >? zlen ticks) with false by lia.
    replace (sh - 1 + 1 >? zlen ticks) with false by lia. reflexivity.
  - unfold converts_to_double. destruct (ofZ_exact (sh - 1) ltac:(unfold P52 in *; lia)) as [E F].
    rewrite (toU64_int (ofZ (sh - 1)) (sh - 1) F E ltac:(lia)). cbn [bind]. rewrite Z.eqb_refl. reflexivity.
  - unfold converts_to_double. destruct (ofZ_exact (sh - 1) ltac:(unfold P52 in *; lia)) as [E F].
    rewrite (toU64_int (ofZ (sh - 1)) (sh - 1) F E ltac:(lia)). cbn [bind]. rewrite Z.eqb_refl. reflexivity.
Qed.

Lemma maximumExtents_ok a : dims_dom (a_dims a) (a_shape a) = true ->
  exists mx, maximumExtents a = Ok mx /\ List.length mx = List.length (a_dims a) /\
  forall k d sh, nth_error (a_dims a) k = Some d -> nth_error (a_shape a) k = Some sh ->
                 nth_error mx k = Some (coord d 0, coord d (sh - 1)).
Proof.
  intro H. destruct (dims_dom_nth _ _ H) as [L N]. unfold maximumExtents.
  set (f := fun i d => bind (nd_at (a_shape a) i) (fun s => getMaxExtent d (u64_sub s 1))).
  assert (Step : forall k d, nth_error (a_dims a) k = Some d ->
            exists sh, nth_error (a_shape a) k = Some sh /\ f (0 + Z.of_nat k) d = Ok (coord d 0, coord d (sh - 1))).
  { intros k d Hk. assert (Hlt : (k < List.length (a_shape a))%nat) by (rewrite L; apply nth_error_Some; congruence).
    destruct (nth_error (a_shape a) k) as [sh|] eqn:Es; [|apply nth_error_None in Es; lia].
    exists sh. split; [reflexivity|]. unfold f. cbn [Z.add]. rewrite (nd_at_nth _ _ _ Es). cbn [bind].
    apply getMaxExtent_ok. apply (N k); assumption. }
  destruct (mapMi_cases f E_OutOfBounds (a_dims a) 0) as [(rs & E & Lr & Hn)|(E & k & d & Hk & He)].
  - intros k d Hk. left. destruct (Step k d Hk) as (sh & _ & ->). eexists. reflexivity.
  - exists rs. split; [exact E|]. split; [exact Lr|]. intros k d sh Hk Hs.
    destruct (Hn k d Hk) as (b & Hb & Hf). destruct (Step k d Hk) as (sh' & Hs' & Hf').
    rewrite Hs in Hs'. injection Hs' as <-. rewrite Hf in Hf'. injection Hf' as ->. exact Hb.
  - exfalso. destruct (Step k d Hk) as (sh & _ & Hf). rewrite Hf in He. discriminate.
Qed.

(* ------------------------------------------------------------------------------------------ *)
(** * the units vector after padding *)

Lemma units2_nth (units : list string) (ds : list dimd) k d :
  (k < List.length ds)%nat -> nth_error ds k = Some d ->
  let n := List.length ds in
  let units0 := if zlen units =? 0 then zrepeat "none"%string (Z.of_nat n) else units in
  let units1 := firstn n units0 in
  nth_error (units1 ++ map getDimensionUnit (firstn (n - List.length units1) (skipn (List.length units1) ds))) k
  = Some (unit_of units k d).
Proof.
  intros Hk Hd. cbv zeta. set (n := List.length ds) in *. unfold unit_of.
  destruct units as [|u0 us].
  - cbn [zlen List.length Z.of_nat Z.eqb].
    assert (Lz : List.length (zrepeat "none"%string (Z.of_nat n)) = n) by (rewrite zrepeat_length; lia).
    rewrite firstn_all2 by lia. rewrite nth_error_app1 by lia. apply nth_error_zrepeat. lia.
  - assert (E0 : (zlen (u0 :: us) =? 0) = false) by (unfold zlen; cbn [List.length]; lia).
    rewrite E0. set (units := u0 :: us) in *.
    assert (L1 : List.length (firstn n units) = Nat.min n (List.length units)) by apply firstn_length.
    destruct (nth_error units k) as [u|] eqn:Eu.
    + assert ((k < List.length units)%nat) by (apply nth_error_Some; congruence).
      rewrite nth_error_app1 by lia. rewrite nth_error_firstn. replace (k <? n)%nat with true by (symmetry; apply Nat.ltb_lt; lia). exact Eu.
    + apply nth_error_None in Eu. rewrite nth_error_app2 by lia.
      rewrite nth_error_map, nth_error_firstn, L1.
      replace (Nat.min n (List.length units)) with (List.length units) by lia.
      replace (k - List.length units <? n - List.length units)%nat with true by (symmetry; apply Nat.ltb_lt; lia).
      rewrite nth_error_skipn. replace (List.length units + (k - List.length units))%nat with k by lia.
      rewrite Hd. reflexivity.
Qed.

(* ------------------------------------------------------------------------------------------ *)
(** * The Tag theorem *)

(** the requests the statement is about *)
Record tag_ok (t : tag) (a : darray) : Prop := mk_tag_ok {
  to_dims : dims_dom (a_dims a) (a_shape a) = true;
  to_ext : t_ext t = [] \/ zlen (t_ext t) = zlen (t_pos t);
  to_nunits : zlen (t_units t) <= zlen (t_pos t);
  to_wants : wants_dom (a_dims a) (tag_wants t a) = true;
  to_spec : ~ In WNoSpec (tag_wants t a);
  to_units : units_atomic (a_dims a) }.

(** an absent extent makes the code use Inclusive (the region of a point tag does not depend on the mode) *)
Definition eff_match (t : tag) (m : RangeMatch) : RangeMatch :=
  if zlen (t_ext t) =? 0 then RangeMatch_Inclusive else m.

(** outside the pinned defect: index-range padding, or Inclusive mode, or no unspecified dimension *)
Definition pinned_free (B : behaviour) (t : tag) (a : darray) (m : RangeMatch) : Prop :=
  pad_index_range B = true \/ incl_of (eff_match t m) = true \/ zlen (a_dims a) <= zlen (t_pos t).

Definition ext_opt (es : list F64) : option (list F64) := match es with [] => None | _ :: _ => Some es end.

Lemma tag_wants_eq t a : (t_ext t = [] \/ zlen (t_ext t) = zlen (t_pos t)) -> zlen (t_units t) <= zlen (t_pos t) ->
  tag_wants t a = wants_from (t_units t) 0 (a_dims a) (t_pos t) (ext_opt (t_ext t)).
Proof.
  intros He Hu. unfold tag_wants. replace (zlen (t_pos t) <? zlen (t_units t)) with false by lia.
  destruct (t_ext t) as [|e es] eqn:E; [reflexivity|]. destruct He as [He|He]; [discriminate|].
  rewrite He, Z.eqb_refl. reflexivity.
Qed.

Lemma incl_of_true m : incl_of m = true -> m = RangeMatch_Inclusive.
Proof. destruct m; [reflexivity|discriminate]. Qed.

Theorem tag_verdict B t a m : conversions_meet_spec ->
  B = repaired \/ B = repaired_except_pinned -> pinned_free B t a m -> tag_ok t a ->
  region_verdict (incl_of (eff_match t m)) (a_dims a) (a_shape a) (tag_wants t a) (taggedData_tag B t a m).
Proof.
  intros HC HB HP [Hdims Hext Hnu Hwants Hspec Hunits].
  destruct (dims_dom_nth _ _ Hdims) as [Lsh Ndom].
  rewrite (tag_wants_eq t a Hext Hnu) in Hwants, Hspec. rewrite (tag_wants_eq t a Hext Hnu).
  set (ds := a_dims a) in *. set (shs := a_shape a) in *. set (n := List.length ds).
  set (pos := t_pos t) in *. set (ext := t_ext t) in *. set (units := t_units t) in *.
  assert (HBl : pad_end_is_last B = true) by (destruct HB as [-> | ->]; reflexivity).
  set (exto := ext_opt ext) in *.
  set (ws := wants_from units 0 ds pos exto) in *.
  unfold taggedData_tag, getOffsetAndCount_tag. fold ds shs pos ext units.
  assert (Zn : zlen ds = Z.of_nat n) by reflexivity.
  assert (Hzp : 0 <= zlen pos) by (unfold zlen; lia).
  (* the length check *)
  replace ((zlen ext >? 0) && negb (zlen ext =? zlen pos)) with false
    by (destruct Hext as [-> | ->]; [reflexivity|rewrite Z.eqb_refl, andb_false_r; reflexivity]).
  (* maximumExtents *)
  destruct (maximumExtents_ok a Hdims) as (mx & Emx & Lmx & Nmx). fold ds shs in Lmx, Nmx.
  set (specified := zlen (firstn (Z.to_nat (zlen ds)) pos)).
  assert (Hspecd : specified = Z.min (zlen pos) (Z.of_nat n)).
  { unfold specified, zlen. rewrite firstn_length. fold n. lia. }
  set (mxs := if (zlen pos <? zlen ds) && negb (pad_index_range B) then maximumExtents a else Ok []).
  assert (Emxs : exists mx', mxs = Ok mx' /\
            (pad_index_range B = false -> zlen pos < Z.of_nat n -> mx' = mx) /\
            (Z.of_nat n <= zlen pos -> mx' = [])).
  { unfold mxs. destruct ((zlen pos <? zlen ds) && negb (pad_index_range B)) eqn:Ec.
    - exists mx. split; [exact Emx|]. split; [intros; reflexivity|]. intro Hl.
      apply andb_true_iff in Ec. destruct Ec as [Ec _]. lia.
    - exists []. split; [reflexivity|]. split; [|intros; reflexivity].
      intros Hp Hl. rewrite Hp in Ec. cbn [negb] in Ec. rewrite andb_true_r in Ec. lia. }
  destruct Emxs as (mx' & -> & Hmx' & Hmx0). cbn [bind].
  set (extent' := if zlen ext =? 0 then zrepeat fzero (zlen pos) else ext).
  set (m' := if zlen ext =? 0 then RangeMatch_Inclusive else m).
  assert (Hm' : m' = eff_match t m) by reflexivity.
  set (position1 := firstn (Z.to_nat (zlen ds)) pos).
  set (extent1 := firstn (Z.to_nat (zlen ds)) extent').
  set (pad := if pad_index_range B then zrepeat (fzero, fzero) (zlen ds - specified) else skipn (Z.to_nat specified) mx').
  set (position2 := position1 ++ map fst pad). set (extent2 := extent1 ++ map snd pad).
  assert (Lext' : List.length extent' = List.length pos).
  { unfold extent'. destruct Hext as [E|E].
    - rewrite E. cbn [zlen List.length Z.of_nat Z.eqb]. rewrite zrepeat_length. unfold zlen. lia.
    - destruct (zlen ext =? 0) eqn:E0; [rewrite zrepeat_length; unfold zlen; lia|]. unfold zlen in E. lia. }
  assert (Lp1 : List.length position1 = Z.to_nat specified) by (unfold position1; rewrite firstn_length; unfold zlen in *; lia).
  assert (Le1 : List.length extent1 = Z.to_nat specified) by (unfold extent1; rewrite firstn_length, Lext'; unfold zlen in *; lia).
  assert (Lpad : List.length pad = (n - Z.to_nat specified)%nat).
  { unfold pad. destruct (pad_index_range B) eqn:Ep.
    - rewrite zrepeat_length. rewrite Zn. lia.
    - rewrite skipn_length. destruct (Z_lt_le_dec (zlen pos) (Z.of_nat n)) as [Hl|Hl].
      + rewrite (Hmx' eq_refl Hl), Lmx. fold n. reflexivity.
      + rewrite (Hmx0 Hl). cbn [List.length]. lia. }
  assert (Lp2 : List.length position2 = n) by (unfold position2; rewrite app_length, map_length, Lp1, Lpad; lia).
  assert (Le2 : List.length extent2 = n) by (unfold extent2; rewrite app_length, map_length, Le1, Lpad; lia).
  rewrite Lp2. replace (zlen position2) with (Z.of_nat n) by (unfold zlen; rewrite Lp2; reflexivity).
  set (units0 := if zlen units =? 0 then zrepeat "none"%string (Z.of_nat n) else units).
  set (units1 := firstn n units0).
  set (units2 := units1 ++ map getDimensionUnit (firstn (n - List.length units1) (skipn (List.length units1) ds))).
  assert (Lu2 : List.length units2 = n).
  { unfold units2. rewrite app_length, map_length, firstn_length, skipn_length. fold n.
    assert (List.length units1 <= n)%nat by (unfold units1; rewrite firstn_length; lia). lia. }
  set (reqs := zip4 position2 extent2 units2 ds).
  assert (Lreqs : List.length reqs = n) by (apply zip4_length; try assumption; reflexivity).
  (* assemble the per-dimension verdicts *)
  apply assemble. apply loop_decides_build.
  - exact Lsh.
  - apply wants_from_length.
  - exact Lreqs.
  - intros k d sh w r Hd Hs Hw Hr. cbn [Z.add].
    assert (Hkn : (k < n)%nat) by (apply nth_error_Some; congruence).
    pose proof (Ndom k d sh Hd Hs) as Hdom. destruct (dim_dom_bounds d sh Hdom) as [[Hsh1 Hsha] Hsh52].
    split; [|lia].
    pose proof (dim_dom_axis_ok d sh HC Hdom) as A.
    destruct (nth_error_zip4 _ _ _ _ _ _ Hr) as (p & e & u & d' & Hp & He & Hu & Hd' & ->).
    rewrite Hd in Hd'. injection Hd' as <-.
    destruct (nth_error_wants_from units ds 0 pos exto k w Hw) as (d'' & Hd'' & Ew).
    rewrite Hd in Hd''. injection Hd'' as <-. cbn [Nat.add] in Ew.
    assert (Eu : u = unit_of units k d).
    { pose proof (units2_nth units ds k d Hkn Hd) as X. cbv zeta in X. fold n units0 units1 units2 in X. congruence. }
    subst u.
    destruct (Z_lt_le_dec (Z.of_nat k) specified) as [Hks|Hks].
    + (* specified by the tag *)
      assert (Epos : nth_error pos k = Some p).
      { unfold position2 in Hp. rewrite nth_error_app1 in Hp by lia. unfold position1 in Hp.
        rewrite nth_error_firstn in Hp. replace (k <? Z.to_nat (zlen ds))%nat with true in Hp by (symmetry; apply Nat.ltb_lt; lia). exact Hp. }
      assert (Eext : e = match (match exto with Some es => nth_error es k | None => None end) with Some x => x | None => fzero end).
      { unfold extent2 in He. rewrite nth_error_app1 in He by lia. unfold extent1 in He.
        rewrite nth_error_firstn in He. replace (k <? Z.to_nat (zlen ds))%nat with true in He by (symmetry; apply Nat.ltb_lt; lia).
        unfold extent', exto, ext_opt in *. destruct ext as [|e0 es] eqn:Ee.
        - cbn [zlen List.length Z.of_nat Z.eqb] in He. rewrite nth_error_zrepeat in He by lia. congruence.
        - replace (zlen (e0 :: es) =? 0) with false in He by (unfold zlen; cbn [List.length]; lia). rewrite He. reflexivity. }
      rewrite Epos in Ew.
      assert (Hw' : w <> WNoSpec) by (intro X; apply Hspec; rewrite <- X; apply (nth_error_In _ _ Hw)).
      pose proof (wants_dom_nth _ _ Hwants k d w Hd Hw) as Hwd.
      pose proof (specified_decides B specified shs (eff_match t m) (Z.of_nat k) d sh units p
                    (match exto with Some es => nth_error es k | None => None end) HBl ltac:(lia) A) as SD.
      cbv zeta in SD. rewrite Nat2Z.id in SD.
      rewrite Hm'. subst w. rewrite Eext. apply SD; assumption.
    + (* not specified: padded *)
      assert (Epos : nth_error pos k = None) by (apply nth_error_None; unfold zlen in *; lia).
      rewrite Epos in Ew. cbn [want_of] in Ew. subst w.
      assert (Hsh53 : 1 <= sh <= AXIS_MAX + 1) by (unfold P52, AXIS_MAX in *; lia).
      destruct (pad_index_range B) eqn:Ep.
      * (* index-range padding *)
        unfold tag_dim. rewrite Ep. replace (specified <=? Z.of_nat k) with true by lia. cbn [andb].
        rewrite (nd_at_nth _ _ _ Hs). cbn [bind]. apply decides_all. exact Hsh53.
      * (* coordinate padding, Inclusive *)
        destruct HP as [HP|[HP|HP]]; [congruence| |fold ds pos in HP; rewrite Zn in HP; lia].
        rewrite <- Hm' in HP. apply incl_of_true in HP.
        assert (Hl : zlen pos < Z.of_nat n) by lia.
        assert (Epad : p = coord d 0 /\ e = coord d (sh - 1)).
        { unfold position2 in Hp. rewrite nth_error_app2 in Hp by lia. unfold extent2 in He. rewrite nth_error_app2 in He by lia.
          rewrite Lp1 in Hp. rewrite Le1 in He. rewrite nth_error_map in Hp, He. unfold pad in Hp, He.
          rewrite nth_error_skipn in Hp, He. replace (Z.to_nat specified + (k - Z.to_nat specified))%nat with k in Hp, He by lia.
          rewrite (Hmx' eq_refl Hl) in Hp, He. rewrite (Nmx k d sh Hd Hs) in Hp, He. cbn in Hp, He. split; congruence. }
        destruct Epad as [-> ->].
        (* the unit of a padded dimension never rescales *)
        assert (Hsc : exists sc, spec_scaling (unit_of units k d) d = Some sc /\ forall x, finite x -> scaled sc x = x).
        { assert (Huo : unit_of units k d = "none"%string \/ unit_of units k d = getDimensionUnit d).
          { unfold unit_of. destruct units as [|u0 us] eqn:Eun; [left; reflexivity|].
            right. replace (nth_error (u0 :: us) k) with (@None string); [reflexivity|].
            symmetry. apply nth_error_None. unfold zlen in *. lia. }
          assert (Hnone : spec_scaling "none" d = Some None) by (destruct d; reflexivity).
          destruct Huo as [-> | ->]; [exists None; split; [exact Hnone|reflexivity]|].
          destruct d as [dt off [du|]|ticks [du|]|nl|nr]; cbn [getDimensionUnit dim_unit_str];
            try (exists None; split; [exact Hnone|reflexivity]).
          - cbn [spec_scaling]. destruct (is_none_unit du); [exists None; split; reflexivity|].
            pose proof (Hunits _ (nth_error_In _ _ Hd)) as Hat. cbn in Hat. rewrite (getSIScaling_self du Hat).
            exists (Some fone). split; [reflexivity|]. intros x Fx. apply fmul_one. exact Fx.
          - cbn [spec_scaling]. destruct (is_none_unit du); [exists None; split; reflexivity|].
            pose proof (Hunits _ (nth_error_In _ _ Hd)) as Hat. cbn in Hat. rewrite (getSIScaling_self du Hat).
            exists (Some fone). split; [reflexivity|]. intros x Fx. apply fmul_one. exact Fx. }
        destruct Hsc as (sc & Hsc & Hid).
        assert (D0 : conv_dom d (coord d 0) /\ conv_dom d (coord d (sh - 1))).
        { destruct d; cbn [conv_dom coord]; try (split; exact I).
          - destruct (x_int_R 0 ltac:(unfold AXIS_MAX; lia)) as [-> _].
            destruct (x_int_R (sh - 1) ltac:(unfold AXIS_MAX, P52 in *; lia)) as [-> _]. split; apply IZR_lt; unfold P52 in *; lia.
          - destruct (x_int_R 0 ltac:(unfold AXIS_MAX; lia)) as [-> _].
            destruct (x_int_R (sh - 1) ltac:(unfold AXIS_MAX, P52 in *; lia)) as [-> _]. split; apply IZR_lt; unfold P52 in *; lia. }
        destruct D0 as [D0 D1].
        rewrite (tag_dim_padded B specified shs m' (Z.of_nat k) _ d sh sc HBl Ep ltac:(lia) A Hsc Hid D0).
        rewrite HP. rewrite (clean_pad_inclusive d sh _ A D0 D1). apply decides_all. exact Hsh53.
Qed.
