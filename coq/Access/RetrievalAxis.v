(** C05 / C06 — one dimension: from the rule specification of the conversions (C07) to index sets.
    Part A: on a monotone axis of finite coordinates the start / end pair rule yields exactly the
    interval of indices whose coordinate lies between start and end, or nothing when there is none.
    Part B: the brute-force evaluator [spec_dim] of RetrievalSpec.v and the Prop form [dim_is] agree. *)
From Coq Require Import ZArith Bool String List Reals Lia Lra.
From Flocq Require Import Core BinarySingleNaN.
Require Import NixV.Base.Prelude NixV.Base.F64 NixV.Base.F64Facts NixV.Gen.GenDimensions.
Require Import NixV.Axis.RangeModel NixV.Axis.AxisSpec.
Require Import NixV.Access.Retrieval NixV.Access.RetrievalSpec NixV.Access.RetrievalFacts.
Import ListNotations.
Local Open Scope list_scope.
Local Open Scope Z_scope.

Notation LE := PositionMatch_LessOrEqual.
Notation LT := PositionMatch_Less.

Section Axis.
  Variable x : Z -> F64.
  Variable N : Z.
  Hypothesis Fx : forall i, 0 <= i < N -> finite (x i).
  Hypothesis Mono : forall i j, 0 <= i <= j -> j < N -> (B2R (x i) <= B2R (x j))%R.

  Lemma inax_N i : inax (Some N) i <-> 0 <= i < N.
  Proof. unfold inax, inaxb. rewrite andb_true_iff, Z.leb_le, Z.ltb_lt. tauto. Qed.

  (** the predicate "coordinate i lies between s and e" is convex along the axis *)
  Lemma within_convex incl s e : finite s -> finite e ->
    forall i j k, 0 <= i <= j -> j <= k -> k < N ->
    within incl s e (x i) = true -> within incl s e (x k) = true -> within incl s e (x j) = true.
  Proof.
    intros Fs Fe i j k Hij Hjk Hk Wi Wk.
    apply (within_true incl s e _ Fs Fe (Fx i ltac:(lia))) in Wi.
    apply (within_true incl s e _ Fs Fe (Fx k ltac:(lia))) in Wk.
    apply (within_true incl s e _ Fs Fe (Fx j ltac:(lia))).
    pose proof (Mono i j ltac:(lia) ltac:(lia)) as M1. pose proof (Mono j k ltac:(lia) ltac:(lia)) as M2.
    destruct incl; lra.
  Qed.

  (** Part A: what the pair rule computes *)
  Lemma pair_sets (incl : bool) s e si ei : finite s -> finite e ->
    rule_spec x (Some N) GE s si ->
    rule_spec x (Some N) (if incl then LE else LT) e ei ->
    match (if fgt s e then None else pair_of false si ei) with
    | Some (a, b) => 0 <= a <= b /\ b < N /\
                     forall i, 0 <= i < N -> (within incl s e (x i) = true <-> a <= i <= b)
    | None => forall i, 0 <= i < N -> within incl s e (x i) = false
    end.
  Proof.
    intros Fs Fe Hs He.
    assert (Wspec : forall i, 0 <= i < N ->
              (within incl s e (x i) = true <->
               fle s (x i) = true /\ holds (if incl then LE else LT) e (x i) = true)).
    { intros i Hi. unfold within. rewrite andb_true_iff. destruct incl; reflexivity. }
    destruct (fgt s e) eqn:G.
    - intros i Hi. apply not_true_is_false. intro W.
      apply (within_true incl s e _ Fs Fe (Fx i Hi)) in W. apply (fgt_true s e Fs Fe) in G.
      destruct incl; lra.
    - cbn [rule_spec GE] in Hs. unfold GE in Hs. cbn [rule_spec] in Hs.
      assert (He' : is_last_idx (Some N) (fun i => holds (if incl then LE else LT) e (x i)) ei)
        by (destruct incl; exact He).
      unfold pair_of. destruct si as [a|].
      + destruct Hs as (Ha & Pa & Hmin). apply inax_N in Ha.
        destruct ei as [b|].
        * destruct He' as (Hb & Pb & Hmax). apply inax_N in Hb.
          destruct (a <=? b) eqn:Eab.
          -- apply Z.leb_le in Eab. split; [lia|]. split; [lia|].
             intros i Hi. rewrite (Wspec i Hi). split.
             ++ intros [W1 W2]. split.
                ** apply Hmin; [apply inax_N; exact Hi|exact W1].
                ** apply Hmax; [apply inax_N; exact Hi|exact W2].
             ++ intros Hab. rewrite <- (Wspec i Hi).
                apply (within_convex incl s e Fs Fe a i b); try lia.
                ** apply (Wspec a Ha). split; [exact Pa|].
                   (* x_a <= x_b and x_b is below e *)
                   assert (Wb : within incl s e (x b) = true).
                   { apply (within_true incl s e _ Fs Fe (Fx b Hb)).
                     cbn [holds] in Pa. apply (fle_true _ _ Fs (Fx a Ha)) in Pa.
                     pose proof (Mono a b ltac:(lia) ltac:(lia)) as M.
                     split; [lra|]. destruct incl; cbn [holds] in Pb.
                     - apply (fle_true _ _ (Fx b Hb) Fe) in Pb. exact Pb.
                     - apply (flt_true _ _ (Fx b Hb) Fe) in Pb. exact Pb. }
                   assert (Wa : within incl s e (x a) = true).
                   { apply (within_true incl s e _ Fs Fe (Fx a Ha)).
                     apply (within_true incl s e _ Fs Fe (Fx b Hb)) in Wb.
                     cbn [holds] in Pa. apply (fle_true _ _ Fs (Fx a Ha)) in Pa.
                     pose proof (Mono a b ltac:(lia) ltac:(lia)) as M.
                     split; [exact Pa|]. destruct incl; lra. }
                   apply (Wspec a Ha) in Wa. apply Wa.
                ** apply (Wspec b Hb). split; [|exact Pb].
                   cbn [holds] in Pa. apply (fle_true _ _ Fs (Fx a Ha)) in Pa.
                   apply (fle_true _ _ Fs (Fx b Hb)).
                   pose proof (Mono a b ltac:(lia) ltac:(lia)) as M. lra.
          -- apply Z.leb_gt in Eab. intros i Hi. apply not_true_is_false. intro W.
             apply (Wspec i Hi) in W. destruct W as [W1 W2].
             pose proof (Hmin i ltac:(apply inax_N; exact Hi) W1).
             pose proof (Hmax i ltac:(apply inax_N; exact Hi) W2). lia.
        * intros i Hi. apply not_true_is_false. intro W. apply (Wspec i Hi) in W. destruct W as [_ W2].
          cbn [is_last_idx] in He'. pose proof (He' i ltac:(apply inax_N; exact Hi)) as Hf. cbn beta in Hf. congruence.
      + intros i Hi. apply not_true_is_false. intro W. apply (Wspec i Hi) in W. destruct W as [W1 _].
        cbn [is_first_idx] in Hs. pose proof (Hs i ltac:(apply inax_N; exact Hi)) as Hf. cbn [holds] in Hf. congruence.
  Qed.
End Axis.

(* ------------------------------------------------------------------------------------------ *)
(** * The axis of a dimension descriptor *)

Definition conv_dom (d : dimd) (p : F64) : Prop :=
  match d with DSet _ | DFrame _ => (B2R p < IZR P52)%R | _ => True end.

(** what the proofs need of one dimension of an array whose extent along it is [sh]: finite,
    non-decreasing coordinates that strictly increase on the stored part, descriptor covers the
    data, and the conversion of the descriptor's kind meets the rule specification of C07 *)
Record axis_ok (d : dimd) (sh : Z) : Prop := mk_axis_ok {
  ax_pos : 1 <= sh <= alen d;
  ax_big : alen d <= AXIS_MAX + 1;
  ax_fin : forall i, 0 <= i < alen d -> finite (coord d i);
  ax_mono : forall i j, 0 <= i <= j -> j < alen d -> (B2R (coord d i) <= B2R (coord d j))%R;
  ax_strict : forall i j, 0 <= i < j -> j <= sh -> j < alen d -> (B2R (coord d i) < B2R (coord d j))%R;
  ax_conv : forall p m, finite p -> conv_dom d p ->
            exists r, indexOf_scalar d p m = Ok r /\ rule_spec (coord d) (Some (alen d)) m p r }.

Definition incl_of (m : RangeMatch) : bool := RangeMatch_beq m RangeMatch_Inclusive.

Lemma end_match_incl m : end_match m = if incl_of m then LE else LT.
Proof. reflexivity. Qed.

(** the pair conversion of any kind, evaluated *)
Lemma indexOf_pair_eval d sh m s e : axis_ok d sh -> finite s -> finite e -> conv_dom d s -> conv_dom d e ->
  exists si ei, rule_spec (coord d) (Some (alen d)) GE s si /\
                rule_spec (coord d) (Some (alen d)) (if incl_of m then LE else LT) e ei /\
                indexOf_pair d m s e = Ok (if fgt s e then None else pair_of false si ei).
Proof.
  intros A Fs Fe Ds De.
  destruct (ax_conv d sh A s GE Fs Ds) as (si & Esi & Ssi).
  destruct (ax_conv d sh A e (end_match m) Fe De) as (ei & Eei & Sei).
  exists si, ei. split; [exact Ssi|]. split; [rewrite <- end_match_incl; exact Sei|].
  unfold indexOf_pair. destruct (fgt s e); [reflexivity|].
  destruct d; rewrite Esi; cbn [bind]; try (rewrite Eei; cbn [bind]; reflexivity).
  destruct si; [rewrite Eei; reflexivity|]. reflexivity.
Qed.

(** first index at or after p: unique, and insensitive to which double represents the real value *)
Lemma first_ge_unique d sh p q r1 r2 : axis_ok d sh -> finite p -> finite q -> B2R p = B2R q ->
  rule_spec (coord d) (Some (alen d)) GE p r1 -> rule_spec (coord d) (Some (alen d)) GE q r2 -> r1 = r2.
Proof.
  intros A Fp Fq E H1 H2. unfold GE in *. cbn [rule_spec is_first_idx holds] in *.
  assert (X : forall i, 0 <= i < alen d -> fle p (coord d i) = fle q (coord d i)).
  { intros i Hi. apply fle_ext_l; try assumption. apply (ax_fin d sh A i Hi). }
  destruct r1 as [a|], r2 as [b|].
  - destruct H1 as (Ha & Pa & Ma), H2 as (Hb & Pb & Mb).
    assert (Ia := proj1 (inax_N (alen d) a) Ha). assert (Ib := proj1 (inax_N (alen d) b) Hb).
    f_equal. apply Z.le_antisymm.
    + apply Ma; [exact Hb|]. rewrite X by exact Ib. exact Pb.
    + apply Mb; [exact Ha|]. rewrite <- X by exact Ia. exact Pa.
  - destruct H1 as (Ha & Pa & _). assert (Ia := proj1 (inax_N (alen d) a) Ha).
    rewrite X in Pa by exact Ia. rewrite (H2 a Ha) in Pa. discriminate.
  - destruct H2 as (Hb & Pb & _). assert (Ib := proj1 (inax_N (alen d) b) Hb).
    rewrite <- X in Pb by exact Ib. rewrite (H1 b Hb) in Pb. discriminate.
  - reflexivity.
Qed.

(* ------------------------------------------------------------------------------------------ *)
(** * What the repaired code computes for one dimension, and that it decides the specification *)

(** pair conversion; if there is no valid range: the point fallback (first index at or after [q]) when
    the request is a point, out of bounds otherwise *)
Definition clean_dim (d : dimd) (m : RangeMatch) (s e : F64) (point : bool) (q : F64) : res (Z * Z) :=
  bind (indexOf_pair d m s e) (fun r =>
  match r with
  | Some (a, b) => Ok (a, u64_add 1 (u64_sub b a))
  | None =>
      if point
      then bind (indexOf_scalar d q GE) (fun o =>
           match o with Some o => Ok (o, 1) | None => Err E_OutOfBounds end)
      else Err E_OutOfBounds
  end).

(** the verdict on one dimension: a result that passes the bound check IS the selected set, one that
    does not pass it means no region exists, an error is out-of-bounds and means no region exists *)
Definition decides (d : dimd) (sh : Z) (incl : bool) (w : want) (r : res (Z * Z)) : Prop :=
  match r with
  | Ok (o, c) => 0 <= o /\ 1 <= c /\ o + c <= AXIS_MAX + 1 /\
                 (o + c <= sh -> dim_is d sh incl w o c) /\
                 (sh < o + c -> forall o' c', ~ dim_is d sh incl w o' c')
  | Err e => e = E_OutOfBounds /\ forall o' c', ~ dim_is d sh incl w o' c'
  | UB _ => False
  end.

Lemma axis_max_two64 : AXIS_MAX + 1 < two64 - 1.
Proof. unfold AXIS_MAX, two64. lia. Qed.

Theorem clean_range_decides d sh m s e q : axis_ok d sh ->
  finite s -> finite e -> conv_dom d s -> conv_dom d e ->
  decides d sh (incl_of m) (WRange s e) (clean_dim d m s e false q).
Proof.
  intros A Fs Fe Ds De.
  destruct (indexOf_pair_eval d sh m s e A Fs Fe Ds De) as (si & ei & Ssi & Sei & Ev).
  pose proof (pair_sets (coord d) (alen d) (ax_fin d sh A) (ax_mono d sh A) (incl_of m) s e si ei Fs Fe Ssi Sei) as P.
  unfold clean_dim. rewrite Ev. cbn [bind].
  destruct (if fgt s e then None else pair_of false si ei) as [[a b]|].
  - destruct P as (Hab & Hb & Hset). pose proof (ax_big d sh A) as Big. pose proof axis_max_two64 as T.
    rewrite count_no_wrap by lia. cbn [decides].
    split; [lia|]. split; [lia|]. split; [lia|]. split.
    + intro Hsh. unfold dim_is. split; [lia|]. split; [lia|]. split; [lia|].
      intro i. cbn [dim_sel]. split.
      * intros [Hi W]. apply (Hset i Hi) in W. lia.
      * intros Hi. assert (Hi' : 0 <= i < alen d) by lia. split; [exact Hi'|]. apply (Hset i Hi'). lia.
    + intros Hsh o' c' (Hc & Ho & Hoc & Hsel).
      assert (Sb : dim_sel d sh (incl_of m) (WRange s e) b).
      { cbn [dim_sel]. split; [lia|]. apply (Hset b); lia. }
      apply Hsel in Sb. lia.
  - cbn [decides]. split; [reflexivity|]. intros o' c' (Hc & Ho & Hoc & Hsel).
    assert (So : dim_sel d sh (incl_of m) (WRange s e) o') by (apply Hsel; lia).
    cbn [dim_sel] in So. destruct So as [Hi W]. rewrite (P o' Hi) in W. discriminate.
Qed.

(** the only index a point request selects is the first one at or after the position *)
Lemma point_sel_first d sh incl s r : axis_ok d sh -> finite s ->
  rule_spec (coord d) (Some (alen d)) GE s r ->
  forall i, dim_sel d sh incl (WPoint s) i <-> r = Some i.
Proof.
  intros A Fs Hr i. unfold GE in Hr. cbn [rule_spec is_first_idx holds] in Hr. cbn [dim_sel]. split.
  - intros (Hi & Pi & Mi). destruct r as [a|].
    + destruct Hr as (Ha & Pa & Ma). apply inax_N in Ha. f_equal. apply Z.le_antisymm.
      * apply Ma; [apply inax_N; exact Hi|exact Pi].
      * apply Mi; [exact Ha|exact Pa].
    + rewrite (Hr i) in Pi; [discriminate|apply inax_N; exact Hi].
  - intros ->. destruct Hr as (Ha & Pa & Ma). apply inax_N in Ha. split; [exact Ha|]. split; [exact Pa|].
    intros j Hj Pj. apply Ma; [apply inax_N; exact Hj|exact Pj].
Qed.

Lemma point_decides_some d sh incl s o : axis_ok d sh -> finite s ->
  rule_spec (coord d) (Some (alen d)) GE s (Some o) ->
  decides d sh incl (WPoint s) (Ok (o, 1)).
Proof.
  intros A Fs Hr. pose proof (point_sel_first d sh incl s (Some o) A Fs Hr) as Sel.
  assert (Ho : 0 <= o < alen d).
  { unfold GE in Hr. cbn [rule_spec is_first_idx] in Hr. destruct Hr as (Ha & _). apply inax_N in Ha. exact Ha. }
  pose proof (ax_big d sh A) as Big.
  cbn [decides]. split; [lia|]. split; [lia|]. split; [lia|]. split.
  - intro Hsh. unfold dim_is. split; [lia|]. split; [lia|]. split; [lia|].
    intro i. rewrite (Sel i). split; [intro E; injection E as ->; lia|intro Hi; f_equal; lia].
  - intros Hsh o' c' (Hc & Ho' & Hoc & Hsel).
    assert (So : dim_sel d sh incl (WPoint s) o') by (apply Hsel; lia).
    apply Sel in So. injection So as ->. lia.
Qed.

Lemma point_decides_none d sh incl s : axis_ok d sh -> finite s ->
  rule_spec (coord d) (Some (alen d)) GE s None ->
  forall o' c', ~ dim_is d sh incl (WPoint s) o' c'.
Proof.
  intros A Fs Hr o' c' (Hc & Ho' & Hoc & Hsel).
  pose proof (point_sel_first d sh incl s None A Fs Hr) as Sel.
  assert (So : dim_sel d sh incl (WPoint s) o') by (apply Hsel; lia).
  apply Sel in So. discriminate.
Qed.

(** a point request (extent absent or zero): [e] and [q] are the same real number as [s] *)
Theorem clean_point_decides d sh m s e q : axis_ok d sh ->
  finite s -> finite e -> finite q -> B2R e = B2R s -> B2R q = B2R s -> conv_dom d s -> conv_dom d e -> conv_dom d q ->
  decides d sh (incl_of m) (WPoint s) (clean_dim d m s e true q).
Proof.
  intros A Fs Fe Fq Ee Eq Ds De Dq.
  destruct (indexOf_pair_eval d sh m s e A Fs Fe Ds De) as (si & ei & Ssi & Sei & Ev).
  pose proof (pair_sets (coord d) (alen d) (ax_fin d sh A) (ax_mono d sh A) (incl_of m) s e si ei Fs Fe Ssi Sei) as P.
  destruct (ax_conv d sh A q GE Fq Dq) as (rq & Erq & Srq).
  assert (rq = si) by (apply (first_ge_unique d sh q s rq si A Fq Fs Eq Srq Ssi)). subst rq.
  unfold clean_dim. rewrite Ev. cbn [bind].
  destruct (if fgt s e then None else pair_of false si ei) as [[a b]|] eqn:Epair.
  - (* a valid pair: all its members have coordinate s; inside the data that is a single index *)
    destruct P as (Hab & Hb & Hset). pose proof (ax_big d sh A) as Big. pose proof axis_max_two64 as T.
    assert (Fa : finite (coord d a)) by (apply (ax_fin d sh A); lia).
    assert (Weq : forall i, a <= i <= b -> B2R (coord d i) = B2R s).
    { intros i Hi. assert (Hi' : 0 <= i < alen d) by lia.
      assert (W : within (incl_of m) s e (coord d i) = true) by (apply (Hset i Hi'); exact Hi).
      apply (within_true _ s e _ Fs Fe (ax_fin d sh A i Hi')) in W. rewrite Ee in W.
      destruct (incl_of m); lra. }
    (* a is the first index at or after s *)
    assert (Sa : si = Some a).
    { destruct (fgt s e); [discriminate|]. unfold pair_of in Epair.
      destruct si as [a'|]; [|discriminate]. destruct ei as [b'|]; [|discriminate].
      destruct (a' <=? b'); [|discriminate]. injection Epair as -> ->. reflexivity. }
    subst si.
    rewrite count_no_wrap by lia.
    destruct (Z.eq_dec a b) as [->|Hne].
    + replace (b - b + 1) with 1 by lia. apply point_decides_some; assumption.
    + (* more than one coordinate equal to s: the second one is outside the data *)
      assert (Hsh : sh <= a).
      { destruct (Z_lt_le_dec a sh) as [Hlt|]; [|assumption]. exfalso.
        pose proof (ax_strict d sh A a (a + 1) ltac:(lia) ltac:(lia) ltac:(lia)) as St.
        rewrite (Weq a) in St by lia. rewrite (Weq (a + 1)) in St by lia. lra. }
      cbn [decides]. split; [lia|]. split; [lia|]. split; [lia|]. split; [lia|].
      intros _ o' c' (Hc & Ho' & Hoc & Hsel).
      pose proof (point_sel_first d sh (incl_of m) s (Some a) A Fs Ssi) as Sel.
      assert (So : dim_sel d sh (incl_of m) (WPoint s) o') by (apply Hsel; lia).
      apply Sel in So. injection So as ->. lia.
  - rewrite Erq. cbn [bind]. destruct si as [o|].
    + apply point_decides_some; assumption.
    + cbn [decides]. split; [reflexivity|]. apply point_decides_none; assumption.
Qed.

(** a dimension the tag does not specify, padded with (first coordinate, last coordinate), Inclusive mode:
    the full dimension *)
Theorem clean_pad_inclusive d sh q : axis_ok d sh ->
  conv_dom d (coord d 0) -> conv_dom d (coord d (sh - 1)) ->
  clean_dim d RangeMatch_Inclusive (coord d 0) (coord d (sh - 1)) true q = Ok (0, sh).
Proof.
  intros A D0 D1. destruct (ax_pos d sh A) as [Hsh Hal]. pose proof (ax_big d sh A) as Big. pose proof axis_max_two64 as T.
  assert (F0 : finite (coord d 0)) by (apply (ax_fin d sh A); lia).
  assert (F1 : finite (coord d (sh - 1))) by (apply (ax_fin d sh A); lia).
  destruct (indexOf_pair_eval d sh RangeMatch_Inclusive _ _ A F0 F1 D0 D1) as (si & ei & Ssi & Sei & Ev).
  pose proof (pair_sets (coord d) (alen d) (ax_fin d sh A) (ax_mono d sh A) true _ _ si ei F0 F1 Ssi Sei) as P.
  unfold clean_dim. rewrite Ev. cbn [bind].
  assert (W0 : within true (coord d 0) (coord d (sh - 1)) (coord d 0) = true).
  { apply within_true; try assumption. split; [lra|]. apply (ax_mono d sh A); lia. }
  assert (W1 : within true (coord d 0) (coord d (sh - 1)) (coord d (sh - 1)) = true).
  { apply within_true; try assumption. split; [apply (ax_mono d sh A); lia|lra]. }
  change (incl_of RangeMatch_Inclusive) with true in *.
  destruct (if fgt (coord d 0) (coord d (sh - 1)) then None else pair_of false si ei) as [[a b]|].
  - destruct P as (Hab & Hb & Hset).
    assert (a = 0) by (apply (Hset 0) in W0; lia). subst a.
    assert (sh - 1 <= b) by (apply (Hset (sh - 1)) in W1; lia).
    assert (b = sh - 1).
    { destruct (Z.eq_dec b (sh - 1)) as [|Hne]; [assumption|]. exfalso.
      assert (Wsh : within true (coord d 0) (coord d (sh - 1)) (coord d sh) = true) by (apply (Hset sh); lia).
      apply within_true in Wsh; try assumption; [|apply (ax_fin d sh A); lia].
      pose proof (ax_strict d sh A (sh - 1) sh ltac:(lia) ltac:(lia) ltac:(lia)). lra. }
    subst b. rewrite count_no_wrap by lia. f_equal. f_equal. lia.
  - rewrite (P 0) in W0 by lia. discriminate.
Qed.

Lemma decides_all d sh incl : 1 <= sh <= AXIS_MAX + 1 -> decides d sh incl WAll (Ok (0, sh)).
Proof.
  intros Hsh. cbn [decides]. split; [lia|]. split; [lia|]. split; [lia|]. split; [|lia].
  intros _. unfold dim_is. split; [lia|]. split; [lia|]. split; [lia|]. intro i. cbn [dim_sel]. lia.
Qed.

(** two descriptions of the same non-empty set by offset and count coincide *)
Lemma dim_is_unique d sh incl w o c o' c' : dim_is d sh incl w o c -> dim_is d sh incl w o' c' -> o = o' /\ c = c'.
Proof.
  intros (Hc & Ho & Hoc & Hs) (Hc' & Ho' & Hoc' & Hs').
  assert (o' <= o < o' + c') by (apply Hs', Hs; lia).
  assert (o <= o' < o + c) by (apply Hs, Hs'; lia).
  assert (o' <= o + c - 1 < o' + c') by (apply Hs', Hs; lia).
  assert (o <= o' + c' - 1 < o + c) by (apply Hs, Hs'; lia).
  lia.
Qed.

(* ------------------------------------------------------------------------------------------ *)
(** * Part B: the brute-force evaluator is the Prop form *)

Definition want_fin (w : want) : Prop :=
  match w with
  | WRange s e => finite s /\ finite e
  | WPoint s => finite s
  | _ => True
  end.

Section Oracle.
  Variable d : dimd.
  Variable sh : Z.
  Hypothesis Hsh : 1 <= sh.
  Hypothesis Fin : forall i, 0 <= i < alen d -> finite (coord d i).
  Hypothesis Mono : forall i j, 0 <= i <= j -> j < alen d -> (B2R (coord d i) <= B2R (coord d j))%R.

  Let K := Z.min (alen d) sh.

  Theorem spec_dim_region incl w o c : want_fin w ->
    spec_dim d sh incl w = Region (o, c) -> dim_is d sh incl w o c.
  Proof.
    intros Fw E. destruct w as [s e|s| |]; cbn [spec_dim] in E; try discriminate.
    - (* range *)
      destruct Fw as [Fs Fe]. unfold data_indices in E. fold K in E.
      set (P := fun i => within incl s e (coord d i)) in *.
      destruct (Z_le_gt_dec K 0) as [HK0|HK0].
      { rewrite ziota_nonpos in E by exact HK0. cbn in E. discriminate. }
      assert (Conv : forall i j k, 0 <= i <= j -> j <= k -> k < alen d -> P i = true -> P k = true -> P j = true).
      { intros i j k Hij Hjk Hk. apply (within_convex (coord d) (alen d) Fin Mono incl s e Fs Fe i j k Hij Hjk Hk). }
      pose proof (filter_convex P (alen d) Conv (Z.to_nat K)) as FC. cbv zeta in FC.
      replace (Z.of_nat (Z.to_nat K)) with K in FC by lia. specialize (FC ltac:(unfold K; lia)).
      destruct FC as [[E0 _]|(a & b & Hab & HbK & EL & HP)].
      { rewrite E0 in E. discriminate. }
      rewrite EL in E. destruct (hd_zrange a b ltac:(lia)) as (r & Er). rewrite Er in E. rewrite <- Er in E.
      destruct ((sh <? alen d) && within incl s e (coord d sh)) eqn:Leave; [discriminate|].
      rewrite zlen_zrange in E by lia. injection E as <- <-.
      unfold dim_is. split; [lia|]. split; [lia|]. split; [unfold K in HbK; lia|].
      intro i. cbn [dim_sel]. split.
      + intros [Hi W]. destruct (Z_lt_le_dec i K) as [HiK|HiK]; [apply (HP i) in W; lia|]. exfalso.
        (* i is outside the stored data: by convexity so is index sh, which the evaluator checked *)
        assert (HKsh : K = sh) by (unfold K in *; lia).
        apply andb_false_iff in Leave. destruct Leave as [L|L]; [apply Z.ltb_ge in L; lia|].
        assert (Pa : P a = true) by (apply HP; lia).
        assert (Psh : P sh = true) by (apply (Conv a sh i); [lia|lia|lia|exact Pa|exact W]).
        unfold P in Psh. congruence.
      + intros Hi. assert (HiK : 0 <= i < K) by lia. split; [unfold K in HiK; lia|]. apply (HP i HiK). lia.
    - (* point *)
      unfold data_indices in E. fold K in E.
      pose proof (filter_least (fun i => fle s (coord d i)) (Z.to_nat K)) as FL. cbv zeta in FL.
      destruct (Z_le_gt_dec K 0) as [HK0|HK0].
      { rewrite ziota_nonpos in E by exact HK0. cbn in E. discriminate. }
      replace (Z.of_nat (Z.to_nat K)) with K in FL by lia.
      destruct (filter (fun i => fle s (coord d i)) (ziota K)) as [|a r]; [discriminate|].
      injection E as <- <-. destruct FL as (Ha & Pa & Ma).
      unfold dim_is. split; [lia|]. split; [lia|]. split; [unfold K in Ha; lia|].
      intro i. cbn [dim_sel]. split.
      + intros (Hi & Pi & Mi). assert (i <= a) by (apply Mi; [unfold K in Ha; lia|exact Pa]).
        assert (a <= i) by (apply Ma; [unfold K in *; lia|exact Pi]). lia.
      + intros Hi. assert (i = a) by lia. subst i. split; [unfold K in Ha; lia|]. split; [exact Pa|].
        intros j Hj Pj. destruct (Z_lt_le_dec j K) as [HjK|HjK]; [apply Ma; [lia|exact Pj]|lia].
    - (* unspecified *)
      destruct (sh <=? 0) eqn:E0; [discriminate|]. injection E as <- <-.
      unfold dim_is. split; [lia|]. split; [lia|]. split; [lia|]. intro i. cbn [dim_sel]. lia.
  Qed.

  Theorem spec_dim_refuse incl w : want_fin w ->
    spec_dim d sh incl w = Refuse -> forall o c, ~ dim_is d sh incl w o c.
  Proof.
    intros Fw E o c (Hc & Ho & Hoc & Hsel). destruct w as [s e|s| |]; cbn [spec_dim] in E; try discriminate.
    - destruct Fw as [Fs Fe]. unfold data_indices in E. fold K in E.
      set (P := fun i => within incl s e (coord d i)) in *.
      assert (So : dim_sel d sh incl (WRange s e) o) by (apply Hsel; lia).
      assert (Sl : dim_sel d sh incl (WRange s e) (o + c - 1)) by (apply Hsel; lia).
      cbn [dim_sel] in So, Sl. destruct So as [Io Wo]. destruct Sl as [Il Wl].
      assert (HoK : 0 <= o < K) by (unfold K; lia).
      pose proof (filter_least P (Z.to_nat K)) as FL. cbv zeta in FL.
      replace (Z.of_nat (Z.to_nat K)) with K in FL by lia.
      destruct (filter P (ziota K)) as [|a r].
      + pose proof (FL o HoK) as Hf. unfold P in Hf. congruence.
      + destruct ((sh <? alen d) && within incl s e (coord d sh)) eqn:Leave; [|discriminate].
        apply andb_true_iff in Leave. destruct Leave as [L W]. apply Z.ltb_lt in L.
        assert (Ssh : dim_sel d sh incl (WRange s e) sh) by (cbn [dim_sel]; split; [lia|exact W]).
        apply Hsel in Ssh. lia.
    - unfold data_indices in E. fold K in E.
      assert (So : dim_sel d sh incl (WPoint s) o) by (apply Hsel; lia).
      cbn [dim_sel] in So. destruct So as (Io & Po & _).
      assert (HoK : 0 <= o < K) by (unfold K; lia).
      pose proof (filter_least (fun i => fle s (coord d i)) (Z.to_nat K)) as FL. cbv zeta in FL.
      replace (Z.of_nat (Z.to_nat K)) with K in FL by lia.
      destruct (filter (fun i => fle s (coord d i)) (ziota K)) as [|a r]; [|discriminate].
      pose proof (FL o HoK) as Hf. cbn beta in Hf. congruence.
    - destruct (sh <=? 0) eqn:E0; [apply Z.leb_le in E0; lia|discriminate].
  Qed.

  Lemma spec_dim_unconstrained incl w : spec_dim d sh incl w = Unconstrained <-> w = WNoSpec.
  Proof.
    destruct w as [s e|s| |]; cbn [spec_dim]; split; intro H; try discriminate; try reflexivity.
    - destruct (filter _ _); [discriminate|]. destruct (_ && _); discriminate.
    - destruct (filter _ _); discriminate.
    - destruct (sh <=? 0); discriminate.
  Qed.
End Oracle.
