(** [scalePositions] regenerated from src/util/dataAccess.cpp ([NixV.Gen.GenScale.scalePositions_gen]: output vectors
    returned as a pair, util::getSIScaling a parameter, the catch-all handler as [catch_all]) equals the hand model
    [Retrieval.scalePositions] that the retrieval theorems (C05, C06), the unit-carrying overloads (C07) and the rescaling
    invariance (C18) are stated over - for every list of starts / ends / units (of any, also differing, lengths below the
    loop fuel), every dimension unit and whatever the output vectors held before the call. *)
From Coq Require Import ZArith Bool String List Lia.
Require Import NixV.Base.Prelude NixV.Base.F64 NixV.Base.VecOps NixV.Gen.GenScale.
Require Import NixV.Access.AccessBridge.
Require NixV.Access.Retrieval.
Import ListNotations.
Local Open Scope Z_scope.

Lemma vec_get_mid {A} (pre : list A) (x : A) (rest : list A) : vec_get (pre ++ x :: rest) (zlen pre) = Ok x.
Proof.
  unfold vec_get. rewrite zlen_app, zlen_cons. pose proof (zlen_nonneg pre). pose proof (zlen_nonneg rest).
  replace (0 <=? zlen pre) with true by (symmetry; apply Z.leb_le; lia).
  replace (zlen pre <? zlen pre + (1 + zlen rest)) with true by (symmetry; apply Z.ltb_lt; lia).
  cbn [andb]. unfold zlen. rewrite Nat2Z.id, nth_error_app2 by lia. rewrite Nat.sub_diag. reflexivity.
Qed.

Lemma list_set_mid {A} (pre : list A) (x y : A) (rest : list A) :
  list_set_nat (pre ++ x :: rest) (List.length pre) y = pre ++ y :: rest.
Proof. induction pre as [|p pre IH]; cbn; [reflexivity|]. rewrite IH. reflexivity. Qed.

Lemma vec_set_mid {A} (pre : list A) (x y : A) (rest : list A) :
  vec_set (pre ++ x :: rest) (zlen pre) y = Ok (pre ++ y :: rest).
Proof.
  unfold vec_set. rewrite zlen_app, zlen_cons. pose proof (zlen_nonneg pre). pose proof (zlen_nonneg rest).
  replace (0 <=? zlen pre) with true by (symmetry; apply Z.leb_le; lia).
  replace (zlen pre <? zlen pre + (1 + zlen rest)) with true by (symmetry; apply Z.ltb_lt; lia).
  cbn [andb]. unfold zlen. rewrite Nat2Z.id, list_set_mid. reflexivity.
Qed.

(** the i-th unit, if the unit list is that long *)
Lemma skipn_cons_get (units : list string) (n : nat) (u : string) (r : list string) :
  skipn n units = u :: r -> vec_get units (Z.of_nat n) = Ok u /\ skipn (S n) units = r /\ (n < List.length units)%nat.
Proof.
  revert units. induction n as [|n IH]; intros units H.
  - cbn in H. subst units. cbn. repeat split; lia.
  - destruct units as [|x units]; [discriminate|]. cbn [skipn] in H. destruct (IH _ H) as (G & S1 & L).
    repeat split; [|exact S1|cbn [List.length]; lia].
    unfold vec_get in *. unfold zlen in *. cbn [List.length].
    destruct ((0 <=? Z.of_nat n) && (Z.of_nat n <? Z.of_nat (List.length units))) eqn:E; [|discriminate].
    apply andb_prop in E. destruct E as [E1 E2]. apply Z.ltb_lt in E2.
    replace (0 <=? Z.of_nat (S n)) with true by (symmetry; apply Z.leb_le; lia).
    replace (Z.of_nat (S n) <? Z.of_nat (S (List.length units))) with true by (symmetry; apply Z.ltb_lt; lia).
    cbn [andb]. rewrite Nat2Z.id in *. cbn [nth_error]. exact G.
Qed.

Lemma skipn_nil_len (units : list string) (n : nat) : skipn n units = [] -> (List.length units <= n)%nat.
Proof.
  revert units. induction n as [|n IH]; intros units H.
  - cbn in H. subst. cbn. lia.
  - destruct units as [|x units]; [cbn; lia|]. cbn [skipn] in H. apply IH in H. cbn [List.length]. lia.
Qed.

Lemma bind_ok_id {A} (r : res A) : bind r (fun a => Ok a) = r.
Proof. destruct r; reflexivity. Qed.

Lemma scale_loop_spec dun : forall fuel ss es pre_s pre_e units rs re ts te,
  List.length pre_e = List.length pre_s -> List.length rs = List.length pre_s -> List.length re = List.length pre_s ->
  List.length ts = Nat.min (List.length ss) (List.length es) -> List.length te = Nat.min (List.length ss) (List.length es) ->
  (Nat.min (List.length ss) (List.length es) < fuel)%nat ->
  (List.length pre_s + Nat.min (List.length ss) (List.length es) < 900)%nat ->
  scalePositions_gen_loop3 (pre_s ++ ss) (pre_e ++ es) units dun Retrieval.getSIScaling
     (zlen pre_s + Z.of_nat (Nat.min (List.length ss) (List.length es))) fuel (zlen pre_s) (re ++ te) (rs ++ ts)
  = bind (Retrieval.scalePositions ss es (skipn (List.length pre_s) units) dun)
         (fun r => Ok (rs ++ fst r, re ++ snd r)).
Proof.
  induction fuel as [|fuel IH]; intros ss es pre_s pre_e units rs re ts te Hpe Hrs Hre Hts Hte Hf Hsm; [lia|].
  cbn [scalePositions_gen_loop3].
  destruct ss as [|s ss].
  { cbn [List.length Nat.min] in *. destruct ts; [|discriminate]. destruct te; [|discriminate].
    rewrite Z.add_0_r, Z.ltb_irrefl. cbn [Retrieval.scalePositions bind fst snd]. rewrite !app_nil_r. reflexivity. }
  destruct es as [|e es].
  { cbn [List.length Nat.min] in *. destruct ts; [|discriminate]. destruct te; [|discriminate].
    rewrite Z.add_0_r, Z.ltb_irrefl. cbn [Retrieval.scalePositions bind fst snd]. rewrite !app_nil_r. reflexivity. }
  cbn [List.length Nat.min] in Hts, Hte, Hf, Hsm |- *.
  destruct ts as [|t0 ts]; [discriminate|]. destruct te as [|t1 te]; [discriminate|].
  replace (zlen pre_s <? zlen pre_s + Z.of_nat (S (Nat.min (List.length ss) (List.length es)))) with true
    by (symmetry; apply Z.ltb_lt; lia).
  assert (Ee : zlen pre_s = zlen pre_e) by (unfold zlen; lia).
  assert (Ers : zlen pre_s = zlen rs) by (unfold zlen; lia).
  assert (Ere : zlen pre_s = zlen re) by (unfold zlen; lia).
  (* the unit of this entry *)
  cbn [Retrieval.scalePositions].
  set (U := skipn (List.length pre_s) units).
  assert (HU : (if zlen pre_s <? zlen units
                then bind (vec_get units (zlen pre_s)) (fun el1 => Ok (negb (String.eqb el1 "none")))
                else Ok false)
               = Ok (match U with u :: _ => negb (Retrieval.is_none_unit u) | [] => false end)).
  { destruct U as [|u U'] eqn:EU.
    - apply skipn_nil_len in EU. replace (zlen pre_s <? zlen units) with false by (symmetry; apply Z.ltb_ge; unfold zlen; lia).
      reflexivity.
    - destruct (skipn_cons_get _ _ _ _ EU) as (G & _ & L).
      replace (zlen pre_s <? zlen units) with true by (symmetry; apply Z.ltb_lt; unfold zlen; lia).
      unfold zlen at 1. rewrite G. reflexivity. }
  rewrite HU. cbn [bind].
  (* the rest of the body for a given factor *)
  assert (Body : forall k : F64,
     bind (vec_get (pre_s ++ s :: ss) (zlen pre_s)) (fun el3 =>
     bind (vec_set (rs ++ t0 :: ts) (zlen pre_s) (fmul el3 k)) (fun vs4 =>
     bind (vec_get (pre_e ++ e :: es) (zlen pre_s)) (fun el5 =>
     bind (vec_set (re ++ t1 :: te) (zlen pre_s) (fmul el5 k)) (fun vs6 =>
     scalePositions_gen_loop3 (pre_s ++ s :: ss) (pre_e ++ e :: es) units dun Retrieval.getSIScaling
       (zlen pre_s + Z.of_nat (S (Nat.min (List.length ss) (List.length es)))) fuel (u64_add (zlen pre_s) 1) vs6 vs4))))
     = bind (Retrieval.scalePositions ss es (match U with _ :: r => r | [] => [] end) dun)
            (fun r => Ok (rs ++ fmul s k :: fst r, re ++ fmul e k :: snd r))).
  { intros k. rewrite vec_get_mid. cbn [bind]. rewrite Ers at 1. rewrite vec_set_mid. cbn [bind].
    rewrite Ee at 1. rewrite vec_get_mid. cbn [bind]. rewrite Ere at 1. rewrite vec_set_mid. cbn [bind].
    rewrite u64_succ by (unfold zlen; lia).
    replace (zlen pre_s + 1) with (zlen (pre_s ++ [s])) by (rewrite zlen_app; reflexivity).
    replace (zlen pre_s + Z.of_nat (S (Nat.min (List.length ss) (List.length es))))
      with (zlen (pre_s ++ [s]) + Z.of_nat (Nat.min (List.length ss) (List.length es)))
      by (rewrite zlen_app; unfold zlen; cbn [List.length]; lia).
    replace (pre_s ++ s :: ss) with ((pre_s ++ [s]) ++ ss) by (rewrite <- app_assoc; reflexivity).
    replace (pre_e ++ e :: es) with ((pre_e ++ [e]) ++ es) by (rewrite <- app_assoc; reflexivity).
    replace (rs ++ fmul s k :: ts) with ((rs ++ [fmul s k]) ++ ts) by (rewrite <- app_assoc; reflexivity).
    replace (re ++ fmul e k :: te) with ((re ++ [fmul e k]) ++ te) by (rewrite <- app_assoc; reflexivity).
    rewrite (IH ss es (pre_s ++ [s]) (pre_e ++ [e]) units (rs ++ [fmul s k]) (re ++ [fmul e k]) ts te)
      by (rewrite ?app_length; cbn [List.length] in *; lia).
    rewrite app_length. cbn [List.length]. replace (List.length pre_s + 1)%nat with (S (List.length pre_s)) by lia.
    replace (skipn (S (List.length pre_s)) units) with (match U with _ :: r => r | [] => [] end).
    2:{ subst U. destruct (skipn (List.length pre_s) units) as [|u U'] eqn:EU.
        - apply skipn_nil_len in EU. symmetry. apply skipn_all2. lia.
        - destruct (skipn_cons_get _ _ _ _ EU) as (_ & S1 & _). symmetry. exact S1. }
    destruct (Retrieval.scalePositions ss es _ dun) as [[a b]| |]; cbn [bind fst snd]; try reflexivity.
    rewrite <- !app_assoc. reflexivity. }
  destruct U as [|u U'] eqn:EU; cbn [andb].
  - rewrite (Body (ofZ 1)). cbn [bind]. fold Retrieval.fone.
    destruct (Retrieval.scalePositions ss es [] dun) as [[a b]| |]; reflexivity.
  - destruct (negb (Retrieval.is_none_unit u)) eqn:Eu; cbn [andb].
    + fold (Retrieval.is_none_unit dun). destruct (negb (Retrieval.is_none_unit dun)) eqn:Ed.
      * destruct (skipn_cons_get _ _ _ _ EU) as (G & _ & _). unfold zlen at 1. rewrite G. cbn [bind].
        rewrite bind_ok_id.
        assert (Ecatch : catch_all (Retrieval.getSIScaling u dun) "nix::IncompatibleDimensions"
                         = Retrieval.scaling_or_incompatible u dun).
        { unfold catch_all, Retrieval.scaling_or_incompatible. destruct (Retrieval.getSIScaling u dun); reflexivity. }
        rewrite Ecatch. destruct (Retrieval.scaling_or_incompatible u dun) as [k| |]; cbn [bind]; try reflexivity.
        rewrite (Body k). destruct (Retrieval.scalePositions ss es U' dun) as [[a b]| |]; reflexivity.
      * rewrite (Body (ofZ 1)). cbn [bind]. fold Retrieval.fone.
        destruct (Retrieval.scalePositions ss es U' dun) as [[a b]| |]; reflexivity.
    + rewrite (Body (ofZ 1)). cbn [bind]. fold Retrieval.fone.
      destruct (Retrieval.scalePositions ss es U' dun) as [[a b]| |]; reflexivity.
Qed.

Lemma vec_resize_length (v : list F64) (n : Z) : List.length (vec_resize v n) = Z.to_nat n.
Proof.
  unfold vec_resize. rewrite app_length, firstn_length, repeat_length. lia.
Qed.

Theorem scalePositions_generated : forall starts ends units dun out_s out_e,
  (Nat.min (List.length starts) (List.length ends) < 200)%nat ->
  scalePositions_gen starts ends units dun out_s out_e Retrieval.getSIScaling
  = Retrieval.scalePositions starts ends units dun.
Proof.
  intros starts ends units dun out_s out_e Hn. unfold scalePositions_gen.
  set (n := Nat.min (List.length starts) (List.length ends)) in *.
  assert (Ec : Z.min (zlen starts) (zlen ends) = Z.of_nat n) by (unfold zlen, n; lia).
  rewrite Ec.
  set (os := if negb (zlen out_s =? Z.of_nat n) then vec_resize out_s (Z.of_nat n) else out_s).
  set (oe := if negb (zlen out_e =? Z.of_nat n) then vec_resize out_e (Z.of_nat n) else out_e).
  assert (Los : List.length os = n).
  { subst os. destruct (zlen out_s =? Z.of_nat n) eqn:E; cbn [negb].
    - apply Z.eqb_eq in E. unfold zlen in E. lia.
    - rewrite vec_resize_length. lia. }
  assert (Loe : List.length oe = n).
  { subst oe. destruct (zlen out_e =? Z.of_nat n) eqn:E; cbn [negb].
    - apply Z.eqb_eq in E. unfold zlen in E. lia.
    - rewrite vec_resize_length. lia. }
  assert (Goal1 : scalePositions_gen_loop3 starts ends units dun Retrieval.getSIScaling (Z.of_nat n) LOOP_FUEL 0 oe os
                  = Retrieval.scalePositions starts ends units dun).
  { pose proof (scale_loop_spec dun LOOP_FUEL starts ends [] [] units [] [] os oe) as L.
    cbn [app zlen List.length Z.of_nat skipn Z.add] in L. fold n in L.
    rewrite L by (cbn [List.length]; unfold LOOP_FUEL; try lia; fold n; lia).
    destruct (Retrieval.scalePositions starts ends units dun) as [[a b]| |]; reflexivity. }
  subst os oe.
  destruct (negb (zlen out_s =? Z.of_nat n)); destruct (negb (zlen out_e =? Z.of_nat n)); exact Goal1.
Qed.
