(** C05 / C06 — tagged-data and feature-data retrieval: executable model of src/util/dataAccess.cpp
    (everything except dataSlice / fillPositionsExtentsAndUnits, which belong to C17), written statement
    for statement in the ORDER of the code, with the exception class every check throws, over
      - the GENERATED index conversions [getSampledIndex], [getSetIndex], [getDataFrameIndex]
        (coq/Gen/GenDimensions.v, regenerated from src/Dimensions.cpp on every run),
      - the hand model [getIndex] of the range conversion and the start/end pair rule [pair_of]
        (coq/Axis/RangeModel.v),
      - the GENERATED tables [PREFIXES], [UNITS], [PREFIX_FACTORS] (coq/Gen/GenTables.v).

    Data model.  A DataArray is its shape and its dimension descriptors (as data: [dimd]); the
    element at multi-index idx holds its own row-major flat index, so a view (offset, count) is
    observed as the list of element ids [view_ids].  The positions / extents arrays of a MultiTag are
    [ndarr]s of doubles.

    Unit scaling is restricted to atomic SI units of power 1 (prefix ++ base unit, both from the
    generated tables) and the pseudo unit "none": [getSIScaling a b] for those is exactly the prefix
    arithmetic of util.cpp (for an absent power string the code never calls [pow]; with a power it
    would call pow(x, 1) - assumed to be x - this model has no power strings).  PREFIX_FACTORS carries
    each factor as the exact numerator / denominator of its binary64 value; the denominators are
    powers of two, so [ofME num (- log2 den)] is that double.

    u64 wrap-around ([u64_add], [u64_sub]) is applied exactly where the C++ adds / subtracts ndsize_t.

    Known deviations of the tree from properties C05 / C06 are kept behind the switches of
    [behaviour]; each switch is consulted at the one or two places marked (* SWITCH *).
    [code_today] is the pinned code, [repaired_except_pinned] the behaviour after the patches
    notes/proposed-fixes/C05-*.patch / C06-*.patch, [repaired] additionally pads unspecified dimensions
    with index ranges - the repair that the pinned test testFlexibleTagging forbids (DESIGN appendix
    B.3).  [current_behaviour] is the ONE definition the extracted drivers replay against the library.

    Definitions only; proofs in RetrievalProofs.v. *)
From Coq Require Import ZArith Bool String List.
Require Import NixV.Base.Prelude NixV.Base.F64 NixV.Gen.GenDimensions NixV.Gen.GenTables NixV.Axis.RangeModel.
Import ListNotations.
Local Open Scope string_scope.
Local Open Scope list_scope.
Local Open Scope bool_scope.
Local Open Scope Z_scope.

(* ------------------------------------------------------------------------------------------ *)
(** * Behaviour switches *)

Record behaviour := mkBehaviour {
  pad_end_is_last : bool;           (* item 28: the padded pair of an unspecified dimension is (first, LAST coordinate);
                                       the end position is that last coordinate, not first + last *)
  mt_point_sets_data_offset : bool; (* item 4: the point-tag fallback of a MultiTag writes data_offset[dim], not temp_offset[i] *)
  mt_invalid_range_throws : bool;   (* item 4 (same patch): an invalid non-point range raises OutOfBounds instead of yielding (0, 1) *)
  mt_point_by_extent : bool;        (* item 31: "point tag" is decided by extent == 0, not by end == start after the addition *)
  mt_empty_guard : bool;            (* item 19: an empty index list (no positions) is answered by the empty list, no *max_element *)
  pad_index_range : bool            (* item 3, PINNED by testFlexibleTagging: unspecified dimensions are offset 0, count shape *)
}.

Definition code_today : behaviour := mkBehaviour false false false false false false.
Definition repaired_except_pinned : behaviour := mkBehaviour true true true true true false.
Definition repaired : behaviour := mkBehaviour true true true true true true.

(** SET BY THE COORDINATOR: [code_today] while the defects are open, [repaired_except_pinned] once the fix: commits landed *)
Definition current_behaviour : behaviour := repaired_except_pinned.

(* ------------------------------------------------------------------------------------------ *)
(** * Exception classes *)

Definition E_OutOfBounds := "nix::OutOfBounds".
Definition E_Incompatible := "nix::IncompatibleDimensions".
Definition E_InvalidUnit := "nix::InvalidUnit".
Definition E_Uninit := "nix::UninitializedEntity".
Definition E_Runtime := "std::runtime_error".
Definition E_out_of_range := "std::out_of_range".

(* ------------------------------------------------------------------------------------------ *)
(** * Small helpers *)

Definition fzero : F64 := ofZ 0.
Definition fone : F64 := ofZ 1.

Fixpoint mapM {A B} (f : A -> res B) (l : list A) : res (list B) :=
  match l with
  | [] => Ok []
  | a :: r => bind (f a) (fun b => bind (mapM f r) (fun bs => Ok (b :: bs)))
  end.

(** for (i = 0; i < n; ++i) over a list, with the loop counter *)
Fixpoint mapMi {A B} (f : Z -> A -> res B) (i : Z) (l : list A) : res (list B) :=
  match l with
  | [] => Ok []
  | a :: r => bind (f i a) (fun b => bind (mapMi f (i + 1) r) (fun bs => Ok (b :: bs)))
  end.

Definition nthZ {A} (l : list A) (i : Z) : option A := if i <? 0 then None else nth_error l (Z.to_nat i).

Definition zrepeat {A} (a : A) (n : Z) : list A := repeat a (Z.to_nat n).

(** 0, 1, ..., n-1 *)
Definition ziota (n : Z) : list Z := map Z.of_nat (seq 0 (Z.to_nat n)).

Definition sempty (s : string) : bool := match s with EmptyString => true | _ => false end.
Definition is_none_unit (s : string) : bool := String.eqb s "none".

(** NDSize::operator[] : std::out_of_range when index + 1 > rank *)
Definition nd_at (s : list Z) (i : Z) : res Z :=
  match nthZ s i with Some z => Ok z | None => Err E_out_of_range end.

Fixpoint list_set {A} (l : list A) (i : nat) (a : A) : list A :=
  match l, i with
  | [], _ => []
  | _ :: r, O => a :: r
  | x :: r, S k => x :: list_set r k a
  end.
Definition nd_set (s : list Z) (i : Z) (v : Z) : res (list Z) :=
  match nthZ s i with Some _ => Ok (list_set s (Z.to_nat i) v) | None => Err E_out_of_range end.

(* ------------------------------------------------------------------------------------------ *)
(** * Units (atomic SI, power 1) *)

(** prefix / base split of an atomic unit without power: the first (prefix, unit) pair of the generated
    tables - prefixes in regex order, the empty prefix last - whose concatenation is the string
    (= splitUnit on this sub-grammar; C18 proves the grammar unambiguous) *)
Definition split_atomic (s : string) : option (string * string) :=
  let try_prefix (p : string) : option (string * string) :=
    match find (fun u => String.eqb (p ++ u)%string s) UNITS with Some u => Some (p, u) | None => None end in
  let fix go (ps : list string) : option (string * string) :=
    match ps with
    | [] => None
    | p :: r => match try_prefix p with Some x => Some x | None => go r end
    end in
  go (PREFIXES ++ [""]).

(** PREFIX_FACTORS.at(prefix): the binary64 value, std::out_of_range for an unknown key *)
Definition prefix_factor (p : string) : res F64 :=
  match find (fun e => String.eqb (fst e) p) PREFIX_FACTORS with
  | Some (_, ((num, den), _)) => Ok (ofME num (- Z.log2 den))
  | None => Err E_out_of_range
  end.

(** util::getSIScaling(origin, destination), for "none" / atomic units without power *)
Definition getSIScaling (org dest : string) : res F64 :=
  match split_atomic org, split_atomic dest with
  | Some (op, ou), Some (dp, du) =>
      if negb (String.eqb ou du) then Err E_InvalidUnit              (* !isScalable *)
      else if String.eqb op dp then Ok fone                          (* same prefix (and power) *)
      else if sempty dp && negb (sempty op) then prefix_factor op
      else if sempty op && negb (sempty dp) then bind (prefix_factor dp) (fun f => Ok (fdiv fone f))
      else bind (prefix_factor op) (fun a => bind (prefix_factor dp) (fun b => Ok (fdiv a b)))
  | _, _ => Err E_InvalidUnit                                        (* not an SI unit: "none", "" ... *)
  end.

(** try { getSIScaling } catch (...) { throw IncompatibleDimensions } *)
Definition scaling_or_incompatible (org dest : string) : res F64 :=
  match getSIScaling org dest with
  | Ok k => Ok k
  | Err _ => Err E_Incompatible
  | UB w => UB w
  end.

(* ------------------------------------------------------------------------------------------ *)
(** * Dimension descriptors, arrays, tags *)

Inductive dimd :=
| DSampled (interval : F64) (offset : option F64) (unit : option string)
| DRange (ticks : list F64) (unit : option string)
| DSet (nlabels : Z)
| DFrame (nrows : Z).

Record darray := mkArray { a_shape : list Z; a_dims : list dimd }.

(** positions / extents of a MultiTag: an array of doubles, row major *)
Record ndarr := mkNd { n_shape : list Z; n_data : list F64 }.

Inductive linktype := LTagged | LUntagged | LIndexed.
Record feature := mkFeature { f_link : linktype; f_data : darray }.

Record tag := mkTag {
  t_pos : list F64;
  t_ext : list F64;            (* empty = no extent *)
  t_units : list string;
  t_refs : list darray;
  t_feats : list feature }.

Record mtag := mkMTag {
  m_pos : ndarr;
  m_ext : option ndarr;
  m_units : list string;
  m_refs : list darray;
  m_feats : list feature }.

Definition dim_unit_str (u : option string) : string := match u with Some s => s | None => "none" end.
Definition offset_or_zero (o : option F64) : F64 := match o with Some x => x | None => fzero end.

(** the labels a set dimension with n labels carries (their text is irrelevant to the conversion) *)
Definition labels_of (n : Z) : list string := zrepeat "l" n.

(* ------------------------------------------------------------------------------------------ *)
(** * Row-major indexing *)

Fixpoint ravel (shape idx : list Z) (acc : Z) : Z :=
  match shape, idx with
  | s :: ss, i :: is_ => ravel ss is_ (acc * s + i)
  | _, _ => acc
  end.

(** all multi-indices of the box offset / count, last dimension fastest *)
Fixpoint box_indices (off cnt : list Z) : list (list Z) :=
  match off, cnt with
  | o :: os, c :: cs => flat_map (fun i => map (cons (o + i)) (box_indices os cs)) (ziota c)
  | _, _ => [[]]
  end.

(** element ids a DataView (offset, count) of an array of this shape delivers *)
Definition view_ids (shape off cnt : list Z) : list Z :=
  map (fun idx => ravel shape idx 0) (box_indices off cnt).

(** DataArray::getData(vector<double>, count, offset) on a positions / extents array *)
Definition nd_read (a : ndarr) (off cnt : list Z) : list F64 :=
  map (fun idx => nth (Z.to_nat (ravel (n_shape a) idx 0)) (n_data a) f64_nan) (box_indices off cnt).

(* ------------------------------------------------------------------------------------------ *)
(** * Position -> index per dimension kind (src/Dimensions.cpp entry points) *)

Definition GE := PositionMatch_GreaterOrEqual.

(** SampledDimension::positionAt *)
Definition positionAt (dt : F64) (off : option F64) (index : Z) : F64 :=
  fadd (fmul (ofZ index) dt) (offset_or_zero off).

(** RangeDimension::tickAt -> ticks(index, 1) of the backend: bounds check with u64 addition *)
Definition tickAt (ticks : list F64) (index : Z) : res F64 :=
  let s0 := zlen ticks in
  if (index >? s0) || (1 >? s0) || (u64_add index 1 >? s0) then Err E_OutOfBounds
  else Ok (tick_at ticks index).

(** Dimension::indexOf(position, match) of each kind *)
Definition indexOf_scalar (d : dimd) (p : F64) (m : PositionMatch) : res (option Z) :=
  match d with
  | DSampled dt off _ => getSampledIndex p (offset_or_zero off) dt m
  | DRange ticks _ => getIndex p ticks m
  | DSet n => getSetIndex p (labels_of n) m
  | DFrame n => getDataFrameIndex p n m
  end.

Definition end_match (m : RangeMatch) : PositionMatch :=
  if RangeMatch_beq m RangeMatch_Inclusive then PositionMatch_LessOrEqual else PositionMatch_Less.

(** Dimension::indexOf(start, end, ..., RangeMatch): start > end -> none; both conversions; pair rule.
    The range kind returns before converting the end when the start has no index. *)
Definition indexOf_pair (d : dimd) (m : RangeMatch) (s e : F64) : res (option (Z * Z)) :=
  if fgt s e then Ok None
  else match d with
       | DRange _ _ =>
           bind (indexOf_scalar d s GE) (fun si =>
           match si with
           | None => Ok None
           | Some _ => bind (indexOf_scalar d e (end_match m)) (fun ei => Ok (pair_of false si ei))
           end)
       | _ =>
           bind (indexOf_scalar d s GE) (fun si =>
           bind (indexOf_scalar d e (end_match m)) (fun ei => Ok (pair_of false si ei)))
       end.

(** the vector overloads: size check, then one pair after the other *)
Fixpoint indexOf_pairs (d : dimd) (m : RangeMatch) (starts ends : list F64) : res (list (option (Z * Z))) :=
  match starts, ends with
  | s :: ss, e :: es => bind (indexOf_pair d m s e) (fun r => bind (indexOf_pairs d m ss es) (fun rs => Ok (r :: rs)))
  | _, _ => Ok []
  end.
Definition indexOf_vec (d : dimd) (m : RangeMatch) (starts ends : list F64) : res (list (option (Z * Z))) :=
  if negb (zlen starts =? zlen ends) then Err E_Runtime else indexOf_pairs d m starts ends.

(* ------------------------------------------------------------------------------------------ *)
(** * dataAccess.cpp *)

(** scalePositions: every entry is multiplied by the factor of ITS OWN unit - [scaling] is a local of the loop
    body, 1.0 unless entry i has a unit and the dimension has one (as repaired; until then the variable was
    declared outside the loop and a factor carried over to later "none" entries: [scalePositions_carry] in
    Access/VecUnits.v keeps that behaviour and its refutation) *)
Fixpoint scalePositions (starts ends : list F64) (units : list string) (dim_unit : string)
  : res (list F64 * list F64) :=
  match starts, ends with
  | s :: ss, e :: es =>
      let u := match units with u :: _ => Some u | [] => None end in
      let us := match units with _ :: r => r | [] => [] end in
      bind (match u with
            | Some u => if negb (is_none_unit u) && negb (is_none_unit dim_unit)
                        then scaling_or_incompatible u dim_unit else Ok fone
            | None => Ok fone
            end) (fun k =>
      bind (scalePositions ss es us dim_unit) (fun r =>
      Ok (fmul s k :: fst r, fmul e k :: snd r)))
  | _, _ => Ok ([], [])
  end.

(** positionToIndex(starts, ends, units, RangeMatch, Dimension): dispatch on the dimension kind *)
Definition positionToIndex_vec (starts ends : list F64) (units : list string) (m : RangeMatch) (d : dimd)
  : res (list (option (Z * Z))) :=
  match d with
  | DSampled _ _ du | DRange _ du =>
      if negb (zlen starts =? zlen ends) || negb (zlen starts =? zlen units) then Err E_Runtime
      else bind (scalePositions starts ends units (dim_unit_str du)) (fun se =>
           indexOf_vec d m (fst se) (snd se))
  | DSet _ | DFrame _ =>
      if negb (zlen starts =? zlen ends) then Err E_Runtime
      else indexOf_vec d m starts ends
  end.

(** positionToIndex(position, unit, PositionMatch, Dimension) *)
Definition positionToIndex_one (p : F64) (unit : string) (m : PositionMatch) (d : dimd) : res (option Z) :=
  match d with
  | DSampled _ _ du =>
      bind (match du with
            | None => if negb (is_none_unit unit) then Err E_Incompatible else Ok fone
            | Some dus => if negb (is_none_unit unit) then scaling_or_incompatible unit dus else Ok fone
            end) (fun k => indexOf_scalar d (fmul p k) m)
  | DRange _ du =>
      bind (if negb (is_none_unit unit) then scaling_or_incompatible unit (dim_unit_str du) else Ok fone)
           (fun k => indexOf_scalar d (fmul p k) m)
  | DSet _ | DFrame _ => indexOf_scalar d p m
  end.

(** check::converts_to_double *)
Definition converts_to_double (num : Z) : res F64 :=
  let dbl := ofZ num in
  bind (toU64 dbl) (fun back => if negb (back =? num) then Err E_OutOfBounds else Ok dbl).

(** getMaxExtent(dim, max_index, pos, ext): first coordinate and LAST coordinate *)
Definition getMaxExtent (d : dimd) (max_index : Z) : res (F64 * F64) :=
  match d with
  | DSampled dt off _ => Ok (positionAt dt off 0, positionAt dt off max_index)
  | DRange ticks _ => bind (tickAt ticks 0) (fun p => bind (tickAt ticks max_index) (fun e => Ok (p, e)))
  | DSet _ | DFrame _ => bind (converts_to_double max_index) (fun e => Ok (fzero, e))
  end.

(** maximumExtents(array): for every dimension descriptor, with shape[i] - 1 in u64 *)
Definition maximumExtents (a : darray) : res (list (F64 * F64)) :=
  mapMi (fun i d => bind (nd_at (a_shape a) i) (fun s => getMaxExtent d (u64_sub s 1))) 0 (a_dims a).

Definition getDimensionUnit (d : dimd) : string :=
  match d with
  | DSet _ => "none"
  | DFrame _ => "none"            (* no column index chosen *)
  | DSampled _ _ u => dim_unit_str u
  | DRange _ u => dim_unit_str u
  end.

(** getDimensionUnit on a data-frame dimension WITH a column index: the unit of that column, "none" when it is empty
    ([getDimensionUnit (DFrame n)] is the case without a column index) *)
Definition frame_dim_unit (column_unit : option string) : string :=
  let unit := match column_unit with Some u => u | None => "none" end in
  if sempty unit then "none" else unit.

(** one dimension of a request after padding: position, extent (or padded last coordinate), unit, descriptor *)
Record dimreq := mkReq { r_pos : F64; r_ext : F64; r_unit : string; r_dim : dimd }.

Fixpoint zip4 (ps es : list F64) (us : list string) (ds : list dimd) : list dimreq :=
  match ps, es, us, ds with
  | p :: ps', e :: es', u :: us', d :: ds' => mkReq p e u d :: zip4 ps' es' us' ds'
  | _, _, _, _ => []
  end.

(** the loop body of getOffsetAndCount(Tag ...) for dimension i *)
Definition tag_dim (B : behaviour) (specified : Z) (shape : list Z) (m : RangeMatch) (i : Z) (r : dimreq) : res (Z * Z) :=
  if pad_index_range B && (specified <=? i)                                                 (* SWITCH item 3 *)
  then bind (nd_at shape i) (fun s => Ok (0, s))
  else
  let is_spec := i <? specified in
  let end_position := if pad_end_is_last B && negb is_spec then r_ext r                      (* SWITCH item 28 *)
                      else fadd (r_pos r) (r_ext r) in
  bind (positionToIndex_vec [r_pos r] [end_position] [r_unit r] m (r_dim r)) (fun ranges =>
  match ranges with
  | Some (first, second) :: _ =>
      Ok (first, u64_add 1 (u64_sub second first))
  | _ =>
      bind (positionToIndex_one (r_pos r) (r_unit r) GE (r_dim r)) (fun ofst =>
      let ext_nonzero := if pad_end_is_last B then is_spec && fne (r_ext r) fzero             (* SWITCH item 28 *)
                         else fne (r_ext r) fzero in
      match ofst with
      | Some o => if ext_nonzero then Err E_OutOfBounds else Ok (o, 1)
      | None => Err E_OutOfBounds
      end)
  end).

(** getOffsetAndCount(const Tag &, const DataArray &, NDSize &offset, NDSize &count, RangeMatch) *)
Definition getOffsetAndCount_tag (B : behaviour) (t : tag) (a : darray) (m : RangeMatch) : res (list Z * list Z) :=
  let position := t_pos t in
  let extent := t_ext t in
  let units := t_units t in
  let dimensions := a_dims a in
  let dim_count := zlen dimensions in
  if (zlen extent >? 0) && negb (zlen extent =? zlen position) then Err E_Incompatible
  else
  bind (if (zlen position <? dim_count) && negb (pad_index_range B) then maximumExtents a else Ok []) (fun max_extents =>
  let extent' := if zlen extent =? 0 then zrepeat fzero (zlen position) else extent in
  let m' := if zlen extent =? 0 then RangeMatch_Inclusive else m in
  let position1 := firstn (Z.to_nat dim_count) position in
  let extent1 := firstn (Z.to_nat dim_count) extent' in
  let specified := zlen position1 in
  let pad := if pad_index_range B                                                           (* SWITCH item 3 *)
             then zrepeat (fzero, fzero) (dim_count - specified)
             else skipn (Z.to_nat specified) max_extents in
  let position2 := position1 ++ map fst pad in
  let extent2 := extent1 ++ map snd pad in
  let units0 := if zlen units =? 0 then zrepeat "none" (zlen position2) else units in
  let units1 := firstn (List.length position2) units0 in
  let units2 := units1 ++ map getDimensionUnit (firstn (List.length position2 - List.length units1) (skipn (List.length units1) dimensions)) in
  bind (mapMi (tag_dim B specified (a_shape a) m') 0 (zip4 position2 extent2 units2 dimensions)) (fun ocs =>
  Ok (map fst ocs, map snd ocs))).

(** positionInData / positionAndExtentInData *)
Fixpoint all_lt (pos size : list Z) : bool :=
  match pos, size with
  | p :: ps, s :: ss => (p <? s) && all_lt ps ss
  | _, _ => true
  end.
Definition positionInData (shape position : list Z) : bool :=
  if negb (zlen shape =? zlen position) then false else all_lt position shape.

(** positionAndExtentInData: ranks must agree; per dimension count >= 1, position < size and
    count <= size - position (written without position + count, which could wrap around) *)
Fixpoint extent_in_data (shape position count : list Z) : bool :=
  match shape, position, count with
  | s :: ss, p :: ps, c :: cs =>
      negb ((c <? 1) || (p >=? s) || (c >? u64_sub s p)) && extent_in_data ss ps cs
  | _, _, _ => true
  end.
Definition positionAndExtentInData (shape position count : list Z) : bool :=
  if negb (zlen shape =? zlen position) || negb (zlen shape =? zlen count) then false
  else extent_in_data shape position count.

(** the window test of the DataView constructor: offset[i] > extent[i] || count[i] > extent[i] - offset[i] *)
Fixpoint view_outside (extent offset count : list Z) : bool :=
  match extent, offset, count with
  | s :: ss, o :: os, c :: cs => (o >? s) || (c >? u64_sub s o) || view_outside ss os cs
  | _, _, _ => false
  end.

(** the DataView constructor *)
Definition mkDataView (shape count offset : list Z) : res (list Z * list Z) :=
  if negb (zlen offset =? zlen shape) then Err E_Incompatible
  else if negb (zlen count =? zlen shape) then Err E_Incompatible
  else if view_outside shape offset count then Err E_OutOfBounds
  else Ok (offset, count).

Definition checked_view (shape : list Z) (oc : list Z * list Z) : res (list Z * list Z) :=
  if negb (positionAndExtentInData shape (fst oc) (snd oc)) then Err E_OutOfBounds
  else mkDataView shape (snd oc) (fst oc).

(** taggedData(const Tag &, const DataArray &, RangeMatch): the view as (offset, count) *)
Definition taggedData_tag (B : behaviour) (t : tag) (a : darray) (m : RangeMatch) : res (list Z * list Z) :=
  bind (getOffsetAndCount_tag B t a m) (checked_view (a_shape a)).

(** taggedData(const Tag &, ndsize_t reference_index, RangeMatch) *)
Definition taggedData_tag_ref (B : behaviour) (t : tag) (reference_index : Z) (m : RangeMatch) : res (list Z * list Z) :=
  let refs := t_refs t in
  if zlen refs =? 0 then Err E_OutOfBounds
  else if negb (reference_index <? zlen refs) then Err E_OutOfBounds
  else match nthZ refs reference_index with
       | Some a => taggedData_tag B t a m
       | None => Err E_OutOfBounds
       end.

Definition whole (a : darray) : res (list Z * list Z) :=
  mkDataView (a_shape a) (a_shape a) (zrepeat 0 (zlen (a_shape a))).

(** featureData(const Tag &, const Feature &, RangeMatch) *)
Definition featureData_tag_feat (B : behaviour) (t : tag) (f : feature) (m : RangeMatch) : res (list Z * list Z) :=
  match f_link f with
  | LTagged => taggedData_tag B t (f_data f) m
  | LUntagged | LIndexed => whole (f_data f)
  end.

(** featureData(const Tag &, ndsize_t feature_index, RangeMatch); Tag::getFeature has its own bound check *)
Definition featureData_tag (B : behaviour) (t : tag) (feature_index : Z) (m : RangeMatch) : res (list Z * list Z) :=
  let n := zlen (t_feats t) in
  if n =? 0 then Err E_OutOfBounds
  else if feature_index >? n then Err E_OutOfBounds
  else match nthZ (t_feats t) feature_index with
       | Some f => featureData_tag_feat B t f m
       | None => Err E_OutOfBounds                  (* Tag::getFeature(index): index >= count *)
       end.

(* ---- MultiTag ---- *)

Definition zmax_list (l : list Z) : Z := fold_right Z.max 0 l.

(** one entry of a row after phase 1: start, end, "point?" (the repaired test: the dimension is unspecified or
    its extent is zero) and "specified?" *)
Record rowent := mkEnt { e_start : F64; e_end : F64; e_point : bool; e_spec : bool }.

Fixpoint row_entries (B : behaviour) (specified : Z) (i : Z) (os es : list F64) : list rowent :=
  match os, es with
  | o :: os', e :: es' =>
      let is_spec := i <? specified in
      let end_ := if pad_end_is_last B && negb is_spec then e else fadd o e in              (* SWITCH item 28 *)
      mkEnt o end_ (negb is_spec || feq e fzero) is_spec :: row_entries B specified (i + 1) os' es'
  | _, _ => []
  end.

(** phase 1 for one position index: read row, pad / truncate *)
Definition mtag_row (B : behaviour) (mt : mtag) (ndims : Z) (max_extents : list (F64 * F64))
           (temp_count : list Z) (rankP : Z) (index : Z) : list rowent :=
  let temp_offset := list_set (zrepeat 0 rankP) 0 index in
  let offset := nd_read (m_pos mt) temp_offset temp_count in
  let extent := match m_ext mt with
                | Some ex => nd_read ex temp_offset temp_count
                | None => zrepeat fzero (zlen offset)
                end in
  let specified := Z.min (zlen offset) ndims in
  let pad := skipn (List.length offset) max_extents in
  let offset' := firstn (Z.to_nat ndims) (offset ++ map fst pad) in
  let extent' := firstn (Z.to_nat ndims) (extent ++ map snd pad) in
  row_entries B specified 0 offset' extent'.

(** column [k] of the rows *)
Definition column {A} (rows : list (list A)) (k : nat) (dflt : A) : list A := map (fun r => nth k r dflt) rows.

Definition no_entry : rowent := mkEnt fzero fzero false false.

(** phase 3 for position i (its place in the index list) and dimension k *)
Definition mtag_dim (B : behaviour) (rankP : Z) (shape : list Z) (i k : Z) (d : dimd) (unit : string)
           (rng : option (Z * Z)) (ent : rowent) : res (Z * Z) :=
  if pad_index_range B && negb (e_spec ent)                                                  (* SWITCH item 3 *)
  then bind (nd_at shape k) (fun s => Ok (0, s))
  else
  match rng with
  | Some (first, second) => Ok (first, u64_add 1 (u64_sub second first))
  | None =>
      let point := if mt_point_by_extent B then e_point ent else feq (e_end ent) (e_start ent) in   (* SWITCH item 31 *)
      if point then
        bind (positionToIndex_one (e_end ent) unit GE d) (fun ofst =>
        match ofst with
        | None => Err E_OutOfBounds
        | Some o =>
            if mt_point_sets_data_offset B then Ok (o, 1)                                     (* SWITCH item 4 *)
            else if i + 1 >? rankP then Err E_out_of_range       (* temp_offset[i] = *ofst : NDSize::operator[] *)
            else Ok (0, 1)
        end)
      else if mt_invalid_range_throws B then Err E_OutOfBounds                                (* SWITCH item 4 *)
      else Ok (0, 1)
  end.

(** temp_count: ones, with position_size[1] entries along the second dimension when the data has more than one dimension *)
Definition mtag_temp_count (position_size : list Z) (dimension_count : Z) : res (list Z) :=
  let rankP := zlen position_size in
  let dim_index := if dimension_count >? 1 then 1 else 0 in
  bind (if dimension_count >? 1 then nd_at position_size dim_index else Ok 1) (fun count =>
  nd_set (zrepeat 1 rankP) dim_index count).

(** phase 2: batched conversion per dimension *)
Definition mtag_phase2 (dimensions : list dimd) (units : list string) (m : RangeMatch) (rows : list (list rowent))
  : res (list (list (option (Z * Z)))) :=
  mapMi (fun k d =>
          let col := column rows (Z.to_nat k) no_entry in
          let unit := nth (Z.to_nat k) units "none" in
          positionToIndex_vec (map e_start col) (map e_end col) (map (fun _ => unit) col) m d) 0 dimensions.

(** phase 3: per index assembly *)
Definition mtag_phase3 (B : behaviour) (rankP : Z) (shape : list Z) (dimensions : list dimd) (units : list string)
           (data_indices : list (list (option (Z * Z)))) (rows : list (list rowent)) : res (list (list Z * list Z)) :=
  mapMi (fun i row =>
     bind (mapMi (fun k d =>
             let unit := nth (Z.to_nat k) units "none" in
             let rng := nth (Z.to_nat i) (nth (Z.to_nat k) data_indices []) None in
             mtag_dim B rankP shape i k d unit rng (nth (Z.to_nat k) row no_entry)) 0 dimensions) (fun ocs =>
     Ok (map fst ocs, map snd ocs))) 0 rows.

(** getOffsetAndCount(const MultiTag &, const DataArray &, const vector<ndsize_t> &indices, vector<NDSize> &offsets,
    vector<NDSize> &counts, RangeMatch) - declared in the header as getOffestAndCount *)
Definition getOffsetAndCount_mtag (B : behaviour) (mt : mtag) (a : darray) (indices : list Z) (m : RangeMatch)
  : res (list (list Z * list Z)) :=
  let positions := m_pos mt in
  let dimensions := a_dims a in
  let dimension_count := zlen dimensions in
  let units := m_units mt ++ zrepeat "none" (dimension_count - zlen (m_units mt)) in
  bind (if 0 <? dimension_count then maximumExtents a else Ok []) (fun max_extents =>
  let position_size := n_shape positions in
  match indices with
  | [] => if mt_empty_guard B then Ok []                                                     (* SWITCH item 19 *)
          else UB "*max_element of an empty index list"
  | _ =>
  let max_index := zmax_list indices in
  bind (nd_at position_size 0) (fun n0 =>
  bind (if max_index >=? n0 then Ok true
        else match m_ext mt with
             | Some ex => bind (nd_at (n_shape ex) 0) (fun en => Ok (max_index >=? en))
             | None => Ok false
             end) (fun oob =>
  if (oob : bool) then Err E_OutOfBounds else
  let rankP := zlen position_size in
  bind (mtag_temp_count position_size dimension_count) (fun temp_count =>
  (* phase 1: rows *)
  let rows := map (mtag_row B mt dimension_count max_extents temp_count rankP) indices in
  bind (mtag_phase2 dimensions units m rows) (fun data_indices =>
  mtag_phase3 B rankP (a_shape a) dimensions units data_indices rows))))
  end).

(** getOffsetAndCount(const MultiTag &, const DataArray &, ndsize_t index, ...) *)
Definition getOffsetAndCount_mtag1 (B : behaviour) (mt : mtag) (a : darray) (index : Z) (m : RangeMatch)
  : res (list Z * list Z) :=
  bind (getOffsetAndCount_mtag B mt a [index] m) (fun l =>
  match l with x :: _ => Ok x | [] => UB "temp_offsets[0] of an empty vector" end).

(** position_indices.size() < 1 -> all positions *)
Definition all_or (mt : mtag) (indices : list Z) : res (list Z) :=
  match indices with
  | [] => bind (nd_at (n_shape (m_pos mt)) 0) (fun n0 => Ok (ziota n0))
  | _ => Ok indices
  end.

(** taggedData(const MultiTag &, vector<ndsize_t> &position_indices, const DataArray &, RangeMatch) *)
Definition taggedData_mtag (B : behaviour) (mt : mtag) (indices : list Z) (a : darray) (m : RangeMatch)
  : res (list (list Z * list Z)) :=
  bind (all_or mt indices) (fun idxs =>
  bind (getOffsetAndCount_mtag B mt a idxs m) (fun ocs =>
  mapM (checked_view (a_shape a)) ocs)).

(** taggedData(const MultiTag &, ndsize_t position_index, const DataArray &, RangeMatch) = (...)[0] *)
Definition taggedData_mtag1 (B : behaviour) (mt : mtag) (index : Z) (a : darray) (m : RangeMatch)
  : res (list Z * list Z) :=
  bind (taggedData_mtag B mt [index] a m) (fun l =>
  match l with x :: _ => Ok x | [] => UB "[0] of an empty vector" end).

(** taggedData(const MultiTag &, vector<ndsize_t> &, ndsize_t reference_index, RangeMatch) *)
Definition taggedData_mtag_ref (B : behaviour) (mt : mtag) (indices : list Z) (reference_index : Z) (m : RangeMatch)
  : res (list (list Z * list Z)) :=
  if reference_index >=? zlen (m_refs mt) then Err E_OutOfBounds
  else match nthZ (m_refs mt) reference_index with
       | Some a => taggedData_mtag B mt indices a m
       | None => Err E_OutOfBounds
       end.

(** the indexed slice of a feature array for position index idx *)
Definition indexed_slice (data : darray) (idx : Z) : res (list Z * list Z) :=
  let shape := a_shape data in
  bind (nd_set (zrepeat 0 (zlen shape)) 0 idx) (fun offset =>
  bind (nd_set shape 0 1) (fun count =>
  if negb (positionAndExtentInData shape offset count) then Err E_OutOfBounds
  else mkDataView shape count offset)).

(** featureData(const MultiTag &, vector<ndsize_t> position_indices, const Feature &, RangeMatch) *)
Definition featureData_mtag_feat (B : behaviour) (mt : mtag) (indices : list Z) (f : feature) (m : RangeMatch)
  : res (list (list Z * list Z)) :=
  let data := f_data f in
  bind (all_or mt indices) (fun idxs =>
  match f_link f with
  | LTagged => taggedData_mtag B mt idxs data m
  | lt =>
      match idxs with
      | [] => if mt_empty_guard B then Ok []                                                 (* SWITCH item 19 *)
              else UB "*max_element of an empty index list"
      | _ =>
      bind (nd_at (n_shape (m_pos mt)) 0) (fun n0 =>
      if zmax_list idxs >=? n0 then Err E_OutOfBounds
      else match lt with
           | LIndexed => mapM (indexed_slice data) idxs
           | _ => mapM (fun _ => whole data) idxs
           end)
      end
  end).

(** featureData(const MultiTag &, vector<ndsize_t>, ndsize_t feature_index, RangeMatch) *)
Definition featureData_mtag (B : behaviour) (mt : mtag) (indices : list Z) (feature_index : Z) (m : RangeMatch)
  : res (list (list Z * list Z)) :=
  if feature_index >=? zlen (m_feats mt) then Err E_OutOfBounds
  else match nthZ (m_feats mt) feature_index with
       | Some f => featureData_mtag_feat B mt indices f m
       | None => Err E_OutOfBounds
       end.

(** featureData(const MultiTag &, ndsize_t position_index, ndsize_t feature_index, RangeMatch) = (...)[0] *)
Definition featureData_mtag1 (B : behaviour) (mt : mtag) (index : Z) (feature_index : Z) (m : RangeMatch)
  : res (list Z * list Z) :=
  bind (featureData_mtag B mt [index] feature_index m) (fun l =>
  match l with x :: _ => Ok x | [] => UB "[0] of an empty vector" end).

(** taggedData(const MultiTag &, ndsize_t position_index, ndsize_t reference_index, RangeMatch) = (...)[0] *)
Definition taggedData_mtag1_ref (B : behaviour) (mt : mtag) (index : Z) (reference_index : Z) (m : RangeMatch)
  : res (list Z * list Z) :=
  bind (taggedData_mtag_ref B mt [index] reference_index m) (fun l =>
  match l with x :: _ => Ok x | [] => UB "[0] of an empty vector" end).

(** default arguments of the header: retrieval is Exclusive, getOffsetAndCount is Inclusive *)
Definition default_match_retrieval : RangeMatch := RangeMatch_Exclusive.
Definition default_match_offcnt : RangeMatch := RangeMatch_Inclusive.
(** the deprecated twins util::retrieveData / util::retrieveFeatureData default to Inclusive *)
Definition default_match_deprecated : RangeMatch := RangeMatch_Inclusive.
