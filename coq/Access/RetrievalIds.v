(** C05 / C06 — the element ids the oracle selects pointwise on the axis coordinates ([spec_ids]: a filter over ALL
    elements of the array) are exactly the elements of the region's box, in row-major order ([view_ids]). *)
From Coq Require Import ZArith Bool String List Lia.
Require Import NixV.Base.Prelude NixV.Base.F64 NixV.Gen.GenDimensions.
Require Import NixV.Access.Retrieval NixV.Access.RetrievalSpec NixV.Access.RetrievalFacts.
Import ListNotations.
Local Open Scope list_scope.
Local Open Scope Z_scope.

Definition zprod (l : list Z) : Z := fold_right Z.mul 1 l.

Fixpoint in_box (off cnt idx : list Z) : bool :=
  match off, cnt, idx with
  | o :: os, c :: cs, i :: is_ => (o <=? i) && (i <? o + c) && in_box os cs is_
  | _, _, _ => true
  end.

Lemma map_of_nat_seq : forall n b, map Z.of_nat (seq b n) = map (fun x : nat => Z.of_nat b + Z.of_nat x) (seq 0 n).
Proof.
  induction n as [|n IH]; intro b; [reflexivity|]. cbn [seq map]. f_equal; [lia|].
  rewrite (IH (S b)). rewrite <- seq_shift, map_map. apply map_ext. intro k. lia.
Qed.

Lemma ziota_add a t : 0 <= a -> 0 <= t -> ziota (a + t) = ziota a ++ map (fun r => a + r) (ziota t).
Proof.
  intros Ha Ht. unfold ziota. replace (Z.to_nat (a + t)) with (Z.to_nat a + Z.to_nat t)%nat by lia.
  rewrite seq_app, map_app. f_equal. cbn [Nat.add]. rewrite map_map, map_of_nat_seq. apply map_ext. intro k. lia.
Qed.

Lemma ziota_mul s t : 0 <= s -> 0 <= t ->
  ziota (s * t) = flat_map (fun i => map (fun r => i * t + r) (ziota t)) (ziota s).
Proof.
  intros Hs Ht. pattern s. apply natlike_ind; [reflexivity| |exact Hs].
  - intros x Hx IH. replace (Z.succ x) with (x + 1) by lia. rewrite ziota_succ by lia.
    rewrite flat_map_app. cbn [flat_map]. rewrite app_nil_r. rewrite <- IH.
    replace ((x + 1) * t) with (x * t + t) by lia.
    rewrite ziota_add by (try apply Z.mul_nonneg_nonneg; lia). reflexivity.
Qed.

Lemma ravel_acc : forall shape idx acc, List.length idx = List.length shape ->
  ravel shape idx acc = acc * zprod shape + ravel shape idx 0.
Proof.
  induction shape as [|s shape IH]; intros idx acc L.
  - destruct idx; [|discriminate]. cbn. lia.
  - destruct idx as [|i idx]; [discriminate|]. cbn [ravel zprod fold_right]. fold (zprod shape).
    rewrite (IH idx (acc * s + i)) by (cbn in L; lia). rewrite (IH idx (0 * s + i)) by (cbn in L; lia). lia.
Qed.

Lemma zprod_nonneg shape : (forall s, In s shape -> 0 <= s) -> 0 <= zprod shape.
Proof.
  induction shape as [|s shape IH]; intro H; [cbn; lia|]. cbn [zprod fold_right]. fold (zprod shape).
  apply Z.mul_nonneg_nonneg; [apply H; left; reflexivity|apply IH; intros; apply H; right; assumption].
Qed.

Lemma filter_flat_map {A B} (p : B -> bool) (f : A -> list B) l :
  filter p (flat_map f l) = flat_map (fun x => filter p (f x)) l.
Proof. induction l as [|a l IH]; [reflexivity|]. cbn [flat_map]. rewrite filter_app, IH. reflexivity. Qed.

Lemma map_flat_map {A B C} (f : B -> C) (g : A -> list B) l : map f (flat_map g l) = flat_map (fun x => map f (g x)) l.
Proof. induction l as [|a l IH]; [reflexivity|]. cbn [flat_map]. rewrite map_app, IH. reflexivity. Qed.

Lemma flat_map_map {A B C} (f : A -> B) (g : B -> list C) l : flat_map g (map f l) = flat_map (fun x => g (f x)) l.
Proof. induction l as [|a l IH]; [reflexivity|]. cbn [map flat_map]. rewrite IH. reflexivity. Qed.

Lemma flat_map_ext_in' {A B} (f g : A -> list B) l : (forall x, In x l -> f x = g x) -> flat_map f l = flat_map g l.
Proof. induction l as [|a l IH]; intro H; [reflexivity|]. cbn [flat_map]. rewrite (H a (or_introl eq_refl)), IH; [reflexivity|]. intros; apply H; right; assumption. Qed.

Lemma filter_map {A B} (p : B -> bool) (f : A -> B) l : filter p (map f l) = map f (filter (fun x => p (f x)) l).
Proof. induction l as [|a l IH]; [reflexivity|]. cbn [map filter]. destruct (p (f a)); cbn [map]; rewrite IH; reflexivity. Qed.

Lemma filter_ziota_range o c s : 0 <= o -> 0 <= c -> o + c <= s ->
  filter (fun i => (o <=? i) && (i <? o + c)) (ziota s) = map (fun i => o + i) (ziota c).
Proof.
  intros Ho Hc Hs.
  replace s with (o + (c + (s - o - c))) by lia.
  rewrite (ziota_add o) by lia. rewrite (ziota_add c) by lia. rewrite map_app, !filter_app, map_map, !filter_map.
  assert (E1 : filter (fun i => (o <=? i) && (i <? o + c)) (ziota o) = []).
  { rewrite <- (filter_ext_in (fun _ => false)).
    - clear. induction (ziota o); [reflexivity|assumption].
    - intros i Hi. apply In_ziota in Hi. lia. }
  rewrite E1. cbn [app].
  assert (E2 : filter (fun x => (o <=? o + x) && (o + x <? o + c)) (ziota c) = ziota c).
  { rewrite <- (filter_ext_in (fun _ => true)).
    - clear. induction (ziota c) as [|a l IH]; [reflexivity|]. cbn. rewrite IH. reflexivity.
    - intros i Hi. apply In_ziota in Hi. lia. }
  rewrite E2.
  assert (E3 : filter (fun x => (o <=? o + (c + x)) && (o + (c + x) <? o + c)) (ziota (s - o - c)) = []).
  { rewrite <- (filter_ext_in (fun _ => false)).
    - clear. induction (ziota (s - o - c)); [reflexivity|assumption].
    - intros i Hi. apply In_ziota in Hi. lia. }
  rewrite E3. cbn [map]. rewrite app_nil_r. reflexivity.
Qed.

(** the elements of the box, selected pointwise from the row-major enumeration of the whole array, are the
    row-major enumeration of the box *)
Theorem filter_box : forall shape off cnt,
  List.length off = List.length shape -> List.length cnt = List.length shape ->
  (forall k s o c, nth_error shape k = Some s -> nth_error off k = Some o -> nth_error cnt k = Some c ->
                   0 <= o /\ 0 <= c /\ o + c <= s) ->
  filter (fun k => in_box off cnt (unravel shape k)) (ziota (zprod shape)) =
  map (fun idx => ravel shape idx 0) (box_indices off cnt).
Proof.
  induction shape as [|s shape IH]; intros off cnt Lo Lc H.
  - destruct off, cnt; try discriminate. reflexivity.
  - destruct off as [|o os], cnt as [|c cs]; try discriminate.
    destruct (H O s o c eq_refl eq_refl eq_refl) as (Ho & Hc & Hoc).
    assert (Hrest : forall k s' o' c', nth_error shape k = Some s' -> nth_error os k = Some o' -> nth_error cs k = Some c' ->
                      0 <= o' /\ 0 <= c' /\ o' + c' <= s') by (intros k s' o' c' H1 H2 H3; apply (H (S k)); assumption).
    assert (Hnn : forall x, In x shape -> 0 <= x).
    { intros x Hx. destruct (In_nth_error _ _ Hx) as (k & Hk).
      assert (Hko : (k < List.length os)%nat) by (cbn in Lo; injection Lo as Lo; rewrite Lo; apply nth_error_Some; congruence).
      assert (Hkc : (k < List.length cs)%nat) by (cbn in Lc; injection Lc as Lc; rewrite Lc; apply nth_error_Some; congruence).
      destruct (nth_error os k) as [o'|] eqn:E1; [|apply nth_error_None in E1; lia].
      destruct (nth_error cs k) as [c'|] eqn:E2; [|apply nth_error_None in E2; lia].
      destruct (Hrest k x o' c' Hk E1 E2). lia. }
    pose proof (zprod_nonneg shape Hnn) as Hp.
    specialize (IH os cs ltac:(cbn in Lo; lia) ltac:(cbn in Lc; lia) Hrest).
    cbn [zprod fold_right]. fold (zprod shape). set (t := zprod shape) in *.
    rewrite ziota_mul by lia. rewrite filter_flat_map.
    cbn [box_indices]. rewrite map_flat_map.
    (* per leading index i *)
    assert (Step : forall i, 0 <= i < s ->
              filter (fun k => in_box (o :: os) (c :: cs) (unravel (s :: shape) k)) (map (fun r => i * t + r) (ziota t))
              = if (o <=? i) && (i <? o + c) then map (fun idx => ravel (s :: shape) (i :: idx) 0) (box_indices os cs) else []).
    { intros i Hi. rewrite filter_map.
      assert (Ext : forall r, In r (ziota t) ->
                (fun x => in_box (o :: os) (c :: cs) (unravel (s :: shape) (i * t + x))) r
                = ((o <=? i) && (i <? o + c)) && in_box os cs (unravel shape r)).
      { intros r Hr. apply In_ziota in Hr. cbn [unravel]. fold (zprod shape). fold t. cbn [in_box].
        replace ((i * t + r) / t) with i by (apply (Z.div_unique (i * t + r) t i r); lia).
        replace ((i * t + r) mod t) with r by (apply (Z.mod_unique (i * t + r) t i r); lia). reflexivity. }
      rewrite (filter_ext_in _ _ _ Ext).
      destruct ((o <=? i) && (i <? o + c)); cbn [andb].
      - rewrite IH. rewrite map_map. apply map_ext_in. intros idx Hidx. cbn [ravel].
        assert (Lidx : List.length idx = List.length shape).
        { clear -Hidx Lo Lc. cbn in Lo, Lc. injection Lo as Lo. injection Lc as Lc. revert shape cs idx Lo Lc Hidx.
          induction os as [|o' os IHo]; intros shape cs idx Lo Lc Hidx.
          - destruct shape; [|discriminate]. cbn in Hidx. destruct cs; destruct Hidx as [<-|[]]; reflexivity.
          - destruct shape as [|s' shape]; [discriminate|]. destruct cs as [|c' cs]; [discriminate|].
            cbn [box_indices] in Hidx. apply in_flat_map in Hidx. destruct Hidx as (j & _ & Hj). apply in_map_iff in Hj.
            destruct Hj as (idx' & <- & Hi'). cbn [List.length]. f_equal. apply (IHo shape cs); cbn in *; try lia. exact Hi'. }
        rewrite (ravel_acc shape idx (0 * s + i) Lidx). fold t. lia.
      - clear. induction (ziota t); [reflexivity|assumption]. }
    (* assemble over i *)
    rewrite (flat_map_ext_in' _ (fun i => if (o <=? i) && (i <? o + c) then map (fun idx => ravel (s :: shape) (i :: idx) 0) (box_indices os cs) else []))
      by (intros i Hi; apply Step; apply In_ziota in Hi; lia).
    (* only i in [o, o + c) contribute *)
    transitivity (flat_map (fun i => map (fun idx => ravel (s :: shape) (i :: idx) 0) (box_indices os cs))
                           (filter (fun i => (o <=? i) && (i <? o + c)) (ziota s))).
    { clear. induction (ziota s) as [|i l IHl]; [reflexivity|]. cbn [flat_map filter].
      destruct ((o <=? i) && (i <? o + c)); cbn [flat_map app]; rewrite IHl; reflexivity. }
    rewrite filter_ziota_range by lia. rewrite flat_map_map.
    apply flat_map_ext. intro i. rewrite map_map. reflexivity.
Qed.

Require Import NixV.Base.F64Facts NixV.Access.RetrievalAxis NixV.Access.RetrievalDomain NixV.Access.RetrievalTag.

Lemma unravel_bounds : forall shape k, (forall s, In s shape -> 1 <= s) -> 0 <= k < zprod shape ->
  Forall2 (fun i s => 0 <= i < s) (unravel shape k) shape.
Proof.
  induction shape as [|s shape IH]; intros k Hs Hk; [constructor|].
  cbn [unravel]. fold (zprod shape). cbn [zprod fold_right] in Hk. fold (zprod shape) in Hk.
  assert (Hp : 0 < zprod shape).
  { clear -Hs. induction shape as [|x shape IH]; [cbn; lia|]. cbn [zprod fold_right]. fold (zprod shape).
    assert (1 <= x) by (apply Hs; right; left; reflexivity).
    assert (0 < zprod shape) by (apply IH; intros y Hy; apply Hs; destruct Hy as [<-|Hy]; [left; reflexivity|right; right; exact Hy]).
    nia. }
  assert (1 <= s) by (apply Hs; left; reflexivity).
  constructor.
  - split; [apply Z.div_pos; lia|apply Z.div_lt_upper_bound; lia].
  - apply IH; [intros y Hy; apply Hs; right; exact Hy|apply Z.mod_pos_bound; lia].
Qed.

(** pointwise selection on the coordinates = membership in [o, o + c), for indices of stored data *)
Lemma sel_b_box d sh incl w o c i : sh <= alen d -> dim_is d sh incl w o c -> 0 <= i < sh ->
  sel_b d sh incl w i = (o <=? i) && (i <? o + c).
Proof.
  intros Hal (Hc & Ho & Hoc & Hsel) Hi.
  assert (B : sel_b d sh incl w i = true <-> dim_sel d sh incl w i).
  { destruct w as [s e|s| |]; cbn [sel_b dim_sel].
    - split; [intro W; split; [lia|exact W]|intros [_ W]; exact W].
    - rewrite andb_true_iff, forallb_forall. split.
      + intros [P Hmin]. split; [lia|]. split; [exact P|]. intros j Hj Pj.
        destruct (Z_lt_le_dec j i) as [Hlt|]; [|assumption]. exfalso.
        specialize (Hmin j ltac:(apply In_ziota; lia)). rewrite Pj in Hmin. discriminate.
      + intros (_ & P & Hmin). split; [exact P|]. intros j Hj. apply In_ziota in Hj.
        destruct (fle s (coord d j)) eqn:E; [|reflexivity]. exfalso. specialize (Hmin j ltac:(lia) E). lia.
    - split; [intros _; lia|reflexivity].
    - split; [discriminate|contradiction]. }
  destruct (sel_b d sh incl w i) eqn:E.
  - symmetry. assert (o <= i < o + c) by (apply Hsel, B; reflexivity). lia.
  - symmetry. destruct ((o <=? i) && (i <? o + c)) eqn:E2; [|reflexivity]. exfalso.
    assert (X : dim_sel d sh incl w i) by (apply Hsel; lia). apply B in X. congruence.
Qed.

Lemma sel_all_box incl : forall ds shs ws off cnt idx,
  region_is incl ds shs ws off cnt -> dims_dom ds shs = true -> Forall2 (fun i s => 0 <= i < s) idx shs ->
  sel_all incl ds shs ws idx = in_box off cnt idx.
Proof.
  intros ds shs ws off cnt idx R. revert idx. induction R as [|d ds sh shs w ws o os c cs D R IH]; intros idx Hd Hb.
  - inversion Hb. reflexivity.
  - inversion Hb as [|i s idx' shs' Hi Hb']; subst. cbn [sel_all in_box].
    cbn [dims_dom] in Hd. apply andb_true_iff in Hd. destruct Hd as [Hd Hds].
    destruct (dim_dom_bounds d sh Hd) as [[_ Hal] _].
    rewrite (sel_b_box d sh incl w o c i Hal D Hi). rewrite (IH idx' Hds Hb'). reflexivity.
Qed.

Lemma region_lengths incl : forall ds shs ws off cnt, region_is incl ds shs ws off cnt ->
  List.length off = List.length shs /\ List.length cnt = List.length shs /\
  forall k s o c, nth_error shs k = Some s -> nth_error off k = Some o -> nth_error cnt k = Some c -> 0 <= o /\ 0 <= c /\ o + c <= s.
Proof.
  induction 1 as [|d ds sh shs w ws o os c cs D R (IH1 & IH2 & IH3)].
  - split; [reflexivity|]. split; [reflexivity|]. intros k s o c Hk. destruct k; discriminate.
  - split; [cbn; lia|]. split; [cbn; lia|]. intros k s o' c' H1 H2 H3. destruct k as [|k].
    + cbn in H1, H2, H3. injection H1 as <-. injection H2 as <-. injection H3 as <-. destruct D as (Hc & Ho & Hoc & _). lia.
    + apply (IH3 k); assumption.
Qed.

(** the ids the oracle selects pointwise on the coordinates are the elements of the region's box, in row-major order *)
Theorem spec_ids_region incl a ws off cnt : dims_dom (a_dims a) (a_shape a) = true ->
  region_is incl (a_dims a) (a_shape a) ws off cnt ->
  spec_ids incl a ws = view_ids (a_shape a) off cnt.
Proof.
  intros Hd R. unfold spec_ids, view_ids. destruct (region_lengths _ _ _ _ _ _ R) as (L1 & L2 & L3).
  rewrite <- (filter_box (a_shape a) off cnt L1 L2 L3). fold (zprod (a_shape a)).
  apply filter_ext_in. intros k Hk. apply In_ziota in Hk.
  apply (sel_all_box incl _ _ _ _ _ _ R Hd). apply unravel_bounds; [|exact Hk].
  intros s Hs. destruct (In_nth_error _ _ Hs) as (j & Hj). destruct (dims_dom_nth _ _ Hd) as [Ls Nd].
  destruct (nth_error (a_dims a) j) as [d|] eqn:Ed; [|apply nth_error_None in Ed; assert (j < List.length (a_shape a))%nat by (apply nth_error_Some; congruence); lia].
  destruct (dim_dom_bounds d s (Nd j d s Ed Hj)) as [[H1 _] _]. exact H1.
Qed.
