(** Tie of the hand-written window tests to the code translated from src/util/dataAccess.cpp.

    [NixV.Gen.GenAccess] is regenerated from [positionInData] and [positionAndExtentInData] on every
    run.  The models of the retrieval (C05, C06) and slice (C17) properties use structurally recursive
    tests over the three lists; here both are proved equal to the generated loops for every rank the
    generated loop's fuel covers (rank < LOOP_FUEL = 200; HDF5 itself limits the rank to 32). *)
From Coq Require Import ZArith Bool String List Lia.
Require Import NixV.Base.Prelude NixV.Base.NDSizeOps NixV.Gen.GenAccess.
Import ListNotations.
Local Open Scope Z_scope.

(** ** neutral specifications *)
Fixpoint all_lt (pos size : list Z) : bool :=
  match pos, size with
  | p :: ps, s :: ss => (p <? s) && all_lt ps ss
  | _, _ => true
  end.

Definition position_inside (shape position : list Z) : bool :=
  (zlen shape =? zlen position) && all_lt position shape.

Fixpoint box_ok (shape position count : list Z) : bool :=
  match shape, position, count with
  | s :: ss, p :: ps, c :: cs =>
      negb ((c <? 1) || (p >=? s) || (c >? u64_sub s p)) && box_ok ss ps cs
  | _, _, _ => true
  end.

Definition box_inside (shape position count : list Z) : bool :=
  (zlen shape =? zlen position) && (zlen shape =? zlen count) && box_ok shape position count.

(** ** list access *)
Lemma zlen_app {A} (a b : list A) : zlen (a ++ b) = zlen a + zlen b.
Proof. unfold zlen. rewrite app_length. lia. Qed.

Lemma zlen_cons {A} (x : A) (l : list A) : zlen (x :: l) = 1 + zlen l.
Proof. unfold zlen. cbn [List.length]. lia. Qed.

Lemma zlen_nonneg {A} (l : list A) : 0 <= zlen l.
Proof. unfold zlen. lia. Qed.

Lemma nd_get_mid (pre : list Z) (x : Z) (rest : list Z) :
  nd_get (pre ++ x :: rest) (zlen pre) = Ok x.
Proof.
  unfold nd_get. rewrite zlen_app, zlen_cons.
  pose proof (zlen_nonneg pre). pose proof (zlen_nonneg rest).
  replace (0 <=? zlen pre) with true by (symmetry; apply Z.leb_le; lia).
  replace (zlen pre <? zlen pre + (1 + zlen rest)) with true by (symmetry; apply Z.ltb_lt; lia).
  cbn [andb]. unfold zlen. rewrite Nat2Z.id, app_nth2 by lia. rewrite Nat.sub_diag. reflexivity.
Qed.

Lemma u64_succ (i : Z) : 0 <= i < 1000 -> u64_add i 1 = i + 1.
Proof. intros H. unfold u64_add, u64_wrap, two64. apply Z.mod_small. lia. Qed.

(** ** positionAndExtentInData *)
Lemma box_loop_spec de : forall fuel ss ps cs pre_s pre_p pre_c,
  List.length ps = List.length ss -> List.length cs = List.length ss ->
  List.length pre_p = List.length pre_s -> List.length pre_c = List.length pre_s ->
  (List.length ss < fuel)%nat -> (List.length pre_s + List.length ss < 900)%nat ->
  positionAndExtentInData_loop1 (pre_p ++ ps) (pre_c ++ cs) de (pre_s ++ ss) fuel (zlen pre_s)
  = Ok (box_ok ss ps cs).
Proof.
  induction fuel as [|fuel IH]; intros ss ps cs pre_s pre_p pre_c Hp Hc Hpp Hpc Hf Hsmall; [lia|].
  cbn [positionAndExtentInData_loop1].
  destruct ss as [|s ss].
  - rewrite app_nil_r, Z.ltb_irrefl. destruct ps, cs; try discriminate. reflexivity.
  - destruct ps as [|p ps]; [discriminate|]. destruct cs as [|c cs]; [discriminate|].
    rewrite zlen_app, zlen_cons.
    pose proof (zlen_nonneg ss).
    replace (zlen pre_s <? zlen pre_s + (1 + zlen ss)) with true by (symmetry; apply Z.ltb_lt; lia).
    assert (Ep : zlen pre_s = zlen pre_p) by (unfold zlen; lia).
    assert (Ec : zlen pre_s = zlen pre_c) by (unfold zlen; lia).
    assert (Gc : nd_get (pre_c ++ c :: cs) (zlen pre_s) = Ok c) by (rewrite Ec; apply nd_get_mid).
    assert (Gp : nd_get (pre_p ++ p :: ps) (zlen pre_s) = Ok p) by (rewrite Ep; apply nd_get_mid).
    pose proof (nd_get_mid pre_s s ss) as Gs.
    rewrite Gc. cbn [bind].
    cbn [box_ok].
    destruct (c <? 1) eqn:E1; cbn [bind orb negb andb].
    + reflexivity.
    + rewrite Gp. cbn [bind]. rewrite Gs. cbn [bind].
      destruct (Z.geb p s) eqn:E2; cbn [bind orb negb andb].
      * reflexivity.
      * rewrite ?Gc, ?Gs, ?Gp. cbn [bind].
        destruct (c >? u64_sub s p) eqn:E3; cbn [bind orb negb andb].
        -- reflexivity.
        -- cbn [List.length] in *. clear Gc Gp Gs.
           rewrite u64_succ by (unfold zlen; lia).
           replace (zlen pre_s + 1) with (zlen (pre_s ++ [s])) by (rewrite zlen_app; reflexivity).
           replace (pre_p ++ p :: ps) with ((pre_p ++ [p]) ++ ps) by (rewrite <- app_assoc; reflexivity).
           replace (pre_c ++ c :: cs) with ((pre_c ++ [c]) ++ cs) by (rewrite <- app_assoc; reflexivity).
           replace (pre_s ++ s :: ss) with ((pre_s ++ [s]) ++ ss) by (rewrite <- app_assoc; reflexivity).
           apply IH; rewrite ?app_length; cbn [List.length]; lia.
Qed.

Theorem positionAndExtentInData_generated (shape position count : list Z) :
  (List.length shape < 200)%nat ->
  GenAccess.positionAndExtentInData position count shape = Ok (box_inside shape position count).
Proof.
  intros Hr. unfold GenAccess.positionAndExtentInData, box_inside.
  destruct (zlen shape =? zlen position) eqn:E1; cbn [negb orb andb]; [|reflexivity].
  destruct (zlen shape =? zlen count) eqn:E2; cbn [negb orb andb]; [|reflexivity].
  apply Z.eqb_eq in E1, E2. unfold zlen in E1, E2.
  apply (box_loop_spec shape LOOP_FUEL shape position count [] [] []); cbn [List.length]; unfold LOOP_FUEL; lia.
Qed.

(** ** positionInData *)
Lemma pos_loop_spec de : forall fuel ss ps pre_s pre_p valid,
  List.length ps = List.length ss -> List.length pre_p = List.length pre_s ->
  (List.length ss < fuel)%nat -> (List.length pre_s + List.length ss < 900)%nat ->
  positionInData_loop1 (pre_p ++ ps) de (pre_s ++ ss) fuel (zlen pre_s) valid
  = Ok (valid && all_lt ps ss).
Proof.
  induction fuel as [|fuel IH]; intros ss ps pre_s pre_p valid Hp Hpp Hf Hsmall; [lia|].
  cbn [positionInData_loop1].
  destruct ss as [|s ss].
  - rewrite app_nil_r, Z.ltb_irrefl. destruct ps; try discriminate. cbn [all_lt]. rewrite andb_true_r. reflexivity.
  - destruct ps as [|p ps]; [discriminate|].
    rewrite zlen_app, zlen_cons.
    pose proof (zlen_nonneg ss).
    replace (zlen pre_s <? zlen pre_s + (1 + zlen ss)) with true by (symmetry; apply Z.ltb_lt; lia).
    assert (Ep : zlen pre_s = zlen pre_p) by (unfold zlen; lia).
    assert (Gp : nd_get (pre_p ++ p :: ps) (zlen pre_s) = Ok p) by (rewrite Ep; apply nd_get_mid).
    rewrite Gp. cbn [bind]. rewrite (nd_get_mid pre_s s ss). cbn [bind]. clear Gp.
    cbn [List.length] in *.
    rewrite u64_succ by (unfold zlen; lia).
    replace (zlen pre_s + 1) with (zlen (pre_s ++ [s])) by (rewrite zlen_app; reflexivity).
    replace (pre_p ++ p :: ps) with ((pre_p ++ [p]) ++ ps) by (rewrite <- app_assoc; reflexivity).
    replace (pre_s ++ s :: ss) with ((pre_s ++ [s]) ++ ss) by (rewrite <- app_assoc; reflexivity).
    rewrite IH by (rewrite ?app_length; cbn [List.length]; lia).
    cbn [all_lt]. rewrite andb_assoc. reflexivity.
Qed.

Theorem positionInData_generated (shape position : list Z) :
  (List.length shape < 200)%nat ->
  GenAccess.positionInData position shape = Ok (position_inside shape position).
Proof.
  intros Hr. unfold GenAccess.positionInData, position_inside.
  destruct (zlen shape =? zlen position) eqn:E1; cbn [negb andb]; [|reflexivity].
  apply Z.eqb_eq in E1. unfold zlen in E1.
  apply (pos_loop_spec shape LOOP_FUEL shape position [] [] true); cbn [List.length]; unfold LOOP_FUEL; lia.
Qed.
