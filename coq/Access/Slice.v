(** C17 model of position-based slices: util::dataSlice and what it calls
    (src/util/dataAccess.cpp: dataSlice, fillPositionsExtentsAndUnits, getDimensionUnit, the positionToIndex
    overloads, scalePositions, positionAndExtentInData, positionInData; src/Dimensions.cpp: the
    indexOf(start, end, RangeMatch) overloads; src/util/util.cpp: getSIScaling).  Definitions only.

    The position -> index conversions are the C07 layer, used as is: the GENERATED getSampledIndex /
    getSetIndex / getDataFrameIndex (Gen/GenDimensions.v) and the hand model getIndex (Axis/RangeModel.v).
    This file has its own small copy of the per-dimension dispatch (the Tag / MultiTag retrieval of
    C05/C06 has another one in Access/Retrieval.v; the two are deliberately independent).

    Dimension descriptors are data.  Units: a unit is "none" ([None]) or an atomic SI unit of power 1,
    given as (prefix, base unit) - the split util::splitUnit computes is the subject of C18 and assumed
    here.  getSIScaling for such units is modelled statement for statement with the prefix factors of the
    GENERATED table (Gen/GenTables.v, exact binary64 values); pow() is not called for power 1.

    Defects of the pinned tree are carried by the switches of SliceSwitches.v. *)
From Coq Require Import ZArith Bool String List.
From Flocq Require Import Core BinarySingleNaN.
Require Import NixV.Base.Prelude NixV.Base.F64 NixV.Gen.GenDimensions NixV.Gen.GenTables
               NixV.Axis.RangeModel NixV.Data.NDIndex NixV.Data.NDArr
               NixV.Access.SliceSwitches NixV.Access.View.
Import ListNotations.
Local Open Scope string_scope.
Local Open Scope list_scope.
Local Open Scope bool_scope.
Local Open Scope Z_scope.

(** * Units *)

(** [None] = the string "none"; [Some (prefix, base)] = an atomic SI unit of power 1 *)
Definition unit_t := option (string * string).

(** PREFIX_FACTORS.at(prefix): the table's double, from its exact numerator / denominator (a power of two) *)
Definition prefix_value (p : string) : res F64 :=
  match find (fun e => String.eqb (fst e) p) PREFIX_FACTORS with
  | Some (_, ((n, d), _)) => Ok (ofME n (- Z.log2 d))
  | None => Err "std::out_of_range"
  end.

Definition is_empty (s : string) : bool := String.eqb s "".

(** util::getSIScaling(origin, destination) for atomic units without a power:
      !isScalable -> InvalidUnit;  same prefix -> 1.0;  destination without prefix -> F[org];
      origin without prefix -> 1.0 / F[dest];  both -> F[org] / F[dest] *)
Definition si_scaling (org dst : string * string) : res F64 :=
  if negb (String.eqb (snd org) (snd dst)) then Err "nix::InvalidUnit"
  else if String.eqb (fst org) (fst dst) then Ok f64_one
  else if is_empty (fst dst) && negb (is_empty (fst org)) then prefix_value (fst org)
  else if is_empty (fst org) && negb (is_empty (fst dst)) then
    bind (prefix_value (fst dst)) (fun b => Ok (fdiv f64_one b))
  else bind (prefix_value (fst org)) (fun a => bind (prefix_value (fst dst)) (fun b => Ok (fdiv a b))).

(** try { scaling = getSIScaling(...) } catch (...) { throw IncompatibleDimensions } *)
Definition scaling_or_incompatible (org dst : string * string) : res F64 :=
  match si_scaling org dst with
  | Ok f => Ok f
  | Err _ => Err incompatible
  | UB w => UB w
  end.

(** * Dimension descriptors *)

Inductive dim :=
| DSampled (interval : F64) (offset : option F64) (u : unit_t)
| DRange (ticks : list F64) (u : unit_t)
| DSet (labels : list string)
| DFrame (rows : Z).            (* DataFrameDimension::size() = rows of the frame; no column index *)

Definition off_or0 (o : option F64) : F64 := match o with Some x => x | None => f64_zero end.

(** SampledDimension::positionAt(index) = index * sampling_interval + offset *)
Definition position_at (dt off : F64) (i : Z) : F64 := fadd (fmul (ofZ i) dt) off.

(** util::getDimensionUnit *)
Definition dim_unit (d : dim) : unit_t :=
  match d with
  | DSampled _ _ u => u
  | DRange _ u => u
  | DSet _ => None
  | DFrame _ => None
  end.

(** XDimension::indexOf(position, match) *)
Definition dim_index (d : dim) (p : F64) (m : PositionMatch) : res (option Z) :=
  match d with
  | DSampled dt off _ => getSampledIndex p (off_or0 off) dt m
  | DRange ticks _ => getIndex p ticks m
  | DSet labels => getSetIndex p labels m
  | DFrame rows => getDataFrameIndex p rows m
  end.

Definition end_rule (rm : RangeMatch) : PositionMatch :=
  if RangeMatch_beq rm RangeMatch_Inclusive then PositionMatch_LessOrEqual else PositionMatch_Less.

(** XDimension::indexOf(start, end, ..., RangeMatch):  start > end -> none;
    si = index(start, GreaterOrEqual); ei = index(end, LessOrEqual | Less);  si && ei && *si <= *ei
    (the range dimension returns early when there is no start index) *)
Definition dim_pair (d : dim) (s e : F64) (rm : RangeMatch) : res (option (Z * Z)) :=
  if fgt s e then Ok None
  else
    bind (dim_index d s PositionMatch_GreaterOrEqual) (fun si =>
    match d, si with
    | DRange _ _, None => Ok None
    | _, _ => bind (dim_index d e (end_rule rm)) (fun ei => Ok (pair_of false si ei))
    end).

(** scalePositions for one entry: the factor by which start and end are multiplied *)
Definition pair_factor (u du : unit_t) : res F64 :=
  match u, du with
  | Some a, Some b => scaling_or_incompatible a b
  | _, _ => Ok f64_one
  end.

(** util::positionToIndex({start}, {end}, {unit}, RangeMatch, Dimension): sampled and range dimensions scale
    the positions (by 1.0 without units), set and data-frame dimensions ignore the unit *)
Definition position_to_index_pair (d : dim) (s e : F64) (u : unit_t) (rm : RangeMatch) : res (option (Z * Z)) :=
  match d with
  | DSampled _ _ du => bind (pair_factor u du) (fun f => dim_pair d (fmul s f) (fmul e f) rm)
  | DRange _ du => bind (pair_factor u du) (fun f => dim_pair d (fmul s f) (fmul e f) rm)
  | _ => dim_pair d s e rm
  end.

(** util::positionToIndex(position, unit, PositionMatch, Dimension) - the scalar overloads *)
Definition position_to_index_scalar (d : dim) (p : F64) (u : unit_t) (m : PositionMatch) : res (option Z) :=
  match d with
  | DSampled _ _ du =>
      match du, u with
      | None, Some _ => Err incompatible
      | Some b, Some a => bind (scaling_or_incompatible a b) (fun f => dim_index d (fmul p f) m)
      | _, None => dim_index d (fmul p f64_one) m
      end
  | DRange _ du =>
      match u with
      | Some a =>
          match du with
          | Some b => bind (scaling_or_incompatible a b) (fun f => dim_index d (fmul p f) m)
          | None => Err incompatible                 (* getSIScaling(unit, "none") throws *)
          end
      | None => dim_index d (fmul p f64_one) m
      end
  | _ => dim_index d p m
  end.

(** * fillPositionsExtentsAndUnits *)

(** NDSize::operator[] *)
Definition shape_at (shape : list Z) (i : nat) : res Z :=
  match nth_error shape i with Some n => Ok n | None => Err "std::out_of_range" end.

(** RangeDimension::axis(1, i)[0] = backend ticks(i, 1): OutOfBounds unless i + 1 <= #ticks *)
Definition tick_checked (ticks : list F64) (i : Z) : res F64 :=
  if i <? zlen ticks then Ok (tick_at ticks i) else Err oob.

(** check::converts_to_double: dbl = double(num); static_cast<T>(dbl) != num -> OutOfBounds *)
Definition conv_double (n : Z) : res F64 :=
  let d := ofZ n in
  bind (toU64 d) (fun z => if z =? n then Ok d else Err oob).

(** what is pushed for a missing start / end entry of dimension [i]; with [pads_with_positions] off
    (the repair that cannot land) nothing needs to be computed *)
Definition pad_start (pp : bool) (d : dim) : res F64 :=
  if negb pp then Ok f64_zero else
  match d with
  | DSampled _ off _ => Ok (off_or0 off)
  | DRange ticks _ => tick_checked ticks 0
  | _ => Ok f64_zero
  end.

Definition pad_end (pp : bool) (d : dim) (shape : list Z) (i : nat) : res F64 :=
  if negb pp then Ok f64_zero else
  bind (shape_at shape i) (fun n =>
  match d with
  | DSampled dt off _ => Ok (position_at dt (off_or0 off) (u64_sub n 1))
  | DRange ticks _ => tick_checked ticks (u64_sub n 1)
  | _ => conv_double (u64_sub n 1)
  end).

(** for (i = 0; i < dims.size(); ++i) { if (i >= units.size()) units.push_back(...); if (i >= starts.size()) ...;
    if (i >= ends.size()) ... } *)
Fixpoint fill (pp : bool) (dims : list dim) (shape : list Z) (i : nat)
              (starts ends : list F64) (units : list unit_t) : res (list F64 * list F64 * list unit_t) :=
  match dims with
  | [] => Ok (starts, ends, units)
  | d :: ds =>
      let units' := if (List.length units <=? i)%nat then units ++ [dim_unit d] else units in
      bind (if (List.length starts <=? i)%nat then bind (pad_start pp d) (fun x => Ok (starts ++ [x])) else Ok starts) (fun starts' =>
      bind (if (List.length ends <=? i)%nat then bind (pad_end pp d shape i) (fun x => Ok (ends ++ [x])) else Ok ends) (fun ends' =>
      fill pp ds shape (S i) starts' ends' units'))
  end.

(** * positionInData / positionAndExtentInData *)

Fixpoint all_lt (a b : list Z) : bool :=
  match a, b with
  | x :: a', y :: b' => (x <? y) && all_lt a' b'
  | _, _ => true
  end.

Definition position_in_data (extent pos : list Z) : bool :=
  Nat.eqb (List.length extent) (List.length pos) && all_lt pos extent.

(** the repaired test: count >= 1, position inside, count <= extent - position *)
Fixpoint box_inside (extent pos cnt : list Z) : bool :=
  match extent, pos, cnt with
  | e :: extent', p :: pos', c :: cnt' => (1 <=? c) && (p <? e) && (c <=? u64_sub e p) && box_inside extent' pos' cnt'
  | _, _, _ => true
  end.

Definition position_and_extent_in_data (B : behaviour) (extent pos cnt : list Z) : res bool :=
  if extent_check_wraps B then
    (* NDSize pos = position + count; pos -= 1; return positionInData(data, pos); *)
    bind (nd_add pos cnt) (fun s => Ok (position_in_data extent (map (fun x => u64_sub x 1) s)))
  else
    Ok (Nat.eqb (List.length extent) (List.length pos) && Nat.eqb (List.length extent) (List.length cnt)
        && box_inside extent pos cnt).

(** * Further public routes of src/util/dataAccess.cpp *)

(** util::positionToIndex(starts, ends, units, RangeMatch, const Dimension &) with any number of entries (dataSlice calls it
    with one): sampled and range dimensions demand as many ends and units as starts, set and data-frame dimensions as many
    ends (std::runtime_error otherwise); then every entry is scaled by its own unit factor and converted *)
Definition position_to_index_pairs (d : dim) (ss es : list F64) (us : list unit_t) (rm : RangeMatch) : res (list (option (Z * Z))) :=
  let sizes_differ :=
    match d with
    | DSet _ => negb (Nat.eqb (List.length ss) (List.length es))
    | DFrame _ => negb (Nat.eqb (List.length ss) (List.length es))
    | _ => negb (Nat.eqb (List.length ss) (List.length es)) || negb (Nat.eqb (List.length ss) (List.length us))
    end in
  if sizes_differ then Err "std::runtime_error"
  else mapM (fun i => position_to_index_pair d (nth i ss f64_zero) (nth i es f64_zero) (nth i us None) rm) (seq 0 (List.length ss)).


(** * dataSlice *)

(** start[i] / end[i] on the argument vectors: std::vector::operator[] is unchecked *)
Definition arg_at (v : list F64) (i : nat) : res F64 :=
  match nth_error v i with
  | Some x => Ok x
  | None => UB "dataSlice reads start[i] / end[i] past the end of the argument vector"
  end.

Definition vec_at {A} (v : list A) (i : nat) : res A :=
  match nth_error v i with
  | Some x => Ok x
  | None => UB "unchecked vector access past the end"
  end.

(** the body of the loop for one dimension: (offset, count) of that dimension.
    [sa], [ea] = start[i], end[i] (argument vectors);  [s], [e], [u] = my_start[i], my_end[i], my_units[i] *)
Definition slice_dim (B : behaviour) (rm : RangeMatch) (d : dim) (sa ea : res F64) (s e : F64) (u : unit_t)
  : res (Z * Z) :=
  if fgt s e then Err "std::invalid_argument"
  else
    bind (if slice_reads_argument_vectors B then bind sa (fun a => bind ea (fun b => Ok (a, b))) else Ok (s, e)) (fun ab =>
    (* repaired: a request with start == end is a point request: the closed interval in both modes *)
    let rm' := if negb (slice_point_snaps B) && RangeMatch_beq rm RangeMatch_Exclusive && feq s e
               then RangeMatch_Inclusive else rm in
    bind (position_to_index_pair d (fst ab) (snd ab) u rm') (fun r =>
    match r with
    | Some fl => Ok (fst fl, u64_add 1 (u64_sub (snd fl) (fst fl)))
    | None =>
        if slice_point_snaps B then
          bind (position_to_index_scalar d s u PositionMatch_GreaterOrEqual) (fun ofst =>
          if fgt (fsub e s) f64_epsilon || negb (opt_is_some ofst) then Err oob
          else bind (opt_deref ofst) (fun o => Ok (o, 1)))
        else Err oob
    end)).

Definition get_dim (dims : list dim) (i : nat) : res dim :=
  match nth_error dims i with Some d => Ok d | None => Err "nix::UninitializedEntity" end.

(** one iteration of  for (i = 0; i < my_start.size(); i++) *)
Definition slice_iter (B : behaviour) (rm : RangeMatch) (dims : list dim) (shape : list Z)
                      (start end_ my_start my_end : list F64) (my_units : list unit_t) (i : nat) : res (Z * Z) :=
  if negb (pads_with_positions B) && (List.length start <=? i)%nat && (List.length end_ <=? i)%nat
  then bind (shape_at shape i) (fun n => Ok (0, n))          (* the unspecified dimension in full, by index *)
  else
    bind (get_dim dims i) (fun d =>
    bind (vec_at my_start i) (fun s =>
    bind (vec_at my_end i) (fun e =>
    bind (vec_at my_units i) (fun u =>
    slice_dim B rm d (arg_at start i) (arg_at end_ i) s e u)))).

(** util::dataSlice(array, start, end, units, match): the (offset, count) handed to the DataView
    constructor, which is the last statement.  [shape] = array.dataExtent(), [dims] = array.dimensions() *)
Definition data_slice (B : behaviour) (dims : list dim) (shape : list Z)
                      (start end_ : list F64) (units : list unit_t) (rm : RangeMatch) : res view :=
  let dc := List.length dims in
  if (dc <? List.length start)%nat || (dc <? List.length end_)%nat || (dc <? List.length units)%nat
  then Err "std::invalid_argument"
  else
    bind (if (List.length start <? dc)%nat || (List.length end_ <? dc)%nat || (List.length units <? dc)%nat
          then fill (pads_with_positions B) dims shape 0 start end_ units
          else Ok (start, end_, units)) (fun filled =>
    let my_start := fst (fst filled) in
    let my_end := snd (fst filled) in
    let my_units := snd filled in
    bind (mapM (slice_iter B rm dims shape start end_ my_start my_end my_units) (seq 0 (List.length my_start))) (fun ocs =>
    let offset := map fst ocs in
    let count := map snd ocs in
    bind (position_and_extent_in_data B shape offset count) (fun inside =>
    if negb inside then Err oob
    else mk_view B shape count offset))).

(** util::dataSlice(array, start, end): units default to {}, the mode to Exclusive *)
Definition data_slice3 (B : behaviour) (dims : list dim) (shape : list Z) (start end_ : list F64) : res view :=
  data_slice B dims shape start end_ [] RangeMatch_Exclusive.

(** the data a slice delivers: DataView::getData(own type, buf, view.dataExtent(), {}) *)
Definition slice_read (B : behaviour) (dims : list dim) (a : arr)
                      (start end_ : list F64) (units : list unit_t) (rm : RangeMatch) : res (list Z * list V) :=
  bind (data_slice B dims (a_shape a) start end_ units rm) (fun v =>
  bind (view_read B v a (view_extent v) []) (fun vals => Ok (view_extent v, vals))).
