(** C17 - DataView windows: proofs about Access/View.v against the view specification of
    Access/SliceSpec.v.  All offsets and counts are arbitrary unsigned 64-bit values ([all_u64]): the
    statements cover requests whose offset + count wraps around. *)
From Coq Require Import ZArith Bool String List Lia.
Require Import ZifyBool.
Require Import NixV.Base.Prelude NixV.Data.NDIndex NixV.Data.NDArr NixV.Data.NDSpec NixV.Data.NDProofs
               NixV.Access.SliceSwitches NixV.Access.View NixV.Access.Slice NixV.Access.SliceSpec.
Import ListNotations.
Local Open Scope Z_scope.

Definition all_u64 (l : list Z) : Prop := Forall (fun x => 0 <= x < two64) l.

Lemma all_u64_cons x l : all_u64 (x :: l) <-> 0 <= x < two64 /\ all_u64 l.
Proof. unfold all_u64. split; intro H; [inversion H; auto | destruct H; constructor; auto]. Qed.

Lemma all_u64_repeat0 n : all_u64 (repeat 0 n).
Proof. induction n; cbn [repeat]; [constructor | apply all_u64_cons; split; [unfold two64; lia | assumption]]. Qed.

Lemma two64_pos : 0 < two64. Proof. reflexivity. Qed.

(** * The repaired window test is the integer test *)

Lemma leaves_fits : forall limit off cnt,
  List.length off = List.length limit -> List.length cnt = List.length limit ->
  all_u64 limit -> all_u64 off -> all_u64 cnt ->
  leaves limit off cnt = negb (fits limit off cnt).
Proof.
  induction limit as [|l limit IH]; destruct off as [|o off]; destruct cnt as [|c cnt]; cbn [List.length];
    intros Ho Hc Ul Uo Uc; try lia.
  - reflexivity.
  - apply all_u64_cons in Ul, Uo, Uc. destruct Ul as [Hl Ul], Uo as [Ho' Uo], Uc as [Hc' Uc].
    cbn [leaves fits]. rewrite (IH off cnt) by (assumption || lia).
    destruct (fits limit off cnt); cbn [negb]; rewrite ?orb_true_r, ?andb_false_r, ?orb_false_r, ?andb_true_r; [|reflexivity].
    destruct (l <? o) eqn:E.
    + cbn [orb]. symmetry. apply negb_true_iff. lia.
    + cbn [orb]. unfold u64_sub, u64_wrap. rewrite Z.mod_small by lia.
      destruct (l - o <? c) eqn:E2; symmetry; [apply negb_true_iff | apply negb_false_iff]; lia.
Qed.

(** * Additions that do not wrap *)

Fixpoint no_wrap (a b : list Z) : Prop :=
  match a, b with
  | x :: a', y :: b' => 0 <= x + y < two64 /\ no_wrap a' b'
  | _, _ => True
  end.

Lemma map2_add_vadd : forall a b, no_wrap a b -> map2 u64_add a b = vadd a b.
Proof.
  induction a as [|x a IH]; destruct b as [|y b]; cbn [no_wrap map2 vadd]; intro H; try reflexivity.
  destruct H as [H1 H2]. rewrite u64_add_small by assumption. f_equal. apply IH. assumption.
Qed.

Lemma nd_add_vadd : forall a b, List.length a = List.length b -> no_wrap a b -> nd_add a b = Ok (vadd a b).
Proof. intros a b Hl Hn. unfold nd_add. rewrite Hl, Nat.eqb_refl. rewrite map2_add_vadd by assumption. reflexivity. Qed.

Lemma vadd_zeros : forall a, vadd a (repeat 0 (List.length a)) = a.
Proof. induction a as [|x a IH]; cbn [List.length repeat vadd]; [reflexivity|]. rewrite IH. f_equal. lia. Qed.

(** a box inside a window inside an extent: inside the extent, and no address computation wraps *)
Lemma fits_compose : forall extent origin window off rc,
  fits extent origin window = true -> fits window off rc = true ->
  fits extent (vadd origin off) rc = true.
Proof.
  induction extent as [|e extent IH]; destruct origin as [|o origin]; destruct window as [|w window];
    cbn [fits]; intros off rc H1 H2; try discriminate.
  - destruct off; destruct rc; try discriminate. reflexivity.
  - destruct off as [|x off]; destruct rc as [|c rc]; cbn [fits] in H2; try discriminate.
    rewrite !andb_true_iff in H1, H2. destruct H1 as [H1 H1'], H2 as [H2 H2'].
    cbn [vadd fits]. rewrite (IH _ _ _ _ H1' H2'). rewrite andb_true_r. lia.
Qed.

Lemma fits_no_wrap : forall extent origin window off rc,
  all_u64 extent -> fits extent origin window = true -> fits window off rc = true ->
  no_wrap origin off /\ end_wraps (vadd origin off) rc = false.
Proof.
  induction extent as [|e extent IH]; destruct origin as [|o origin]; destruct window as [|w window];
    cbn [fits]; intros off rc U H1 H2; try discriminate.
  - destruct off; destruct rc; try discriminate. split; [exact I | reflexivity].
  - destruct off as [|x off]; destruct rc as [|c rc]; cbn [fits] in H2; try discriminate.
    apply all_u64_cons in U. destruct U as [He U].
    rewrite !andb_true_iff in H1, H2. destruct H1 as [H1 H1'], H2 as [H2 H2'].
    destruct (IH _ _ _ _ U H1' H2') as [N E].
    cbn [no_wrap vadd end_wraps]. rewrite E. split; [split; [lia | assumption] | lia].
Qed.

Lemma fits_u64 : forall extent off cnt, all_u64 extent -> fits extent off cnt = true -> all_u64 off /\ all_u64 cnt.
Proof.
  induction extent as [|e extent IH]; destruct off as [|o off]; destruct cnt as [|c cnt]; cbn [fits]; intros U H;
    try discriminate.
  - split; constructor.
  - apply all_u64_cons in U. destruct U as [He U]. rewrite !andb_true_iff in H. destruct H as [H H'].
    destruct (IH _ _ U H') as [A B]. split; apply all_u64_cons; (split; [lia | assumption]).
Qed.

Lemma fits_any_gt : forall window rc, List.length rc = List.length window -> all_u64 rc ->
  any_gt rc window = negb (fits window (repeat 0 (List.length window)) rc).
Proof.
  induction window as [|w window IH]; destruct rc as [|c rc]; cbn [List.length]; intros Hl U; try lia.
  - reflexivity.
  - apply all_u64_cons in U. destruct U as [Hc U].
    cbn [any_gt repeat fits]. rewrite (IH rc) by (assumption || lia).
    destruct (fits window (repeat 0 (List.length window)) rc); cbn [negb];
      rewrite ?orb_true_r, ?andb_false_r, ?orb_false_r, ?andb_true_r; [|reflexivity].
    destruct (w <? c) eqn:E; symmetry; [apply negb_true_iff | apply negb_false_iff]; lia.
Qed.

(** * The constructor *)

Theorem mk_view_spec : forall B extent cnt off,
  view_check_wraps B = false -> all_u64 extent -> all_u64 cnt -> all_u64 off ->
  (fits extent off cnt = true -> mk_view B extent cnt off = Ok (mkView off cnt)) /\
  (fits extent off cnt = false -> exists e, mk_view B extent cnt off = Err e).
Proof.
  intros B extent cnt off HB Ue Uc Uo. unfold mk_view. rewrite HB.
  destruct (Nat.eqb (List.length off) (List.length extent)) eqn:E1; cbn [negb].
  2:{ split; intro H; [|eexists; reflexivity].
      apply fits_lengths in H. destruct H as [H _]. apply Nat.eqb_neq in E1. contradiction. }
  destruct (Nat.eqb (List.length cnt) (List.length extent)) eqn:E2; cbn [negb].
  2:{ split; intro H; [|eexists; reflexivity].
      apply fits_lengths in H. destruct H as [_ H]. apply Nat.eqb_neq in E2. contradiction. }
  apply Nat.eqb_eq in E1, E2. rewrite (leaves_fits extent off cnt E1 E2 Ue Uo Uc).
  split; intro H; rewrite H; cbn [negb]; [reflexivity | eexists; reflexivity].
Qed.

(** a window that the repaired constructor accepted lies in the array *)
Corollary mk_view_inside : forall B extent cnt off v,
  view_check_wraps B = false -> all_u64 extent -> all_u64 cnt -> all_u64 off ->
  mk_view B extent cnt off = Ok v -> v = mkView off cnt /\ fits extent off cnt = true.
Proof.
  intros B extent cnt off v HB Ue Uc Uo H.
  destruct (mk_view_spec B extent cnt off HB Ue Uc Uo) as [S1 S2].
  destruct (fits extent off cnt) eqn:F.
  - rewrite (S1 eq_refl) in H. inversion H. auto.
  - destruct (S2 eq_refl) as [e E]. rewrite E in H. discriminate.
Qed.

(** * Requests *)

Record view_ok (a : arr) (v : view) : Prop := mkViewOk {
  vo_wf : wf a;
  vo_fits : fits (a_shape a) (v_offset v) (v_count v) = true;        (* the window lies in the array *)
  vo_u64 : all_u64 (a_shape a);
  vo_max : Forall (fun s => s < u64max) (a_shape a);                  (* 2^64-1 is H5S_UNLIMITED, not an extent *)
  vo_rank : (List.length (a_shape a) <= 32)%nat                       (* HDF5's H5S_MAX_RANK *)
}.

Definition same_rank (v : view) (cnt off : list Z) : Prop :=
  (cnt = [] \/ List.length cnt = List.length (v_count v)) /\ (off = [] \/ List.length off = List.length (v_count v)).

Lemma real_count_u64 : forall a v cnt, view_ok a v -> all_u64 cnt -> all_u64 (real_count v cnt).
Proof.
  intros a v cnt [_ F U _ _] Uc. destruct cnt; cbn [real_count]; [|assumption].
  destruct (fits_u64 _ _ _ U F). assumption.
Qed.

Lemma real_offset_u64 : forall v off, all_u64 off -> all_u64 (real_offset v off).
Proof. intros v off U. destruct off; cbn [real_offset]; [apply all_u64_repeat0 | assumption]. Qed.

Lemma transform_inside : forall B a v cnt off,
  view_check_wraps B = false -> view_ok a v -> all_u64 cnt -> all_u64 off ->
  inside_window v cnt off = true ->
  transform_coordinates B v (real_count v cnt) off = Ok (vadd (v_offset v) (real_offset v off)).
Proof.
  intros B a v cnt off HB OK Uc Uo Hin. unfold inside_window in Hin.
  pose proof (real_count_u64 a v cnt OK Uc) as Urc.
  destruct OK as [_ F U _ _].
  destruct (fits_lengths _ _ _ Hin) as [L1 L2].
  destruct (fits_lengths _ _ _ F) as [L3 L4].
  unfold transform_coordinates. destruct off as [|o off].
  - cbn [real_offset] in *. unfold nd_gt. rewrite L2, Nat.eqb_refl. cbn [bind].
    rewrite fits_any_gt by assumption. rewrite Hin. cbn [negb].
    rewrite L4, <- L3. rewrite vadd_zeros. reflexivity.
  - cbn [real_offset] in *. rewrite HB.
    rewrite L1, L2, !Nat.eqb_refl. cbn [negb orb].
    destruct (fits_u64 _ _ _ U F) as [_ Uw].
    rewrite (leaves_fits (v_count v) (o :: off) (real_count v cnt)) by assumption.
    rewrite Hin. cbn [negb].
    destruct (fits_no_wrap _ _ _ _ _ U F Hin) as [N _].
    apply nd_add_vadd; [lia | assumption].
Qed.

Lemma transform_outside : forall B a v cnt off,
  view_check_wraps B = false -> view_ok a v -> all_u64 cnt -> all_u64 off ->
  inside_window v cnt off = false ->
  (exists e, transform_coordinates B v (real_count v cnt) off = Err e) /\
  (same_rank v cnt off -> transform_coordinates B v (real_count v cnt) off = Err oob).
Proof.
  intros B a v cnt off HB OK Uc Uo Hout. unfold inside_window in Hout.
  pose proof (real_count_u64 a v cnt OK Uc) as Urc.
  destruct OK as [_ F U _ _].
  destruct (fits_u64 _ _ _ U F) as [_ Uw].
  unfold transform_coordinates. destruct off as [|o off].
  - cbn [real_offset] in *. unfold nd_gt.
    destruct (Nat.eqb (List.length (real_count v cnt)) (List.length (v_count v))) eqn:E.
    + apply Nat.eqb_eq in E. cbn [bind]. rewrite fits_any_gt by assumption. rewrite Hout. cbn [negb].
      split; [eexists; reflexivity | intros _; reflexivity].
    + cbn [bind]. split; [eexists; reflexivity|].
      intros [[->|Hc] _]; apply Nat.eqb_neq in E.
      * cbn [real_count] in E. contradiction.
      * destruct cnt; [cbn [real_count] in E; contradiction | cbn [real_count] in E; contradiction].
  - cbn [real_offset] in *. rewrite HB.
    destruct (negb (Nat.eqb (List.length (real_count v cnt)) (List.length (v_count v)))
              || negb (Nat.eqb (List.length (o :: off)) (List.length (v_count v)))) eqn:E.
    + split; [eexists; reflexivity | intros _; reflexivity].
    + apply orb_false_iff in E. destruct E as [E1 E2]. apply negb_false_iff, Nat.eqb_eq in E1, E2.
      rewrite (leaves_fits (v_count v) (o :: off) (real_count v cnt)) by assumption.
      rewrite Hout. cbn [negb]. split; [eexists; reflexivity | intros _; reflexivity].
Qed.

Lemma slab_sel_exact : forall sh off cnt,
  List.length off = List.length sh -> List.length cnt = List.length sh ->
  (List.length sh <= 32)%nat -> Forall (fun c => c < u64max) cnt ->
  slab_sel sh off cnt = Ok (off, cnt) \/ (sh = [] /\ slab_sel sh off cnt = Ok ([], [])).
Proof.
  intros sh off cnt Ho Hc Hr Hm. unfold slab_sel.
  (* count and offset have the data's rank: the rank test of DataSet::offsetCount2DataSpaces passes *)
  rewrite Ho, Hc, Nat.ltb_irrefl, !andb_false_r. cbn [orb andb].
  replace (32 <? List.length sh)%nat with false by (symmetry; apply Nat.ltb_ge; lia).
  replace (existsb (fun c => u64max <=? c) cnt) with false.
  2:{ symmetry. apply not_true_is_false. intro E. apply existsb_exists in E. destruct E as (c & Hin & Hc').
      rewrite Forall_forall in Hm. specialize (Hm c Hin). lia. }
  cbn [orb]. destruct off as [|o off].
  - destruct sh; [|cbn [List.length] in Ho; lia]. destruct cnt; [|cbn [List.length] in Hc; lia].
    left. reflexivity.
  - destruct cnt as [|c cnt]; [destruct sh; cbn [List.length] in *; lia|].
    left. rewrite <- Ho at 1. rewrite firstn_all. rewrite <- Hc. rewrite firstn_all. reflexivity.
Qed.

Lemma fits_below_max : forall sh off cnt, Forall (fun s => s < u64max) sh -> fits sh off cnt = true ->
  Forall (fun c => c < u64max) cnt.
Proof.
  induction sh as [|s sh IH]; destruct off as [|o off]; destruct cnt as [|c cnt]; cbn [fits]; intros M H; try discriminate.
  - constructor.
  - inversion M; subst. rewrite !andb_true_iff in H. destruct H as [H H']. constructor; [lia | eapply IH; eassumption].
Qed.

(** the array read of a box that lies in the array *)
Lemma read_slab_inside : forall a base rc,
  Forall (fun s => s < u64max) (a_shape a) -> (List.length (a_shape a) <= 32)%nat ->
  fits (a_shape a) base rc = true ->
  read_slab a base rc = Ok (tab rc (fun r => get a (vadd base r))).
Proof.
  intros a base rc M R F. destruct (fits_lengths _ _ _ F) as [L1 L2].
  unfold read_slab.
  destruct (slab_sel_exact (a_shape a) base rc L1 L2 R (fits_below_max _ _ _ M F)) as [E | [Esh E]]; rewrite E; cbn [bind fst snd].
  - unfold xfer_ok. rewrite Z.eqb_refl, F, orb_true_r. reflexivity.
  - rewrite Esh in *. destruct base; [|discriminate]. destruct rc; [|discriminate].
    unfold xfer_ok. cbn. reflexivity.
Qed.

(** ** reads *)

(** THE READ THEOREM: a request inside the window (offset_d + count_d <= window_d over the integers) is the
    array read at (origin + offset, count), cell by cell *)
Theorem view_read_inside : forall B a v cnt off,
  view_check_wraps B = false -> view_ok a v -> all_u64 cnt -> all_u64 off ->
  inside_window v cnt off = true ->
  view_read B v a cnt off = read_slab a (vadd (v_offset v) (real_offset v off)) (real_count v cnt) /\
  view_read B v a cnt off = Ok (tab (real_count v cnt) (fun r => get a (vadd (vadd (v_offset v) (real_offset v off)) r))).
Proof.
  intros B a v cnt off HB OK Uc Uo Hin.
  pose proof (transform_inside B a v cnt off HB OK Uc Uo Hin) as T.
  destruct OK as [W F U M R]. unfold inside_window in Hin.
  destruct (fits_no_wrap _ _ _ _ _ U F Hin) as [_ E].
  unfold view_read. rewrite T. cbn [bind]. rewrite E.
  split; [reflexivity|].
  apply read_slab_inside; try assumption. eapply fits_compose; eassumption.
Qed.

(** any other request is refused and nothing is read *)
Theorem view_read_outside : forall B a v cnt off,
  view_check_wraps B = false -> view_ok a v -> all_u64 cnt -> all_u64 off ->
  inside_window v cnt off = false ->
  (exists e, view_read B v a cnt off = Err e) /\ (same_rank v cnt off -> view_read B v a cnt off = Err oob).
Proof.
  intros B a v cnt off HB OK Uc Uo Hout.
  destruct (transform_outside B a v cnt off HB OK Uc Uo Hout) as [[e E] S].
  unfold view_read. split.
  - exists e. rewrite E. reflexivity.
  - intro SR. rewrite (S SR). reflexivity.
Qed.

Theorem view_read_meets_spec : forall B a v cnt off,
  view_check_wraps B = false -> view_ok a v -> all_u64 cnt -> all_u64 off -> same_rank v cnt off ->
  view_read B v a cnt off = spec_view_read v a cnt off.
Proof.
  intros B a v cnt off HB OK Uc Uo SR. unfold spec_view_read.
  destruct (inside_window v cnt off) eqn:E.
  - apply (view_read_inside B a v cnt off HB OK Uc Uo E).
  - apply (view_read_outside B a v cnt off HB OK Uc Uo E). assumption.
Qed.

(** ** writes *)

Lemma map_gen_nth : forall (gen : nat -> V) n k d, (k < n)%nat -> nth k (map gen (seq 0 n)) d = gen k.
Proof. intros. apply nth_map_seq. assumption. Qed.

Theorem view_write_inside : forall B a v cnt off gen,
  view_check_wraps B = false -> view_ok a v -> all_u64 cnt -> all_u64 off ->
  inside_window v cnt off = true ->
  view_write B v a cnt off gen = spec_view_write v a cnt off gen.
Proof.
  intros B a v cnt off gen HB OK Uc Uo Hin.
  pose proof (transform_inside B a v cnt off HB OK Uc Uo Hin) as T.
  destruct OK as [W F U M R]. unfold spec_view_write. rewrite Hin. unfold inside_window in Hin.
  destruct (fits_no_wrap _ _ _ _ _ U F Hin) as [_ E].
  pose proof (fits_compose _ _ _ _ _ F Hin) as FC.
  destruct (fits_lengths _ _ _ FC) as [L1 L2].
  set (base := vadd (v_offset v) (real_offset v off)) in *.
  set (rc := real_count v cnt) in *.
  unfold view_write. fold rc. rewrite T. cbn [bind]. fold base. rewrite E.
  assert (XF : forall sel, slab_sel (a_shape a) base rc = Ok sel -> xfer_ok (a_shape a) (fst sel) (snd sel) rc = true /\
                 (prod (snd sel) =? 0) || fits (a_shape a) (fst sel) (snd sel) = true /\ sel = (base, rc)).
  { intros sel Hs.
    destruct (slab_sel_exact (a_shape a) base rc L1 L2 R (fits_below_max _ _ _ M FC)) as [E' | [Esh E']];
      rewrite E' in Hs; inversion Hs; subst sel; cbn [fst snd].
    - unfold xfer_ok. rewrite Z.eqb_refl, FC, orb_true_r. auto.
    - rewrite Esh in *. destruct base; [|discriminate]. destruct rc; [|discriminate]. unfold xfer_ok. cbn. auto. }
  destruct (slab_sel (a_shape a) base rc) as [sel|e|w] eqn:Hs.
  2:{ exfalso. destruct (slab_sel_exact (a_shape a) base rc L1 L2 R (fits_below_max _ _ _ M FC)) as [E' | [_ E']];
        rewrite E' in Hs; discriminate. }
  2:{ exfalso. destruct (slab_sel_exact (a_shape a) base rc L1 L2 R (fits_below_max _ _ _ M FC)) as [E' | [_ E']];
        rewrite E' in Hs; discriminate. }
  destruct (XF sel eq_refl) as (X1 & X2 & ->). cbn [bind fst snd] in *. rewrite X1. cbn [negb].
  unfold write_slab. unfold zlen. rewrite map_length, seq_length.
  assert (P0 : 0 <= prod rc) by (apply prod_nonneg; eapply fits_shape_ok; eassumption).
  rewrite Z2Nat.id by assumption. rewrite Z.eqb_refl. cbn [negb]. rewrite Hs. cbn [bind fst snd]. rewrite X1. cbn [negb].
  f_equal. f_equal.
  destruct W as [Wok _].
  apply tab_ext; [assumption|]. intros i Hi.
  destruct (in_slab base rc i) eqn:IS; [|reflexivity].
  apply in_slab_true in IS. destruct IS as [_ IB].
  pose proof (ravel_bounds _ _ IB) as RB.
  apply map_gen_nth. lia.
Qed.

Theorem view_write_outside : forall B a v cnt off gen,
  view_check_wraps B = false -> view_ok a v -> all_u64 cnt -> all_u64 off ->
  inside_window v cnt off = false ->
  (exists e, view_write B v a cnt off gen = Err e) /\ (same_rank v cnt off -> view_write B v a cnt off gen = Err oob).
Proof.
  intros B a v cnt off gen HB OK Uc Uo Hout.
  destruct (transform_outside B a v cnt off HB OK Uc Uo Hout) as [[e E] S].
  unfold view_write. split.
  - exists e. rewrite E. reflexivity.
  - intro SR. rewrite (S SR). reflexivity.
Qed.

Theorem view_write_meets_spec : forall B a v cnt off gen,
  view_check_wraps B = false -> view_ok a v -> all_u64 cnt -> all_u64 off -> same_rank v cnt off ->
  view_write B v a cnt off gen = spec_view_write v a cnt off gen.
Proof.
  intros B a v cnt off gen HB OK Uc Uo SR.
  destruct (inside_window v cnt off) eqn:E.
  - apply view_write_inside; assumption.
  - unfold spec_view_write. rewrite E.
    apply (view_write_outside B a v cnt off gen HB OK Uc Uo E). assumption.
Qed.

Lemma in_window_of_request : forall o w ro rc r : list Z,
  List.length w = List.length o -> List.length ro = List.length o -> List.length rc = List.length o ->
  List.length r = List.length rc ->
  in_box w (vadd ro r) = true ->
  in_box w (vsub (vadd (vadd o ro) r) o) = true.
Proof.
  induction o as [|x o IH]; intros w ro rc r Lw Lro Lrc Lr IW.
  - destruct w; [|cbn [List.length] in Lw; lia]. reflexivity.
  - destruct w as [|y w]; [cbn [List.length] in Lw; lia|]. destruct ro as [|z ro]; [cbn [List.length] in Lro; lia|].
    destruct rc as [|c rc]; [cbn [List.length] in Lrc; lia|]. destruct r as [|q r]; [cbn [List.length] in Lr; lia|].
    cbn [vadd vsub in_box List.length] in *. rewrite !andb_true_iff in IW. destruct IW as [IW1 IW2].
    rewrite (IH w ro rc r) by (assumption || lia). rewrite andb_true_r. lia.
Qed.

(** the frame condition, cell by cell: an accepted write changes exactly the addressed cells, all of which lie
    inside the window; every cell outside the window keeps its value; the view stays valid *)
Theorem view_write_cells : forall B a v cnt off gen a',
  view_check_wraps B = false -> view_ok a v -> all_u64 cnt -> all_u64 off ->
  view_write B v a cnt off gen = Ok a' ->
  inside_window v cnt off = true /\
  a_shape a' = a_shape a /\ view_ok a' v /\
  (forall i, in_box (a_shape a) i = true ->
     get a' i = if in_slab (vadd (v_offset v) (real_offset v off)) (real_count v cnt) i
                then gen (Z.to_nat (ravel (real_count v cnt) (vsub i (vadd (v_offset v) (real_offset v off)))))
                else get a i) /\
  (forall i, in_slab (vadd (v_offset v) (real_offset v off)) (real_count v cnt) i = true ->
     in_slab (v_offset v) (v_count v) i = true).
Proof.
  intros B a v cnt off gen a' HB OK Uc Uo H.
  destruct (inside_window v cnt off) eqn:Hin.
  2:{ destruct (view_write_outside B a v cnt off gen HB OK Uc Uo Hin) as [[e E] _]. rewrite E in H. discriminate. }
  split; [reflexivity|].
  rewrite (view_write_inside B a v cnt off gen HB OK Uc Uo Hin) in H.
  unfold spec_view_write in H. rewrite Hin in H. inversion H; subst a'. clear H.
  destruct OK as [W F U M R]. destruct W as [Wok Wlen].
  split; [reflexivity|]. split.
  { constructor; cbn [with_data a_shape]; try assumption. apply wf_with_tab. assumption. }
  split.
  - intros i Hi. rewrite get_with_tab by assumption. reflexivity.
  - intros i Hi. unfold inside_window in Hin.
    apply in_slab_true in Hi. destruct Hi as [Li IB].
    destruct (fits_lengths _ _ _ Hin) as [L1 L2]. destruct (fits_lengths _ _ _ F) as [L3 L4].
    unfold in_slab.
    assert (Lb : List.length (vadd (v_offset v) (real_offset v off)) = List.length (v_offset v)) by (apply vadd_length; lia).
    rewrite Li, Lb, Nat.eqb_refl. cbn [andb].
    (* i = origin + ro + r with r in rc, ro + rc <= window *)
    set (r := vsub i (vadd (v_offset v) (real_offset v off))) in *.
    assert (Ei : i = vadd (vadd (v_offset v) (real_offset v off)) r) by (symmetry; apply vadd_vsub; lia).
    rewrite Ei.
    pose proof (fits_in_box _ _ _ _ Hin IB) as IW.
    pose proof (in_box_length _ _ IB) as Lr.
    apply in_window_of_request with (rc := real_count v cnt); try assumption; lia.
Qed.

(** no element outside the window changes *)
Theorem view_write_frame_thm : forall B a v cnt off gen a',
  view_check_wraps B = false -> view_ok a v -> all_u64 cnt -> all_u64 off ->
  view_write B v a cnt off gen = Ok a' ->
  forall i, in_box (a_shape a) i = true -> in_slab (v_offset v) (v_count v) i = false -> get a' i = get a i.
Proof.
  intros B a v cnt off gen a' HB OK Uc Uo H i Hi Hout.
  destruct (view_write_cells B a v cnt off gen a' HB OK Uc Uo H) as (_ & _ & _ & Hc & Hs).
  rewrite Hc by assumption.
  destruct (in_slab (vadd (v_offset v) (real_offset v off)) (real_count v cnt) i) eqn:E; [|reflexivity].
  rewrite (Hs i E) in Hout. discriminate.
Qed.

(** a request extending past the window is refused with OutOfBounds and transfers nothing *)
Theorem view_oob_rejected_thm : forall B a v cnt off gen,
  view_check_wraps B = false -> view_ok a v -> all_u64 cnt -> all_u64 off -> same_rank v cnt off ->
  inside_window v cnt off = false ->
  view_read B v a cnt off = Err oob /\ view_write B v a cnt off gen = Err oob.
Proof.
  intros B a v cnt off gen HB OK Uc Uo SR Hout. split.
  - exact (proj2 (view_read_outside B a v cnt off HB OK Uc Uo Hout) SR).
  - exact (proj2 (view_write_outside B a v cnt off gen HB OK Uc Uo Hout) SR).
Qed.

(** a refused write changes nothing: the model has no new array to offer (the drivers keep the old one) *)

(** * The pinned code: computed counterexamples (DESIGN.md section 9, item 20) *)

Definition a20 : arr := id_array [20].
Definition w5_15 : view := mkView [5] [10].          (* window [5, 15) *)

(** offset 2^64-1, count 2: the sum wraps to 1, the request is accepted and returns elements 4 and 5 *)
Example view_oob_rejected_refuted :
  inside_window w5_15 [2] [two64 - 1] = false /\
  view_read code_today w5_15 a20 [2] [two64 - 1] = Ok [VI 4; VI 5].
Proof. split; vm_compute; reflexivity. Qed.

(** ... and a write through it changes element 4, which lies outside the window *)
Example view_write_frame_refuted :
  exists a', view_write code_today w5_15 a20 [2] [two64 - 1] (gen_from 500) = Ok a' /\
             in_slab (v_offset w5_15) (v_count w5_15) [4] = false /\ get a' [4] = VI 500 /\ get a20 [4] = VI 4.
Proof. eexists. split; [vm_compute; reflexivity|]. split; [reflexivity|]. split; vm_compute; reflexivity. Qed.

(** the constructor accepts a window of 2^64-1 elements at offset 3 of a 20-element array *)
Example mk_view_refuted :
  fits [20] [3] [two64 - 1] = false /\ mk_view code_today [20] [two64 - 1] [3] = Ok (mkView [3] [two64 - 1]).
Proof. split; vm_compute; reflexivity. Qed.

(** the same three requests under the repaired behaviour *)
Example view_repaired_examples :
  view_read repaired w5_15 a20 [2] [two64 - 1] = Err oob /\
  view_write repaired w5_15 a20 [2] [two64 - 1] (gen_from 500) = Err oob /\
  mk_view repaired [20] [two64 - 1] [3] = Err oob /\
  view_read repaired w5_15 a20 [2] [8] = Ok [VI 13; VI 14] /\
  view_read repaired w5_15 a20 [2] [9] = Err oob.
Proof. repeat split; vm_compute; reflexivity. Qed.

(** * Value transfers: the templates of DataSet.hpp through a view *)

Lemma prod_repeat1 : forall n, prod (repeat 1 n) = 1.
Proof. induction n as [|n IH]; cbn [repeat prod]; [reflexivity | rewrite IH; reflexivity]. Qed.

Lemma all_u64_repeat1 : forall n, all_u64 (repeat 1 n).
Proof. induction n; cbn [repeat]; [constructor | apply all_u64_cons; split; [unfold two64; lia | assumption]]. Qed.

Lemma length_zero_nil : forall {A} (l : list A), List.length l = 0%nat -> l = [].
Proof. destruct l; [reflexivity | discriminate]. Qed.

(** repaired: the count the templates hand on is the specification's *)
Lemma tpl_counts_repaired : forall B v vshape off,
  scalar_template_empty_count B = false -> (off = [] \/ List.length off = List.length (v_count v)) ->
  tpl_get_count B (List.length (view_extent v)) vshape off = spec_value_count v vshape /\
  tpl_set_count B (List.length (view_extent v)) vshape off = spec_value_count v vshape.
Proof.
  intros B v vshape off HB Ho. unfold tpl_get_count, tpl_set_count, spec_value_count, scalar_count, view_extent. rewrite HB.
  destruct vshape; [|split; reflexivity].
  destruct Ho as [-> | Ho]; [split; reflexivity|]. destruct off; [split; reflexivity | rewrite Ho; split; reflexivity].
Qed.

Lemma value_count_prod : forall v vshape, prod (real_count v (spec_value_count v vshape)) = prod vshape.
Proof.
  intros v vshape. unfold spec_value_count. destruct vshape as [|x r]; [|reflexivity].
  destruct (List.length (v_count v)) eqn:E.
  - cbn [repeat real_count]. rewrite (length_zero_nil _ E). reflexivity.
  - cbn [repeat real_count prod]. rewrite prod_repeat1. reflexivity.
Qed.

Lemma value_count_rank : forall v vshape, (vshape = [] \/ List.length vshape = List.length (v_count v)) ->
  spec_value_count v vshape = [] \/ List.length (spec_value_count v vshape) = List.length (v_count v).
Proof.
  intros v vshape H. unfold spec_value_count. destruct vshape as [|x r].
  - right. apply repeat_length.
  - right. destruct H as [H | H]; [discriminate | exact H].
Qed.

Lemma value_count_u64 : forall v vshape, all_u64 vshape -> all_u64 (spec_value_count v vshape).
Proof. intros v vshape U. unfold spec_value_count. destruct vshape; [apply all_u64_repeat1 | exact U]. Qed.

(** VALUE READS never run over the value: with the templates repaired, getData(value, offset) through a view is the
    (count, offset) request of one element (scalar) resp. n elements (vector) - the elements, or an exception *)
Theorem view_get_value_spec : forall B a v vshape buf off,
  scalar_template_empty_count B = false -> view_check_wraps B = false -> view_ok a v ->
  all_u64 vshape -> all_u64 off ->
  (vshape = [] \/ List.length vshape = List.length (v_count v)) -> (off = [] \/ List.length off = List.length (v_count v)) ->
  buf = prod vshape ->
  view_get_value B v a vshape buf off = spec_get_value v a vshape off.
Proof.
  intros B a v vshape buf off HS HB OK Uv Uo Rv Ro Hbuf.
  unfold view_get_value, spec_get_value.
  rewrite (proj1 (tpl_counts_repaired B v vshape off HS Ro)).
  rewrite (view_read_meets_spec B a v _ off HB OK (value_count_u64 v vshape Uv) Uo (conj (value_count_rank v vshape Rv) Ro)).
  unfold spec_view_read. destruct (inside_window v (spec_value_count v vshape) off) eqn:IN; [|reflexivity].
  cbn [bind]. unfold zlen. rewrite tab_length.
  unfold inside_window in IN. pose proof (prod_nonneg _ (fits_shape_ok _ _ _ IN)) as P0.
  rewrite Z2Nat.id by exact P0. rewrite value_count_prod, Hbuf, Z.ltb_irrefl. reflexivity.
Qed.

Theorem view_set_value_spec : forall B a v vshape buf off gen,
  scalar_template_empty_count B = false -> view_check_wraps B = false -> view_ok a v ->
  all_u64 vshape -> all_u64 off ->
  (vshape = [] \/ List.length vshape = List.length (v_count v)) -> (off = [] \/ List.length off = List.length (v_count v)) ->
  buf = prod vshape ->
  view_set_value B v a vshape buf off gen = spec_set_value v a vshape off gen.
Proof.
  intros B a v vshape buf off gen HS HB OK Uv Uo Rv Ro Hbuf.
  unfold view_set_value, spec_set_value.
  rewrite (proj2 (tpl_counts_repaired B v vshape off HS Ro)).
  rewrite (view_write_meets_spec B a v _ off gen HB OK (value_count_u64 v vshape Uv) Uo (conj (value_count_rank v vshape Rv) Ro)).
  unfold spec_view_write. destruct (inside_window v (spec_value_count v vshape) off); [|reflexivity].
  cbn [bind]. rewrite value_count_prod, Hbuf, Z.ltb_irrefl. reflexivity.
Qed.

Lemma unravel_ones : forall m, unravel (repeat 1 m) 0 = repeat 0 m.
Proof.
  induction m as [|m IHm]; cbn [repeat unravel]; [reflexivity|]. rewrite prod_repeat1.
  change (0 / 1) with 0. change (0 mod 1) with 0. rewrite IHm. reflexivity.
Qed.

(** a box of ones has one index: zeros *)
Lemma tab_ones : forall {A} n (f : list Z -> A), tab (repeat 1 n) f = [f (repeat 0 n)].
Proof.
  intros A n f. unfold tab. rewrite prod_repeat1. change (Z.to_nat 1) with 1%nat. cbn [seq map].
  change (Z.of_nat 0) with 0. rewrite unravel_ones. reflexivity.
Qed.

(** in particular: no undefined behaviour, and a scalar moves exactly one element - the window origin for an empty offset *)
Corollary scalar_read_one_element : forall B a v off,
  scalar_template_empty_count B = false -> view_check_wraps B = false -> view_ok a v -> all_u64 off ->
  (off = [] \/ List.length off = List.length (v_count v)) ->
  view_get_value B v a [] 1 off = Err oob \/
  view_get_value B v a [] 1 off = Ok [get a (vadd (v_offset v) (real_offset v off))].
Proof.
  intros B a v off HS HB OK Uo Ro.
  rewrite (view_get_value_spec B a v [] 1 off HS HB OK ltac:(constructor) Uo (or_introl eq_refl) Ro eq_refl).
  unfold spec_get_value, spec_view_read. destruct (inside_window v (spec_value_count v []) off) eqn:IN; [right | left; reflexivity].
  f_equal. unfold spec_value_count.
  destruct (List.length (v_count v)) eqn:E.
  - cbn [repeat real_count]. rewrite (length_zero_nil _ E).
    destruct OK as [_ F _ _ _]. destruct (fits_lengths _ _ _ F) as [L1 L2].
    assert (v_offset v = []) by (apply length_zero_nil; lia).
    assert (real_offset v off = []).
    { destruct off as [|o off']; [cbn [real_offset]; rewrite E; reflexivity|]. destruct Ro as [Ho | Ho]; [discriminate | cbn [List.length] in Ho; lia]. }
    rewrite H, H0. reflexivity.
  - cbn [repeat real_count]. change (1 :: repeat 1 n) with (repeat 1 (S n)).
    rewrite tab_ones. f_equal. f_equal.
    unfold inside_window in IN. destruct (fits_lengths _ _ _ IN) as [L1 _].
    destruct OK as [_ F _ _ _]. destruct (fits_lengths _ _ _ F) as [L3 L4].
    replace (S n) with (List.length (vadd (v_offset v) (real_offset v off))) by (rewrite vadd_length; lia).
    apply vadd_zeros.
Qed.

(** the unrepaired templates: window [2,8) of 20 elements, scalar value, empty offset: six elements are written to the
    address of one, resp. read from it; on the array itself HDF5 refuses the same calls *)
Example scalar_template_refuted :
  let w := mkView [2] [6] in
  view_get_value repo_e3eed7c w a20 [] 1 [] = UB value_overrun_read /\
  view_set_value repo_e3eed7c w a20 [] 1 [] (gen_from 100) = UB value_overrun_write /\
  view_set_value repo_e3eed7c w a20 [] 1 [0] (gen_from 100) = UB value_overrun_write /\
  arr_get_value repo_e3eed7c a20 [] 1 [] = Err h5error /\
  view_get_value repaired_except_pinned w a20 [] 1 [] = Ok [VI 2] /\
  view_get_value repaired_except_pinned w a20 [] 1 [5] = Ok [VI 7] /\
  view_get_value repaired_except_pinned w a20 [] 1 [6] = Err oob /\
  spec_get_value w a20 [] [] = Ok [VI 2].
Proof. repeat split; vm_compute; reflexivity. Qed.

(** * The typed template routes through a view *)

Lemma list_Z_eqb_eq : forall a b, list_Z_eqb a b = true -> a = b.
Proof.
  induction a as [|x a IH]; destruct b as [|y b]; cbn [list_Z_eqb]; intro H; try discriminate; [reflexivity|].
  apply andb_true_iff in H. destruct H as [H1 H2]. apply Z.eqb_eq in H1. subst. f_equal. apply IH. exact H2.
Qed.

Lemma prod_unit_interval : forall l, Forall (fun x => 0 <= x <= 1) l -> 0 <= prod l <= 1.
Proof.
  induction l as [|x l IH]; intro H; cbn [prod]; [lia|]. inversion H; subst. specialize (IH H3). nia.
Qed.

Lemma filter_none_small : forall l, all_u64 l -> filter (fun d => 1 <? d) l = [] -> Forall (fun x => 0 <= x <= 1) l.
Proof.
  induction l as [|x l IH]; intros U H; [constructor|]. apply all_u64_cons in U. destruct U as [Hx U].
  cbn [filter] in H. destruct (1 <? x) eqn:E; [discriminate|]. constructor; [lia | apply IH; assumption].
Qed.

Lemma prod_le_single : forall l d, all_u64 l -> filter (fun x => 1 <? x) l = [d] -> prod l <= d.
Proof.
  induction l as [|x l IH]; intros d U H; [discriminate|]. apply all_u64_cons in U. destruct U as [Hx U].
  cbn [filter] in H. cbn [prod]. destruct (1 <? x) eqn:E.
  - inversion H; subst. pose proof (prod_unit_interval l (filter_none_small l U H2)). nia.
  - specialize (IH d U H).
    assert (0 <= prod l) by (apply prod_nonneg; unfold all_u64 in U; unfold shape_ok; eapply Forall_impl; [|exact U]; cbn; intros; lia).
    nia.
Qed.

(** a value resized to non-empty [dims] holds at least prod dims elements *)
Lemma resize_holds : forall r dims ext, all_u64 dims -> dims <> [] -> route_resize r dims = Ok ext -> prod dims <= route_buf r ext.
Proof.
  intros r dims ext U Hne H. destruct r as [|n|m n| | |k|]; cbn [route_resize route_buf] in *.
  - destruct dims as [|x dims]; [contradiction|]. cbn [List.length Nat.eqb orb] in H.
    destruct (prod (x :: dims) =? 1) eqn:E; [|discriminate]. lia.
  - destruct (list_Z_eqb dims [n]) eqn:E; [|discriminate]. apply list_Z_eqb_eq in E. inversion H; subst. lia.
  - destruct (list_Z_eqb dims [m; n]) eqn:E; [|discriminate]. apply list_Z_eqb_eq in E. inversion H; subst. lia.
  - destruct dims as [|x dims]; [contradiction|].
    destruct (vector_size (x :: dims)) as [n|e|w] eqn:V; cbn [bind] in H; try discriminate. inversion H; subst ext.
    pose proof (vector_agree (x :: dims)) as A. rewrite V in A. cbn [to_opt] in A. unfold spec_vector_size in A.
    cbn [prod]. rewrite Z.mul_1_r.
    destruct (filter (fun d => 1 <? d) (x :: dims)) as [|d [|d2 l]] eqn:F; try discriminate.
    + inversion A; subst n. cbn [nth].
      pose proof (filter_none_small _ U F) as S. inversion S; subst.
      pose proof (prod_unit_interval dims H3). nia.
    + inversion A; subst n. change (x * prod dims) with (prod (x :: dims)). apply prod_le_single; assumption.
  - destruct dims as [|n [|y l]]; try discriminate. inversion H; subst. lia.
  - destruct (Nat.eqb (List.length dims) k); [|discriminate]. inversion H; subst. lia.
  - inversion H; subst. lia.
Qed.

Lemma resize_nil_buf : forall r ext, route_resize r [] = Ok ext -> route_buf r ext = 1.
Proof.
  intros r ext H. destruct r as [|n|m n| | |k|]; cbn [route_resize route_buf list_Z_eqb List.length Nat.eqb orb] in *; try discriminate.
  - reflexivity.
  - destruct k; cbn [Nat.eqb] in H; [|discriminate]. inversion H. reflexivity.
  - inversion H. reflexivity.
Qed.

Lemma zlen_tab : forall {A} sh (f : list Z -> A), shape_ok sh -> zlen (tab sh f) = prod sh.
Proof. intros A sh f H. unfold zlen. rewrite tab_length. apply Z2Nat.id. apply prod_nonneg. exact H. Qed.

(** getData(value, count, offset) through a view, every container kind: the (count, offset) request, an empty count
    being one element - never more elements than the resized value holds *)
Theorem view_tget3_spec : forall B a v r cnt off,
  tget3_empty_count B = false -> view_check_wraps B = false -> view_ok a v ->
  all_u64 cnt -> all_u64 off ->
  (cnt = [] \/ List.length cnt = List.length (v_count v)) -> (off = [] \/ List.length off = List.length (v_count v)) ->
  view_tget3 B v a r cnt off = spec_tget3 v a r cnt off.
Proof.
  intros B a v r cnt off HT HB OK Uc Uo Rc Ro. unfold view_tget3, spec_tget3.
  destruct (route_resize r cnt) as [ext|e|w] eqn:RS; cbn [bind]; try reflexivity.
  set (c := match cnt with [] => repeat 1 (List.length (v_count v)) | _ :: _ => cnt end).
  assert (Ec : tget3_count B (List.length (view_extent v)) cnt off = c).
  { unfold tget3_count, c, scalar_count, view_extent. rewrite HT. destruct cnt; [|reflexivity].
    destruct off as [|o off']; [reflexivity|]. destruct Ro as [Ro|Ro]; [discriminate | rewrite Ro; reflexivity]. }
  rewrite Ec.
  assert (Ucc : all_u64 c) by (unfold c; destruct cnt; [apply all_u64_repeat1 | exact Uc]).
  assert (Rcc : c = [] \/ List.length c = List.length (v_count v)).
  { unfold c. destruct cnt; [right; apply repeat_length | destruct Rc as [Rc|Rc]; [discriminate | right; exact Rc]]. }
  rewrite (view_read_meets_spec B a v c off HB OK Ucc Uo (conj Rcc Ro)).
  unfold spec_view_read. destruct (inside_window v c off) eqn:IN; [|reflexivity]. cbn [bind].
  unfold inside_window in IN. rewrite zlen_tab by (eapply fits_shape_ok; exact IN).
  replace (route_buf r ext <? prod (real_count v c)) with false; [reflexivity|].
  symmetry. apply Z.ltb_ge.
  destruct cnt as [|x cnt'].
  - rewrite (resize_nil_buf r ext RS). unfold c.
    pose proof (value_count_prod v []) as P. unfold spec_value_count in P. rewrite P. cbn [prod]. lia.
  - unfold c. cbn [real_count]. apply resize_holds; [exact Uc | discriminate | exact RS].
Qed.

(** a value resized to the window holds the whole window *)
Lemma getall_holds : forall r v ext, route_resize r (v_count v) = Ok ext ->
  prod (real_count v (route_shape r ext)) <= route_buf r ext.
Proof.
  intros r v ext RS. destruct r as [|n|m n| | |k|]; cbn [route_shape route_buf route_resize] in *.
  - cbn [real_count]. destruct (Nat.eqb (List.length (v_count v)) 0) eqn:E0.
    + apply Nat.eqb_eq in E0. rewrite (length_zero_nil _ E0). cbn. lia.
    + cbn [orb] in RS. destruct (prod (v_count v) =? 1) eqn:E1; [lia | discriminate].
  - destruct (list_Z_eqb (v_count v) [n]); [|discriminate]. inversion RS. cbn [real_count]. lia.
  - destruct (list_Z_eqb (v_count v) [m; n]); [|discriminate]. inversion RS. cbn [real_count]. lia.
  - destruct (v_count v) as [|x l]; [discriminate|]. destruct (vector_size (x :: l)); cbn [bind] in RS; try discriminate.
    inversion RS. cbn [real_count]. lia.
  - destruct (v_count v) as [|n [|y l]]; try discriminate. inversion RS. cbn [real_count]. lia.
  - destruct (Nat.eqb (List.length (v_count v)) k); [|discriminate]. inversion RS; subst ext.
    unfold real_count. destruct (v_count v); lia.
  - inversion RS; subst ext. unfold real_count. destruct (v_count v); lia.
Qed.

(** getData(value) through a view: the value is resized to the window and receives it *)
Theorem view_tgetall_spec : forall B a v r,
  view_check_wraps B = false -> view_ok a v ->
  (forall ext, route_resize r (v_count v) = Ok ext -> route_shape r ext = [] \/ List.length (route_shape r ext) = List.length (v_count v)) ->
  view_tgetall B v a r = spec_tgetall v a r.
Proof.
  intros B a v r HB OK RK. unfold view_tgetall, spec_tgetall, view_extent.
  destruct (route_resize r (v_count v)) as [ext|e|w] eqn:RS; cbn [bind]; try reflexivity.
  pose proof OK as [_ F U _ _]. destruct (fits_u64 _ _ _ U F) as [_ Uw].
  assert (Us : all_u64 (route_shape r ext)).
  { destruct r; cbn [route_shape]; try constructor; cbn [route_resize] in RS.
    - destruct (list_Z_eqb (v_count v) [n]) eqn:E; [|discriminate]. apply list_Z_eqb_eq in E. inversion RS; subst. rewrite <- E. exact Uw.
    - destruct (list_Z_eqb (v_count v) [m; n]) eqn:E; [|discriminate]. apply list_Z_eqb_eq in E. inversion RS; subst. rewrite <- E. exact Uw.
    - destruct (v_count v) as [|x l] eqn:Ew; [discriminate|].
      destruct (vector_size (x :: l)) as [n|e|w] eqn:V; cbn [bind] in RS; try discriminate. inversion RS; subst ext.
      pose proof (vector_agree (x :: l)) as A. rewrite V in A. cbn [to_opt] in A. unfold spec_vector_size in A.
      apply all_u64_cons. split; [|constructor].
      destruct (filter (fun d => 1 <? d) (x :: l)) as [|d [|d2 l2]] eqn:Fl; try discriminate; inversion A; subst n.
      + cbn [nth]. apply all_u64_cons in Uw. tauto.
      + assert (In d (x :: l)) by (eapply (proj1 (filter_In _ d (x :: l))); rewrite Fl; left; reflexivity).
        unfold all_u64 in Uw. rewrite Forall_forall in Uw. apply Uw. exact H.
    - destruct (v_count v) as [|n [|y l]]; try discriminate. inversion RS; subst. exact Uw.
    - destruct (Nat.eqb (List.length (v_count v)) k); [|discriminate]. inversion RS; subst. exact Uw.
    - inversion RS; subst. exact Uw. }
  rewrite (view_read_meets_spec B a v (route_shape r ext) [] HB OK Us ltac:(constructor) (conj (RK ext eq_refl) (or_introl eq_refl))).
  unfold spec_view_read. destruct (inside_window v (route_shape r ext) []) eqn:IN; [|reflexivity]. cbn [bind].
  unfold inside_window in IN. rewrite zlen_tab by (eapply fits_shape_ok; exact IN).
  replace (route_buf r ext <? prod (real_count v (route_shape r ext))) with false; [reflexivity|].
  symmetry. apply Z.ltb_ge.
  apply getall_holds. exact RS.
Qed.

(** the unrepaired three-argument template: window [2,8) of 20 elements, value of rank 0 (scalar, nix::NDArray), empty count *)
Example tget3_refuted :
  let w := mkView [2] [6] in
  view_tget3 repo_dc7d826 w a20 RScalar [] [] = UB value_overrun_read /\
  view_tget3 repo_dc7d826 w a20 RNDArray [] [0] = UB value_overrun_read /\
  view_tget3 repaired_except_pinned w a20 RScalar [] [] = Ok ([], [VI 2]) /\
  view_tget3 repaired_except_pinned w a20 RNDArray [] [3] = Ok ([], [VI 5]) /\
  view_tget3 repo_dc7d826 w a20 RNDArray [] [3] = Err oob /\
  view_tget3 repaired_except_pinned w a20 RVector [3] [1] = Ok ([3], [VI 3; VI 4; VI 5]) /\
  view_tgetall repaired_except_pinned w a20 RVector = Ok ([6], [VI 2; VI 3; VI 4; VI 5; VI 6; VI 7]) /\
  view_tgetall repaired_except_pinned w a20 RScalar = Err "nix::InvalidRank"%string /\
  view_tsetall repaired_except_pinned w a20 RVector [6] (gen_from 0) = Err not_allowed.
Proof. repeat split; vm_compute; reflexivity. Qed.
