(** The overloads of util::positionToIndex that take a vector of units (src/util/dataAccess.cpp).

    Every (start, end, unit) entry is scaled by the factor of ITS OWN unit and then converted by the pair
    rule - the vector overload is the scalar conversion applied entry by entry.  This is a theorem about
    the repaired [scalePositions]; the behaviour the library had until the repair ([scaling] declared outside
    the loop, so a "none" entry inherited the factor of an earlier entry) is kept here as
    [scalePositions_carry] together with a witness that it breaks the statement. *)
From Coq Require Import ZArith Bool String List Lia.
Require Import NixV.Base.Prelude NixV.Base.F64 NixV.Gen.GenDimensions NixV.Access.Retrieval.
Import ListNotations.
Local Open Scope Z_scope.
Local Open Scope string_scope.

(** the factor the scalar overloads apply to a position that carries unit [u] on an axis with unit [dim_unit] *)
Definition factor_of (dim_unit u : string) : res F64 :=
  if negb (is_none_unit u) && negb (is_none_unit dim_unit) then scaling_or_incompatible u dim_unit else Ok fone.

Fixpoint pairs_scaled (d : dimd) (m : RangeMatch) (starts ends ks : list F64) : res (list (option (Z * Z))) :=
  match starts, ends, ks with
  | s :: ss, e :: es, k :: kr =>
      bind (indexOf_pair d m (fmul s k) (fmul e k)) (fun r => bind (pairs_scaled d m ss es kr) (fun rs => Ok (r :: rs)))
  | _, _, _ => Ok []
  end.

(** specification: all factors (the first unit that cannot be scaled raises), then entry by entry *)
Definition vec_spec (d : dimd) (du : option string) (m : RangeMatch) (starts ends : list F64) (units : list string) :=
  bind (mapM (factor_of (dim_unit_str du)) units) (fun ks => pairs_scaled d m starts ends ks).

Lemma scale_is_factors dun : forall starts ends units,
  List.length ends = List.length starts -> List.length units = List.length starts ->
  scalePositions starts ends units dun =
  bind (mapM (factor_of dun) units) (fun ks => Ok (map (fun sk => fmul (fst sk) (snd sk)) (combine starts ks),
                                                   map (fun ek => fmul (fst ek) (snd ek)) (combine ends ks))).
Proof.
  induction starts as [|s ss IH]; intros [|e es] [|u us] He Hu; try discriminate; [reflexivity|].
  cbn [scalePositions mapM]. fold (factor_of dun u).
  destruct (factor_of dun u) as [k| |]; cbn [bind]; try reflexivity.
  rewrite (IH es us) by (cbn [List.length] in *; lia).
  destruct (mapM (factor_of dun) us) as [ks| |]; cbn [bind]; reflexivity.
Qed.

Lemma mapM_length {A B} (f : A -> res B) : forall l r, mapM f l = Ok r -> List.length r = List.length l.
Proof.
  induction l as [|a l IH]; intros r H; cbn [mapM] in H.
  - injection H as <-. reflexivity.
  - destruct (f a); cbn [bind] in H; try discriminate. destruct (mapM f l) as [bs| |]; cbn [bind] in H; try discriminate.
    injection H as <-. cbn [List.length]. rewrite (IH bs eq_refl). reflexivity.
Qed.

Lemma pairs_is_scaled d m : forall starts ends ks,
  List.length ends = List.length starts -> List.length ks = List.length starts ->
  indexOf_pairs d m (map (fun sk => fmul (fst sk) (snd sk)) (combine starts ks))
                    (map (fun ek => fmul (fst ek) (snd ek)) (combine ends ks))
  = pairs_scaled d m starts ends ks.
Proof.
  induction starts as [|s ss IH]; intros [|e es] [|k kr] He Hk; try discriminate; [reflexivity|].
  cbn [combine map indexOf_pairs pairs_scaled fst snd].
  rewrite (IH es kr) by (cbn [List.length] in *; lia). reflexivity.
Qed.

Theorem vec_overload_is_pairwise : forall starts ends units m d du,
  (d = DSampled (match d with DSampled dt _ _ => dt | _ => fzero end) (match d with DSampled _ o _ => o | _ => None end) du \/
   d = DRange (match d with DRange t _ => t | _ => [] end) du) ->
  List.length ends = List.length starts -> List.length units = List.length starts ->
  positionToIndex_vec starts ends units m d = vec_spec d du m starts ends units.
Proof.
  intros starts ends units m d du Hd He Hu.
  assert (E : positionToIndex_vec starts ends units m d =
              bind (scalePositions starts ends units (dim_unit_str du)) (fun se => indexOf_vec d m (fst se) (snd se))).
  { unfold zlen. destruct Hd as [-> | ->]; cbn [positionToIndex_vec]; unfold zlen; rewrite He, Hu, Z.eqb_refl; reflexivity. }
  rewrite E, scale_is_factors by assumption. unfold vec_spec.
  destruct (mapM (factor_of (dim_unit_str du)) units) as [ks| |] eqn:Ek; cbn [bind]; try reflexivity.
  pose proof (mapM_length _ _ _ Ek) as Lk.
  unfold indexOf_vec. cbn [fst snd]. unfold zlen. rewrite !map_length, !combine_length.
  replace (Z.of_nat (Nat.min (List.length starts) (List.length ks)) =? Z.of_nat (Nat.min (List.length ends) (List.length ks)))%Z
    with true by (symmetry; apply Z.eqb_eq; lia).
  cbn [negb]. apply pairs_is_scaled; lia.
Qed.

(** the size checks: anything else is a std::runtime_error *)
Theorem vec_overload_sizes : forall starts ends units m d,
  (exists dt off du, d = DSampled dt off du) \/ (exists t du, d = DRange t du) ->
  List.length ends <> List.length starts \/ List.length units <> List.length starts ->
  positionToIndex_vec starts ends units m d = Err E_Runtime.
Proof.
  intros starts ends units m d Hd Hl.
  assert (negb (zlen starts =? zlen ends)%Z || negb (zlen starts =? zlen units)%Z = true) as E.
  { unfold zlen. destruct Hl as [H|H].
    - replace (Z.of_nat (List.length starts) =? Z.of_nat (List.length ends))%Z with false by (symmetry; apply Z.eqb_neq; lia). reflexivity.
    - replace (Z.of_nat (List.length starts) =? Z.of_nat (List.length units))%Z with false by (symmetry; apply Z.eqb_neq; lia).
      apply orb_true_r. }
  destruct Hd as [(dt & off & du & ->) | (t & du & ->)]; cbn [positionToIndex_vec]; rewrite E; reflexivity.
Qed.

(* ------------------------------------------------------------------------------------------ *)
(** * the behaviour before the repair *)

Fixpoint scalePositions_carry (starts ends : list F64) (units : list string) (dim_unit : string) (scaling : F64)
  : res (list F64 * list F64) :=
  match starts, ends with
  | s :: ss, e :: es =>
      let u := match units with u :: _ => Some u | [] => None end in
      let us := match units with _ :: r => r | [] => [] end in
      bind (match u with
            | Some u => if negb (is_none_unit u) && negb (is_none_unit dim_unit)
                        then scaling_or_incompatible u dim_unit else Ok scaling
            | None => Ok scaling
            end) (fun k =>
      bind (scalePositions_carry ss es us dim_unit k) (fun r =>
      Ok (fmul s k :: fst r, fmul e k :: snd r)))
  | _, _ => Ok ([], [])
  end.

Definition positionToIndex_vec_carry (starts ends : list F64) (units : list string) (m : RangeMatch) (d : dimd) :=
  match d with
  | DSampled _ _ du | DRange _ du =>
      if negb (zlen starts =? zlen ends)%Z || negb (zlen starts =? zlen units)%Z then Err E_Runtime
      else bind (scalePositions_carry starts ends units (dim_unit_str du) fone) (fun se =>
           indexOf_vec d m (fst se) (snd se))
  | _ => indexOf_vec d m starts ends
  end.

(** an axis in seconds with interval 1: (2000 ms, 5000 ms) then (2, 5) without unit *)
Definition ex_axis : dimd := DSampled (ofZ 1) None (Some "s").
Definition ex_starts := [ofZ 2000; ofZ 2].
Definition ex_ends := [ofZ 5000; ofZ 5].
Definition ex_units := ["ms"; "none"].

Theorem vec_overload_carry_refuted :
  positionToIndex_vec_carry ex_starts ex_ends ex_units RangeMatch_Inclusive ex_axis
  <> vec_spec ex_axis (Some "s") RangeMatch_Inclusive ex_starts ex_ends ex_units.
Proof. vm_compute. discriminate. Qed.

Example vec_overload_example :
  positionToIndex_vec ex_starts ex_ends ex_units RangeMatch_Inclusive ex_axis = Ok [Some (2, 5); Some (2, 5)].
Proof. vm_compute. reflexivity. Qed.
