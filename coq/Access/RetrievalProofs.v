(** C05 / C06 — the theorems about tagged retrieval (statements collected for Properties_C05.v / _C06.v).

    Behaviours: [repaired] = all defects repaired including index-range padding of unspecified
    dimensions (what the property demands; the pinned test testFlexibleTagging forbids it);
    [repaired_except_pinned] = the tree after the proposed patches.  For the latter the statements carry
    the side condition [pinned_free] (Inclusive mode, or no unspecified dimension) and the excluded case
    is refuted by a witness. *)
From Coq Require Import ZArith Bool String List Reals Lia Lra.
From Flocq Require Import Core BinarySingleNaN.
Require Import NixV.Base.Prelude NixV.Base.F64 NixV.Base.F64Facts NixV.Gen.GenDimensions NixV.Gen.GenTables.
Require Import NixV.Axis.RangeModel NixV.Axis.AxisSpec NixV.Axis.SearchProofs.
Require Import NixV.Access.Retrieval NixV.Access.RetrievalSpec NixV.Access.RetrievalFacts NixV.Access.RetrievalAxis
               NixV.Access.RetrievalDomain NixV.Access.RetrievalAssemble NixV.Access.RetrievalTag
               NixV.Access.RetrievalOracle NixV.Access.RetrievalMTag.
Import ListNotations.
Local Open Scope list_scope.
Local Open Scope Z_scope.

(* ------------------------------------------------------------------------------------------ *)
(** * C05: Tag *)

Definition tag_incl (t : tag) (m : RangeMatch) : bool := incl_of (eff_match t m).

(** taggedData returns Ok (offset, count) exactly when every per-dimension index set is non-empty and
    inside the data, and then [offset, offset + count) IS the region *)
Theorem tagged_exact t a m off cnt : conversions_meet_spec -> tag_ok t a ->
  (taggedData_tag repaired t a m = Ok (off, cnt) <->
   region_is (tag_incl t m) (a_dims a) (a_shape a) (tag_wants t a) off cnt).
Proof.
  intros HC Hok. apply verdict_exact. apply tag_verdict; try assumption; [left; reflexivity|left; reflexivity].
Qed.

(** ... otherwise the result is nix::OutOfBounds, never data *)
Theorem tagged_oob t a m : conversions_meet_spec -> tag_ok t a ->
  (forall off cnt, ~ region_is (tag_incl t m) (a_dims a) (a_shape a) (tag_wants t a) off cnt) ->
  taggedData_tag repaired t a m = Err E_OutOfBounds.
Proof.
  intros HC Hok. apply verdict_oob. apply tag_verdict; try assumption; [left; reflexivity|left; reflexivity].
Qed.

(** the same two statements for the tree after the proposed patches, outside the pinned defect *)
Definition not_pinned (t : tag) (a : darray) (m : RangeMatch) : Prop :=
  tag_incl t m = true \/ zlen (a_dims a) <= zlen (t_pos t).

Theorem tagged_exact_partial t a m off cnt : conversions_meet_spec -> tag_ok t a -> not_pinned t a m ->
  (taggedData_tag repaired_except_pinned t a m = Ok (off, cnt) <->
   region_is (tag_incl t m) (a_dims a) (a_shape a) (tag_wants t a) off cnt).
Proof.
  intros HC Hok Hp. apply verdict_exact. apply tag_verdict; try assumption; [right; reflexivity|right; exact Hp].
Qed.

Theorem tagged_oob_partial t a m : conversions_meet_spec -> tag_ok t a -> not_pinned t a m ->
  (forall off cnt, ~ region_is (tag_incl t m) (a_dims a) (a_shape a) (tag_wants t a) off cnt) ->
  taggedData_tag repaired_except_pinned t a m = Err E_OutOfBounds.
Proof.
  intros HC Hok Hp. apply verdict_oob. apply tag_verdict; try assumption; [right; reflexivity|right; exact Hp].
Qed.

(** whatever the mode, the result is data or nix::OutOfBounds - never another error, never undefined behaviour *)
Theorem tagged_total B t a m : conversions_meet_spec -> tag_ok t a -> B = repaired \/ B = repaired_except_pinned ->
  pinned_free B t a m ->
  (exists oc, taggedData_tag B t a m = Ok oc) \/ taggedData_tag B t a m = Err E_OutOfBounds.
Proof.
  intros HC Hok HB Hp. pose proof (tag_verdict B t a m HC HB Hp Hok) as V.
  destruct (taggedData_tag B t a m) as [oc|e|u]; cbn [region_verdict] in V.
  - left. eexists. reflexivity.
  - right. destruct V as [-> _]. reflexivity.
  - contradiction.
Qed.

(** the pinned defect (DESIGN section 9 item 3): Exclusive mode, a 2 x 3 array with two set dimensions, a tag that
    specifies only the first one - the second dimension loses its last element *)
Definition wit_array : darray := mkArray [2; 3] [DSet 0; DSet 0].
Definition wit_tag : tag := mkTag [ofZ 0] [ofZ 1] [] [wit_array] [].

Definition is_spec_want (w : want) : bool := match w with WNoSpec => false | _ => true end.
Lemma all_spec_wants ws : forallb is_spec_want ws = true -> ~ In WNoSpec ws.
Proof. intros H X. rewrite forallb_forall in H. specialize (H _ X). discriminate. Qed.

Lemma wit_tag_ok : tag_ok wit_tag wit_array.
Proof.
  constructor.
  - vm_compute. reflexivity.
  - right. reflexivity.
  - vm_compute. discriminate.
  - vm_compute. reflexivity.
  - apply all_spec_wants. vm_compute. reflexivity.
  - intros d [<-|[<-|[]]]; exact I.
Qed.

Theorem tagged_exact_refuted :
  exists t a m off cnt, tag_ok t a /\
    taggedData_tag repaired_except_pinned t a m = Ok (off, cnt) /\
    ~ region_is (tag_incl t m) (a_dims a) (a_shape a) (tag_wants t a) off cnt.
Proof.
  exists wit_tag, wit_array, RangeMatch_Exclusive, [0; 0], [1; 2]. split; [exact wit_tag_ok|]. split.
  - vm_compute. reflexivity.
  - intro R. apply region_is_head in R. destruct R as (o & os & c & cs & Eo & Ec & _ & R).
    injection Eo as <- <-. injection Ec as <- <-.
    apply region_is_head in R. destruct R as (o & os & c & cs & Eo & Ec & D & _).
    injection Eo as <- <-. injection Ec as <- <-.
    destruct D as (_ & _ & _ & Hsel). specialize (Hsel 2).
    assert (X : dim_sel (DSet 0) 3 (tag_incl wit_tag RangeMatch_Exclusive)
                        (want_of [] 1 (DSet 0) None None) 2) by (cbn; lia).
    apply Hsel in X. lia.
Qed.

(** position entries beyond the number of dimensions are ignored (any behaviour) *)
Theorem extra_positions_ignored B t a m xs ys :
  zlen (t_pos t) = zlen (a_dims a) ->
  (t_ext t = [] /\ ys = []) \/ (t_ext t <> [] /\ zlen (t_ext t) = zlen (t_pos t) /\ zlen ys = zlen xs) ->
  taggedData_tag B (mkTag (t_pos t ++ xs) (t_ext t ++ ys) (t_units t) (t_refs t) (t_feats t)) a m =
  taggedData_tag B t a m.
Proof.
  intros Hn He. unfold taggedData_tag. f_equal. unfold getOffsetAndCount_tag. cbn [t_pos t_ext t_units].
  set (pos := t_pos t) in *. set (ext := t_ext t) in *. set (n := zlen (a_dims a)) in *.
  assert (Ln : List.length pos = Z.to_nat n) by (unfold zlen in Hn; lia).
  assert (Zapp : zlen (pos ++ xs) = n + zlen xs) by (unfold zlen in *; rewrite app_length; lia).
  assert (Zxs : 0 <= zlen xs) by (unfold zlen; lia).
  assert (Zn0 : 0 <= n) by (unfold n, zlen; lia).
  assert (F1 : firstn (Z.to_nat n) (pos ++ xs) = firstn (Z.to_nat n) pos).
  { rewrite firstn_app. replace (Z.to_nat n - List.length pos)%nat with O by lia. cbn [firstn]. apply app_nil_r. }
  rewrite F1.
  replace (zlen (pos ++ xs) <? n) with false by lia. replace (zlen pos <? n) with false by lia. cbn [andb bind].
  destruct He as [[E1 E2]|(E0 & E1 & E2)].
  - rewrite E1, E2. cbn [app zlen List.length Z.of_nat Z.gtb Z.compare andb Z.eqb].
    assert (F2 : firstn (Z.to_nat n) (zrepeat fzero (zlen (pos ++ xs))) = firstn (Z.to_nat n) (zrepeat fzero (zlen pos))).
    { unfold zrepeat. rewrite Zapp, Hn. replace (Z.to_nat (n + zlen xs)) with (Z.to_nat n + Z.to_nat (zlen xs))%nat by lia.
      rewrite repeat_app, firstn_app, repeat_length. replace (Z.to_nat n - Z.to_nat n)%nat with O by lia.
      cbn [firstn]. rewrite app_nil_r. reflexivity. }
    rewrite F2. reflexivity.
  - assert (Lext : List.length ext = Z.to_nat n) by (unfold zlen in *; lia).
    assert (Zext : zlen (ext ++ ys) = n + zlen xs) by (unfold zlen in *; rewrite app_length; lia).
    assert (Hn1 : 1 <= n).
    { destruct ext as [|e0 es]; [contradiction|]. unfold zlen in E1. cbn [List.length] in E1. lia. }
    rewrite Zext, Zapp, E1, Hn, !Z.eqb_refl.
    replace (n + zlen xs >? 0) with true by lia. replace (n >? 0) with true by lia. cbn [negb andb].
    replace (n + zlen xs =? 0) with false by lia. replace (n =? 0) with false by lia.
    assert (F2 : firstn (Z.to_nat n) (ext ++ ys) = firstn (Z.to_nat n) ext).
    { rewrite firstn_app. replace (Z.to_nat n - List.length ext)%nat with O by lia. cbn [firstn]. apply app_nil_r. }
    rewrite F2. reflexivity.
Qed.

(** dimensions for which the tag has no position entry are returned in full *)
Lemma region_is_nth incl : forall ds shs ws off cnt, region_is incl ds shs ws off cnt ->
  forall k d sh w, nth_error ds k = Some d -> nth_error shs k = Some sh -> nth_error ws k = Some w ->
  exists o c, nth_error off k = Some o /\ nth_error cnt k = Some c /\ dim_is d sh incl w o c.
Proof.
  induction 1 as [|d0 ds sh0 shs w0 ws o0 os c0 cs D R IH]; intros k d sh w Hd Hs Hw; [destruct k; discriminate|].
  destruct k as [|k].
  - cbn in Hd, Hs, Hw. injection Hd as <-. injection Hs as <-. injection Hw as <-. exists o0, c0. split; [reflexivity|]. split; [reflexivity|exact D].
  - cbn [nth_error] in *. apply IH; assumption.
Qed.

Lemma full_dim_of_region incl t a off cnt k sh :
  (t_ext t = [] \/ zlen (t_ext t) = zlen (t_pos t)) -> zlen (t_units t) <= zlen (t_pos t) ->
  region_is incl (a_dims a) (a_shape a) (tag_wants t a) off cnt ->
  (List.length (t_pos t) <= k < List.length (a_dims a))%nat -> nth_error (a_shape a) k = Some sh ->
  nth_error off k = Some 0 /\ nth_error cnt k = Some sh.
Proof.
  intros He Hu R Hk Hs. rewrite (tag_wants_eq t a He Hu) in R.
  destruct (nth_error (a_dims a) k) as [d|] eqn:Hd; [|apply nth_error_None in Hd; lia].
  set (ws := wants_from (t_units t) 0 (a_dims a) (t_pos t) (ext_opt (t_ext t))) in *.
  destruct (nth_error ws k) as [w|] eqn:Hw; [|apply nth_error_None in Hw; unfold ws in Hw; rewrite wants_from_length in Hw; lia].
  destruct (nth_error_wants_from _ _ _ _ _ _ _ Hw) as (d' & Hd' & Ew). rewrite Hd in Hd'. injection Hd' as <-.
  replace (nth_error (t_pos t) k) with (@None F64) in Ew by (symmetry; apply nth_error_None; lia).
  cbn [want_of] in Ew. subst w.
  destruct (region_is_nth incl _ _ _ _ _ R k d sh WAll Hd Hs Hw) as (o & c & Ho & Hc & (H1 & H2 & H3 & Hsel)).
  cbn [dim_sel] in Hsel.
  assert (o = 0).
  { destruct (Z.eq_dec o 0) as [|Hne]; [assumption|]. assert (X : 0 <= 0 < sh) by lia. apply Hsel in X. lia. }
  subst o. assert (c = sh).
  { assert (X : 0 <= sh - 1 < sh) by lia. apply Hsel in X. assert (Y : 0 <= c - 1 < 0 + c) by lia. apply Hsel in Y. lia. }
  subst c. split; assumption.
Qed.

Theorem missing_positions_full_dim t a m off cnt k sh : conversions_meet_spec -> tag_ok t a ->
  taggedData_tag repaired t a m = Ok (off, cnt) ->
  (List.length (t_pos t) <= k < List.length (a_dims a))%nat -> nth_error (a_shape a) k = Some sh ->
  nth_error off k = Some 0 /\ nth_error cnt k = Some sh.
Proof.
  intros HC Hok E Hk Hs. apply (tagged_exact t a m off cnt HC Hok) in E.
  apply (full_dim_of_region _ t a off cnt k sh (to_ext t a Hok) (to_nunits t a Hok) E Hk Hs).
Qed.

Theorem missing_positions_full_dim_inclusive t a m off cnt k sh : conversions_meet_spec -> tag_ok t a ->
  tag_incl t m = true ->
  taggedData_tag repaired_except_pinned t a m = Ok (off, cnt) ->
  (List.length (t_pos t) <= k < List.length (a_dims a))%nat -> nth_error (a_shape a) k = Some sh ->
  nth_error off k = Some 0 /\ nth_error cnt k = Some sh.
Proof.
  intros HC Hok Hi E Hk Hs. apply (tagged_exact_partial t a m off cnt HC Hok (or_introl Hi)) in E.
  apply (full_dim_of_region _ t a off cnt k sh (to_ext t a Hok) (to_nunits t a Hok) E Hk Hs).
Qed.

(** Exclusive mode: the unspecified dimension comes back without its last element (open finding) *)
Theorem missing_positions_exclusive_refuted :
  exists t a off cnt, tag_ok t a /\
    taggedData_tag repaired_except_pinned t a RangeMatch_Exclusive = Ok (off, cnt) /\
    (List.length (t_pos t) <= 1 < List.length (a_dims a))%nat /\
    nth_error (a_shape a) 1 = Some 3 /\ nth_error cnt 1 = Some 2.
Proof.
  exists wit_tag, wit_array, [0; 0], [1; 2]. split; [exact wit_tag_ok|]. split; [vm_compute; reflexivity|].
  split; [cbn; lia|]. split; reflexivity.
Qed.

(** feature data follows the link type: tagged -> the same rule on the feature array; untagged, indexed -> whole *)
Lemma view_outside_whole : forall shape, (forall s, In s shape -> 0 <= s < two64) ->
  view_outside shape (zrepeat 0 (zlen shape)) shape = false.
Proof.
  induction shape as [|s shape IH]; intro H; [reflexivity|].
  unfold zrepeat, zlen. cbn [List.length]. rewrite Nat2Z.id. cbn [repeat view_outside].
  pose proof (H s (or_introl eq_refl)) as Hs. rewrite u64_sub_small by lia.
  specialize (IH (fun s' Hs' => H s' (or_intror Hs'))). unfold zrepeat, zlen in IH. rewrite Nat2Z.id in IH. rewrite IH.
  replace (0 >? s) with false by lia. replace (s >? s - 0) with false by lia. reflexivity.
Qed.

Lemma whole_ok a : (forall s, In s (a_shape a) -> 0 <= s < two64) ->
  whole a = Ok (zrepeat 0 (zlen (a_shape a)), a_shape a).
Proof.
  intro H. unfold whole, mkDataView.
  replace (zlen (zrepeat 0 (zlen (a_shape a))) =? zlen (a_shape a)) with true
    by (symmetry; apply Z.eqb_eq; unfold zlen; rewrite zrepeat_length; lia).
  rewrite Z.eqb_refl. cbn [negb]. rewrite (view_outside_whole _ H). reflexivity.
Qed.

Theorem feature_dispatch B t f m :
  featureData_tag_feat B t f m =
  match f_link f with
  | LTagged => taggedData_tag B t (f_data f) m
  | LUntagged | LIndexed => whole (f_data f)
  end.
Proof. reflexivity. Qed.

Theorem feature_untagged_whole B t f m : f_link f <> LTagged ->
  (forall s, In s (a_shape (f_data f)) -> 0 <= s < two64) ->
  featureData_tag_feat B t f m = Ok (zrepeat 0 (zlen (a_shape (f_data f))), a_shape (f_data f)).
Proof.
  intros Hl Hs. unfold featureData_tag_feat. destruct (f_link f); [contradiction| |]; apply whole_ok; exact Hs.
Qed.

(** the extracted oracle and the model: what the oracle reports is what retrieval returns *)
Lemma oracle_tag_ok incl t a r : spec_answer incl a (tag_wants t a) = r -> r <> Unconstrained -> tag_ok t a.
Proof.
  intros E Hr. unfold spec_answer in E.
  destruct (1 <=? zlen (a_dims a)) eqn:Hn; [|subst r; contradiction].
  destruct (dims_dom (a_dims a) (a_shape a)) eqn:Hd; [|subst r; contradiction].
  destruct (wants_dom (a_dims a) (tag_wants t a)) eqn:Hw; [|subst r; contradiction]. cbn [andb] in E.
  apply Z.leb_le in Hn.
  destruct (dims_dom_nth _ _ Hd) as [Lsh Ndom].
  assert (Hns : ~ In WNoSpec (tag_wants t a)).
  { intro X. apply Hr. rewrite <- E. unfold spec_region.
    assert (Lw : List.length (tag_wants t a) = List.length (a_dims a)).
    { unfold tag_wants. destruct (zlen (t_pos t) <? zlen (t_units t)); [apply map_length|].
      destruct (t_ext t); [apply wants_from_length|]. destruct (_ =? _); [apply wants_from_length|apply map_length]. }
    apply (spec_dims_unconstrained incl _ _ _ Lsh Lw) in X. rewrite X. reflexivity. }
  assert (Hnw : forall ws, ws = map (fun _ : dimd => WNoSpec) (a_dims a) -> In WNoSpec ws).
  { intros ws ->. destruct (a_dims a) as [|d ds] eqn:Ed; [unfold zlen in Hn; cbn in Hn; lia|]. left. reflexivity. }
  constructor; try assumption.
  - unfold tag_wants in Hns. destruct (zlen (t_pos t) <? zlen (t_units t)); [exfalso; apply Hns, Hnw; reflexivity|].
    destruct (t_ext t) as [|e es] eqn:Ee; [left; reflexivity|]. right.
    destruct (zlen (e :: es) =? zlen (t_pos t)) eqn:El; [apply Z.eqb_eq; exact El|exfalso; apply Hns, Hnw; reflexivity].
  - unfold tag_wants in Hns. destruct (zlen (t_pos t) <? zlen (t_units t)) eqn:El; [exfalso; apply Hns, Hnw; reflexivity|lia].
  - intros d Hd'. destruct (In_nth_error _ _ Hd') as (k & Hk).
    destruct (nth_error (a_shape a) k) as [sh|] eqn:Hs.
    + pose proof (Ndom k d sh Hk Hs) as Hdom. unfold dim_dom in Hdom.
      repeat (apply andb_true_iff in Hdom; destruct Hdom as [Hdom ?]).
      destruct d as [dt off [u|]|ticks [u|]|?|?]; try exact I; cbn [unit_dom] in *;
        destruct (split_atomic u); [discriminate| | discriminate|]; discriminate.
    + apply nth_error_None in Hs. assert (k < List.length (a_dims a))%nat by (apply nth_error_Some; congruence). lia.
Qed.

Theorem tag_meets_oracle t a m : conversions_meet_spec ->
  match spec_answer (tag_incl t m) a (tag_wants t a) with
  | Region oc => taggedData_tag repaired t a m = Ok oc
  | Refuse => taggedData_tag repaired t a m = Err E_OutOfBounds
  | Unconstrained => True
  end.
Proof.
  intro HC. destruct (spec_answer (tag_incl t m) a (tag_wants t a)) as [[off cnt]| |] eqn:E.
  - apply (tagged_exact t a m off cnt HC (oracle_tag_ok _ t a _ E ltac:(discriminate))). apply oracle_region. exact E.
  - apply (tagged_oob t a m HC (oracle_tag_ok _ t a _ E ltac:(discriminate))). apply oracle_refuse. exact E.
  - exact I.
Qed.

Theorem tag_meets_oracle_partial t a m : conversions_meet_spec -> not_pinned t a m ->
  match spec_answer (tag_incl t m) a (tag_wants t a) with
  | Region oc => taggedData_tag repaired_except_pinned t a m = Ok oc
  | Refuse => taggedData_tag repaired_except_pinned t a m = Err E_OutOfBounds
  | Unconstrained => True
  end.
Proof.
  intros HC Hp. destruct (spec_answer (tag_incl t m) a (tag_wants t a)) as [[off cnt]| |] eqn:E.
  - apply (tagged_exact_partial t a m off cnt HC (oracle_tag_ok _ t a _ E ltac:(discriminate)) Hp). apply oracle_region. exact E.
  - apply (tagged_oob_partial t a m HC (oracle_tag_ok _ t a _ E ltac:(discriminate)) Hp). apply oracle_refuse. exact E.
  - exact I.
Qed.

(* ------------------------------------------------------------------------------------------ *)
(** * C06: MultiTag *)

(** what the statement needs of a multi-tag and a referenced array *)
Record mtag_ok (mt : mtag) (a : darray) : Prop := mk_mtag_ok {
  mo_dims : dims_dom (a_dims a) (a_shape a) = true;
  mo_rank : 1 <= zlen (a_dims a);
  mo_shape : mtag_shape_ok mt (zlen (a_dims a)) = true }.

(** position index i exists and its request is inside the statement *)
Definition mtag_index_ok (mt : mtag) (a : darray) (i : Z) : Prop :=
  0 <= i /\ (i < mtag_npos mt ->
             wants_dom (a_dims a) (mtag_wants mt a i) = true /\ ~ In WNoSpec (mtag_wants mt a i)).

Definition single_verdict (incl : bool) (mt : mtag) (a : darray) (i : Z) (r : res (list Z * list Z)) : Prop :=
  match r with
  | Ok (off, cnt) => mtag_region incl mt a i off cnt
  | Err e => e = E_OutOfBounds /\ forall off cnt, ~ mtag_region incl mt a i off cnt
  | UB _ => False
  end.

Lemma all_or_nonempty mt idxs : idxs <> [] -> all_or mt idxs = Ok idxs.
Proof. destruct idxs; [contradiction|reflexivity]. Qed.

Section MTagTheorems.
  Variable B : behaviour.
  Variable mt : mtag.
  Variable a : darray.
  Variable m : RangeMatch.
  Hypothesis HC : conversions_meet_spec.
  Hypothesis HB : mtag_repaired B.
  Hypothesis Hok : mtag_ok mt a.
  Hypothesis Hpin : mtag_pinned_free B mt a m.

  Let incl := incl_of m.

  Lemma mtag_list idxs : idxs <> [] -> (forall i, In i idxs -> mtag_index_ok mt a i) ->
    list_verdict incl mt a idxs (taggedData_mtag B mt idxs a m).
  Proof.
    intros Hne Hi. unfold taggedData_mtag. rewrite (all_or_nonempty mt idxs Hne). cbn [bind].
    destruct Hok as [H1 H2 H3].
    apply (mtag_list_verdict B mt a m HC HB H1 H2 H3 Hpin idxs Hne). exact Hi.
  Qed.

  Lemma mtag_single i : mtag_index_ok mt a i -> single_verdict incl mt a i (taggedData_mtag1 B mt i a m).
  Proof.
    intro Hi. pose proof (mtag_list [i] ltac:(discriminate) ltac:(intros j [<-|[]]; exact Hi)) as V.
    unfold taggedData_mtag1. destruct (taggedData_mtag B mt [i] a m) as [vs|e|u]; cbn [bind list_verdict single_verdict] in *.
    - inversion V as [|i' v idxs' vs' Hv Hrest]; subst. inversion Hrest; subst. destruct v as [off cnt]. exact Hv.
    - destruct V as (-> & j & [<-|[]] & Hno). split; [reflexivity|exact Hno].
    - exact V.
  Qed.

  (** retrieval for position index i returns exactly region i *)
  Theorem mtag_exact_gen i off cnt : mtag_index_ok mt a i ->
    (taggedData_mtag1 B mt i a m = Ok (off, cnt) <-> mtag_region incl mt a i off cnt).
  Proof.
    intro Hi. pose proof (mtag_single i Hi) as V. split.
    - intro E. rewrite E in V. exact V.
    - intros [Hr R]. destruct (taggedData_mtag1 B mt i a m) as [[off' cnt']|e|u]; cbn [single_verdict] in V.
      + destruct V as [_ R']. destruct (region_is_unique _ _ _ _ _ _ _ _ R' R) as [-> ->]. reflexivity.
      + destruct V as [_ V]. exfalso. apply (V off cnt). split; assumption.
      + contradiction.
  Qed.

  (** an index beyond the number of positions raises an out-of-bounds error *)
  Theorem mtag_index_oob_gen i : 0 <= i -> mtag_npos mt <= i -> taggedData_mtag1 B mt i a m = Err E_OutOfBounds.
  Proof.
    intros Hi0 Hi. pose proof (mtag_single i ltac:(split; [exact Hi0|intro; lia])) as V.
    destruct (taggedData_mtag1 B mt i a m) as [[off cnt]|e|u]; cbn [single_verdict] in V.
    - destruct V as [V _]. lia.
    - destruct V as [-> _]. reflexivity.
    - contradiction.
  Qed.

  (** the list of single verdicts *)
  Lemma singles_verdict : forall idxs, (forall i, In i idxs -> mtag_index_ok mt a i) ->
    list_verdict incl mt a idxs (mapM (fun i => taggedData_mtag1 B mt i a m) idxs).
  Proof.
    induction idxs as [|i idxs IH]; intro Hi; [cbn; constructor|].
    pose proof (mtag_single i (Hi i (or_introl eq_refl))) as V.
    specialize (IH (fun j Hj => Hi j (or_intror Hj))). cbn [mapM].
    destruct (taggedData_mtag1 B mt i a m) as [[off cnt]|e|u]; cbn [bind single_verdict] in *.
    - destruct (mapM (fun i0 => taggedData_mtag1 B mt i0 a m) idxs) as [vs|e|u]; cbn [bind list_verdict] in *.
      + constructor; [exact V|exact IH].
      + destruct IH as (-> & j & Hj & Hno). split; [reflexivity|]. exists j. split; [right; exact Hj|exact Hno].
      + exact IH.
    - destruct V as [-> V]. split; [reflexivity|]. exists i. split; [left; reflexivity|exact V].
    - exact V.
  Qed.

  Lemma list_verdict_unique idxs r1 r2 : list_verdict incl mt a idxs r1 -> list_verdict incl mt a idxs r2 -> r1 = r2.
  Proof.
    intros V1 V2. destruct r1 as [vs1|e1|u1], r2 as [vs2|e2|u2]; cbn [list_verdict] in *; try contradiction.
    - f_equal. revert vs2 V2. induction V1 as [|i v1 idxs vs1 H1 _ IH]; intros vs2 V2; inversion V2; subst; [reflexivity|].
      match goal with Hx : mtag_region _ _ _ _ (fst ?v2) (snd ?v2) |- _ =>
        destruct H1 as [_ R1]; destruct Hx as [_ R2];
        destruct (region_is_unique _ _ _ _ _ _ _ _ R1 R2) as [E1 E2]; destruct v1, v2; cbn [fst snd] in *; subst end.
      f_equal. apply IH. assumption.
    - exfalso. destruct V2 as (_ & i & Hi & Hno). clear -V1 Hi Hno.
      induction V1 as [|j v idxs vs H _ IH]; [contradiction|]. destruct Hi as [<-|Hi]; [apply (Hno _ _ H)|apply IH; exact Hi].
    - exfalso. destruct V1 as (_ & i & Hi & Hno). clear -V2 Hi Hno.
      induction V2 as [|j v idxs vs H _ IH]; [contradiction|]. destruct Hi as [<-|Hi]; [apply (Hno _ _ H)|apply IH; exact Hi].
    - destruct V1 as [-> _], V2 as [-> _]. reflexivity.
  Qed.

  (** retrieval for a list of indices is the list of the single retrievals *)
  Theorem mtag_list_is_map_gen idxs : idxs <> [] -> (forall i, In i idxs -> mtag_index_ok mt a i) ->
    taggedData_mtag B mt idxs a m = mapM (fun i => taggedData_mtag1 B mt i a m) idxs.
  Proof.
    intros Hne Hi. apply (list_verdict_unique idxs); [apply mtag_list; assumption|apply singles_verdict; assumption].
  Qed.

  (** the empty list stands for all positions; with no positions at all the answer is the empty list of views *)
  Theorem mtag_all_positions_gen : (forall i, 0 <= i < mtag_npos mt -> mtag_index_ok mt a i) ->
    taggedData_mtag B mt [] a m = mapM (fun i => taggedData_mtag1 B mt i a m) (ziota (mtag_npos mt)).
  Proof.
    intro Hi. destruct Hok as [H1 H2 H3].
    destruct (mtag_setup mt _ H3 H2) as (N & tc & EN & HNp & HN0 & _).
    unfold taggedData_mtag at 1. unfold all_or. rewrite EN. cbn [bind]. rewrite <- HNp.
    destruct (Z.eq_dec N 0) as [->|HNz].
    - change (ziota 0) with (@nil Z). cbn [mapM]. unfold getOffsetAndCount_mtag.
      replace (0 <? zlen (a_dims a)) with true by lia.
      destruct (maximumExtents_ok a H1) as (mx & -> & _). cbn [bind].
      destruct HB as (_ & _ & _ & _ & ->). reflexivity.
    - assert (Hne : ziota N <> []) by (intro X; apply (f_equal (@List.length Z)) in X; rewrite ziota_length in X; cbn in X; lia).
      pose proof (mtag_list_is_map_gen (ziota N) Hne ltac:(intros i Hin; apply Hi; apply In_ziota in Hin; lia)) as L.
      unfold taggedData_mtag in L at 1. rewrite (all_or_nonempty mt _ Hne) in L. cbn [bind] in L. exact L.
  Qed.
End MTagTheorems.

Lemma repaired_flags : mtag_repaired repaired. Proof. repeat split. Qed.
Lemma repaired_pinned_flags : mtag_repaired repaired_except_pinned. Proof. repeat split. Qed.

(** outside the pinned defect: Inclusive mode, or the positions specify every dimension *)
Definition mtag_not_pinned (mt : mtag) (a : darray) (m : RangeMatch) : Prop :=
  m = RangeMatch_Inclusive \/ zlen (a_dims a) <= mtag_width mt (zlen (a_dims a)).

Theorem mtag_exact mt a m i off cnt : conversions_meet_spec -> mtag_ok mt a -> mtag_index_ok mt a i ->
  (taggedData_mtag1 repaired mt i a m = Ok (off, cnt) <-> mtag_region (incl_of m) mt a i off cnt).
Proof. intros HC Hok Hi. apply mtag_exact_gen; try assumption; [apply repaired_flags|left; reflexivity]. Qed.

Theorem mtag_exact_partial mt a m i off cnt : conversions_meet_spec -> mtag_ok mt a -> mtag_not_pinned mt a m ->
  mtag_index_ok mt a i ->
  (taggedData_mtag1 repaired_except_pinned mt i a m = Ok (off, cnt) <-> mtag_region (incl_of m) mt a i off cnt).
Proof. intros HC Hok Hp Hi. apply mtag_exact_gen; try assumption; [apply repaired_pinned_flags|right; exact Hp]. Qed.

Theorem mtag_list_is_map mt a m idxs : conversions_meet_spec -> mtag_ok mt a -> mtag_not_pinned mt a m ->
  idxs <> [] -> (forall i, In i idxs -> mtag_index_ok mt a i) ->
  taggedData_mtag repaired_except_pinned mt idxs a m =
  mapM (fun i => taggedData_mtag1 repaired_except_pinned mt i a m) idxs.
Proof. intros HC Hok Hp Hne Hi. apply mtag_list_is_map_gen; try assumption; [apply repaired_pinned_flags|right; exact Hp]. Qed.

Theorem mtag_list_is_map_full mt a m idxs : conversions_meet_spec -> mtag_ok mt a ->
  idxs <> [] -> (forall i, In i idxs -> mtag_index_ok mt a i) ->
  taggedData_mtag repaired mt idxs a m = mapM (fun i => taggedData_mtag1 repaired mt i a m) idxs.
Proof. intros HC Hok Hne Hi. apply mtag_list_is_map_gen; try assumption; [apply repaired_flags|left; reflexivity]. Qed.

Theorem mtag_all_positions mt a m : conversions_meet_spec -> mtag_ok mt a -> mtag_not_pinned mt a m ->
  (forall i, 0 <= i < mtag_npos mt -> mtag_index_ok mt a i) ->
  taggedData_mtag repaired_except_pinned mt [] a m =
  mapM (fun i => taggedData_mtag1 repaired_except_pinned mt i a m) (ziota (mtag_npos mt)).
Proof. intros HC Hok Hp Hi. apply mtag_all_positions_gen; try assumption; [apply repaired_pinned_flags|right; exact Hp]. Qed.

Theorem mtag_index_oob mt a m i : conversions_meet_spec -> mtag_ok mt a -> mtag_not_pinned mt a m ->
  0 <= i -> mtag_npos mt <= i -> taggedData_mtag1 repaired_except_pinned mt i a m = Err E_OutOfBounds.
Proof. intros HC Hok Hp H0 Hi. apply mtag_index_oob_gen; try assumption; [apply repaired_pinned_flags|right; exact Hp]. Qed.

(** no undefined behaviour on an empty index list (the pinned code dereferences max_element of nothing) *)
Theorem mtag_empty_list_defined mt a m : dims_dom (a_dims a) (a_shape a) = true ->
  getOffsetAndCount_mtag repaired_except_pinned mt a [] m = Ok [].
Proof.
  intro H. unfold getOffsetAndCount_mtag. destruct (maximumExtents_ok a H) as (mx & E & _).
  destruct (0 <? zlen (a_dims a)); [rewrite E|]; reflexivity.
Qed.
Theorem mtag_empty_list_today : exists mt a m, dims_dom (a_dims a) (a_shape a) = true /\
  is_ub (getOffsetAndCount_mtag code_today mt a [] m) = true.
Proof.
  exists (mkMTag (mkNd [0] []) None [] [] []), (mkArray [3] [DSet 0]), RangeMatch_Inclusive.
  split; vm_compute; reflexivity.
Qed.

(** the pinned defect for a MultiTag: Exclusive mode, N x 1 positions on two-dimensional data *)
Definition wit_mtag : mtag := mkMTag (mkNd [1; 1] [ofZ 0]) (Some (mkNd [1; 1] [ofZ 1])) [] [wit_array] [].

Lemma wit_mtag_ok : mtag_ok wit_mtag wit_array /\ mtag_index_ok wit_mtag wit_array 0.
Proof.
  split.
  - constructor; vm_compute; try reflexivity. discriminate.
  - split; [lia|]. intros _. split; [vm_compute; reflexivity|]. apply all_spec_wants. vm_compute. reflexivity.
Qed.

Theorem mtag_exact_refuted :
  exists mt a m i off cnt, mtag_ok mt a /\ mtag_index_ok mt a i /\
    taggedData_mtag1 repaired_except_pinned mt i a m = Ok (off, cnt) /\
    ~ mtag_region (incl_of m) mt a i off cnt.
Proof.
  exists wit_mtag, wit_array, RangeMatch_Exclusive, 0, [0; 0], [1; 2].
  destruct wit_mtag_ok as [H1 H2]. split; [exact H1|]. split; [exact H2|]. split; [vm_compute; reflexivity|].
  intros [_ R]. apply region_is_head in R. destruct R as (o & os & c & cs & Eo & Ec & _ & R).
  injection Eo as <- <-. injection Ec as <- <-.
  apply region_is_head in R. destruct R as (o & os & c & cs & Eo & Ec & D & _).
  injection Eo as <- <-. injection Ec as <- <-.
  destruct D as (_ & _ & _ & Hsel). specialize (Hsel 2).
  assert (X : dim_sel (DSet 0) 3 (incl_of RangeMatch_Exclusive) WAll 2) by (cbn; lia).
  apply Hsel in X. lia.
Qed.

(** indexed features return slice i along the first dimension; an index beyond the positions or beyond the
    feature array is out of bounds *)
Lemma extent_in_data_pad : forall rest, (forall s, In s rest -> 1 <= s < two64) ->
  extent_in_data rest (zrepeat 0 (zlen rest)) rest = true.
Proof.
  induction rest as [|s rest IH]; intro H; [reflexivity|].
  unfold zrepeat, zlen. cbn [List.length]. rewrite Nat2Z.id. cbn [repeat extent_in_data].
  pose proof (H s (or_introl eq_refl)) as Hs. rewrite u64_sub_small by lia.
  specialize (IH (fun s' Hs' => H s' (or_intror Hs'))). unfold zrepeat, zlen in IH. rewrite Nat2Z.id in IH. rewrite IH.
  replace (s <? 1) with false by lia. replace (0 >=? s) with false by lia. replace (s >? s - 0) with false by lia. reflexivity.
Qed.

Theorem indexed_slice_spec (data : darray) s0 rest i : a_shape data = s0 :: rest ->
  0 <= i < two64 - 1 -> 0 <= s0 < two64 -> (forall s, In s rest -> 1 <= s < two64) ->
  indexed_slice data i = if i <? s0 then Ok (i :: zrepeat 0 (zlen rest), 1 :: rest) else Err E_OutOfBounds.
Proof.
  intros Hs Hi Hs0 Hrest. unfold indexed_slice. rewrite Hs.
  assert (E1 : nd_set (zrepeat 0 (zlen (s0 :: rest))) 0 i = Ok (i :: zrepeat 0 (zlen rest))).
  { unfold nd_set, nthZ, zrepeat, zlen. cbn [List.length]. rewrite !Nat2Z.id. reflexivity. }
  rewrite E1. cbn [bind]. change (nd_set (s0 :: rest) 0 1) with (@Ok (list Z) (1 :: rest)). cbn [bind].
  unfold positionAndExtentInData.
  assert (L1 : (zlen (s0 :: rest) =? zlen (i :: zrepeat 0 (zlen rest))) = true).
  { apply Z.eqb_eq. unfold zlen. cbn [List.length]. rewrite zrepeat_length. unfold zlen. lia. }
  assert (L2 : (zlen (s0 :: rest) =? zlen (1 :: rest)) = true) by (apply Z.eqb_eq; reflexivity).
  rewrite L1, L2. cbn [negb orb extent_in_data]. rewrite (extent_in_data_pad rest Hrest), andb_true_r.
  destruct (i <? s0) eqn:E.
  - apply Z.ltb_lt in E. rewrite u64_sub_small by lia.
    replace (1 <? 1) with false by lia. replace (i >=? s0) with false by lia. replace (1 >? s0 - i) with false by lia.
    cbn [orb negb]. unfold mkDataView.
    replace (zlen (i :: zrepeat 0 (zlen rest)) =? zlen (s0 :: rest)) with true by (symmetry; rewrite Z.eqb_sym; exact L1).
    replace (zlen (1 :: rest) =? zlen (s0 :: rest)) with true by (symmetry; apply Z.eqb_eq; reflexivity).
    cbn [negb view_outside]. rewrite u64_sub_small by lia.
    rewrite (view_outside_whole rest ltac:(intros s Hs'; specialize (Hrest s Hs'); lia)).
    replace (i >? s0) with false by lia. replace (1 >? s0 - i) with false by lia. reflexivity.
  - apply Z.ltb_ge in E. replace (i >=? s0) with true by lia. rewrite orb_true_r. reflexivity.
Qed.

Theorem mtag_feature_indexed B mt f i m s0 rest :
  f_link f = LIndexed -> a_shape (f_data f) = s0 :: rest ->
  0 <= i < two64 - 1 -> 0 <= s0 < two64 -> (forall s, In s rest -> 1 <= s < two64) ->
  n_shape (m_pos mt) <> [] ->
  featureData_mtag_feat B mt [i] f m =
  if (i <? mtag_npos mt) && (i <? s0) then Ok [(i :: zrepeat 0 (zlen rest), 1 :: rest)] else Err E_OutOfBounds.
Proof.
  intros Hl Hs Hi Hs0 Hrest Hp. unfold featureData_mtag_feat. cbn [all_or bind]. rewrite Hl.
  unfold mtag_npos. destruct (n_shape (m_pos mt)) as [|N r] eqn:E; [contradiction|].
  change (nd_at (N :: r) 0) with (@Ok Z N). cbn [bind zmax_list fold_right].
  replace (Z.max i 0 >=? N) with (negb (i <? N)) by lia.
  destruct (i <? N); cbn [negb andb]; [|reflexivity].
  cbn [mapM]. rewrite (indexed_slice_spec (f_data f) s0 rest i Hs Hi Hs0 Hrest).
  destruct (i <? s0); reflexivity.
Qed.

(** feature data of a MultiTag follows the link type *)
Theorem mtag_feature_dispatch B mt idxs f m : idxs <> [] ->
  featureData_mtag_feat B mt idxs f m =
  match f_link f with
  | LTagged => taggedData_mtag B mt idxs (f_data f) m
  | LUntagged =>
      bind (nd_at (n_shape (m_pos mt)) 0) (fun n0 =>
      if zmax_list idxs >=? n0 then Err E_OutOfBounds else mapM (fun _ => whole (f_data f)) idxs)
  | LIndexed =>
      bind (nd_at (n_shape (m_pos mt)) 0) (fun n0 =>
      if zmax_list idxs >=? n0 then Err E_OutOfBounds else mapM (indexed_slice (f_data f)) idxs)
  end.
Proof.
  intro Hne. unfold featureData_mtag_feat, taggedData_mtag. rewrite (all_or_nonempty mt idxs Hne). cbn [bind].
  destruct idxs as [|i0 rest]; [contradiction|]. destruct (f_link f); reflexivity.
Qed.

(** the extracted oracle for position index i and the model *)
Theorem mtag_meets_oracle_gen B mt a m i : conversions_meet_spec -> mtag_repaired B -> mtag_pinned_free B mt a m -> 0 <= i ->
  match spec_answer_mtag (incl_of m) mt a i with
  | Region oc => taggedData_mtag1 B mt i a m = Ok oc
  | Refuse => taggedData_mtag1 B mt i a m = Err E_OutOfBounds
  | Unconstrained => True
  end.
Proof.
  intros HC HB Hp Hi0. unfold spec_answer_mtag, mtag_array_dom.
  destruct (mtag_shape_ok mt (zlen (a_dims a))) eqn:Hs; [|exact I].
  destruct (1 <=? zlen (a_dims a)) eqn:Hn; [|exact I].
  destruct (dims_dom (a_dims a) (a_shape a)) eqn:Hd; [|exact I]. cbn [andb negb].
  apply Z.leb_le in Hn. assert (Hok : mtag_ok mt a) by (constructor; assumption).
  replace (i <? 0) with false by lia. cbn [orb].
  destruct (mtag_npos mt <=? i) eqn:Hi.
  - apply Z.leb_le in Hi. apply (mtag_index_oob_gen B mt a m HC HB Hok Hp i Hi0 Hi).
  - apply Z.leb_gt in Hi.
    destruct (spec_answer (incl_of m) a (mtag_wants mt a i)) as [[off cnt]| |] eqn:E; try exact I.
    + assert (Hio : mtag_index_ok mt a i).
      { split; [exact Hi0|]. intros _. unfold spec_answer in E. rewrite Hd in E.
        destruct (wants_dom (a_dims a) (mtag_wants mt a i)) eqn:Hw; [|rewrite andb_false_r in E; discriminate].
        split; [reflexivity|]. intro X. destruct (dims_dom_nth _ _ Hd) as [Lsh _].
        assert (Lw : List.length (mtag_wants mt a i) = List.length (a_dims a)).
        { unfold mtag_wants. rewrite Hs. cbn [negb]. apply wants_from_length. }
        apply (spec_dims_unconstrained (incl_of m) _ _ _ Lsh Lw) in X.
        replace (1 <=? zlen (a_dims a)) with true in E by lia. cbn [andb] in E. unfold spec_region in E. rewrite X in E. discriminate. }
      apply (mtag_exact_gen B mt a m HC HB Hok Hp i off cnt Hio). split; [lia|]. apply oracle_region. exact E.
    + assert (Hio : mtag_index_ok mt a i).
      { split; [exact Hi0|]. intros _. unfold spec_answer in E. rewrite Hd in E.
        destruct (wants_dom (a_dims a) (mtag_wants mt a i)) eqn:Hw; [|rewrite andb_false_r in E; discriminate].
        split; [reflexivity|]. intro X. destruct (dims_dom_nth _ _ Hd) as [Lsh _].
        assert (Lw : List.length (mtag_wants mt a i) = List.length (a_dims a)).
        { unfold mtag_wants. rewrite Hs. cbn [negb]. apply wants_from_length. }
        apply (spec_dims_unconstrained (incl_of m) _ _ _ Lsh Lw) in X.
        replace (1 <=? zlen (a_dims a)) with true in E by lia. cbn [andb] in E. unfold spec_region in E. rewrite X in E. discriminate. }
      pose proof (mtag_single B mt a m HC HB Hok Hp i Hio) as V.
      destruct (taggedData_mtag1 B mt i a m) as [[off cnt]|e|u]; cbn [single_verdict] in V.
      * destruct V as [_ R]. exfalso. exact (oracle_refuse _ _ _ E _ _ R).
      * destruct V as [-> _]. reflexivity.
      * contradiction.
Qed.

(* ------------------------------------------------------------------------------------------ *)
(** * the list-level oracles ([spec_mtag_views], [spec_mtag_offcnts]) and the model *)

Lemma array_dom_ok mt a : mtag_array_dom mt a = true -> mtag_ok mt a.
Proof.
  unfold mtag_array_dom. intro H. apply andb_true_iff in H. destruct H as [H H3]. apply andb_true_iff in H. destruct H as [H1 H2].
  apply Z.leb_le in H2. constructor; assumption.
Qed.

Lemma answers_constrained {A} : forall (l : list (answer A)), answers l <> Unconstrained ->
  forall x, In x l -> x <> Unconstrained.
Proof.
  induction l as [|y l IH]; intros H x Hx; [contradiction|]. cbn [answers] in H.
  destruct Hx as [<-|Hx].
  - intro E. rewrite E in H. apply H. reflexivity.
  - apply IH; [|exact Hx]. intro E. rewrite E in H. apply H. destruct y; reflexivity.
Qed.

Lemma view_constrained incl mt a i : spec_mtag_view incl mt a i <> Unconstrained ->
  spec_answer_mtag incl mt a i <> Unconstrained.
Proof. unfold spec_mtag_view, add_ids. intros H E. rewrite E in H. apply H. reflexivity. Qed.

(** an index the oracle judges is inside the statement *)
Lemma oracle_index_ok incl mt a i : mtag_array_dom mt a = true -> 0 <= i ->
  spec_answer_mtag incl mt a i <> Unconstrained -> mtag_index_ok mt a i.
Proof.
  intros Hdom Hi0 Hc. split; [exact Hi0|]. intro Hlt. unfold spec_answer_mtag in Hc. rewrite Hdom in Hc. cbn [negb] in Hc.
  replace ((i <? 0) || (mtag_npos mt <=? i)) with false in Hc by lia.
  unfold mtag_array_dom in Hdom. apply andb_true_iff in Hdom. destruct Hdom as [Hdom Hd]. apply andb_true_iff in Hdom. destruct Hdom as [Hs Hn].
  unfold spec_answer in Hc. rewrite Hn, Hd in Hc. cbn [andb] in Hc.
  destruct (wants_dom (a_dims a) (mtag_wants mt a i)) eqn:Hw; [|exfalso; apply Hc; reflexivity].
  split; [reflexivity|]. intro X. destruct (dims_dom_nth _ _ Hd) as [Lsh _].
  assert (Lw : List.length (mtag_wants mt a i) = List.length (a_dims a)).
  { unfold mtag_wants. rewrite Hs. cbn [negb]. apply wants_from_length. }
  apply (spec_dims_unconstrained incl _ _ _ Lsh Lw) in X. apply Hc. unfold spec_region. rewrite X. reflexivity.
Qed.

Definition strip (v : view3) : list Z * list Z := fst v.

Section ListOracle.
  Variable B : behaviour.
  Variable mt : mtag.
  Variable a : darray.
  Variable m : RangeMatch.
  Hypothesis HC : conversions_meet_spec.
  Hypothesis HB : mtag_repaired B.
  Hypothesis Hpin : mtag_pinned_free B mt a m.

  Lemma singles_meet_oracle : forall L, (forall i, In i L -> 0 <= i) ->
    match answers (map (spec_mtag_view (incl_of m) mt a) L) with
    | Region vs => mapM (fun i => taggedData_mtag1 B mt i a m) L = Ok (map strip vs)
    | Refuse => mapM (fun i => taggedData_mtag1 B mt i a m) L = Err E_OutOfBounds
    | Unconstrained => True
    end.
  Proof.
    induction L as [|i L IH]; intro Hi; [reflexivity|].
    specialize (IH (fun j Hj => Hi j (or_intror Hj))). cbn [map answers mapM].
    pose proof (mtag_meets_oracle_gen B mt a m i HC HB Hpin (Hi i (or_introl eq_refl))) as O.
    unfold spec_mtag_view at 1. unfold add_ids.
    destruct (spec_answer_mtag (incl_of m) mt a i) as [[off cnt]| |]; try exact I.
    - rewrite O. cbn [bind].
      destruct (answers (map (spec_mtag_view (incl_of m) mt a) L)) as [vs| |]; try exact I.
      + rewrite IH. reflexivity.
      + rewrite IH. reflexivity.
    - rewrite O. cbn [bind].
      destruct (answers (map (spec_mtag_view (incl_of m) mt a) L)); try exact I; reflexivity.
  Qed.

  (** taggedData for an index list (the empty list = all positions) answers what the list oracle answers *)
  Theorem mtag_views_meet_oracle_gen idxs : (forall i, In i idxs -> 0 <= i) ->
    match spec_mtag_views (incl_of m) mt a idxs with
    | Region vs => taggedData_mtag B mt idxs a m = Ok (map strip vs)
    | Refuse => taggedData_mtag B mt idxs a m = Err E_OutOfBounds
    | Unconstrained => True
    end.
  Proof.
    intro Hi. unfold spec_mtag_views. destruct (mtag_array_dom mt a) eqn:Hdom; [|exact I]. cbn [negb].
    pose proof (array_dom_ok mt a Hdom) as Hok.
    set (L := positions_or_all mt idxs).
    assert (HL : forall i, In i L -> 0 <= i).
    { intros i Hin. unfold L, positions_or_all in Hin. destruct idxs; [apply In_ziota in Hin; lia|apply Hi; exact Hin]. }
    pose proof (singles_meet_oracle L HL) as S.
    destruct (answers (map (spec_mtag_view (incl_of m) mt a) L)) as [vs| |] eqn:EA; try exact I.
    all: assert (Hio : forall i, In i L -> mtag_index_ok mt a i)
      by (intros i Hin; apply (oracle_index_ok (incl_of m) mt a i Hdom (HL i Hin)); apply view_constrained;
          apply (answers_constrained (map (spec_mtag_view (incl_of m) mt a) L)); [rewrite EA; discriminate|apply in_map; exact Hin]).
    all: assert (E : taggedData_mtag B mt idxs a m = mapM (fun i => taggedData_mtag1 B mt i a m) L)
      by (unfold L, positions_or_all in *; destruct idxs as [|i0 rest];
          [apply (mtag_all_positions_gen B mt a m HC HB Hok Hpin); intros i Hr; apply Hio; apply In_ziota; lia
          |apply (mtag_list_is_map_gen B mt a m HC HB Hok Hpin); [discriminate|exact Hio]]).
    all: rewrite E; exact S.
  Qed.
End ListOracle.

(** getOffsetAndCount on an empty index list: inside the domain the oracle says "no results" and so does the model;
    outside the domain (e.g. a range dimension with fewer ticks than elements) the oracle is silent *)
Theorem mtag_offcnts_empty_oracle mt a m :
  match spec_mtag_offcnts (incl_of m) mt a [] with
  | Region vs => vs = [] /\ getOffsetAndCount_mtag repaired_except_pinned mt a [] m = Ok []
  | Refuse => False
  | Unconstrained => mtag_array_dom mt a = false
  end.
Proof.
  unfold spec_mtag_offcnts. destruct (mtag_array_dom mt a) eqn:Hdom; [|reflexivity]. cbn [negb map answers].
  split; [reflexivity|]. apply mtag_empty_list_defined.
  unfold mtag_array_dom in Hdom. apply andb_true_iff in Hdom. apply Hdom.
Qed.

(** the data-frame dimension without a column index is the [None] case of the column-unit rule *)
Theorem frame_dim_unit_no_column n : frame_dim_unit None = getDimensionUnit (DFrame n).
Proof. reflexivity. Qed.
Theorem frame_dim_unit_never_empty c : frame_dim_unit c <> EmptyString.
Proof. unfold frame_dim_unit. destruct c as [[|a s]|]; cbn; discriminate. Qed.
