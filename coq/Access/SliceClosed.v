(** C17 - the slice theorems without assumed position->index hypotheses.

    SliceProofs.v states its theorems under [idx_spec d p] (the C07 statement for dimension d and position p).
    The C07 theorems are proved for all four descriptor kinds (Axis/SampledProofs.v, IntAxisProofs.v,
    RangeProofs.v); this file discharges [idx_spec] and [axis_ok] from a well-formedness condition on the
    descriptor ([dim_wf]) and a side condition on the position ([pos_ok]) - exactly the premises of those
    theorems, carried into the statements:
      sampled     finite offset, finite interval > 0, finite coordinates up to index 2^53 ([axis_finite])
      range       at most 2^53+1 ticks, finite, STRICTLY ascending
      set         at most 2^53 labels          position < 2^52
      data frame  at most 2^53 rows            position < 2^52
    (a set dimension without labels / a frame without rows is an integer axis of 2^53+1 coordinates). *)
From Coq Require Import ZArith Bool String List Reals Lia Lra.
From Flocq Require Import Core BinarySingleNaN.
Require Import NixV.Base.Prelude NixV.Base.F64 NixV.Base.F64Facts NixV.Gen.GenDimensions
               NixV.Axis.RangeModel NixV.Axis.AxisSpec NixV.Axis.SampledHand NixV.Axis.SampledProofs
               NixV.Axis.IntAxisProofs NixV.Axis.RangeProofs
               NixV.Data.NDIndex NixV.Data.NDArr
               NixV.Access.SliceSwitches NixV.Access.View NixV.Access.Slice NixV.Access.SliceSpec
               NixV.Access.SliceFacts NixV.Access.ViewProofs NixV.Access.SliceProofs.
Import ListNotations.
Local Open Scope Z_scope.

(** * Well-formed descriptors and admissible positions *)

Definition dim_wf (d : dim) : Prop :=
  match d with
  | DSampled dt off _ => finite (off_or0 off) /\ finite dt /\ (0 < B2R dt)%R /\ axis_finite dt (off_or0 off)
  | DRange ticks _ =>
      zlen ticks <= AXIS_MAX + 1 /\
      (forall i, 0 <= i < zlen ticks -> finite (tick_at ticks i)) /\
      (forall i j, 0 <= i < j -> j < zlen ticks -> (B2R (tick_at ticks i) < B2R (tick_at ticks j))%R)
  | DSet labels => zlen labels <= AXIS_MAX
  | DFrame rows => 0 <= rows <= AXIS_MAX
  end.

Definition pos_ok (d : dim) (p : F64) : Prop :=
  finite p /\ match d with
              | DSet _ => (B2R p < IZR P52)%R
              | DFrame _ => (B2R p < IZR P52)%R
              | _ => True
              end.

(** the C07 theorems, per descriptor kind *)
Theorem idx_spec_of_wf : forall d p, dim_wf d -> pos_ok d p -> idx_spec d p.
Proof.
  intros d p W [Fp Hp]. destruct d as [dt off u | ticks u | labels | rows]; cbn [dim_wf] in W.
  - destruct W as (Fo & Fd & Hd & Ha). apply sampled_idx_spec; assumption.
  - destruct W as (_ & Ft & Hs). intro m. cbn [dim_index dim_x dim_n].
    apply (range_index_spec ticks p Fp Ft Hs m).
  - intro m. cbn [dim_index dim_x dim_n]. apply set_index_spec; assumption.
  - intro m. cbn [dim_index dim_x dim_n]. apply df_index_spec; assumption.
Qed.

Theorem axis_ok_of_wf : forall d, dim_wf d -> axis_ok d.
Proof.
  intros d W. destruct d as [dt off u | ticks u | labels | rows]; cbn [dim_wf] in W.
  - destruct W as (Fo & Fd & Hd & Ha). apply sampled_axis_ok; assumption.
  - destruct W as (Hl & Ft & Hs). apply range_axis_ok; try assumption.
    intros i j Hij Hj. destruct (Z.eq_dec i j) as [->|Hne]; [lra|]. apply Rlt_le. apply Hs; lia.
  - apply int_axis_ok. left. exists labels. split; [reflexivity | lia].
  - apply int_axis_ok. right. exists rows. split; [reflexivity | lia].
Qed.

(** * Requests *)

Definition req_pos_ok (d : dim) (r : req) : Prop :=
  match r with
  | RFull => True
  | RInt s e _ => pos_ok d s /\ pos_ok d e
  end.

(** what the closed theorems ask of a request: nothing about the conversion functions *)
Record slice_wf (dims : list dim) (shape : list Z) (start end_ : list F64) (units : list unit_t) (rm : RangeMatch) : Prop := mkSliceWf {
  sw_rank : List.length dims = List.length shape;
  sw_shape : forall j n, nth_error shape j = Some n -> 1 <= n <= AXIS_MAX;
  sw_k : List.length start = List.length end_;
  sw_k_le : (List.length start <= List.length dims)%nat;
  sw_units : (List.length units <= List.length start)%nat;
  sw_dims : forall j d, nth_error dims j = Some d -> dim_wf d;
  (* unit prefixes are prefixes of the generated table *)
  sw_unit_prefix : forall j a, nth j units None = Some a -> In (fst a) known_prefixes;
  sw_dim_prefix : forall j d b, nth_error dims j = Some d -> dim_unit d = Some b -> In (fst b) known_prefixes;
  (* the positions, converted into the dimension's unit, are finite (and below 2^52 on set / data-frame dimensions) *)
  sw_pos : forall j d s e r, nth_error dims j = Some d -> nth_error start j = Some s -> nth_error end_ j = Some e ->
             spec_req d s e (nth j units None) rm = Ok r -> req_pos_ok d r
}.

Lemma slice_wf_hyps : forall dims shape start end_ units rm,
  slice_wf dims shape start end_ units rm -> slice_hyps dims shape start end_ units rm.
Proof.
  intros dims shape start end_ units rm [Hr Hs Hk Hkl Hu Hd Hup Hdp Hp].
  constructor; try assumption.
  - intros j d Ed. apply axis_ok_of_wf. eapply Hd; eassumption.
  - intros j d Ed. apply unit_ok_known.
    + intros a Ea. eapply Hup; eassumption.
    + intros b Eb. eapply Hdp; eassumption.
  - intros j d s e r Ed Es Ee SR. specialize (Hp j d s e r Ed Es Ee SR).
    destruct r as [|s' e' incl]; cbn [req_ok req_pos_ok] in *; [exact I|].
    destruct Hp as [P1 P2]. pose proof (Hd j d Ed) as W.
    split; [exact (proj1 P1)|]. split; [exact (proj1 P2)|].
    split; apply idx_spec_of_wf; assumption.
Qed.

(** * The slice theorems, closed *)

Theorem data_slice_meets_spec_closed : forall B dims shape start end_ units rm,
  slices_repaired B -> slice_wf dims shape start end_ units rm ->
  (pads_with_positions B = false \/ List.length start = List.length dims) ->
  match data_slice B dims shape start end_ units rm with
  | Ok v => spec_slice dims shape start end_ units rm = Ok (box_lists (v_offset v) (v_count v)) /\
            fits shape (v_offset v) (v_count v) = true
  | Err _ => exists e, spec_slice dims shape start end_ units rm = Err e
  | UB _ => False
  end.
Proof. intros B dims shape start end_ units rm HB W HP. apply data_slice_meets_spec; [exact HB | apply slice_wf_hyps; exact W | exact HP]. Qed.

Theorem slice_exact_closed : forall B dims shape start end_ units rm v,
  slices_repaired B -> slice_wf dims shape start end_ units rm ->
  (pads_with_positions B = false \/ List.length start = List.length dims) ->
  data_slice B dims shape start end_ units rm = Ok v ->
  fits shape (v_offset v) (v_count v) = true /\
  (forall j d n s e, nth_error dims j = Some d -> nth_error shape j = Some n ->
     nth_error start j = Some s -> nth_error end_ j = Some e ->
     exists r o c, spec_req d s e (nth j units None) rm = Ok r /\
       nth_error (v_offset v) j = Some o /\ nth_error (v_count v) j = Some c /\ 1 <= c /\
       (forall i, o <= i < o + c <-> region d n r i)) /\
  (forall j n, (List.length start <= j)%nat -> nth_error shape j = Some n ->
     nth_error (v_offset v) j = Some 0 /\ nth_error (v_count v) j = Some n).
Proof. intros B dims shape start end_ units rm v HB W HP H. apply (slice_exact_thm B dims shape start end_ units rm v HB (slice_wf_hyps _ _ _ _ _ _ W) HP H). Qed.

Theorem slice_oob_rejected_closed : forall B dims shape start end_ units rm j d n s e r,
  slices_repaired B -> slice_wf dims shape start end_ units rm ->
  (pads_with_positions B = false \/ List.length start = List.length dims) ->
  nth_error dims j = Some d -> nth_error shape j = Some n -> nth_error start j = Some s -> nth_error end_ j = Some e ->
  spec_req d s e (nth j units None) rm = Ok r ->
  ((forall i, ~ region d n r i) \/ (exists i, region d n r i /\ ~ (0 <= i < n))) ->
  exists err, data_slice B dims shape start end_ units rm = Err err.
Proof.
  intros B dims shape start end_ units rm j d n s e r HB W HP. apply slice_oob_rejected_thm; [exact HB | apply slice_wf_hyps; exact W | exact HP].
Qed.

(** the evaluator's Prop-level reading for a well-formed descriptor *)
Theorem spec_dim_exact_closed : forall d n s e incl,
  dim_wf d -> finite s -> finite e -> 0 <= n ->
  match spec_dim d n (RInt s e incl) with
  | Ok l => (forall i, In i l <-> region d n (RInt s e incl) i) /\ l <> [] /\
            (forall i, region d n (RInt s e incl) i -> 0 <= i < n)
  | Err _ => (forall i, ~ region d n (RInt s e incl) i) \/ (exists i, region d n (RInt s e incl) i /\ ~ (0 <= i < n))
  | UB _ => False
  end.
Proof. intros d n s e incl W. apply spec_dim_exact. apply axis_ok_of_wf. exact W. Qed.

(** * Unspecified dimensions in Inclusive mode, closed *)

(** the coordinate after the last element of the data is larger than the last element's (the property's premise
    x_0 < x_1 < ...; automatic for tick and integer axes, a premise for sampled axes, whose computed coordinates are
    only known not to decrease) *)
Definition end_strict (d : dim) (n : Z) : Prop :=
  n < dim_N d -> (B2R (dim_x d (n - 1)) < B2R (dim_x d n))%R.

Lemma end_strict_unsampled : forall d n, dim_wf d -> 1 <= n ->
  match d with DSampled _ _ _ => True | _ => end_strict d n end.
Proof.
  intros d n W Hn. destruct d as [dt off u | ticks u | labels | rows]; [exact I| | |]; unfold end_strict.
  - cbn [dim_wf dim_N dim_n dim_x] in *. destruct W as (_ & _ & Hs). intro H. apply Hs; lia.
  - intro H. pose proof (ax_small _ (axis_ok_of_wf _ W)) as S. unfold AXIS_MAX in S. cbn [dim_x]. unfold x_int.
    destruct (ofZ_exact (n - 1) ltac:(lia)) as [-> _]. destruct (ofZ_exact n ltac:(lia)) as [-> _]. apply IZR_lt. lia.
  - intro H. pose proof (ax_small _ (axis_ok_of_wf _ W)) as S. unfold AXIS_MAX in S. cbn [dim_x]. unfold x_int.
    destruct (ofZ_exact (n - 1) ltac:(lia)) as [-> _]. destruct (ofZ_exact n ltac:(lia)) as [-> _]. apply IZR_lt. lia.
Qed.

Lemma dim_N_sampled : forall dt off u, dim_N (DSampled dt off u) = AXIS_MAX + 1.
Proof. reflexivity. Qed.

Theorem pad_ok_of_wf : forall d shape j n s e,
  dim_wf d -> nth_error shape j = Some n -> 1 <= n <= dim_N d -> n <= P52 -> end_strict d n ->
  pad_start true d = Ok s -> pad_end true d shape j = Ok e -> pad_ok d n s e.
Proof.
  intros d shape j n s e W Hn Hb H52 HS Ps Pe.
  pose proof (axis_ok_of_wf d W) as AX.
  assert (Hb2 : 1 <= n < two64) by (unfold P52, two64 in *; lia).
  assert (CORE : finite s /\ finite e /\ (B2R s <= B2R (dim_x d 0))%R /\ e = dim_x d (n - 1) /\ pos_ok d s /\ pos_ok d e).
  { destruct d as [dt off u | ticks u | labels | rows].
    - cbn [dim_wf] in W. destruct W as (Fo & Fd & Hd & Ha).
      destruct (pad_values_sampled dt off u shape j n s e Fd Fo Ha Hn Hb2 Ps Pe) as [A1 A2].
      assert (Fs : finite s) by (cbn [pad_start negb] in Ps; inversion Ps; subst; exact Fo).
      assert (Fe : finite e).
      { rewrite A2. cbn [dim_x]. apply Ha. rewrite dim_N_sampled in Hb. unfold AXIS_MAX, MAXI in *. lia. }
      repeat split; assumption.
    - destruct (pad_values_range ticks u shape j n s e Hn Hb2 Ps Pe) as (A1 & A2 & A3).
      cbn [dim_wf] in W. destruct W as (_ & Ft & _). cbn [dim_N dim_n dim_x] in *.
      assert (Fs : finite s) by (rewrite A1; apply Ft; lia).
      assert (Fe : finite e) by (rewrite A2; apply Ft; lia).
      repeat split; try assumption. rewrite A1. lra.
    - destruct (pad_values_int (DSet labels) shape j n s e (or_introl (ex_intro _ labels eq_refl)) Hn
                  ltac:(unfold P52, AXIS_MAX in *; lia) Ps Pe) as [A1 A2].
      cbn [pad_start negb] in Ps. inversion Ps; subst s.
      cbn [dim_x] in *. unfold x_int in *.
      destruct (ofZ_exact (n - 1) ltac:(unfold P52 in *; lia)) as [E1 F1]. destruct (ofZ_exact 0 ltac:(lia)) as [E0 F0].
      assert (Fz : finite f64_zero) by reflexivity.
      rewrite A2. repeat split; try assumption; try (rewrite A1; lra).
      + rewrite A1, E0. apply IZR_lt. reflexivity.
      + rewrite E1. apply IZR_lt. lia.
    - destruct (pad_values_int (DFrame rows) shape j n s e (or_intror (ex_intro _ rows eq_refl)) Hn
                  ltac:(unfold P52, AXIS_MAX in *; lia) Ps Pe) as [A1 A2].
      cbn [pad_start negb] in Ps. inversion Ps; subst s.
      cbn [dim_x] in *. unfold x_int in *.
      destruct (ofZ_exact (n - 1) ltac:(unfold P52 in *; lia)) as [E1 F1]. destruct (ofZ_exact 0 ltac:(lia)) as [E0 F0].
      assert (Fz : finite f64_zero) by reflexivity.
      rewrite A2. repeat split; try assumption; try (rewrite A1; lra).
      + rewrite A1, E0. apply IZR_lt. reflexivity.
      + rewrite E1. apply IZR_lt. lia. }
  destruct CORE as (Fs & Fe & Hs & He & Os & Oe).
  constructor; try assumption; apply idx_spec_of_wf; assumption.
Qed.

(** slice_unspecified_full_inclusive without assumed hypotheses: a well-formed descriptor that covers the data *)
Theorem unspecified_full_inclusive_closed : forall B dims shape start end_ units v j d n,
  slice_reads_argument_vectors B = false -> slice_point_snaps B = false -> pads_with_positions B = true ->
  (List.length start <= List.length dims)%nat -> (List.length end_ <= List.length dims)%nat ->
  (List.length units <= List.length dims)%nat ->
  data_slice B dims shape start end_ units RangeMatch_Inclusive = Ok v ->
  (List.length start <= j)%nat -> (List.length end_ <= j)%nat -> (List.length units <= j)%nat ->
  nth_error dims j = Some d -> nth_error shape j = Some n ->
  dim_wf d -> 1 <= n <= dim_N d -> n <= P52 -> end_strict d n ->
  nth_error (v_offset v) j = Some 0 /\ nth_error (v_count v) j = Some n.
Proof.
  intros B dims shape start end_ units v j d n HA HP Hpp L1 L2 L3 H J1 J2 J3 Hd Hn W Hb H52 HS.
  apply (unspecified_full_inclusive B dims shape start end_ units v j d n HA HP Hpp L1 L2 L3 H J1 J2 J3 Hd Hn (axis_ok_of_wf d W)).
  intros s e Ps Pe. apply (pad_ok_of_wf d shape j n s e W Hn Hb H52 HS Ps Pe).
Qed.

(** * C18: rescaling invariance for requests with fewer entries than dimensions *)

(** with the argument vectors out of use, the loop body does not depend on them *)
Lemma slice_dim_args : forall B rm d sa ea sa' ea' s e u,
  slice_reads_argument_vectors B = false ->
  slice_dim B rm d sa ea s e u = slice_dim B rm d sa' ea' s e u.
Proof. intros. unfold slice_dim. rewrite H. reflexivity. Qed.

(** the padding appended by fillPositionsExtentsAndUnits depends on the lengths of the given vectors only *)
Lemma fill_same_suffix : forall pp ds shape i st en un st' en' un',
  List.length st = List.length st' -> List.length en = List.length en' -> List.length un = List.length un' ->
  match fill pp ds shape i st en un, fill pp ds shape i st' en' un' with
  | Ok (ms, me, mu), Ok (ms', me', mu') =>
      exists ps pe pu, ms = st ++ ps /\ ms' = st' ++ ps /\ me = en ++ pe /\ me' = en' ++ pe /\ mu = un ++ pu /\ mu' = un' ++ pu
  | Err a, Err b => a = b
  | UB a, UB b => a = b
  | _, _ => False
  end.
Proof.
  intros pp ds shape. induction ds as [|d ds IH]; intros i st en un st' en' un' Ls Le Lu.
  - cbn [fill]. exists [], [], []. rewrite !app_nil_r. repeat split; reflexivity.
  - cbn [fill]. rewrite <- Ls, <- Le, <- Lu.
    destruct (List.length st <=? i)%nat eqn:Cs; destruct (List.length en <=? i)%nat eqn:Ce.
    + destruct (pad_start pp d) as [x|a|a]; cbn [bind]; [|reflexivity|reflexivity].
      destruct (pad_end pp d shape i) as [y|a|a]; cbn [bind]; [|reflexivity|reflexivity].
      specialize (IH (S i) (st ++ [x]) (en ++ [y]) (if (List.length un <=? i)%nat then un ++ [dim_unit d] else un)
                     (st' ++ [x]) (en' ++ [y]) (if (List.length un <=? i)%nat then un' ++ [dim_unit d] else un')).
      lapply IH; [clear IH; intro IH|rewrite !app_length; cbn [List.length]; lia].
      lapply IH; [clear IH; intro IH|rewrite !app_length; cbn [List.length]; lia].
      lapply IH; [clear IH; intro IH|destruct (List.length un <=? i)%nat; rewrite ?app_length; cbn [List.length]; lia].
      destruct (fill pp ds shape (S i) (st ++ [x]) (en ++ [y]) _) as [[[ms me] mu]|a|a];
        destruct (fill pp ds shape (S i) (st' ++ [x]) (en' ++ [y]) _) as [[[ms' me'] mu']|b|b]; try exact IH.
      destruct IH as (ps & pe & pu & -> & -> & -> & -> & E5 & E6).
      destruct (List.length un <=? i)%nat.
      * exists (x :: ps), (y :: pe), (dim_unit d :: pu). rewrite <- !app_assoc in *. cbn [app] in *. subst. repeat split; reflexivity.
      * exists (x :: ps), (y :: pe), pu. rewrite <- !app_assoc. cbn [app]. subst. repeat split; reflexivity.
    + destruct (pad_start pp d) as [x|a|a]; cbn [bind]; [|reflexivity|reflexivity].
      specialize (IH (S i) (st ++ [x]) en (if (List.length un <=? i)%nat then un ++ [dim_unit d] else un)
                     (st' ++ [x]) en' (if (List.length un <=? i)%nat then un' ++ [dim_unit d] else un')).
      lapply IH; [clear IH; intro IH|rewrite !app_length; cbn [List.length]; lia].
      lapply IH; [clear IH; intro IH|lia].
      lapply IH; [clear IH; intro IH|destruct (List.length un <=? i)%nat; rewrite ?app_length; cbn [List.length]; lia].
      destruct (fill pp ds shape (S i) (st ++ [x]) en _) as [[[ms me] mu]|a|a];
        destruct (fill pp ds shape (S i) (st' ++ [x]) en' _) as [[[ms' me'] mu']|b|b]; try exact IH.
      destruct IH as (ps & pe & pu & -> & -> & -> & -> & E5 & E6).
      destruct (List.length un <=? i)%nat.
      * exists (x :: ps), pe, (dim_unit d :: pu). rewrite <- !app_assoc in *. cbn [app] in *. subst. repeat split; reflexivity.
      * exists (x :: ps), pe, pu. rewrite <- !app_assoc. cbn [app]. subst. repeat split; reflexivity.
    + cbn [bind].
      destruct (pad_end pp d shape i) as [y|a|a]; cbn [bind]; [|reflexivity|reflexivity].
      specialize (IH (S i) st (en ++ [y]) (if (List.length un <=? i)%nat then un ++ [dim_unit d] else un)
                     st' (en' ++ [y]) (if (List.length un <=? i)%nat then un' ++ [dim_unit d] else un')).
      lapply IH; [clear IH; intro IH|lia].
      lapply IH; [clear IH; intro IH|rewrite !app_length; cbn [List.length]; lia].
      lapply IH; [clear IH; intro IH|destruct (List.length un <=? i)%nat; rewrite ?app_length; cbn [List.length]; lia].
      destruct (fill pp ds shape (S i) st (en ++ [y]) _) as [[[ms me] mu]|a|a];
        destruct (fill pp ds shape (S i) st' (en' ++ [y]) _) as [[[ms' me'] mu']|b|b]; try exact IH.
      destruct IH as (ps & pe & pu & -> & -> & -> & -> & E5 & E6).
      destruct (List.length un <=? i)%nat.
      * exists ps, (y :: pe), (dim_unit d :: pu). rewrite <- !app_assoc in *. cbn [app] in *. subst. repeat split; reflexivity.
      * exists ps, (y :: pe), pu. rewrite <- !app_assoc. cbn [app]. subst. repeat split; reflexivity.
    + cbn [bind].
      specialize (IH (S i) st en (if (List.length un <=? i)%nat then un ++ [dim_unit d] else un)
                     st' en' (if (List.length un <=? i)%nat then un' ++ [dim_unit d] else un')).
      lapply IH; [clear IH; intro IH|lia].
      lapply IH; [clear IH; intro IH|lia].
      lapply IH; [clear IH; intro IH|destruct (List.length un <=? i)%nat; rewrite ?app_length; cbn [List.length]; lia].
      destruct (fill pp ds shape (S i) st en _) as [[[ms me] mu]|a|a];
        destruct (fill pp ds shape (S i) st' en' _) as [[[ms' me'] mu']|b|b]; try exact IH.
      destruct IH as (ps & pe & pu & -> & -> & -> & -> & E5 & E6).
      destruct (List.length un <=? i)%nat.
      * exists ps, pe, (dim_unit d :: pu). rewrite <- !app_assoc in *. cbn [app] in *. subst. repeat split; reflexivity.
      * exists ps, pe, pu. subst. repeat split; reflexivity.
Qed.

(** RESCALE_INVARIANT for any number k <= rank of given positions (start, end and units of length k): the padding
    of the remaining dimensions is the same for both requests, the given dimensions are rescaled or identical *)
Theorem rescale_invariant_partial : forall B dims shape start end_ units start' end' units' rm,
  slice_reads_argument_vectors B = false -> slice_point_snaps B = false ->
  List.length start' = List.length start -> List.length end' = List.length end_ -> List.length units' = List.length units ->
  List.length end_ = List.length start -> List.length units = List.length start ->
  (forall j d s' e' u' s e u, nth_error dims j = Some d ->
     nth_error start' j = Some s' -> nth_error end' j = Some e' -> nth_error units' j = Some u' ->
     nth_error start j = Some s -> nth_error end_ j = Some e -> nth_error units j = Some u ->
     rescaled_dim d s' e' u' s e u) ->
  data_slice B dims shape start' end' units' rm = data_slice B dims shape start end_ units rm.
Proof.
  intros B dims shape start end_ units start' end' units' rm HA HP L1 L2 L3 Le Lu H.
  unfold data_slice. rewrite L1, L2, L3.
  destruct ((List.length dims <? List.length start)%nat || (List.length dims <? List.length end_)%nat
            || (List.length dims <? List.length units)%nat); [reflexivity|].
  set (F' := if (List.length start <? List.length dims)%nat || (List.length end_ <? List.length dims)%nat || (List.length units <? List.length dims)%nat
             then fill (pads_with_positions B) dims shape 0 start' end' units' else Ok (start', end', units')).
  set (F := if (List.length start <? List.length dims)%nat || (List.length end_ <? List.length dims)%nat || (List.length units <? List.length dims)%nat
            then fill (pads_with_positions B) dims shape 0 start end_ units else Ok (start, end_, units)).
  assert (SUF : match F', F with
                | Ok (ms', me', mu'), Ok (ms, me, mu) =>
                    exists ps pe pu, ms' = start' ++ ps /\ ms = start ++ ps /\ me' = end' ++ pe /\ me = end_ ++ pe /\
                                     mu' = units' ++ pu /\ mu = units ++ pu
                | Err a, Err b => a = b
                | UB a, UB b => a = b
                | _, _ => False
                end).
  { unfold F', F.
    destruct ((List.length start <? List.length dims)%nat || (List.length end_ <? List.length dims)%nat || (List.length units <? List.length dims)%nat).
    - apply fill_same_suffix; assumption.
    - exists [], [], []. rewrite !app_nil_r. repeat split; reflexivity. }
  destruct F' as [[[ms' me'] mu']|a|a]; destruct F as [[[ms me] mu]|b|b]; try contradiction; try (subst; reflexivity).
  destruct SUF as (ps & pe & pu & -> & -> & -> & -> & -> & ->). cbn [bind fst snd].
  rewrite !app_length, L1.
  rewrite (mapM_ext_in (slice_iter B rm dims shape start' end' (start' ++ ps) (end' ++ pe) (units' ++ pu))
                       (slice_iter B rm dims shape start end_ (start ++ ps) (end_ ++ pe) (units ++ pu))); [reflexivity|].
  intros j _. unfold slice_iter. rewrite L1, L2.
  destruct (negb (pads_with_positions B) && (List.length start <=? j)%nat && (List.length end_ <=? j)%nat); [reflexivity|].
  unfold get_dim. destruct (nth_error dims j) as [d|] eqn:Ed; cbn [bind]; [|reflexivity].
  unfold vec_at.
  destruct (Nat.ltb j (List.length start)) eqn:Ej.
  - (* a given dimension *)
    apply Nat.ltb_lt in Ej.
    rewrite !nth_error_app1 by lia.
    destruct (nth_error start' j) as [s'|] eqn:E1; [|apply nth_error_None in E1; lia].
    destruct (nth_error end' j) as [e'|] eqn:E2; [|apply nth_error_None in E2; lia].
    destruct (nth_error units' j) as [u'|] eqn:E3; [|apply nth_error_None in E3; lia].
    destruct (nth_error start j) as [s|] eqn:E4; [|apply nth_error_None in E4; lia].
    destruct (nth_error end_ j) as [e|] eqn:E5; [|apply nth_error_None in E5; lia].
    destruct (nth_error units j) as [u|] eqn:E6; [|apply nth_error_None in E6; lia].
    cbn [bind].
    destruct (H j d s' e' u' s e u Ed E1 E2 E3 E4 E5 E6) as [(-> & -> & ->) | (HU & -> & f & HF & Xs & Xe & Og & Oe)].
    + apply slice_dim_args. exact HA.
    + apply (rescale_invariant_dim B rm d _ _ _ _ s e s' e' u' f HA HP HU HF Xs Xe Og Oe).
  - (* a padded dimension: the same padding in both requests *)
    apply Nat.ltb_ge in Ej.
    rewrite !nth_error_app2 by lia. rewrite L1, L2, L3.
    destruct (nth_error ps (j - List.length start)) as [s|]; cbn [bind]; [|reflexivity].
    destruct (nth_error pe (j - List.length end_)) as [e|]; cbn [bind]; [|reflexivity].
    destruct (nth_error pu (j - List.length units)) as [u|]; cbn [bind]; [|reflexivity].
    apply slice_dim_args. exact HA.
Qed.

(** * Further routes of src/util/dataAccess.cpp *)

(** util::positionInData: the one-element box at the position lies in the data (for every u64 position) *)
Theorem position_in_data_spec : forall extent pos, all_u64 pos ->
  position_in_data extent pos = spec_pos_in_data extent pos.
Proof.
  unfold position_in_data, spec_pos_in_data.
  induction extent as [|e extent IH]; destruct pos as [|p pos]; intro U; try reflexivity.
  apply all_u64_cons in U. destruct U as [Hp U]. specialize (IH pos U).
  cbn [List.length Nat.eqb all_lt repeat fits] in *. rewrite <- IH.
  destruct (Nat.eqb (List.length extent) (List.length pos)); cbn [andb]; [|rewrite !andb_false_r; reflexivity].
  destruct (all_lt pos extent); rewrite ?andb_true_r, ?andb_false_r; [|reflexivity]. lia.
Qed.

(** the vector form of util::positionToIndex(..., const Dimension &) with one entry is the conversion dataSlice uses *)
Theorem position_to_index_pairs_one : forall d s e u rm,
  position_to_index_pairs d [s] [e] [u] rm = bind (position_to_index_pair d s e u rm) (fun r => Ok [r]).
Proof.
  intros d s e u rm. unfold position_to_index_pairs. destruct d; cbn [List.length Nat.eqb negb orb seq mapM nth];
    destruct (position_to_index_pair _ s e u rm); reflexivity.
Qed.

(** the three-argument dataSlice is the five-argument one with no units in Exclusive mode (by definition) *)
Theorem data_slice3_is_default : forall B dims shape start end_,
  data_slice3 B dims shape start end_ = data_slice B dims shape start end_ [] RangeMatch_Exclusive.
Proof. reflexivity. Qed.
