(** C17 model of nix::DataView (include/nix/DataView.hpp, src/DataView.cpp) on top of the C01 array
    model (Data/NDArr.v).  Definitions only; proofs in ViewProofs.v.

    A DataView is a window (offset, count) onto a DataArray.  Code path modelled statement for statement:
      DataView::DataView            rank checks, then  offset + count > array.dataExtent()  -> OutOfBounds
      DataView::transform_coordinates(cnt, off)
                                    !off:  cnt > count -> OutOfBounds;  return offset
                                    else:  cnt + off > count -> OutOfBounds;  return offset + off
      DataView::ioRead / ioWrite    real_count = count ? count : this->count; base = transform(...);
                                    array.getData / setData(dtype, data, real_count, base)
    NDSize arithmetic (include/nix/NDSize.hpp): [a + b] adds entry-wise in uint64 (wraps) and throws
    std::out_of_range when the ranks differ;  [a > b] is  !(a <= b) : true iff SOME entry of a exceeds b's,
    and throws IncompatibleDimensions when the ranks differ.  The additions are [u64_add] exactly where
    the C++ adds.  The switch [view_check_wraps] selects today's checks or the repaired per-dimension test
      off_d > count_d || cnt_d > count_d - off_d        (no addition that can wrap). *)
From Coq Require Import ZArith Bool String List.
Require Import NixV.Base.Prelude NixV.Data.NDIndex NixV.Data.NDArr NixV.Access.SliceSwitches.
Import ListNotations.
Local Open Scope string_scope.
Local Open Scope list_scope.
Local Open Scope bool_scope.
Local Open Scope Z_scope.

Definition oob : string := "nix::OutOfBounds".
Definition incompatible : string := "nix::IncompatibleDimensions".

(** NDSize operator+ *)
Fixpoint map2 {A B C} (f : A -> B -> C) (a : list A) (b : list B) : list C :=
  match a, b with
  | x :: a', y :: b' => f x y :: map2 f a' b'
  | _, _ => []
  end.

Definition nd_add (a b : list Z) : res (list Z) :=
  if Nat.eqb (List.length a) (List.length b) then Ok (map2 u64_add a b) else Err "std::out_of_range".

(** NDSize operator> : some entry of [a] is larger *)
Fixpoint any_gt (a b : list Z) : bool :=
  match a, b with
  | x :: a', y :: b' => (y <? x) || any_gt a' b'
  | _, _ => false
  end.

Definition nd_gt (a b : list Z) : res bool :=
  if Nat.eqb (List.length a) (List.length b) then Ok (any_gt a b) else Err incompatible.

(** the repaired window test: the box [off, off+cnt) leaves [0, limit) in some dimension *)
Fixpoint leaves (limit off cnt : list Z) : bool :=
  match limit, off, cnt with
  | l :: limit', o :: off', c :: cnt' => (l <? o) || (u64_sub l o <? c) || leaves limit' off' cnt'
  | _, _, _ => false
  end.

Record view := mkView { v_offset : list Z; v_count : list Z }.

(** DataView::DataView(da, count, offset); [extent] = array.dataExtent() *)
Definition mk_view (B : behaviour) (extent cnt off : list Z) : res view :=
  if negb (Nat.eqb (List.length off) (List.length extent)) then Err incompatible
  else if negb (Nat.eqb (List.length cnt) (List.length extent)) then Err incompatible
  else if view_check_wraps B then
    bind (nd_add off cnt) (fun s =>
    bind (nd_gt s extent) (fun g =>
    if g then Err oob else Ok (mkView off cnt)))
  else if leaves extent off cnt then Err oob else Ok (mkView off cnt).

(** DataView::transform_coordinates *)
Definition transform_coordinates (B : behaviour) (v : view) (cnt off : list Z) : res (list Z) :=
  match off with
  | [] => bind (nd_gt cnt (v_count v)) (fun g => if g then Err oob else Ok (v_offset v))
  | _ :: _ =>
      if view_check_wraps B then
        bind (nd_add cnt off) (fun s =>
        bind (nd_gt s (v_count v)) (fun g =>
        if g then Err oob else nd_add (v_offset v) off))
      else
        if negb (Nat.eqb (List.length cnt) (List.length (v_count v))) || negb (Nat.eqb (List.length off) (List.length (v_count v)))
        then Err oob
        else if leaves (v_count v) off cnt then Err oob
        else nd_add (v_offset v) off
  end.

Definition real_count (v : view) (cnt : list Z) : list Z :=
  match cnt with [] => v_count v | _ :: _ => cnt end.

(** HDF5 computes the end of a hyperslab, start + count, in 64 bits as well: a selection whose end is
    2^64 or more passes HDF5's own bound test and the transfer runs over the caller's buffer (observed:
    heap-buffer-overflow inside H5Dread).  Only a request that slipped through a wrapped window test gets here. *)
Fixpoint end_wraps (base cnt : list Z) : bool :=
  match base, cnt with
  | b :: base', c :: cnt' => (two64 <=? b + c) || end_wraps base' cnt'
  | _, _ => false
  end.

Definition hdf5_wrap_why : string := "hyperslab end beyond 2^64: HDF5's bound test wraps around".

(** DataView::ioRead with the array's own element type on an uncalibrated array:
    DataArray::getData -> DataArrayHDF5::read = [read_slab] (NDArr.v; argument order offset, count) *)
Definition view_read (B : behaviour) (v : view) (a : arr) (cnt off : list Z) : res (list V) :=
  let rc := real_count v cnt in
  bind (transform_coordinates B v rc off) (fun base =>
  if end_wraps base rc then UB hdf5_wrap_why else read_slab a base rc).

(** DataView::ioWrite.  The caller's buffer holds real_count.nelms() elements (the API's precondition);
    [gen k] is its k-th element.  The buffer is materialised only when HDF5 accepts the transfer
    (the same tests [write_slab] makes), so that huge refused counts need no buffer in the model either. *)
Definition view_write (B : behaviour) (v : view) (a : arr) (cnt off : list Z) (gen : nat -> V) : res arr :=
  let rc := real_count v cnt in
  bind (transform_coordinates B v rc off) (fun base =>
  if end_wraps base rc then UB hdf5_wrap_why else
  bind (slab_sel (a_shape a) base rc) (fun sel =>
    if negb (xfer_ok (a_shape a) (fst sel) (snd sel) rc) then Err h5error
    else write_slab false a base rc (map gen (seq 0 (Z.to_nat (prod rc)))))).

(** DataView::dataExtent() *)
Definition view_extent (v : view) : list Z := v_count v.

(** * The template entry points of include/nix/DataSet.hpp that take a VALUE and an offset

      template<typename T> void DataSet::getData(T &value, const NDSize &offset) const
          NDSize count = hydra.shape();  if (!count) count = NDSize(offset.size(), 1);
          getData(dtype, hydra.data(), count, offset);
      template<typename T> void DataSet::setData(const T &value, const NDSize &offset)
          NDSize shape = hydra.shape();  setData(dtype, hydra.data(), shape, offset);

    [vshape] = hydra.shape(): [] for a scalar value, [n] for a std::vector of n elements (include/nix/Hydra.hpp);
    [buf] = the number of elements the value holds (1 resp. n).  Neither template resizes the value.
    For a scalar and an empty offset the count stays EMPTY (setData: for every offset), which a DataView reads as
    "the whole window".  Repaired ([scalar_template_empty_count] off): a scalar value is a count of ones of the
    rank of the offset, or of dataExtent() when the offset is empty. *)
Definition scalar_count (extent_rank : nat) (off : list Z) : list Z :=
  repeat 1 (match off with [] => extent_rank | _ :: _ => List.length off end).

Definition tpl_get_count (B : behaviour) (extent_rank : nat) (vshape off : list Z) : list Z :=
  match vshape with
  | [] => if scalar_template_empty_count B then repeat 1 (List.length off) else scalar_count extent_rank off
  | _ :: _ => vshape
  end.

Definition tpl_set_count (B : behaviour) (extent_rank : nat) (vshape off : list Z) : list Z :=
  match vshape with
  | [] => if scalar_template_empty_count B then [] else scalar_count extent_rank off
  | _ :: _ => vshape
  end.

Definition value_overrun_read : string := "DataSet::getData(value, offset): more elements are written than the value holds".
Definition value_overrun_write : string := "DataSet::setData(value, offset): more elements are read than the value holds".

(** through a DataView: the transfer HDF5 accepted moves prod(real_count) elements to / from a buffer of [buf] *)
Definition view_get_value (B : behaviour) (v : view) (a : arr) (vshape : list Z) (buf : Z) (off : list Z) : res (list V) :=
  let cnt := tpl_get_count B (List.length (view_extent v)) vshape off in
  bind (view_read B v a cnt off) (fun vals => if buf <? zlen vals then UB value_overrun_read else Ok vals).

Definition view_set_value (B : behaviour) (v : view) (a : arr) (vshape : list Z) (buf : Z) (off : list Z) (gen : nat -> V) : res arr :=
  let cnt := tpl_set_count B (List.length (view_extent v)) vshape off in
  bind (view_write B v a cnt off gen) (fun a' => if buf <? prod (real_count v cnt) then UB value_overrun_write else Ok a').

(** the same calls on the DataArray itself (DataArray::ioRead / ioWrite -> read_slab / write_slab): the control.
    HDF5 compares the element counts of memory and file selection, so an empty count cannot overrun anything. *)
Definition arr_get_value (B : behaviour) (a : arr) (vshape : list Z) (buf : Z) (off : list Z) : res (list V) :=
  let cnt := tpl_get_count B (List.length (a_shape a)) vshape off in
  bind (read_slab a off cnt) (fun vals => if buf <? zlen vals then UB value_overrun_read else Ok vals).

Definition arr_set_value (B : behaviour) (a : arr) (vshape : list Z) (buf : Z) (off : list Z) (gen : nat -> V) : res arr :=
  let cnt := tpl_set_count B (List.length (a_shape a)) vshape off in
  if buf <? prod cnt then UB value_overrun_write
  else write_slab false a off cnt (map gen (seq 0 (Z.to_nat (prod cnt)))).

(** * Every template route of DataSet.hpp through a view, for every typed container

    The container kinds are the [route]s of Data/NDArr.v (Hydra data_traits: scalar, T[N], T[M][N], std::vector,
    std::valarray, boost::multi_array, nix::NDArray) with their [route_shape] and [route_resize] rules.  A container
    with extents [ext] holds [route_buf] elements.

      getData(T &value)                   resize(value, dataExtent()); getData(dtype, ptr, shape(value), {})
      getData(T &value, count, offset)    resize(value, count);        getData(dtype, ptr, count, offset)
      getData(T &value, offset)           (above: [view_get_value])
      setData(const T &value)             dataExtent(shape(value)) - DataView::dataExtent(const NDSize &) always throws
                                          std::runtime_error("Not allowed!"): a view cannot be resized, a whole-value
                                          write through the template is refused and nothing is written
      setData(const T &value, offset)     (above: [view_set_value])

    In the three-argument read an EMPTY count resizes the value to rank 0 (accepted by a scalar and by nix::NDArray:
    one element) and is then handed on; the view reads it as "the whole window".  Repaired ([tget3_empty_count] off):
    an empty count is one element, as in the two-argument template. *)
Definition route_buf (r : route) (ext : list Z) : Z :=
  match r with RScalar => 1 | _ => prod ext end.

Definition view_tgetall (B : behaviour) (v : view) (a : arr) (r : route) : res (list Z * list V) :=
  bind (route_resize r (view_extent v)) (fun ext =>
  bind (view_read B v a (route_shape r ext) []) (fun vals =>
  if route_buf r ext <? zlen vals then UB value_overrun_read else Ok (ext, vals))).

Definition tget3_count (B : behaviour) (extent_rank : nat) (cnt off : list Z) : list Z :=
  match cnt with
  | [] => if tget3_empty_count B then [] else scalar_count extent_rank off
  | _ :: _ => cnt
  end.

Definition view_tget3 (B : behaviour) (v : view) (a : arr) (r : route) (cnt off : list Z) : res (list Z * list V) :=
  bind (route_resize r cnt) (fun ext =>
  bind (view_read B v a (tget3_count B (List.length (view_extent v)) cnt off) off) (fun vals =>
  if route_buf r ext <? zlen vals then UB value_overrun_read else Ok (ext, vals))).

Definition view_tgetat (B : behaviour) (v : view) (a : arr) (r : route) (ext off : list Z) : res (list Z * list V) :=
  bind (view_get_value B v a (route_shape r ext) (route_buf r ext) off) (fun vals => Ok (ext, vals)).

Definition not_allowed : string := "std::runtime_error".

(** DataView::dataExtent(const NDSize &) *)
Definition view_set_extent (v : view) (sh : list Z) : res unit := Err not_allowed.

Definition view_tsetall (B : behaviour) (v : view) (a : arr) (r : route) (ext : list Z) (gen : nat -> V) : res arr :=
  bind (view_set_extent v (route_shape r ext)) (fun _ => Ok a).

Definition view_tset (B : behaviour) (v : view) (a : arr) (r : route) (ext off : list Z) (gen : nat -> V) : res arr :=
  view_set_value B v a (route_shape r ext) (route_buf r ext) off gen.

(** the test array of the drivers: Int64, every cell holds its own flat row-major index *)
Definition id_array (shape : list Z) : arr :=
  mkArr TInt64 CNone shape (tab shape (fun i => VI (ravel shape i))) None None.

Definition gen_from (v0 : Z) (k : nat) : V := VI (v0 + Z.of_nat k).
