(** C17 model of nix::DataView (include/nix/DataView.hpp, src/DataView.cpp) on top of the C01 array
    model (Data/NDArr.v).  Definitions only; proofs in ViewProofs.v.

    A DataView is a window (offset, count) onto a DataArray.  Code path modelled statement for statement:
      DataView::DataView            rank checks, then  offset + count > array.dataExtent()  -> OutOfBounds
      DataView::transform_coordinates(cnt, off)
                                    !off:  cnt > count -> OutOfBounds;  return offset
                                    else:  cnt + off > count -> OutOfBounds;  return offset + off
      DataView::ioRead / ioWrite    real_count = count ? count : this->count; base = transform(...);
                                    array.getData / setData(dtype, data, real_count, base)
    NDSize arithmetic (include/nix/NDSize.hpp): [a + b] adds entry-wise in uint64 (wraps) and throws
    std::out_of_range when the ranks differ;  [a > b] is  !(a <= b) : true iff SOME entry of a exceeds b's,
    and throws IncompatibleDimensions when the ranks differ.  The additions are [u64_add] exactly where
    the C++ adds.  The switch [view_check_wraps] selects today's checks or the repaired per-dimension test
      off_d > count_d || cnt_d > count_d - off_d        (no addition that can wrap). *)
From Coq Require Import ZArith Bool String List.
Require Import NixV.Base.Prelude NixV.Data.NDIndex NixV.Data.NDArr NixV.Access.SliceSwitches.
Import ListNotations.
Local Open Scope string_scope.
Local Open Scope list_scope.
Local Open Scope bool_scope.
Local Open Scope Z_scope.

Definition oob : string := "nix::OutOfBounds".
Definition incompatible : string := "nix::IncompatibleDimensions".

(** NDSize operator+ *)
Fixpoint map2 {A B C} (f : A -> B -> C) (a : list A) (b : list B) : list C :=
  match a, b with
  | x :: a', y :: b' => f x y :: map2 f a' b'
  | _, _ => []
  end.

Definition nd_add (a b : list Z) : res (list Z) :=
  if Nat.eqb (List.length a) (List.length b) then Ok (map2 u64_add a b) else Err "std::out_of_range".

(** NDSize operator> : some entry of [a] is larger *)
Fixpoint any_gt (a b : list Z) : bool :=
  match a, b with
  | x :: a', y :: b' => (y <? x) || any_gt a' b'
  | _, _ => false
  end.

Definition nd_gt (a b : list Z) : res bool :=
  if Nat.eqb (List.length a) (List.length b) then Ok (any_gt a b) else Err incompatible.

(** the repaired window test: the box [off, off+cnt) leaves [0, limit) in some dimension *)
Fixpoint leaves (limit off cnt : list Z) : bool :=
  match limit, off, cnt with
  | l :: limit', o :: off', c :: cnt' => (l <? o) || (u64_sub l o <? c) || leaves limit' off' cnt'
  | _, _, _ => false
  end.

Record view := mkView { v_offset : list Z; v_count : list Z }.

(** DataView::DataView(da, count, offset); [extent] = array.dataExtent() *)
Definition mk_view (B : behaviour) (extent cnt off : list Z) : res view :=
  if negb (Nat.eqb (List.length off) (List.length extent)) then Err incompatible
  else if negb (Nat.eqb (List.length cnt) (List.length extent)) then Err incompatible
  else if view_check_wraps B then
    bind (nd_add off cnt) (fun s =>
    bind (nd_gt s extent) (fun g =>
    if g then Err oob else Ok (mkView off cnt)))
  else if leaves extent off cnt then Err oob else Ok (mkView off cnt).

(** DataView::transform_coordinates *)
Definition transform_coordinates (B : behaviour) (v : view) (cnt off : list Z) : res (list Z) :=
  match off with
  | [] => bind (nd_gt cnt (v_count v)) (fun g => if g then Err oob else Ok (v_offset v))
  | _ :: _ =>
      if view_check_wraps B then
        bind (nd_add cnt off) (fun s =>
        bind (nd_gt s (v_count v)) (fun g =>
        if g then Err oob else nd_add (v_offset v) off))
      else
        if negb (Nat.eqb (List.length cnt) (List.length (v_count v))) || negb (Nat.eqb (List.length off) (List.length (v_count v)))
        then Err oob
        else if leaves (v_count v) off cnt then Err oob
        else nd_add (v_offset v) off
  end.

Definition real_count (v : view) (cnt : list Z) : list Z :=
  match cnt with [] => v_count v | _ :: _ => cnt end.

(** HDF5 computes the end of a hyperslab, start + count, in 64 bits as well: a selection whose end is
    2^64 or more passes HDF5's own bound test and the transfer runs over the caller's buffer (observed:
    heap-buffer-overflow inside H5Dread).  Only a request that slipped through a wrapped window test gets here. *)
Fixpoint end_wraps (base cnt : list Z) : bool :=
  match base, cnt with
  | b :: base', c :: cnt' => (two64 <=? b + c) || end_wraps base' cnt'
  | _, _ => false
  end.

Definition hdf5_wrap_why : string := "hyperslab end beyond 2^64: HDF5's bound test wraps around".

(** DataView::ioRead with the array's own element type on an uncalibrated array:
    DataArray::getData -> DataArrayHDF5::read = [read_slab] (NDArr.v; argument order offset, count) *)
Definition view_read (B : behaviour) (v : view) (a : arr) (cnt off : list Z) : res (list V) :=
  let rc := real_count v cnt in
  bind (transform_coordinates B v rc off) (fun base =>
  if end_wraps base rc then UB hdf5_wrap_why else read_slab a base rc).

(** DataView::ioWrite.  The caller's buffer holds real_count.nelms() elements (the API's precondition);
    [gen k] is its k-th element.  The buffer is materialised only when HDF5 accepts the transfer
    (the same tests [write_slab] makes), so that huge refused counts need no buffer in the model either. *)
Definition view_write (B : behaviour) (v : view) (a : arr) (cnt off : list Z) (gen : nat -> V) : res arr :=
  let rc := real_count v cnt in
  bind (transform_coordinates B v rc off) (fun base =>
  if end_wraps base rc then UB hdf5_wrap_why else
  bind (slab_sel (a_shape a) base rc) (fun sel =>
    if negb (xfer_ok (a_shape a) (fst sel) (snd sel) rc) then Err h5error
    else write_slab false a base rc (map gen (seq 0 (Z.to_nat (prod rc)))))).

(** DataView::dataExtent() *)
Definition view_extent (v : view) : list Z := v_count v.

(** the test array of the drivers: Int64, every cell holds its own flat row-major index *)
Definition id_array (shape : list Z) : arr :=
  mkArr TInt64 CNone shape (tab shape (fun i => VI (ravel shape i))) None None.

Definition gen_from (v0 : Z) (k : nat) : V := VI (v0 + Z.of_nat k).
