(** C06 — MultiTag retrieval: the three phases of getOffsetAndCount(MultiTag ...) (row read + padding,
    batched conversion per dimension, per-index assembly) reduce, for every position index of the list,
    to the clean per-dimension conversion of RetrievalAxis.v; the verdicts are assembled by
    RetrievalAssemble.v.  Retrieval for an index list is judged index by index, which makes it the list of
    the single retrievals. *)
From Coq Require Import ZArith Bool String List Reals Lia Lra.
From Flocq Require Import Core BinarySingleNaN.
Require Import NixV.Base.Prelude NixV.Base.F64 NixV.Base.F64Facts NixV.Gen.GenDimensions NixV.Gen.GenTables.
Require Import NixV.Axis.RangeModel NixV.Axis.AxisSpec.
Require Import NixV.Access.Retrieval NixV.Access.RetrievalSpec NixV.Access.RetrievalFacts NixV.Access.RetrievalAxis
               NixV.Access.RetrievalDomain NixV.Access.RetrievalAssemble NixV.Access.RetrievalTag.
Import ListNotations.
Local Open Scope list_scope.
Local Open Scope Z_scope.

(* ------------------------------------------------------------------------------------------ *)
(** * the batched conversion of one dimension (phase 2) *)

(** scalePositions on a column: every entry carries the same unit, so the scaling is the same throughout *)
Lemma scale_column (u : string) (d : dimd) du sc :
  (d = DSampled (match d with DSampled dt _ _ => dt | _ => fzero end) (match d with DSampled _ o _ => o | _ => None end) du \/
   d = DRange (match d with DRange t _ => t | _ => [] end) du) ->
  spec_scaling u d = Some sc ->
  forall (col : list rowent),
  (forall en, In en col -> finite (e_start en) /\ finite (e_end en)) ->
  scalePositions (map e_start col) (map e_end col) (map (fun _ => u) col) (dim_unit_str du) =
  Ok (map (fun en => scaled sc (e_start en)) col, map (fun en => scaled sc (e_end en)) col).
Proof.
  intros Hd Hsc.
  assert (Hs : spec_scaling u d = (if is_none_unit u then Some None
                                   else match du with None => None
                                        | Some dus => match getSIScaling u dus with Ok k => Some (Some k) | _ => None end end)).
  { destruct Hd as [-> | ->]; reflexivity. }
  rewrite Hs in Hsc.
  induction col as [|en col IH]; intros Hfin; [reflexivity|].
  cbn [map scalePositions].
  destruct (Hfin en (or_introl eq_refl)) as [Fs Fe].
  assert (Hfin' : forall en', In en' col -> finite (e_start en') /\ finite (e_end en')) by (intros; apply Hfin; right; assumption).
  destruct (is_none_unit u) eqn:Eu.
  - injection Hsc as <-. cbn [negb andb bind].
    rewrite (IH Hfin'). cbn [bind fst snd scaled]. rewrite !fmul_one by assumption. reflexivity.
  - destruct du as [dus|]; [|discriminate]. destruct (getSIScaling u dus) as [k| |] eqn:Ek; try discriminate.
    injection Hsc as <-. destruct (scaling_not_none _ _ _ Ek) as [Nd _]. cbn [dim_unit_str] in IH |- *. rewrite Nd. cbn [negb andb].
    unfold scaling_or_incompatible. rewrite Ek. cbn [bind].
    rewrite (IH Hfin'). reflexivity.
Qed.

Lemma indexOf_vec_column d m (f g : rowent -> F64) : forall col,
  indexOf_vec d m (map f col) (map g col) = mapM (fun en => indexOf_pair d m (f en) (g en)) col.
Proof.
  intro col. unfold indexOf_vec. unfold zlen. rewrite !map_length, Z.eqb_refl. cbn [negb].
  induction col as [|en col IH]; [reflexivity|]. cbn [map indexOf_pairs mapM]. rewrite IH. reflexivity.
Qed.

(** the vector overload on a column = the pair conversion of every entry, in order *)
Lemma pti_vec_column (col : list rowent) (u : string) (m : RangeMatch) (d : dimd) sc :
  spec_scaling u d = Some sc ->
  (forall en, In en col -> finite (e_start en) /\ finite (e_end en)) ->
  positionToIndex_vec (map e_start col) (map e_end col) (map (fun _ => u) col) m d =
  mapM (fun en => indexOf_pair d m (scaled sc (e_start en)) (scaled sc (e_end en))) col.
Proof.
  intros Hsc Hfin.
  destruct d as [dt off du|ticks du|n|n]; cbn [positionToIndex_vec].
  - unfold zlen. rewrite !map_length, Z.eqb_refl. cbn [negb orb].
    rewrite (scale_column u (DSampled dt off du) du sc (or_introl eq_refl) Hsc col Hfin). cbn [bind fst snd].
    apply indexOf_vec_column.
  - unfold zlen. rewrite !map_length, Z.eqb_refl. cbn [negb orb].
    rewrite (scale_column u (DRange ticks du) du sc (or_intror eq_refl) Hsc col Hfin). cbn [bind fst snd].
    apply indexOf_vec_column.
  - cbn [spec_scaling] in Hsc. injection Hsc as <-. unfold zlen. rewrite !map_length, Z.eqb_refl. cbn [negb scaled].
    apply indexOf_vec_column.
  - cbn [spec_scaling] in Hsc. injection Hsc as <-. unfold zlen. rewrite !map_length, Z.eqb_refl. cbn [negb scaled].
    apply indexOf_vec_column.
Qed.

(** a loop whose iterations all succeed *)
Lemma mapM_all_ok {A B} (f : A -> res B) : forall l, (forall x, In x l -> exists r, f x = Ok r) ->
  exists rs, mapM f l = Ok rs /\ forall j x, nth_error l j = Some x -> exists r, nth_error rs j = Some r /\ f x = Ok r.
Proof.
  induction l as [|a l IH]; intro H.
  - exists []. split; [reflexivity|]. intros j x Hj. destruct j; discriminate.
  - destruct (H a (or_introl eq_refl)) as (r & Er). destruct (IH (fun x Hx => H x (or_intror Hx))) as (rs & E & Hn).
    exists (r :: rs). cbn [mapM]. rewrite Er, E. split; [reflexivity|].
    intros j x Hj. destruct j as [|j]; [cbn in Hj; injection Hj as <-; exists r; split; [reflexivity|exact Er]|].
    apply Hn. exact Hj.
Qed.

(* ------------------------------------------------------------------------------------------ *)
(** * one dimension of the per-index assembly (phase 3) is the clean conversion *)

Definition mtag_repaired (B : behaviour) : Prop :=
  pad_end_is_last B = true /\ mt_point_sets_data_offset B = true /\ mt_invalid_range_throws B = true /\
  mt_point_by_extent B = true /\ mt_empty_guard B = true.

Lemma mtag_dim_clean B rankP shape i k d sh u sc ent m r :
  mtag_repaired B -> (pad_index_range B && negb (e_spec ent)) = false ->
  axis_ok d sh -> spec_scaling u d = Some sc ->
  finite (e_end ent) -> finite (scaled sc (e_end ent)) -> conv_dom d (scaled sc (e_end ent)) ->
  indexOf_pair d m (scaled sc (e_start ent)) (scaled sc (e_end ent)) = Ok r ->
  mtag_dim B rankP shape i k d u r ent =
  clean_dim d m (scaled sc (e_start ent)) (scaled sc (e_end ent)) (e_point ent) (scaled sc (e_end ent)).
Proof.
  intros (H1 & H2 & H3 & H4 & H5) Hp A Hsc Fe Fse De Er. unfold mtag_dim, clean_dim. rewrite Hp, Er. cbn [bind].
  destruct r as [[a b]|]; [reflexivity|]. rewrite H4, H2, H3.
  destruct (e_point ent); [|reflexivity].
  rewrite (pti_one _ u d sc Hsc Fe).
  destruct (ax_conv d sh A _ GE Fse De) as (ro & Ero & _). rewrite Ero. cbn [bind]. destruct ro; reflexivity.
Qed.

(** a dimension the positions specify: entry (o, o (+) e, e == 0, specified) *)
Lemma mtag_specified_facts B rankP shape i k d sh units o eo m :
  mtag_repaired B -> axis_ok d sh ->
  let w := want_of units (Z.to_nat k) d (Some o) eo in
  let e := match eo with Some e => e | None => fzero end in
  let u := unit_of units (Z.to_nat k) d in
  let ent := mkEnt o (fadd o e) (feq e fzero) true in
  w <> WNoSpec -> want_dom d w = true ->
  exists sc, spec_scaling u d = Some sc /\ finite (e_start ent) /\ finite (e_end ent) /\
    (exists r, indexOf_pair d m (scaled sc (e_start ent)) (scaled sc (e_end ent)) = Ok r) /\
    (forall r, indexOf_pair d m (scaled sc (e_start ent)) (scaled sc (e_end ent)) = Ok r ->
               decides d sh (incl_of m) w (mtag_dim B rankP shape i k d u r ent)).
Proof.
  intros HB A w e u ent Hw Hd. subst w. unfold want_of in *. fold u in Hw, Hd |- *.
  destruct (spec_scaling u d) as [sc|] eqn:Hsc; [|contradiction]. exists sc. split; [reflexivity|].
  cbn [e_start e_end] in *.
  assert (Hpad : (pad_index_range B && negb (e_spec ent)) = false) by (cbn [e_spec ent negb]; apply andb_false_r).
  (* finiteness and conversion domain of the scaled start / end *)
  assert (Core : finite o /\ finite (fadd o e) /\ finite (scaled sc o) /\ conv_dom d (scaled sc o) /\
                 finite (scaled sc (fadd o e)) /\ conv_dom d (scaled sc (fadd o e)) /\
                 (feq e fzero = true -> B2R (scaled sc (fadd o e)) = B2R (scaled sc o))).
  { assert (Point : feq e fzero = true -> want_dom d (WPoint (scaled sc o)) = true ->
              finite o /\ finite (fadd o e) /\ finite (scaled sc o) /\ conv_dom d (scaled sc o) /\
              finite (scaled sc (fadd o e)) /\ conv_dom d (scaled sc (fadd o e)) /\
              (feq e fzero = true -> B2R (scaled sc (fadd o e)) = B2R (scaled sc o))).
    { intros Pt Hd'. cbn [want_dom] in Hd'. destruct (want_ok _ _ Hd') as [Fs Ds].
      pose proof (scaled_finite_inv _ _ Fs) as Fo. destruct (fadd_zero o e Fo Pt) as [Epe Fpe].
      assert (X : finite (scaled sc (fadd o e)) /\ B2R (scaled sc (fadd o e)) = B2R (scaled sc o)).
      { destruct sc as [kk|]; cbn [scaled] in *.
        - destruct (fmul_finite_inv _ _ Fs) as [_ Fk]. apply (fmul_ext o (fadd o e) kk Fo Fpe Fk (eq_sym Epe) Fs).
        - split; assumption. }
      destruct X as [Fe' Ee']. repeat split; try assumption.
      - apply (conv_dom_ext d (scaled sc o)); [symmetry; exact Ee'|exact Ds].
      - intros _. exact Ee'. }
    subst e. destruct eo as [e0|].
    - destruct (feq e0 fzero) eqn:Pt; [apply Point; [reflexivity|exact Hd]|].
      cbn [want_dom] in Hd. apply andb_true_iff in Hd. destruct Hd as [Hd1 Hd2].
      destruct (want_ok _ _ Hd1) as [Fs Ds]. destruct (want_ok _ _ Hd2) as [Fe De].
      repeat split; try assumption; try discriminate; [apply (scaled_finite_inv _ _ Fs)|apply (scaled_finite_inv _ _ Fe)].
    - apply Point; [|exact Hd]. destruct fzero_R as [_ Fz]. apply (feq_true _ _ Fz Fz). reflexivity. }
  destruct Core as (Fo & Fpe & Fs & Ds & Fe & De & Eq).
  split; [exact Fo|]. split; [exact Fpe|].
  destruct (indexOf_pair_eval d sh m _ _ A Fs Fe Ds De) as (si & ei & _ & _ & Ev).
  split; [eexists; exact Ev|].
  intros r Er.
  rewrite (mtag_dim_clean B rankP shape i k d sh u sc ent m r HB Hpad A Hsc Fpe Fe De Er).
  cbn [e_start e_end e_point ent].
  destruct eo as [e0|]; subst e.
  - destruct (feq e0 fzero) eqn:Pt.
    + apply clean_point_decides; try assumption; try (apply Eq; reflexivity).
    + apply clean_range_decides; assumption.
  - replace (feq fzero fzero) with true by (symmetry; destruct fzero_R as [_ Fz]; apply (feq_true _ _ Fz Fz); reflexivity).
    apply clean_point_decides; try assumption; apply Eq; destruct fzero_R as [_ Fz]; apply (feq_true _ _ Fz Fz); reflexivity.
Qed.

Lemma pad_conv_dom d sh : dim_dom d sh = true -> conv_dom d (coord d 0) /\ conv_dom d (coord d (sh - 1)).
Proof.
  intro H. destruct (dim_dom_bounds d sh H) as [[H1 H2] H3].
  destruct d; cbn [conv_dom coord]; try (split; exact I).
  - destruct (x_int_R 0 ltac:(unfold AXIS_MAX; lia)) as [-> _].
    destruct (x_int_R (sh - 1) ltac:(unfold AXIS_MAX, P52 in *; lia)) as [-> _]. split; apply IZR_lt; unfold P52 in *; lia.
  - destruct (x_int_R 0 ltac:(unfold AXIS_MAX; lia)) as [-> _].
    destruct (x_int_R (sh - 1) ltac:(unfold AXIS_MAX, P52 in *; lia)) as [-> _]. split; apply IZR_lt; unfold P52 in *; lia.
Qed.

(** a dimension the positions do not specify: entry (first coordinate, last coordinate, point, unspecified) *)
Lemma mtag_padded_facts B rankP shape i k d sh m :
  mtag_repaired B -> axis_ok d sh -> dim_dom d sh = true -> nth_error shape k = Some sh ->
  let ent := mkEnt (coord d 0) (coord d (sh - 1)) true false in
  finite (e_start ent) /\ finite (e_end ent) /\
  (exists r, indexOf_pair d m (e_start ent) (e_end ent) = Ok r) /\
  (forall r, indexOf_pair d m (e_start ent) (e_end ent) = Ok r ->
             pad_index_range B = true \/ m = RangeMatch_Inclusive ->
             decides d sh (incl_of m) WAll (mtag_dim B rankP shape i (Z.of_nat k) d "none" r ent)).
Proof.
  intros HB A Hdom Hsh ent. cbn [e_start e_end ent].
  destruct (dim_dom_bounds d sh Hdom) as [[H1 H2] H3]. destruct (pad_conv_dom d sh Hdom) as [D0 D1].
  assert (F0 : finite (coord d 0)) by (apply (ax_fin d sh A); lia).
  assert (F1 : finite (coord d (sh - 1))) by (apply (ax_fin d sh A); lia).
  split; [exact F0|]. split; [exact F1|].
  destruct (indexOf_pair_eval d sh m _ _ A F0 F1 D0 D1) as (si & ei & _ & _ & Ev).
  split; [eexists; exact Ev|].
  intros r Er Hm. assert (Hsh53 : 1 <= sh <= AXIS_MAX + 1) by (unfold P52, AXIS_MAX in *; lia).
  destruct (pad_index_range B) eqn:Ep.
  - unfold mtag_dim. rewrite Ep. cbn [e_spec ent negb andb]. rewrite (nd_at_nth _ _ _ Hsh). cbn [bind].
    apply decides_all. exact Hsh53.
  - destruct Hm as [Hm|Hm]; [discriminate|]. subst m.
    assert (Hnone : spec_scaling "none" d = Some None) by (destruct d; reflexivity).
    rewrite (mtag_dim_clean B rankP shape i (Z.of_nat k) d sh "none" None ent RangeMatch_Inclusive r HB
               ltac:(rewrite Ep; reflexivity) A Hnone F1 F1 D1 Er).
    cbn [scaled e_start e_end e_point ent]. rewrite (clean_pad_inclusive d sh _ A D0 D1). apply decides_all. exact Hsh53.
Qed.

(* ------------------------------------------------------------------------------------------ *)
(** * reading a row of the positions / extents array (phase 1) *)

Lemma flat_map_singleton {A B} (g : A -> B) l : flat_map (fun x => [g x]) l = map g l.
Proof. induction l as [|a l IH]; [reflexivity|]. cbn. rewrite IH. reflexivity. Qed.

Lemma nd_read_1d nd N i : n_shape nd = [N] -> 0 <= i ->
  nd_read nd [i] [1] = [nth (Z.to_nat i) (n_data nd) f64_nan].
Proof.
  intros Hs Hi. unfold nd_read. rewrite Hs. cbn [box_indices]. change (ziota 1) with [0]. cbn [flat_map map app ravel].
  do 2 f_equal. lia.
Qed.

Lemma nd_read_2d nd N C i w : n_shape nd = [N; C] -> 0 <= i ->
  nd_read nd [i; 0] [1; w] = map (fun j => nth (Z.to_nat (i * C + j)) (n_data nd) f64_nan) (ziota w).
Proof.
  intros Hs Hi. unfold nd_read. rewrite Hs. cbn [box_indices]. change (ziota 1) with [0]. cbn [flat_map].
  rewrite app_nil_r. rewrite (flat_map_singleton (fun b => [0 + b])). rewrite !map_map.
  apply map_ext. intro j. cbn [ravel]. do 2 f_equal. lia.
Qed.

Lemma row_entries_nth B sp : forall os es i0 k o e,
  nth_error os k = Some o -> nth_error es k = Some e ->
  nth_error (row_entries B sp i0 os es) k =
  Some (mkEnt o (if pad_end_is_last B && negb (i0 + Z.of_nat k <? sp) then e else fadd o e)
              (negb (i0 + Z.of_nat k <? sp) || feq e fzero) (i0 + Z.of_nat k <? sp)).
Proof.
  induction os as [|o0 os IH]; intros es i0 k o e Ho He; [destruct k; discriminate|].
  destruct es as [|e0 es]; [destruct k; discriminate|]. cbn [row_entries].
  destruct k as [|k].
  - cbn in Ho, He. injection Ho as <-. injection He as <-. cbn [nth_error]. replace (i0 + Z.of_nat 0) with i0 by lia. reflexivity.
  - cbn [nth_error] in *. rewrite (IH es (i0 + 1) k o e Ho He).
    replace (i0 + 1 + Z.of_nat k) with (i0 + Z.of_nat (S k)) by lia. reflexivity.
Qed.

Lemma row_entries_length B sp : forall os es i0, List.length os = List.length es ->
  List.length (row_entries B sp i0 os es) = List.length os.
Proof.
  induction os as [|o os IH]; intros [|e es] i0 H; cbn in *; try lia. f_equal. apply IH. lia.
Qed.

(* ------------------------------------------------------------------------------------------ *)
(** * verdict on the retrieval for a list of position indices *)

(** the region of position index i: the index must exist *)
Definition mtag_region (incl : bool) (mt : mtag) (a : darray) (i : Z) (off cnt : list Z) : Prop :=
  0 <= i < mtag_npos mt /\ region_is incl (a_dims a) (a_shape a) (mtag_wants mt a i) off cnt.

(** all views or nothing: the views are the regions of the indices, in order; an error is out-of-bounds
    and some index of the list has no region (not a position, empty, or outside the data) *)
Definition list_verdict (incl : bool) (mt : mtag) (a : darray) (idxs : list Z) (r : res (list (list Z * list Z))) : Prop :=
  match r with
  | Ok vs => Forall2 (fun i v => mtag_region incl mt a i (fst v) (snd v)) idxs vs
  | Err e => e = E_OutOfBounds /\ exists i, In i idxs /\ forall off cnt, ~ mtag_region incl mt a i off cnt
  | UB _ => False
  end.

(** outcome of the per-index assembly before the bound check *)
Definition row_ok (incl : bool) (ds : list dimd) (shs : list Z) (ws : list want) (r : res (list Z * list Z)) : Prop :=
  match r with
  | Ok oc => region_verdict incl ds shs ws (checked_view shs oc)
  | Err e => e = E_OutOfBounds /\ forall off cnt, ~ region_is incl ds shs ws off cnt
  | UB _ => False
  end.

Lemma loop_row_ok {A} incl (f : Z -> A -> res (Z * Z)) l ds shs ws :
  loop_decides incl f 0 ds shs ws l ->
  row_ok incl ds shs ws (bind (mapMi f 0 l) (fun ocs => Ok (map fst ocs, map snd ocs))).
Proof.
  intro H. pose proof (loop_runs incl f l 0 ds shs ws H) as R.
  destruct (mapMi f 0 l) as [ocs|e|u]; cbn [bind row_ok].
  - apply results_verdict. exact R.
  - exact R.
  - exact R.
Qed.

(** first every index is assembled, then every result is bound-checked: the outcome is judged index by index *)
Lemma two_phase incl mt a (F : Z -> list rowent -> res (list Z * list Z)) (rowf : Z -> list rowent) :
  forall idxs j0,
  (forall j i, nth_error idxs j = Some i ->
               0 <= i < mtag_npos mt /\
               row_ok incl (a_dims a) (a_shape a) (mtag_wants mt a i) (F (j0 + Z.of_nat j) (rowf i))) ->
  list_verdict incl mt a idxs (bind (mapMi F j0 (map rowf idxs)) (mapM (checked_view (a_shape a)))).
Proof.
  induction idxs as [|i idxs IH]; intros j0 H.
  - cbn. constructor.
  - destruct (H O i eq_refl) as [Hi R0]. replace (j0 + Z.of_nat 0) with j0 in R0 by lia.
    assert (H' : forall j i', nth_error idxs j = Some i' ->
              0 <= i' < mtag_npos mt /\ row_ok incl (a_dims a) (a_shape a) (mtag_wants mt a i') (F (j0 + 1 + Z.of_nat j) (rowf i'))).
    { intros j i' Hj. replace (j0 + 1 + Z.of_nat j) with (j0 + Z.of_nat (S j)) by lia. apply (H (S j)). exact Hj. }
    specialize (IH (j0 + 1) H'). cbn [map mapMi].
    destruct (F j0 (rowf i)) as [oc|e|u]; cbn [bind row_ok] in *.
    + destruct (mapMi F (j0 + 1) (map rowf idxs)) as [ocs|e|u]; cbn [bind] in *.
      * cbn [mapM]. destruct (checked_view (a_shape a) oc) as [[off cnt]|e|u]; cbn [bind region_verdict] in *.
        -- destruct (mapM (checked_view (a_shape a)) ocs) as [vs|e|u]; cbn [bind list_verdict] in *.
           ++ constructor; [split; [exact Hi|exact R0]|exact IH].
           ++ destruct IH as (-> & i' & Hin & Hno). split; [reflexivity|]. exists i'. split; [right; exact Hin|exact Hno].
           ++ exact IH.
        -- destruct R0 as [-> R0]. split; [reflexivity|]. exists i. split; [left; reflexivity|].
           intros off cnt [_ R]. exact (R0 _ _ R).
        -- exact R0.
      * destruct IH as (-> & i' & Hin & Hno). split; [reflexivity|]. exists i'. split; [right; exact Hin|exact Hno].
      * exact IH.
    + destruct R0 as [-> R0]. split; [reflexivity|]. exists i. split; [left; reflexivity|].
      intros off cnt [_ R]. exact (R0 _ _ R).
    + exact R0.
Qed.

Lemma zmax_list_ge l N : (zmax_list l >=? N) = true -> 0 < N -> exists i, In i l /\ N <= i.
Proof.
  induction l as [|x l IH]; cbn [zmax_list fold_right]; intros H HN; [lia|].
  fold (zmax_list l) in *. destruct (Z_le_gt_dec N x) as [Hx|Hx].
  - exists x. split; [left; reflexivity|exact Hx].
  - destruct IH as (i & Hi & Hn); [lia|exact HN|]. exists i. split; [right; exact Hi|exact Hn].
Qed.

Lemma zmax_list_lt l N : (zmax_list l >=? N) = false -> forall i, In i l -> i < N.
Proof.
  induction l as [|x l IH]; cbn [zmax_list fold_right]; intros H i Hi; [contradiction|].
  fold (zmax_list l) in *. destruct Hi as [<-|Hi]; [lia|]. apply IH; [lia|exact Hi].
Qed.

(* ------------------------------------------------------------------------------------------ *)
(** * set-up of the row reads *)

Lemma zlist_eqb_eq : forall a b, zlist_eqb a b = true -> a = b.
Proof.
  induction a as [|x a IH]; intros [|y b] H; cbn in H; try discriminate; [reflexivity|].
  apply andb_true_iff in H. destruct H as [H1 H2]. apply Z.eqb_eq in H1. subst y. f_equal. apply IH. exact H2.
Qed.

Lemma mtag_setup mt n : mtag_shape_ok mt n = true -> 1 <= n ->
  exists N tc, nd_at (n_shape (m_pos mt)) 0 = Ok N /\ N = mtag_npos mt /\ 0 <= N /\
    mtag_temp_count (n_shape (m_pos mt)) n = Ok tc /\
    1 <= mtag_width mt n /\ zlen (m_units mt) <= mtag_width mt n /\
    (forall ex, m_ext mt = Some ex -> n_shape ex = n_shape (m_pos mt)) /\
    forall nd i, n_shape nd = n_shape (m_pos mt) -> 0 <= i ->
      nd_read nd (list_set (zrepeat 0 (zlen (n_shape (m_pos mt)))) 0 i) tc = row_of nd n i /\
      List.length (row_of nd n i) = Z.to_nat (mtag_width mt n).
Proof.
  unfold mtag_shape_ok, mtag_width, mtag_npos, mtag_temp_count. intros H Hn.
  apply andb_true_iff in H. destruct H as [H Hu]. apply andb_true_iff in H. destruct H as [Hs He].
  assert (Hext : forall ex, m_ext mt = Some ex -> n_shape ex = n_shape (m_pos mt)).
  { intros ex E. rewrite E in He. apply zlist_eqb_eq. exact He. }
  destruct (n_shape (m_pos mt)) as [|N [|C [|? ?]]] eqn:Es; try discriminate.
  - (* 1-D positions on one-dimensional data *)
    apply andb_true_iff in Hs. destruct Hs as [Hn1 HN]. apply Z.leb_le in Hn1, HN, Hu.
    replace (n >? 1) with false by lia. exists N, [1]. cbn [zlen List.length Z.of_nat].
    split; [reflexivity|]. split; [reflexivity|]. split; [lia|]. split; [reflexivity|]. split; [lia|]. split; [lia|]. split; [exact Hext|].
    intros nd i Hnd Hi. unfold row_of. rewrite Hnd. split; [|reflexivity].
      change (list_set (zrepeat 0 (Z.pos 1)) 0 i) with [i]. apply (nd_read_1d nd N i Hnd Hi).
  - (* N x C positions *)
    apply andb_true_iff in Hs. destruct Hs as [HN HC]. apply Z.leb_le in HN, HC, Hu.
    destruct (n >? 1) eqn:En.
    + exists N, [1; C]. cbn [zlen List.length Z.of_nat].
      split; [reflexivity|]. split; [reflexivity|]. split; [lia|]. split; [reflexivity|]. split; [lia|]. split; [lia|]. split; [exact Hext|].
      intros nd i Hnd Hi. unfold row_of. rewrite Hnd, En. split.
      * change (list_set (zrepeat 0 (Z.pos 2)) 0 i) with [i; 0]. apply (nd_read_2d nd N C i C Hnd Hi).
      * rewrite map_length, ziota_length. reflexivity.
    + exists N, [1; 1]. cbn [zlen List.length Z.of_nat].
      split; [reflexivity|]. split; [reflexivity|]. split; [lia|]. split; [reflexivity|]. split; [lia|]. split; [lia|]. split; [exact Hext|].
      intros nd i Hnd Hi. unfold row_of. rewrite Hnd, En. split.
      * change (list_set (zrepeat 0 (Z.pos 2)) 0 i) with [i; 0]. apply (nd_read_2d nd N C i 1 Hnd Hi).
      * reflexivity.
Qed.

(* ------------------------------------------------------------------------------------------ *)
(** * the MultiTag theorem *)

Definition mtag_pinned_free (B : behaviour) (mt : mtag) (a : darray) (m : RangeMatch) : Prop :=
  pad_index_range B = true \/ m = RangeMatch_Inclusive \/ zlen (a_dims a) <= mtag_width mt (zlen (a_dims a)).

Section MTag.
  Variable B : behaviour.
  Variable mt : mtag.
  Variable a : darray.
  Variable m : RangeMatch.
  Hypothesis HC : conversions_meet_spec.
  Hypothesis HB : mtag_repaired B.
  Hypothesis Hdims : dims_dom (a_dims a) (a_shape a) = true.
  Hypothesis Hn : 1 <= zlen (a_dims a).
  Hypothesis Hshape : mtag_shape_ok mt (zlen (a_dims a)) = true.
  Hypothesis Hpin : mtag_pinned_free B mt a m.

  Let ds := a_dims a.
  Let shs := a_shape a.
  Let n := zlen ds.
  Let W := mtag_width mt n.
  Let units' := m_units mt ++ zrepeat "none"%string (n - zlen (m_units mt)).
  Let rankP := zlen (n_shape (m_pos mt)).

  (** the k-th unit of the padded units vector is what the specification takes for entry k *)
  Lemma units'_nth k d : (k < List.length ds)%nat ->
    nth k units' "none"%string = unit_of units' k d /\ (W <= Z.of_nat k -> nth k units' "none"%string = "none"%string).
  Proof.
    intro Hk. destruct (mtag_setup mt n Hshape Hn) as (N & tc & _ & _ & _ & _ & HW1 & HWu & _).
    fold W in HW1, HWu.
    assert (L : (k < List.length units')%nat).
    { unfold units'. rewrite app_length, zrepeat_length. unfold n, zlen in *. lia. }
    split.
    - unfold unit_of. rewrite (nth_error_nth' units' "none"%string L).
      destruct units' as [|u0 us] eqn:E; [cbn in L; lia|]. reflexivity.
    - intro HWk. unfold units'. rewrite app_nth2 by (unfold zlen in *; lia).
      apply nth_repeat.
  Qed.

  (** everything phase 2 and phase 3 need to know about the row of one position index *)
  Lemma row_facts mx tc i ipos :
    0 <= i ->
    (List.length mx = List.length ds /\
     forall k d sh, nth_error ds k = Some d -> nth_error shs k = Some sh -> nth_error mx k = Some (coord d 0, coord d (sh - 1))) ->
    (forall nd i, n_shape nd = n_shape (m_pos mt) -> 0 <= i ->
        nd_read nd (list_set (zrepeat 0 rankP) 0 i) tc = row_of nd n i /\ List.length (row_of nd n i) = Z.to_nat W) ->
    wants_dom ds (mtag_wants mt a i) = true -> ~ In WNoSpec (mtag_wants mt a i) ->
    let row := mtag_row B mt n mx tc rankP i in
    List.length row = List.length ds /\
    forall k d sh, nth_error ds k = Some d -> nth_error shs k = Some sh ->
      exists ent w sc, nth_error row k = Some ent /\ nth_error (mtag_wants mt a i) k = Some w /\
        spec_scaling (nth k units' "none"%string) d = Some sc /\
        finite (e_start ent) /\ finite (e_end ent) /\
        (exists r, indexOf_pair d m (scaled sc (e_start ent)) (scaled sc (e_end ent)) = Ok r) /\
        (forall r, indexOf_pair d m (scaled sc (e_start ent)) (scaled sc (e_end ent)) = Ok r ->
             decides d sh (incl_of m) w
               (mtag_dim B rankP shs ipos (Z.of_nat k) d (nth k units' "none"%string) r ent)).
  Proof.
    intros Hi [Lmx Nmx] Hread Hwd Hws row.
    destruct (dims_dom_nth _ _ Hdims) as [Lsh Ndom]. fold ds shs in Lsh, Ndom.
    destruct (mtag_setup mt n Hshape Hn) as (N & tc' & _ & _ & _ & _ & HW1 & HWu & Hext & _). fold W in HW1, HWu.
    (* the two rows *)
    set (prow := row_of (m_pos mt) n i).
    destruct (Hread (m_pos mt) i eq_refl Hi) as [Rp Lp]. fold prow in Rp, Lp.
    set (erow := match m_ext mt with Some ex => row_of ex n i | None => zrepeat fzero (zlen prow) end).
    assert (Le : List.length erow = Z.to_nat W).
    { unfold erow. destruct (m_ext mt) as [ex|] eqn:Ee.
      - apply (Hread ex i (Hext ex eq_refl) Hi).
      - rewrite zrepeat_length. unfold zlen. lia. }
    assert (Erow : row = row_entries B (Z.min (zlen prow) n) 0
                     (firstn (Z.to_nat n) (prow ++ map fst (skipn (List.length prow) mx)))
                     (firstn (Z.to_nat n) (erow ++ map snd (skipn (List.length prow) mx)))).
    { unfold row, mtag_row. rewrite Rp. fold prow. unfold erow.
      destruct (m_ext mt) as [ex|] eqn:Ee; [rewrite (proj1 (Hread ex i (Hext ex eq_refl) Hi))|]; reflexivity. }
    set (sp := Z.min (zlen prow) n) in *.
    set (os := firstn (Z.to_nat n) (prow ++ map fst (skipn (List.length prow) mx))) in *.
    set (es := firstn (Z.to_nat n) (erow ++ map snd (skipn (List.length prow) mx))) in *.
    assert (Lds : List.length ds = Z.to_nat n) by (unfold n, zlen; lia).
    assert (Lskip : List.length (skipn (List.length prow) mx) = (Z.to_nat n - Z.to_nat W)%nat) by (rewrite skipn_length, Lmx, Lp; lia).
    assert (Los : List.length os = Z.to_nat n) by (unfold os; rewrite firstn_length, app_length, map_length, Lskip, Lp; lia).
    assert (Les : List.length es = Z.to_nat n) by (unfold es; rewrite firstn_length, app_length, map_length, Lskip, Le; lia).
    split; [rewrite Erow, row_entries_length by lia; lia|].
    (* the wants of the specification *)
    assert (Ewants : mtag_wants mt a i = wants_from units' 0 ds prow
                       (match m_ext mt with Some ex => Some (row_of ex n i) | None => None end)).
    { unfold mtag_wants. rewrite Hshape. reflexivity. }
    intros k d sh Hd Hs.
    assert (Hkn : (k < Z.to_nat n)%nat) by (rewrite <- Lds; apply nth_error_Some; congruence).
    pose proof (Ndom k d sh Hd Hs) as Hdom. pose proof (dim_dom_axis_ok d sh HC Hdom) as A.
    destruct (units'_nth k d ltac:(lia)) as [Eu Enone].
    assert (Hwk : exists w, nth_error (mtag_wants mt a i) k = Some w).
    { destruct (nth_error (mtag_wants mt a i) k) eqn:E; [eexists; reflexivity|].
      apply nth_error_None in E. rewrite Ewants, wants_from_length in E. lia. }
    destruct Hwk as (w & Hw). exists (match nth_error row k with Some e => e | None => no_entry end), w.
    pose proof Hw as Hw0. rewrite Ewants in Hw0.
    destruct (nth_error_wants_from units' ds 0 prow _ k w Hw0) as (d' & Hd' & Ew). rewrite Hd in Hd'. injection Hd' as <-.
    cbn [Nat.add] in Ew.
    destruct (Z_lt_le_dec (Z.of_nat k) W) as [HkW|HkW].
    - (* specified by the positions *)
      assert (Ho : exists o, nth_error prow k = Some o) by (destruct (nth_error prow k) eqn:E; [eexists; reflexivity|apply nth_error_None in E; lia]).
      destruct Ho as (o & Ho).
      assert (He : exists e, nth_error erow k = Some e) by (destruct (nth_error erow k) eqn:E; [eexists; reflexivity|apply nth_error_None in E; lia]).
      destruct He as (e & He).
      assert (Hos : nth_error os k = Some o).
      { unfold os. rewrite nth_error_firstn. replace (k <? Z.to_nat n)%nat with true by (symmetry; apply Nat.ltb_lt; lia).
        rewrite nth_error_app1 by lia. exact Ho. }
      assert (Hes : nth_error es k = Some e).
      { unfold es. rewrite nth_error_firstn. replace (k <? Z.to_nat n)%nat with true by (symmetry; apply Nat.ltb_lt; lia).
        rewrite nth_error_app1 by lia. exact He. }
      assert (Hsp : (0 + Z.of_nat k <? sp) = true) by (unfold sp, zlen; rewrite Lp; lia).
      pose proof (row_entries_nth B sp os es 0 k o e Hos Hes) as Hent. rewrite Hsp in Hent.
      destruct HB as (HB1 & _). rewrite HB1 in Hent. cbn [negb andb orb] in Hent.
      rewrite Erow, Hent.
      set (eo := match m_ext mt with Some ex => nth_error (row_of ex n i) k | None => None end).
      assert (Eeo : e = match eo with Some x => x | None => fzero end).
      { unfold eo, erow in *. destruct (m_ext mt) as [ex|].
        - rewrite He. reflexivity.
        - rewrite nth_error_zrepeat in He by (unfold zlen; lia). congruence. }
      assert (Ew' : w = want_of units' (Z.to_nat (Z.of_nat k)) d (Some o) eo).
      { rewrite Nat2Z.id. rewrite Ew, Ho. unfold eo. destruct (m_ext mt); reflexivity. }
      assert (Hw' : w <> WNoSpec) by (intro X; apply Hws; rewrite <- X; apply (nth_error_In _ _ Hw)).
      pose proof (wants_dom_nth _ _ Hwd k d w Hd Hw) as Hwdk.
      pose proof (mtag_specified_facts B rankP shs ipos (Z.of_nat k) d sh units' o eo m HB A) as SF.
      cbv zeta in SF. rewrite <- Ew', <- Eeo in SF. rewrite Nat2Z.id in SF. rewrite <- Eu in SF.
      destruct (SF Hw' Hwdk) as (sc & Hsc & F1 & F2 & Hr & Hdec).
      exists sc. split; [reflexivity|]. split; [exact Hw|]. split; [exact Hsc|]. split; [exact F1|]. split; [exact F2|].
      split; [exact Hr|exact Hdec].
    - (* not specified: padded with (first, last coordinate) *)
      assert (Ho : nth_error prow k = None) by (apply nth_error_None; lia).
      rewrite Ho in Ew. cbn [want_of] in Ew. subst w.
      assert (Hmxk := Nmx k d sh Hd Hs).
      assert (Hos : nth_error os k = Some (coord d 0)).
      { unfold os. rewrite nth_error_firstn. replace (k <? Z.to_nat n)%nat with true by (symmetry; apply Nat.ltb_lt; lia).
        rewrite nth_error_app2 by lia. rewrite nth_error_map, nth_error_skipn.
        replace (List.length prow + (k - List.length prow))%nat with k by lia. rewrite Hmxk. reflexivity. }
      assert (Hes : nth_error es k = Some (coord d (sh - 1))).
      { unfold es. rewrite nth_error_firstn. replace (k <? Z.to_nat n)%nat with true by (symmetry; apply Nat.ltb_lt; lia).
        rewrite nth_error_app2 by lia. rewrite nth_error_map, nth_error_skipn. rewrite Le, <- Lp.
        replace (List.length prow + (k - List.length prow))%nat with k by lia. rewrite Hmxk. reflexivity. }
      assert (Hsp : (0 + Z.of_nat k <? sp) = false) by (unfold sp, zlen; rewrite Lp; lia).
      pose proof (row_entries_nth B sp os es 0 k _ _ Hos Hes) as Hent. rewrite Hsp in Hent.
      destruct HB as (HB1 & HBrest). rewrite HB1 in Hent. cbn [negb andb orb] in Hent.
      rewrite Erow, Hent. rewrite (Enone HkW).
      assert (HB' : mtag_repaired B) by (split; assumption).
      destruct (mtag_padded_facts B rankP shs ipos k d sh m HB' A Hdom Hs) as (F1 & F2 & Hr & Hdec).
      exists None. split; [reflexivity|]. split; [exact Hw|].
      split; [destruct d; reflexivity|]. split; [exact F1|]. split; [exact F2|]. cbn [scaled].
      split; [exact Hr|]. intros r Er. apply Hdec; [exact Er|].
      destruct Hpin as [Hp|[Hp|Hp]]; [left; exact Hp|right; exact Hp|]. exfalso. fold ds n W in Hp. lia.
  Qed.
End MTag.

Section MTagList.
  Variable B : behaviour.
  Variable mt : mtag.
  Variable a : darray.
  Variable m : RangeMatch.
  Hypothesis HC : conversions_meet_spec.
  Hypothesis HB : mtag_repaired B.
  Hypothesis Hdims : dims_dom (a_dims a) (a_shape a) = true.
  Hypothesis Hn : 1 <= zlen (a_dims a).
  Hypothesis Hshape : mtag_shape_ok mt (zlen (a_dims a)) = true.
  Hypothesis Hpin : mtag_pinned_free B mt a m.

  (** the requests of the listed position indices that exist are inside the statement *)
  Definition indices_ok (idxs : list Z) : Prop :=
    forall i, In i idxs -> 0 <= i /\
      (i < mtag_npos mt -> wants_dom (a_dims a) (mtag_wants mt a i) = true /\ ~ In WNoSpec (mtag_wants mt a i)).

  Theorem mtag_list_verdict idxs : idxs <> [] -> indices_ok idxs ->
    list_verdict (incl_of m) mt a idxs
      (bind (getOffsetAndCount_mtag B mt a idxs m) (mapM (checked_view (a_shape a)))).
  Proof.
    intros Hne Hidx.
    set (ds := a_dims a) in *. set (shs := a_shape a) in *. set (n := zlen ds) in *.
    destruct (dims_dom_nth _ _ Hdims) as [Lsh Ndom].
    destruct (maximumExtents_ok a Hdims) as (mx & Emx & Lmx & Nmx). fold ds shs in Lmx, Nmx.
    destruct (mtag_setup mt n Hshape Hn) as (N & tc & EN & HNp & HN0 & Etc & HW1 & HWu & Hext & Hread).
    unfold getOffsetAndCount_mtag. fold ds n. replace (0 <? n) with true by lia. rewrite Emx. cbn [bind].
    destruct idxs as [|i0 rest]; [contradiction|]. clear Hne. cbv iota.
    set (idxs := i0 :: rest) in *. assert (Eidx : idxs = i0 :: rest) by reflexivity.
    rewrite EN. cbn [bind].
    destruct (zmax_list idxs >=? N) eqn:Emax.
    - (* some index is not a position *)
      cbn [bind list_verdict]. split; [reflexivity|].
      assert (Hex : exists i, In i idxs /\ N <= i).
      { destruct (Z.eq_dec N 0) as [->|HNz].
        - exists i0. split; [rewrite Eidx; left; reflexivity|]. apply (Hidx i0). rewrite Eidx. left. reflexivity.
        - apply zmax_list_ge; [exact Emax|lia]. }
      destruct Hex as (i & Hi & HiN). exists i. split; [exact Hi|]. intros off cnt [Hr _]. lia.
    - pose proof (zmax_list_lt idxs N Emax) as Hlt.
      replace (match m_ext mt with
               | Some ex => bind (nd_at (n_shape ex) 0) (fun en => Ok (zmax_list idxs >=? en))
               | None => Ok false end) with (@Ok bool false)
        by (destruct (m_ext mt) as [ex|] eqn:Ee; [rewrite (Hext ex eq_refl), EN; cbn [bind]; rewrite Emax|]; reflexivity).
      cbn [bind]. rewrite Etc. cbn [bind].
      set (rankP := zlen (n_shape (m_pos mt))).
      set (units' := m_units mt ++ zrepeat "none"%string (n - zlen (m_units mt))).
      set (rowf := mtag_row B mt n mx tc rankP).
      (* facts about every listed row *)
      assert (RF : forall i ipos, In i idxs ->
                let row := rowf i in
                List.length row = List.length ds /\
                forall k d sh, nth_error ds k = Some d -> nth_error shs k = Some sh ->
                  exists ent w sc, nth_error row k = Some ent /\ nth_error (mtag_wants mt a i) k = Some w /\
                    spec_scaling (nth k units' "none"%string) d = Some sc /\
                    finite (e_start ent) /\ finite (e_end ent) /\
                    (exists r, indexOf_pair d m (scaled sc (e_start ent)) (scaled sc (e_end ent)) = Ok r) /\
                    (forall r, indexOf_pair d m (scaled sc (e_start ent)) (scaled sc (e_end ent)) = Ok r ->
                         decides d sh (incl_of m) w
                           (mtag_dim B rankP shs ipos (Z.of_nat k) d (nth k units' "none"%string) r ent))).
      { intros i ipos Hi. destruct (Hidx i Hi) as [Hi0 Hiw]. destruct (Hiw ltac:(rewrite <- HNp; apply Hlt; exact Hi)) as [Hwd Hws].
        apply (row_facts B mt a m HC HB Hdims Hn Hshape Hpin mx tc i ipos Hi0 (conj Lmx Nmx) Hread Hwd Hws). }
      (* phase 2 *)
      set (sc_of := fun k d => match spec_scaling (nth k units' "none"%string) d with Some sc => sc | None => None end).
      assert (P2 : exists DI, mtag_phase2 ds units' m (map rowf idxs) = Ok DI /\
                forall k d j i, nth_error ds k = Some d -> nth_error idxs j = Some i ->
                  let ent := nth k (rowf i) no_entry in
                  indexOf_pair d m (scaled (sc_of k d) (e_start ent)) (scaled (sc_of k d) (e_end ent))
                  = Ok (nth j (nth k DI []) None)).
      { unfold mtag_phase2.
        set (f := fun (k : Z) (d : dimd) =>
                    let col := column (map rowf idxs) (Z.to_nat k) no_entry in
                    let unit := nth (Z.to_nat k) units' "none"%string in
                    positionToIndex_vec (map e_start col) (map e_end col) (map (fun _ => unit) col) m d).
        assert (Step : forall k d, nth_error ds k = Some d ->
                  exists rs, f (0 + Z.of_nat k) d = Ok rs /\
                    forall j i, nth_error idxs j = Some i ->
                      let ent := nth k (rowf i) no_entry in
                      indexOf_pair d m (scaled (sc_of k d) (e_start ent)) (scaled (sc_of k d) (e_end ent)) = Ok (nth j rs None)).
        { intros k d Hd.
          assert (Hsh : exists sh, nth_error shs k = Some sh).
          { destruct (nth_error shs k) eqn:E; [eexists; reflexivity|]. apply nth_error_None in E.
            assert (k < List.length ds)%nat by (apply nth_error_Some; congruence). lia. }
          destruct Hsh as (sh & Hsh).
          unfold f. cbn [Z.add]. rewrite Nat2Z.id. cbv zeta.
          set (col := column (map rowf idxs) k no_entry).
          assert (Hcol : forall en, In en col -> exists i, In i idxs /\ en = nth k (rowf i) no_entry).
          { intros en Hen. unfold col, column in Hen. rewrite map_map in Hen. apply in_map_iff in Hen.
            destruct Hen as (i & <- & Hi). exists i. split; [exact Hi|reflexivity]. }
          assert (Hsc : spec_scaling (nth k units' "none"%string) d = Some (sc_of k d)).
          { destruct (RF i0 0 ltac:(rewrite Eidx; left; reflexivity)) as [_ RFk].
            destruct (RFk k d sh Hd Hsh) as (ent & w & sc & _ & _ & Hsc & _). unfold sc_of. rewrite Hsc. reflexivity. }
          assert (Hent : forall i, In i idxs -> let ent := nth k (rowf i) no_entry in
                    finite (e_start ent) /\ finite (e_end ent) /\
                    exists r, indexOf_pair d m (scaled (sc_of k d) (e_start ent)) (scaled (sc_of k d) (e_end ent)) = Ok r).
          { intros i Hi. destruct (RF i 0 Hi) as [_ RFk].
            destruct (RFk k d sh Hd Hsh) as (ent & w & sc & Hrow & _ & Hsc' & F1 & F2 & Hr & _).
            rewrite Hsc in Hsc'. injection Hsc' as <-. cbv zeta. rewrite (nth_error_nth _ _ _ Hrow). repeat split; assumption. }
          rewrite (pti_vec_column col _ m d (sc_of k d) Hsc)
            by (intros en Hen; destruct (Hcol en Hen) as (i & Hi & ->); destruct (Hent i Hi) as (F1 & F2 & _); split; assumption).
          destruct (mapM_all_ok (fun en => indexOf_pair d m (scaled (sc_of k d) (e_start en)) (scaled (sc_of k d) (e_end en))) col)
            as (rs & Ers & Hrs).
          { intros en Hen. destruct (Hcol en Hen) as (i & Hi & ->). apply (Hent i Hi). }
          exists rs. split; [exact Ers|]. intros j i Hj. cbv zeta.
          assert (Hcj : nth_error col j = Some (nth k (rowf i) no_entry)).
          { unfold col, column. rewrite map_map. apply (map_nth_error (fun x => nth k (rowf x) no_entry) j idxs Hj). }
          destruct (Hrs j _ Hcj) as (r & Hr & Er). rewrite (nth_error_nth _ _ _ Hr). exact Er. }
        destruct (mapMi_cases f E_OutOfBounds ds 0) as [(DI & E & LDI & HDI)|(E & k & d & Hk & He)].
        - intros k d Hk. left. destruct (Step k d Hk) as (rs & -> & _). eexists. reflexivity.
        - exists DI. split; [exact E|]. intros k d j i Hd Hj.
          destruct (HDI k d Hd) as (b & Hb & Hf). destruct (Step k d Hd) as (rs & Hf' & Hrs).
          rewrite Hf in Hf'. injection Hf' as ->. rewrite (nth_error_nth _ _ _ Hb). apply (Hrs j i Hj).
        - exfalso. destruct (Step k d Hk) as (rs & Hf & _). rewrite Hf in He. discriminate. }
      destruct P2 as (DI & EDI & HDI). fold units'. fold rowf. rewrite EDI. cbn [bind].
      (* phase 3 and the bound checks *)
      unfold mtag_phase3. apply two_phase.
      intros j i Hj. assert (Hi : In i idxs) by (apply (nth_error_In _ _ Hj)).
      split; [split; [apply (Hidx i Hi)|rewrite <- HNp; apply Hlt; exact Hi]|].
      apply loop_row_ok. destruct (RF i (0 + Z.of_nat j) Hi) as [Lrow RFk].
      apply loop_decides_build.
      + exact Lsh.
      + unfold mtag_wants. fold ds n. rewrite Hshape. cbn [negb]. rewrite wants_from_length. reflexivity.
      + reflexivity.
      + intros k d sh w d' Hd Hs Hw Hd'. change (nth_error ds k = Some d) in Hd. assert (d' = d) as -> by congruence. cbn [Z.add].
        change (nth_error ds k = Some d) in Hd. change (nth_error shs k = Some sh) in Hs.
        pose proof (Ndom k d sh Hd Hs) as Hdom. destruct (dim_dom_bounds d sh Hdom) as [[H1 H2] H3].
        split; [|lia].
        destruct (RFk k d sh Hd Hs) as (ent & w' & sc & Hrow & Hw' & Hsc & _ & _ & _ & Hdec).
        rewrite Hw in Hw'. injection Hw' as <-.
        rewrite !Nat2Z.id. rewrite (nth_error_nth _ _ _ Hrow). apply Hdec.
        pose proof (HDI k d j i Hd Hj) as P. cbv zeta in P. rewrite (nth_error_nth _ _ _ Hrow) in P.
        unfold sc_of in P. rewrite Hsc in P. exact P.
  Qed.
End MTagList.
