(** C06 — MultiTag retrieval: the three phases of getOffsetAndCount(MultiTag ...) (row read + padding,
    batched conversion per dimension, per-index assembly) reduce, for every position index of the list,
    to the clean per-dimension conversion of RetrievalAxis.v; the verdicts are assembled by
    RetrievalAssemble.v.  Retrieval for an index list is judged index by index, which makes it the list of
    the single retrievals. *)
From Coq Require Import ZArith Bool String List Reals Lia Lra.
From Flocq Require Import Core BinarySingleNaN.
Require Import NixV.Base.Prelude NixV.Base.F64 NixV.Base.F64Facts NixV.Gen.GenDimensions NixV.Gen.GenTables.
Require Import NixV.Axis.RangeModel NixV.Axis.AxisSpec.
Require Import NixV.Access.Retrieval NixV.Access.RetrievalSpec NixV.Access.RetrievalFacts NixV.Access.RetrievalAxis
               NixV.Access.RetrievalDomain NixV.Access.RetrievalAssemble NixV.Access.RetrievalTag.
Import ListNotations.
Local Open Scope list_scope.
Local Open Scope Z_scope.

(* ------------------------------------------------------------------------------------------ *)
(** * the batched conversion of one dimension (phase 2) *)

(** scalePositions on a column: every entry carries the same unit, so the scaling is the same throughout *)
Lemma scale_column (u : string) (d : dimd) du sc :
  (d = DSampled (match d with DSampled dt _ _ => dt | _ => fzero end) (match d with DSampled _ o _ => o | _ => None end) du \/
   d = DRange (match d with DRange t _ => t | _ => [] end) du) ->
  spec_scaling u d = Some sc ->
  forall (col : list rowent) k0,
  (forall en, In en col -> finite (e_start en) /\ finite (e_end en)) ->
  (sc = None -> k0 = fone) ->
  scalePositions (map e_start col) (map e_end col) (map (fun _ => u) col) (dim_unit_str du) k0 =
  Ok (map (fun en => scaled sc (e_start en)) col, map (fun en => scaled sc (e_end en)) col).
Proof.
  intros Hd Hsc.
  assert (Hs : spec_scaling u d = (if is_none_unit u then Some None
                                   else match du with None => None
                                        | Some dus => match getSIScaling u dus with Ok k => Some (Some k) | _ => None end end)).
  { destruct Hd as [-> | ->]; reflexivity. }
  rewrite Hs in Hsc.
  induction col as [|en col IH]; intros k0 Hfin Hk0; [reflexivity|].
  cbn [map scalePositions].
  destruct (Hfin en (or_introl eq_refl)) as [Fs Fe].
  assert (Hfin' : forall en', In en' col -> finite (e_start en') /\ finite (e_end en')) by (intros; apply Hfin; right; assumption).
  destruct (is_none_unit u) eqn:Eu.
  - injection Hsc as <-. cbn [negb andb bind]. rewrite (Hk0 eq_refl).
    rewrite (IH fone Hfin' (fun _ => eq_refl)). cbn [bind fst snd scaled]. rewrite !fmul_one by assumption. reflexivity.
  - destruct du as [dus|]; [|discriminate]. destruct (getSIScaling u dus) as [k| |] eqn:Ek; try discriminate.
    injection Hsc as <-. destruct (scaling_not_none _ _ _ Ek) as [Nd _]. cbn [dim_unit_str] in IH |- *. rewrite Nd. cbn [negb andb].
    unfold scaling_or_incompatible. rewrite Ek. cbn [bind].
    rewrite (IH k Hfin' ltac:(discriminate)). reflexivity.
Qed.

Lemma indexOf_vec_column d m (f g : rowent -> F64) : forall col,
  indexOf_vec d m (map f col) (map g col) = mapM (fun en => indexOf_pair d m (f en) (g en)) col.
Proof.
  intro col. unfold indexOf_vec. unfold zlen. rewrite !map_length, Z.eqb_refl. cbn [negb].
  induction col as [|en col IH]; [reflexivity|]. cbn [map indexOf_pairs mapM]. rewrite IH. reflexivity.
Qed.

(** the vector overload on a column = the pair conversion of every entry, in order *)
Lemma pti_vec_column (col : list rowent) (u : string) (m : RangeMatch) (d : dimd) sc :
  spec_scaling u d = Some sc ->
  (forall en, In en col -> finite (e_start en) /\ finite (e_end en)) ->
  positionToIndex_vec (map e_start col) (map e_end col) (map (fun _ => u) col) m d =
  mapM (fun en => indexOf_pair d m (scaled sc (e_start en)) (scaled sc (e_end en))) col.
Proof.
  intros Hsc Hfin.
  destruct d as [dt off du|ticks du|n|n]; cbn [positionToIndex_vec].
  - unfold zlen. rewrite !map_length, Z.eqb_refl. cbn [negb orb].
    rewrite (scale_column u (DSampled dt off du) du sc (or_introl eq_refl) Hsc col fone Hfin (fun _ => eq_refl)). cbn [bind fst snd].
    apply indexOf_vec_column.
  - unfold zlen. rewrite !map_length, Z.eqb_refl. cbn [negb orb].
    rewrite (scale_column u (DRange ticks du) du sc (or_intror eq_refl) Hsc col fone Hfin (fun _ => eq_refl)). cbn [bind fst snd].
    apply indexOf_vec_column.
  - cbn [spec_scaling] in Hsc. injection Hsc as <-. unfold zlen. rewrite !map_length, Z.eqb_refl. cbn [negb scaled].
    apply indexOf_vec_column.
  - cbn [spec_scaling] in Hsc. injection Hsc as <-. unfold zlen. rewrite !map_length, Z.eqb_refl. cbn [negb scaled].
    apply indexOf_vec_column.
Qed.

(** a loop whose iterations all succeed *)
Lemma mapM_all_ok {A B} (f : A -> res B) : forall l, (forall x, In x l -> exists r, f x = Ok r) ->
  exists rs, mapM f l = Ok rs /\ forall j x, nth_error l j = Some x -> exists r, nth_error rs j = Some r /\ f x = Ok r.
Proof.
  induction l as [|a l IH]; intro H.
  - exists []. split; [reflexivity|]. intros j x Hj. destruct j; discriminate.
  - destruct (H a (or_introl eq_refl)) as (r & Er). destruct (IH (fun x Hx => H x (or_intror Hx))) as (rs & E & Hn).
    exists (r :: rs). cbn [mapM]. rewrite Er, E. split; [reflexivity|].
    intros j x Hj. destruct j as [|j]; [cbn in Hj; injection Hj as <-; exists r; split; [reflexivity|exact Er]|].
    apply Hn. exact Hj.
Qed.

(* ------------------------------------------------------------------------------------------ *)
(** * one dimension of the per-index assembly (phase 3) is the clean conversion *)

Definition mtag_repaired (B : behaviour) : Prop :=
  pad_end_is_last B = true /\ mt_point_sets_data_offset B = true /\ mt_invalid_range_throws B = true /\
  mt_point_by_extent B = true /\ mt_empty_guard B = true.

Lemma mtag_dim_clean B rankP shape i k d sh u sc ent m r :
  mtag_repaired B -> (pad_index_range B && negb (e_spec ent)) = false ->
  axis_ok d sh -> spec_scaling u d = Some sc ->
  finite (e_end ent) -> finite (scaled sc (e_end ent)) -> conv_dom d (scaled sc (e_end ent)) ->
  indexOf_pair d m (scaled sc (e_start ent)) (scaled sc (e_end ent)) = Ok r ->
  mtag_dim B rankP shape i k d u r ent =
  clean_dim d m (scaled sc (e_start ent)) (scaled sc (e_end ent)) (e_point ent) (scaled sc (e_end ent)).
Proof.
  intros (H1 & H2 & H3 & H4 & H5) Hp A Hsc Fe Fse De Er. unfold mtag_dim, clean_dim. rewrite Hp, Er. cbn [bind].
  destruct r as [[a b]|]; [reflexivity|]. rewrite H4, H2, H3.
  destruct (e_point ent); [|reflexivity].
  rewrite (pti_one _ u d sc Hsc Fe).
  destruct (ax_conv d sh A _ GE Fse De) as (ro & Ero & _). rewrite Ero. cbn [bind]. destruct ro; reflexivity.
Qed.

(** a dimension the positions specify: entry (o, o (+) e, e == 0, specified) *)
Lemma mtag_specified_facts B rankP shape i k d sh units o eo m :
  mtag_repaired B -> axis_ok d sh ->
  let w := want_of units (Z.to_nat k) d (Some o) eo in
  let e := match eo with Some e => e | None => fzero end in
  let u := unit_of units (Z.to_nat k) d in
  let ent := mkEnt o (fadd o e) (feq e fzero) true in
  w <> WNoSpec -> want_dom d w = true ->
  exists sc, spec_scaling u d = Some sc /\ finite (e_start ent) /\ finite (e_end ent) /\
    (exists r, indexOf_pair d m (scaled sc (e_start ent)) (scaled sc (e_end ent)) = Ok r) /\
    (forall r, indexOf_pair d m (scaled sc (e_start ent)) (scaled sc (e_end ent)) = Ok r ->
               decides d sh (incl_of m) w (mtag_dim B rankP shape i k d u r ent)).
Proof.
  intros HB A w e u ent Hw Hd. subst w. unfold want_of in *. fold u in Hw, Hd |- *.
  destruct (spec_scaling u d) as [sc|] eqn:Hsc; [|contradiction]. exists sc. split; [reflexivity|].
  cbn [e_start e_end] in *.
  assert (Hpad : (pad_index_range B && negb (e_spec ent)) = false) by (cbn [e_spec ent negb]; apply andb_false_r).
  (* finiteness and conversion domain of the scaled start / end *)
  assert (Core : finite o /\ finite (fadd o e) /\ finite (scaled sc o) /\ conv_dom d (scaled sc o) /\
                 finite (scaled sc (fadd o e)) /\ conv_dom d (scaled sc (fadd o e)) /\
                 (feq e fzero = true -> B2R (scaled sc (fadd o e)) = B2R (scaled sc o))).
  { assert (Point : feq e fzero = true -> want_dom d (WPoint (scaled sc o)) = true ->
              finite o /\ finite (fadd o e) /\ finite (scaled sc o) /\ conv_dom d (scaled sc o) /\
              finite (scaled sc (fadd o e)) /\ conv_dom d (scaled sc (fadd o e)) /\
              (feq e fzero = true -> B2R (scaled sc (fadd o e)) = B2R (scaled sc o))).
    { intros Pt Hd'. cbn [want_dom] in Hd'. destruct (want_ok _ _ Hd') as [Fs Ds].
      pose proof (scaled_finite_inv _ _ Fs) as Fo. destruct (fadd_zero o e Fo Pt) as [Epe Fpe].
      assert (X : finite (scaled sc (fadd o e)) /\ B2R (scaled sc (fadd o e)) = B2R (scaled sc o)).
      { destruct sc as [kk|]; cbn [scaled] in *.
        - destruct (fmul_finite_inv _ _ Fs) as [_ Fk]. apply (fmul_ext o (fadd o e) kk Fo Fpe Fk (eq_sym Epe) Fs).
        - split; assumption. }
      destruct X as [Fe' Ee']. repeat split; try assumption.
      - apply (conv_dom_ext d (scaled sc o)); [symmetry; exact Ee'|exact Ds].
      - intros _. exact Ee'. }
    subst e. destruct eo as [e0|].
    - destruct (feq e0 fzero) eqn:Pt; [apply Point; [reflexivity|exact Hd]|].
      cbn [want_dom] in Hd. apply andb_true_iff in Hd. destruct Hd as [Hd1 Hd2].
      destruct (want_ok _ _ Hd1) as [Fs Ds]. destruct (want_ok _ _ Hd2) as [Fe De].
      repeat split; try assumption; try discriminate; [apply (scaled_finite_inv _ _ Fs)|apply (scaled_finite_inv _ _ Fe)].
    - apply Point; [|exact Hd]. destruct fzero_R as [_ Fz]. apply (feq_true _ _ Fz Fz). reflexivity. }
  destruct Core as (Fo & Fpe & Fs & Ds & Fe & De & Eq).
  split; [exact Fo|]. split; [exact Fpe|].
  destruct (indexOf_pair_eval d sh m _ _ A Fs Fe Ds De) as (si & ei & _ & _ & Ev).
  split; [eexists; exact Ev|].
  intros r Er.
  rewrite (mtag_dim_clean B rankP shape i k d sh u sc ent m r HB Hpad A Hsc Fpe Fe De Er).
  cbn [e_start e_end e_point ent].
  destruct eo as [e0|]; subst e.
  - destruct (feq e0 fzero) eqn:Pt.
    + apply clean_point_decides; try assumption; try (apply Eq; reflexivity).
    + apply clean_range_decides; assumption.
  - replace (feq fzero fzero) with true by (symmetry; destruct fzero_R as [_ Fz]; apply (feq_true _ _ Fz Fz); reflexivity).
    apply clean_point_decides; try assumption; apply Eq; destruct fzero_R as [_ Fz]; apply (feq_true _ _ Fz Fz); reflexivity.
Qed.

Lemma pad_conv_dom d sh : dim_dom d sh = true -> conv_dom d (coord d 0) /\ conv_dom d (coord d (sh - 1)).
Proof.
  intro H. destruct (dim_dom_bounds d sh H) as [[H1 H2] H3].
  destruct d; cbn [conv_dom coord]; try (split; exact I).
  - destruct (x_int_R 0 ltac:(unfold AXIS_MAX; lia)) as [-> _].
    destruct (x_int_R (sh - 1) ltac:(unfold AXIS_MAX, P52 in *; lia)) as [-> _]. split; apply IZR_lt; unfold P52 in *; lia.
  - destruct (x_int_R 0 ltac:(unfold AXIS_MAX; lia)) as [-> _].
    destruct (x_int_R (sh - 1) ltac:(unfold AXIS_MAX, P52 in *; lia)) as [-> _]. split; apply IZR_lt; unfold P52 in *; lia.
Qed.

(** a dimension the positions do not specify: entry (first coordinate, last coordinate, point, unspecified) *)
Lemma mtag_padded_facts B rankP shape i k d sh m :
  mtag_repaired B -> axis_ok d sh -> dim_dom d sh = true -> nth_error shape k = Some sh ->
  let ent := mkEnt (coord d 0) (coord d (sh - 1)) true false in
  finite (e_start ent) /\ finite (e_end ent) /\
  (exists r, indexOf_pair d m (e_start ent) (e_end ent) = Ok r) /\
  (forall r, indexOf_pair d m (e_start ent) (e_end ent) = Ok r ->
             pad_index_range B = true \/ m = RangeMatch_Inclusive ->
             decides d sh (incl_of m) WAll (mtag_dim B rankP shape i (Z.of_nat k) d "none" r ent)).
Proof.
  intros HB A Hdom Hsh ent. cbn [e_start e_end ent].
  destruct (dim_dom_bounds d sh Hdom) as [[H1 H2] H3]. destruct (pad_conv_dom d sh Hdom) as [D0 D1].
  assert (F0 : finite (coord d 0)) by (apply (ax_fin d sh A); lia).
  assert (F1 : finite (coord d (sh - 1))) by (apply (ax_fin d sh A); lia).
  split; [exact F0|]. split; [exact F1|].
  destruct (indexOf_pair_eval d sh m _ _ A F0 F1 D0 D1) as (si & ei & _ & _ & Ev).
  split; [eexists; exact Ev|].
  intros r Er Hm. assert (Hsh53 : 1 <= sh <= AXIS_MAX + 1) by (unfold P52, AXIS_MAX in *; lia).
  destruct (pad_index_range B) eqn:Ep.
  - unfold mtag_dim. rewrite Ep. cbn [e_spec ent negb andb]. rewrite (nd_at_nth _ _ _ Hsh). cbn [bind].
    apply decides_all. exact Hsh53.
  - destruct Hm as [Hm|Hm]; [discriminate|]. subst m.
    assert (Hnone : spec_scaling "none" d = Some None) by (destruct d; reflexivity).
    rewrite (mtag_dim_clean B rankP shape i (Z.of_nat k) d sh "none" None ent RangeMatch_Inclusive r HB
               ltac:(rewrite Ep; reflexivity) A Hnone F1 F1 D1 Er).
    cbn [scaled e_start e_end e_point ent]. rewrite (clean_pad_inclusive d sh _ A D0 D1). apply decides_all. exact Hsh53.
Qed.

(* ------------------------------------------------------------------------------------------ *)
(** * reading a row of the positions / extents array (phase 1) *)

Lemma flat_map_singleton {A B} (g : A -> B) l : flat_map (fun x => [g x]) l = map g l.
Proof. induction l as [|a l IH]; [reflexivity|]. cbn. rewrite IH. reflexivity. Qed.

Lemma nd_read_1d nd N i : n_shape nd = [N] -> 0 <= i ->
  nd_read nd [i] [1] = [nth (Z.to_nat i) (n_data nd) f64_nan].
Proof.
  intros Hs Hi. unfold nd_read. rewrite Hs. cbn [box_indices]. change (ziota 1) with [0]. cbn [flat_map map app ravel].
  do 2 f_equal. lia.
Qed.

Lemma nd_read_2d nd N C i w : n_shape nd = [N; C] -> 0 <= i ->
  nd_read nd [i; 0] [1; w] = map (fun j => nth (Z.to_nat (i * C + j)) (n_data nd) f64_nan) (ziota w).
Proof.
  intros Hs Hi. unfold nd_read. rewrite Hs. cbn [box_indices]. change (ziota 1) with [0]. cbn [flat_map].
  rewrite app_nil_r. rewrite (flat_map_singleton (fun b => [0 + b])). rewrite !map_map.
  apply map_ext. intro j. cbn [ravel]. do 2 f_equal. lia.
Qed.

Lemma row_entries_nth B sp : forall os es i0 k o e,
  nth_error os k = Some o -> nth_error es k = Some e ->
  nth_error (row_entries B sp i0 os es) k =
  Some (mkEnt o (if pad_end_is_last B && negb (i0 + Z.of_nat k <? sp) then e else fadd o e)
              (negb (i0 + Z.of_nat k <? sp) || feq e fzero) (i0 + Z.of_nat k <? sp)).
Proof.
  induction os as [|o0 os IH]; intros es i0 k o e Ho He; [destruct k; discriminate|].
  destruct es as [|e0 es]; [destruct k; discriminate|]. cbn [row_entries].
  destruct k as [|k].
  - cbn in Ho, He. injection Ho as <-. injection He as <-. cbn [nth_error]. replace (i0 + Z.of_nat 0) with i0 by lia. reflexivity.
  - cbn [nth_error] in *. rewrite (IH es (i0 + 1) k o e Ho He).
    replace (i0 + 1 + Z.of_nat k) with (i0 + Z.of_nat (S k)) by lia. reflexivity.
Qed.

Lemma row_entries_length B sp : forall os es i0, List.length os = List.length es ->
  List.length (row_entries B sp i0 os es) = List.length os.
Proof.
  induction os as [|o os IH]; intros [|e es] i0 H; cbn in *; try lia. f_equal. apply IH. lia.
Qed.
