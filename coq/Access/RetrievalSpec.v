(** C05 / C06 — the SPECIFICATION of tagged retrieval, independent of the code path of dataAccess.cpp.

    Per dimension d of the referenced array, with axis coordinates x_0, x_1, ... (the doubles the
    descriptor defines: [coord]) and [alen d] of them:
      - a dimension the tag specifies with start s and end e (s = position, e = position (+) extent in
        binary64, both multiplied by the unit scaling) selects the index set
             { i < alen | s <= x_i <= e }  (inclusive)      { i < alen | s <= x_i < e }  (exclusive);
      - with an absent or zero extent it selects { min i | x_i >= s };
      - a dimension the tag does not specify selects every i < shape_d.
    The region is the box of these sets.  The answer is an out-of-bounds error iff some set is empty
    or has a member outside the stored data (i >= shape_d); otherwise the elements returned are exactly
    those whose multi-index lies in every set.

    Two forms: the Prop form ([dim_sel], [region_is]) used by the theorems, and a brute-force
    evaluator ([spec_dim], [spec_region], [spec_ids]) that EXTRACTS: a linear scan over the coordinates
    0 .. shape_d of each axis and a filter over all elements of the array.  RetrievalProofs.v proves
    them equivalent on monotone axes.  Definitions only. *)
From Coq Require Import ZArith Bool String List.
Require Import NixV.Base.Prelude NixV.Base.F64 NixV.Gen.GenDimensions NixV.Axis.AxisSpec NixV.Access.Retrieval.
Import ListNotations.
Local Open Scope string_scope.
Local Open Scope list_scope.
Local Open Scope bool_scope.
Local Open Scope Z_scope.

(* ------------------------------------------------------------------------------------------ *)
(** * Axes *)

(** coordinate i of a dimension: what positionAt / tickAt / the index itself give *)
Definition coord (d : dimd) (i : Z) : F64 :=
  match d with
  | DSampled dt off _ => x_sampled dt (offset_or_zero off) i
  | DRange ticks _ => x_ticks ticks i
  | DSet _ | DFrame _ => x_int i
  end.

(** number of coordinates the descriptor defines (sampled, unlabelled set, empty frame: up to 2^53) *)
Definition alen (d : dimd) : Z :=
  match d with
  | DSampled _ _ _ => AXIS_MAX + 1
  | DRange ticks _ => zlen ticks
  | DSet n | DFrame n => if n =? 0 then AXIS_MAX + 1 else n
  end.

(* ------------------------------------------------------------------------------------------ *)
(** * What a tag asks of one dimension *)

Inductive want :=
| WRange (s e : F64)      (* coordinates from s to e *)
| WPoint (s : F64)        (* first coordinate at or after s *)
| WAll                    (* the tag says nothing about this dimension *)
| WNoSpec.                (* outside the domain of the statement (units that do not scale, ...) *)

Definition within (incl : bool) (s e c : F64) : bool :=
  fle s c && (if incl then fle c e else flt c e).

(** Prop form: is index i selected? *)
Definition dim_sel (d : dimd) (shape_d : Z) (incl : bool) (w : want) (i : Z) : Prop :=
  match w with
  | WRange s e => 0 <= i < alen d /\ within incl s e (coord d i) = true
  | WPoint s => 0 <= i < alen d /\ fle s (coord d i) = true /\
                forall j, 0 <= j < alen d -> fle s (coord d j) = true -> i <= j
  | WAll => 0 <= i < shape_d
  | WNoSpec => False
  end.

(** [off, off + cnt) is the selected set, it is not empty and lies inside the data *)
Definition dim_is (d : dimd) (shape_d : Z) (incl : bool) (w : want) (off cnt : Z) : Prop :=
  1 <= cnt /\ 0 <= off /\ off + cnt <= shape_d /\
  forall i, dim_sel d shape_d incl w i <-> off <= i < off + cnt.

Inductive region_is (incl : bool) : list dimd -> list Z -> list want -> list Z -> list Z -> Prop :=
| region_nil : region_is incl [] [] [] [] []
| region_cons d ds sh shs w ws o os c cs :
    dim_is d sh incl w o c -> region_is incl ds shs ws os cs ->
    region_is incl (d :: ds) (sh :: shs) (w :: ws) (o :: os) (c :: cs).

(* ------------------------------------------------------------------------------------------ *)
(** * Brute-force evaluator *)

(** the indices 0 .. min(alen, shape_d) - 1 : the coordinates that belong to stored data *)
Definition data_indices (d : dimd) (shape_d : Z) : list Z := ziota (Z.min (alen d) shape_d).

Inductive answer (A : Type) := Region (a : A) | Refuse | Unconstrained.
Arguments Region {A} a.
Arguments Refuse {A}.
Arguments Unconstrained {A}.

(** one dimension: Region (first index, count), Refuse = out of bounds *)
Definition spec_dim (d : dimd) (shape_d : Z) (incl : bool) (w : want) : answer (Z * Z) :=
  match w with
  | WRange s e =>
      let inside := filter (fun i => within incl s e (coord d i)) (data_indices d shape_d) in
      match inside with
      | [] => Refuse                                                      (* empty, or wholly outside the data *)
      | first :: _ =>
          if (shape_d <? alen d) && within incl s e (coord d shape_d) then Refuse   (* reaches past the data *)
          else Region (first, zlen inside)
      end
  | WPoint s =>
      match filter (fun i => fle s (coord d i)) (data_indices d shape_d) with
      | [] => Refuse
      | first :: _ => Region (first, 1)
      end
  | WAll => if shape_d <=? 0 then Refuse else Region (0, shape_d)
  | WNoSpec => Unconstrained
  end.

Fixpoint spec_dims (incl : bool) (ds : list dimd) (shape : list Z) (ws : list want) : answer (list (Z * Z)) :=
  match ds, shape, ws with
  | d :: ds', sh :: shs, w :: ws' =>
      match spec_dim d sh incl w, spec_dims incl ds' shs ws' with
      | Unconstrained, _ | _, Unconstrained => Unconstrained
      | Refuse, _ | _, Refuse => Refuse
      | Region oc, Region ocs => Region (oc :: ocs)
      end
  | [], [], [] => Region []
  | _, _, _ => Unconstrained            (* rank of the data and number of descriptors differ: not judged *)
  end.

(** the region as (offset, count) vectors *)
Definition spec_region (incl : bool) (a : darray) (ws : list want) : answer (list Z * list Z) :=
  match spec_dims incl (a_dims a) (a_shape a) ws with
  | Region ocs => Region (map fst ocs, map snd ocs)
  | Refuse => Refuse
  | Unconstrained => Unconstrained
  end.

(** row-major multi-index of flat id k *)
Fixpoint unravel (shape : list Z) (k : Z) : list Z :=
  match shape with
  | [] => []
  | s :: rest =>
      let stride := fold_right Z.mul 1 rest in
      (k / stride) :: unravel rest (k mod stride)
  end.

(** pointwise membership of one index, evaluated on the coordinates directly (no intervals) *)
Definition sel_b (d : dimd) (shape_d : Z) (incl : bool) (w : want) (i : Z) : bool :=
  match w with
  | WRange s e => within incl s e (coord d i)
  | WPoint s => fle s (coord d i) && forallb (fun j => negb (fle s (coord d j))) (ziota i)
  | WAll => true
  | WNoSpec => false
  end.

Fixpoint sel_all (incl : bool) (ds : list dimd) (shape : list Z) (ws : list want) (idx : list Z) : bool :=
  match ds, shape, ws, idx with
  | d :: ds', sh :: shs, w :: ws', i :: is_ => sel_b d sh incl w i && sel_all incl ds' shs ws' is_
  | _, _, _, _ => true
  end.

(** the ids of exactly the elements whose coordinates satisfy the tag in every dimension *)
Definition spec_ids (incl : bool) (a : darray) (ws : list want) : list Z :=
  filter (fun k => sel_all incl (a_dims a) (a_shape a) ws (unravel (a_shape a) k))
         (ziota (fold_right Z.mul 1 (a_shape a))).

(* ------------------------------------------------------------------------------------------ *)
(** * From a tag to the wants *)

(** the scaling the unit of entry k implies against the dimension: [None] = outside the statement (the
    units do not scale), [Some None] = no scaling (no unit involved), [Some (Some k)] = multiply by k *)
Definition spec_scaling (unit : string) (d : dimd) : option (option F64) :=
  match d with
  | DSet _ | DFrame _ => Some None
  | DSampled _ _ du | DRange _ du =>
      if is_none_unit unit then Some None
      else match du with
           | None => None
           | Some dus => match getSIScaling unit dus with Ok k => Some (Some k) | _ => None end
           end
  end.

Definition scaled (k : option F64) (p : F64) : F64 := match k with Some k => fmul p k | None => p end.

(** unit of position entry k: the tag's k-th unit, "none" when the tag has no units at all, the
    dimension's own unit when the tag has fewer units than positions *)
Definition unit_of (units : list string) (k : nat) (d : dimd) : string :=
  match units with
  | [] => "none"
  | _ => match nth_error units k with Some u => u | None => getDimensionUnit d end
  end.

Definition want_of (units : list string) (k : nat) (d : dimd) (p : option F64) (e : option F64) : want :=
  match p with
  | None => WAll
  | Some p =>
      match spec_scaling (unit_of units k d) d with
      | None => WNoSpec
      | Some sc =>
          match e with
          | None => WPoint (scaled sc p)
          | Some e => if feq e fzero then WPoint (scaled sc p)
                      else WRange (scaled sc p) (scaled sc (fadd p e))
          end
      end
  end.

Fixpoint wants_from (units : list string) (k : nat) (ds : list dimd) (pos : list F64) (ext : option (list F64)) : list want :=
  match ds with
  | [] => []
  | d :: ds' =>
      let p := hd_error pos in
      let e := match ext with Some es => hd_error es | None => None end in
      want_of units k d p e :: wants_from units (S k) ds' (tl pos) (match ext with Some es => Some (tl es) | None => None end)
  end.

(** a Tag's request on array a.  A tag whose extent has another length than its position, or that carries
    more units than positions, is outside the statement. *)
Definition tag_wants (t : tag) (a : darray) : list want :=
  if zlen (t_pos t) <? zlen (t_units t) then map (fun _ => WNoSpec) (a_dims a) else
  match t_ext t with
  | [] => wants_from (t_units t) 0 (a_dims a) (t_pos t) None
  | es => if zlen es =? zlen (t_pos t) then wants_from (t_units t) 0 (a_dims a) (t_pos t) (Some es)
          else map (fun _ => WNoSpec) (a_dims a)
  end.

(** row i of the positions (extents) array as the code reads it: 1-D positions give one entry; N x D
    positions give the D entries of row i when the data has more than one dimension, else the first *)
Definition row_of (nd : ndarr) (ndims : Z) (i : Z) : list F64 :=
  match n_shape nd with
  | [_] => [nth (Z.to_nat i) (n_data nd) f64_nan]
  | [_; c] => let w := if ndims >? 1 then c else 1 in
              map (fun j => nth (Z.to_nat (i * c + j)) (n_data nd) f64_nan) (ziota w)
  | _ => []
  end.

Fixpoint zlist_eqb (a b : list Z) : bool :=
  match a, b with
  | [], [] => true
  | x :: xs, y :: ys => (x =? y) && zlist_eqb xs ys
  | _, _ => false
  end.

(** entries per row the code reads *)
Definition mtag_width (mt : mtag) (ndims : Z) : Z :=
  match n_shape (m_pos mt) with
  | [_; c] => if ndims >? 1 then c else 1
  | _ => 1
  end.

Definition mtag_shape_ok (mt : mtag) (ndims : Z) : bool :=
  match n_shape (m_pos mt) with
  | [n] => (ndims <=? 1) && (0 <=? n)
  | [n; c] => (0 <=? n) && (1 <=? c)
  | _ => false
  end &&
  match m_ext mt with
  | Some ex => zlist_eqb (n_shape ex) (n_shape (m_pos mt))
  | None => true
  end &&
  (zlen (m_units mt) <=? mtag_width mt ndims).

Definition mtag_wants (mt : mtag) (a : darray) (i : Z) : list want :=
  let nd := zlen (a_dims a) in
  if negb (mtag_shape_ok mt nd) then map (fun _ => WNoSpec) (a_dims a) else
  wants_from (m_units mt ++ zrepeat "none" (nd - zlen (m_units mt))) 0 (a_dims a) (row_of (m_pos mt) nd i)
             (match m_ext mt with Some ex => Some (row_of ex nd i) | None => None end).

(** number of positions *)
Definition mtag_npos (mt : mtag) : Z := match n_shape (m_pos mt) with n :: _ => n | [] => 0 end.

(* ------------------------------------------------------------------------------------------ *)
(** * Domain of the statement (decidable, extracted): the axes are the property's axes *)

Fixpoint ascending (l : list F64) : bool :=
  match l with
  | a :: ((b :: _) as r) => flt a b && ascending r
  | _ => true
  end.

Definition P52 : Z := 4503599627370496.

(** the unit of a descriptor is an atomic SI unit of the tables (or absent) *)
Definition unit_dom (d : dimd) : bool :=
  match d with
  | DSampled _ _ (Some u) | DRange _ (Some u) => match split_atomic u with Some _ => true | None => false end
  | _ => true
  end.

Definition dim_dom (d : dimd) (shape_d : Z) : bool :=
  (1 <=? shape_d) && (shape_d <=? alen d) && (shape_d <=? P52) && unit_dom d &&
  match d with
  | DSampled dt off _ => fis_finite dt && flt fzero dt && fis_finite (offset_or_zero off) &&
                         fle dt (ofME 1 900) && fle (fabs (offset_or_zero off)) (ofME 1 1000) &&
                         ascending (map (coord d) (ziota (shape_d + 1)))
  | DRange ticks _ => forallb fis_finite ticks && ascending ticks && (zlen ticks <=? AXIS_MAX + 1)
  | DSet n | DFrame n => (0 <=? n) && (n <=? AXIS_MAX)
  end.

Fixpoint dims_dom (ds : list dimd) (shape : list Z) : bool :=
  match ds, shape with
  | d :: ds', s :: ss => dim_dom d s && dims_dom ds' ss
  | [], [] => true
  | _, _ => false
  end.

Definition want_dom (d : dimd) (w : want) : bool :=
  let ok (x : F64) := fis_finite x &&
    match d with DSet _ | DFrame _ => flt x (ofZ P52) | _ => true end in
  match w with
  | WRange s e => ok s && ok e
  | WPoint s => ok s
  | WAll => true
  | WNoSpec => true
  end.

Fixpoint wants_dom (ds : list dimd) (ws : list want) : bool :=
  match ds, ws with
  | d :: ds', w :: ws' => want_dom d w && wants_dom ds' ws'
  | _, _ => true
  end.

(** the oracle: the specification's answer for a request, [Unconstrained] outside the domain *)
Definition spec_answer (incl : bool) (a : darray) (ws : list want) : answer (list Z * list Z) :=
  if (1 <=? zlen (a_dims a)) && dims_dom (a_dims a) (a_shape a) && wants_dom (a_dims a) ws
  then spec_region incl a ws else Unconstrained.

(** feature data: tagged -> the region on the feature array, untagged -> everything,
    indexed -> for a Tag everything, for a MultiTag slice i along the first dimension *)
(** MultiTag, position index i: an index beyond the number of positions must be refused *)
(** the multi-tag / array pairs the statement is about (checked BEFORE anything is judged, also for an empty
    list of indices, where no single index would bring the check along) *)
Definition mtag_array_dom (mt : mtag) (a : darray) : bool :=
  mtag_shape_ok mt (zlen (a_dims a)) && (1 <=? zlen (a_dims a)) && dims_dom (a_dims a) (a_shape a).

Definition spec_answer_mtag (incl : bool) (mt : mtag) (a : darray) (i : Z) : answer (list Z * list Z) :=
  if negb (mtag_array_dom mt a)
  then Unconstrained
  else if (i <? 0) || (mtag_npos mt <=? i) then Refuse
  else spec_answer incl a (mtag_wants mt a i).

Definition spec_whole (a : darray) : answer (list Z * list Z) :=
  Region (map (fun _ => 0) (a_shape a), a_shape a).

Definition spec_slice (a : darray) (i : Z) : answer (list Z * list Z) :=
  match a_shape a with
  | n :: rest => if (0 <=? i) && (i <? n) then Region (i :: map (fun _ => 0) rest, 1 :: rest) else Refuse
  | [] => Unconstrained
  end.

(* ------------------------------------------------------------------------------------------ *)
(** * The oracle's answers as the drivers print them: (offset, count, element ids) *)

Definition view3 := (list Z * list Z * list Z)%type.

Definition add_ids (r : answer (list Z * list Z)) (ids : list Z * list Z -> list Z) : answer view3 :=
  match r with
  | Region oc => Region (fst oc, snd oc, ids oc)
  | Refuse => Refuse
  | Unconstrained => Unconstrained
  end.

(** Tag on array a: the region, and the ids judged pointwise on the coordinates *)
Definition spec_tag_view (incl : bool) (t : tag) (a : darray) : answer view3 :=
  let ws := tag_wants t a in
  add_ids (spec_answer incl a ws) (fun _ => spec_ids incl a ws).

Definition spec_mtag_view (incl : bool) (mt : mtag) (a : darray) (i : Z) : answer view3 :=
  add_ids (spec_answer_mtag incl mt a i) (fun _ => spec_ids incl a (mtag_wants mt a i)).

Definition whole_view (a : darray) : answer view3 :=
  add_ids (spec_whole a) (fun oc => view_ids (a_shape a) (fst oc) (snd oc)).

(** feature data of a Tag: tagged -> cut by the same rule, untagged and indexed -> whole *)
Definition spec_tag_feature (incl : bool) (t : tag) (f : feature) : answer view3 :=
  match f_link f with
  | LTagged => spec_tag_view incl t (f_data f)
  | LUntagged | LIndexed => whole_view (f_data f)
  end.

(** feature data of a MultiTag for position index i: tagged -> cut like references, untagged -> whole,
    indexed -> slice i along the first dimension; an index beyond the positions is refused *)
Definition spec_mtag_feature (incl : bool) (mt : mtag) (f : feature) (i : Z) : answer view3 :=
  let a := f_data f in
  match f_link f, n_shape (m_pos mt) with
  | LTagged, _ => spec_mtag_view incl mt a i
  | _, [] => Unconstrained                       (* a positions array without a first dimension is not judged *)
  | LUntagged, _ => if (i <? 0) || (mtag_npos mt <=? i) then Refuse else whole_view a
  | LIndexed, _ => if (i <? 0) || (mtag_npos mt <=? i) then Refuse
                   else add_ids (spec_slice a i) (fun oc => view_ids (a_shape a) (fst oc) (snd oc))
  end.

(** retrieval for a list of indices = the list of the single retrievals (an empty list = all positions) *)
Fixpoint answers {A} (l : list (answer A)) : answer (list A) :=
  match l with
  | [] => Region []
  | x :: r =>
      match x, answers r with
      | Unconstrained, _ | _, Unconstrained => Unconstrained
      | Refuse, _ | _, Refuse => Refuse
      | Region a, Region b => Region (a :: b)
      end
  end.

Definition positions_or_all (mt : mtag) (idxs : list Z) : list Z :=
  match idxs with [] => ziota (mtag_npos mt) | _ => idxs end.

(** retrieval (taggedData) for a list of indices; the empty list stands for all positions.  Outside the domain of
    the multi-tag / array pair nothing is judged - whatever the list, also when it is empty. *)
Definition spec_mtag_views (incl : bool) (mt : mtag) (a : darray) (idxs : list Z) : answer (list view3) :=
  if negb (mtag_array_dom mt a) then Unconstrained
  else answers (map (spec_mtag_view incl mt a) (positions_or_all mt idxs)).

(** getOffsetAndCount for a list of indices: the list is taken as it is (an empty list gives no results);
    getOffsetAndCount alone does not look at the data bounds, so a refusal is not demanded of it *)
Definition spec_mtag_offcnts (incl : bool) (mt : mtag) (a : darray) (idxs : list Z) : answer (list view3) :=
  if negb (mtag_array_dom mt a) then Unconstrained
  else answers (map (fun i => match spec_mtag_view incl mt a i with Refuse => Unconstrained | x => x end) idxs).

(** feature data for a list of indices: a tagged feature is cut like a reference (domain of the FEATURE array);
    untagged / indexed features only need a positions array that has a first dimension *)
Definition spec_mtag_features (incl : bool) (mt : mtag) (f : feature) (idxs : list Z) : answer (list view3) :=
  match f_link f with
  | LTagged => spec_mtag_views incl mt (f_data f) idxs
  | _ => match n_shape (m_pos mt) with
         | [] => Unconstrained
         | _ => answers (map (spec_mtag_feature incl mt f) (positions_or_all mt idxs))
         end
  end.
