(** C05 / C06 — the extracted brute-force oracle [spec_answer] agrees with the Prop form [region_is]:
    a region it reports is the region, a refusal means that no region exists.  No premise about the
    conversions is involved: only that the coordinates are finite and do not decrease. *)
From Coq Require Import ZArith Bool String List Reals Lia Lra.
From Flocq Require Import Core BinarySingleNaN.
Require Import NixV.Base.Prelude NixV.Base.F64 NixV.Base.F64Facts NixV.Gen.GenDimensions.
Require Import NixV.Axis.AxisSpec.
Require Import NixV.Access.Retrieval NixV.Access.RetrievalSpec NixV.Access.RetrievalFacts NixV.Access.RetrievalAxis
               NixV.Access.RetrievalDomain NixV.Access.RetrievalAssemble.
Import ListNotations.
Local Open Scope list_scope.
Local Open Scope Z_scope.

Lemma want_dom_fin d w : want_dom d w = true -> want_fin w.
Proof.
  destruct w as [s e|s| |]; cbn [want_dom want_fin]; intro H; try exact I.
  - apply andb_true_iff in H. destruct H as [H1 H2]. apply andb_true_iff in H1, H2. split; [apply H1|apply H2].
  - apply andb_true_iff in H. apply H.
Qed.

Lemma spec_dims_sound incl : forall ds shs ws,
  dims_dom ds shs = true -> wants_dom ds ws = true ->
  match spec_dims incl ds shs ws with
  | Region ocs => region_is incl ds shs ws (map fst ocs) (map snd ocs)
  | Refuse => forall off cnt, ~ region_is incl ds shs ws off cnt
  | Unconstrained => True
  end.
Proof.
  induction ds as [|d ds IH]; intros shs ws Hd Hw.
  - destruct shs, ws; cbn [spec_dims]; try exact I. constructor.
  - destruct shs as [|sh shs]; [discriminate|]. destruct ws as [|w ws]; [exact I|].
    cbn [dims_dom] in Hd. apply andb_true_iff in Hd. destruct Hd as [Hd Hds].
    cbn [wants_dom] in Hw. apply andb_true_iff in Hw. destruct Hw as [Hw Hws].
    destruct (dim_dom_fin_mono d sh Hd) as (Hsh & Fin & Mono).
    pose proof (want_dom_fin d w Hw) as Fw.
    specialize (IH shs ws Hds Hws). cbn [spec_dims].
    destruct (spec_dim d sh incl w) as [[o c]| |] eqn:E.
    + pose proof (spec_dim_region d sh Hsh Fin Mono incl w o c Fw E) as D.
      destruct (spec_dims incl ds shs ws) as [ocs| |].
      * cbn [map fst snd]. constructor; assumption.
      * intros off cnt R. apply region_is_head in R. destruct R as (o' & os & c' & cs & -> & -> & _ & R). exact (IH _ _ R).
      * exact I.
    + pose proof (spec_dim_refuse d sh Hsh incl w Fw E) as D.
      destruct (spec_dims incl ds shs ws) as [ocs| |]; try exact I;
        intros off cnt R; apply region_is_head in R; destruct R as (o' & os & c' & cs & -> & -> & R & _); exact (D _ _ R).
    + exact I.
Qed.

(** the oracle reports a region: it is the region of the specification *)
Theorem oracle_region incl a ws off cnt :
  spec_answer incl a ws = Region (off, cnt) -> region_is incl (a_dims a) (a_shape a) ws off cnt.
Proof.
  unfold spec_answer. destruct (1 <=? zlen (a_dims a)); [|discriminate].
  destruct (dims_dom (a_dims a) (a_shape a)) eqn:Hd; [|discriminate].
  destruct (wants_dom (a_dims a) ws) eqn:Hw; [|discriminate]. cbn [andb]. unfold spec_region.
  pose proof (spec_dims_sound incl _ _ _ Hd Hw) as S.
  destruct (spec_dims incl (a_dims a) (a_shape a) ws) as [ocs| |]; try discriminate.
  intro E. injection E as <- <-. exact S.
Qed.

(** the oracle refuses: no region exists (some index set is empty or reaches outside the data) *)
Theorem oracle_refuse incl a ws :
  spec_answer incl a ws = Refuse -> forall off cnt, ~ region_is incl (a_dims a) (a_shape a) ws off cnt.
Proof.
  unfold spec_answer. destruct (1 <=? zlen (a_dims a)); [|discriminate].
  destruct (dims_dom (a_dims a) (a_shape a)) eqn:Hd; [|discriminate].
  destruct (wants_dom (a_dims a) ws) eqn:Hw; [|discriminate]. cbn [andb]. unfold spec_region.
  pose proof (spec_dims_sound incl _ _ _ Hd Hw) as S.
  destruct (spec_dims incl (a_dims a) (a_shape a) ws) as [ocs| |]; try discriminate.
  intros _. exact S.
Qed.

(** the oracle is silent exactly outside the domain or when a request is outside the statement *)
Lemma spec_dims_unconstrained incl : forall ds shs ws, List.length shs = List.length ds -> List.length ws = List.length ds ->
  (spec_dims incl ds shs ws = Unconstrained <-> In WNoSpec ws).
Proof.
  induction ds as [|d ds IH]; intros shs ws Ls Lw.
  - destruct shs, ws; try discriminate. cbn. split; [discriminate|tauto].
  - destruct shs as [|sh shs], ws as [|w ws]; try discriminate. cbn [spec_dims].
    specialize (IH shs ws ltac:(cbn in *; lia) ltac:(cbn in *; lia)).
    pose proof (spec_dim_unconstrained d sh incl w) as U. cbn [In].
    assert (X : (w = WNoSpec \/ In WNoSpec ws) <-> (spec_dim d sh incl w = Unconstrained \/ spec_dims incl ds shs ws = Unconstrained)) by tauto.
    rewrite X. clear X U IH.
    destruct (spec_dim d sh incl w) as [oc| |]; destruct (spec_dims incl ds shs ws) as [ocs| |];
      split; intro H; try discriminate; try reflexivity; try (destruct H; discriminate); try (left; reflexivity); try (right; reflexivity).
Qed.
