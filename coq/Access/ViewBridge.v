(** Tie of the DataView model (Access/View.v, property C17) to the code translated from
    include/nix/NDSize.hpp (comparison operators), include/nix/DataView.hpp (constructor) and
    src/DataView.cpp (transform_coordinates): [NixV.Gen.GenNDSize] and [NixV.Gen.GenView] are regenerated on
    every run; the hand definitions are proved equal to them for every rank below the fuel of the
    generated loops (rank < LOOP_FUEL = 200; HDF5 limits the rank to 32). *)
From Coq Require Import ZArith Bool String List Lia.
Require Import NixV.Base.Prelude NixV.Base.NDSizeOps NixV.Gen.GenNDSize NixV.Gen.GenView.
Require Import NixV.Access.AccessBridge.
Require NixV.Access.View NixV.Access.SliceSwitches.
Import ListNotations.
Local Open Scope Z_scope.

Lemma len_eqb {A B} (a : list A) (b : list B) : Nat.eqb (List.length a) (List.length b) = (zlen a =? zlen b).
Proof.
  unfold zlen. destruct (Nat.eqb_spec (List.length a) (List.length b)) as [E|E].
  - rewrite E. symmetry. apply Z.eqb_refl.
  - symmetry. apply Z.eqb_neq. lia.
Qed.

(** ** NDSize addition *)
Lemma nd_add_go_map2 : forall a b, nd_add_go a b = View.map2 u64_add a b.
Proof. induction a as [|x a IH]; intros [|y b]; cbn; try reflexivity. rewrite IH. reflexivity. Qed.

Lemma nd_add_is_view a b : NDSizeOps.nd_add a b = View.nd_add a b.
Proof. unfold NDSizeOps.nd_add, View.nd_add. rewrite len_eqb, nd_add_go_map2. reflexivity. Qed.

(** ** operator<= and operator> *)
Fixpoint all_le (a b : list Z) : bool :=
  match a, b with
  | x :: a', y :: b' => negb (x >? y) && all_le a' b'
  | _, _ => true
  end.

Lemma le_loop_spec : forall fuel ls rs pre_l pre_r,
  List.length rs = List.length ls -> List.length pre_r = List.length pre_l ->
  (List.length ls < fuel)%nat -> (List.length pre_l + List.length ls < 900)%nat ->
  nd_le_loop1 (pre_l ++ ls) (pre_r ++ rs) (zlen (pre_l ++ ls)) fuel (zlen pre_l) = Ok (all_le ls rs).
Proof.
  induction fuel as [|fuel IH]; intros ls rs pre_l pre_r Hr Hp Hf Hs; [lia|].
  cbn [nd_le_loop1]. destruct ls as [|l ls].
  - rewrite app_nil_r, Z.ltb_irrefl. destruct rs; [reflexivity|discriminate].
  - destruct rs as [|r rs]; [discriminate|].
    rewrite zlen_app, zlen_cons. pose proof (zlen_nonneg ls).
    replace (zlen pre_l <? zlen pre_l + (1 + zlen ls)) with true by (symmetry; apply Z.ltb_lt; lia).
    assert (Ep : zlen pre_l = zlen pre_r) by (unfold zlen; lia).
    rewrite (nd_get_mid pre_l l ls). cbn [bind].
    rewrite Ep at 1. rewrite nd_get_mid. cbn [bind all_le].
    destruct (l >? r); cbn [negb andb]; [reflexivity|].
    cbn [List.length] in *. rewrite u64_succ by (unfold zlen; lia).
    replace (zlen pre_l + 1) with (zlen (pre_l ++ [l])) by (rewrite zlen_app; reflexivity).
    replace (zlen pre_l + (1 + zlen ls)) with (zlen ((pre_l ++ [l]) ++ ls)) by (rewrite !zlen_app, zlen_cons; unfold zlen; cbn [List.length]; lia).
    replace (pre_l ++ l :: ls) with ((pre_l ++ [l]) ++ ls) by (rewrite <- app_assoc; reflexivity).
    replace (pre_r ++ r :: rs) with ((pre_r ++ [r]) ++ rs) by (rewrite <- app_assoc; reflexivity).
    apply IH; rewrite ?app_length; cbn [List.length]; lia.
Qed.

Lemma all_le_any_gt : forall a b, negb (all_le a b) = View.any_gt a b.
Proof.
  induction a as [|x a IH]; intros [|y b]; cbn [all_le View.any_gt]; try reflexivity.
  rewrite negb_andb, negb_involutive, IH, Z.gtb_ltb. reflexivity.
Qed.

Theorem nd_gt_generated a b : (List.length a < 200)%nat -> GenNDSize.nd_gt a b = View.nd_gt a b.
Proof.
  intros Hr. unfold GenNDSize.nd_gt, nd_le, View.nd_gt. rewrite len_eqb.
  destruct (zlen a =? zlen b) eqn:E; cbn [negb]; [|reflexivity].
  apply Z.eqb_eq in E. unfold zlen in E.
  pose proof (le_loop_spec LOOP_FUEL a b [] []) as L. cbn [app zlen List.length Z.of_nat] in L.
  change (Z.of_nat (List.length a)) with (zlen a) in L.
  rewrite L by (cbn [List.length]; unfold LOOP_FUEL; lia).
  cbn [bind]. rewrite all_le_any_gt. reflexivity.
Qed.

(** ** the window loops *)
Lemma ctor_loop_spec ade : forall fuel ls os cs pre_l pre_o pre_c,
  List.length os = List.length ls -> List.length cs = List.length ls ->
  List.length pre_o = List.length pre_l -> List.length pre_c = List.length pre_l ->
  (List.length ls < fuel)%nat -> (List.length pre_l + List.length ls < 900)%nat ->
  DataView_ctor_loop1 (pre_c ++ cs) (pre_o ++ os) ade (pre_l ++ ls) fuel (zlen pre_l)
  = if View.leaves ls os cs then Err "nix::OutOfBounds"%string else Ok tt.
Proof.
  induction fuel as [|fuel IH]; intros ls os cs pre_l pre_o pre_c Ho Hc Hpo Hpc Hf Hs; [lia|].
  cbn [DataView_ctor_loop1]. destruct ls as [|l ls].
  - rewrite app_nil_r, Z.ltb_irrefl. destruct os, cs; try discriminate. reflexivity.
  - destruct os as [|o os]; [discriminate|]. destruct cs as [|c cs]; [discriminate|].
    rewrite zlen_app, zlen_cons. pose proof (zlen_nonneg ls).
    replace (zlen pre_l <? zlen pre_l + (1 + zlen ls)) with true by (symmetry; apply Z.ltb_lt; lia).
    assert (Eo : zlen pre_l = zlen pre_o) by (unfold zlen; lia).
    assert (Ec : zlen pre_l = zlen pre_c) by (unfold zlen; lia).
    assert (Gc : nd_get (pre_c ++ c :: cs) (zlen pre_l) = Ok c) by (rewrite Ec; apply nd_get_mid).
    assert (Go : nd_get (pre_o ++ o :: os) (zlen pre_l) = Ok o) by (rewrite Eo; apply nd_get_mid).
    pose proof (nd_get_mid pre_l l ls) as Gl.
    rewrite Go. cbn [bind]. rewrite Gl. cbn [bind View.leaves].
    rewrite Z.gtb_ltb. destruct (l <? o) eqn:E1; cbn [bind orb]; [reflexivity|].
    rewrite ?Gc, ?Gl, ?Go. cbn [bind]. rewrite Z.gtb_ltb.
    destruct (u64_sub l o <? c) eqn:E2; cbn [bind orb]; [reflexivity|].
    cbn [List.length] in *. clear Gc Go Gl. rewrite u64_succ by (unfold zlen; lia).
    replace (zlen pre_l + 1) with (zlen (pre_l ++ [l])) by (rewrite zlen_app; reflexivity).
    replace (pre_l ++ l :: ls) with ((pre_l ++ [l]) ++ ls) by (rewrite <- app_assoc; reflexivity).
    replace (pre_o ++ o :: os) with ((pre_o ++ [o]) ++ os) by (rewrite <- app_assoc; reflexivity).
    replace (pre_c ++ c :: cs) with ((pre_c ++ [c]) ++ cs) by (rewrite <- app_assoc; reflexivity).
    apply IH; rewrite ?app_length; cbn [List.length]; lia.
Qed.

Lemma tc_loop_spec offset : forall fuel ls os cs pre_l pre_o pre_c,
  List.length os = List.length ls -> List.length cs = List.length ls ->
  List.length pre_o = List.length pre_l -> List.length pre_c = List.length pre_l ->
  (List.length ls < fuel)%nat -> (List.length pre_l + List.length ls < 900)%nat ->
  transform_coordinates_loop1 (pre_c ++ cs) (pre_o ++ os) (pre_l ++ ls) offset fuel (zlen pre_l)
  = if View.leaves ls os cs then Err "nix::OutOfBounds"%string else NDSizeOps.nd_add offset (pre_o ++ os).
Proof.
  induction fuel as [|fuel IH]; intros ls os cs pre_l pre_o pre_c Ho Hc Hpo Hpc Hf Hs; [lia|].
  cbn [transform_coordinates_loop1]. destruct ls as [|l ls].
  - rewrite app_nil_r, Z.ltb_irrefl. destruct os, cs; try discriminate. cbn [View.leaves].
    destruct (NDSizeOps.nd_add offset (pre_o ++ [])); reflexivity.
  - destruct os as [|o os]; [discriminate|]. destruct cs as [|c cs]; [discriminate|].
    rewrite zlen_app, zlen_cons. pose proof (zlen_nonneg ls).
    replace (zlen pre_l <? zlen pre_l + (1 + zlen ls)) with true by (symmetry; apply Z.ltb_lt; lia).
    assert (Eo : zlen pre_l = zlen pre_o) by (unfold zlen; lia).
    assert (Ec : zlen pre_l = zlen pre_c) by (unfold zlen; lia).
    assert (Gc : nd_get (pre_c ++ c :: cs) (zlen pre_l) = Ok c) by (rewrite Ec; apply nd_get_mid).
    assert (Go : nd_get (pre_o ++ o :: os) (zlen pre_l) = Ok o) by (rewrite Eo; apply nd_get_mid).
    pose proof (nd_get_mid pre_l l ls) as Gl.
    rewrite Go. cbn [bind]. rewrite Gl. cbn [bind View.leaves].
    rewrite Z.gtb_ltb. destruct (l <? o) eqn:E1; cbn [bind orb]; [reflexivity|].
    rewrite ?Gc, ?Gl, ?Go. cbn [bind]. rewrite Z.gtb_ltb.
    destruct (u64_sub l o <? c) eqn:E2; cbn [bind orb]; [reflexivity|].
    cbn [List.length] in *. clear Gc Go Gl. rewrite u64_succ by (unfold zlen; lia).
    replace (zlen pre_l + 1) with (zlen (pre_l ++ [l])) by (rewrite zlen_app; reflexivity).
    replace (pre_l ++ l :: ls) with ((pre_l ++ [l]) ++ ls) by (rewrite <- app_assoc; reflexivity).
    replace (pre_o ++ o :: os) with ((pre_o ++ [o]) ++ os) by (rewrite <- app_assoc; reflexivity).
    replace (pre_c ++ c :: cs) with ((pre_c ++ [c]) ++ cs) by (rewrite <- app_assoc; reflexivity).
    apply IH; rewrite ?app_length; cbn [List.length]; lia.
Qed.

(** ** the constructor and transform_coordinates of the model are the generated code *)
Theorem mk_view_generated B extent cnt off :
  SliceSwitches.view_check_wraps B = false -> (List.length extent < 200)%nat ->
  GenView.DataView_ctor cnt off extent = bind (View.mk_view B extent cnt off) (fun _ => Ok tt).
Proof.
  intros HB Hr. unfold GenView.DataView_ctor, View.mk_view. rewrite HB, !len_eqb.
  destruct (zlen off =? zlen extent) eqn:E1; cbn [negb]; [|reflexivity].
  destruct (zlen cnt =? zlen extent) eqn:E2; cbn [negb]; [|reflexivity].
  apply Z.eqb_eq in E1, E2. unfold zlen in E1, E2.
  pose proof (ctor_loop_spec extent LOOP_FUEL extent off cnt [] [] []) as L. cbn [app zlen List.length Z.of_nat] in L.
  rewrite L by (cbn [List.length]; unfold LOOP_FUEL; lia).
  destruct (View.leaves extent off cnt); reflexivity.
Qed.

Theorem transform_coordinates_generated B v cnt off :
  SliceSwitches.view_check_wraps B = false -> (List.length (View.v_count v) < 200)%nat -> (List.length cnt < 200)%nat ->
  GenView.transform_coordinates cnt off (View.v_count v) (View.v_offset v) = View.transform_coordinates B v cnt off.
Proof.
  intros HB Hr Hc. unfold GenView.transform_coordinates, View.transform_coordinates.
  destruct off as [|o off].
  - cbn [zlen List.length Z.of_nat Z.ltb Z.compare negb]. rewrite nd_gt_generated by exact Hc. reflexivity.
  - replace (0 <? zlen (o :: off)) with true by (symmetry; apply Z.ltb_lt; rewrite zlen_cons; pose proof (zlen_nonneg off); lia).
    cbn [negb]. rewrite HB, !len_eqb.
    destruct (zlen cnt =? zlen (View.v_count v)) eqn:E1; cbn [negb orb]; [|reflexivity].
    destruct (zlen (o :: off) =? zlen (View.v_count v)) eqn:E2; cbn [negb orb]; [|reflexivity].
    apply Z.eqb_eq in E1, E2. unfold zlen in E1, E2.
    pose proof (tc_loop_spec (View.v_offset v) LOOP_FUEL (View.v_count v) (o :: off) cnt [] [] []) as L.
    cbn [app zlen List.length Z.of_nat] in L.
    rewrite L by (cbn [List.length] in *; unfold LOOP_FUEL; lia).
    rewrite nd_add_is_view. reflexivity.
Qed.
