(** C17 - position-based slices: the repaired model of Access/Slice.v meets the specification of
    Access/SliceSpec.v; computed counterexamples for the pinned code; C18 (second half): an exactly
    rescaled request selects the same box.

    The position -> index layer enters through [idx_spec d p]: "for every rule, the conversion of position
    p on dimension d succeeds and returns the index the rule defines" - the statement of the C07 theorems
    (sampled_index_spec, set_index_spec, df_index_spec, range_index_spec).  The theorems below take it as
    a hypothesis for the (scaled) request positions; [sampled_idx_spec] discharges it for sampled dimensions
    from Axis/SampledProofs.v. *)
From Coq Require Import ZArith Bool String List Reals Lia Lra.
Require Import ZifyBool.
From Flocq Require Import Core BinarySingleNaN.
Require Import NixV.Base.Prelude NixV.Base.F64 NixV.Base.F64Facts NixV.Gen.GenDimensions NixV.Gen.GenTables
               NixV.Axis.RangeModel NixV.Axis.AxisSpec NixV.Axis.AxisSpecProofs NixV.Axis.SampledHand NixV.Axis.SampledProofs
               NixV.Data.NDIndex NixV.Data.NDArr NixV.Data.NDProofs
               NixV.Access.SliceSwitches NixV.Access.View NixV.Access.Slice NixV.Access.SliceSpec
               NixV.Access.SliceFacts NixV.Access.ViewProofs.
Import ListNotations.
Local Open Scope Z_scope.

(** * Axes *)

Definition dim_N (d : dim) : Z := match dim_n d with Some k => k | None => 0 end.

Lemma dim_n_N : forall d, dim_n d = Some (dim_N d).
Proof. intro d. unfold dim_N. destruct d; cbn [dim_n]; try reflexivity; unfold n_count; destruct (_ =? 0); reflexivity. Qed.

(** the coordinates are finite and do not decrease; indices stay in the range where an index is a double *)
Record axis_ok (d : dim) : Prop := mkAxisOk {
  ax_fin : forall i, 0 <= i < dim_N d -> finite (dim_x d i);
  ax_mono : forall i j, 0 <= i <= j -> j < dim_N d -> (B2R (dim_x d i) <= B2R (dim_x d j))%R;
  ax_small : dim_N d <= AXIS_MAX + 1
}.

(** the C07 statement for dimension [d] and position [p], all five rules *)
Definition idx_spec (d : dim) (p : F64) : Prop :=
  forall m, exists r, dim_index d p m = Ok r /\ rule_spec (dim_x d) (dim_n d) m p r.

Lemma inax_dim : forall d i, inax (dim_n d) i <-> 0 <= i < dim_N d.
Proof. intros d i. rewrite dim_n_N. apply inax_N. Qed.

Lemma inaxb_dim : forall d i, inaxb (dim_n d) i = ((0 <=? i) && (i <? dim_N d)).
Proof. intros d i. rewrite dim_n_N. reflexivity. Qed.

(** sampled dimensions: the hypothesis is the theorem of Axis/SampledProofs.v *)
Theorem sampled_idx_spec : forall dt off u p,
  finite p -> finite (off_or0 off) -> finite dt -> (0 < B2R dt)%R -> axis_finite dt (off_or0 off) ->
  idx_spec (DSampled dt off u) p.
Proof.
  intros dt off u p Fp Fo Fd Hd Ha m.
  destruct (sampled_index_spec p (off_or0 off) dt m Fp Fo Fd Hd Ha) as (r & H1 & H2).
  exists r. split; [exact H1 | exact H2].
Qed.

Theorem sampled_axis_ok : forall dt off u,
  finite (off_or0 off) -> finite dt -> (0 < B2R dt)%R -> axis_finite dt (off_or0 off) ->
  axis_ok (DSampled dt off u).
Proof.
  intros dt off u Fo Fd Hd Ha. constructor; cbn [dim_x dim_N dim_n].
  - intros i Hi. apply Ha. unfold AXIS_MAX, MAXI in *. lia.
  - intros i j Hij Hj. apply x_sampled_mono; try assumption; [lra | unfold AXIS_MAX, MAXI in *; lia].
  - lia.
Qed.

(** * One dimension: the index pair is the region *)

Definition end_holds (rm : RangeMatch) (e c : F64) : bool := if is_incl rm then fle c e else flt c e.

Lemma end_rule_holds : forall rm e c, holds (end_rule rm) e c = end_holds rm e c.
Proof. intros rm e c. unfold end_rule, end_holds, is_incl. destruct (RangeMatch_beq rm RangeMatch_Inclusive); reflexivity. Qed.

Lemma end_rule_last : forall rm, end_rule rm = PositionMatch_Less \/ end_rule rm = PositionMatch_LessOrEqual.
Proof. intro rm. unfold end_rule. destruct (RangeMatch_beq rm RangeMatch_Inclusive); auto. Qed.

Lemma in_req_int : forall d n s e rm i,
  in_req d n (RInt s e (is_incl rm)) i = inaxb (dim_n d) i && fle s (dim_x d i) && end_holds rm e (dim_x d i).
Proof. intros. reflexivity. Qed.

Lemma rule_spec_last : forall x n m p r, (m = PositionMatch_Less \/ m = PositionMatch_LessOrEqual) ->
  rule_spec x n m p r -> is_last_idx n (fun i => holds m p (x i)) r.
Proof. intros x n m p r [-> | ->] H; exact H. Qed.

(** dim_pair computes pair_of of the two conversions *)
Lemma dim_pair_eval : forall d s e rm si ei,
  fgt s e = false ->
  dim_index d s PositionMatch_GreaterOrEqual = Ok si -> dim_index d e (end_rule rm) = Ok ei ->
  dim_pair d s e rm = Ok (pair_of false si ei).
Proof.
  intros d s e rm si ei Hg Hs He. unfold dim_pair. rewrite Hg, Hs. cbn [bind].
  destruct d; try (rewrite He; reflexivity).
  destruct si; [rewrite He; reflexivity | reflexivity].
Qed.

Theorem dim_pair_region : forall d n s e rm,
  axis_ok d -> finite s -> finite e -> idx_spec d s -> idx_spec d e ->
  exists r, dim_pair d s e rm = Ok r /\
    match r with
    | Some ab => 0 <= fst ab /\ fst ab <= snd ab /\ snd ab < dim_N d /\
                 forall i, (fst ab <= i <= snd ab <-> in_req d n (RInt s e (is_incl rm)) i = true)
    | None => forall i, in_req d n (RInt s e (is_incl rm)) i = false
    end.
Proof.
  intros d n s e rm [Fx Mono _] Fs Fe Is Ie.
  set (x := dim_x d) in *. set (N := dim_N d) in *.
  assert (UP := holds_up x N s Fs Fx Mono PositionMatch_GreaterOrEqual).
  assert (DOWN := holds_down x N e Fe Fx Mono (end_rule rm)).
  destruct (fgt s e) eqn:G.
  { (* start > end: no index pair, and the region is empty *)
    exists None. split; [unfold dim_pair; rewrite G; reflexivity|].
    intro i. rewrite in_req_int. fold x.
    destruct (inaxb (dim_n d) i) eqn:A; [|reflexivity].
    assert (Hi : 0 <= i < N) by (apply inax_dim; exact A).
    specialize (Fx i Hi).
    destruct (fle s (x i)) eqn:L; [|reflexivity]. cbn [andb].
    apply (fle_true _ _ Fs Fx) in L.
    unfold fgt in G. apply (flt_true _ _ Fe Fs) in G.
    unfold end_holds. destruct (is_incl rm).
    - destruct (fle (x i) e) eqn:L2; [|reflexivity]. apply (fle_true _ _ Fx Fe) in L2. lra.
    - destruct (flt (x i) e) eqn:L2; [|reflexivity]. apply (flt_true _ _ Fx Fe) in L2. lra. }
  destruct (Is PositionMatch_GreaterOrEqual) as (si & Hsi & Ssi).
  destruct (Ie (end_rule rm)) as (ei & Hei & Sei).
  apply rule_spec_last in Sei; [|apply end_rule_last].
  cbn [rule_spec] in Ssi. fold x in Ssi, Sei.
  exists (pair_of false si ei). split; [apply dim_pair_eval; assumption|].
  assert (REG : forall i, in_req d n (RInt s e (is_incl rm)) i = true <->
                          (0 <= i < N /\ holds PositionMatch_GreaterOrEqual s (x i) = true /\ holds (end_rule rm) e (x i) = true)).
  { intro i. rewrite in_req_int, end_rule_holds. fold x. cbn [holds]. rewrite !andb_true_iff.
    change (inaxb (dim_n d) i = true) with (inax (dim_n d) i). rewrite inax_dim. fold N. tauto. }
  unfold pair_of.
  destruct si as [a|]; destruct ei as [b|]; cbn [is_first_idx is_last_idx] in Ssi, Sei.
  - destruct Ssi as (Aa & Pa & Mina). destruct Sei as (Ab & Pb & Maxb).
    apply inax_dim in Aa, Ab. fold N in Aa, Ab.
    destruct (a <=? b) eqn:LE.
    + apply Z.leb_le in LE. cbn [fst snd]. split; [lia|]. split; [lia|]. split; [lia|].
      intro i. rewrite REG. split.
      * intro Hi. split; [lia|]. split.
        -- apply (UP a i); [left; reflexivity | lia | lia | exact Pa].
        -- apply (DOWN i b); [apply end_rule_last | lia | lia | exact Pb].
      * intros (Hi & P1 & P2). split.
        -- apply Mina; [apply inax_dim; exact Hi | exact P1].
        -- apply Maxb; [apply inax_dim; exact Hi | exact P2].
    + apply Z.leb_gt in LE. intro i.
      destruct (in_req d n (RInt s e (is_incl rm)) i) eqn:E; [|reflexivity].
      apply REG in E. destruct E as (Hi & P1 & P2).
      assert (a <= i) by (apply Mina; [apply inax_dim; exact Hi | exact P1]).
      assert (i <= b) by (apply Maxb; [apply inax_dim; exact Hi | exact P2]). lia.
  - intro i. destruct (in_req d n (RInt s e (is_incl rm)) i) eqn:E; [|reflexivity].
    apply REG in E. destruct E as (Hi & P1 & P2).
    rewrite (Sei i) in P2; [discriminate | apply inax_dim; exact Hi].
  - intro i. destruct (in_req d n (RInt s e (is_incl rm)) i) eqn:E; [|reflexivity].
    apply REG in E. destruct E as (Hi & P1 & P2).
    rewrite (Ssi i) in P1; [discriminate | apply inax_dim; exact Hi].
  - intro i. destruct (in_req d n (RInt s e (is_incl rm)) i) eqn:E; [|reflexivity].
    apply REG in E. destruct E as (Hi & P1 & P2).
    rewrite (Ssi i) in P1; [discriminate | apply inax_dim; exact Hi].
Qed.

(** * One dimension: units *)

(** getSIScaling agrees with the quotient of the prefix factors (SliceFacts.si_scaling_fdiv shows it for every
    prefix of the generated table) *)
Definition unit_ok (u : unit_t) (d : dim) : Prop :=
  forall a b, u = Some a -> dim_unit d = Some b -> String.eqb (snd a) (snd b) = true ->
    si_scaling a b = Ok (fdiv (factor (fst a)) (factor (fst b))).

Theorem unit_ok_known : forall u d,
  (forall a, u = Some a -> In (fst a) known_prefixes) ->
  (forall b, dim_unit d = Some b -> In (fst b) known_prefixes) -> unit_ok u d.
Proof.
  intros u d Hu Hd a b Ea Eb Hb. apply String.eqb_eq in Hb.
  destruct a as [pa ba], b as [pb bb]. cbn [fst snd] in *. subst bb.
  apply si_scaling_fdiv; [apply (Hu _ Ea) | apply (Hd _ Eb)].
Qed.

Lemma pair_factor_spec : forall u d, unit_ok u d ->
  match d with DSet _ | DFrame _ => True | _ =>
    match spec_factor u d with
    | Ok (Some f) => pair_factor u (dim_unit d) = Ok f
    | Ok None => False
    | Err _ => pair_factor u (dim_unit d) = Err incompatible
    | UB _ => False
    end
  end.
Proof.
  intros u d UO. unfold unit_ok in UO.
  destruct d as [dt off du | ticks du | |]; try exact I; cbn [spec_factor dim_unit] in *;
    (destruct u as [a|]; [|reflexivity]); (destruct du as [b|]; [|reflexivity]);
    cbn [pair_factor]; unfold scaling_or_incompatible;
    (destruct (String.eqb (snd a) (snd b)) eqn:E;
     [rewrite (UO a b eq_refl eq_refl E); reflexivity
     | destruct (si_scaling_other_base a b E) as [err ->]; reflexivity]).
Qed.

Lemma p2i_pair_spec : forall d s e u rm, unit_ok u d ->
  match spec_factor u d with
  | Ok f => position_to_index_pair d s e u rm = dim_pair d (scaled f s) (scaled f e) rm
  | Err _ => position_to_index_pair d s e u rm = Err incompatible
  | UB _ => False
  end.
Proof.
  intros d s e u rm UO. pose proof (pair_factor_spec u d UO) as H.
  destruct d as [dt off du | ticks du | labels | rows].
  - destruct (spec_factor u (DSampled dt off du)) as [[f|]|err|w]; try contradiction;
      cbn [position_to_index_pair dim_unit] in *; rewrite H; reflexivity.
  - destruct (spec_factor u (DRange ticks du)) as [[f|]|err|w]; try contradiction;
      cbn [position_to_index_pair dim_unit] in *; rewrite H; reflexivity.
  - reflexivity.
  - reflexivity.
Qed.

(** * One dimension: the loop body of dataSlice *)

Lemma repaired_mode : forall rm s e,
  is_incl (if negb false && RangeMatch_beq rm RangeMatch_Exclusive && feq s e then RangeMatch_Inclusive else rm)
  = is_incl rm || feq s e.
Proof. intros rm s e. destruct rm; destruct (feq s e); reflexivity. Qed.

Lemma count_small : forall a b, 0 <= a -> a <= b -> b < AXIS_MAX + 1 -> u64_add 1 (u64_sub b a) = b - a + 1.
Proof.
  intros a b H0 H1 H2. unfold AXIS_MAX in H2.
  unfold u64_sub, u64_wrap. rewrite Z.mod_small by (unfold two64; lia).
  unfold u64_add, u64_wrap. rewrite Z.mod_small by (unfold two64; lia). lia.
Qed.

(** what must be known about the request of one dimension: its converted positions are finite and the C07
    statement holds for them *)
Definition req_ok (d : dim) (r : req) : Prop :=
  match r with
  | RFull => True
  | RInt s e _ => finite s /\ finite e /\ idx_spec d s /\ idx_spec d e
  end.

Theorem slice_dim_spec : forall B rm d sa ea s e u n,
  slice_reads_argument_vectors B = false -> slice_point_snaps B = false ->
  axis_ok d -> unit_ok u d ->
  (forall r, spec_req d s e u rm = Ok r -> req_ok d r) ->
  match spec_req d s e u rm with
  | Ok r =>
      match slice_dim B rm d sa ea s e u with
      | Ok oc => 0 <= fst oc /\ 1 <= snd oc /\ fst oc + snd oc <= dim_N d /\
                 forall i, (fst oc <= i < fst oc + snd oc <-> in_req d n r i = true)
      | Err _ => forall i, in_req d n r i = false
      | UB _ => False
      end
  | Err _ => exists err, slice_dim B rm d sa ea s e u = Err err
  | UB _ => False
  end.
Proof.
  intros B rm d sa ea s e u n HA HP AX UO RO.
  unfold spec_req in *. unfold slice_dim. rewrite HA, HP.
  destruct (fgt s e) eqn:G; [eexists; reflexivity|].
  cbn [bind fst snd].
  set (rm' := if negb false && RangeMatch_beq rm RangeMatch_Exclusive && feq s e then RangeMatch_Inclusive else rm).
  pose proof (p2i_pair_spec d s e u rm' UO) as PP.
  destruct (spec_factor u d) as [f|err|w]; cbn [bind] in *.
  - specialize (RO _ eq_refl). cbn [req_ok] in RO. destruct RO as (Fs & Fe & Is & Ie).
    rewrite PP.
    destruct (dim_pair_region d n (scaled f s) (scaled f e) rm' AX Fs Fe Is Ie) as (r & Hr & Sr).
    rewrite Hr. cbn [bind]. unfold rm' in Sr. rewrite repaired_mode in Sr.
    destruct r as [ab|].
    + destruct Sr as (H0 & H1 & H2 & Hreg). cbn [fst snd].
      destruct AX as [_ _ Small].
      rewrite count_small by lia.
      split; [lia|]. split; [lia|]. split; [lia|].
      intro i. rewrite <- Hreg. lia.
    + exact Sr.
  - rewrite PP. cbn [bind]. eexists. reflexivity.
  - exact PP.
Qed.

(** * The brute-force evaluator of one dimension *)

Lemma zseq_In : forall a n i, In i (zseq a n) <-> a <= i < a + n.
Proof.
  intros a n i. unfold zseq. rewrite in_map_iff. split.
  - intros (k & <- & Hk). apply in_seq in Hk. lia.
  - intro H. exists (Z.to_nat (i - a)). split; [lia|]. apply in_seq. lia.
Qed.

Lemma zseq_length : forall a n, List.length (zseq a n) = Z.to_nat n.
Proof. intros. unfold zseq. rewrite map_length, seq_length. reflexivity. Qed.

Lemma map_seq_shift : forall {A} n (f : nat -> A) s, map f (seq s n) = map (fun k => f (s + k)%nat) (seq 0 n).
Proof.
  intros A n. induction n as [|n IH]; intros f s0; [reflexivity|].
  cbn [seq map]. rewrite Nat.add_0_r. f_equal.
  rewrite (IH f (S s0)). rewrite (IH (fun k => f (s0 + k)%nat) 1%nat). apply map_ext. intro k. f_equal. lia.
Qed.

Lemma zseq_app : forall a n1 n2, 0 <= n1 -> 0 <= n2 -> zseq a (n1 + n2) = zseq a n1 ++ zseq (a + n1) n2.
Proof.
  intros a n1 n2 H1 H2. unfold zseq.
  rewrite Z2Nat.inj_add by assumption. rewrite seq_app, map_app. f_equal.
  cbn [Nat.add]. rewrite map_seq_shift. apply map_ext. intro k. lia.
Qed.

Lemma filter_none : forall {A} (P : A -> bool) l, (forall x, In x l -> P x = false) -> filter P l = [].
Proof.
  induction l as [|x l IH]; intro H; [reflexivity|]. cbn [filter]. rewrite (H x) by (left; reflexivity).
  apply IH. intros y Hy. apply H. right. exact Hy.
Qed.

Lemma filter_all : forall {A} (P : A -> bool) l, (forall x, In x l -> P x = true) -> filter P l = l.
Proof.
  induction l as [|x l IH]; intro H; [reflexivity|]. cbn [filter]. rewrite (H x) by (left; reflexivity).
  f_equal. apply IH. intros y Hy. apply H. right. exact Hy.
Qed.

Lemma filter_interval : forall (P : Z -> bool) o c m, 0 <= o -> 0 <= c -> o + c <= m ->
  (forall i, 0 <= i < m -> (P i = true <-> o <= i < o + c)) -> filter P (zseq 0 m) = zseq o c.
Proof.
  intros P o c m Ho Hc Hm H.
  replace m with (o + (c + (m - o - c))) by lia.
  rewrite zseq_app by lia. rewrite zseq_app by lia. rewrite !filter_app.
  rewrite (filter_none P (zseq 0 o)).
  2:{ intros x Hx. apply zseq_In in Hx. apply not_true_is_false. intro E. apply H in E; lia. }
  rewrite (filter_all P (zseq (0 + o) c)).
  2:{ intros x Hx. apply zseq_In in Hx. apply H; lia. }
  rewrite (filter_none P (zseq (0 + o + c) (m - o - c))).
  2:{ intros x Hx. apply zseq_In in Hx. apply not_true_is_false. intro E. apply H in E; lia. }
  cbn [app]. rewrite app_nil_r. f_equal.
Qed.

(** the model's answer for one specified dimension against the brute-force scan of 0 .. n *)
Theorem spec_dim_box : forall d n s e incl o c,
  0 <= n -> 0 <= o -> 1 <= c ->
  (forall i, (o <= i < o + c <-> in_req d n (RInt s e incl) i = true)) ->
  (o + c <= n -> spec_dim d n (RInt s e incl) = Ok (zseq o c)) /\
  (n < o + c -> exists err, spec_dim d n (RInt s e incl) = Err err).
Proof.
  intros d n s e incl o c Hn Ho Hc H. split; intro Hb; unfold spec_dim.
  - rewrite (filter_interval _ o c n) by (try lia; intros i _; symmetry; apply H).
    assert (Hin : In o (zseq o c)) by (apply zseq_In; lia).
    destruct (zseq o c) as [|z l] eqn:E; [contradiction|].
    replace (in_req d n (RInt s e incl) n) with false; [reflexivity|].
    symmetry. apply not_true_is_false. intro E2. apply H in E2. lia.
  - destruct (filter (in_req d n (RInt s e incl)) (zseq 0 n)) as [|z l] eqn:E; [eexists; reflexivity|].
    assert (Hz : In z (filter (in_req d n (RInt s e incl)) (zseq 0 n))) by (rewrite E; left; reflexivity).
    apply filter_In in Hz. destruct Hz as [Hz1 Hz2]. apply zseq_In in Hz1. apply H in Hz2.
    replace (in_req d n (RInt s e incl) n) with true; [eexists; reflexivity|].
    symmetry. apply H. lia.
Qed.

Theorem spec_dim_empty : forall d n s e incl,
  (forall i, in_req d n (RInt s e incl) i = false) -> exists err, spec_dim d n (RInt s e incl) = Err err.
Proof.
  intros d n s e incl H. unfold spec_dim. rewrite filter_none by (intros; apply H). eexists. reflexivity.
Qed.

Lemma some_or_none : forall P : Z -> bool, (forall i, P i = false) \/ (exists i, P i = true).
Proof.
  intro P. destruct (Classical_Prop.classic (exists i, P i = true)) as [H|H]; [right; exact H|left].
  intro i. destruct (P i) eqn:E; [exfalso; apply H; exists i; exact E | reflexivity].
Qed.

(** on a monotone axis a region is an interval of indices *)
Lemma region_convex : forall d n s e incl z k i,
  axis_ok d -> finite s -> finite e ->
  in_req d n (RInt s e incl) z = true -> in_req d n (RInt s e incl) i = true -> z <= k <= i ->
  in_req d n (RInt s e incl) k = true.
Proof.
  intros d n s e incl z k i [Fx Mono _] Fs Fe Hz Hi Hk.
  cbn [in_req] in *. rewrite !andb_true_iff in *. destruct Hi as [[Ai Si] Ei], Hz as [[Az Sz] Ez].
  change (inax (dim_n d) i) in Ai. change (inax (dim_n d) z) in Az. apply inax_dim in Ai, Az.
  assert (Ak : 0 <= k < dim_N d) by lia.
  pose proof (Fx z Az) as Fz. pose proof (Fx k Ak) as Fk. pose proof (Fx i Ai) as Fi.
  pose proof (Mono z k ltac:(lia) ltac:(lia)) as M1. pose proof (Mono k i ltac:(lia) ltac:(lia)) as M2.
  apply (fle_true _ _ Fs Fz) in Sz.
  split; [split|].
  - change (inax (dim_n d) k). apply inax_dim. exact Ak.
  - apply (fle_true _ _ Fs Fk). lra.
  - destruct incl.
    + apply (fle_true _ _ Fi Fe) in Ei. apply (fle_true _ _ Fk Fe). lra.
    + apply (flt_true _ _ Fi Fe) in Ei. apply (flt_true _ _ Fk Fe). lra.
Qed.

(** Prop-level reading of the evaluator's answer (the statement of the property for one dimension): on an
    axis whose coordinates do not decrease, [spec_dim] returns the indices of the region, ascending, exactly
    when the region is non-empty and lies in the data, and an error otherwise *)
Theorem spec_dim_exact : forall d n s e incl,
  axis_ok d -> finite s -> finite e -> 0 <= n ->
  match spec_dim d n (RInt s e incl) with
  | Ok l => (forall i, In i l <-> region d n (RInt s e incl) i) /\ l <> [] /\
            (forall i, region d n (RInt s e incl) i -> 0 <= i < n)
  | Err _ => (forall i, ~ region d n (RInt s e incl) i) \/ (exists i, region d n (RInt s e incl) i /\ ~ (0 <= i < n))
  | UB _ => False
  end.
Proof.
  intros d n s e incl AX Fs Fe Hn. unfold spec_dim, region.
  set (P := in_req d n (RInt s e incl)).
  assert (Low : forall i, P i = true -> 0 <= i).
  { intros i Hi. unfold P in Hi. cbn [in_req] in Hi. rewrite !andb_true_iff in Hi. destruct Hi as [[A _] _].
    change (inax (dim_n d) i) in A. apply inax_dim in A. lia. }
  destruct (filter P (zseq 0 n)) as [|z l] eqn:E.
  - (* nothing selected below n: the region is empty or lies entirely beyond the data *)
    destruct (some_or_none P) as [Hall | [i Hi]].
    + left. intros i Hi. rewrite Hall in Hi. discriminate.
    + right. exists i. split; [exact Hi|]. intro Hb.
      assert (In i (filter P (zseq 0 n))) by (apply filter_In; split; [apply zseq_In; lia | exact Hi]).
      rewrite E in H. contradiction.
  - assert (Hz : In z (filter P (zseq 0 n))) by (rewrite E; left; reflexivity).
    apply filter_In in Hz. destruct Hz as [Hz1 Hz2]. apply zseq_In in Hz1.
    destruct (P n) eqn:Pn.
    + right. exists n. split; [exact Pn | lia].
    + assert (Below : forall i, P i = true -> 0 <= i < n).
      { intros i Hi. split; [apply Low; exact Hi|].
        destruct (Z_lt_ge_dec i n) as [Hlt|Hge]; [exact Hlt|exfalso].
        (* a member at or beyond n would force n to be a member *)
        assert (P n = true) by (apply (region_convex d n s e incl z n i AX Fs Fe Hz2 Hi); lia). congruence. }
      split; [|split].
      * intro i. rewrite <- E. rewrite filter_In, zseq_In. split; [tauto|].
        intro Hi. split; [|exact Hi]. specialize (Below i Hi). lia.
      * discriminate.
      * exact Below.
Qed.

(** * mapM *)

Lemma mapM_ok_all : forall {A B} (f : A -> res B) (h : A -> B) l,
  (forall x, In x l -> f x = Ok (h x)) -> mapM f l = Ok (map h l).
Proof.
  induction l as [|x l IH]; intro H; [reflexivity|].
  cbn [mapM map]. rewrite (H x) by (left; reflexivity). cbn [bind].
  rewrite IH by (intros y Hy; apply H; right; exact Hy). reflexivity.
Qed.

Lemma mapM_inv : forall {A B} (f : A -> res B) l,
  match mapM f l with
  | Ok ys => List.length ys = List.length l /\ forall k x, nth_error l k = Some x -> exists y, nth_error ys k = Some y /\ f x = Ok y
  | Err e => exists x, In x l /\ f x = Err e
  | UB w => exists x, In x l /\ f x = UB w
  end.
Proof.
  induction l as [|x l IH]; cbn [mapM].
  - split; [reflexivity|]. intros k y Hk. destruct k; discriminate.
  - destruct (f x) as [y|e|w] eqn:Fx; cbn [bind].
    + destruct (mapM f l) as [ys|e|w]; cbn [bind].
      * destruct IH as [IL IH]. split; [cbn [List.length]; lia|].
        intros k z Hk. destruct k as [|k]; cbn [nth_error] in *.
        -- inversion Hk; subst. exists y. auto.
        -- apply IH. exact Hk.
      * destruct IH as (z & Hz & Fz). exists z. split; [right; exact Hz | exact Fz].
      * destruct IH as (z & Hz & Fz). exists z. split; [right; exact Hz | exact Fz].
    + exists x. split; [left; reflexivity | exact Fx].
    + exists x. split; [left; reflexivity | exact Fx].
Qed.

Lemma mapM_err : forall {A B} (g : A -> res B) l,
  (forall x, In x l -> exists y, g x = Ok y \/ exists e, g x = Err e) ->
  (exists x, In x l /\ exists e, g x = Err e) -> exists e, mapM g l = Err e.
Proof.
  induction l as [|x l IH]; intros Hall (z & Hz & e & Ez); [contradiction|].
  cbn [mapM].
  destruct (Hall x (or_introl eq_refl)) as (y & [Ey | (e' & Ee)]).
  - rewrite Ey. cbn [bind]. destruct Hz as [<- | Hz]; [congruence|].
    destruct (IH (fun w Hw => Hall w (or_intror Hw)) (ex_intro _ z (conj Hz (ex_intro _ e Ez)))) as (e2 & E2).
    rewrite E2. cbn [bind]. eexists. reflexivity.
  - rewrite Ee. cbn [bind]. eexists. reflexivity.
Qed.

(** * fillPositionsExtentsAndUnits *)

Lemma nth_error_snoc_lt : forall {A} (l : list A) x j, (j < List.length l)%nat -> nth_error (l ++ [x]) j = nth_error l j.
Proof. intros. apply nth_error_app1. assumption. Qed.

Lemma nth_error_snoc_eq : forall {A} (l : list A) x, nth_error (l ++ [x]) (List.length l) = Some x.
Proof. intros. rewrite nth_error_app2 by lia. rewrite Nat.sub_diag. reflexivity. Qed.

(** when no position has to be computed (the repair that pads by index, or start and end are complete), the
    loop cannot fail; it only appends: given entries keep their place, missing units are the dimensions' own *)
Lemma fill_props : forall pp ds shape i starts ends units,
  (pp = false \/ (i + List.length ds <= List.length starts /\ i + List.length ds <= List.length ends))%nat ->
  (i <= List.length starts)%nat -> (i <= List.length ends)%nat -> (i <= List.length units)%nat ->
  exists ms me mu, fill pp ds shape i starts ends units = Ok (ms, me, mu) /\
    List.length ms = Nat.max (List.length starts) (i + List.length ds) /\
    List.length me = Nat.max (List.length ends) (i + List.length ds) /\
    List.length mu = Nat.max (List.length units) (i + List.length ds) /\
    (forall j, (j < List.length starts)%nat -> nth_error ms j = nth_error starts j) /\
    (forall j, (j < List.length ends)%nat -> nth_error me j = nth_error ends j) /\
    (forall j, (j < List.length units)%nat -> nth_error mu j = nth_error units j) /\
    (forall j, (List.length units <= j < i + List.length ds)%nat ->
               nth_error mu j = option_map dim_unit (nth_error ds (j - i))).
Proof.
  intros pp ds shape. induction ds as [|d ds IH]; intros i starts ends units Hpp Hs He Hu.
  - exists starts, ends, units. cbn [fill List.length]. rewrite Nat.add_0_r.
    repeat split; try (symmetry; apply Nat.max_l; assumption); try reflexivity.
    intros j Hj. lia.
  - cbn [fill List.length] in *.
    set (units' := if (List.length units <=? i)%nat then units ++ [dim_unit d] else units).
    assert (PS : exists starts', (if (List.length starts <=? i)%nat then bind (pad_start pp d) (fun x => Ok (starts ++ [x])) else Ok starts) = Ok starts' /\
                   List.length starts' = Nat.max (List.length starts) (S i) /\
                   (forall j, (j < List.length starts)%nat -> nth_error starts' j = nth_error starts j)).
    { destruct (List.length starts <=? i)%nat eqn:E.
      - apply Nat.leb_le in E. destruct Hpp as [-> | [H1 _]]; [|lia].
        cbn [pad_start negb bind]. eexists. split; [reflexivity|]. rewrite app_length. cbn [List.length].
        split; [lia|]. intros j Hj. apply nth_error_snoc_lt. exact Hj.
      - apply Nat.leb_gt in E. exists starts. split; [reflexivity|]. split; [lia|]. auto. }
    assert (PE : exists ends', (if (List.length ends <=? i)%nat then bind (pad_end pp d shape i) (fun x => Ok (ends ++ [x])) else Ok ends) = Ok ends' /\
                   List.length ends' = Nat.max (List.length ends) (S i) /\
                   (forall j, (j < List.length ends)%nat -> nth_error ends' j = nth_error ends j)).
    { destruct (List.length ends <=? i)%nat eqn:E.
      - apply Nat.leb_le in E. destruct Hpp as [-> | [_ H1]]; [|lia].
        cbn [pad_end negb bind]. eexists. split; [reflexivity|]. rewrite app_length. cbn [List.length].
        split; [lia|]. intros j Hj. apply nth_error_snoc_lt. exact Hj.
      - apply Nat.leb_gt in E. exists ends. split; [reflexivity|]. split; [lia|]. auto. }
    destruct PS as (starts' & Es & Ls & Ps). destruct PE as (ends' & Ee & Le & Pe).
    rewrite Es. cbn [bind]. rewrite Ee. cbn [bind].
    assert (Lu : List.length units' = Nat.max (List.length units) (S i)).
    { unfold units'. destruct (List.length units <=? i)%nat eqn:E.
      - apply Nat.leb_le in E. rewrite app_length. cbn [List.length]. lia.
      - apply Nat.leb_gt in E. lia. }
    assert (Pu : forall j, (j < List.length units)%nat -> nth_error units' j = nth_error units j).
    { intros j Hj. unfold units'. destruct (List.length units <=? i)%nat; [apply nth_error_snoc_lt; exact Hj | reflexivity]. }
    destruct (IH (S i) starts' ends' units') as (ms & me & mu & EF & Lms & Lme & Lmu & Qs & Qe & Qu & Qpad).
    { destruct Hpp as [-> | [H1 H2]]; [left; reflexivity | right; lia]. }
    { lia. } { lia. } { lia. }
    exists ms, me, mu. split; [exact EF|].
    split; [lia|]. split; [lia|]. split; [lia|].
    split; [intros j Hj; rewrite Qs by lia; apply Ps; exact Hj|].
    split; [intros j Hj; rewrite Qe by lia; apply Pe; exact Hj|].
    split; [intros j Hj; rewrite Qu by lia; apply Pu; exact Hj|].
    intros j Hj.
    destruct (Nat.eq_dec j i) as [-> | Hne].
    + rewrite Nat.sub_diag. cbn [nth_error option_map].
      rewrite Qu by lia. unfold units'.
      replace (List.length units <=? i)%nat with true by (symmetry; apply Nat.leb_le; lia).
      assert (List.length units = i) by lia. subst i. apply nth_error_snoc_eq.
    + replace (j - i)%nat with (S (j - S i)) by lia. cbn [nth_error].
      apply Qpad. lia.
Qed.

(** * The whole slice *)

(** a missing unit is padded with the dimension's own unit: factor 1.0, as for no unit at all *)
Lemma own_unit_pair : forall d s e rm,
  position_to_index_pair d s e (dim_unit d) rm = position_to_index_pair d s e None rm.
Proof.
  intros d s e rm. destruct d as [dt off [b|] | ticks [b|] | |]; cbn [position_to_index_pair dim_unit pair_factor]; try reflexivity;
    unfold scaling_or_incompatible, si_scaling; rewrite !String.eqb_refl; reflexivity.
Qed.

Lemma slice_dim_own_unit : forall B rm d sa ea s e,
  slice_point_snaps B = false ->
  slice_dim B rm d sa ea s e (dim_unit d) = slice_dim B rm d sa ea s e None.
Proof.
  intros B rm d sa ea s e HP. unfold slice_dim. rewrite HP.
  destruct (fgt s e); [reflexivity|].
  destruct (if slice_reads_argument_vectors B then bind sa (fun a => bind ea (fun b => Ok (a, b))) else Ok (s, e)) as [ab|err|w];
    cbn [bind]; try reflexivity.
  rewrite own_unit_pair. reflexivity.
Qed.

Lemma spec_req_int : forall d s e u rm r, spec_req d s e u rm = Ok r -> exists s' e' incl, r = RInt s' e' incl.
Proof.
  intros d s e u rm r H. unfold spec_req in H. destruct (fgt s e); [discriminate|].
  destruct (spec_factor u d); cbn [bind] in H; try discriminate. inversion H. eauto.
Qed.

(** the relation between the model's (offset, count) of one dimension and the evaluator's index list *)
Definition Rel (n : Z) (m : res (Z * Z)) (sp : res (list Z)) : Prop :=
  match m with
  | Ok oc => 0 <= fst oc /\ 1 <= snd oc /\ fst oc + snd oc <= AXIS_MAX + 1 /\
             (fst oc + snd oc <= n -> sp = Ok (zseq (fst oc) (snd oc))) /\
             (n < fst oc + snd oc -> exists e, sp = Err e)
  | Err _ => exists e, sp = Err e
  | UB _ => False
  end.

(** everything the theorems assume about a request *)
Record slice_hyps (dims : list dim) (shape : list Z) (start end_ : list F64) (units : list unit_t) (rm : RangeMatch) : Prop := mkSliceHyps {
  sh_rank : List.length dims = List.length shape;
  sh_shape : forall j n, nth_error shape j = Some n -> 1 <= n <= AXIS_MAX;
  sh_k : List.length start = List.length end_;
  sh_k_le : (List.length start <= List.length dims)%nat;
  sh_units : (List.length units <= List.length start)%nat;
  sh_axes : forall j d, nth_error dims j = Some d -> axis_ok d;
  sh_unit_ok : forall j d, nth_error dims j = Some d -> unit_ok (nth j units None) d;
  sh_req : forall j d s e r, nth_error dims j = Some d -> nth_error start j = Some s -> nth_error end_ j = Some e ->
             spec_req d s e (nth j units None) rm = Ok r -> req_ok d r
}.

Lemma iter_rel : forall B dims shape start end_ units rm ms me mu j d n,
  slice_reads_argument_vectors B = false -> slice_point_snaps B = false ->
  slice_hyps dims shape start end_ units rm ->
  (pads_with_positions B = false \/ List.length start = List.length dims) ->
  (forall i, (i < List.length start)%nat -> nth_error ms i = nth_error start i) ->
  (forall i, (i < List.length end_)%nat -> nth_error me i = nth_error end_ i) ->
  (forall i, (i < List.length units)%nat -> nth_error mu i = nth_error units i) ->
  (forall i, (List.length units <= i < List.length dims)%nat -> nth_error mu i = option_map dim_unit (nth_error dims i)) ->
  nth_error dims j = Some d -> nth_error shape j = Some n ->
  Rel n (slice_iter B rm dims shape start end_ ms me mu j) (spec_slice_dim dims shape start end_ units rm j).
Proof.
  intros B dims shape start end_ units rm ms me mu j d n HA HP [Hrank Hshape Hk Hkle Hunits Haxes Huok Hreq] Hpads Ps Pe Pu Ppad Hd Hn.
  assert (Hj : (j < List.length dims)%nat) by (apply nth_error_Some; congruence).
  specialize (Hshape j n Hn).
  unfold slice_iter, spec_slice_dim. rewrite Hd, Hn.
  destruct (Nat.ltb j (List.length start)) eqn:Ej.
  - (* a specified dimension *)
    apply Nat.ltb_lt in Ej.
    replace (List.length start <=? j)%nat with false by (symmetry; apply Nat.leb_gt; exact Ej).
    rewrite andb_false_r. cbn [andb].
    destruct (nth_error start j) as [s|] eqn:Es; [|apply nth_error_None in Es; lia].
    destruct (nth_error end_ j) as [e|] eqn:Ee; [|apply nth_error_None in Ee; lia].
    unfold get_dim. rewrite Hd. cbn [bind].
    unfold vec_at. rewrite (Ps j Ej), Es. cbn [bind]. rewrite (Pe j ltac:(lia)), Ee. cbn [bind].
    assert (SD : exists u', nth_error mu j = Some u' /\
                   slice_dim B rm d (arg_at start j) (arg_at end_ j) s e u' =
                   slice_dim B rm d (arg_at start j) (arg_at end_ j) s e (nth j units None)).
    { destruct (Nat.ltb j (List.length units)) eqn:Eu.
      - apply Nat.ltb_lt in Eu. rewrite (Pu j Eu).
        destruct (nth_error units j) as [u'|] eqn:E; [|apply nth_error_None in E; lia].
        exists u'. split; [reflexivity|]. rewrite (nth_error_nth units j None E). reflexivity.
      - apply Nat.ltb_ge in Eu. rewrite (Ppad j ltac:(lia)), Hd. cbn [option_map].
        exists (dim_unit d). split; [reflexivity|]. rewrite nth_overflow by exact Eu.
        apply slice_dim_own_unit. exact HP. }
    destruct SD as (u' & Eu' & Esd). rewrite Eu'. cbn [bind]. rewrite Esd.
    pose proof (slice_dim_spec B rm d (arg_at start j) (arg_at end_ j) s e (nth j units None) n HA HP
                  (Haxes j d Hd) (Huok j d Hd) (fun r Hr => Hreq j d s e r Hd Es Ee Hr)) as SP.
    destruct (spec_req d s e (nth j units None) rm) as [r|err|w] eqn:SR; cbn [bind].
    + destruct (spec_req_int _ _ _ _ _ _ SR) as (s' & e' & incl & ->).
      destruct (slice_dim B rm d (arg_at start j) (arg_at end_ j) s e (nth j units None)) as [oc|err|w]; cbn [Rel].
      * destruct SP as (H0 & H1 & H2 & Hreg).
        pose proof (ax_small d (Haxes j d Hd)) as Small.
        destruct (spec_dim_box d n s' e' incl (fst oc) (snd oc) ltac:(lia) H0 H1 Hreg) as [B1 B2].
        repeat split; try lia; assumption.
      * apply spec_dim_empty. exact SP.
      * exact SP.
    + destruct SP as (err' & ->). cbn [Rel]. eexists. reflexivity.
    + contradiction.
  - (* an unspecified dimension: only the repair that pads by index gets here *)
    apply Nat.ltb_ge in Ej.
    destruct Hpads as [Hp | Hfull]; [|lia].
    rewrite Hp. cbn [negb andb].
    replace (List.length start <=? j)%nat with true by (symmetry; apply Nat.leb_le; exact Ej).
    replace (List.length end_ <=? j)%nat with true by (symmetry; apply Nat.leb_le; lia).
    cbn [andb]. unfold shape_at. rewrite Hn. cbn [bind Rel fst snd].
    replace (nth_error start j) with (@None F64) by (symmetry; apply nth_error_None; exact Ej).
    replace (nth_error end_ j) with (@None F64) by (symmetry; apply nth_error_None; lia).
    unfold AXIS_MAX in *. repeat split; try lia.
Qed.

Lemma box_inside_all : forall extent pos cnt, box_inside extent pos cnt = true ->
  forall j n o c, nth_error extent j = Some n -> nth_error pos j = Some o -> nth_error cnt j = Some c ->
  (1 <=? c) && (o <? n) && (c <=? u64_sub n o) = true.
Proof.
  induction extent as [|e extent IH]; destruct pos as [|p pos]; destruct cnt as [|c0 cnt]; intros H j n o c Hn Ho Hc;
    try (destruct j; discriminate).
  cbn [box_inside] in H. apply andb_true_iff in H. destruct H as [H1 H2].
  destruct j as [|j]; cbn [nth_error] in *.
  - inversion Hn; inversion Ho; inversion Hc; subst. exact H1.
  - eapply IH; eassumption.
Qed.

Lemma box_inside_witness : forall extent pos cnt,
  List.length pos = List.length extent -> List.length cnt = List.length extent ->
  box_inside extent pos cnt = false ->
  exists j n o c, nth_error extent j = Some n /\ nth_error pos j = Some o /\ nth_error cnt j = Some c /\
                  (1 <=? c) && (o <? n) && (c <=? u64_sub n o) = false.
Proof.
  induction extent as [|e extent IH]; destruct pos as [|p pos]; destruct cnt as [|c0 cnt]; cbn [List.length];
    intros Lp Lc H; try lia; try discriminate.
  cbn [box_inside] in H.
  destruct ((1 <=? c0) && (p <? e) && (c0 <=? u64_sub e p)) eqn:E.
  - cbn [andb] in H. destruct (IH pos cnt ltac:(lia) ltac:(lia) H) as (j & n & o & c & A1 & A2 & A3 & A4).
    exists (S j), n, o, c. auto.
  - exists 0%nat, e, p, c0. auto.
Qed.

Lemma fits_of_nth : forall extent pos cnt,
  List.length pos = List.length extent -> List.length cnt = List.length extent ->
  (forall j n o c, nth_error extent j = Some n -> nth_error pos j = Some o -> nth_error cnt j = Some c ->
                   0 <= o /\ 0 <= c /\ o + c <= n) ->
  fits extent pos cnt = true.
Proof.
  induction extent as [|e extent IH]; destruct pos as [|p pos]; destruct cnt as [|c0 cnt]; cbn [List.length];
    intros Lp Lc H; try lia; [reflexivity|].
  cbn [fits]. rewrite (IH pos cnt) by (try lia; intros j n o c A1 A2 A3; apply (H (S j)); assumption).
  specialize (H 0%nat e p c0 eq_refl eq_refl eq_refl). rewrite andb_true_r. lia.
Qed.

Lemma map2_fst_snd : forall {A} (f : Z -> Z -> A) (l : list (Z * Z)),
  map2 f (map fst l) (map snd l) = map (fun p => f (fst p) (snd p)) l.
Proof. induction l as [|p l IH]; [reflexivity|]. cbn [map map2]. rewrite IH. reflexivity. Qed.

Lemma map_nth_seq : forall {A B} (g : A -> B) (l : list A) d,
  map (fun j => g (nth j l d)) (seq 0 (List.length l)) = map g l.
Proof.
  intros A B g l d. apply list_eq_nth with (d := g d).
  - rewrite !map_length, seq_length. reflexivity.
  - intros k Hk. rewrite map_length, seq_length in Hk.
    rewrite (nth_map_seq (fun j => g (nth j l d)) k (List.length l) (g d) Hk).
    rewrite map_nth. reflexivity.
Qed.

(** THE SLICE THEOREM.  With the repairable defects repaired, dataSlice returns exactly what the specification's
    brute-force evaluator returns: the box whose per-dimension index lists are the regions, and an error exactly when
    the evaluator reports one (start > end, units of different base, an empty region, a region that leaves the data).
    It holds for the full repair with any number of given positions, and - since the loss of the last element of
    unspecified dimensions is pinned - for the achievable repair when every dimension is specified. *)
Theorem data_slice_meets_spec : forall B dims shape start end_ units rm,
  slices_repaired B ->
  slice_hyps dims shape start end_ units rm ->
  (pads_with_positions B = false \/ List.length start = List.length dims) ->
  match data_slice B dims shape start end_ units rm with
  | Ok v => spec_slice dims shape start end_ units rm = Ok (box_lists (v_offset v) (v_count v)) /\
            fits shape (v_offset v) (v_count v) = true
  | Err _ => exists e, spec_slice dims shape start end_ units rm = Err e
  | UB _ => False
  end.
Proof.
  intros B dims shape start end_ units rm (HA & HP & HE & HV) HY Hpads.
  pose proof HY as [Hrank Hshape Hk Hkle Hunits Haxes Huok Hreq].
  unfold data_slice, spec_slice.
  set (dc := List.length dims) in *.
  replace ((dc <? List.length start)%nat || (dc <? List.length end_)%nat || (dc <? List.length units)%nat) with false.
  2:{ symmetry. rewrite !orb_false_iff. repeat split; apply Nat.ltb_ge; lia. }
  (* the padded vectors *)
  assert (FILL : exists ms me mu,
     (if (List.length start <? dc)%nat || (List.length end_ <? dc)%nat || (List.length units <? dc)%nat
      then fill (pads_with_positions B) dims shape 0 start end_ units else Ok (start, end_, units)) = Ok (ms, me, mu) /\
     List.length ms = dc /\
     (forall i, (i < List.length start)%nat -> nth_error ms i = nth_error start i) /\
     (forall i, (i < List.length end_)%nat -> nth_error me i = nth_error end_ i) /\
     (forall i, (i < List.length units)%nat -> nth_error mu i = nth_error units i) /\
     (forall i, (List.length units <= i < dc)%nat -> nth_error mu i = option_map dim_unit (nth_error dims i))).
  { destruct ((List.length start <? dc)%nat || (List.length end_ <? dc)%nat || (List.length units <? dc)%nat) eqn:C.
    - destruct (fill_props (pads_with_positions B) dims shape 0 start end_ units) as (ms & me & mu & EF & Lms & _ & _ & Qs & Qe & Qu & Qpad).
      { destruct Hpads as [Hp | Hf]; [left; exact Hp | right; fold dc; lia]. }
      { lia. } { lia. } { lia. }
      exists ms, me, mu. split; [exact EF|]. fold dc in Lms, Qpad. split; [lia|].
      split; [exact Qs|]. split; [exact Qe|]. split; [exact Qu|].
      intros i Hi. rewrite (Qpad i) by lia. rewrite Nat.sub_0_r. reflexivity.
    - rewrite !orb_false_iff in C. destruct C as [[C1 C2] C3]. apply Nat.ltb_ge in C1, C2, C3.
      exists start, end_, units. split; [reflexivity|]. split; [lia|]. repeat split; auto. intros i Hi. lia. }
  destruct FILL as (ms & me & mu & -> & Lms & Ps & Pe & Pu & Ppad). cbn [bind fst snd]. rewrite Lms.
  set (f := slice_iter B rm dims shape start end_ ms me mu).
  set (g := spec_slice_dim dims shape start end_ units rm).
  assert (REL : forall j, (j < dc)%nat -> exists d n, nth_error dims j = Some d /\ nth_error shape j = Some n /\ Rel n (f j) (g j)).
  { intros j Hj.
    destruct (nth_error dims j) as [d|] eqn:Ed; [|apply nth_error_None in Ed; fold dc in Ed; lia].
    destruct (nth_error shape j) as [n|] eqn:En; [|apply nth_error_None in En; lia].
    exists d, n. split; [reflexivity|]. split; [reflexivity|].
    apply (iter_rel B dims shape start end_ units rm ms me mu j d n HA HP HY Hpads Ps Pe Pu Ppad Ed En). }
  assert (GOK : forall j, In j (seq 0 dc) -> exists y, g j = Ok y \/ exists e, g j = Err e).
  { intros j Hj. apply in_seq in Hj. destruct (REL j ltac:(lia)) as (d & n & _ & _ & R).
    unfold Rel in R. destruct (f j) as [oc|err|w].
    - destruct R as (_ & _ & _ & R1 & R2). destruct (Z_le_gt_dec (fst oc + snd oc) n) as [Hle|Hgt].
      + exists (zseq (fst oc) (snd oc)). left. apply R1. exact Hle.
      + exists []. right. apply R2. lia.
    - exists []. right. exact R.
    - contradiction. }
  pose proof (mapM_inv f (seq 0 dc)) as INV.
  destruct (mapM f (seq 0 dc)) as [ocs|err|w]; cbn [bind].
  - destruct INV as [Locs INV]. rewrite seq_length in Locs.
    assert (NTH : forall j oc, nth_error ocs j = Some oc -> (j < dc)%nat /\ f j = Ok oc).
    { intros j oc Hoc. assert (Hj : (j < dc)%nat) by (rewrite <- Locs; apply nth_error_Some; congruence).
      split; [exact Hj|]. destruct (INV j j) as (y & Hy & Fy).
      - rewrite nth_error_nth' with (d := 0%nat) by (rewrite seq_length; exact Hj). rewrite seq_nth by exact Hj. reflexivity.
      - rewrite Hy in Hoc. inversion Hoc; subst. exact Fy. }
    unfold position_and_extent_in_data. rewrite HE. cbn [bind].
    rewrite !map_length, Locs, <- Hrank. fold dc. rewrite Nat.eqb_refl. cbn [andb].
    destruct (box_inside shape (map fst ocs) (map snd ocs)) eqn:BI; cbn [negb].
    + (* every dimension's box lies in the data *)
      assert (IN : forall j oc n, nth_error ocs j = Some oc -> nth_error shape j = Some n ->
                     0 <= fst oc /\ 1 <= snd oc /\ fst oc + snd oc <= n /\ g j = Ok (zseq (fst oc) (snd oc))).
      { intros j oc n Hoc Hn. destruct (NTH j oc Hoc) as [Hj Fj].
        destruct (REL j Hj) as (d & n' & _ & Hn' & R). rewrite Hn in Hn'. inversion Hn'; subst n'.
        rewrite Fj in R. cbn [Rel] in R. destruct R as (R0 & R1 & R2 & R3 & _).
        pose proof (box_inside_all _ _ _ BI j n (fst oc) (snd oc) Hn) as BB.
        rewrite !nth_error_map, Hoc in BB. specialize (BB eq_refl eq_refl).
        rewrite !andb_true_iff in BB. destruct BB as [[B1 B2] B3].
        specialize (Hshape j n Hn). unfold AXIS_MAX in *.
        unfold u64_sub, u64_wrap in B3. rewrite Z.mod_small in B3 by (unfold two64; lia).
        assert (fst oc + snd oc <= n) by lia. auto. }
      assert (FITS : fits shape (map fst ocs) (map snd ocs) = true).
      { apply fits_of_nth; try (rewrite map_length; lia).
        intros j n o c Hn Ho Hc. rewrite nth_error_map in Ho, Hc.
        destruct (nth_error ocs j) as [oc|] eqn:Eoc; cbn [option_map] in Ho, Hc; [|discriminate].
        inversion Ho; inversion Hc; subst. destruct (IN j oc n Eoc Hn) as (A & B' & C & _). lia. }
      unfold mk_view. rewrite HV. rewrite !map_length, Locs, <- Hrank. fold dc. rewrite Nat.eqb_refl. cbn [negb].
      rewrite leaves_fits; try (rewrite map_length; lia).
      * rewrite FITS. cbn [negb v_offset v_count]. split; [|exact FITS].
        rewrite (mapM_ok_all g (fun j => zseq (fst (nth j ocs (0, 0))) (snd (nth j ocs (0, 0))))).
        -- f_equal. unfold box_lists. rewrite map2_fst_snd. rewrite <- Locs.
           apply (map_nth_seq (fun p => zseq (fst p) (snd p)) ocs (0, 0)).
        -- intros j Hj. apply in_seq in Hj.
           destruct (nth_error ocs j) as [oc|] eqn:Eoc; [|apply nth_error_None in Eoc; lia].
           destruct (nth_error shape j) as [n|] eqn:En; [|apply nth_error_None in En; lia].
           rewrite (nth_error_nth ocs j (0, 0) Eoc). apply (IN j oc n Eoc En).
      * (* all_u64 shape *)
        apply Forall_forall. intros n Hn. apply In_nth_error in Hn. destruct Hn as [j Hj].
        specialize (Hshape j n Hj). unfold AXIS_MAX, two64 in *. lia.
      * apply Forall_forall. intros o Ho. apply in_map_iff in Ho. destruct Ho as (oc & <- & Hoc).
        apply In_nth_error in Hoc. destruct Hoc as [j Hj].
        destruct (nth_error shape j) as [n|] eqn:En; [|apply nth_error_None in En; assert (j < List.length ocs)%nat by (apply nth_error_Some; congruence); lia].
        destruct (IN j oc n Hj En) as (A & B' & C & _). specialize (Hshape j n En). unfold AXIS_MAX, two64 in *. lia.
      * apply Forall_forall. intros c Hc. apply in_map_iff in Hc. destruct Hc as (oc & <- & Hoc).
        apply In_nth_error in Hoc. destruct Hoc as [j Hj].
        destruct (nth_error shape j) as [n|] eqn:En; [|apply nth_error_None in En; assert (j < List.length ocs)%nat by (apply nth_error_Some; congruence); lia].
        destruct (IN j oc n Hj En) as (A & B' & C & _). specialize (Hshape j n En). unfold AXIS_MAX, two64 in *. lia.
    + (* some dimension's box leaves the data: the evaluator reports it as well *)
      destruct (box_inside_witness shape (map fst ocs) (map snd ocs)) as (j & n & o & c & Hn & Ho & Hc & BB);
        try (rewrite map_length; lia); [exact BI|].
      rewrite nth_error_map in Ho, Hc.
      destruct (nth_error ocs j) as [oc|] eqn:Eoc; cbn [option_map] in Ho, Hc; [|discriminate].
      inversion Ho; inversion Hc; subst o c.
      destruct (NTH j oc Eoc) as [Hj Fj].
      destruct (REL j Hj) as (d & n' & _ & Hn' & R). rewrite Hn in Hn'. inversion Hn'; subst n'.
      rewrite Fj in R. cbn [Rel] in R. destruct R as (R0 & R1 & R2 & _ & R4).
      specialize (Hshape j n Hn).
      apply mapM_err; [exact GOK|]. exists j. split; [apply in_seq; lia|]. apply R4.
      unfold AXIS_MAX in *.
      destruct (Z_lt_ge_dec (fst oc) n) as [E1|E1]; [|lia].
      unfold u64_sub, u64_wrap in BB. rewrite Z.mod_small in BB by (unfold two64; lia).
      rewrite !andb_false_iff in BB. lia.
  - destruct INV as (j & Hj & Fj). apply in_seq in Hj.
    destruct (REL j ltac:(lia)) as (d & n & _ & _ & R). rewrite Fj in R. cbn [Rel] in R.
    apply mapM_err; [exact GOK|]. exists j. split; [apply in_seq; lia | exact R].
  - destruct INV as (j & Hj & Fj). apply in_seq in Hj.
    destruct (REL j ltac:(lia)) as (d & n & _ & _ & R). rewrite Fj in R. exact R.
Qed.

(** * What a successful fill produced (any behaviour) *)

Lemma fill_inv : forall pp ds shape i starts ends units ms me mu,
  (i <= List.length starts)%nat -> (i <= List.length ends)%nat -> (i <= List.length units)%nat ->
  fill pp ds shape i starts ends units = Ok (ms, me, mu) ->
  List.length ms = Nat.max (List.length starts) (i + List.length ds) /\
  (forall j, (j < List.length starts)%nat -> nth_error ms j = nth_error starts j) /\
  (forall j, (j < List.length ends)%nat -> nth_error me j = nth_error ends j) /\
  (forall j, (j < List.length units)%nat -> nth_error mu j = nth_error units j) /\
  (forall j, (List.length units <= j < i + List.length ds)%nat ->
             nth_error mu j = option_map dim_unit (nth_error ds (j - i))) /\
  (forall j, (List.length starts <= j < i + List.length ds)%nat ->
             exists d x, nth_error ds (j - i) = Some d /\ pad_start pp d = Ok x /\ nth_error ms j = Some x) /\
  (forall j, (List.length ends <= j < i + List.length ds)%nat ->
             exists d x, nth_error ds (j - i) = Some d /\ pad_end pp d shape j = Ok x /\ nth_error me j = Some x).
Proof.
  intros pp ds shape. induction ds as [|d ds IH]; intros i starts ends units ms me mu Hs He Hu H.
  - cbn [fill] in H. inversion H; subst. cbn [List.length]. rewrite Nat.add_0_r.
    split; [lia|]. repeat split; auto; intros j Hj; lia.
  - cbn [fill List.length] in *.
    set (units' := if (List.length units <=? i)%nat then units ++ [dim_unit d] else units) in *.
    destruct (if (List.length starts <=? i)%nat then bind (pad_start pp d) (fun x => Ok (starts ++ [x])) else Ok starts)
      as [starts'|err|w] eqn:Es; cbn [bind] in H; try discriminate.
    destruct (if (List.length ends <=? i)%nat then bind (pad_end pp d shape i) (fun x => Ok (ends ++ [x])) else Ok ends)
      as [ends'|err|w] eqn:Ee; cbn [bind] in H; try discriminate.
    assert (PS : List.length starts' = Nat.max (List.length starts) (S i) /\
                 (forall j, (j < List.length starts)%nat -> nth_error starts' j = nth_error starts j) /\
                 ((List.length starts <= i)%nat -> exists x, pad_start pp d = Ok x /\ nth_error starts' i = Some x)).
    { destruct (List.length starts <=? i)%nat eqn:E.
      - apply Nat.leb_le in E. destruct (pad_start pp d) as [x|err|w]; cbn [bind] in Es; try discriminate.
        inversion Es; subst starts'. rewrite app_length. cbn [List.length].
        split; [lia|]. split; [intros j Hj; apply nth_error_snoc_lt; exact Hj|].
        intros _. exists x. split; [reflexivity|]. assert (List.length starts = i) by lia. subst i. apply nth_error_snoc_eq.
      - apply Nat.leb_gt in E. inversion Es; subst starts'. split; [lia|]. split; [auto|]. intro. lia. }
    assert (PE : List.length ends' = Nat.max (List.length ends) (S i) /\
                 (forall j, (j < List.length ends)%nat -> nth_error ends' j = nth_error ends j) /\
                 ((List.length ends <= i)%nat -> exists x, pad_end pp d shape i = Ok x /\ nth_error ends' i = Some x)).
    { destruct (List.length ends <=? i)%nat eqn:E.
      - apply Nat.leb_le in E. destruct (pad_end pp d shape i) as [x|err|w]; cbn [bind] in Ee; try discriminate.
        inversion Ee; subst ends'. rewrite app_length. cbn [List.length].
        split; [lia|]. split; [intros j Hj; apply nth_error_snoc_lt; exact Hj|].
        intros _. exists x. split; [reflexivity|]. assert (List.length ends = i) by lia. subst i. apply nth_error_snoc_eq.
      - apply Nat.leb_gt in E. inversion Ee; subst ends'. split; [lia|]. split; [auto|]. intro. lia. }
    destruct PS as (Ls & Ps & Xs). destruct PE as (Le & Pe & Xe).
    assert (Lu : List.length units' = Nat.max (List.length units) (S i)).
    { unfold units'. destruct (List.length units <=? i)%nat eqn:E.
      - apply Nat.leb_le in E. rewrite app_length. cbn [List.length]. lia.
      - apply Nat.leb_gt in E. lia. }
    assert (Pu : forall j, (j < List.length units)%nat -> nth_error units' j = nth_error units j).
    { intros j Hj. unfold units'. destruct (List.length units <=? i)%nat; [apply nth_error_snoc_lt; exact Hj | reflexivity]. }
    destruct (IH (S i) starts' ends' units' ms me mu ltac:(lia) ltac:(lia) ltac:(lia) H) as (Lms & Qs & Qe & Qu & Qpad & Qps & Qpe).
    split; [lia|].
    split; [intros j Hj; rewrite Qs by lia; apply Ps; exact Hj|].
    split; [intros j Hj; rewrite Qe by lia; apply Pe; exact Hj|].
    split; [intros j Hj; rewrite Qu by lia; apply Pu; exact Hj|].
    split; [|split].
    + intros j Hj. destruct (Nat.eq_dec j i) as [-> | Hne].
      * rewrite Nat.sub_diag. cbn [nth_error option_map]. rewrite Qu by lia. unfold units'.
        replace (List.length units <=? i)%nat with true by (symmetry; apply Nat.leb_le; lia).
        assert (List.length units = i) by lia. subst i. apply nth_error_snoc_eq.
      * replace (j - i)%nat with (S (j - S i)) by lia. cbn [nth_error]. apply Qpad. lia.
    + intros j Hj. destruct (Nat.eq_dec j i) as [-> | Hne].
      * rewrite Nat.sub_diag. cbn [nth_error]. destruct (Xs ltac:(lia)) as (x & Px & Nx).
        exists d, x. split; [reflexivity|]. split; [exact Px|]. rewrite Qs by lia. exact Nx.
      * replace (j - i)%nat with (S (j - S i)) by lia. cbn [nth_error]. apply Qps. lia.
    + intros j Hj. destruct (Nat.eq_dec j i) as [-> | Hne].
      * rewrite Nat.sub_diag. cbn [nth_error]. destruct (Xe ltac:(lia)) as (x & Px & Nx).
        exists d, x. split; [reflexivity|]. split; [exact Px|]. rewrite Qe by lia. exact Nx.
      * replace (j - i)%nat with (S (j - S i)) by lia. cbn [nth_error]. apply Qpe. lia.
Qed.

Lemma mk_view_ok_inv : forall B extent cnt off v, mk_view B extent cnt off = Ok v -> v = mkView off cnt.
Proof.
  intros B extent cnt off v H. unfold mk_view in H.
  destruct (negb (Nat.eqb (List.length off) (List.length extent))); [discriminate|].
  destruct (negb (Nat.eqb (List.length cnt) (List.length extent))); [discriminate|].
  destruct (view_check_wraps B).
  - destruct (nd_add off cnt) as [sum|err|w]; cbn [bind] in H; try discriminate.
    destruct (nd_gt sum extent) as [[|]| |]; cbn [bind] in H; try discriminate. inversion H. reflexivity.
  - destruct (leaves extent off cnt); [discriminate|]. inversion H. reflexivity.
Qed.

(** what a successful dataSlice went through: the padded vectors and the per-dimension results *)
Lemma data_slice_ok_inv : forall B dims shape start end_ units rm v,
  (List.length start <= List.length dims)%nat -> (List.length end_ <= List.length dims)%nat ->
  (List.length units <= List.length dims)%nat ->
  data_slice B dims shape start end_ units rm = Ok v ->
  exists ms me mu ocs,
    (if (List.length start <? List.length dims)%nat || (List.length end_ <? List.length dims)%nat || (List.length units <? List.length dims)%nat
     then fill (pads_with_positions B) dims shape 0 start end_ units else Ok (start, end_, units)) = Ok (ms, me, mu) /\
    List.length ms = List.length dims /\
    v = mkView (map fst ocs) (map snd ocs) /\ List.length ocs = List.length dims /\
    forall j, (j < List.length dims)%nat ->
      exists oc, nth_error ocs j = Some oc /\ slice_iter B rm dims shape start end_ ms me mu j = Ok oc.
Proof.
  intros B dims shape start end_ units rm v L1 L2 L3 H. unfold data_slice in H.
  destruct ((List.length dims <? List.length start)%nat || (List.length dims <? List.length end_)%nat
            || (List.length dims <? List.length units)%nat); [discriminate|].
  destruct (if (List.length start <? List.length dims)%nat || (List.length end_ <? List.length dims)%nat || (List.length units <? List.length dims)%nat
            then fill (pads_with_positions B) dims shape 0 start end_ units else Ok (start, end_, units)) as [[[ms me] mu]|err|w] eqn:EF;
    cbn [bind fst snd] in H; try discriminate.
  assert (Lms : List.length ms = List.length dims).
  { destruct ((List.length start <? List.length dims)%nat || (List.length end_ <? List.length dims)%nat || (List.length units <? List.length dims)%nat) eqn:C.
    - destruct (fill_inv _ _ _ _ _ _ _ _ _ _ (Nat.le_0_l _) (Nat.le_0_l _) (Nat.le_0_l _) EF) as (Lms & _). lia.
    - inversion EF; subst. rewrite !orb_false_iff in C. destruct C as [[C1 _] _]. apply Nat.ltb_ge in C1. lia. }
  pose proof (mapM_inv (slice_iter B rm dims shape start end_ ms me mu) (seq 0 (List.length ms))) as INV.
  destruct (mapM (slice_iter B rm dims shape start end_ ms me mu) (seq 0 (List.length ms))) as [ocs|err|w]; cbn [bind] in H; try discriminate.
  destruct INV as [Locs INV]. rewrite seq_length in Locs.
  destruct (position_and_extent_in_data B shape (map fst ocs) (map snd ocs)) as [[|]| |]; cbn [bind negb] in H; try discriminate.
  apply mk_view_ok_inv in H.
  exists ms, me, mu, ocs. split; [reflexivity|]. split; [exact Lms|]. split; [exact H|]. split; [lia|].
  intros j Hj. destruct (INV j j) as (y & Hy & Fy).
  - rewrite nth_error_nth' with (d := 0%nat) by (rewrite seq_length; lia). rewrite seq_nth by lia. reflexivity.
  - exists y. auto.
Qed.

(** the vectors dataSlice works on after padding *)
Record padded (pp : bool) (dims : list dim) (shape : list Z) (start end_ : list F64) (units : list unit_t)
              (ms me : list F64) (mu : list unit_t) : Prop := mkPadded {
  pd_len : List.length ms = List.length dims;
  pd_start : forall j, (j < List.length start)%nat -> nth_error ms j = nth_error start j;
  pd_end : forall j, (j < List.length end_)%nat -> nth_error me j = nth_error end_ j;
  pd_units : forall j, (j < List.length units)%nat -> nth_error mu j = nth_error units j;
  pd_unit_pad : forall j, (List.length units <= j < List.length dims)%nat -> nth_error mu j = option_map dim_unit (nth_error dims j);
  pd_start_pad : forall j, (List.length start <= j < List.length dims)%nat ->
                   exists d x, nth_error dims j = Some d /\ pad_start pp d = Ok x /\ nth_error ms j = Some x;
  pd_end_pad : forall j, (List.length end_ <= j < List.length dims)%nat ->
                   exists d x, nth_error dims j = Some d /\ pad_end pp d shape j = Ok x /\ nth_error me j = Some x
}.

Lemma filled_padded : forall pp dims shape start end_ units ms me mu,
  (List.length start <= List.length dims)%nat -> (List.length end_ <= List.length dims)%nat ->
  (List.length units <= List.length dims)%nat ->
  (if (List.length start <? List.length dims)%nat || (List.length end_ <? List.length dims)%nat || (List.length units <? List.length dims)%nat
   then fill pp dims shape 0 start end_ units else Ok (start, end_, units)) = Ok (ms, me, mu) ->
  padded pp dims shape start end_ units ms me mu.
Proof.
  intros pp dims shape start end_ units ms me mu L1 L2 L3 H.
  destruct ((List.length start <? List.length dims)%nat || (List.length end_ <? List.length dims)%nat || (List.length units <? List.length dims)%nat) eqn:C.
  - destruct (fill_inv _ _ _ _ _ _ _ _ _ _ (Nat.le_0_l _) (Nat.le_0_l _) (Nat.le_0_l _) H) as (Lms & Qs & Qe & Qu & Qpad & Qps & Qpe).
    constructor; try assumption.
    + lia.
    + intros j Hj. rewrite (Qpad j) by lia. rewrite Nat.sub_0_r. reflexivity.
    + intros j Hj. destruct (Qps j ltac:(lia)) as (d & x & A1 & A2 & A3). rewrite Nat.sub_0_r in A1. eauto.
    + intros j Hj. destruct (Qpe j ltac:(lia)) as (d & x & A1 & A2 & A3). rewrite Nat.sub_0_r in A1. eauto.
  - inversion H; subst. rewrite !orb_false_iff in C. destruct C as [[C1 C2] C3]. apply Nat.ltb_ge in C1, C2, C3.
    constructor; auto; try lia; intros j Hj; lia.
Qed.

Lemma data_slice_ok_padded : forall B dims shape start end_ units rm v,
  (List.length start <= List.length dims)%nat -> (List.length end_ <= List.length dims)%nat ->
  (List.length units <= List.length dims)%nat ->
  data_slice B dims shape start end_ units rm = Ok v ->
  exists ms me mu ocs,
    padded (pads_with_positions B) dims shape start end_ units ms me mu /\
    v = mkView (map fst ocs) (map snd ocs) /\ List.length ocs = List.length dims /\
    forall j, (j < List.length dims)%nat ->
      exists oc, nth_error ocs j = Some oc /\ slice_iter B rm dims shape start end_ ms me mu j = Ok oc.
Proof.
  intros B dims shape start end_ units rm v L1 L2 L3 H.
  destruct (data_slice_ok_inv B dims shape start end_ units rm v L1 L2 L3 H) as (ms & me & mu & ocs & EF & _ & Ev & Locs & It).
  exists ms, me, mu, ocs. split; [apply filled_padded; assumption|]. auto.
Qed.

(** ** start > end is refused - by every behaviour, before anything else is evaluated for that dimension *)
Theorem start_gt_end_rejected : forall B dims shape start end_ units rm v j s e,
  (List.length start <= List.length dims)%nat -> (List.length end_ <= List.length dims)%nat ->
  (List.length units <= List.length dims)%nat ->
  data_slice B dims shape start end_ units rm = Ok v ->
  nth_error start j = Some s -> nth_error end_ j = Some e -> fgt s e = false.
Proof.
  intros B dims shape start end_ units rm v j s e L1 L2 L3 H Hs He.
  destruct (data_slice_ok_padded B dims shape start end_ units rm v L1 L2 L3 H) as (ms & me & mu & ocs & PD & _ & _ & It).
  assert (Hj : (j < List.length start)%nat) by (apply nth_error_Some; congruence).
  assert (Hj2 : (j < List.length end_)%nat) by (apply nth_error_Some; congruence).
  destruct (It j ltac:(lia)) as (oc & _ & Fj).
  unfold slice_iter in Fj.
  replace (List.length start <=? j)%nat with false in Fj by (symmetry; apply Nat.leb_gt; exact Hj).
  rewrite andb_false_r in Fj. cbn [andb] in Fj.
  unfold get_dim in Fj. destruct (nth_error dims j) as [d|]; cbn [bind] in Fj; [|discriminate].
  unfold vec_at in Fj. rewrite (pd_start _ _ _ _ _ _ _ _ _ PD j Hj), Hs in Fj. cbn [bind] in Fj.
  rewrite (pd_end _ _ _ _ _ _ _ _ _ PD j Hj2), He in Fj. cbn [bind] in Fj.
  destruct (nth_error mu j) as [u|]; cbn [bind] in Fj; [|discriminate].
  unfold slice_dim in Fj. destruct (fgt s e); [discriminate | reflexivity].
Qed.

(** ** the Prop-level statement of the property *)

Lemma nth_error_map2 : forall {A B C} (f : A -> B -> C) a b j x y,
  nth_error a j = Some x -> nth_error b j = Some y -> nth_error (map2 f a b) j = Some (f x y).
Proof.
  intros A B C f. induction a as [|p a IH]; destruct b as [|q b]; intros j x y Ha Hb; try (destruct j; discriminate).
  destruct j as [|j]; cbn [nth_error map2] in *; [inversion Ha; inversion Hb; reflexivity | eapply IH; eassumption].
Qed.

Lemma zseq_inj : forall a n b m, 1 <= n -> zseq a n = zseq b m -> a = b /\ n = m.
Proof.
  intros a n b m Hn H.
  assert (L : Z.to_nat n = Z.to_nat m) by (rewrite <- (zseq_length a n), H, zseq_length; reflexivity).
  assert (Hin : In a (zseq b m)) by (rewrite <- H; apply zseq_In; lia).
  assert (Hin2 : In b (zseq a n)) by (rewrite H; apply zseq_In; lia).
  apply zseq_In in Hin, Hin2. lia.
Qed.

(** SLICE_EXACT.  A slice that dataSlice (repaired) returns is a box inside the data whose extent in every specified
    dimension is exactly the region of the request - the indices whose coordinates lie in [start, end] resp.
    [start, end) - and in every unspecified dimension the whole dimension. *)
Theorem slice_exact_thm : forall B dims shape start end_ units rm v,
  slices_repaired B -> slice_hyps dims shape start end_ units rm ->
  (pads_with_positions B = false \/ List.length start = List.length dims) ->
  data_slice B dims shape start end_ units rm = Ok v ->
  fits shape (v_offset v) (v_count v) = true /\
  (forall j d n s e, nth_error dims j = Some d -> nth_error shape j = Some n ->
     nth_error start j = Some s -> nth_error end_ j = Some e ->
     exists r o c, spec_req d s e (nth j units None) rm = Ok r /\
       nth_error (v_offset v) j = Some o /\ nth_error (v_count v) j = Some c /\ 1 <= c /\
       (forall i, o <= i < o + c <-> region d n r i)) /\
  (forall j n, (List.length start <= j)%nat -> nth_error shape j = Some n ->
     nth_error (v_offset v) j = Some 0 /\ nth_error (v_count v) j = Some n).
Proof.
  intros B dims shape start end_ units rm v HB HY Hpads H.
  pose proof (data_slice_meets_spec B dims shape start end_ units rm HB HY Hpads) as MS.
  rewrite H in MS. destruct MS as [SP FT]. split; [exact FT|].
  pose proof HY as [Hrank Hshape Hk Hkle Hunits Haxes Huok Hreq].
  destruct (fits_lengths _ _ _ FT) as [Lo Lc].
  unfold spec_slice in SP.
  destruct ((List.length dims <? List.length start)%nat || (List.length dims <? List.length end_)%nat
            || (List.length dims <? List.length units)%nat); [discriminate|].
  pose proof (mapM_inv (spec_slice_dim dims shape start end_ units rm) (seq 0 (List.length dims))) as INV.
  rewrite SP in INV. destruct INV as [_ INV].
  assert (G : forall j, (j < List.length dims)%nat -> exists o c, nth_error (v_offset v) j = Some o /\ nth_error (v_count v) j = Some c /\
                spec_slice_dim dims shape start end_ units rm j = Ok (zseq o c)).
  { intros j Hj.
    destruct (nth_error (v_offset v) j) as [o|] eqn:Eo; [|apply nth_error_None in Eo; lia].
    destruct (nth_error (v_count v) j) as [c|] eqn:Ec; [|apply nth_error_None in Ec; lia].
    exists o, c. split; [reflexivity|]. split; [reflexivity|].
    destruct (INV j j) as (y & Hy & Gy).
    - rewrite nth_error_nth' with (d := 0%nat) by (rewrite seq_length; lia). rewrite seq_nth by lia. reflexivity.
    - unfold box_lists in Hy. rewrite (nth_error_map2 zseq _ _ j o c Eo Ec) in Hy. inversion Hy; subst. exact Gy. }
  split.
  - intros j d n s e Hd Hn Hs He.
    assert (Hj : (j < List.length dims)%nat) by (apply nth_error_Some; congruence).
    destruct (G j Hj) as (o & c & Eo & Ec & Gj).
    unfold spec_slice_dim in Gj. rewrite Hd, Hn, Hs, He in Gj.
    destruct (spec_req d s e (nth j units None) rm) as [r|err|w] eqn:SR; cbn [bind] in Gj; try discriminate.
    exists r, o, c. split; [reflexivity|]. split; [exact Eo|]. split; [exact Ec|].
    destruct (spec_req_int _ _ _ _ _ _ SR) as (s' & e' & incl & ->).
    pose proof (Hreq j d s e _ Hd Hs He SR) as RO. cbn [req_ok] in RO. destruct RO as (Fs & Fe & _ & _).
    specialize (Hshape j n Hn).
    pose proof (spec_dim_exact d n s' e' incl (Haxes j d Hd) Fs Fe ltac:(lia)) as EX.
    rewrite Gj in EX. destruct EX as (Hin & Hne & _).
    split.
    + destruct (Z_le_gt_dec 1 c) as [Hc|Hc]; [exact Hc|exfalso]. apply Hne. unfold zseq.
      replace (Z.to_nat c) with 0%nat by lia. reflexivity.
    + intro i. rewrite <- Hin. rewrite zseq_In. reflexivity.
  - intros j n Hj Hn.
    assert (Hj2 : (j < List.length dims)%nat) by (rewrite Hrank; apply nth_error_Some; congruence).
    destruct (G j Hj2) as (o & c & Eo & Ec & Gj).
    unfold spec_slice_dim in Gj.
    destruct (nth_error dims j) as [d|] eqn:Ed; [|apply nth_error_None in Ed; lia].
    rewrite Hn in Gj.
    replace (nth_error start j) with (@None F64) in Gj by (symmetry; apply nth_error_None; exact Hj).
    replace (nth_error end_ j) with (@None F64) in Gj by (symmetry; apply nth_error_None; lia).
    inversion Gj as [Eq]. specialize (Hshape j n Hn).
    destruct (zseq_inj 0 n o c ltac:(lia) Eq) as [<- <-]. auto.
Qed.

(** * Unspecified dimensions, as the code pads them (DESIGN.md appendix B.3) *)

(** what the padding must satisfy: it starts at or below the first coordinate, ends at the coordinate of the last
    element, the axis covers the data and the next coordinate (if there is one) is larger *)
Record pad_ok (d : dim) (n : Z) (s e : F64) : Prop := mkPadOk {
  po_n : 1 <= n <= dim_N d;
  po_fs : finite s;
  po_fe : finite e;
  po_start : (B2R s <= B2R (dim_x d 0))%R;
  po_end : e = dim_x d (n - 1);
  po_strict : n < dim_N d -> (B2R (dim_x d (n - 1)) < B2R (dim_x d n))%R;
  po_is : idx_spec d s;
  po_ie : idx_spec d e
}.

Lemma spec_req_own : forall d s e, fgt s e = false ->
  spec_req d s e None RangeMatch_Inclusive = Ok (RInt s e true).
Proof.
  intros d s e G. unfold spec_req. rewrite G.
  destruct d as [dt off u | ticks u | |]; cbn [spec_factor bind scaled is_incl RangeMatch_beq orb]; rewrite ?fmul_one_r; reflexivity.
Qed.

Lemma pad_region : forall d n s e, axis_ok d -> pad_ok d n s e ->
  forall i, in_req d n (RInt s e true) i = true <-> 0 <= i < n.
Proof.
  intros d n s e [Fx Mono _] [Hn Fs Fe Hs He Hstrict _ _] i.
  cbn [in_req]. rewrite !andb_true_iff. change (inaxb (dim_n d) i = true) with (inax (dim_n d) i). rewrite inax_dim.
  split.
  - intros [[Hi S1] E1].
    destruct (Z_lt_ge_dec i n) as [Hlt|Hge]; [lia|exfalso].
    assert (An : 0 <= n < dim_N d) by lia.
    pose proof (Fx i Hi) as Fi. pose proof (Fx n An) as Fn.
    apply (fle_true _ _ Fi Fe) in E1. rewrite He in E1.
    pose proof (Mono n i ltac:(lia) ltac:(lia)) as M. specialize (Hstrict ltac:(lia)). lra.
  - intro Hi. assert (Ai : 0 <= i < dim_N d) by lia.
    pose proof (Fx i Ai) as Fi. pose proof (Fx 0 ltac:(lia)) as F0.
    split; [split; [exact Ai|]|].
    + apply (fle_true _ _ Fs Fi). pose proof (Mono 0 i ltac:(lia) ltac:(lia)) as M. lra.
    + apply (fle_true _ _ Fi Fe). rewrite He. apply Mono; lia.
Qed.

Theorem pad_full_inclusive : forall B d n s e sa ea,
  slice_reads_argument_vectors B = false -> slice_point_snaps B = false -> axis_ok d -> pad_ok d n s e ->
  slice_dim B RangeMatch_Inclusive d sa ea s e (dim_unit d) = Ok (0, n).
Proof.
  intros B d n s e sa ea HA HP AX PO.
  rewrite slice_dim_own_unit by exact HP.
  pose proof (pad_region d n s e AX PO) as REG.
  assert (G : fgt s e = false).
  { destruct AX as [Fx Mono _]. destruct PO as [Hn Fs Fe Hs He _ _ _].
    unfold fgt. apply not_true_is_false. intro L. apply (flt_true _ _ Fe Fs) in L. rewrite He in L.
    pose proof (Mono 0 (n - 1) ltac:(lia) ltac:(lia)) as M. lra. }
  assert (UO : unit_ok None d) by (intros a b Ea; discriminate).
  pose proof (slice_dim_spec B RangeMatch_Inclusive d sa ea s e None n HA HP AX UO) as SP.
  rewrite (spec_req_own d s e G) in SP.
  specialize (SP (fun r Hr => ltac:(inversion Hr; subst r; destruct PO; cbn [req_ok]; auto))).
  destruct PO as [Hn _ _ _ _ _ _ _].
  destruct (slice_dim B RangeMatch_Inclusive d sa ea s e None) as [[o c]|err|w].
  - cbn [fst snd] in SP. destruct SP as (H0 & H1 & _ & Hreg).
    assert (A0 : o <= 0 < o + c) by (apply Hreg, REG; lia).
    assert (A1 : 0 <= o < n) by (apply REG, Hreg; lia).
    assert (A2 : o <= n - 1 < o + c) by (apply Hreg, REG; lia).
    assert (A3 : 0 <= o + c - 1 < n) by (apply REG, Hreg; lia).
    f_equal. f_equal; lia.
  - specialize (SP 0). rewrite (proj2 (REG 0)) in SP by lia. discriminate.
  - contradiction.
Qed.

(** SLICE_UNSPECIFIED_FULL_INCLUSIVE: with the padding the code has (and keeps), an unspecified dimension is returned in
    full in Inclusive mode *)
Theorem unspecified_full_inclusive : forall B dims shape start end_ units v j d n,
  slice_reads_argument_vectors B = false -> slice_point_snaps B = false -> pads_with_positions B = true ->
  (List.length start <= List.length dims)%nat -> (List.length end_ <= List.length dims)%nat ->
  (List.length units <= List.length dims)%nat ->
  data_slice B dims shape start end_ units RangeMatch_Inclusive = Ok v ->
  (List.length start <= j)%nat -> (List.length end_ <= j)%nat -> (List.length units <= j)%nat ->
  nth_error dims j = Some d -> nth_error shape j = Some n -> axis_ok d ->
  (forall s e, pad_start true d = Ok s -> pad_end true d shape j = Ok e -> pad_ok d n s e) ->
  nth_error (v_offset v) j = Some 0 /\ nth_error (v_count v) j = Some n.
Proof.
  intros B dims shape start end_ units v j d n HA HP Hpp L1 L2 L3 H J1 J2 J3 Hd Hn AX PO.
  assert (Hj : (j < List.length dims)%nat) by (apply nth_error_Some; congruence).
  destruct (data_slice_ok_padded B dims shape start end_ units RangeMatch_Inclusive v L1 L2 L3 H) as (ms & me & mu & ocs & PD & Ev & Locs & It).
  rewrite Hpp in PD.
  destruct (It j Hj) as (oc & Eoc & Fj).
  unfold slice_iter in Fj. rewrite Hpp in Fj. cbn [negb andb] in Fj.
  unfold get_dim in Fj. rewrite Hd in Fj. cbn [bind] in Fj.
  destruct (pd_start_pad _ _ _ _ _ _ _ _ _ PD j ltac:(lia)) as (d1 & s & Ed1 & Ps & Ns). rewrite Hd in Ed1. inversion Ed1; subst d1.
  destruct (pd_end_pad _ _ _ _ _ _ _ _ _ PD j ltac:(lia)) as (d2 & e & Ed2 & Pe & Ne). rewrite Hd in Ed2. inversion Ed2; subst d2.
  unfold vec_at in Fj. rewrite Ns, Ne in Fj. cbn [bind] in Fj.
  rewrite (pd_unit_pad _ _ _ _ _ _ _ _ _ PD j ltac:(lia)), Hd in Fj. cbn [option_map bind] in Fj.
  rewrite (pad_full_inclusive B d n s e _ _ HA HP AX (PO s e Ps Pe)) in Fj. inversion Fj; subst oc.
  subst v. cbn [v_offset v_count]. rewrite !nth_error_map, Eoc. split; reflexivity.
Qed.

(** * C18, second half: an exactly rescaled request selects the same box *)

Definition has_unit (d : dim) : Prop := match d with DSampled _ _ _ => True | DRange _ _ => True | _ => False end.

(** one dimension, parametric in the factor [f]: if the request (s', e') in unit u' scales to exactly (s, e), and
    scaling keeps the order of start and end (it does when it is exact, see [exact_scaling_order]), the loop body
    of dataSlice returns the same (offset, count) as for (s, e) in the dimension's own unit *)
Theorem rescale_invariant_dim : forall B rm d sa ea sa' ea' s e s' e' u' f,
  slice_reads_argument_vectors B = false -> slice_point_snaps B = false -> has_unit d ->
  pair_factor u' (dim_unit d) = Ok f ->
  fmul s' f = s -> fmul e' f = e ->
  fgt s' e' = fgt s e -> feq s' e' = feq s e ->
  slice_dim B rm d sa' ea' s' e' u' = slice_dim B rm d sa ea s e (dim_unit d).
Proof.
  intros B rm d sa ea sa' ea' s e s' e' u' f HA HP HU HF Es Ee Og Oe.
  unfold slice_dim. rewrite HA, HP, Og, Oe.
  destruct (fgt s e); [reflexivity|]. cbn [bind fst snd].
  rewrite own_unit_pair.
  destruct d as [dt off du | ticks du | |]; try contradiction;
    cbn [position_to_index_pair dim_unit] in *; rewrite HF; cbn [pair_factor bind];
    rewrite Es, Ee, !fmul_one_r; reflexivity.
Qed.

(** exact scaling by a positive factor keeps the order of start and end *)
Lemma exact_scaling_order : forall s' e' f,
  finite s' -> finite e' -> finite (fmul s' f) -> finite (fmul e' f) -> (0 < B2R f)%R ->
  B2R (fmul s' f) = (B2R s' * B2R f)%R -> B2R (fmul e' f) = (B2R e' * B2R f)%R ->
  fgt s' e' = fgt (fmul s' f) (fmul e' f) /\ feq s' e' = feq (fmul s' f) (fmul e' f).
Proof.
  intros s' e' f Fs Fe Fsf Fef Hf Xs Xe.
  rewrite (fgt_R s' e' Fs Fe), (fgt_R _ _ Fsf Fef), (feq_R s' e' Fs Fe), (feq_R _ _ Fsf Fef), Xs, Xe.
  split.
  - destruct (Rlt_bool_spec (B2R e') (B2R s')); destruct (Rlt_bool_spec (B2R e' * B2R f) (B2R s' * B2R f)); try reflexivity; exfalso; nra.
  - destruct (Req_bool_spec (B2R s') (B2R e')); destruct (Req_bool_spec (B2R s' * B2R f) (B2R e' * B2R f)); try reflexivity; exfalso; nra.
Qed.

Lemma mapM_ext_in : forall {A B} (f g : A -> res B) l, (forall x, In x l -> f x = g x) -> mapM f l = mapM g l.
Proof.
  induction l as [|x l IH]; intro H; [reflexivity|]. cbn [mapM]. rewrite (H x) by (left; reflexivity).
  rewrite IH by (intros y Hy; apply H; right; exact Hy). reflexivity.
Qed.

(** per dimension: the two requests are the same, or the second is the first in the dimension's own unit *)
Definition rescaled_dim (d : dim) (s' e' : F64) (u' : unit_t) (s e : F64) (u : unit_t) : Prop :=
  (s' = s /\ e' = e /\ u' = u) \/
  (has_unit d /\ u = dim_unit d /\ exists f, pair_factor u' (dim_unit d) = Ok f /\ fmul s' f = s /\ fmul e' f = e /\
     fgt s' e' = fgt s e /\ feq s' e' = feq s e).

(** RESCALE_INVARIANT (whole slice, every dimension given): dataSlice with (start', end', units') returns what it
    returns for (start, end, units) *)
Theorem rescale_invariant_thm : forall B dims shape start end_ units start' end' units' rm,
  slice_reads_argument_vectors B = false -> slice_point_snaps B = false ->
  List.length start = List.length dims -> List.length end_ = List.length dims -> List.length units = List.length dims ->
  List.length start' = List.length dims -> List.length end' = List.length dims -> List.length units' = List.length dims ->
  (forall j d s' e' u' s e u, nth_error dims j = Some d ->
     nth_error start' j = Some s' -> nth_error end' j = Some e' -> nth_error units' j = Some u' ->
     nth_error start j = Some s -> nth_error end_ j = Some e -> nth_error units j = Some u ->
     rescaled_dim d s' e' u' s e u) ->
  data_slice B dims shape start' end' units' rm = data_slice B dims shape start end_ units rm.
Proof.
  intros B dims shape start end_ units start' end' units' rm HA HP L1 L2 L3 L1' L2' L3' H.
  unfold data_slice. rewrite L1, L2, L3, L1', L2', L3', !Nat.ltb_irrefl. cbn [orb bind fst snd].
  rewrite L1, L1'.
  rewrite (mapM_ext_in (slice_iter B rm dims shape start' end' start' end' units')
                       (slice_iter B rm dims shape start end_ start end_ units)); [reflexivity|].
  intros j Hj. apply in_seq in Hj. unfold slice_iter. rewrite L1, L2, L1', L2'.
  replace (List.length dims <=? j)%nat with false by (symmetry; apply Nat.leb_gt; lia).
  rewrite !andb_false_r.
  destruct (nth_error dims j) as [d|] eqn:Ed; [|apply nth_error_None in Ed; lia].
  destruct (nth_error start' j) as [s'|] eqn:E1; [|apply nth_error_None in E1; lia].
  destruct (nth_error end' j) as [e'|] eqn:E2; [|apply nth_error_None in E2; lia].
  destruct (nth_error units' j) as [u'|] eqn:E3; [|apply nth_error_None in E3; lia].
  destruct (nth_error start j) as [s|] eqn:E4; [|apply nth_error_None in E4; lia].
  destruct (nth_error end_ j) as [e|] eqn:E5; [|apply nth_error_None in E5; lia].
  destruct (nth_error units j) as [u|] eqn:E6; [|apply nth_error_None in E6; lia].
  unfold get_dim, vec_at, arg_at. rewrite Ed, E1, E2, E3, E4, E5, E6. cbn [bind].
  destruct (H j d s' e' u' s e u Ed E1 E2 E3 E4 E5 E6) as [(-> & -> & ->) | (HU & -> & f & HF & Xs & Xe & Og & Oe)].
  - reflexivity.
  - apply (rescale_invariant_dim B rm d _ _ _ _ s e s' e' u' f HA HP HU HF Xs Xe Og Oe).
Qed.

(** * positionAndExtentInData *)

Lemma box_inside_spec : forall extent pos cnt,
  List.length pos = List.length extent -> List.length cnt = List.length extent ->
  all_u64 extent -> all_u64 pos -> all_u64 cnt ->
  box_inside extent pos cnt = fits extent pos cnt && forallb (fun c => 1 <=? c) cnt.
Proof.
  induction extent as [|e extent IH]; destruct pos as [|p pos]; destruct cnt as [|c cnt]; cbn [List.length];
    intros Lp Lc Ue Up Uc; try lia; [reflexivity|].
  apply all_u64_cons in Ue, Up, Uc. destruct Ue as [He Ue], Up as [Hp Up], Uc as [Hc Uc].
  cbn [box_inside fits forallb]. rewrite (IH pos cnt) by (assumption || lia).
  assert (HD : (1 <=? c) && (p <? e) && (c <=? u64_sub e p) = (0 <=? p) && (0 <=? c) && (p + c <=? e) && (1 <=? c)).
  { destruct (1 <=? c) eqn:C1; [|rewrite andb_false_r; reflexivity]. cbn [andb]. rewrite andb_true_r.
    destruct (Z_lt_ge_dec p e) as [Hlt|Hge].
    - unfold u64_sub, u64_wrap. rewrite Z.mod_small by lia. lia.
    - replace (p <? e) with false by lia. replace (p + c <=? e) with false by lia.
      rewrite !andb_false_r. reflexivity. }
  rewrite HD.
  destruct ((0 <=? p) && (0 <=? c) && (p + c <=? e)); destruct (1 <=? c); destruct (fits extent pos cnt);
    destruct (forallb (fun c0 => 1 <=? c0) cnt); reflexivity.
Qed.

(** repaired: positionAndExtentInData says whether the non-empty box [position, position + count) lies in the data,
    for all u64 values *)
Theorem in_data_spec : forall B extent pos cnt, extent_check_wraps B = false ->
  List.length pos = List.length extent -> List.length cnt = List.length extent ->
  all_u64 extent -> all_u64 pos -> all_u64 cnt ->
  position_and_extent_in_data B extent pos cnt = Ok (spec_in_data extent pos cnt).
Proof.
  intros B extent pos cnt HB Lp Lc Ue Up Uc. unfold position_and_extent_in_data, spec_in_data. rewrite HB.
  rewrite Lp, Lc, Nat.eqb_refl. cbn [andb]. rewrite box_inside_spec by assumption. reflexivity.
Qed.

Example in_data_refuted :
  spec_in_data [20] [two64 - 1] [2] = false /\ position_and_extent_in_data code_today [20] [two64 - 1] [2] = Ok true.
Proof. split; vm_compute; reflexivity. Qed.

(** * The padding values of each dimension kind meet [pad_ok]'s demands on start and end *)

Lemma x_sampled_0 : forall dt off, finite dt -> finite off -> axis_finite dt off ->
  B2R (x_sampled dt off 0) = B2R off.
Proof.
  intros dt off Fd Fo Ha. destruct (Ha 0 ltac:(unfold MAXI; lia)) as [Fm Fx].
  destruct (ofZ_exact 0 ltac:(lia)) as [E0 F0].
  unfold x_sampled in *. rewrite (fadd_R _ _ Fm Fo Fx). rewrite (fmul_R _ _ F0 Fd Fm). rewrite E0.
  rewrite Rmult_0_l. rewrite round_0 by apply valid_rnd_round_mode. rewrite Rplus_0_l.
  apply round_generic; [apply valid_rnd_round_mode | apply generic_format_B2R].
Qed.

Theorem pad_values_sampled : forall dt off u shape j n s e,
  finite dt -> finite (off_or0 off) -> axis_finite dt (off_or0 off) ->
  nth_error shape j = Some n -> 1 <= n < two64 ->
  pad_start true (DSampled dt off u) = Ok s -> pad_end true (DSampled dt off u) shape j = Ok e ->
  (B2R s <= B2R (dim_x (DSampled dt off u) 0))%R /\ e = dim_x (DSampled dt off u) (n - 1).
Proof.
  intros dt off u shape j n s e Fd Fo Ha Hn Hb Ps Pe.
  cbn [pad_start negb] in Ps. inversion Ps; subst s.
  unfold pad_end, shape_at in Pe. cbn [negb] in Pe. rewrite Hn in Pe. cbn [bind] in Pe. inversion Pe; subst e.
  cbn [dim_x]. split.
  - rewrite x_sampled_0 by assumption. lra.
  - unfold position_at, x_sampled, u64_sub, u64_wrap. rewrite Z.mod_small by lia. reflexivity.
Qed.

Theorem pad_values_range : forall ticks u shape j n s e,
  nth_error shape j = Some n -> 1 <= n < two64 ->
  pad_start true (DRange ticks u) = Ok s -> pad_end true (DRange ticks u) shape j = Ok e ->
  s = dim_x (DRange ticks u) 0 /\ e = dim_x (DRange ticks u) (n - 1) /\ n <= dim_N (DRange ticks u).
Proof.
  intros ticks u shape j n s e Hn Hb Ps Pe.
  cbn [pad_start negb] in Ps. unfold tick_checked in Ps. destruct (0 <? zlen ticks); [|discriminate]. inversion Ps; subst s.
  unfold pad_end, shape_at in Pe. cbn [negb] in Pe. rewrite Hn in Pe. cbn [bind] in Pe.
  unfold tick_checked, u64_sub, u64_wrap in Pe. rewrite Z.mod_small in Pe by lia.
  destruct (n - 1 <? zlen ticks) eqn:E; [|discriminate]. inversion Pe; subst e.
  cbn [dim_x dim_N dim_n]. repeat split. lia.
Qed.

Theorem pad_values_int : forall d shape j n s e, (exists l, d = DSet l) \/ (exists r, d = DFrame r) ->
  nth_error shape j = Some n -> 1 <= n <= AXIS_MAX ->
  pad_start true d = Ok s -> pad_end true d shape j = Ok e ->
  B2R s = B2R (dim_x d 0) /\ e = dim_x d (n - 1).
Proof.
  intros d shape j n s e Hd Hn Hb Ps Pe.
  assert (Es : s = f64_zero) by (destruct Hd as [[l ->] | [r ->]]; cbn [pad_start negb] in Ps; inversion Ps; reflexivity).
  assert (Ee : conv_double (u64_sub n 1) = Ok e).
  { unfold pad_end, shape_at in Pe. cbn [negb] in Pe. rewrite Hn in Pe. cbn [bind] in Pe.
    destruct Hd as [[l ->] | [r ->]]; exact Pe. }
  assert (Ex : dim_x d = x_int) by (destruct Hd as [[l ->] | [r ->]]; reflexivity).
  rewrite Ex. unfold x_int. unfold AXIS_MAX in Hb.
  unfold u64_sub, u64_wrap in Ee. rewrite Z.mod_small in Ee by (unfold two64; lia).
  destruct (ofZ_exact (n - 1) ltac:(lia)) as [E1 F1].
  unfold conv_double in Ee. rewrite (toU64_int (ofZ (n - 1)) (n - 1) F1 E1) in Ee by (unfold two64; lia).
  cbn [bind] in Ee. rewrite Z.eqb_refl in Ee. inversion Ee; subst e.
  split; [|reflexivity]. subst s. destruct (ofZ_exact 0 ltac:(lia)) as [E0 _]. rewrite E0. reflexivity.
Qed.

(** * Computed witnesses *)

Definition half : F64 := ofME 1 (-1).
Definition d_time : dim := DSampled half None (Some (""%string, "s"%string)).      (* 0.0, 0.5, 1.0, ... s *)
Definition d_set : dim := DSet [].
Definition d_ticks : dim := DRange [ofZ 1; ofZ 2; ofZ 4; ofZ 8] (Some ("m"%string, "V"%string)).   (* mV *)
Definition ms_unit : unit_t := Some ("m"%string, "s"%string).

(** non-vacuity: a 4 x 5 x 4 array, time axis in s asked in ms, set axis, range axis: model (every behaviour that
    can be reached) = specification, with data *)
Example slice_example :
  let dims := [d_time; d_set; d_ticks] in
  let shape := [4; 5; 4] in
  let start := [ofZ 500; ofZ 1; ofZ 2] in
  let end_ := [ofZ 1500; ofZ 3; ofZ 8] in
  let units := [ms_unit; None] in
  data_slice repaired_except_pinned dims shape start end_ units RangeMatch_Inclusive = Ok (mkView [1; 1; 1] [3; 3; 3]) /\
  spec_slice dims shape start end_ units RangeMatch_Inclusive = Ok [[1; 2; 3]; [1; 2; 3]; [1; 2; 3]] /\
  data_slice repaired_except_pinned dims shape start end_ units RangeMatch_Exclusive = Ok (mkView [1; 1; 1] [2; 2; 2]) /\
  spec_slice dims shape start end_ units RangeMatch_Exclusive = Ok [[1; 2]; [1; 2]; [1; 2]] /\
  data_slice code_today dims shape start end_ units RangeMatch_Exclusive = Ok (mkView [1; 1; 1] [2; 2; 2]).
Proof. repeat split; vm_compute; reflexivity. Qed.

(** DESIGN.md section 9 item 5 (pinned code): fewer entries than dimensions are read past the vectors *)
Example slice_reads_past_arguments_refuted :
  is_ub (data_slice code_today [d_time; d_set] [4; 5] [ofZ 0] [ofZ 1] [] RangeMatch_Inclusive) = true /\
  spec_slice [d_time; d_set] [4; 5] [ofZ 0] [ofZ 1] [] RangeMatch_Inclusive = Ok [[0; 1; 2]; [0; 1; 2; 3; 4]] /\
  data_slice repaired_except_pinned [d_time; d_set] [4; 5] [ofZ 0] [ofZ 1] [] RangeMatch_Inclusive = Ok (mkView [0; 0] [3; 5]).
Proof. repeat split; vm_compute; reflexivity. Qed.

(** item 3 / appendix B.3 (PINNED, stays): in Exclusive mode an unspecified dimension loses its last element;
    the repair that cannot land would return it in full *)
Example slice_unspecified_full_exclusive_refuted :
  data_slice repaired_except_pinned [d_time; d_set] [4; 5] [ofZ 0] [ofZ 1] [] RangeMatch_Exclusive = Ok (mkView [0; 0] [2; 4]) /\
  spec_slice [d_time; d_set] [4; 5] [ofZ 0] [ofZ 1] [] RangeMatch_Exclusive = Ok [[0; 1]; [0; 1; 2; 3; 4]] /\
  data_slice repaired [d_time; d_set] [4; 5] [ofZ 0] [ofZ 1] [] RangeMatch_Exclusive = Ok (mkView [0; 0] [2; 5]).
Proof. repeat split; vm_compute; reflexivity. Qed.

(** a point request between two coordinates (2.5 on the axis 0, 1, 2, ...): the pinned code answers with element 3,
    whose coordinate 3.0 is not in [2.5, 2.5]; repaired: out of bounds *)
Example slice_point_snaps_refuted :
  let d := DSampled (ofZ 1) None None in
  let p := ofME 5 (-1) in
  data_slice code_today [d] [20] [p] [p] [] RangeMatch_Inclusive = Ok (mkView [3] [1]) /\
  (exists e, spec_slice [d] [20] [p] [p] [] RangeMatch_Inclusive = Err e) /\
  data_slice repaired_except_pinned [d] [20] [p] [p] [] RangeMatch_Inclusive = Err oob /\
  data_slice repaired_except_pinned [d] [20] [ofZ 2] [ofZ 2] [] RangeMatch_Exclusive = Ok (mkView [2] [1]).
Proof. repeat split; try (eexists; vm_compute; reflexivity); vm_compute; reflexivity. Qed.

(** start > end and a region beyond the data are refused *)
Example slice_rejections :
  data_slice repaired_except_pinned [d_time] [4] [ofZ 1] [ofZ 0] [] RangeMatch_Inclusive = Err "std::invalid_argument"%string /\
  data_slice repaired_except_pinned [d_time] [4] [ofZ 1] [ofZ 5] [] RangeMatch_Inclusive = Err oob /\
  data_slice repaired_except_pinned [d_time] [4] [ofZ 1] [ofZ 1] [Some ("m"%string, "V"%string)] RangeMatch_Inclusive = Err incompatible.
Proof. repeat split; vm_compute; reflexivity. Qed.

(** C18: 500 ms .. 1500 ms on the axis in s selects what 0.5 s .. 1.5 s selects *)
Example rescale_example :
  data_slice repaired_except_pinned [d_time] [4] [ofZ 500] [ofZ 1500] [ms_unit] RangeMatch_Inclusive =
  data_slice repaired_except_pinned [d_time] [4] [half] [ofME 3 (-1)] [dim_unit d_time] RangeMatch_Inclusive /\
  data_slice repaired_except_pinned [d_time] [4] [ofZ 500] [ofZ 1500] [ms_unit] RangeMatch_Inclusive = Ok (mkView [1] [3]).
Proof. split; vm_compute; reflexivity. Qed.

(** * Errors: an empty region and a region that leaves the data are refused *)

Lemma fits_nth : forall sh off cnt j n o c, fits sh off cnt = true ->
  nth_error sh j = Some n -> nth_error off j = Some o -> nth_error cnt j = Some c -> 0 <= o /\ 0 <= c /\ o + c <= n.
Proof.
  induction sh as [|s sh IH]; destruct off as [|o0 off]; destruct cnt as [|c0 cnt]; intros j n o c F Hn Ho Hc;
    try (destruct j; discriminate); cbn [fits] in F; try discriminate.
  rewrite !andb_true_iff in F. destruct F as [F1 F2].
  destruct j as [|j]; cbn [nth_error] in *.
  - inversion Hn; inversion Ho; inversion Hc; subst. lia.
  - eapply IH; eassumption.
Qed.

Theorem slice_oob_rejected_thm : forall B dims shape start end_ units rm j d n s e r,
  slices_repaired B -> slice_hyps dims shape start end_ units rm ->
  (pads_with_positions B = false \/ List.length start = List.length dims) ->
  nth_error dims j = Some d -> nth_error shape j = Some n -> nth_error start j = Some s -> nth_error end_ j = Some e ->
  spec_req d s e (nth j units None) rm = Ok r ->
  ((forall i, ~ region d n r i) \/ (exists i, region d n r i /\ ~ (0 <= i < n))) ->
  exists err, data_slice B dims shape start end_ units rm = Err err.
Proof.
  intros B dims shape start end_ units rm j d n s e r HB HY Hpads Hd Hn Hs He SR Bad.
  pose proof (data_slice_meets_spec B dims shape start end_ units rm HB HY Hpads) as MS.
  destruct (data_slice B dims shape start end_ units rm) as [v|err|w] eqn:E; [exfalso | eexists; reflexivity | contradiction].
  destruct (slice_exact_thm B dims shape start end_ units rm v HB HY Hpads E) as (FT & SPEC & _).
  destruct (SPEC j d n s e Hd Hn Hs He) as (r' & o & c & SR' & Eo & Ec & Hc & Hreg).
  rewrite SR in SR'. inversion SR'; subst r'.
  destruct (fits_nth _ _ _ j n o c FT Hn Eo Ec) as (F0 & F1 & F2).
  destruct Bad as [Empty | (i & Hi & Hout)].
  - apply (Empty o). apply Hreg. lia.
  - apply Hout. apply Hreg in Hi. lia.
Qed.

(** * Row-major order: the element ids a slice delivers *)

Lemma zseq_shift : forall a n, zseq a n = map (fun k => a + k) (zseq 0 n).
Proof. intros. unfold zseq. rewrite map_map. apply map_ext. intro k. lia. Qed.

Lemma zseq_succ : forall n, 0 <= n -> zseq 0 (n + 1) = zseq 0 n ++ [n].
Proof.
  intros n Hn. rewrite zseq_app by lia. f_equal. unfold zseq. change (Z.to_nat 1) with 1%nat. cbn [seq map].
  f_equal. lia.
Qed.

Lemma zrange_split : forall c P, 0 <= P ->
  zseq 0 (Z.of_nat c * P) = flat_map (fun x => map (fun k => x * P + k) (zseq 0 P)) (zseq 0 (Z.of_nat c)).
Proof.
  induction c as [|c IH]; intros P HP.
  - reflexivity.
  - rewrite Nat2Z.inj_succ. unfold Z.succ. rewrite zseq_succ by lia. rewrite flat_map_app. cbn [flat_map]. rewrite app_nil_r.
    rewrite <- IH by assumption.
    replace ((Z.of_nat c + 1) * P) with (Z.of_nat c * P + P) by lia.
    rewrite zseq_app by lia. f_equal. cbn [Z.add]. apply zseq_shift.
Qed.

Lemma flat_map_ext_in2 : forall {A B} (f g : A -> list B) l, (forall x, In x l -> f x = g x) -> flat_map f l = flat_map g l.
Proof.
  induction l as [|x l IH]; intro H; [reflexivity|]. cbn [flat_map]. rewrite (H x) by (left; reflexivity).
  rewrite IH by (intros y Hy; apply H; right; exact Hy). reflexivity.
Qed.

Lemma map_flat_map : forall {A B C} (g : B -> C) (f : A -> list B) l, map g (flat_map f l) = flat_map (fun x => map g (f x)) l.
Proof. induction l as [|x l IH]; [reflexivity|]. cbn [flat_map]. rewrite map_app, IH. reflexivity. Qed.

(** the indices of a box in the order of the flat position = the product of the index ranges, first dimension slowest *)
Lemma unravel_cart : forall cnt, shape_ok cnt -> map (unravel cnt) (zseq 0 (prod cnt)) = cart (map (zseq 0) cnt).
Proof.
  induction cnt as [|c r IH]; intro Hok.
  - reflexivity.
  - apply shape_ok_cons in Hok. destruct Hok as [Hc Hr]. pose proof (prod_nonneg r Hr) as HP.
    cbn [prod map cart]. rewrite <- (IH Hr).
    replace (c * prod r) with (Z.of_nat (Z.to_nat c) * prod r) by lia.
    rewrite zrange_split by assumption. rewrite Z2Nat.id by assumption.
    rewrite map_flat_map. apply flat_map_ext_in2. intros x Hx. apply zseq_In in Hx.
    rewrite !map_map. apply map_ext_in. intros k Hk. apply zseq_In in Hk.
    cbn [unravel]. f_equal.
    + rewrite Z.div_add_l by lia. rewrite Z.div_small by lia. lia.
    + f_equal. rewrite Z.add_comm, Z.mod_add by lia. apply Z.mod_small. lia.
Qed.

Lemma tab_cart : forall {A} cnt (f : list Z -> A), shape_ok cnt -> tab cnt f = map f (cart (map (zseq 0) cnt)).
Proof.
  intros A cnt f Hok. rewrite <- unravel_cart by assumption. rewrite map_map. unfold tab, zseq. rewrite map_map.
  apply map_ext. intro k. reflexivity.
Qed.

Lemma cart_shift : forall off cnt, List.length off = List.length cnt ->
  cart (map2 zseq off cnt) = map (vadd off) (cart (map (zseq 0) cnt)).
Proof.
  induction off as [|o off IH]; destruct cnt as [|c cnt]; cbn [List.length]; intro L; try lia.
  - reflexivity.
  - cbn [map2 map cart]. rewrite (IH cnt) by lia. rewrite (zseq_shift o c).
    rewrite map_flat_map. rewrite flat_map_concat_map, map_map, <- flat_map_concat_map.
    apply flat_map_ext_in2. intros x _. rewrite !map_map. apply map_ext. intro r. reflexivity.
Qed.

(** the element ids a slice of the test array delivers are the specification's ids, in the same order *)
Theorem box_ids : forall shape off cnt, shape_ok shape -> fits shape off cnt = true ->
  tab cnt (fun r => get (id_array shape) (vadd off r)) = map VI (spec_ids shape (box_lists off cnt)).
Proof.
  intros shape off cnt Hok F. destruct (fits_lengths _ _ _ F) as [L1 L2].
  pose proof (fits_shape_ok _ _ _ F) as Hc.
  unfold spec_ids, box_lists. rewrite cart_shift by lia. rewrite !map_map.
  rewrite tab_cart by assumption. apply map_ext_in. intros r Hr.
  assert (IB : in_box cnt r = true).
  { rewrite <- unravel_cart in Hr by assumption. apply in_map_iff in Hr. destruct Hr as (k & <- & Hk).
    apply zseq_In in Hk. apply unravel_in_box; [assumption | lia]. }
  unfold get, id_array. cbn [a_shape a_cells zero a_ty].
  apply (tab_at shape (fun i => VI (ravel shape i)) (vadd off r)). eapply fits_in_box; eassumption.
Qed.

Lemma fits_self : forall w, shape_ok w -> fits w (repeat 0 (List.length w)) w = true.
Proof.
  induction w as [|x w IH]; intro H; [reflexivity|]. apply shape_ok_cons in H. destruct H as [Hx Hw].
  cbn [List.length repeat fits]. rewrite (IH Hw), andb_true_r. lia.
Qed.

(** the complete path of the drivers: dataSlice, then DataView::getData of the whole view, on the array that holds
    its own flat indices, delivers the specification's element ids in the specification's (row-major) order *)
Theorem slice_read_ids : forall B dims shape start end_ units rm v,
  view_check_wraps B = false ->
  shape_ok shape -> all_u64 shape -> Forall (fun s => s < u64max) shape -> (List.length shape <= 32)%nat ->
  data_slice B dims shape start end_ units rm = Ok v ->
  fits shape (v_offset v) (v_count v) = true ->
  slice_read B dims (id_array shape) start end_ units rm =
  Ok (v_count v, map VI (spec_ids shape (box_lists (v_offset v) (v_count v)))).
Proof.
  intros B dims shape start end_ units rm v HB Hok Hu Hm Hr H F.
  unfold slice_read. change (a_shape (id_array shape)) with shape. rewrite H. cbn [bind view_extent].
  destruct (fits_lengths _ _ _ F) as [L1 L2]. pose proof (fits_shape_ok _ _ _ F) as Hc.
  destruct (fits_u64 _ _ _ Hu F) as [Uo Uc].
  assert (OK : view_ok (id_array shape) v).
  { constructor; try assumption. split; [assumption | apply tab_length]. }
  assert (RC : real_count v (v_count v) = v_count v) by (unfold real_count; destruct (v_count v); reflexivity).
  assert (IN : inside_window v (v_count v) [] = true).
  { unfold inside_window. rewrite RC. cbn [real_offset]. apply fits_self. assumption. }
  destruct (view_read_inside B (id_array shape) v (v_count v) [] HB OK Uc ltac:(constructor) IN) as [_ E].
  unfold view_extent. rewrite E. cbn [bind]. rewrite RC. cbn [real_offset].
  replace (List.length (v_count v)) with (List.length (v_offset v)) by lia. rewrite vadd_zeros.
  rewrite box_ids by assumption. reflexivity.
Qed.

(** * [axis_ok] for the other dimension kinds *)

(** integer axes (set, data frame) and tick axes meet [axis_ok] *)
Lemma n_count_bound : forall k, 0 <= k <= AXIS_MAX + 1 -> exists N, n_count k = Some N /\ 0 < N <= AXIS_MAX + 1.
Proof. intros k Hk. unfold n_count. destruct (k =? 0) eqn:E; eexists; (split; [reflexivity|]); unfold AXIS_MAX in *; lia. Qed.

Theorem int_axis_ok : forall d, (exists l, d = DSet l /\ zlen l <= AXIS_MAX + 1) \/ (exists r, d = DFrame r /\ 0 <= r <= AXIS_MAX + 1) -> axis_ok d.
Proof.
  intros d Hd.
  assert (H : dim_x d = x_int /\ 0 < dim_N d <= AXIS_MAX + 1).
  { destruct Hd as [(l & -> & Hl) | (r & -> & Hr)]; (split; [reflexivity|]); unfold dim_N; cbn [dim_n].
    - destruct (n_count_bound (zlen l)) as (N & -> & HN); [unfold zlen in *; lia | exact HN].
    - destruct (n_count_bound r Hr) as (N & -> & HN). exact HN. }
  destruct H as [Ex HN]. unfold AXIS_MAX in HN.
  constructor; rewrite ?Ex; unfold x_int.
  - intros i Hi. apply ofZ_exact. lia.
  - intros i j Hij Hj. destruct (ofZ_exact i ltac:(lia)) as [-> _]. destruct (ofZ_exact j ltac:(lia)) as [-> _].
    apply IZR_le. lia.
  - unfold AXIS_MAX. lia.
Qed.

Theorem range_axis_ok : forall ticks u,
  zlen ticks <= AXIS_MAX + 1 ->
  (forall i, 0 <= i < zlen ticks -> finite (tick_at ticks i)) ->
  (forall i j, 0 <= i <= j -> j < zlen ticks -> (B2R (tick_at ticks i) <= B2R (tick_at ticks j))%R) ->
  axis_ok (DRange ticks u).
Proof. intros ticks u Hl Hf Hm. constructor; cbn [dim_x dim_N dim_n]; assumption. Qed.
